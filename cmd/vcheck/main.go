// vcheck is the driver of the /verif runtime monitors for golang/net.
//
//	vcheck <ID> [--tier quick|thorough] [--seed N] [--replay path]
//	vcheck manifest            regenerate MANIFEST.json from checks.json
//	vcheck overlay             only (re)write build/overlay.json and build/go.mod
//
// Exit status: 0 held on what was observed, 1 violation (with a `VIOLATION property=<id>
// replay=<path>` line), 2 inconclusive (tree does not build, watchdog, floor not reached).
package main

import (
	"bytes"
	"encoding/json"
	"fmt"
	"io/fs"
	"os"
	"os/exec"
	"path/filepath"
	"regexp"
	"sort"
	"strconv"
	"strings"
	"syscall"
	"time"
)

const (
	verifDir = "/verif"
	repoDir  = "/repo"
)

type Check struct {
	ID         string   `json:"id"`
	Pkg        string   `json:"pkg"`  // package dir relative to /repo, e.g. ./http2/hpack
	Pkgs       []string `json:"pkgs"` // optional extra packages run with the same -run pattern
	Race       string   `json:"race"` // "", "thorough", "both"
	TimeoutQ   int      `json:"timeout_quick_s"`
	TimeoutT   int      `json:"timeout_thorough_s"`
	Level      string   `json:"level"`
	Technique  string   `json:"technique"`
	LevelText  string   `json:"level_text"`
	LevelNote  string   `json:"level_note"`
	DesignRef  string   `json:"design_ref"`
	Failpoints []string `json:"failpoints"` // names in failpoints/*.json to activate
	Extra      []string `json:"extra_go_flags"`
	Env        []string `json:"env"`
	Engine     string   `json:"engine"`
}

type NA struct {
	PropertyID string `json:"property_id"`
	Reason     string `json:"reason"`
}

type ChecksFile struct {
	Checks        []Check `json:"checks"`
	NotApplicable []NA    `json:"not_applicable"`
	Notes         string  `json:"notes"`
}

type Failpoint struct {
	Name   string `json:"name"`
	File   string `json:"file"`   // relative to /repo
	Anchor string `json:"anchor"` // a line (trimmed) that must match exactly once
	Insert string `json:"insert"` // line inserted after the anchor line
}

// overlayFiles (--overlay-file rel=abs) maps a replacement over a /repo source file for this
// run only: how a mutated source file is tried against a monitor without touching /repo.
var overlayFiles = map[string]string{}

func loadChecks() ChecksFile {
	var cf ChecksFile
	b, err := os.ReadFile(filepath.Join(verifDir, "checks.json"))
	if err != nil {
		fatal(2, "cannot read checks.json: %v", err)
	}
	if err := json.Unmarshal(b, &cf); err != nil {
		fatal(2, "bad checks.json: %v", err)
	}
	// one fragment per property under checks.d/ (same shape as an entry of "checks")
	frags, _ := filepath.Glob(filepath.Join(verifDir, "checks.d", "*.json"))
	sort.Strings(frags)
	for _, p := range frags {
		fb, err := os.ReadFile(p)
		if err != nil {
			continue
		}
		var c Check
		if err := json.Unmarshal(fb, &c); err != nil || c.ID == "" {
			fatal(2, "bad fragment %s: %v", p, err)
		}
		dup := false
		for i := range cf.Checks {
			if cf.Checks[i].ID == c.ID {
				cf.Checks[i] = c
				dup = true
			}
		}
		if !dup {
			cf.Checks = append(cf.Checks, c)
		}
	}
	sort.Slice(cf.Checks, func(i, j int) bool { return cf.Checks[i].ID < cf.Checks[j].ID })
	return cf
}

func fatal(code int, f string, a ...any) {
	fmt.Fprintf(os.Stderr, "vcheck: "+f+"\n", a...)
	os.Exit(code)
}

// writeOverlay maps every file below /verif/harness/<rel> onto /repo/<rel> and, for the
// requested failpoints, a patched copy of one source file over the original.
//
// Only the files a check needs are mapped: everything under internal/verifrt (support
// packages), and elsewhere files named zz_verif_util* (shared by a package's monitors) or
// carrying the property id in their name (zz_verif_C19_C20_test.go serves C19 and C20). A
// monitor that stops compiling on an edited tree therefore only takes its own check down.
func writeOverlay(buildDir string, id string, fps []string) (overlay, modfile string, missing []string) {
	repl := map[string]string{}
	for rel, abs := range overlayFiles {
		repl[filepath.Join(repoDir, rel)] = abs
	}
	root := filepath.Join(verifDir, "harness")
	filepath.WalkDir(root, func(p string, d fs.DirEntry, err error) error {
		if err != nil || d.IsDir() {
			return nil
		}
		rel, _ := filepath.Rel(root, p)
		base := filepath.Base(rel)
		if !strings.HasPrefix(rel, "internal/verifrt/") && !strings.HasPrefix(base, "zz_verif_util") &&
			!strings.Contains(base, "_"+id+"_") && !strings.Contains(base, "_"+id+".") {
			return nil
		}
		repl[filepath.Join(repoDir, rel)] = p
		return nil
	})
	for _, name := range fps {
		b, err := os.ReadFile(filepath.Join(verifDir, "failpoints", name+".json"))
		if err != nil {
			missing = append(missing, name+": no description")
			continue
		}
		var fp Failpoint
		if json.Unmarshal(b, &fp) != nil {
			missing = append(missing, name+": bad description")
			continue
		}
		srcPath := filepath.Join(repoDir, fp.File)
		if o, ok := overlayFiles[fp.File]; ok {
			srcPath = o // failpoint goes on top of a --overlay-file replacement
		}
		src, err := os.ReadFile(srcPath)
		if err != nil {
			missing = append(missing, name+": source missing")
			continue
		}
		lines := strings.Split(string(src), "\n")
		at := -1
		n := 0
		for i, ln := range lines {
			if strings.TrimSpace(ln) == fp.Anchor {
				at = i
				n++
			}
		}
		if n != 1 {
			missing = append(missing, fmt.Sprintf("%s: anchor matches %d lines", name, n))
			continue
		}
		out := append([]string{}, lines[:at+1]...)
		out = append(out, fp.Insert)
		out = append(out, lines[at+1:]...)
		dst := filepath.Join(buildDir, "fp_"+name+"_"+filepath.Base(fp.File))
		os.WriteFile(dst, []byte(strings.Join(out, "\n")), 0o644)
		repl[filepath.Join(repoDir, fp.File)] = dst
	}
	ov, _ := json.MarshalIndent(map[string]any{"Replace": repl}, "", " ")
	overlay = filepath.Join(buildDir, "overlay.json")
	os.WriteFile(overlay, ov, 0o644)

	gm, err := os.ReadFile(filepath.Join(repoDir, "go.mod"))
	if err != nil {
		fatal(2, "cannot read /repo/go.mod: %v", err)
	}
	gm = append(gm, []byte("\nrequire github.com/anishathalye/porcupine v1.3.0\n")...)
	modfile = filepath.Join(buildDir, "go.mod")
	os.WriteFile(modfile, gm, 0o644)
	gs, _ := os.ReadFile(filepath.Join(repoDir, "go.sum"))
	extra, _ := os.ReadFile(filepath.Join(verifDir, "cmd", "vcheck", "porcupine.sum"))
	os.WriteFile(filepath.Join(buildDir, "go.sum"), append(gs, extra...), 0o644)
	return
}

type Result struct {
	Property    string           `json:"property"`
	Evaluations int64            `json:"evaluations"`
	Distinct    int64            `json:"distinct_nontrivial"`
	Rule        string           `json:"rule"`
	Events      map[string]int64 `json:"events"`
	Samples     []any            `json:"samples"`
	Violations  []struct {
		Key, Detail, Replay, Stream string
		Index                       int
	} `json:"violations"`
	NViolations int `json:"n_violations"`
	Known       []struct {
		Key, Desc, First string
		Count            int
	} `json:"known"`
	Inconclusive []string       `json:"inconclusive"`
	Notes        []string       `json:"notes"`
	Assumptions  []string       `json:"assumptions"`
	Extra        map[string]any `json:"extra"`
	Finished     bool           `json:"finished"`
}

func main() {
	if len(os.Args) < 2 {
		fatal(2, "usage: vcheck <ID>|manifest|overlay [--tier quick|thorough] [--seed N] [--replay path]")
	}
	switch os.Args[1] {
	case "manifest":
		genManifest()
		return
	case "overlay":
		bd := filepath.Join(verifDir, "build", "_shared")
		os.MkdirAll(bd, 0o755)
		o, m, _ := writeOverlay(bd, "ALL", nil)
		fmt.Println(o, m)
		return
	}
	id := os.Args[1]
	tier := os.Getenv("VERIF_TIER")
	seedStr := os.Getenv("VERIF_SEED")
	replay := ""
	keep := false
	for i := 2; i < len(os.Args); i++ {
		switch os.Args[i] {
		case "--tier":
			i++
			tier = os.Args[i]
		case "--seed":
			i++
			seedStr = os.Args[i]
		case "--replay":
			i++
			replay = os.Args[i]
		case "--keep-evidence":
			keep = true
		case "--overlay-file":
			i++
			rel, abs, ok := strings.Cut(os.Args[i], "=")
			if !ok {
				fatal(2, "--overlay-file wants <path relative to /repo>=<absolute replacement>")
			}
			abs, _ = filepath.Abs(abs)
			overlayFiles[rel] = abs
			keep = true
		default:
			fatal(2, "unknown argument %q", os.Args[i])
		}
	}
	if tier != "thorough" {
		tier = "quick"
	}
	seed, err := strconv.ParseInt(seedStr, 10, 64)
	if err != nil {
		seed = 1
	}
	cf := loadChecks()
	var ck *Check
	for i := range cf.Checks {
		if cf.Checks[i].ID == id {
			ck = &cf.Checks[i]
		}
	}
	if ck == nil {
		fatal(2, "no check registered for %s", id)
	}
	os.Exit(runCheck(ck, tier, seed, replay, keep))
}

func runCheck(ck *Check, tier string, seed int64, replay string, keepEvidence bool) int {
	start := time.Now()
	buildDir := filepath.Join(verifDir, "build", ck.ID)
	if len(overlayFiles) > 0 {
		buildDir = filepath.Join(verifDir, "build", fmt.Sprintf("%s-mut%d", ck.ID, os.Getpid()))
		defer os.RemoveAll(buildDir)
	}
	outDir := filepath.Join(buildDir, "out")
	if replay != "" {
		outDir = filepath.Join(buildDir, "replay_out")
	}
	os.RemoveAll(outDir)
	os.MkdirAll(outDir, 0o755)
	overlay, modfile, fpMissing := writeOverlay(buildDir, ck.ID, ck.Failpoints)

	race := ck.Race == "both" || (ck.Race == "thorough" && tier == "thorough")
	timeout := ck.TimeoutQ
	if tier == "thorough" {
		timeout = ck.TimeoutT
	}
	if timeout <= 0 {
		timeout = 600
		if tier == "thorough" {
			timeout = 3600
		}
	}
	pkgs := append([]string{ck.Pkg}, ck.Pkgs...)
	logPath := filepath.Join(outDir, "child.log")
	var logs string
	var res Result
	var haveRes, watchdog bool
	var werr error
	execute := func(race bool) {
		os.Remove(filepath.Join(outDir, "result.json"))
		res = Result{}
		haveRes, watchdog, werr = false, false, nil
		args := []string{"test", "-modfile=" + modfile, "-overlay=" + overlay, "-tags", "verif", "-vet=off", "-count=1",
			"-run", "^TestVerif_" + ck.ID + "$", "-timeout", fmt.Sprintf("%ds", timeout), "-v"}
		if race {
			args = append(args, "-race")
		}
		args = append(args, ck.Extra...)
		args = append(args, pkgs...)
		cmd := exec.Command("go", args...)
		cmd.Dir = repoDir
		env := []string{}
		for _, e := range os.Environ() {
			if strings.HasPrefix(e, "GOFLAGS=") || strings.HasPrefix(e, "GOPROXY=") || strings.HasPrefix(e, "GOTOOLCHAIN=") ||
				strings.HasPrefix(e, "GOSUMDB=") || (strings.HasPrefix(e, "VERIF_") && !strings.HasPrefix(e, "VERIF_DEBUG=")) || strings.HasPrefix(e, "GORACE=") {
				continue
			}
			env = append(env, e)
		}
		env = append(env, "GOFLAGS=-mod=mod", "GOPROXY=off",
			"VERIF_SEED="+strconv.FormatInt(seed, 10), "VERIF_TIER="+tier, "VERIF_OUT="+outDir,
			"VERIF_KNOWN="+filepath.Join(verifDir, "known_findings.txt"),
			"VERIF_DIR="+verifDir,
			"GORACE=halt_on_error=1")
		if replay != "" {
			abs, _ := filepath.Abs(replay)
			env = append(env, "VERIF_REPLAY="+abs)
		}
		if len(fpMissing) > 0 {
			env = append(env, "VERIF_FAILPOINT_MISSING="+strings.Join(fpMissing, ";"))
		}
		env = append(env, ck.Env...)
		cmd.Env = env
		lf, _ := os.Create(logPath)
		cmd.Stdout = lf
		cmd.Stderr = lf
		cmd.SysProcAttr = &syscall.SysProcAttr{Setpgid: true}
		// outer watchdog (go test's own -timeout normally fires first and dumps goroutines)
		done := make(chan error, 1)
		if err := cmd.Start(); err != nil {
			fatal(2, "cannot start go: %v", err)
		}
		go func() { done <- cmd.Wait() }()
		select {
		case werr = <-done:
		case <-time.After(time.Duration(timeout+120) * time.Second):
			watchdog = true
			syscall.Kill(-cmd.Process.Pid, syscall.SIGKILL)
			werr = <-done
		}
		lf.Close()
		logb, _ := os.ReadFile(logPath)
		logs = string(logb)

		if b, err := os.ReadFile(filepath.Join(outDir, "result.json")); err == nil {
			if json.Unmarshal(b, &res) == nil && res.Finished {
				haveRes = true
			}
		}

	}
	execute(race)
	raceNote := ""
	if race && !haveRes && toolchainCrash(logs) {
		// The race-detector runtime itself died (ThreadSanitizer CHECK failure, or a fatal
		// error with no golang.org/x/net frame on any stack): that says nothing about the
		// property. Keep the log and run the same cases again without -race.
		os.Rename(logPath, filepath.Join(outDir, "child.race-crash.log"))
		raceNote = "the -race run died inside the Go/ThreadSanitizer runtime (log kept as child.race-crash.log); the verdict comes from a rerun without -race"
		race = false
		execute(false)
	}

	if !haveRes && !watchdog && replay == "" {
		// A child that died inside harness code (not in golang.org/x/net, not on the watchdog)
		// tells nothing about the property; such deaths have been scheduling-dependent (a
		// testing/synctest abort), so the same cases are run once more before giving up.
		if _, harnessOnly := crashKey(logs); harnessOnly && !strings.Contains(logs, "[build failed]") && strings.Contains(logs, "=== RUN") {
			os.Rename(logPath, filepath.Join(outDir, "child.harness-crash.log"))
			if raceNote != "" {
				raceNote += "; "
			}
			raceNote += "a first run died inside harness code (log kept as child.harness-crash.log); the verdict comes from a second run of the same cases"
			execute(race)
		}
	}

	verdict := 0 // 0 held, 1 violation, 2 inconclusive
	var lines []string
	var inconc []string
	nviol := 0

	for _, k := range res.Known {
		lines = append(lines, fmt.Sprintf("KNOWN-FINDING: property=%s %s (%s; seen %d times this run)", ck.ID, k.Key, k.Desc, k.Count))
	}
	if haveRes {
		for _, v := range res.Violations {
			lines = append(lines, fmt.Sprintf("VIOLATION property=%s replay=%s", ck.ID, v.Replay))
			lines = append(lines, "  key="+v.Key+" "+firstLine(v.Detail))
		}
		nviol = res.NViolations
		if nviol > 0 {
			verdict = 1
		}
		inconc = append(inconc, res.Inconclusive...)
	}
	// child-level failures
	buildFailed := strings.Contains(logs, "[build failed]") || strings.Contains(logs, "[setup failed]") ||
		regexp.MustCompile(`(?m)^# golang.org/x/net`).MatchString(logs) && !haveRes && !strings.Contains(logs, "=== RUN")
	// Violations the monitor recorded (replay file written, line printed at once) before the
	// child died or ran into its time limit stand, whatever happened afterwards: a tree that
	// breaks the property often also hangs or crashes a later case.
	early := 0
	if !haveRes && !buildFailed {
		seen := map[string]bool{}
		for _, m := range regexp.MustCompile(`(?m)^VERIF-VIOLATION property=(\S+) key=(.*) replay=(\S+)$`).FindAllStringSubmatch(logs, -1) {
			if m[1] != ck.ID || seen[m[3]] {
				continue
			}
			seen[m[3]] = true
			if _, err := os.Stat(m[3]); err != nil {
				continue
			}
			lines = append(lines, fmt.Sprintf("VIOLATION property=%s replay=%s", ck.ID, m[3]))
			lines = append(lines, "  key="+m[2]+" (recorded before the child process ended abnormally)")
			early++
		}
		if early > 0 {
			nviol += early
			verdict = 1
		}
	}
	if !haveRes {
		switch {
		case buildFailed:
			inconc = append(inconc, "tree+harness does not build (see "+logPath+")")
		case watchdog || strings.Contains(logs, "panic: test timed out"):
			inconc = append(inconc, "watchdog: child exceeded its time limit (see "+logPath+")")
		case strings.Contains(logs, "no test files") || strings.Contains(logs, "no tests to run"):
			inconc = append(inconc, "monitor test not found")
		default:
			// The child died: runtime fatal error, unrecovered panic on another goroutine,
			// race report with halt_on_error. Attribute it using the log + breadcrumb.
			key, harnessOnly := crashKey(logs)
			rp := crashReplay(ck.ID, outDir, seed, tier, key, logs)
			if toolchainCrash(logs) {
				inconc = append(inconc, "child died inside the Go runtime with no golang.org/x/net frame on any stack: "+key+" (see "+logPath+")")
			} else if harnessOnly {
				inconc = append(inconc, "child died inside harness code: "+key+" (see "+logPath+")")
			} else if known, desc := isKnown(ck.ID, key); known {
				lines = append(lines, fmt.Sprintf("KNOWN-FINDING: property=%s %s (%s; child process died)", ck.ID, key, desc))
				inconc = append(inconc, "child died on a known finding before finishing")
			} else {
				lines = append(lines, fmt.Sprintf("VIOLATION property=%s replay=%s", ck.ID, rp))
				lines = append(lines, "  key="+key)
				nviol++
				verdict = 1
			}
		}
	} else if werr != nil {
		// result.json was written (monitor finished) but go test still failed: a race report
		// (the race detector only fails the test at its end when halt_on_error did not stop
		// it first), a leaked-goroutine panic, or a failure in another package of the run.
		// A race between two golang/net stacks is reported whatever else the monitor found.
		if strings.Contains(logs, "WARNING: DATA RACE") {
			key, harnessOnly := crashKey(logs)
			if harnessOnly {
				inconc = append(inconc, "race inside harness code: "+key)
			} else if known, desc := isKnown(ck.ID, key); known {
				lines = append(lines, fmt.Sprintf("KNOWN-FINDING: property=%s %s (%s; race report)", ck.ID, key, desc))
			} else {
				rp := crashReplay(ck.ID, outDir, seed, tier, key, logs)
				lines = append(lines, fmt.Sprintf("VIOLATION property=%s replay=%s", ck.ID, rp))
				lines = append(lines, "  key="+key)
				nviol++
				verdict = 1
			}
		} else if nviol == 0 && (strings.Contains(logs, "--- FAIL") || strings.Contains(logs, "FAIL\t")) {
			inconc = append(inconc, "go test failed although the monitor reported no violation (see "+logPath+")")
		}
	}
	if m := os.Getenv("VERIF_FAILPOINT_MISSING"); m != "" {
		_ = m
	}
	if verdict == 0 && len(inconc) > 0 {
		verdict = 2
	}
	// evidence
	if replay == "" && !keepEvidence {
		ev := map[string]any{
			"property_id": ck.ID, "tier": tier, "seed": seed, "level": ck.Level,
			"wall_s": round1(time.Since(start).Seconds()), "violations": nviol,
		}
		cov := map[string]any{
			"evaluations": res.Evaluations, "distinct_nontrivial": res.Distinct, "rule": res.Rule,
			"samples": res.Samples, "events": res.Events, "race_detector": race,
			"verdict": []string{"held-on-observed", "violated", "inconclusive"}[verdict],
		}
		if res.Samples == nil {
			cov["samples"] = []any{}
		}
		for k, v := range res.Extra {
			if k == "exhaustive" {
				// the schema wants a boolean; a textual description of the enumerated
				// dimension goes under its own key
				if _, isBool := v.(bool); !isBool {
					k = "exhaustive_dimension"
				}
			}
			if _, dup := cov[k]; !dup {
				cov[k] = v
			}
		}
		if len(inconc) > 0 {
			cov["inconclusive"] = inconc
		}
		if raceNote != "" {
			res.Notes = append(res.Notes, raceNote)
		}
		if len(res.Notes) > 0 {
			cov["notes"] = res.Notes
		}
		if len(fpMissing) > 0 {
			cov["failpoint_missing"] = fpMissing
		}
		if len(res.Known) > 0 {
			kn := []string{}
			for _, k := range res.Known {
				kn = append(kn, fmt.Sprintf("%s x%d", k.Key, k.Count))
			}
			cov["known_findings_seen"] = kn
		}
		ev["coverage"] = cov
		as := append([]string{}, res.Assumptions...)
		if ck.LevelNote != "" {
			as = append(as, ck.LevelNote)
		}
		ev["assumptions"] = as
		if verdict == 0 && (res.Evaluations < 1 || res.Distinct < 2 || len(res.Samples) < 1) {
			inconc = append(inconc, "too little observed for a verdict (evaluations/distinct/samples below the evidence floor)")
			cov["inconclusive"] = inconc
			cov["verdict"] = "inconclusive"
			verdict = 2
		}
		b, _ := json.MarshalIndent(ev, "", " ")
		os.MkdirAll(filepath.Join(verifDir, "evidence"), 0o755)
		os.WriteFile(filepath.Join(verifDir, "evidence", ck.ID+".json"), append(b, '\n'), 0o644)
	}
	for _, l := range lines {
		fmt.Println(l)
	}
	for _, s := range inconc {
		fmt.Printf("INCONCLUSIVE property=%s %s\n", ck.ID, s)
	}
	ev := ""
	if len(res.Events) > 0 {
		ks := []string{}
		for k := range res.Events {
			ks = append(ks, k)
		}
		sort.Strings(ks)
		var sb strings.Builder
		for _, k := range ks {
			fmt.Fprintf(&sb, " %s=%d", k, res.Events[k])
		}
		ev = sb.String()
	}
	fmt.Printf("%s %s seed=%d tier=%s race=%v: %s; %d evaluations, %d distinct non-trivial;%s (%.1fs)\n",
		ck.ID, ck.Technique, seed, tier, race, []string{"HELD on what was observed", "VIOLATED", "INCONCLUSIVE"}[verdict],
		res.Evaluations, res.Distinct, ev, time.Since(start).Seconds())
	return verdict
}

// toolchainCrash reports whether a dead child's log shows a crash of the Go runtime or of
// the ThreadSanitizer runtime that involves no golang.org/x/net code at all.
func toolchainCrash(logs string) bool {
	if strings.Contains(logs, "ThreadSanitizer: CHECK failed") || strings.Contains(logs, "FATAL: ThreadSanitizer") {
		return true
	}
	if strings.Contains(logs, "WARNING: DATA RACE") || strings.Contains(logs, "panic: test timed out") {
		return false
	}
	if at := strings.Index(logs, "fatal error:"); at >= 0 || strings.Contains(logs, "SIGSEGV") {
		if at < 0 {
			at = strings.Index(logs, "SIGSEGV")
		}
		sect := logs[at:]
		if len(sect) > 60000 {
			sect = sect[:60000]
		}
		return len(frameRe.FindAllStringSubmatch(sect, -1)) == 0
	}
	return false
}

func round1(f float64) float64 { return float64(int(f*10+0.5)) / 10 }

func firstLine(s string) string {
	if i := strings.IndexByte(s, '\n'); i >= 0 {
		s = s[:i]
	}
	if len(s) > 300 {
		s = s[:300]
	}
	return s
}

var frameRe = regexp.MustCompile(`(?m)^\s*(golang\.org/x/net/\S+)\(`)

// crashKey derives a signature from a dead child's log and says whether only harness
// frames were involved.
func crashKey(logs string) (string, bool) {
	kind := "crash"
	at := 0
	switch {
	case strings.Contains(logs, "WARNING: DATA RACE"):
		kind = "race"
		at = strings.Index(logs, "WARNING: DATA RACE")
	case strings.Contains(logs, "fatal error: checkptr"):
		kind = "checkptr"
		at = strings.Index(logs, "fatal error: checkptr")
	case strings.Contains(logs, "fatal error:"):
		at = strings.Index(logs, "fatal error:")
		kind = "fatal:" + strings.Join(strings.Fields(firstLine(logs[at+len("fatal error:"):])), "_")
	case strings.Contains(logs, "panic:"):
		at = strings.Index(logs, "panic:")
		msg := firstLine(logs[at+len("panic:"):])
		if len(msg) > 60 {
			msg = msg[:60]
		}
		kind = "panic:" + strings.Join(strings.Fields(msg), "_")
	case strings.Contains(logs, "ERROR: AddressSanitizer"):
		kind = "asan"
		at = strings.Index(logs, "ERROR: AddressSanitizer")
	}
	sect := logs[at:]
	if len(sect) > 20000 {
		sect = sect[:20000]
	}
	// A panic or a fatal error is raised by one goroutine, the first one of the dump: the other
	// stacks (TestMain waiting, parked connection loops) say nothing about who failed. A deadlock
	// report and a race report have no such goroutine and are read whole.
	if (strings.HasPrefix(kind, "panic:") || strings.HasPrefix(kind, "fatal:") || kind == "checkptr") && !strings.Contains(kind, "deadlock") {
		if g := strings.Index(sect, "\ngoroutine "); g >= 0 {
			blk := sect[g+1:]
			if e := strings.Index(blk, "\n\n"); e >= 0 {
				blk = blk[:e]
			}
			if len(frameRe.FindAllStringSubmatch(blk, -1)) > 0 || strings.Contains(kind, "synctest_bubble") {
				sect = blk
			}
		}
	}
	ms := frameRe.FindAllStringSubmatch(sect, -1)
	first := ""
	nonHarness := 0
	// A frame is harness code when its function is named so or when the source line that
	// follows it in the trace is a harness file (zz_verif_* overlaid into the package
	// directory, or anything under /verif): helper functions carry short prefixes (vlp, vsrv,
	// c21 ...) that do not say "verif".
	lines := strings.Split(sect, "\n")
	harnessFn := map[string]bool{}
	for i, ln := range lines {
		if m := frameRe.FindStringSubmatch(ln); m != nil && i+1 < len(lines) {
			if strings.Contains(lines[i+1], "zz_verif") || strings.Contains(lines[i+1], "/verif/") {
				harnessFn[m[1]] = true
			}
		}
	}
	for _, m := range ms {
		fn := m[1]
		if strings.Contains(fn, "verif") || strings.Contains(fn, "Verif") || harnessFn[fn] {
			continue
		}
		nonHarness++
		if first == "" {
			first = strings.TrimPrefix(fn, "golang.org/x/net/")
		}
	}
	if first == "" {
		first = "?"
	}
	// testing/synctest aborts the process when a bubble is misused; golang.org/x/net has no
	// bubble-aware code, so such an abort is the harness's (or the runtime's) doing.
	if strings.Contains(kind, "synctest_bubble") {
		return kind + "@" + first, true
	}
	return kind + "@" + first, nonHarness == 0 && len(ms) > 0
}

func crashReplay(id, outDir string, seed int64, tier, key, logs string) string {
	stream, index := "", 0
	if b, err := os.ReadFile(filepath.Join(outDir, "crumb")); err == nil {
		// last written slot is unknown for parallel runs; take slot 0 and list the others
		for i := 0; i+128 <= len(b); i += 128 {
			f := strings.Fields(string(bytes.TrimRight(b[i:i+128], " \n\x00")))
			if len(f) == 2 {
				stream = f[0]
				index, _ = strconv.Atoi(f[1])
				break
			}
		}
	}
	tail := logs
	if len(tail) > 6000 {
		tail = tail[len(tail)-6000:]
	}
	rs := map[string]any{"property": id, "seed": seed, "tier": tier, "stream": stream, "index": index, "key": key, "detail": "child process died; log tail:\n" + tail}
	b, _ := json.MarshalIndent(rs, "", " ")
	p := filepath.Join(outDir, "replay_crash.json")
	os.WriteFile(p, b, 0o644)
	return p
}

func isKnown(id, key string) (bool, string) {
	b, err := os.ReadFile(filepath.Join(verifDir, "known_findings.txt"))
	if err != nil {
		return false, ""
	}
	for _, ln := range strings.Split(string(b), "\n") {
		f := strings.Fields(ln)
		if len(f) >= 2 && f[0] == "property="+id && f[1] == "key="+key {
			return true, strings.Join(f[2:], " ")
		}
	}
	return false, ""
}

func genManifest() {
	cf := loadChecks()
	type lvl struct {
		Category  string `json:"category"`
		Text      string `json:"text"`
		DesignRef string `json:"design_ref,omitempty"`
	}
	type mcheck struct {
		PropertyID string `json:"property_id"`
		Quick      string `json:"quick_cmd"`
		Thorough   string `json:"thorough_cmd"`
		Evidence   string `json:"evidence_file"`
		Replay     string `json:"replay_cmd_template"`
		Engine     string `json:"engine"`
		Level      lvl    `json:"level_claimed"`
		Note       string `json:"level_note"`
		Technique  string `json:"technique"`
	}
	var mcs []mcheck
	byEngine := map[string][]string{}
	// Only checks listed in checks.enabled are claimed: a fragment under checks.d may belong
	// to a monitor that is still being built or calibrated.
	enabled := map[string]bool{}
	if eb, err := os.ReadFile(filepath.Join(verifDir, "checks.enabled")); err == nil {
		for _, f := range strings.Fields(string(eb)) {
			enabled[f] = true
		}
	}
	var claimed []Check
	for _, c := range cf.Checks {
		if enabled[c.ID] {
			claimed = append(claimed, c)
		}
	}
	cf.Checks = claimed
	for _, c := range cf.Checks {
		eng := c.Engine
		if eng == "" {
			eng = "vcheck"
		}
		mcs = append(mcs, mcheck{
			PropertyID: c.ID,
			Quick:      "bin/vcheck " + c.ID + " --tier quick",
			Thorough:   "bin/vcheck " + c.ID + " --tier thorough",
			Evidence:   "/verif/evidence/" + c.ID + ".json",
			Replay:     "bin/vcheck " + c.ID + " --replay {path}",
			Engine:     eng,
			Level:      lvl{c.Level, c.LevelText, c.DesignRef},
			Note:       c.LevelNote,
			Technique:  c.Technique,
		})
		byEngine[eng] = append(byEngine[eng], c.ID)
	}
	var hooks map[string]any
	hb, err := os.ReadFile(filepath.Join(verifDir, "hooks.json"))
	if err != nil || json.Unmarshal(hb, &hooks) != nil {
		fatal(2, "hooks.json missing or bad")
	}
	engines := []map[string]any{}
	for e, ids := range byEngine {
		engines = append(engines, map[string]any{"name": e, "path": "/verif/cmd/vcheck", "serves_properties": ids,
			"kind_free_text": "driver: overlays /verif/harness monitors onto the current /repo tree, runs one `go test -run TestVerif_<ID>` child per property (optionally -race), turns result.json / crash logs into verdict + evidence"})
	}
	na := cf.NotApplicable
	if na == nil {
		na = []NA{}
	}
	// every given property without a registered check is listed as not claimed
	have := map[string]bool{}
	for _, c := range cf.Checks {
		have[c.ID] = true
	}
	for _, n := range na {
		have[n.PropertyID] = true
	}
	if pb, err := os.ReadFile(filepath.Join(verifDir, "properties.jsonl")); err == nil {
		for _, ln := range strings.Split(string(pb), "\n") {
			var p struct {
				ID string `json:"id"`
			}
			if json.Unmarshal([]byte(ln), &p) == nil && p.ID != "" && !have[p.ID] {
				na = append(na, NA{p.ID, "not claimed: the runtime monitor designed for it in DESIGN.md section 3 is not built/calibrated yet (the technique applies; this is a to-do, not a limitation of the family)"})
			}
		}
	}
	m := map[string]any{
		"version":        1,
		"setup_cmd":      "cd /verif/cmd/vcheck && GOPROXY=off GOFLAGS=-mod=mod go build -o /verif/bin/vcheck . && /verif/bin/vcheck overlay",
		"hooks":          hooks,
		"engines":        engines,
		"checks":         mcs,
		"notes":          cf.Notes,
		"not_applicable": na,
	}
	b, _ := json.MarshalIndent(m, "", " ")
	os.WriteFile(filepath.Join(verifDir, "MANIFEST.json"), append(b, '\n'), 0o644)
	fmt.Printf("MANIFEST.json: %d checks, %d not applicable\n", len(mcs), len(na))
}
