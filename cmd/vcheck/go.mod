module verif/vcheck

go 1.23
