#!/usr/bin/env python3
# usage: tools/seedrecord.py <name under seeded/> <check id> [tier] [seed ...]
# Runs the check against the seeded change (tools/seedrun.sh: overlay, /repo untouched) and records
# the outcome in seeded/<name>/meta.json next to the agent's own description and the confirmation log.
import json,sys,subprocess,os,re
name=sys.argv[1]; check=sys.argv[2]; tier=sys.argv[3] if len(sys.argv)>3 else 'quick'
seeds=sys.argv[4:] or ['1']
d=f'/verif/seeded/{name}'
meta={}
mp=f'{d}/meta.json'
if os.path.exists(mp): meta=json.load(open(mp))
am={}
try: am=json.load(open(f'{d}/agent_meta.json'))
except Exception: pass
meta.setdefault('property', am.get('property', check))
meta['summary']=am.get('summary','')
meta['needs']=am.get('needs','')
meta['files']=am.get('files',[])
meta['demo']=sorted(os.path.relpath(os.path.join(r,f),d) for r,_,fs in os.walk(f'{d}/demo') for f in fs)
meta['confirmed']={'how':'tools/seedverify.sh: fresh worktree of /repo HEAD; git apply patch.diff; go test -run ^$ ./... (all tests build); existing tests of the touched packages and their importers (or ./...) pass; demo fails with the change and passes with it reverted','log':'verify.log'}
runs=meta.setdefault('detection',[])
for s in seeds:
    p=subprocess.run(['/verif/tools/seedrun.sh',d,check,tier,s],capture_output=True,text=True)
    out=p.stdout
    keys=sorted(set(re.findall(r'^\s+key=(\S+)',out,re.M)))
    verdict={0:'missed (held)',1:'caught',2:'inconclusive'}.get(p.returncode,'rc=%d'%p.returncode)
    runs[:]=[r for r in runs if not (r['check']==check and r['tier']==tier and r['seed']==int(s))]
    runs.append({'check':check,'tier':tier,'seed':int(s),'verdict':verdict,'keys':keys[:8],'cmd':f'tools/seedrun.sh seeded/{name} {check} {tier} {s}'})
    print(name,check,tier,s,verdict,keys[:4])
json.dump(meta,open(mp,'w'),indent=1)
