#!/bin/bash
# usage: tools/seedround.sh <suffix> <ID>...   -> prepares /tmp/seed/<ID><suffix> worktrees + prompts that name every
# change already kept for the property (seeded/<ID>*/meta.json summaries) as changes to avoid
cd /verif
suf=$1; shift
mkdir -p /tmp/seed
for id in "$@"; do
  avoid=""
  for m in seeded/$id/meta.json seeded/${id}?/meta.json; do
    [ -f $m ] && avoid="$avoid
  * $(jq -r '.summary' $m | tr '\n' ' ' | cut -c1-500)"
  done
  tools/seedprompt.py $id $suf "$avoid" > /tmp/seed/${id}${suf}.prompt
done
