#!/bin/bash
# usage: tools/sweep.sh <tier> <seed> <parallel> [ids...]   -- runs the registered checks, prints one line per check
tier=${1:-quick}; seed=${2:-1}; par=${3:-4}; shift 3 || true
cd /verif
ids="$@"
if [ -z "$ids" ]; then ids=$(ls checks.d | sed 's/.json//'); fi
out=/verif/build/_sweep/$tier-$seed; mkdir -p $out
run1() { id=$1; s=$(date +%s); bin/vcheck $id --tier $2 --seed $3 > $4/$id.log 2>&1; rc=$?; cp evidence/$id.json $4/$id.evidence.json 2>/dev/null; if [ $rc != 0 ]; then rm -rf $4/$id.out; cp -r build/$id/out $4/$id.out 2>/dev/null; fi; e=$(date +%s); echo "$id rc=$rc $((e-s))s $(grep -c '^VIOLATION' $4/$id.log) viol $(grep -c '^KNOWN-FINDING' $4/$id.log) known"; }
export -f run1
echo $ids | tr ' ' '\n' | xargs -P $par -I{} bash -c "run1 {} $tier $seed $out"
