#!/usr/bin/env python3
# Regenerates the table of seeded changes in DESIGN.md (between the SEEDTABLE markers) from seeded/*/meta.json.
import json,glob,os,re
rows=[]
for mp in sorted(glob.glob('/verif/seeded/*/meta.json')):
    name=os.path.basename(os.path.dirname(mp))
    m=json.load(open(mp))
    det=m.get('detection',[])
    def short(s,n=150):
        s=' '.join(str(s).split()); s=s.replace('|','/')
        return s if len(s)<=n else s[:n-1]+'…'
    caught=[d for d in det if d['verdict']=='caught']
    missed=[d for d in det if d['verdict'].startswith('missed')]
    if caught:
        d=caught[-1]
        v='caught (%s, %s seed %d): `%s`'%(d['check'],d['tier'],d['seed'],'`, `'.join(d['keys'][:2]))
        if m.get('strengthened'): v+=' — after strengthening: '+m['strengthened']
    elif missed:
        v='**missed** ('+', '.join('%s %s s%d'%(d['check'],d['tier'],d['seed']) for d in missed)+')'
        if m.get('note'): v+=' — '+m['note']
    else:
        v='not run'
    rows.append('| %s | %s | %s | %s | %s |'%(name,m.get('property',''),short(m.get('summary','')),short(m.get('needs',''),120),v))
tab='| seeded/ | property | change | needs | result |\n|---|---|---|---|---|\n'+'\n'.join(rows)+'\n'
p='/verif/DESIGN.md'
s=open(p).read()
a='<!-- SEEDTABLE:BEGIN -->\n'; b='<!-- SEEDTABLE:END -->'
if a in s:
    s=s[:s.index(a)+len(a)]+tab+s[s.index(b):]
    open(p,'w').write(s)
print(len(rows),'rows')
