#!/usr/bin/env python3
# Regenerates the table of seeded changes in DESIGN.md (between the SEEDTABLE markers) from seeded/*/meta.json.
import json,glob,os,re
rows=[]
for mp in sorted(glob.glob('/verif/seeded/*/meta.json')):
    name=os.path.basename(os.path.dirname(mp))
    m=json.load(open(mp))
    det=m.get('detection',[])
    def short(s,n=150):
        s=' '.join(str(s).split()); s=s.replace('|','/')
        return s if len(s)<=n else s[:n-1]+'…'
    caught=[d for d in det if d['verdict']=='caught']
    missed=[d for d in det if d['verdict'].startswith('missed')]
    if caught:
        d=caught[-1]
        v='caught (%s, %s seed %d): `%s`'%(d['check'],d['tier'],d['seed'],'`, `'.join(d['keys'][:2]))
        if m.get('strengthened'): v+=' — after strengthening: '+m['strengthened']
    elif missed:
        v='**missed** ('+', '.join('%s %s s%d'%(d['check'],d['tier'],d['seed']) for d in missed)+')'
        if m.get('note'): v+=' — '+m['note']
    else:
        v='not run'
    rows.append('| %s | %s | %s | %s | %s |'%(name,m.get('property',''),short(m.get('summary','')),short(m.get('needs',''),120),v))
tab='| seeded/ | property | change | needs | result |\n|---|---|---|---|---|\n'+'\n'.join(rows)+'\n'
# summary per round (name suffix: none = round 1, b = round 2, c = round 3)
import collections
st=collections.defaultdict(lambda: [0,0,0,0])
for mp in sorted(glob.glob('/verif/seeded/*/meta.json')):
    name=os.path.basename(os.path.dirname(mp)); m=json.load(open(mp))
    rd={'b':2,'c':3,'d':4,'e':5,'f':6,'g':7,'h':8,'i':9,'j':10,'k':11,'l':12}.get(name[-1],1)
    det=m.get('detection',[])
    st[rd][0]+=1
    if any(d['verdict']=='caught' for d in det):
        if m.get('strengthened'): st[rd][2]+=1
        else: st[rd][1]+=1
    else: st[rd][3]+=1
tab+='\nRounds (a later round had to avoid the functions and, where possible, the clauses of the earlier ones):\n\n| round | changes kept | caught by the checks as they were | caught after the check was strengthened | not detected (reason in the row) |\n|---|---|---|---|---|\n'
for rd in sorted(st):
    a=st[rd]; tab+='| %d | %d | %d | %d | %d |\n'%(rd,a[0],a[1],a[2],a[3])
p='/verif/DESIGN.md'
s=open(p).read()
a='<!-- SEEDTABLE:BEGIN -->\n'; b='<!-- SEEDTABLE:END -->'
if a in s:
    s=s[:s.index(a)+len(a)]+tab+s[s.index(b):]
    open(p,'w').write(s)
print(len(rows),'rows')
