#!/bin/bash
# usage: tools/seedrun.sh <seeded-dir-or-patch> <check id> [tier] [seed]
# Runs check <id> against /repo + the given patch WITHOUT touching /repo: the patch is applied in a
# throw-away worktree and every file it changes is mapped over /repo through vcheck --overlay-file.
# (Equivalent to `git -C /repo apply` + run + `git -C /repo checkout -- .`, but safe while other
# jobs are using /repo.)
set -u
p=$1; id=$2; tier=${3:-quick}; seed=${4:-1}
[ -d "$p" ] && p=$p/patch.diff
p=$(readlink -f $p)
wt=$(mktemp -d /tmp/seedrun.XXXXXX)
git -C /repo worktree add --detach $wt HEAD >/dev/null 2>&1 || { echo "worktree failed"; exit 2; }
trap 'git -C /repo worktree remove --force $wt >/dev/null 2>&1; rm -rf $wt' EXIT
git -C $wt apply $p || { echo "patch does not apply to /repo HEAD"; exit 2; }
args=""
for f in $(git -C $wt status --porcelain | awk '{print $2}'); do
  if [ -f $wt/$f ]; then mkdir -p $wt.files/$(dirname $f); cp $wt/$f $wt.files/$f; args="$args --overlay-file $f=$wt.files/$f"; fi
done
cd /verif && bin/vcheck $id --tier $tier --seed $seed $args
rc=$?
rm -rf $wt.files
exit $rc
