#!/bin/bash
# usage: tools/seedverify.sh <agent worktree> <name under /verif/seeded> [full]
# Independently confirms a proposed breaking change: fresh worktree of /repo HEAD, apply patch, build all tests,
# run existing tests (touched packages + reverse deps, or the whole suite with "full"), run the demo with and
# without the change. On success stores patch.diff + demo + meta.json (agent's) + verify.log under /verif/seeded/<name>/.
set -u
src=$1; name=$2; full=${3:-}
export GOPROXY=off GOFLAGS=-mod=mod
[ -f $src/SEED_patch.diff ] || { echo "no SEED_patch.diff"; exit 2; }
wt=$(mktemp -d /tmp/seedverify.XXXXXX)
git -C /repo worktree add --detach $wt HEAD >/dev/null 2>&1 || exit 2
trap 'git -C /repo worktree remove --force $wt >/dev/null 2>&1; rm -rf $wt' EXIT
log=$wt.log; : > $log
cd $wt
git apply $src/SEED_patch.diff || { echo "PATCH DOES NOT APPLY"; exit 1; }
files=$(git status --porcelain | awk '{print $2}')
echo "changed: $files" | tee -a $log
if echo "$files" | grep -q '_test.go'; then echo "PATCH TOUCHES TEST FILES"; exit 1; fi
# demo files: untracked *_test.go / others in agent worktree
demos=$(git -C $src status --porcelain | awk '$1=="??"{print $2}' | grep -v '^SEED_' )
echo "demo files: $demos" | tee -a $log
go test -run '^$' ./... >>$log 2>&1 || { echo "BUILD OF TESTS FAILED"; tail -20 $log; exit 1; }
pk=$(for f in $files; do echo ./$(dirname $f); done | sort -u)
if [ -n "$full" ]; then tp="./..."; else
  tp=$pk
  for p in $pk; do ip=golang.org/x/net/${p#./}; tp="$tp $(go list -f '{{.ImportPath}} {{join .Imports " "}} {{join .TestImports " "}} {{join .XTestImports " "}}' ./... 2>/dev/null | awk -v ip=$ip '{for(i=2;i<=NF;i++) if($i==ip){print $1}}' | sort -u | tr '\n' ' ')"; done
fi
echo "existing tests: $tp" | tee -a $log
if ! go test -vet=off -count=1 -timeout 25m $tp >>$log 2>&1; then echo "EXISTING TESTS FAIL WITH CHANGE"; grep -E "^(--- FAIL|FAIL|ok)" $log | tail -20; exit 1; fi
echo "existing tests pass with change" | tee -a $log
for d in $demos; do mkdir -p $(dirname $d); cp -r $src/$d $d; done
meta=$src/SEED_meta.json
democmd=$(python3 -c "import json,sys;print(json.load(open('$meta')).get('demo',''))" 2>/dev/null)
echo "demo (agent says): $democmd" | tee -a $log
dp=$(for d in $demos; do echo ./$(dirname $d); done | sort -u)
go test -vet=off -count=1 -run 'Seed|seed|Demo|SEED' $dp > $wt.with 2>&1; rcw=$?
git apply -R $src/SEED_patch.diff
go test -vet=off -count=1 -run 'Seed|seed|Demo|SEED' $dp > $wt.without 2>&1; rco=$?
echo "demo with change rc=$rcw; without rc=$rco" | tee -a $log
if [ $rcw -eq 0 ] || [ $rco -ne 0 ]; then echo "DEMO DOES NOT DISCRIMINATE"; tail -5 $wt.with; tail -5 $wt.without; exit 1; fi
grep -E "^\s*(--- FAIL|.*_test.go:[0-9]+:)" $wt.with | head -8 | tee -a $log
dst=/verif/seeded/$name; mkdir -p $dst
cp $src/SEED_patch.diff $dst/patch.diff; for d in $demos; do mkdir -p $dst/demo/$(dirname $d); cp -r $src/$d $dst/demo/$d; done
cp $meta $dst/agent_meta.json; cp $log $dst/verify.log
echo "CONFIRMED -> $dst"
rm -f $wt.with $wt.without $log
