#!/usr/bin/env python3
# usage: tools/flooraudit.py [tier]   -- over build/_sweep/<tier>-*/<ID>.evidence.json: smallest observed/required ratio per floor
import json,glob,sys,collections
tier=sys.argv[1] if len(sys.argv)>1 else 'quick'
worst=collections.defaultdict(lambda:(1e18,None))
for f in glob.glob(f'/verif/build/_sweep/{tier}-*/*.evidence.json'):
    try: e=json.load(open(f))
    except Exception: continue
    fl=None
    def find(o):
        global fl
        if isinstance(o,dict):
            if 'floors_observed_vs_required' in o: fl=o['floors_observed_vs_required']; return
            for v in o.values(): find(v)
        elif isinstance(o,list):
            for v in o: find(v)
    find(e)
    if not fl: continue
    pid=f.split('/')[-1].split('.')[0]; seed=f.split('/')[-2]
    for k,(obs,req) in fl.items():
        if req<=0: continue
        r=obs/req
        if r<worst[(pid,k)][0]: worst[(pid,k)]=(r,(obs,req,seed))
rows=sorted(worst.items(), key=lambda kv: kv[1][0])
for (pid,k),(r,info) in rows[:60]:
    print(f'{r:7.2f}  {pid} {k}  observed {info[0]} required {info[1]} ({info[2]})')
