#!/usr/bin/env python3
# Regenerates the table of repaired defects in DESIGN.md (between <!-- FIXTABLE:BEGIN --> and <!-- FIXTABLE:END -->)
# from the "fixed:" lines of known_findings.txt.
import re,collections
rows=collections.defaultdict(list)
for l in open('/verif/known_findings.txt'):
    m=re.match(r'fixed: property=(C\d+) ([0-9a-f]{7,}) (.*)',l.strip())
    if m: rows[m.group(1)].append((m.group(2),m.group(3)))
out=['| property | commit | what failed on the pinned tree |','|---|---|---|']
n=0
for p in sorted(rows):
    for c,t in rows[p]:
        t=re.sub(r'\s*\((key|keys|seed)[^)]*\)','',t)
        t=t.replace('|','\\|')
        if len(t)>230: t=t[:227].rsplit(' ',1)[0]+' …'
        out.append(f'| {p} | {c} | {t} |'); n+=1
out.append('')
out.append(f'{n} repairs over {len(rows)} properties.')
s=open('/verif/DESIGN.md').read()
b,e='<!-- FIXTABLE:BEGIN -->','<!-- FIXTABLE:END -->'
i,j=s.index(b)+len(b),s.index(e)
s=s[:i]+'\n'+'\n'.join(out)+'\n'+s[j:]
open('/verif/DESIGN.md','w').write(s)
print(n,'rows')
