#!/usr/bin/env python3
# usage: tools/seedprompt.py <ID> [variant-suffix]  -> creates worktree /tmp/seed/<ID><suffix> and prints the agent prompt
import json,sys,subprocess,os
pid=sys.argv[1]; suf=sys.argv[2] if len(sys.argv)>2 else ''
wt=f'/tmp/seed/{pid}{suf}'
if not os.path.exists(wt):
    subprocess.run(['git','-C','/repo','worktree','add','--detach',wt,'HEAD'],check=True,stdout=subprocess.DEVNULL,stderr=subprocess.DEVNULL)
for l in open('/verif/properties.jsonl'):
    p=json.loads(l)
    if p['id']==pid: break
t=open('/verif/harness/SEED_PROMPT.txt').read()
t=t.replace('{WT}',wt).replace('{ID}',pid).replace('{TITLE}',p['title']).replace('{STATEMENT}',p['statement']).replace('{FILES}',', '.join(p['anchors'].get('files',[])))
if len(sys.argv)>3 and sys.argv[3]:
    t+="\n\nADDITIONAL CONSTRAINT: another engineer has already delivered the following change for this property; yours must be DIFFERENT — a different function or code path, and if the property has several clauses, preferably a different clause:\n  "+sys.argv[3]+"\n"
t=t.replace('SEED_meta.json   : {"property":"%s"'%pid,'SEED_meta.json   : {"property":"%s"'%pid)
print(t)
