#!/bin/bash
# usage: tools/seedround2.sh <ID>...   -> prepares /tmp/seed/<ID>b worktrees + prompts that name the round-1 change to avoid
cd /verif
for id in "$@"; do
  avoid=""
  [ -f seeded/$id/meta.json ] && avoid=$(jq -r '.summary' seeded/$id/meta.json | tr '\n' ' ' | cut -c1-600)
  tools/seedprompt.py $id b "$avoid" > /tmp/seed/${id}b.prompt
done
