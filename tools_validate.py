#!/opt/veriftools/pyvenv/bin/python
# validates MANIFEST.json and every evidence file against the given schemas
import json,sys,glob,jsonschema
m=json.load(open('/verif/MANIFEST.json')); jsonschema.validate(m,json.load(open('/root/.vp/MANIFEST.schema.json')))
s=json.load(open('/root/.vp/EVIDENCE.schema.json'))
ids={c['property_id'] for c in m['checks']}
bad=0
for c in sorted(ids):
    p=f'/verif/evidence/{c}.json'
    try:
        jsonschema.validate(json.load(open(p)),s)
    except Exception as e:
        bad+=1; print('BAD',p,str(e)[:200])
props=[json.loads(l)['id'] for l in open('/verif/properties.jsonl')]
na={x['property_id'] for x in m.get('not_applicable',[])}
missing=[p for p in props if p not in ids and p not in na]
print(f'manifest valid; {len(ids)} checks, {len(na)} n/a, unaccounted: {missing}; bad evidence: {bad}')
