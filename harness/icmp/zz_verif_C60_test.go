//go:build verif

package icmp

// C60: ICMP and IP header codecs round-trip with valid checksums.
//
// Shape: REF + SAN. The harness has its own encoder for every ICMP message kind the
// package marshals (written from RFC 792, 4443, 4884, 4950, 5837, 8335; functions w*),
// its own RFC 1071 checksum, its own IPv4 header encoder (RFC 791) and its own Linux
// cmsg(3) reader/writer. For PRNG-generated messages it demands
//   - Marshal output == reference bytes, checksum included (ICMPv4 always, ICMPv6 when a
//     pseudo header is given), and the RFC 1071 sum over the output verifies;
//   - ParseMessage(Marshal(m)) equals m, where for RFC 4884 multipart bodies the expected
//     Data is the original datagram zero-padded as RFC 4884 prescribes;
//   - the same for ipv4.Header and for ipv4/ipv6.ControlMessage against the cmsg layout;
//   - truncated, bit-flipped and random inputs never panic or read outside the buffer
//     (inputs sit at the very end of their allocation; the thorough tier runs with the
//     race detector, which turns on checkptr for the unsafe casts in ipv4/ipv6/socket).

import (
	"bytes"
	"encoding/binary"
	"fmt"
	"hash/fnv"
	"math/rand/v2"
	"net"
	"runtime"
	"testing"

	"golang.org/x/net/internal/verifrt"
	"golang.org/x/net/ipv4"
	"golang.org/x/net/ipv6"
)

const (
	wProto4 = 1  // IANA protocol number of ICMP
	wProto6 = 58 // IANA protocol number of IPv6-ICMP
)

// ---------------------------------------------------------------------------------------
// reference: RFC 1071 checksum

// wSum is the 16-bit ones' complement sum of the concatenation of parts, taken as
// big-endian 16-bit words, an odd trailing octet padded with zero on the right.
func wSum(parts ...[]byte) uint16 {
	var s uint64
	odd := false
	var hi byte
	for _, p := range parts {
		for _, x := range p {
			if !odd {
				hi, odd = x, true
			} else {
				s += uint64(hi)<<8 | uint64(x)
				odd = false
			}
		}
	}
	if odd {
		s += uint64(hi) << 8
	}
	for s>>16 != 0 {
		s = s&0xffff + s>>16
	}
	return uint16(s)
}

// ---------------------------------------------------------------------------------------
// reference encoders

func wPad4(n int) int { return (n + 3) &^ 3 }

func wExtObject(e Extension, proto int) []byte {
	switch e := e.(type) {
	case *MPLSLabelStack: // RFC 4950 section 3: class 1, c-type 1, 32-bit label stack entries
		b := make([]byte, 4, 4+4*len(e.Labels))
		for _, l := range e.Labels {
			v := uint32(l.Label)<<12 | uint32(l.TC&7)<<9 | uint32(l.TTL&0xff)
			if l.S {
				v |= 1 << 8
			}
			b = binary.BigEndian.AppendUint32(b, v)
		}
		binary.BigEndian.PutUint16(b, uint16(len(b)))
		b[2], b[3] = 1, 1
		return b
	case *InterfaceInfo: // RFC 5837 section 4: class 2, c-type = role(2) rsvd(2) ifIndex IPAddr name MTU
		b := make([]byte, 4)
		ct := byte(e.Type)
		if ct&0x08 != 0 {
			b = binary.BigEndian.AppendUint32(b, uint32(e.Interface.Index))
		}
		if ct&0x04 != 0 {
			if ip := e.Addr.IP.To4(); ip != nil {
				b = append(b, 0, 1, 0, 0) // AFI 1, reserved
				b = append(b, ip...)
			} else {
				b = append(b, 0, 2, 0, 0) // AFI 2, reserved
				b = append(b, e.Addr.IP.To16()...)
			}
		}
		if ct&0x02 != 0 {
			l := wPad4(1 + len(e.Interface.Name))
			sub := make([]byte, l)
			sub[0] = byte(l)
			copy(sub[1:], e.Interface.Name)
			b = append(b, sub...)
		}
		if ct&0x01 != 0 {
			b = binary.BigEndian.AppendUint32(b, uint32(e.Interface.MTU))
		}
		binary.BigEndian.PutUint16(b, uint16(len(b)))
		b[2], b[3] = 2, ct
		return b
	case *InterfaceIdent: // RFC 8335 section 2.1: class 3, c-type 1 name, 2 index, 3 address
		b := make([]byte, 4)
		switch e.Type {
		case 1:
			p := make([]byte, wPad4(len(e.Name)))
			copy(p, e.Name)
			b = append(b, p...)
		case 2:
			b = binary.BigEndian.AppendUint32(b, uint32(e.Index))
		case 3:
			b = append(b, byte(e.AFI>>8), byte(e.AFI), byte(len(e.Addr)), 0)
			p := make([]byte, wPad4(len(e.Addr)))
			copy(p, e.Addr)
			b = append(b, p...)
		}
		binary.BigEndian.PutUint16(b, uint16(len(b)))
		b[2], b[3] = 3, byte(e.Type)
		return b
	case *RawExtension:
		return append([]byte(nil), e.Data...)
	}
	panic("unknown extension")
}

// wExtStruct is the RFC 4884 section 7 extension structure: header (version 2, reserved,
// checksum over the whole structure) followed by the objects.
func wExtStruct(exts []Extension, proto int) []byte {
	b := []byte{2 << 4, 0, 0, 0}
	for _, e := range exts {
		b = append(b, wExtObject(e, proto)...)
	}
	binary.BigEndian.PutUint16(b[2:], ^wSum(b))
	return b
}

// wPadOrig pads the original datagram as RFC 4884 section 4 asks: at least 128 octets,
// zero padded to a 32-bit (ICMPv4) or 64-bit (ICMPv6) boundary.
func wPadOrig(data []byte, proto int) []byte {
	n := len(data)
	if n < 128 {
		n = 128
	} else if proto == wProto4 {
		n = (n + 3) &^ 3
	} else {
		n = (n + 7) &^ 7
	}
	p := make([]byte, n)
	copy(p, data)
	return p
}

func wMultipart(first [4]byte, data []byte, exts []Extension, proto int) []byte {
	b := append([]byte(nil), first[:]...)
	if len(exts) == 0 {
		return append(b, data...)
	}
	p := wPadOrig(data, proto)
	if proto == wProto4 {
		b[1] = byte(len(p) / 4) // RFC 4884 section 4.1-4.3: length in 32-bit words, second octet
	} else {
		b[0] = byte(len(p) / 8) // RFC 4884 section 4.4-4.5: length in 64-bit words, first octet
	}
	b = append(b, p...)
	return append(b, wExtStruct(exts, proto)...)
}

func wBody(body MessageBody, proto int) []byte {
	switch p := body.(type) {
	case *Echo:
		b := []byte{byte(p.ID >> 8), byte(p.ID), byte(p.Seq >> 8), byte(p.Seq)}
		return append(b, p.Data...)
	case *ExtendedEchoRequest: // RFC 8335 section 2
		b := []byte{byte(p.ID >> 8), byte(p.ID), byte(p.Seq), 0}
		if p.Local {
			b[3] = 1
		}
		if len(p.Extensions) > 0 {
			b = append(b, wExtStruct(p.Extensions, proto)...)
		}
		return b
	case *ExtendedEchoReply: // RFC 8335 section 3: State(3) Res(2) A 4 6
		f := byte(p.State&7) << 5
		if p.Active {
			f |= 4
		}
		if p.IPv4 {
			f |= 2
		}
		if p.IPv6 {
			f |= 1
		}
		return []byte{byte(p.ID >> 8), byte(p.ID), byte(p.Seq), f}
	case *DstUnreach:
		return wMultipart([4]byte{}, p.Data, p.Extensions, proto)
	case *TimeExceeded:
		return wMultipart([4]byte{}, p.Data, p.Extensions, proto)
	case *ParamProb:
		if proto == wProto4 { // RFC 792 + RFC 4884 section 4.3: pointer, length, unused
			return wMultipart([4]byte{byte(p.Pointer)}, p.Data, p.Extensions, proto)
		}
		b := binary.BigEndian.AppendUint32(nil, uint32(p.Pointer)) // RFC 4443 section 3.4
		return append(b, p.Data...)
	case *PacketTooBig: // RFC 4443 section 3.2
		b := binary.BigEndian.AppendUint32(nil, uint32(p.MTU))
		return append(b, p.Data...)
	case *RawBody:
		return append([]byte(nil), p.Data...)
	}
	panic("unknown body")
}

func wTypeByte(t Type) byte {
	switch t := t.(type) {
	case ipv4.ICMPType:
		return byte(t)
	case ipv6.ICMPType:
		return byte(t)
	}
	panic("unknown type")
}

// wPseudo is the RFC 8200 section 8.1 pseudo header.
func wPseudo(src, dst net.IP, upperLen int) []byte {
	b := make([]byte, 0, 40)
	b = append(b, src.To16()...)
	b = append(b, dst.To16()...)
	b = binary.BigEndian.AppendUint32(b, uint32(upperLen))
	return append(b, 0, 0, 0, 58)
}

// wMessage is the complete reference encoding. withSum says whether the checksum field is
// filled in (ICMPv4: always; ICMPv6: only when the caller supplies a pseudo header).
func wMessage(m *Message, proto int, src, dst net.IP, withSum bool) []byte {
	b := []byte{wTypeByte(m.Type), byte(m.Code), 0, 0}
	b = append(b, wBody(m.Body, proto)...)
	if !withSum {
		return b
	}
	var ck uint16
	if proto == wProto4 {
		ck = ^wSum(b)
	} else {
		ck = ^wSum(wPseudo(src, dst, len(b)), b)
	}
	binary.BigEndian.PutUint16(b[2:], ck)
	return b
}

// ---------------------------------------------------------------------------------------
// comparison of parsed and original messages

func wDiffExt(got, want Extension) string {
	switch w := want.(type) {
	case *MPLSLabelStack:
		g, ok := got.(*MPLSLabelStack)
		if !ok {
			return fmt.Sprintf("extension is %T, want %T", got, want)
		}
		if g.Class != w.Class || g.Type != w.Type || len(g.Labels) != len(w.Labels) {
			return fmt.Sprintf("MPLSLabelStack class/type/count %d/%d/%d, want %d/%d/%d", g.Class, g.Type, len(g.Labels), w.Class, w.Type, len(w.Labels))
		}
		for i := range w.Labels {
			if g.Labels[i] != w.Labels[i] {
				return fmt.Sprintf("MPLS label %d is %+v, want %+v", i, g.Labels[i], w.Labels[i])
			}
		}
	case *InterfaceInfo:
		g, ok := got.(*InterfaceInfo)
		if !ok {
			return fmt.Sprintf("extension is %T, want %T", got, want)
		}
		if g.Class != w.Class || g.Type != w.Type {
			return fmt.Sprintf("InterfaceInfo class/type %d/%#x, want %d/%#x", g.Class, g.Type, w.Class, w.Type)
		}
		if (g.Interface == nil) != (w.Interface == nil) {
			return fmt.Sprintf("InterfaceInfo.Interface nil=%v, want nil=%v", g.Interface == nil, w.Interface == nil)
		}
		if w.Interface != nil && (g.Interface.Index != w.Interface.Index || g.Interface.Name != w.Interface.Name || g.Interface.MTU != w.Interface.MTU) {
			return fmt.Sprintf("InterfaceInfo.Interface index/name/mtu %d/%q/%d, want %d/%q/%d", g.Interface.Index, g.Interface.Name, g.Interface.MTU, w.Interface.Index, w.Interface.Name, w.Interface.MTU)
		}
		if (g.Addr == nil) != (w.Addr == nil) {
			return fmt.Sprintf("InterfaceInfo.Addr nil=%v, want nil=%v", g.Addr == nil, w.Addr == nil)
		}
		if w.Addr != nil && (!g.Addr.IP.Equal(w.Addr.IP) || g.Addr.Zone != w.Addr.Zone) {
			return fmt.Sprintf("InterfaceInfo.Addr %v%%%s, want %v%%%s", g.Addr.IP, g.Addr.Zone, w.Addr.IP, w.Addr.Zone)
		}
	case *InterfaceIdent:
		g, ok := got.(*InterfaceIdent)
		if !ok {
			return fmt.Sprintf("extension is %T, want %T", got, want)
		}
		if g.Class != w.Class || g.Type != w.Type || g.Name != w.Name || g.Index != w.Index || g.AFI != w.AFI || !bytes.Equal(g.Addr, w.Addr) {
			return fmt.Sprintf("InterfaceIdent %+v, want %+v", *g, *w)
		}
	case *RawExtension:
		g, ok := got.(*RawExtension)
		if !ok {
			return fmt.Sprintf("extension is %T, want %T", got, want)
		}
		if !bytes.Equal(g.Data, w.Data) {
			return fmt.Sprintf("RawExtension %x, want %x", g.Data, w.Data)
		}
	}
	return ""
}

func wDiffExts(got, want []Extension) string {
	if len(got) != len(want) {
		return fmt.Sprintf("%d extensions, want %d", len(got), len(want))
	}
	for i := range want {
		if d := wDiffExt(got[i], want[i]); d != "" {
			return fmt.Sprintf("extension %d: %s", i, d)
		}
	}
	return ""
}

func wDiffData(got, want []byte) string {
	if !bytes.Equal(got, want) {
		return fmt.Sprintf("Data is %d bytes %s, want %d bytes %s", len(got), wShort(got), len(want), wShort(want))
	}
	return ""
}

func wShort(b []byte) string {
	if len(b) <= 40 {
		return fmt.Sprintf("%x", b)
	}
	return fmt.Sprintf("%x…%x", b[:24], b[len(b)-12:])
}

// wDiffBody compares a parsed body with the expected one; wantData is the Data expected
// after parsing (padded per RFC 4884 when extensions are present).
func wDiffBody(got, want MessageBody, proto int) string {
	padded := func(data []byte, exts []Extension) []byte {
		if len(exts) == 0 {
			return data
		}
		return wPadOrig(data, proto)
	}
	switch w := want.(type) {
	case *Echo:
		g, ok := got.(*Echo)
		if !ok {
			return fmt.Sprintf("body is %T, want %T", got, want)
		}
		if g.ID != w.ID || g.Seq != w.Seq {
			return fmt.Sprintf("Echo id/seq %d/%d, want %d/%d", g.ID, g.Seq, w.ID, w.Seq)
		}
		return wDiffData(g.Data, w.Data)
	case *ExtendedEchoRequest:
		g, ok := got.(*ExtendedEchoRequest)
		if !ok {
			return fmt.Sprintf("body is %T, want %T", got, want)
		}
		if g.ID != w.ID || g.Seq != w.Seq || g.Local != w.Local {
			return fmt.Sprintf("ExtendedEchoRequest id/seq/local %d/%d/%v, want %d/%d/%v", g.ID, g.Seq, g.Local, w.ID, w.Seq, w.Local)
		}
		return wDiffExts(g.Extensions, w.Extensions)
	case *ExtendedEchoReply:
		g, ok := got.(*ExtendedEchoReply)
		if !ok {
			return fmt.Sprintf("body is %T, want %T", got, want)
		}
		if *g != *w {
			return fmt.Sprintf("ExtendedEchoReply %+v, want %+v", *g, *w)
		}
	case *DstUnreach:
		g, ok := got.(*DstUnreach)
		if !ok {
			return fmt.Sprintf("body is %T, want %T", got, want)
		}
		if d := wDiffData(g.Data, padded(w.Data, w.Extensions)); d != "" {
			return d
		}
		return wDiffExts(g.Extensions, w.Extensions)
	case *TimeExceeded:
		g, ok := got.(*TimeExceeded)
		if !ok {
			return fmt.Sprintf("body is %T, want %T", got, want)
		}
		if d := wDiffData(g.Data, padded(w.Data, w.Extensions)); d != "" {
			return d
		}
		return wDiffExts(g.Extensions, w.Extensions)
	case *ParamProb:
		g, ok := got.(*ParamProb)
		if !ok {
			return fmt.Sprintf("body is %T, want %T", got, want)
		}
		if g.Pointer != w.Pointer {
			return fmt.Sprintf("ParamProb pointer %d, want %d", g.Pointer, w.Pointer)
		}
		if d := wDiffData(g.Data, padded(w.Data, w.Extensions)); d != "" {
			return d
		}
		return wDiffExts(g.Extensions, w.Extensions)
	case *PacketTooBig:
		g, ok := got.(*PacketTooBig)
		if !ok {
			return fmt.Sprintf("body is %T, want %T", got, want)
		}
		if g.MTU != w.MTU {
			return fmt.Sprintf("PacketTooBig MTU %d, want %d", g.MTU, w.MTU)
		}
		return wDiffData(g.Data, w.Data)
	case *RawBody:
		g, ok := got.(*RawBody)
		if !ok {
			return fmt.Sprintf("body is %T, want %T", got, want)
		}
		return wDiffData(g.Data, w.Data)
	}
	return ""
}

// ---------------------------------------------------------------------------------------
// generators

type wGen struct{ rng *rand.Rand }

func (g wGen) bytes(n int) []byte {
	b := make([]byte, n)
	for i := range b {
		b[i] = byte(g.rng.Uint32())
	}
	return b
}

func (g wGen) pick(v ...int) int { return v[g.rng.IntN(len(v))] }

// origDatagram makes the original-datagram field; max is the largest length allowed.
// Octet 128, where an RFC 4884 compatibility parser looks for an extension header when
// the length attribute is absent, never carries version 2: the data would otherwise be
// legitimately mistaken for an extension structure (RFC 4884 section 5.5).
func (g wGen) origDatagram(max int) []byte {
	var n int
	switch g.rng.IntN(10) {
	case 0, 1, 2:
		n = g.pick(0, 1, 3, 4, 7, 8, 20, 28, 127, 128, 129, 130, 131, 132, 133, 135, 136, 137, 140, 144, 255, 256, 257, 548, 576, 1016, 1017, 1019, 1020, 2033, 2039, 2040)
	case 3, 4, 5, 6:
		n = g.rng.IntN(200)
	case 7, 8:
		n = g.rng.IntN(700)
	default:
		n = g.rng.IntN(max + 1)
	}
	if n > max {
		n = max
	}
	b := g.bytes(n)
	if g.rng.IntN(4) == 0 && n >= 20 { // looks like an IPv4 header
		b[0] = 0x45
	}
	if n > 128 && b[128]>>4 == 2 {
		b[128] = 0x40 | b[128]&0x0f
	}
	return b
}

func (g wGen) name(max int) string {
	n := 1 + g.rng.IntN(max)
	if g.rng.IntN(4) == 0 {
		n = g.pick(1, 2, 3, 4, 5, 7, 8, 15, 16, 59, 60, 61, 62, 63)
		if n > max {
			n = max
		}
	}
	const alpha = "abcdefghijklmnopqrstuvwxyz0123456789.-_:/"
	b := make([]byte, n)
	for i := range b {
		b[i] = alpha[g.rng.IntN(len(alpha))]
	}
	return string(b)
}

func (g wGen) u32() int {
	switch g.rng.IntN(4) {
	case 0:
		return g.pick(1, 2, 255, 256, 65535, 65536, 1<<31-1, 1<<31, 1<<32-1)
	case 1:
		return 1 + g.rng.IntN(5000)
	}
	return 1 + int(g.rng.Uint32N(1<<32-1))
}

func (g wGen) ip4() net.IP {
	b := g.bytes(4)
	if g.rng.IntN(2) == 0 {
		return net.IP(b)
	}
	return net.IPv4(b[0], b[1], b[2], b[3])
}

func (g wGen) ip6() net.IP {
	b := g.bytes(16)
	b[0] = 0x20 | b[0]&0x0f // never an IPv4-mapped address
	return net.IP(b)
}

func (g wGen) mpls() *MPLSLabelStack {
	ls := &MPLSLabelStack{Class: 1, Type: 1}
	for n := g.pick(0, 1, 1, 1, 2, 3, 8); n > 0; n-- {
		l := MPLSLabel{Label: g.rng.IntN(1 << 20), TC: g.rng.IntN(8), S: g.rng.IntN(2) == 0, TTL: g.rng.IntN(256)}
		if g.rng.IntN(5) == 0 {
			l.Label = g.pick(0, 1, 15, 16, 1<<20-1, 1<<19, 0xf0f0f, 0x0f0f0)
		}
		ls.Labels = append(ls.Labels, l)
	}
	return ls
}

func (g wGen) ifInfo(proto int) *InterfaceInfo {
	ii := &InterfaceInfo{Class: 2}
	role := g.rng.IntN(4)
	ii.Type = role << 6
	if g.rng.IntN(4) != 0 {
		ii.Interface = &net.Interface{Index: g.u32()}
		ii.Type |= 0x08
		if g.rng.IntN(2) == 0 {
			ii.Interface.Name = g.name(63)
			ii.Type |= 0x02
		}
		if g.rng.IntN(2) == 0 {
			ii.Interface.MTU = g.u32()
			ii.Type |= 0x01
		}
	}
	if g.rng.IntN(2) == 0 {
		ii.Type |= 0x04
		if proto == wProto4 {
			ii.Addr = &net.IPAddr{IP: g.ip4()}
		} else {
			ii.Addr = &net.IPAddr{IP: g.ip6()}
			if ii.Interface != nil && ii.Interface.Name != "" {
				ii.Addr.Zone = ii.Interface.Name // what the parser derives for an IPv6 address with a named interface
			}
		}
	}
	return ii
}

func (g wGen) rawExt() *RawExtension {
	n := 4 * (1 + g.rng.IntN(10))
	b := g.bytes(n)
	binary.BigEndian.PutUint16(b, uint16(n))
	b[2] = byte(4 + g.rng.IntN(252)) // class numbers 1-3 are the typed objects
	return &RawExtension{Data: b}
}

func (g wGen) ifIdent() *InterfaceIdent {
	id := &InterfaceIdent{Class: 3, Type: 1 + g.rng.IntN(3)}
	switch id.Type {
	case 1:
		if g.rng.IntN(8) != 0 {
			id.Name = g.name(63)
		}
	case 2:
		id.Index = g.u32()
	case 3:
		switch g.rng.IntN(4) {
		case 0:
			id.AFI, id.Addr = 1, g.bytes(4)
		case 1:
			id.AFI, id.Addr = 2, g.bytes(16)
		case 2:
			id.AFI, id.Addr = 16389, g.bytes(6) // 48-bit MAC
		default:
			id.AFI, id.Addr = g.rng.IntN(65536), g.bytes(g.rng.IntN(33))
		}
	}
	return id
}

func (g wGen) multipartExts(proto int) []Extension {
	var exts []Extension
	n := g.pick(0, 0, 0, 1, 1, 1, 2, 2, 3, 4)
	for i := 0; i < n; i++ {
		switch g.rng.IntN(3) {
		case 0:
			exts = append(exts, g.mpls())
		case 1:
			exts = append(exts, g.ifInfo(proto))
		default:
			exts = append(exts, g.rawExt())
		}
	}
	return exts
}

func (g wGen) echoReqExts() []Extension {
	switch g.rng.IntN(6) {
	case 0:
		return nil
	case 1, 2:
		return []Extension{g.ifIdent()}
	case 3:
		return []Extension{g.ifIdent(), g.ifIdent()}
	case 4:
		return []Extension{g.rawExt(), g.rawExt()}[:1+g.rng.IntN(2)]
	default:
		return []Extension{g.ifIdent(), g.rawExt(), g.ifIdent()}
	}
}

// maxOrig is the longest original datagram whose padded length still fits the 8-bit
// RFC 4884 length attribute.
func maxOrig(proto int) int {
	if proto == wProto4 {
		return 255 * 4
	}
	return 255 * 8
}

// message generates one message the package is expected to marshal and parse back.
func (g wGen) message() (m *Message, proto int, kind string) {
	proto = wProto4
	if g.rng.IntN(2) == 0 {
		proto = wProto6
	}
	m = &Message{Code: g.rng.IntN(256), Checksum: g.rng.IntN(65536)}
	if g.rng.IntN(3) == 0 {
		m.Code = g.pick(0, 1, 2, 3, 4, 5, 13, 255)
	}
	origAndExts := func(allowExt bool) ([]byte, []Extension) {
		var exts []Extension
		if allowExt {
			exts = g.multipartExts(proto)
		}
		max := 2100
		if len(exts) > 0 {
			max = maxOrig(proto)
		}
		return g.origDatagram(max), exts
	}
	k := g.rng.IntN(9)
	if proto == wProto4 {
		switch k {
		case 0, 1:
			kind = "echo"
			m.Type = ipv4.ICMPTypeEcho
			if k == 1 {
				m.Type = ipv4.ICMPTypeEchoReply
			}
			m.Body = &Echo{ID: g.rng.IntN(65536), Seq: g.rng.IntN(65536), Data: g.bytes(g.pick(0, 0, 1, 2, 3, 8, 32, 56, g.rng.IntN(1500)))}
		case 2:
			kind = "extecho-request"
			m.Type = ipv4.ICMPTypeExtendedEchoRequest
			m.Body = &ExtendedEchoRequest{ID: g.rng.IntN(65536), Seq: g.rng.IntN(256), Local: g.rng.IntN(2) == 0, Extensions: g.echoReqExts()}
		case 3:
			kind = "extecho-reply"
			m.Type = ipv4.ICMPTypeExtendedEchoReply
			m.Body = &ExtendedEchoReply{ID: g.rng.IntN(65536), Seq: g.rng.IntN(256), State: g.rng.IntN(8), Active: g.rng.IntN(2) == 0, IPv4: g.rng.IntN(2) == 0, IPv6: g.rng.IntN(2) == 0}
		case 4:
			kind = "dstunreach"
			m.Type = ipv4.ICMPTypeDestinationUnreachable
			d, e := origAndExts(true)
			m.Body = &DstUnreach{Data: d, Extensions: e}
		case 5:
			kind = "timeexceeded"
			m.Type = ipv4.ICMPTypeTimeExceeded
			d, e := origAndExts(true)
			m.Body = &TimeExceeded{Data: d, Extensions: e}
		case 6, 7:
			kind = "paramprob"
			m.Type = ipv4.ICMPTypeParameterProblem
			d, e := origAndExts(true)
			m.Body = &ParamProb{Pointer: uintptr(g.rng.IntN(256)), Data: d, Extensions: e}
		default:
			kind = "rawbody"
			m.Type = ipv4.ICMPType(g.pick(4, 5, 9, 10, 13, 14, 40, 41, 44, 100, 253, 255)) // types without a typed body
			m.Body = &RawBody{Data: g.bytes(g.pick(1, 4, 8, 16, 1+g.rng.IntN(300)))}
		}
		return
	}
	switch k {
	case 0, 1:
		kind = "echo"
		m.Type = ipv6.ICMPTypeEchoRequest
		if k == 1 {
			m.Type = ipv6.ICMPTypeEchoReply
		}
		m.Body = &Echo{ID: g.rng.IntN(65536), Seq: g.rng.IntN(65536), Data: g.bytes(g.pick(0, 0, 1, 2, 3, 8, 32, 56, g.rng.IntN(1500)))}
	case 2:
		kind = "extecho-request"
		m.Type = ipv6.ICMPTypeExtendedEchoRequest
		m.Body = &ExtendedEchoRequest{ID: g.rng.IntN(65536), Seq: g.rng.IntN(256), Local: g.rng.IntN(2) == 0, Extensions: g.echoReqExts()}
	case 3:
		kind = "extecho-reply"
		m.Type = ipv6.ICMPTypeExtendedEchoReply
		m.Body = &ExtendedEchoReply{ID: g.rng.IntN(65536), Seq: g.rng.IntN(256), State: g.rng.IntN(8), Active: g.rng.IntN(2) == 0, IPv4: g.rng.IntN(2) == 0, IPv6: g.rng.IntN(2) == 0}
	case 4:
		kind = "dstunreach"
		m.Type = ipv6.ICMPTypeDestinationUnreachable
		d, e := origAndExts(true)
		m.Body = &DstUnreach{Data: d, Extensions: e}
	case 5:
		kind = "timeexceeded"
		m.Type = ipv6.ICMPTypeTimeExceeded
		d, e := origAndExts(true)
		m.Body = &TimeExceeded{Data: d, Extensions: e}
	case 6:
		kind = "paramprob"
		m.Type = ipv6.ICMPTypeParameterProblem
		d, _ := origAndExts(false) // RFC 4884 does not extend the ICMPv6 parameter problem message
		p := uintptr(g.rng.Uint32())
		if g.rng.IntN(2) == 0 {
			p = uintptr(g.rng.IntN(len(d) + 1))
		}
		m.Body = &ParamProb{Pointer: p, Data: d}
	case 7:
		kind = "packettoobig"
		m.Type = ipv6.ICMPTypePacketTooBig
		d, _ := origAndExts(false)
		m.Body = &PacketTooBig{MTU: g.pick(0, 1, 1280, 1500, 9000, 65535, 1<<31, 1<<32-1, int(g.rng.Uint32())), Data: d}
	default:
		kind = "rawbody"
		m.Type = ipv6.ICMPType(g.pick(100, 130, 133, 134, 135, 136, 137, 143, 200, 255))
		m.Body = &RawBody{Data: g.bytes(g.pick(1, 4, 8, 16, 1+g.rng.IntN(300)))}
	}
	return
}

// wTight copies b to the very end of a fresh allocation, so that any read past the end
// leaves the object (a bounds panic, or a checkptr/asan report for unsafe reads).
func wTight(b []byte) []byte {
	buf := make([]byte, 48+len(b))
	t := buf[48:]
	copy(t, b)
	return t[:len(b):len(b)]
}

func wHasExt(body MessageBody) int {
	switch p := body.(type) {
	case *DstUnreach:
		return len(p.Extensions)
	case *TimeExceeded:
		return len(p.Extensions)
	case *ParamProb:
		return len(p.Extensions)
	case *ExtendedEchoRequest:
		return len(p.Extensions)
	}
	return 0
}

func wDescribeMsg(m *Message, proto int, kind string, wire []byte) map[string]any {
	d := map[string]any{"proto": proto, "kind": kind, "type": fmt.Sprint(m.Type), "code": m.Code, "extensions": wHasExt(m.Body), "body": fmt.Sprintf("%+v", m.Body)}
	if wire != nil {
		d["marshalled"] = wShort(wire)
		d["marshalled_len"] = len(wire)
	}
	if s, ok := d["body"].(string); ok && len(s) > 600 {
		d["body"] = s[:600] + "…"
	}
	return d
}

// ---------------------------------------------------------------------------------------
// Linux cmsg(3) reference (linux/amd64: struct cmsghdr { size_t len; int level; int type },
// data aligned to 8)

type wCmsg struct {
	level, typ int32
	data       []byte
}

func wCmsgAppend(b []byte, c wCmsg, padLast bool) []byte {
	b = binary.LittleEndian.AppendUint64(b, uint64(16+len(c.data)))
	b = binary.LittleEndian.AppendUint32(b, uint32(c.level))
	b = binary.LittleEndian.AppendUint32(b, uint32(c.typ))
	b = append(b, c.data...)
	if padLast {
		for len(b)%8 != 0 {
			b = append(b, 0)
		}
	}
	return b
}

// wCmsgWalk is CMSG_FIRSTHDR/CMSG_NXTHDR from cmsg(3); ok=false when the buffer is not a
// well-formed sequence.
func wCmsgWalk(b []byte) (out []wCmsg, ok bool) {
	for len(b) >= 16 {
		l := binary.LittleEndian.Uint64(b)
		if l < 16 || l > uint64(len(b)) {
			return out, false
		}
		out = append(out, wCmsg{level: int32(binary.LittleEndian.Uint32(b[8:])), typ: int32(binary.LittleEndian.Uint32(b[12:])), data: b[16:l]})
		adv := (l + 7) &^ 7
		if adv > uint64(len(b)) {
			adv = uint64(len(b))
		}
		b = b[adv:]
	}
	return out, true
}

// cmsg_len values aimed at the walker's checks (too small, just past, huge, negative as int)
var wBadLens = []uint64{0, 1, 8, 15, 16, 17, 20, 24, 28, 31, 32, 33, 35, 36, 37, 47, 48, 49, 1 << 31, 1 << 32, 1<<63 - 1, 1 << 63, 1<<63 + 16, 1<<64 - 16, 1<<64 - 1}

const (
	wIPPROTO_IP    = 0
	wIP_TTL        = 2
	wIP_PKTINFO    = 8
	wIPPROTO_IPV6  = 41
	wIPV6_PKTINFO  = 50
	wIPV6_HOPLIMIT = 52
	wIPV6_PATHMTU  = 61
	wIPV6_TCLASS   = 67
)

// ---------------------------------------------------------------------------------------

func TestVerif_C60(t *testing.T) {
	r := verifrt.Start(t, "C60")
	defer r.Finish()
	r.SetRule("ICMP: PRNG messages of every kind the package marshals (echo, echo reply, extended echo request/reply, destination unreachable, time exceeded, parameter problem, packet too big, raw body; ICMPv4 and ICMPv6; 0-4 RFC 4884 extension objects: MPLS label stack, interface info, interface ident, raw), original datagram lengths around 0/128/alignment/the 8-bit length-attribute limit; IPv4 headers with 0-40 option bytes; ipv4/ipv6 control messages. One evaluation per message/header/control message; non-trivial = has payload, extension, option or a control item; distinct by the marshalled bytes")
	r.Assume("harness reference encoders for RFC 792/4443/4884/4950/5837/8335 messages, RFC 791 header, RFC 1071 checksum and the linux/amd64 cmsg layout are correct")
	r.Assume("RawBody/RawExtension carry well-formed contents (a RawExtension is one complete object of a class other than 1-3); original datagram octet 128 never looks like an extension header when no extension is attached (RFC 4884 section 5.5 ambiguity is not a defect)")
	if runtime.GOOS != "linux" || runtime.GOARCH != "amd64" {
		r.Note("platform %s/%s: header byte order and cmsg layout references are for linux/amd64 only; those parts are skipped", runtime.GOOS, runtime.GOARCH)
	}
	linux := runtime.GOOS == "linux" && runtime.GOARCH == "amd64"

	// parseNoPanic feeds b (tight) to ParseMessage; a panic is recovered by the runtime of
	// the case and reported with the package function in the key.
	checkMessage := func(c *verifrt.Case, g wGen, m *Message, proto int, kind string) {
		c.Describe(wDescribeMsg(m, proto, kind, nil))
		src, dst := g.ip6(), g.ip6()
		var psh []byte
		withSum := proto == wProto4
		if proto == wProto6 && g.rng.IntN(3) != 0 {
			psh = IPv6PseudoHeader(src, dst)
			withSum = true
		}
		pshCopy := append([]byte(nil), psh...)
		wire, err := m.Marshal(psh)
		if err != nil {
			c.Violation("marshal-refused-valid-message", "%s (proto %d): Marshal error %v for %+v", kind, proto, err, m.Body)
			return
		}
		c.Describe(wDescribeMsg(m, proto, kind, wire))
		if psh != nil && !bytes.Equal(psh[:32], pshCopy[:32]) {
			c.Violation("marshal-clobbers-pseudo-header-addresses", "pseudo header addresses changed from %x to %x", pshCopy[:32], psh[:32])
		}
		ref := wMessage(m, proto, src, dst, withSum)
		if !bytes.Equal(wire, ref) {
			key := "wire-differs-from-rfc-layout"
			if len(wire) == len(ref) && bytes.Equal(wire[:2], ref[:2]) && bytes.Equal(wire[4:], ref[4:]) {
				key = "checksum-field-wrong"
			}
			i := 0
			for i < len(wire) && i < len(ref) && wire[i] == ref[i] {
				i++
			}
			c.Violation(key, "%s proto %d: Marshal gave %d bytes %s, reference %d bytes %s; first difference at octet %d", kind, proto, len(wire), wShort(wire), len(ref), wShort(ref), i)
		}
		// RFC 1071 verification of what was produced
		if proto == wProto4 {
			if s := wSum(wire); s != 0xffff {
				c.Violation("icmpv4-checksum-invalid", "%s: ones' complement sum over the %d marshalled bytes is %#04x, want 0xffff (%s)", kind, len(wire), s, wShort(wire))
			}
			r.Event("icmpv4_checksums_verified", 1)
		} else if psh != nil {
			if s := wSum(wPseudo(src, dst, len(wire)), wire); s != 0xffff {
				c.Violation("icmpv6-checksum-invalid", "%s: ones' complement sum over pseudo header + %d marshalled bytes is %#04x, want 0xffff", kind, len(wire), s)
			}
			r.Event("icmpv6_checksums_verified", 1)
		}
		if l := m.Body.Len(proto); l != len(wire)-4 {
			c.Violation("body-len-disagrees-with-marshal", "%s proto %d: Body.Len=%d but Marshal produced a %d-byte body", kind, proto, l, len(wire)-4)
		}
		// parse back
		in := wTight(wire)
		pm, err := ParseMessage(proto, in)
		if err != nil {
			c.Violation("parse-refuses-marshalled-message", "%s proto %d: ParseMessage(%s): %v", kind, proto, wShort(wire), err)
		} else {
			if pm.Type != m.Type || pm.Code != m.Code {
				c.Violation("roundtrip-type-code", "%s proto %d: parsed type/code %v/%d, want %v/%d", kind, proto, pm.Type, pm.Code, m.Type, m.Code)
			}
			if pm.Checksum != int(binary.BigEndian.Uint16(wire[2:4])) {
				c.Violation("roundtrip-checksum-field", "parsed Checksum %#x, wire has %x", pm.Checksum, wire[2:4])
			}
			if d := wDiffBody(pm.Body, m.Body, proto); d != "" {
				key := "roundtrip-body-" + kind
				if wHasExt(m.Body) > 0 {
					key += "-with-extensions"
				}
				c.Violation(key, "%s proto %d: %s (wire %s)", kind, proto, d, wShort(wire))
			}
			if !bytes.Equal(in, wire) {
				c.Violation("parse-modifies-input", "ParseMessage changed its input buffer")
			}
		}
		ne := wHasExt(m.Body)
		r.EvalBytes(len(wire) > 8 || ne > 0, wire)
		r.Event("icmp_"+kind, 1)
		if ne > 0 {
			r.Event("icmp_with_extensions", 1)
			r.Event("icmp_extension_objects", int64(ne))
		}
		// every prefix (sampled when long) must be handled without panic / over-read
		step := 1
		if len(wire) > 300 {
			step = 1 + g.rng.IntN(7)
		}
		for n := 0; n < len(wire); n += step {
			ParseMessage(proto, wTight(wire[:n]))
			r.Event("icmp_truncated_parses", 1)
		}
		// a single flipped bit inside the extension structure must not yield extensions
		// (RFC 4884 section 7: the structure is protected by its own checksum), unless the
		// checksum field itself ends up zero, which means "not computed"
		if ne > 0 && err == nil {
			extLen := 0
			switch b := m.Body.(type) {
			case *DstUnreach:
				extLen = len(wExtStruct(b.Extensions, proto))
			case *TimeExceeded:
				extLen = len(wExtStruct(b.Extensions, proto))
			case *ParamProb:
				extLen = len(wExtStruct(b.Extensions, proto))
			case *ExtendedEchoRequest:
				extLen = len(wExtStruct(b.Extensions, proto))
			}
			start := len(wire) - extLen
			if extLen >= 8 && binary.BigEndian.Uint16(wire[start+2:]) != 0 {
				bit := g.rng.IntN(extLen * 8)
				mut := wTight(wire)
				mut[start+bit/8] ^= 1 << (bit % 8)
				if binary.BigEndian.Uint16(mut[start+2:]) != 0 {
					pm2, err2 := ParseMessage(proto, mut)
					if err2 == nil && wHasExt(pm2.Body) > 0 {
						c.Violation("corrupt-extension-structure-accepted", "%s proto %d: bit %d of the %d-byte extension structure flipped, ParseMessage still returned %d extension objects", kind, proto, bit, extLen, wHasExt(pm2.Body))
					}
					r.Event("icmp_corrupt_extension_rejected", 1)
				}
			}
		}
	}

	perCase := 100
	r.CasesParallel("icmp-roundtrip", r.N(200, 6000), 8, func(c *verifrt.Case) {
		g := wGen{c.Rng}
		for i := 0; i < perCase; i++ {
			m, proto, kind := g.message()
			checkMessage(c, g, m, proto, kind)
			if c.Index == 0 && i < 5 {
				w, _ := m.Marshal(nil)
				r.Sample(wDescribeMsg(m, proto, kind, w))
			}
		}
	})

	// extension objects marshalled on their own (Extension.Marshal) agree with the reference
	r.CasesParallel("extension-objects", r.N(40, 1000), 8, func(c *verifrt.Case) {
		g := wGen{c.Rng}
		for i := 0; i < perCase; i++ {
			proto := g.pick(wProto4, wProto6)
			var e Extension
			switch g.rng.IntN(4) {
			case 0:
				e = g.mpls()
			case 1:
				e = g.ifInfo(proto)
			case 2:
				e = g.ifIdent()
			default:
				e = g.rawExt()
			}
			c.Describe(map[string]any{"proto": proto, "extension": fmt.Sprintf("%T %+v", e, e)})
			b, err := e.Marshal(proto)
			ref := wExtObject(e, proto)
			if err != nil || !bytes.Equal(b, ref) {
				c.Violation("extension-object-differs-from-rfc-layout", "%T proto %d: Marshal = %x, %v; reference %x", e, proto, b, err, ref)
			}
			if e.Len(proto) != len(ref) {
				c.Violation("extension-len-disagrees", "%T proto %d: Len=%d, reference object has %d bytes", e, proto, e.Len(proto), len(ref))
			}
			r.EvalBytes(len(ref) > 4, ref)
			r.Event("extension_objects_checked", 1)
		}
	})

	// original datagram too long for the 8-bit RFC 4884 length attribute
	r.Cases("multipart-length-attribute-limit", 1, func(c *verifrt.Case) {
		g := wGen{c.Rng}
		for _, proto := range []int{wProto4, wProto6} {
			for _, over := range []int{1, 4, 8, 200, 1024} {
				n := maxOrig(proto) + over
				data := g.bytes(n)
				data[128] = 0x45
				var m *Message
				if proto == wProto4 {
					m = &Message{Type: ipv4.ICMPTypeTimeExceeded, Body: &TimeExceeded{Data: data, Extensions: []Extension{g.mpls()}}}
				} else {
					m = &Message{Type: ipv6.ICMPTypeTimeExceeded, Body: &TimeExceeded{Data: data, Extensions: []Extension{g.mpls()}}}
				}
				c.Describe(map[string]any{"proto": proto, "orig_datagram_len": n, "extensions": 1})
				wire, err := m.Marshal(nil)
				if err != nil {
					r.Event("over_limit_datagram_refused", 1)
					continue
				}
				pm, err := ParseMessage(proto, wTight(wire))
				if err != nil {
					c.Violation("multipart-length-attribute-overflow", "proto %d: %d-byte original datagram + 1 extension marshals without error but ParseMessage fails: %v", proto, n, err)
				} else if d := wDiffBody(pm.Body, m.Body, proto); d != "" {
					c.Violation("multipart-length-attribute-overflow", "proto %d: %d-byte original datagram + 1 MPLS extension marshals without error (length attribute octet = %d, padded datagram needs %d units) but does not parse back: %s", proto, n, lenAttr(wire, proto), unitsNeeded(n, proto), d)
				}
				r.Event("over_limit_datagram_marshalled", 1)
				r.EvalBytes(true, wire)
			}
		}
	})

	// arbitrary and mutated bytes: no panic, no over-read
	r.CasesParallel("icmp-fuzz", r.N(100, 3000), 8, func(c *verifrt.Case) {
		g := wGen{c.Rng}
		for i := 0; i < perCase; i++ {
			var b []byte
			proto := g.pick(wProto4, wProto6)
			if g.rng.IntN(3) == 0 {
				b = g.bytes(g.rng.IntN(300))
				if len(b) > 0 {
					if proto == wProto4 {
						b[0] = byte(g.pick(0, 3, 8, 11, 12, 42, 43, int(b[0])))
					} else {
						b[0] = byte(g.pick(1, 2, 3, 4, 128, 129, 160, 161, int(b[0])))
					}
				}
			} else {
				m, p, _ := g.message()
				proto = p
				w, err := m.Marshal(nil)
				if err != nil {
					continue
				}
				b = append([]byte(nil), w...)
				for k := 1 + g.rng.IntN(4); k > 0 && len(b) > 0; k-- {
					switch g.rng.IntN(4) {
					case 0:
						b[g.rng.IntN(len(b))] ^= 1 << g.rng.IntN(8)
					case 1:
						b[g.rng.IntN(len(b))] = byte(g.rng.Uint32())
					case 2:
						b = b[:g.rng.IntN(len(b)+1)]
					default: // aim at the length-bearing octets
						j := g.pick(4, 5, 8, 9, 10, 11, 136, 137, 138, 139, 140, 141, 142, 143)
						if j < len(b) {
							b[j] = byte(g.pick(0, 1, 3, 4, 5, 32, 33, 64, 127, 128, 255))
						}
					}
				}
			}
			c.Describe(map[string]any{"proto": proto, "bytes": fmt.Sprintf("%x", b)})
			in := wTight(b)
			pm, err := ParseMessage(proto, in)
			if err == nil && pm == nil {
				c.Violation("parse-nil-nil", "ParseMessage(%d, %x) returned nil, nil", proto, b)
			}
			if err == nil {
				r.Event("fuzz_inputs_parsed", 1)
			} else {
				r.Event("fuzz_inputs_rejected", 1)
			}
			h := fnv.New64a()
			h.Write(b)
			r.EvalHash(len(b) > 4, h.Sum64())
		}
	})

	// ipv4.Header (RFC 791)
	r.CasesParallel("ipv4-header", r.N(60, 2000), 8, func(c *verifrt.Case) {
		g := wGen{c.Rng}
		reused := &ipv4.Header{}
		for i := 0; i < perCase; i++ {
			optLen := 4 * g.pick(0, 0, 0, 1, 2, 3, 5, 10, g.rng.IntN(11))
			h := &ipv4.Header{Version: 4, Len: 20 + optLen, TOS: g.rng.IntN(256), TotalLen: g.rng.IntN(65536), ID: g.rng.IntN(65536),
				Flags: ipv4.HeaderFlags(g.rng.IntN(8)), FragOff: g.rng.IntN(8192), TTL: g.rng.IntN(256), Protocol: g.rng.IntN(256),
				Checksum: g.rng.IntN(65536), Src: g.ip4(), Dst: g.ip4()}
			if optLen > 0 {
				h.Options = g.bytes(optLen)
			}
			c.Describe(map[string]any{"header": h.String(), "options": fmt.Sprintf("%x", h.Options)})
			b, err := h.Marshal()
			if err != nil {
				c.Violation("ipv4-header-marshal-refused", "%v: %v", h, err)
				continue
			}
			if linux {
				ref := []byte{byte(4<<4 | (20+optLen)/4), byte(h.TOS), byte(h.TotalLen >> 8), byte(h.TotalLen), byte(h.ID >> 8), byte(h.ID),
					byte(int(h.Flags)<<5 | h.FragOff>>8), byte(h.FragOff), byte(h.TTL), byte(h.Protocol), byte(h.Checksum >> 8), byte(h.Checksum)}
				ref = append(ref, h.Src.To4()...)
				ref = append(ref, h.Dst.To4()...)
				ref = append(ref, h.Options...)
				if !bytes.Equal(b, ref) {
					c.Violation("ipv4-header-differs-from-rfc791", "Marshal %x, reference %x", b, ref)
				}
			}
			eq := func(p *ipv4.Header, how string) {
				if p.Version != 4 || p.Len != h.Len || p.TOS != h.TOS || p.TotalLen != h.TotalLen || p.ID != h.ID || p.Flags != h.Flags || p.FragOff != h.FragOff ||
					p.TTL != h.TTL || p.Protocol != h.Protocol || p.Checksum != h.Checksum || !p.Src.Equal(h.Src) || !p.Dst.Equal(h.Dst) {
					c.Violation("ipv4-header-roundtrip-"+how, "%s gave %v, want %v", how, p, h)
				}
				if !bytes.Equal(p.Options, h.Options) {
					key := "ipv4-header-roundtrip-options-" + how
					c.Violation(key, "%s gave options %x, want %x (header %v)", how, p.Options, h.Options, h)
				}
			}
			if !linux {
				continue
			}
			in := wTight(b)
			if p, err := ipv4.ParseHeader(in); err != nil {
				c.Violation("ipv4-header-parse-refused", "ParseHeader(%x): %v", b, err)
			} else {
				eq(p, "ParseHeader")
			}
			if p, err := ParseIPv4Header(in); err != nil {
				c.Violation("ipv4-header-parse-refused", "icmp.ParseIPv4Header(%x): %v", b, err)
			} else {
				eq(p, "icmp.ParseIPv4Header")
			}
			// Header.Parse into a Header that was used before (Parse keeps the Options buffer for reuse)
			if err := reused.Parse(in); err != nil {
				c.Violation("ipv4-header-parse-refused", "Header.Parse(%x) on a reused Header: %v", b, err)
			} else {
				eq(reused, "reused-Header.Parse")
			}
			// with trailing payload
			withPayload := wTight(append(append([]byte(nil), b...), g.bytes(g.rng.IntN(40))...))
			if p, err := ipv4.ParseHeader(withPayload); err != nil {
				c.Violation("ipv4-header-parse-refused", "ParseHeader with payload: %v", err)
			} else {
				eq(p, "ParseHeader")
			}
			for n := 0; n < len(b); n++ {
				ipv4.ParseHeader(wTight(b[:n]))
				ParseIPv4Header(wTight(b[:n]))
			}
			// random header bytes
			rb := wTight(g.bytes(g.rng.IntN(70)))
			ipv4.ParseHeader(rb)
			ParseIPv4Header(rb)
			r.EvalBytes(optLen > 0, b)
			r.Event("ipv4_headers_checked", 1)
			if optLen > 0 {
				r.Event("ipv4_headers_with_options", 1)
			}
		}
	})

	if linux {
		wCheckCmsg(r)
	}

	r.Require("icmp_with_extensions", 1000)
	for _, k := range []string{"echo", "extecho-request", "extecho-reply", "dstunreach", "timeexceeded", "paramprob", "packettoobig", "rawbody"} {
		r.Require("icmp_"+k, 300)
	}
	r.Require("icmpv4_checksums_verified", 3000)
	r.Require("icmpv6_checksums_verified", 2000)
	r.Require("icmp_corrupt_extension_rejected", 500)
	r.Require("icmp_truncated_parses", 100000)
	r.Require("ipv4_headers_with_options", 1000)
	r.Require("extension_objects_checked", 1000)
	if linux {
		r.Require("cmsg4_marshal_checked", 1000)
		r.Require("cmsg4_parse_checked", 1000)
		r.Require("cmsg6_marshal_checked", 1000)
		r.Require("cmsg6_parse_checked", 1000)
		r.Require("cmsg_mutated_parses", 5000)
	}
}

func lenAttr(wire []byte, proto int) int {
	if proto == wProto4 {
		return int(wire[5])
	}
	return int(wire[4])
}

func unitsNeeded(n, proto int) int {
	if proto == wProto4 {
		return (n + 3) / 4
	}
	return (n + 7) / 8
}

// wParseCmsg runs parse (a ControlMessage.Parse method value) on a tight copy of b and turns
// a panic into a violation of its own, so that the case carries on with its remaining
// buffers. The key names the one shape of buffer known to matter: a control message of the
// package's own level (lvl) whose type is 0, the value the unset entries of the package's
// option table carry; any other panic gets a different key.
func wParseCmsg(c *verifrt.Case, fam string, lvl int32, b []byte, parse func([]byte) error) (err error, panicked bool) {
	defer func() {
		if p := recover(); p != nil {
			key := "cmsg" + fam + "-parse-panic-other"
			ms, _ := wCmsgWalk(b)
			for _, m := range ms {
				if m.level == lvl && m.typ == 0 {
					key = "cmsg" + fam + "-parse-panic-own-level-cmsg-type-0"
				}
			}
			c.Violation(key, "ControlMessage.Parse(%x) panics: %v", b, p)
			err, panicked = nil, true
		}
	}()
	return parse(wTight(b)), false
}

// wCheckCmsg: ipv4.ControlMessage and ipv6.ControlMessage against the cmsg(3) layout.
func wCheckCmsg(r *verifrt.R) {
	le32 := func(v uint32) []byte { return binary.LittleEndian.AppendUint32(nil, v) }

	r.CasesParallel("cmsg-ipv4", r.N(40, 1500), 8, func(c *verifrt.Case) {
		g := wGen{c.Rng}
		for i := 0; i < 100; i++ {
			// 1. Marshal -> reference walk
			cm := &ipv4.ControlMessage{TTL: g.rng.IntN(256)}
			if g.rng.IntN(3) != 0 {
				cm.Src = g.ip4()
			}
			if g.rng.IntN(3) != 0 {
				cm.IfIndex = g.pick(1, 2, 7, 255, 65536, 1<<31-1, 1+g.rng.IntN(1<<31-1))
			}
			if g.rng.IntN(6) == 0 {
				cm.Src = g.ip6() // not an IPv4 address: must be ignored
			}
			c.Describe(map[string]any{"ipv4.ControlMessage": cm.String()})
			b := cm.Marshal()
			wantPktinfo := cm.Src.To4() != nil || cm.IfIndex > 0
			ms, ok := wCmsgWalk(b)
			switch {
			case !ok:
				c.Violation("cmsg4-marshal-malformed", "Marshal(%v) = %x is not a well-formed cmsg sequence", cm, b)
			case !wantPktinfo && len(b) != 0:
				c.Violation("cmsg4-marshal-unexpected", "Marshal(%v) = %x, want nothing", cm, b)
			case wantPktinfo:
				var spec [4]byte
				copy(spec[:], cm.Src.To4())
				want := append(le32(uint32(cm.IfIndex)), spec[:]...)
				want = append(want, 0, 0, 0, 0)
				if len(ms) != 1 || ms[0].level != wIPPROTO_IP || ms[0].typ != wIP_PKTINFO || !bytes.Equal(ms[0].data, want) || len(b) != 32 {
					c.Violation("cmsg4-marshal-wrong-pktinfo", "Marshal(%v) = %x; want one IP_PKTINFO cmsg with in_pktinfo %x in 32 bytes", cm, b, want)
				}
				// and back through Parse: the interface index survives
				var back ipv4.ControlMessage
				if err, panicked := wParseCmsg(c, "4", wIPPROTO_IP, b, back.Parse); panicked {
				} else if err != nil {
					c.Violation("cmsg4-parse-refuses-marshalled", "Parse(Marshal(%v)): %v", cm, err)
				} else if back.IfIndex != cm.IfIndex || !back.Dst.Equal(net.IPv4zero) || back.TTL != 0 {
					c.Violation("cmsg4-roundtrip", "Parse(Marshal(%v)) = %v; want ifindex %d, dst 0.0.0.0, ttl 0", cm, &back, cm.IfIndex)
				}
			}
			r.EvalBytes(wantPktinfo, b)
			r.Event("cmsg4_marshal_checked", 1)

			// 2. harness-built control buffer -> Parse
			var buf []byte
			want := ipv4.ControlMessage{}
			n := 1 + g.rng.IntN(4)
			for k := 0; k < n; k++ {
				last := k == n-1
				pad := !last || g.rng.IntN(2) == 0
				switch g.rng.IntN(4) {
				case 0:
					ttl := g.rng.IntN(256)
					data := le32(uint32(ttl))
					if g.rng.IntN(4) == 0 {
						data = data[:1]
					}
					buf = wCmsgAppend(buf, wCmsg{wIPPROTO_IP, wIP_TTL, data}, pad)
					want.TTL = ttl
				case 1:
					idx := int32(g.rng.Uint32())
					dst := g.bytes(4)
					data := append(le32(uint32(idx)), g.bytes(4)...)
					data = append(data, dst...)
					buf = wCmsgAppend(buf, wCmsg{wIPPROTO_IP, wIP_PKTINFO, data}, pad)
					want.IfIndex, want.Dst = int(idx), net.IP(dst)
				case 2: // another level: ignored
					buf = wCmsgAppend(buf, wCmsg{int32(g.pick(1, 41, 6, 17, 255)), int32(g.pick(wIP_TTL, wIP_PKTINFO, 1, 29)), g.bytes(g.rng.IntN(24))}, pad)
				default: // unknown type at the IP level (0 included: no option has that name), or a known type with too little data: ignored
					if g.rng.IntN(2) == 0 {
						buf = wCmsgAppend(buf, wCmsg{wIPPROTO_IP, int32(g.pick(0, 1, 3, 7, 9, 20, 100)), g.bytes(g.rng.IntN(24))}, pad)
					} else {
						buf = wCmsgAppend(buf, wCmsg{wIPPROTO_IP, wIP_PKTINFO, g.bytes(g.rng.IntN(12))}, pad)
					}
				}
			}
			c.Describe(map[string]any{"ipv4 control buffer": fmt.Sprintf("%x", buf)})
			var got ipv4.ControlMessage
			if err, panicked := wParseCmsg(c, "4", wIPPROTO_IP, buf, got.Parse); panicked {
			} else if err != nil {
				c.Violation("cmsg4-parse-refuses-wellformed", "Parse(%x): %v", buf, err)
			} else if got.TTL != want.TTL || got.IfIndex != want.IfIndex || !bytes.Equal(got.Dst.To4(), want.Dst.To4()) || got.Src != nil {
				c.Violation("cmsg4-parse-wrong", "Parse(%x) = %v, want %v", buf, &got, &want)
			}
			r.EvalBytes(true, buf)
			r.Event("cmsg4_parse_checked", 1)

			// 3. mutated / truncated / random buffers: error or result, never a panic or over-read
			for k := 0; k < 6; k++ {
				mb := append([]byte(nil), buf...)
				switch g.rng.IntN(4) {
				case 0:
					mb = mb[:g.rng.IntN(len(mb)+1)]
				case 1:
					if len(mb) > 0 {
						mb[g.rng.IntN(len(mb))] ^= 1 << g.rng.IntN(8)
					}
				case 2: // attack a length field
					if len(mb) >= 8 {
						binary.LittleEndian.PutUint64(mb, wBadLens[g.rng.IntN(len(wBadLens))]+uint64(g.pick(0, 0, len(mb))))
					}
				default:
					mb = g.bytes(g.rng.IntN(64))
				}
				c.Describe(map[string]any{"ipv4 control buffer (mutated)": fmt.Sprintf("%x", mb)})
				var x ipv4.ControlMessage
				wParseCmsg(c, "4", wIPPROTO_IP, mb, x.Parse)
				r.Event("cmsg_mutated_parses", 1)
			}
		}
	})

	r.CasesParallel("cmsg-ipv6", r.N(40, 1500), 8, func(c *verifrt.Case) {
		g := wGen{c.Rng}
		for i := 0; i < 100; i++ {
			// 1. Marshal -> reference walk -> Parse
			cm := &ipv6.ControlMessage{}
			if g.rng.IntN(2) == 0 {
				cm.TrafficClass = g.pick(1, 255, 1+g.rng.IntN(255))
			}
			if g.rng.IntN(2) == 0 {
				cm.HopLimit = g.pick(1, 64, 255, 1+g.rng.IntN(255))
			}
			if g.rng.IntN(2) == 0 {
				cm.Src = g.ip6()
			} else if g.rng.IntN(4) == 0 {
				cm.Src = g.ip4() // not IPv6: ignored
			}
			if g.rng.IntN(2) == 0 {
				cm.IfIndex = g.pick(1, 2, 7, 255, 65536, 1<<31-1, 1+g.rng.IntN(1<<31-1))
			}
			if g.rng.IntN(4) == 0 {
				cm.NextHop = g.ip6() // not supported as a control message on linux: ignored
			}
			c.Describe(map[string]any{"ipv6.ControlMessage": cm.String()})
			b := cm.Marshal()
			var exp []wCmsg
			if cm.TrafficClass > 0 {
				exp = append(exp, wCmsg{wIPPROTO_IPV6, wIPV6_TCLASS, le32(uint32(cm.TrafficClass))})
			}
			if cm.HopLimit > 0 {
				exp = append(exp, wCmsg{wIPPROTO_IPV6, wIPV6_HOPLIMIT, le32(uint32(cm.HopLimit))})
			}
			srcOK := cm.Src.To16() != nil && cm.Src.To4() == nil
			if srcOK || cm.IfIndex > 0 {
				var a [16]byte
				if srcOK {
					copy(a[:], cm.Src.To16())
				}
				exp = append(exp, wCmsg{wIPPROTO_IPV6, wIPV6_PKTINFO, append(a[:], le32(uint32(cm.IfIndex))...)})
			}
			ms, ok := wCmsgWalk(b)
			same := ok && len(ms) == len(exp)
			for k := 0; same && k < len(exp); k++ {
				same = ms[k].level == exp[k].level && ms[k].typ == exp[k].typ && bytes.Equal(ms[k].data, exp[k].data)
			}
			var refBuf []byte
			for _, e := range exp {
				refBuf = wCmsgAppend(refBuf, e, true)
			}
			if !same || len(b) != len(refBuf) {
				c.Violation("cmsg6-marshal-wrong", "Marshal(%v) = %x; reference cmsg sequence %x", cm, b, refBuf)
			} else if len(b) > 0 {
				var back ipv6.ControlMessage
				if err, panicked := wParseCmsg(c, "6", wIPPROTO_IPV6, b, back.Parse); panicked {
				} else if err != nil {
					c.Violation("cmsg6-parse-refuses-marshalled", "Parse(Marshal(%v)): %v", cm, err)
				} else {
					wantDst := net.IP(nil)
					if srcOK || cm.IfIndex > 0 {
						wantDst = make(net.IP, 16)
						if srcOK {
							copy(wantDst, cm.Src.To16())
						}
					}
					if back.TrafficClass != cm.TrafficClass || back.HopLimit != cm.HopLimit || back.IfIndex != cm.IfIndex || !bytes.Equal(back.Dst, wantDst) || back.MTU != 0 {
						c.Violation("cmsg6-roundtrip", "Parse(Marshal(%v)) = %v; want tclass %d hoplim %d ifindex %d dst(=packet-info address) %v", cm, &back, cm.TrafficClass, cm.HopLimit, cm.IfIndex, wantDst)
					}
				}
			}
			r.EvalBytes(len(exp) > 0, b)
			r.Event("cmsg6_marshal_checked", 1)

			// 2. harness-built control buffer -> Parse
			var buf []byte
			want := ipv6.ControlMessage{}
			n := 1 + g.rng.IntN(5)
			for k := 0; k < n; k++ {
				last := k == n-1
				pad := !last || g.rng.IntN(2) == 0
				switch g.rng.IntN(6) {
				case 0:
					v := g.rng.Uint32()
					buf = wCmsgAppend(buf, wCmsg{wIPPROTO_IPV6, wIPV6_TCLASS, le32(v)}, pad)
					want.TrafficClass = int(v)
				case 1:
					v := g.rng.Uint32()
					buf = wCmsgAppend(buf, wCmsg{wIPPROTO_IPV6, wIPV6_HOPLIMIT, le32(v)}, pad)
					want.HopLimit = int(v)
				case 2:
					a := g.bytes(16)
					idx := int32(g.rng.Uint32())
					buf = wCmsgAppend(buf, wCmsg{wIPPROTO_IPV6, wIPV6_PKTINFO, append(append([]byte(nil), a...), le32(uint32(idx))...)}, pad)
					want.Dst, want.IfIndex = net.IP(a), int(idx)
				case 3: // struct ip6_mtuinfo { struct sockaddr_in6 ip6m_addr; uint32_t ip6m_mtu; }
					a := g.bytes(16)
					scope, mtu := g.rng.Uint32(), g.rng.Uint32()
					data := append([]byte{10, 0, 0, 0}, g.bytes(4)...) // family AF_INET6, port, flowinfo
					data = append(data, a...)
					data = append(data, le32(scope)...)
					data = append(data, le32(mtu)...)
					buf = wCmsgAppend(buf, wCmsg{wIPPROTO_IPV6, wIPV6_PATHMTU, data}, pad)
					want.Dst, want.IfIndex, want.MTU = net.IP(a), int(scope), int(mtu)
				case 4:
					buf = wCmsgAppend(buf, wCmsg{int32(g.pick(0, 1, 6, 17, 58, 255)), int32(g.pick(wIPV6_TCLASS, wIPV6_HOPLIMIT, wIPV6_PKTINFO, wIPV6_PATHMTU)), g.bytes(g.rng.IntN(40))}, pad)
				default:
					if g.rng.IntN(2) == 0 {
						buf = wCmsgAppend(buf, wCmsg{wIPPROTO_IPV6, int32(g.pick(0, 1, 2, 51, 53, 60, 62, 66, 100)), g.bytes(g.rng.IntN(40))}, pad)
					} else {
						buf = wCmsgAppend(buf, wCmsg{wIPPROTO_IPV6, int32(g.pick(wIPV6_PKTINFO, wIPV6_PATHMTU)), g.bytes(g.rng.IntN(20))}, pad)
					}
				}
			}
			c.Describe(map[string]any{"ipv6 control buffer": fmt.Sprintf("%x", buf)})
			var got ipv6.ControlMessage
			if err, panicked := wParseCmsg(c, "6", wIPPROTO_IPV6, buf, got.Parse); panicked {
			} else if err != nil {
				c.Violation("cmsg6-parse-refuses-wellformed", "Parse(%x): %v", buf, err)
			} else if got.TrafficClass != want.TrafficClass || got.HopLimit != want.HopLimit || got.IfIndex != want.IfIndex || got.MTU != want.MTU || !bytes.Equal(got.Dst, want.Dst) || got.Src != nil || got.NextHop != nil {
				c.Violation("cmsg6-parse-wrong", "Parse(%x) = %v, want %v", buf, &got, &want)
			}
			r.EvalBytes(true, buf)
			r.Event("cmsg6_parse_checked", 1)

			for k := 0; k < 6; k++ {
				mb := append([]byte(nil), buf...)
				switch g.rng.IntN(4) {
				case 0:
					mb = mb[:g.rng.IntN(len(mb)+1)]
				case 1:
					if len(mb) > 0 {
						mb[g.rng.IntN(len(mb))] ^= 1 << g.rng.IntN(8)
					}
				case 2:
					if len(mb) >= 8 {
						binary.LittleEndian.PutUint64(mb, wBadLens[g.rng.IntN(len(wBadLens))]+uint64(g.pick(0, 0, len(mb))))
					}
				default:
					mb = g.bytes(g.rng.IntN(80))
				}
				c.Describe(map[string]any{"ipv6 control buffer (mutated)": fmt.Sprintf("%x", mb)})
				var x ipv6.ControlMessage
				wParseCmsg(c, "6", wIPPROTO_IPV6, mb, x.Parse)
				r.Event("cmsg_mutated_parses", 1)
			}
		}
	})
}
