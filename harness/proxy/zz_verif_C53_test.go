//go:build verif

package proxy

import (
	"context"
	"errors"
	"fmt"
	"net"
	"net/netip"
	"strings"
	"sync"
	"testing"

	"golang.org/x/net/internal/verifrt"
)

// Reference (from the property statement and the PerHost documentation), evaluated on the
// structure of the generated rules with net/netip:
//   dialed host is an IP literal  -> bypass iff it equals an added IP or lies in an added network
//   dialed host is a name         -> bypass iff it equals an added host, equals an added zone, or
//                                    ends in "."+zone
// The generator renders the structured rules either into AddFromString text or into direct
// AddIP/AddNetwork/AddZone/AddHost calls.

type c53Dialer struct {
	mu    sync.Mutex
	calls []string
}

func (d *c53Dialer) Dial(network, addr string) (net.Conn, error) {
	d.mu.Lock()
	d.calls = append(d.calls, network+" "+addr)
	d.mu.Unlock()
	return nil, errors.New("c53 recording dialer")
}

func (d *c53Dialer) take() []string {
	d.mu.Lock()
	defer d.mu.Unlock()
	c := d.calls
	d.calls = nil
	return c
}

// c53CtxDialer also implements ContextDialer.
type c53CtxDialer struct{ c53Dialer }

func (d *c53CtxDialer) DialContext(ctx context.Context, network, addr string) (net.Conn, error) {
	d.mu.Lock()
	d.calls = append(d.calls, network+" "+addr)
	d.mu.Unlock()
	return nil, errors.New("c53 recording context dialer")
}

type c53Taker interface {
	Dialer
	take() []string
}

type c53Kind int

const (
	c53IP c53Kind = iota
	c53Net
	c53Zone
	c53Host
	c53Junk // unparsable CIDR, blanks: must have no effect
	// c53HostDotted: a host added with a trailing dot. What it matches is left open (the code
	// trims the dot, the documentation is silent), so no dial of that name is judged; it is there
	// because such an entry must not disturb the rules around it.
	c53HostDotted
)

type c53Rule struct {
	kind   c53Kind
	addr   netip.Addr
	prefix netip.Prefix // masked
	name   string       // zone (without "*." / leading dot) or host
	text   string       // AddFromString spelling
}

var c53Words = []string{"example", "corp", "internal", "foo", "bar", "svc", "zone", "local", "db", "api", "x", "a1", "my-host", "intranet", "localhost"}
var c53TLDs = []string{"com", "org", "net", "test", "lan", "zone"}

func c53Name(c *verifrt.Case, min, max int) string {
	n := min + c.Rng.IntN(max-min+1)
	var ls []string
	for i := 0; i < n; i++ {
		if i == n-1 && (n > 1 || c.Rng.IntN(2) == 0) {
			ls = append(ls, c53TLDs[c.Rng.IntN(len(c53TLDs))])
			continue
		}
		w := c53Words[c.Rng.IntN(len(c53Words))]
		if c.Rng.IntN(3) == 0 {
			w += fmt.Sprint(c.Rng.IntN(100))
		}
		ls = append(ls, w)
	}
	return strings.Join(ls, ".")
}

func c53Addr(c *verifrt.Case, v6 bool) netip.Addr {
	if v6 {
		var b [16]byte
		b[0], b[1], b[2], b[3] = 0x20, 0x01, 0x0d, 0xb8
		if c.Rng.IntN(6) == 0 {
			b[0], b[1] = 0x10, 0x00
		}
		for i := 4; i < 16; i++ {
			if c.Rng.IntN(3) == 0 {
				b[i] = byte(c.Rng.IntN(256))
			}
		}
		return netip.AddrFrom16(b)
	}
	first := []byte{10, 192, 172, 8, 100, 127, 1, 126, 128, 223}[c.Rng.IntN(10)]
	return netip.AddrFrom4([4]byte{first, byte(c.Rng.IntN(256)), byte(c.Rng.IntN(256)), byte(c.Rng.IntN(256))})
}

func c53Spell(c *verifrt.Case, a netip.Addr) string {
	if a.Is4() {
		return a.String()
	}
	switch c.Rng.IntN(3) {
	case 0:
		return a.String()
	case 1:
		return strings.ToUpper(a.String())
	}
	b := a.As16()
	var parts []string
	for i := 0; i < 16; i += 2 {
		parts = append(parts, fmt.Sprintf("%x", uint16(b[i])<<8|uint16(b[i+1])))
	}
	return strings.Join(parts, ":")
}

func c53Last(p netip.Prefix) netip.Addr {
	b := p.Addr().AsSlice()
	for i := p.Bits(); i < len(b)*8; i++ {
		b[i/8] |= 1 << (7 - i%8)
	}
	r, _ := netip.AddrFromSlice(b)
	return r
}

type c53Target struct {
	isIP   bool
	addr   netip.Addr
	host   string // as dialed, without brackets
	origin string
}

func TestVerif_C53(t *testing.T) {
	r := verifrt.Start(t, "C53")
	defer r.Finish()
	r.SetRule("per case one PerHost with 0-7 PRNG rules (IPv4/IPv6 literal, CIDR, *.zone, host, junk) installed through AddFromString text (blanks, empty items) or through AddIP/AddNetwork/AddZone/AddHost, default and bypass dialers with or without DialContext; dialed addresses derived from the rules (exact, subdomain, deep subdomain, parent, rule as plain string suffix without label boundary, extended last label, rule followed by another label; address itself respelled, neighbour; first/last/inside/before/after a network, other family) plus unrelated names and addresses, through Dial and DialContext; non-trivial = address derived from a rule; distinct by (rules, address, entry point)")
	r.Assume("reference decides from the generated rule structure with net/netip")
	r.Assume("not generated (left open by the documentation): upper/mixed-case names, dialed names with trailing dots (hosts ADDED with a trailing dot are generated, dials of exactly those names are not judged), IPv6 zones, IPv4-mapped IPv6, empty host")

	n := r.N(6000, 300000)
	r.CasesParallel("perhost", n, 0, func(c *verifrt.Case) {
		rng := c.Rng
		var rules []c53Rule
		nr := rng.IntN(8)
		for i := 0; i < nr; i++ {
			switch k := rng.IntN(20); {
			case k < 4:
				a := c53Addr(c, rng.IntN(3) == 0)
				rules = append(rules, c53Rule{kind: c53IP, addr: a, text: c53Spell(c, a)})
			case k < 8:
				a := c53Addr(c, rng.IntN(3) == 0)
				bits := 8 + rng.IntN(25)
				if a.Is6() {
					bits = 12 + rng.IntN(117)
				}
				if rng.IntN(10) == 0 {
					bits = a.BitLen()
				}
				rules = append(rules, c53Rule{kind: c53Net, prefix: netip.PrefixFrom(a, bits).Masked(), text: fmt.Sprintf("%s/%d", c53Spell(c, a), bits)})
			case k < 13:
				z := c53Name(c, 1, 3)
				rules = append(rules, c53Rule{kind: c53Zone, name: z, text: "*." + z})
			case k < 18:
				h := c53Name(c, 1, 3)
				rules = append(rules, c53Rule{kind: c53Host, name: h, text: h})
				if rng.IntN(3) == 0 {
					// siblings: X-something as a plain host, then X with a trailing dot
					x := c53Name(c, 1, 1)
					sib := x + "-" + c53Name(c, 1, 1)
					rules = append(rules, c53Rule{kind: c53Host, name: sib, text: sib}, c53Rule{kind: c53HostDotted, name: x, text: x + "."})
					r.Event("rules_host_with_trailing_dot_after_hyphenated_sibling", 1)
				}
			default:
				rules = append(rules, c53Rule{kind: c53Junk, text: []string{"", " ", "10.0.0.0/33", "300.1.1.1/8", "foo/bar", "2001:db8::/129"}[rng.IntN(6)]})
			}
		}
		var def, byp c53Taker = &c53Dialer{}, &c53Dialer{}
		if rng.IntN(2) == 0 {
			def = &c53CtxDialer{}
		}
		if rng.IntN(2) == 0 {
			byp = &c53CtxDialer{}
		}
		ph := NewPerHost(def, byp)
		var how []string
		viaString := rng.IntN(3) != 0
		if viaString {
			// one or two AddFromString calls
			var texts []string
			for _, ru := range rules {
				s := ru.text
				if rng.IntN(4) == 0 {
					s = " " + s
				}
				if rng.IntN(4) == 0 {
					s += " "
				}
				texts = append(texts, s)
			}
			parts := [][]string{texts}
			if len(texts) > 1 && rng.IntN(3) == 0 {
				cut := 1 + rng.IntN(len(texts)-1)
				parts = [][]string{texts[:cut], texts[cut:]}
			}
			for _, part := range parts {
				s := strings.Join(part, ",")
				ph.AddFromString(s)
				how = append(how, fmt.Sprintf("AddFromString(%q)", s))
			}
		} else {
			for _, ru := range rules {
				switch ru.kind {
				case c53IP:
					ip := net.IP(ru.addr.AsSlice())
					if ru.addr.Is4() && rng.IntN(2) == 0 {
						ip = ip.To16() // 16-byte form of an IPv4 address, as net.ParseIP returns it
					}
					ph.AddIP(ip)
					how = append(how, fmt.Sprintf("AddIP(%v len %d)", ip, len(ip)))
				case c53Net:
					_, ipn, err := net.ParseCIDR(ru.prefix.String())
					if err != nil {
						panic("harness: " + err.Error())
					}
					ph.AddNetwork(ipn)
					how = append(how, fmt.Sprintf("AddNetwork(%v)", ipn))
				case c53Zone:
					z := ru.name
					if rng.IntN(2) == 0 {
						z = "." + z
					}
					ph.AddZone(z)
					how = append(how, fmt.Sprintf("AddZone(%q)", z))
				case c53Host:
					ph.AddHost(ru.name)
					how = append(how, fmt.Sprintf("AddHost(%q)", ru.name))
				case c53HostDotted:
					ph.AddHost(ru.text)
					how = append(how, fmt.Sprintf("AddHost(%q)", ru.text))
				}
			}
		}

		// ---- targets ----
		var targets []c53Target
		addName := func(h, origin string) { targets = append(targets, c53Target{host: h, origin: origin}) }
		addIP := func(a netip.Addr, origin string) {
			if !a.IsValid() || a.Is4In6() {
				return
			}
			targets = append(targets, c53Target{isIP: true, addr: a, host: c53Spell(c, a), origin: origin})
		}
		for _, ru := range rules {
			switch ru.kind {
			case c53Zone, c53Host:
				pre := "zone"
				if ru.kind == c53Host {
					pre = "host"
				}
				addName(ru.name, pre+"-exact")
				addName(c53Name(c, 1, 1)+"."+ru.name, pre+"-subdomain")
				addName(c53Name(c, 2, 2)+"."+ru.name, pre+"-deep-subdomain")
				if i := strings.IndexByte(ru.name, '.'); i >= 0 {
					addName(ru.name[i+1:], pre+"-parent")
				}
				addName("not"+ru.name, pre+"-glued")
				addName(ru.name+"x", pre+"-extended")
				addName(ru.name+"."+c53TLDs[rng.IntN(len(c53TLDs))], pre+"-as-prefix")
			case c53IP:
				addIP(ru.addr, "ip-exact")
				if rng.IntN(2) == 0 {
					addIP(ru.addr.Next(), "ip-neighbour")
				} else {
					addIP(ru.addr.Prev(), "ip-neighbour")
				}
			case c53Net:
				p := ru.prefix
				addIP(p.Addr(), "net-first")
				addIP(c53Last(p), "net-last")
				addIP(c53Last(p).Next(), "net-after")
				addIP(p.Addr().Prev(), "net-before")
				b := p.Addr().AsSlice()
				for bit := p.Bits(); bit < len(b)*8; bit++ {
					if rng.IntN(2) == 0 {
						b[bit/8] |= 1 << (7 - bit%8)
					}
				}
				in, _ := netip.AddrFromSlice(b)
				addIP(in, "net-inside")
			}
		}
		addName(c53Name(c, 1, 3), "random-name")
		addIP(c53Addr(c, false), "random-ipv4")
		addIP(c53Addr(c, true), "random-ipv6")

		dotted := map[string]bool{}
		for _, ru := range rules {
			if ru.kind == c53HostDotted {
				dotted[ru.name] = true
			}
		}
		for _, tg := range targets {
			if !tg.isIP && dotted[tg.host] {
				continue // see c53HostDotted
			}
			port := []string{"80", "443", "123", "8080"}[rng.IntN(4)]
			addr := net.JoinHostPort(tg.host, port)
			network := []string{"tcp", "tcp4", "tcp6", "udp"}[rng.IntN(4)]
			// ---- reference ----
			why := ""
			for _, ru := range rules {
				switch ru.kind {
				case c53IP:
					if tg.isIP && tg.addr == ru.addr {
						why = "ip"
					}
				case c53Net:
					if tg.isIP && ru.prefix.Contains(tg.addr) {
						why = "network"
					}
				case c53Zone:
					if !tg.isIP && tg.host == ru.name {
						why = "zone-itself"
					} else if !tg.isIP && strings.HasSuffix(tg.host, "."+ru.name) {
						why = "zone-subdomain"
					}
				case c53Host:
					if !tg.isIP && tg.host == ru.name {
						why = "host"
					}
				}
				if why != "" {
					break
				}
			}
			useCtx := rng.IntN(2) == 0
			entry := "Dial"
			if useCtx {
				entry = "DialContext"
			}
			desc := map[string]any{"rules": how, "network": network, "addr": addr, "entry_point": entry, "target_origin": tg.origin, "reference_bypass_reason": why,
				"default_has_DialContext": fmt.Sprintf("%T", def) == "*proxy.c53CtxDialer", "bypass_has_DialContext": fmt.Sprintf("%T", byp) == "*proxy.c53CtxDialer"}
			c.Describe(desc)
			if useCtx {
				ph.DialContext(context.Background(), network, addr)
			} else {
				ph.Dial(network, addr)
			}
			dc, bc := def.take(), byp.take()
			r.Event("dials_checked", 1)
			wantCall := network + " " + addr
			switch {
			case len(dc)+len(bc) != 1:
				c.Violation("not-exactly-one-dial", "%v: default dialer got %v, bypass dialer got %v", desc, dc, bc)
			case why != "" && len(bc) != 1:
				c.Violation("bypass-rule-ignored-"+why, "%v: went to the default dialer although rule kind %s matches", desc, why)
			case why == "" && len(dc) != 1:
				c.Violation("bypass-without-rule-"+c53OriginClass(tg.origin), "%v: went to the bypass dialer although no rule matches (target derived as %s)", desc, tg.origin)
			case (append(dc, bc...))[0] != wantCall:
				c.Violation("dial-arguments-changed", "%v: dialer saw %q", desc, append(dc, bc...)[0])
			}
			if why != "" {
				r.Event("bypass_"+why, 1)
			} else {
				r.Event("default_"+tg.origin, 1)
			}
			if useCtx {
				r.Event("via_DialContext", 1)
			}
			r.Eval(!strings.HasPrefix(tg.origin, "random"), strings.Join(how, ";"), "|", entry, "|", network, "|", addr)
		}
		if c.Index < 3 {
			r.Sample(map[string]any{"rules": how, "targets": len(targets)})
		}
		r.Event("configs", 1)
	})
	for _, k := range []string{"bypass_ip", "bypass_network", "bypass_zone-itself", "bypass_zone-subdomain", "bypass_host",
		"default_zone-glued", "default_host-subdomain", "default_host-glued", "default_net-after", "default_net-before", "default_ip-neighbour", "default_zone-extended", "via_DialContext"} {
		r.Require(k, 50)
	}
}

func c53OriginClass(origin string) string {
	switch {
	case strings.HasPrefix(origin, "net-"):
		return "ip-outside-network"
	case strings.HasPrefix(origin, "ip-"), strings.HasPrefix(origin, "random-ip"):
		return "ip"
	}
	return "name-" + origin
}
