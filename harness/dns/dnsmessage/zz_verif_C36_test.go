//go:build verif

package dnsmessage

import (
	"bytes"
	"fmt"
	"hash/fnv"
	"math/rand/v2"
	"runtime/debug"
	"testing"

	"golang.org/x/net/internal/verifrt"
)

// C36: well-formed messages round-trip through Pack/Unpack and the Builder (with and
// without compression); compression never changes the decoded names.
//
// For every generated message (neutral form, see zz_verif_util_dns_test.go) four byte
// strings are produced by the code under test — Message.Pack, Message.AppendPack onto a
// prefix, Builder with EnableCompression, Builder without — and each is judged by
//   (a) the harness's own strict RFC 1035 decoder: must be a well-formed message whose
//       content (all names expanded through the pointers) equals the generated message;
//   (b) Message.Unpack: must succeed and give the generated message; header Type/Length
//       must be the ones on the wire.

func c36AddResource(b *Builder, r *Resource) error {
	h := r.Header
	switch body := r.Body.(type) {
	case *AResource:
		return b.AResource(h, *body)
	case *AAAAResource:
		return b.AAAAResource(h, *body)
	case *NSResource:
		return b.NSResource(h, *body)
	case *CNAMEResource:
		return b.CNAMEResource(h, *body)
	case *PTRResource:
		return b.PTRResource(h, *body)
	case *MXResource:
		return b.MXResource(h, *body)
	case *SOAResource:
		return b.SOAResource(h, *body)
	case *TXTResource:
		return b.TXTResource(h, *body)
	case *SRVResource:
		return b.SRVResource(h, *body)
	case *SVCBResource:
		return b.SVCBResource(h, *body)
	case *HTTPSResource:
		return b.HTTPSResource(h, *body)
	case *OPTResource:
		return b.OPTResource(h, *body)
	case *UnknownResource:
		return b.UnknownResource(h, *body)
	}
	return fmt.Errorf("harness: body %T", r.Body)
}

// c36Build drives a Builder over msg. Start* of an empty section is called or not by coin.
func c36Build(msg *Message, buf []byte, compress bool, rng *rand.Rand) ([]byte, error) {
	b := NewBuilder(buf, msg.Header)
	if compress {
		b.EnableCompression()
	}
	if len(msg.Questions) > 0 || rng.IntN(2) == 0 {
		if err := b.StartQuestions(); err != nil {
			return nil, fmt.Errorf("StartQuestions: %w", err)
		}
	}
	for i := range msg.Questions {
		if err := b.Question(msg.Questions[i]); err != nil {
			return nil, fmt.Errorf("Question %d: %w", i, err)
		}
	}
	for s, sec := range [][]Resource{msg.Answers, msg.Authorities, msg.Additionals} {
		if len(sec) > 0 || rng.IntN(2) == 0 {
			var err error
			switch s {
			case 0:
				err = b.StartAnswers()
			case 1:
				err = b.StartAuthorities()
			case 2:
				err = b.StartAdditionals()
			}
			if err != nil {
				return nil, fmt.Errorf("Start section %d: %w", s, err)
			}
		}
		for i := range sec {
			if err := c36AddResource(&b, &sec[i]); err != nil {
				return nil, fmt.Errorf("section %d resource %d (%T): %w", s, i, sec[i].Body, err)
			}
		}
	}
	return b.Finish()
}

func c36Prefix(rng *rand.Rand) []byte {
	var n int
	switch rng.IntN(16) {
	case 0, 3:
		n = 0
	case 1:
		n = 0x3FFF - rng.IntN(64) // pointer offsets are relative to the message start, not the buffer
	case 2:
		n = 1 + rng.IntN(3000)
	default:
		n = 1 + rng.IntN(40)
	}
	extra := 0
	if rng.IntN(2) == 0 {
		extra = rng.IntN(2000) // spare capacity: packing happens in place
	}
	buf := make([]byte, n, n+extra)
	for i := range buf {
		buf[i] = byte(rng.Uint32())
	}
	return buf
}

func TestVerif_C36(t *testing.T) {
	r := verifrt.Start(t, "C36")
	defer r.Finish()
	r.SetRule("case = PRNG well-formed message: header bits/opcode/rcode, 0-20 (sometimes 30-150) records per section of types A AAAA NS CNAME SOA PTR MX TXT SRV SVCB HTTPS OPT unknown, absolute names of 0..n labels (1-63 bytes, any byte but '.', text <= 254) built so that suffixes repeat; 3% of messages carry a filler record that puts later names across the 14-bit pointer limit, a third of those also a record with 16384..65535 octets of RDATA. non-trivial = Message.Pack emitted at least one compression pointer (counted in the bytes by the harness decoder). distinct = FNV-64a of the Pack() bytes")
	r.Assume("harness decoder/encoder written from RFC 1035 4.1, RFC 2782, RFC 6891, RFC 9460 2.2; message content compared through a neutral representation that ignores nil-vs-empty slices and the auto-filled ResourceHeader.Length (Length is compared with the RDLENGTH seen on the wire instead)")

	// the workload allocates a lot of short-lived buffers; fewer GC cycles, same results
	defer debug.SetGCPercent(debug.SetGCPercent(800))
	n := r.N(6000, 250000)
	const chunks = 64
	r.CasesParallel("messages", chunks, 0, func(c *verifrt.Case) {
		ev := map[string]int64{} // per-chunk event counters, flushed once
		for k := 0; k < n/chunks; k++ {
			// sub-case PRNG: every message is reproducible from (seed, chunk, k)
			rng := rand.New(rand.NewPCG(c.Rng.Uint64(), uint64(k)))
			c36One(c, r, rng, k, ev)
		}
		for kind, v := range ev {
			r.Event(kind, v)
		}
	})
	r.Require("messages", int64(n/chunks*chunks))
	r.Require("msgs_with_pointers", int64(n/4))
	r.Require("names_text_len_254", 50)
	r.Require("msgs_names_beyond_14bit_offset", 20)
	r.Require("rdata_16k_to_65535", 10)
	for _, k := range []string{"rr_A", "rr_AAAA", "rr_NS", "rr_CNAME", "rr_SOA", "rr_PTR", "rr_MX", "rr_TXT", "rr_SRV", "rr_SVCB", "rr_HTTPS", "rr_OPT", "rr_unknown"} {
		r.Require(k, 200)
	}
}

var c36TypeNames = map[uint16]string{tA: "A", tAAAA: "AAAA", tNS: "NS", tCNAME: "CNAME", tSOA: "SOA", tPTR: "PTR", tMX: "MX", tTXT: "TXT", tSRV: "SRV", tSVCB: "SVCB", tHTTPS: "HTTPS", tOPT: "OPT"}

func c36One(c *verifrt.Case, r *verifrt.R, rng *rand.Rand, k int, ev map[string]int64) {
	m, g, shape := genMsg(rng)
	sum := m.summary()
	sum["sub_index"] = k
	c.Describe(sum)
	viol := func(key, f string, a ...any) {
		d := m.summary()
		d["sub_index"] = k
		cs := m.canon()
		if len(cs) > 6000 {
			cs = cs[:6000] + "…"
		}
		d["message"] = cs
		c.Describe(d)
		c.Violation(key, "sub-case %d: %s", k, fmt.Sprintf(f, a...))
	}

	var packStats *refStats
	var packed []byte
	// judge one output of the code under test
	judge := func(variant string, out []byte) (*refStats, bool) {
		ok := true
		rm, st, err := refDecodeMsg(out)
		if err != nil {
			viol(variant+":bytes-malformed", "harness decoder rejects the bytes: %v; bytes %s", err, hexHead(out))
			return nil, false
		}
		if !refEqual(rm, m) {
			viol(variant+":bytes-wrong-content", "harness decoder reads a different message: %s; bytes %s", firstDiff(rm.canon(), m.canon()), hexHead(out))
			ok = false
		}
		if st.PtrsInNoCompress > 0 {
			viol(variant+":uncompressible-target-compressed", "%d compression pointer(s) inside an SRV/SVCB/HTTPS target (RFC 2782 / RFC 9460 2.2); bytes %s", st.PtrsInNoCompress, hexHead(out))
			ok = false
		}
		var u Message
		if err := u.Unpack(out); err != nil {
			viol(variant+":unpack-error", "Unpack of the produced bytes fails: %v; bytes %s", err, hexHead(out))
			return st, false
		}
		um, err := refFromMessage(&u)
		if err != nil {
			viol(variant+":unpack-inconsistent", "unpacked message: %v", err)
			return st, false
		}
		if !refEqual(um, m) {
			viol(variant+":unpack-mismatch", "Unpack(bytes) differs from the message packed: %s; bytes %s", firstDiff(um.canon(), m.canon()), hexHead(out))
			ok = false
		} else {
			for s := range um.Sec {
				for j := range um.Sec[s] {
					if um.Sec[s][j].RDLen != rm.Sec[s][j].RDLen {
						viol(variant+":unpack-length-field", "section %d rr %d: Header.Length=%d, RDLENGTH on the wire %d", s, j, um.Sec[s][j].RDLen, rm.Sec[s][j].RDLen)
						ok = false
					}
				}
			}
		}
		return st, ok
	}

	// 1. Message.Pack
	msg := m.message(rng)
	out, err := msg.Pack()
	if err != nil {
		viol("pack:error", "Pack of a well-formed message fails: %v", err)
	} else {
		packed = out
		packStats, _ = judge("pack", out)
		// the message value now has Type/Length filled in: packing it again must not change the bytes
		out2, err := msg.Pack()
		if err != nil || !bytes.Equal(out, out2) {
			viol("pack:second-pack-differs", "packing the same Message value twice: err=%v, %d vs %d bytes", err, len(out), len(out2))
		}
		if fm, err := refFromMessage(&msg); err != nil {
			viol("pack:type-field-not-set", "after Pack: %v", err)
		} else if !refEqual(fm, m) {
			viol("pack:mutates-message", "Pack changed the content of its receiver: %s", firstDiff(fm.canon(), m.canon()))
		}
	}

	// 2. Message.AppendPack onto a prefix
	{
		msg := m.message(rng)
		prefix := c36Prefix(rng)
		keep := append([]byte(nil), prefix...)
		out, err := msg.AppendPack(prefix)
		if err != nil {
			viol("appendpack:error", "AppendPack fails: %v", err)
		} else if len(out) < len(keep) || !bytes.Equal(out[:len(keep)], keep) {
			viol("appendpack:clobbers-prefix", "the %d prefix bytes were changed", len(keep))
		} else {
			judge("appendpack", out[len(keep):])
			if packed != nil && !bytes.Equal(out[len(keep):], packed) {
				viol("appendpack:differs-from-pack", "AppendPack after a %d-byte prefix produced different bytes than Pack (%d vs %d bytes)", len(keep), len(out)-len(keep), len(packed))
			}
			ev["appendpack_checked"] += 1
		}
	}

	// 3./4. Builder with and without compression, appended to a prefix
	var lenC, lenNC = -1, -1
	for _, compress := range []bool{true, false} {
		variant := "builder-nocompress"
		if compress {
			variant = "builder-compress"
		}
		msg := m.message(rng)
		prefix := c36Prefix(rng)
		if rng.IntN(4) == 0 {
			prefix = nil
		}
		keep := append([]byte(nil), prefix...)
		out, err := c36Build(&msg, prefix, compress, rng)
		if err != nil {
			viol(variant+":error", "Builder fails on a well-formed message: %v", err)
			continue
		}
		if len(out) < len(keep) || !bytes.Equal(out[:len(keep)], keep) {
			viol(variant+":clobbers-prefix", "the %d prefix bytes were changed", len(keep))
			continue
		}
		body := out[len(keep):]
		st, _ := judge(variant, body)
		if compress {
			lenC = len(body)
			ev["builder_compress_checked"] += 1
		} else {
			lenNC = len(body)
			ev["builder_nocompress_checked"] += 1
			if st != nil && st.Ptrs > 0 {
				viol("builder-nocompress:emits-pointers", "%d compression pointers although compression was never enabled (NewBuilder doc: compression disabled)", st.Ptrs)
			}
			if bytes.Equal(body, m.refEncode()) {
				ev["nocompress_bytes_equal_reference_encoding"] += 1
			} else {
				ev["nocompress_bytes_differ_from_reference_encoding"] += 1
			}
		}
	}
	if lenC >= 0 && lenNC >= 0 && lenC > lenNC {
		viol("compressed-longer-than-uncompressed", "Builder with compression produced %d bytes, without %d", lenC, lenNC)
	}

	// bookkeeping
	nontrivial := packStats != nil && packStats.Ptrs > 0
	var h uint64
	if packed != nil {
		f := fnv.New64a()
		f.Write(packed)
		h = f.Sum64()
	}
	r.EvalHash(nontrivial, h)
	ev["messages"] += 1
	ev[fmt.Sprintf("shape_%d", shape)] += 1
	if packStats != nil {
		ev["names_decoded_in_pack_output"] += int64(packStats.Names)
		ev["pointers_in_pack_output"] += int64(packStats.Ptrs)
		if packStats.Ptrs > 0 {
			ev["msgs_with_pointers"] += 1
		}
		beyond := 0
		for _, o := range packStats.NameOffs {
			if o > 0x3FFF {
				beyond++
			}
		}
		if beyond > 0 {
			ev["msgs_names_beyond_14bit_offset"] += 1
		}
		if lenNC > lenC && lenC >= 0 {
			ev["bytes_saved_by_compression"] += int64(lenNC-lenC)
		}
	}
	for s := range m.Sec {
		for i := range m.Sec[s] {
			if nm, ok := c36TypeNames[m.Sec[s][i].Type]; ok {
				ev["rr_"+nm] += 1
			} else {
				ev["rr_unknown"] += 1
			}
		}
	}
	ev["questions"] += int64(len(m.Q))
	ev["names_text_len_254"] += int64(g.maxNames)
	ev["labels_len_63"] += int64(g.label63)
	ev["labels_arbitrary_bytes"] += int64(g.rawLabels)
	ev["txt_strings_255"] += int64(g.txt255)
	ev["txt_strings_empty"] += int64(g.txtEmpty)
	ev["rdata_16k_to_65535"] += int64(g.bigRData)
	ev["fresh_name_aimed_at_offset_0x4000"] += int64(g.aimed)
	if k < 2 && c.Index == 0 && packed != nil {
		s := m.summary()
		s["pack_bytes"] = hexHead(packed)
		s["pointers"] = packStats != nil && packStats.Ptrs > 0
		r.Sample(s)
	}
}
