//go:build verif

package dnsmessage

import (
	"fmt"
	"testing"

	"golang.org/x/net/internal/verifrt"
)

// C38: EDNS(0) header fields encode and decode consistently.
//
// Reference (RFC 6891 section 6.1.2/6.1.3, written from the text): the OPT pseudo-RR has
// NAME = root (one zero byte), TYPE = 41, CLASS = requestor's UDP payload size, and the 32-bit
// TTL is  EXTENDED-RCODE(8) | VERSION(8) | DO(1) | Z(15); the 12-bit extended RCODE is
// EXTENDED-RCODE<<4 | header RCODE (low 4 bits live in the message header).

var c38BoundarySizes = []int{0, 1, 2, 255, 256, 511, 512, 513, 1231, 1232, 1233, 1500, 4095, 4096, 32767, 32768, 65535}

func c38Tuple(ext, size int, do bool) uint64 {
	h := uint64(ext)<<17 | uint64(size)<<1
	if do {
		h |= 1
	}
	return h
}

// c38Mem runs the in-memory oracle of the property statement for one tuple. It returns a
// non-empty key on failure (no allocation on the success path: this is the 2^29 loop body).
func c38Mem(h *ResourceHeader, ext, size int, do bool) (key string) {
	if err := h.SetEDNS0(size, RCode(ext), do); err != nil {
		return "setedns0-error"
	}
	if got := h.ExtendedRCode(RCode(ext & 0xF)); got != RCode(ext) {
		return "extended-rcode-mismatch"
	}
	if h.DNSSECAllowed() != do {
		return "dnssec-ok-mismatch"
	}
	if h.Class != Class(size) {
		return "payload-size-mismatch"
	}
	if h.Type != TypeOPT {
		return "type-not-opt"
	}
	if h.Name.Length != 1 || h.Name.Data[0] != '.' {
		return "name-not-root"
	}
	return ""
}

func c38Detail(h *ResourceHeader, ext, size int, do bool) string {
	return fmt.Sprintf("SetEDNS0(size=%d, extRCode=%d (0x%03x), do=%v): TTL=0x%08x Class=%d Type=%d Name=%q; ExtendedRCode(%d)=%d want %d; DNSSECAllowed()=%v want %v",
		size, ext, ext, do, h.TTL, h.Class, h.Type, h.Name.String(), ext&0xF, h.ExtendedRCode(RCode(ext&0xF)), ext, h.DNSSECAllowed(), do)
}

// c38Wire sends the header through Builder.OPTResource and Parser and checks (a) the bytes
// against the RFC 6891 layout, decoded by hand, (b) that the parsed header still reports the
// same values.
func c38Wire(c *verifrt.Case, ext, size int, do bool, id uint16) {
	var h ResourceHeader
	if err := h.SetEDNS0(size, RCode(ext), do); err != nil {
		c.Violation("setedns0-error", "SetEDNS0(%d,%d,%v): %v", size, ext, do, err)
		return
	}
	b := NewBuilder(nil, Header{ID: id, Response: true, RCode: RCode(ext & 0xF)})
	if c.Rng.IntN(2) == 0 {
		b.EnableCompression()
	}
	if err := b.StartAdditionals(); err != nil {
		c.Violation("builder-error", "StartAdditionals: %v", err)
		return
	}
	if err := b.OPTResource(h, OPTResource{}); err != nil {
		c.Violation("builder-error", "OPTResource: %v", err)
		return
	}
	msg, err := b.Finish()
	if err != nil {
		c.Violation("builder-error", "Finish: %v", err)
		return
	}
	// (a) independent look at the bytes: 12-byte header, then the OPT RR.
	doByte := byte(0)
	if do {
		doByte = 0x80
	}
	want := []byte{
		byte(id >> 8), byte(id), 0x80, byte(ext & 0xF), 0, 0, 0, 0, 0, 0, 0, 1,
		0x00,     // root name
		0x00, 41, // TYPE OPT
		byte(size >> 8), byte(size), // CLASS = UDP payload size
		byte(ext >> 4), 0x00, doByte, 0x00, // TTL = ext-rcode | version 0 | DO Z
		0x00, 0x00, // RDLEN
	}
	if string(msg) != string(want) {
		c.Violation("wire-layout", "SetEDNS0(size=%d, ext=%d, do=%v) through Builder: bytes %x, RFC 6891 layout %x", size, ext, do, msg, want)
	}
	// (b) parse back
	var p Parser
	mh, err := p.Start(msg)
	if err != nil {
		c.Violation("parse-error", "Start: %v", err)
		return
	}
	if err := p.SkipAllQuestions(); err != nil {
		c.Violation("parse-error", "SkipAllQuestions: %v", err)
		return
	}
	if err := p.SkipAllAnswers(); err != nil {
		c.Violation("parse-error", "SkipAllAnswers: %v", err)
		return
	}
	if err := p.SkipAllAuthorities(); err != nil {
		c.Violation("parse-error", "SkipAllAuthorities: %v", err)
		return
	}
	ph, err := p.AdditionalHeader()
	if err != nil {
		c.Violation("parse-error", "AdditionalHeader: %v", err)
		return
	}
	if got := ph.ExtendedRCode(mh.RCode); got != RCode(ext) {
		c.Violation("wire-extended-rcode-mismatch", "after Builder->Parser: ExtendedRCode(%d)=%d want %d (TTL=0x%08x, size=%d do=%v)", mh.RCode, got, ext, ph.TTL, size, do)
	}
	if ph.DNSSECAllowed() != do {
		c.Violation("wire-dnssec-ok-mismatch", "after Builder->Parser: DNSSECAllowed()=%v want %v (TTL=0x%08x ext=%d size=%d)", ph.DNSSECAllowed(), do, ph.TTL, ext, size)
	}
	if ph.Class != Class(size) || ph.Type != TypeOPT || ph.Name.String() != "." || ph.Length != 0 {
		c.Violation("wire-header-changed", "after Builder->Parser: %#v, want root/OPT/class %d/len 0", &ph, size)
	}
	if ph.TTL != h.TTL {
		c.Violation("wire-ttl-changed", "TTL 0x%08x became 0x%08x", h.TTL, ph.TTL)
	}
	if _, err := p.OPTResource(); err != nil {
		c.Violation("parse-error", "OPTResource: %v", err)
	}
	c.R.Event("wire_roundtrips", 1)
}

func TestVerif_C38(t *testing.T) {
	r := verifrt.Start(t, "C38")
	defer r.Finish()
	r.SetRule("case = tuple (extRCode 0..4095, UDP payload size 0..65535, DO). quick: every extRCode x DO x 17 boundary sizes + PRNG tuples; thorough: every one of the 2^29 tuples. non-trivial = TTL ends up non-zero (extRCode>=16 or DO set). distinct = distinct tuples; in the exhaustive loop only tuples with a boundary size are entered into the hash set (memory bound) and the exact numbers are in extra.exhaustive_*")
	r.Assume("reference = RFC 6891 section 6.1.3 TTL layout written in the harness; wire bytes compared with a hand-built expected message")

	// 1. every extended RCode x DO x boundary sizes: in-memory oracle + wire round trip.
	r.CasesParallel("boundary-grid", 4096, 0, func(c *verifrt.Case) {
		ext := c.Index
		c.Describe(map[string]any{"extRCode": ext, "sizes": c38BoundarySizes, "do": "both"})
		var h ResourceHeader
		hashes := make([]uint64, 0, 2*len(c38BoundarySizes))
		var n int64
		for _, size := range c38BoundarySizes {
			for _, do := range []bool{false, true} {
				if key := c38Mem(&h, ext, size, do); key != "" {
					c.Violation(key, "%s", c38Detail(&h, ext, size, do))
				}
				c38Wire(c, ext, size, do, uint16(c.Rng.Uint32()))
				n++
				if ext >= 16 || do {
					hashes = append(hashes, c38Tuple(ext, size, do))
				}
			}
		}
		r.AddEvals(n, hashes)
		r.Event("grid_tuples", n)
	})
	r.Sample(map[string]any{"extRCode": 0xABC, "size": 1232, "do": true, "TTL": func() string {
		var h ResourceHeader
		h.SetEDNS0(1232, 0xABC, true)
		return fmt.Sprintf("0x%08x", h.TTL)
	}()})

	// 2. PRNG tuples (all three coordinates free), in-memory + wire.
	nr := r.N(200000, 2000000)
	r.CasesParallel("random-tuples", 16, 0, func(c *verifrt.Case) {
		var h ResourceHeader
		hashes := make([]uint64, 0, nr/16)
		var n int64
		for i := 0; i < nr/16; i++ {
			ext := c.Rng.IntN(4096)
			size := c.Rng.IntN(65536)
			do := c.Rng.IntN(2) == 1
			c.Describe(map[string]any{"extRCode": ext, "size": size, "do": do})
			if key := c38Mem(&h, ext, size, do); key != "" {
				c.Violation(key, "%s", c38Detail(&h, ext, size, do))
			}
			c38Wire(c, ext, size, do, uint16(c.Rng.Uint32()))
			n++
			if ext >= 16 || do {
				hashes = append(hashes, c38Tuple(ext, size, do))
			}
			if i == 0 {
				r.Sample(map[string]any{"extRCode": ext, "size": size, "do": do, "TTL": fmt.Sprintf("0x%08x", h.TTL)})
			}
		}
		r.AddEvals(n, hashes)
		r.Event("random_tuples", n)
	})

	// 3. thorough: the whole space, one chunk per extended RCode (65536 sizes x 2).
	if r.Thorough() {
		isBoundary := map[int]bool{}
		for _, s := range c38BoundarySizes {
			isBoundary[s] = true
		}
		r.CasesParallel("exhaustive", 4096, 0, func(c *verifrt.Case) {
			ext := c.Index
			c.Describe(map[string]any{"extRCode": ext, "sizes": "0..65535", "do": "both"})
			var h ResourceHeader
			var n, nontrivial, bad int64
			hashes := make([]uint64, 0, 2*len(c38BoundarySizes))
			for size := 0; size < 65536; size++ {
				for d := 0; d < 2; d++ {
					do := d == 1
					if key := c38Mem(&h, ext, size, do); key != "" {
						if bad < 3 {
							c.Describe(map[string]any{"extRCode": ext, "size": size, "do": do})
							c.Violation(key, "%s", c38Detail(&h, ext, size, do))
						}
						bad++
					}
					n++
					if ext >= 16 || do {
						nontrivial++
						if isBoundary[size] {
							hashes = append(hashes, c38Tuple(ext, size, do))
						}
					}
				}
			}
			r.AddEvals(n, hashes)
			r.Event("exhaustive_tuples", n)
			r.Event("exhaustive_tuples_nontrivial", nontrivial)
			if bad > 0 {
				r.Event("exhaustive_tuples_failed", bad)
			}
		})
		// every payload size through the wire as well, for a PRNG extRCode per size and both DO
		r.CasesParallel("wire-all-sizes", 64, 0, func(c *verifrt.Case) {
			var n int64
			for size := c.Index * 1024; size < (c.Index+1)*1024; size++ {
				for d := 0; d < 2; d++ {
					for k := 0; k < 4; k++ {
						ext := c.Rng.IntN(4096)
						c.Describe(map[string]any{"extRCode": ext, "size": size, "do": d == 1})
						c38Wire(c, ext, size, d == 1, uint16(c.Rng.Uint32()))
						n++
					}
				}
			}
			r.AddEvals(n, nil)
			r.Event("wire_all_sizes_tuples", n)
		})
		if r.Replay == nil {
			total := r.EventCount("exhaustive_tuples")
			r.SetExtra("exhaustive", total == 1<<29)
			r.SetExtra("exhaustive_tuples", total)
			r.SetExtra("exhaustive_nontrivial_tuples", r.EventCount("exhaustive_tuples_nontrivial"))
			r.SetExtra("exhaustive_space", "4096 extended RCodes x 65536 payload sizes x 2 DO = 536870912")
			r.Require("exhaustive_tuples", 1<<29)
		}
	}
	r.Require("grid_tuples", int64(4096*2*len(c38BoundarySizes)))
	r.Require("wire_roundtrips", 100000)
}
