//go:build verif

package dnsmessage

import (
	"bytes"
	"errors"
	"fmt"
	"math/rand/v2"
	"runtime/debug"
	"strings"
	"syscall"
	"testing"
	"time"

	"golang.org/x/net/internal/verifrt"
)

// C37: parsing is safe and self-consistent on any input.
//
// For every input b the monitor
//  1. runs Message.Unpack(b);
//  2. walks b with a Parser through Question / <Section>Header + the typed XResource methods,
//     reading p.off (white box) before and after every record; every name the package
//     returned is re-decoded from the wire position by the harness decoder (RFC 1035 4.1.4,
//     lenient: any pointer target, loops detected): it must exist (no loop, no overrun, no
//     reserved label type, <= 255 octets), have no '.' inside a label, and spell the same
//     name; the parser must continue exactly after the name's in-place bytes;
//  3. requires Unpack and the walk to agree (accept/reject and content);
//  4. skips all records (SkipAll*) and walks again with a PRNG mix of parse / skip /
//     header-then-skip / header-then-parse per record: wherever both succeed the offsets
//     must be equal, and a record the parse methods accept must not be refused by Skip;
//  5. if Unpack accepted: Pack must succeed, the bytes must be a well-formed message for the
//     harness's strict decoder, and Unpack(Pack(m)) must equal m (ResourceHeader.Length is
//     documented as "set automatically during packing" and is not part of the comparison);
//  6. calls Parser methods in a PRNG (mostly illegal) order: nothing may panic.
// Non-termination is detected by CPU time burnt by a single call on a crafted input (the
// sequential "pointer-lab" stream runs first), never by wall-clock.

type c37ctx struct {
	c    *verifrt.Case
	r    *verifrt.R
	rng  *rand.Rand
	ev   map[string]int64
	b    []byte
	orig string // how the input was made
	sub  int
}

func (x *c37ctx) viol(key, f string, a ...any) {
	in := x.b
	d := map[string]any{"sub_index": x.sub, "origin": x.orig, "len": len(in)}
	if len(in) <= 1500 {
		d["input_hex"] = fmt.Sprintf("%x", in)
	} else {
		d["input_hex_head"] = fmt.Sprintf("%x", in[:600])
	}
	x.c.Describe(d)
	x.c.Violation(key, "input #%d (%s, %d bytes) %s: %s", x.sub, x.orig, len(in), hexHead(in), fmt.Sprintf(f, a...))
}

// safely runs f; a panic becomes a violation keyed by the panic message and the first
// golang.org/x/net frame that is not harness code.
func (x *c37ctx) safely(phase string, f func()) (ok bool) {
	defer func() {
		if e := recover(); e != nil {
			st := string(debug.Stack())
			fn := "?"
			for _, ln := range strings.Split(st, "\n") {
				if strings.HasPrefix(ln, "golang.org/x/net/dns/dnsmessage.") && !strings.Contains(ln, "c37") && !strings.Contains(ln, "Verif") && !strings.Contains(ln, "ref") {
					fn = strings.TrimPrefix(ln, "golang.org/x/net/dns/dnsmessage.")
					if j := strings.LastIndex(fn, "("); j > 0 {
						fn = fn[:j]
					}
					break
				}
			}
			msg := fmt.Sprint(e)
			if i := strings.IndexAny(msg, ":["); i > 0 {
				msg = msg[:i]
			}
			if len(msg) > 50 {
				msg = msg[:50]
			}
			lines := strings.Split(st, "\n")
			if len(lines) > 30 {
				lines = lines[:30]
			}
			x.viol("panic:"+strings.TrimSpace(msg)+"@"+fn, "panic during %s: %v\n%s", phase, e, strings.Join(lines, "\n"))
			ok = false
		}
	}()
	f()
	return true
}

func c37ErrKind(err error) string {
	switch {
	case errors.Is(err, errRefLoop):
		return "pointer-loop"
	case errors.Is(err, errRefTooLong):
		return "name-over-255"
	case errors.Is(err, errRefReserved):
		return "reserved-label-type"
	case errors.Is(err, errRefTrunc):
		return "name-past-end"
	}
	return "other"
}

// checkName: the package returned name impl for the name that starts at off.
func (x *c37ctx) checkName(off int, impl Name, where string) (next int) {
	n, err := refDecodeName(x.b, off, false)
	if err != nil {
		x.viol("accepted-bad-name:"+c37ErrKind(err), "%s name at offset %d was accepted as %q but the wire form is invalid: %v", where, off, impl.String(), err)
		return -1
	}
	if n.DotLabel {
		x.viol("accepted-dot-in-label", "%s name at offset %d accepted as %q: a label contains '.' (labels %q)", where, off, impl.String(), n.Labels)
	}
	if got := impl.String(); got != n.text() {
		x.viol("name-decoded-differently", "%s name at offset %d: package %q (Length %d), wire form spells %q (%d octets)", where, off, got, impl.Length, n.text(), n.WireLen)
	}
	x.ev["names_checked"]++
	x.ev["pointers_followed_in_accepted_names"] += int64(n.Ptrs)
	if n.Ptrs > 0 {
		x.ev["accepted_names_with_pointers"]++
	}
	if n.Ptrs >= 9 {
		x.ev["accepted_names_with_9_or_10_pointers"]++
	}
	if n.WireLen >= 254 {
		x.ev["accepted_names_254_255_octets"]++
	}
	return n.Next
}

// classify records why (according to the harness decoder) the name at off would be refused.
func (x *c37ctx) classify(off int) bool {
	n, err := refDecodeName(x.b, off, false)
	switch {
	case err != nil:
		x.ev["rejected:"+c37ErrKind(err)]++
	case n.DotLabel:
		x.ev["rejected:dot-in-label"]++
	case n.Ptrs > 10:
		x.ev["rejected:more-than-10-pointers"]++
	default:
		return false
	}
	return true
}

func c37BodyNameOffs(typ Type, bodyOff int) (first int, count int) {
	switch typ {
	case TypeNS, TypeCNAME, TypePTR:
		return bodyOff, 1
	case TypeMX, TypeSVCB, TypeHTTPS:
		return bodyOff + 2, 1
	case TypeSRV:
		return bodyOff + 6, 1
	case TypeSOA:
		return bodyOff, 2
	}
	return 0, 0
}

func c37Typed(p *Parser, typ Type) (ResourceBody, error) {
	switch typ {
	case TypeA:
		r, err := p.AResource()
		return &r, err
	case TypeAAAA:
		r, err := p.AAAAResource()
		return &r, err
	case TypeNS:
		r, err := p.NSResource()
		return &r, err
	case TypeCNAME:
		r, err := p.CNAMEResource()
		return &r, err
	case TypePTR:
		r, err := p.PTRResource()
		return &r, err
	case TypeMX:
		r, err := p.MXResource()
		return &r, err
	case TypeSOA:
		r, err := p.SOAResource()
		return &r, err
	case TypeTXT:
		r, err := p.TXTResource()
		return &r, err
	case TypeSRV:
		r, err := p.SRVResource()
		return &r, err
	case TypeSVCB:
		r, err := p.SVCBResource()
		return &r, err
	case TypeHTTPS:
		r, err := p.HTTPSResource()
		return &r, err
	case TypeOPT:
		r, err := p.OPTResource()
		return &r, err
	}
	r, err := p.UnknownResource()
	return &r, err
}

func c37Header(p *Parser, sec int) (ResourceHeader, error) {
	switch sec {
	case 0:
		return p.AnswerHeader()
	case 1:
		return p.AuthorityHeader()
	}
	return p.AdditionalHeader()
}

func c37Resource(p *Parser, sec int) (Resource, error) {
	switch sec {
	case 0:
		return p.Answer()
	case 1:
		return p.Authority()
	}
	return p.Additional()
}

func c37Skip(p *Parser, sec int) error {
	switch sec {
	case 0:
		return p.SkipAnswer()
	case 1:
		return p.SkipAuthority()
	}
	return p.SkipAdditional()
}

type c37Walk struct {
	started bool
	ok      bool
	err     error
	msg     *refMsg
	ends    []int // p.off after every record the walk parsed (questions, then RRs)
	pastEnd bool  // some accepted record ends beyond len(b)
}

// typedWalk: step 2 of the header comment.
func (x *c37ctx) typedWalk() (w c37Walk) {
	b := x.b
	var p Parser
	h, err := p.Start(b)
	if err != nil {
		w.err = err
		x.ev["rejected:header"]++
		return
	}
	w.started = true
	w.msg = &refMsg{H: refFromHeader(h)}
	for {
		off := p.off
		q, err := p.Question()
		if err == ErrSectionDone {
			break
		}
		if err != nil {
			w.err = err
			if !x.classify(off) {
				x.ev["rejected:other"]++
			}
			return
		}
		if next := x.checkName(off, q.Name, "question"); next >= 0 && p.off != next+4 {
			x.viol("position-after-question", "question at %d: name ends at %d so the question ends at %d, parser is at %d", off, next, next+4, p.off)
		}
		w.msg.Q = append(w.msg.Q, refQ{q.Name.String(), uint16(q.Type), uint16(q.Class)})
		w.ends = append(w.ends, p.off)
	}
	for s := 0; s < 3; s++ {
		for {
			off := p.off
			h, err := c37Header(&p, s)
			if err == ErrSectionDone {
				break
			}
			if err != nil {
				w.err = err
				if !x.classify(off) {
					x.ev["rejected:other"]++
				}
				return
			}
			bodyOff := p.off
			if next := x.checkName(off, h.Name, "owner"); next >= 0 && bodyOff != next+10 {
				x.viol("position-after-header", "RR at %d: owner name ends at %d so RDATA starts at %d, parser is at %d", off, next, next+10, bodyOff)
			}
			body, err := c37Typed(&p, h.Type)
			if err != nil {
				w.err = err
				classified := false
				if first, cnt := c37BodyNameOffs(h.Type, bodyOff); cnt > 0 {
					classified = x.classify(first)
					if !classified && cnt == 2 {
						if n, e := refDecodeName(b, first, false); e == nil {
							classified = x.classify(n.Next)
						}
					}
				}
				if !classified {
					x.ev["rejected:other"]++
				}
				return
			}
			rr := refRR{Name: h.Name.String(), Type: uint16(h.Type), Class: uint16(h.Class), TTL: h.TTL, RDLen: int(h.Length)}
			if err := refFromBody(body, &rr); err != nil {
				x.viol("typed-body", "%v", err)
			}
			if bt, _ := refBodyType(body); bt != uint16(h.Type) {
				x.viol("typed-body-type", "header type %d, typed method returned %T", h.Type, body)
			}
			if first, cnt := c37BodyNameOffs(h.Type, bodyOff); cnt > 0 {
				names := []Name{}
				switch bd := body.(type) {
				case *NSResource:
					names = append(names, bd.NS)
				case *CNAMEResource:
					names = append(names, bd.CNAME)
				case *PTRResource:
					names = append(names, bd.PTR)
				case *MXResource:
					names = append(names, bd.MX)
				case *SRVResource:
					names = append(names, bd.Target)
				case *SVCBResource:
					names = append(names, bd.Target)
				case *HTTPSResource:
					names = append(names, bd.Target)
				case *SOAResource:
					names = append(names, bd.NS, bd.MBox)
				}
				at := first
				for i := 0; i < len(names) && at >= 0; i++ {
					at = x.checkName(at, names[i], fmt.Sprintf("type %d RDATA", h.Type))
				}
			}
			if p.off != bodyOff+int(h.Length) {
				x.viol("position-after-rdata", "RR at %d: RDATA at %d + RDLENGTH %d = %d, parser is at %d", off, bodyOff, h.Length, bodyOff+int(h.Length), p.off)
			}
			if p.off > len(b) {
				w.pastEnd = true
			}
			w.msg.Sec[s] = append(w.msg.Sec[s], rr)
			w.ends = append(w.ends, p.off)
		}
	}
	w.ok = true
	return
}

func refRREqual(a, b *refRR) bool {
	ma := refMsg{Sec: [3][]refRR{{*a}}}
	mb := refMsg{Sec: [3][]refRR{{*b}}}
	return refEqual(&ma, &mb)
}

const (
	keyPastEnd = "skip-rejects-rdlength-past-end-parse-accepts"
	keySkipRej = "skip-rejects-record-parse-accepts"
)

// skipAllWalk: SkipAll* over the whole message.
func (x *c37ctx) skipAllWalk(w *c37Walk) {
	var p Parser
	if _, err := p.Start(x.b); err != nil {
		return
	}
	var err error
	for i, f := range []func() error{p.SkipAllQuestions, p.SkipAllAnswers, p.SkipAllAuthorities, p.SkipAllAdditionals} {
		if err = f(); err != nil {
			err = fmt.Errorf("SkipAll #%d: %w", i, err)
			break
		}
	}
	switch {
	case err != nil && w.ok && w.pastEnd:
		x.viol(keyPastEnd, "the parse methods accept every record (one of them with RDATA ending beyond the %d-byte message), SkipAll* refuses: %v", len(x.b), err)
	case err != nil && w.ok:
		x.viol(keySkipRej, "the parse methods accept every record, SkipAll* refuses: %v", err)
	case err == nil && w.ok:
		end := 12
		if len(w.ends) > 0 {
			end = w.ends[len(w.ends)-1]
		}
		if p.off != end {
			x.viol("skipall-position-mismatch", "after SkipAll* the parser is at %d, after parsing everything at %d", p.off, end)
		}
		x.ev["skipall_agrees_with_parse"]++
	case err == nil && !w.ok && w.started:
		x.ev["skip_ok_where_parse_fails(documented)"]++
	}
}

// mixedWalk: per record a PRNG choice of how to get past it.
func (x *c37ctx) mixedWalk(w *c37Walk) {
	b := x.b
	var p Parser
	if _, err := p.Start(b); err != nil {
		return
	}
	idx := 0
	// compare the position after record idx; returns false when walking on is pointless
	after := func(op string, isSkip bool, err error) bool {
		has := idx < len(w.ends)
		raw := op == "Header+wrong-typed+Unknown" // UnknownResource returns the RDATA bytes of any record
		if err != nil {
			if has && raw {
				if w.ends[idx] > len(b) {
					x.ev["unknown_resource_refuses_rdata_past_end"]++ // the bytes are not there
				} else {
					x.viol("unknown-resource-rejects-record", "record #%d: typed parse accepts it (ends at %d), UnknownResource refuses: %v", idx, w.ends[idx], err)
				}
			} else if has && isSkip {
				if w.ends[idx] > len(b) {
					x.viol(keyPastEnd, "record #%d: parse methods accept it (RDATA ends at %d, message has %d bytes), %s refuses: %v", idx, w.ends[idx], len(b), op, err)
				} else {
					x.viol(keySkipRej, "record #%d: parse methods accept it (ends at %d), %s refuses: %v", idx, w.ends[idx], op, err)
				}
			} else if has {
				x.viol("parse-paths-disagree", "record #%d: header+typed method accept it, %s refuses: %v", idx, op, err)
			}
			return false
		}
		if has {
			if p.off != w.ends[idx] {
				key := "parse-position-mismatch"
				if isSkip {
					key = "skip-position-mismatch"
				}
				x.viol(key, "record #%d: after %s the parser is at %d, after header+typed parse at %d", idx, op, p.off, w.ends[idx])
				return false
			}
			if isSkip {
				x.ev["skips_compared_with_parse"]++
			}
			return true
		}
		// the typed walk failed on this record
		if isSkip {
			x.ev["skip_ok_where_parse_fails(documented)"]++
		} else if raw {
			x.ev["unknown_resource_ok_where_typed_parse_fails"]++
		} else {
			x.viol("parse-paths-disagree", "record #%d: header+typed method refuse it (%v), %s accepts", idx, w.err, op)
		}
		return false
	}
	qi := 0
	for {
		var err error
		var q Question
		skip := x.rng.IntN(2) == 0
		if skip {
			err = p.SkipQuestion()
		} else {
			q, err = p.Question()
		}
		if err == ErrSectionDone {
			break
		}
		if !after(map[bool]string{true: "SkipQuestion", false: "Question"}[skip], skip, err) {
			return
		}
		if !skip && w.msg != nil && qi < len(w.msg.Q) && (refQ{q.Name.String(), uint16(q.Type), uint16(q.Class)}) != w.msg.Q[qi] {
			x.viol("mixed-walk-content", "question #%d differs between two parses", qi)
		}
		qi++
		idx++
	}
	for s := 0; s < 3; s++ {
		ri := 0
		for {
			var err error
			var res Resource
			parsed := false
			op := ""
			isSkip := false
			switch x.rng.IntN(6) {
			case 0:
				op, isSkip = "Skip", true
				err = c37Skip(&p, s)
			case 1:
				op, isSkip = "Header+Skip", true
				if _, err = c37Header(&p, s); err == nil {
					err = c37Skip(&p, s)
				} else {
					isSkip = false
					op = "Header"
				}
			case 2:
				op = "Resource"
				res, err = c37Resource(&p, s)
				parsed = err == nil
			case 3:
				op = "Header+Resource"
				if _, err = c37Header(&p, s); err == nil {
					res, err = c37Resource(&p, s)
					parsed = err == nil
				}
			case 4:
				op = "Header+Header+typed"
				var h ResourceHeader
				if _, err = c37Header(&p, s); err == nil {
					if h, err = c37Header(&p, s); err == nil {
						res.Header = h
						res.Body, err = c37Typed(&p, h.Type)
						parsed = err == nil
					}
				}
			default:
				op = "Header+wrong-typed+Unknown"
				var h ResourceHeader
				if h, err = c37Header(&p, s); err == nil {
					// a typed method of the wrong type must refuse and leave the state alone
					wrong := TypeA
					if h.Type == TypeA {
						wrong = TypeTXT
					}
					if _, e := c37Typed(&p, wrong); e != ErrNotStarted {
						x.viol("wrong-typed-method-accepted", "record of type %d: the method for type %d returned %v, want ErrNotStarted", h.Type, wrong, e)
					}
					var u UnknownResource
					u, err = p.UnknownResource()
					if err == nil {
						if int(h.Length) != len(u.Data) {
							x.viol("unknown-resource-length", "UnknownResource returned %d bytes for RDLENGTH %d", len(u.Data), h.Length)
						} else if at := p.off - int(h.Length); at >= 0 && p.off <= len(b) && !bytes.Equal(u.Data, b[at:p.off]) {
							x.viol("unknown-resource-data", "UnknownResource data differs from the RDATA bytes")
						}
					}
				}
			}
			if err == ErrSectionDone {
				break
			}
			if !after(op, isSkip, err) {
				return
			}
			if parsed && w.msg != nil && ri < len(w.msg.Sec[s]) {
				rr := refRR{Name: res.Header.Name.String(), Type: uint16(res.Header.Type), Class: uint16(res.Header.Class), TTL: res.Header.TTL}
				if e := refFromBody(res.Body, &rr); e != nil || !refRREqual(&rr, &w.msg.Sec[s][ri]) {
					x.viol("mixed-walk-content", "section %d record #%d differs between %s and header+typed parse: %s | %s", s, ri, op, rr.canon(s), w.msg.Sec[s][ri].canon(s))
				}
			}
			ri++
			idx++
		}
	}
	x.ev["mixed_walks_completed"]++
}

func c37InnerErr(err error) string {
	s := err.Error()
	if i := strings.LastIndex(s, ": "); i >= 0 {
		s = s[i+2:]
	}
	return strings.ReplaceAll(s, " ", "_")
}

// repack: step 5.
func (x *c37ctx) repack(m *Message) {
	snap, err := refFromMessage(m)
	if err != nil {
		x.viol("unpack-inconsistent", "Unpack result: %v", err)
		return
	}
	packed, err := m.Pack()
	if err != nil {
		typ := "?"
		es := err.Error()
		// which record type: find the first RR whose own packing fails
		for _, sec := range [][]Resource{m.Answers, m.Authorities, m.Additionals} {
			for i := range sec {
				one := Message{Answers: []Resource{sec[i]}}
				if _, e := one.Pack(); e != nil && typ == "?" {
					switch sec[i].Header.Type {
					case TypeOPT:
						typ = "OPT"
					case TypeSVCB, TypeHTTPS:
						typ = "SVCB-HTTPS"
					default:
						typ = fmt.Sprintf("type%d", sec[i].Header.Type)
					}
				}
			}
		}
		x.viol("repack-error:"+typ+":"+c37InnerErr(err), "Unpack accepted the input but Pack of the result fails: %s", es)
		return
	}
	var m2 Message
	if err := m2.Unpack(packed); err != nil {
		x.viol("reunpack-error:"+c37InnerErr(err), "Unpack(Pack(Unpack(input))) fails: %v; packed %s", err, hexHead(packed))
		return
	}
	got, err := refFromMessage(&m2)
	if err != nil {
		x.viol("unpack-inconsistent", "second Unpack result: %v", err)
		return
	}
	if !refEqual(snap, got) {
		x.viol("repack-roundtrip-mismatch", "Unpack(Pack(m)) != m: %s", firstDiff(got.canon(), snap.canon()))
		return
	}
	for s := range snap.Sec {
		for i := range snap.Sec[s] {
			if snap.Sec[s][i].RDLen != got.Sec[s][i].RDLen {
				x.ev["repack_changed_rdlength(input_rdlength_not_minimal)"]++
			}
		}
	}
	// the re-packed bytes must be a well-formed message with the same content
	rm, _, err := refDecodeMsg(packed)
	if err != nil {
		x.viol("repack-bytes-malformed", "harness decoder rejects Pack(Unpack(input)): %v; packed %s", err, hexHead(packed))
	} else if !refEqual(rm, snap) {
		x.viol("repack-bytes-wrong-content", "harness decoder reads Pack(Unpack(input)) differently: %s", firstDiff(rm.canon(), snap.canon()))
	}
	x.ev["repack_roundtrips"]++
}

// fuzzParser: step 6.
func (x *c37ctx) fuzzParser() {
	var p Parser
	n := 6 + x.rng.IntN(30)
	trace := make([]byte, 0, n)
	x.safely("parser method fuzz", func() {
		if x.rng.IntN(8) != 0 {
			p.Start(x.b)
		}
		for i := 0; i < n; i++ {
			op := x.rng.IntN(34)
			trace = append(trace, byte(op))
			switch op {
			case 0:
				p.Question()
			case 1:
				p.SkipQuestion()
			case 2:
				p.AllQuestions()
			case 3:
				p.SkipAllQuestions()
			case 4, 5, 6:
				c37Header(&p, op-4)
			case 7, 8, 9:
				c37Resource(&p, op-7)
			case 10, 11, 12:
				c37Skip(&p, op-10)
			case 13:
				p.AllAnswers()
			case 14:
				p.AllAuthorities()
			case 15:
				p.AllAdditionals()
			case 16:
				p.SkipAllAnswers()
			case 17:
				p.SkipAllAuthorities()
			case 18:
				p.SkipAllAdditionals()
			case 19:
				q := p // Parser is documented as safe to copy
				c37Header(&q, x.rng.IntN(3))
				c37Skip(&q, x.rng.IntN(3))
			case 20:
				if x.rng.IntN(6) == 0 {
					p.Start(x.b)
				}
			default:
				c37Typed(&p, []Type{TypeA, TypeAAAA, TypeNS, TypeCNAME, TypePTR, TypeMX, TypeSOA, TypeTXT, TypeSRV, TypeSVCB, TypeHTTPS, TypeOPT, 0}[op-21])
			}
			if p.off < 0 {
				x.viol("parser-negative-offset", "after ops %v the parser offset is %d", trace, p.off)
				return
			}
		}
	})
	x.ev["parser_fuzz_calls"] += int64(len(trace))
}

// check runs all steps on one input.
func (x *c37ctx) check(b []byte, origin string) {
	x.b, x.orig = b, origin
	var m Message
	var uerr error
	if !x.safely("Message.Unpack", func() { uerr = m.Unpack(b) }) {
		return
	}
	var w c37Walk
	if !x.safely("Parser walk", func() { w = x.typedWalk() }) {
		return
	}
	if (uerr == nil) != w.ok {
		x.viol("unpack-vs-parser-accept", "Message.Unpack: %v; Parser walk (Header + typed methods): ok=%v err=%v", uerr, w.ok, w.err)
	} else if uerr == nil {
		um, err := refFromMessage(&m)
		if err != nil {
			x.viol("unpack-inconsistent", "%v", err)
		} else if !refEqual(um, w.msg) {
			x.viol("unpack-vs-parser-content", "Message.Unpack and the Parser walk decode different messages: %s", firstDiff(um.canon(), w.msg.canon()))
		}
	}
	x.safely("SkipAll walk", func() { x.skipAllWalk(&w) })
	x.safely("mixed walk", func() { x.mixedWalk(&w) })
	if uerr == nil {
		x.ev["accepted"]++
		if w.pastEnd {
			x.ev["accepted_with_rdata_past_end"]++
		}
		x.safely("repack", func() { x.repack(&m) })
	} else {
		x.ev["rejected"]++
	}
	x.fuzzParser()
	total := 0
	if len(b) >= 12 {
		total = int(b[4])<<8 | int(b[5]) | int(b[6])<<8 | int(b[7]) | int(b[8])<<8 | int(b[9]) | int(b[10])<<8 | int(b[11])
	}
	x.ev["inputs"]++
	x.ev["records_parsed"] += int64(len(w.ends))
	x.r.EvalBytes(total > 0 && len(b) > 12, b)
	x.sub++
}

// ---------------------------------------------------------------------------------------
// input generators

func c37Put16(b []byte, off int, v int) {
	if off >= 0 && off+1 < len(b) {
		b[off], b[off+1] = byte(v>>8), byte(v)
	}
}

// pick returns a PRNG element o of s with o+2 <= limit (offsets recorded on the original
// message may lie beyond a message that an earlier mutation shortened).
func pickIn(rng *rand.Rand, s []int, limit int) (int, bool) {
	if len(s) == 0 {
		return 0, false
	}
	o := s[rng.IntN(len(s))]
	return o, o >= 0 && o+2 <= limit
}

// c37Base: a small well-formed message as bytes + the map of interesting offsets.
func c37Base(rng *rand.Rand) ([]byte, *refStats) {
	m, _, _ := genMsgSized(rng, true)
	var b []byte
	if rng.IntN(10) < 7 {
		msg := m.message(nil)
		if out, err := msg.Pack(); err == nil {
			b = out
		}
	}
	if b == nil {
		b = m.refEncode()
	}
	_, st, err := refDecodeMsg(b)
	if err != nil {
		st = &refStats{}
	}
	return b, st
}

var c37KnownTypes = []int{tA, tNS, tCNAME, tSOA, tPTR, tMX, tTXT, tAAAA, tSRV, tOPT, tSVCB, tHTTPS, 99}

// c37Mutate applies one targeted mutation; it returns its name.
func c37Mutate(rng *rand.Rand, b []byte, st *refStats) ([]byte, string) {
	switch rng.IntN(12) {
	case 0:
		if o, ok := pickIn(rng, st.CountOffs, len(b)); ok {
			old := int(b[o])<<8 | int(b[o+1])
			c37Put16(b, o, []int{0, old + 1, old - 1, old + 2, 255, 65535, rng.IntN(65536)}[rng.IntN(7)]&0xffff)
			return b, "count"
		}
	case 1:
		if o, ok := pickIn(rng, st.RDLenOffs, len(b)); ok {
			old := int(b[o])<<8 | int(b[o+1])
			c37Put16(b, o, []int{0, old + 1, old - 1, old + 1 + rng.IntN(40), old - 1 - rng.IntN(8), 65535, rng.IntN(300), len(b) - o - 2, len(b) - o - 1}[rng.IntN(9)]&0xffff)
			return b, "rdlength"
		}
	case 2:
		if o, ok := pickIn(rng, st.LabelOffs, len(b)); ok {
			old := int(b[o])
			b[o] = byte([]int{old + 1, old - 1, 63, 0, 0x40 | old, 0x80 | old, 0xC0 | old, old + rng.IntN(64), 64}[rng.IntN(9)])
			return b, "label-length"
		}
	case 3: // rewrite an existing pointer
		if o, ok := pickIn(rng, st.PtrOffs, len(b)); ok {
			var t int
			switch rng.IntN(7) {
			case 0:
				t = o // points at itself
			case 1:
				t = o + 2 + rng.IntN(len(b)-o) // forward (len(b)-o >= 2)
			case 2:
				if rd, ok := pickIn(rng, st.RDataOffs, len(b)); ok {
					t = rd + rng.IntN(4)
				}
			case 3:
				if o2, ok := pickIn(rng, st.PtrOffs, len(b)); ok { // mutual loop
					t = o2
					c37Put16(b, o2, 0xC000|o)
				}
			case 4:
				t = len(b) - 1 + rng.IntN(3)
			case 5:
				if no, ok := pickIn(rng, st.NameOffs, len(b)); ok {
					t = no
				}
			default:
				t = rng.IntN(len(b) + 1)
			}
			c37Put16(b, o, 0xC000|(t&0x3FFF))
			return b, "pointer-target"
		}
	case 4: // turn a label start into a pointer
		if o, ok := pickIn(rng, st.LabelOffs, len(b)); ok {
			t := o
			switch rng.IntN(4) {
			case 0:
				if no, ok := pickIn(rng, st.NameOffs, len(b)); ok {
					t = no
				}
			case 1:
				t = 12
			case 2:
				t = rng.IntN(len(b))
			}
			c37Put16(b, o, 0xC000|(t&0x3FFF))
			return b, "label-to-pointer"
		}
	case 5:
		if o, ok := pickIn(rng, st.LabelOffs, len(b)); ok && int(b[o]) > 0 && int(b[o]) < 64 && o+int(b[o]) < len(b) {
			b[o+1+rng.IntN(int(b[o]))] = '.'
			return b, "dot-in-label"
		}
	case 6:
		if len(b) > 0 {
			return b[:rng.IntN(len(b))], "truncate"
		}
	case 7:
		n := 1 + rng.IntN(20)
		for i := 0; i < n; i++ {
			b = append(b, byte(rng.Uint32()))
		}
		return b, "append-junk"
	case 8:
		if i, ok := pickIn(rng, st.RDLenOffs, len(b)); ok && i >= 8 {
			c37Put16(b, i-8, c37KnownTypes[rng.IntN(len(c37KnownTypes))])
			return b, "rr-type"
		}
	case 9: // SVCB-ish: scramble bytes inside an RDATA
		if rd, ok := pickIn(rng, st.RDataOffs, len(b)); ok {
			n := 1 + rng.IntN(3)
			for i := 0; i < n; i++ {
				b[rd+rng.IntN(len(b)-rd)] = byte(rng.Uint32())
			}
			return b, "rdata-bytes"
		}
	case 10: // chop the tail of the last record but keep RDLENGTH (RDATA runs past the end)
		if len(b) > 13 {
			return b[:len(b)-1-rng.IntN(min(6, len(b)-12))], "chop-tail"
		}
	}
	if len(b) > 0 {
		n := 1 + rng.IntN(3)
		for i := 0; i < n; i++ {
			b[rng.IntN(len(b))] = byte(rng.Uint32())
		}
	}
	return b, "flip"
}

func c37RandomBytes(rng *rand.Rand) []byte {
	n := rng.IntN(90)
	if rng.IntN(6) == 0 {
		n = rng.IntN(13)
	}
	b := make([]byte, n)
	for i := range b {
		switch rng.IntN(6) {
		case 0:
			b[i] = 0
		case 1:
			b[i] = 0xC0
		case 2:
			b[i] = byte(rng.IntN(16))
		default:
			b[i] = byte(rng.Uint32())
		}
	}
	if n >= 12 && rng.IntN(4) != 0 { // plausible counts
		for i := 4; i < 12; i += 2 {
			b[i], b[i+1] = 0, byte(rng.IntN(3))
		}
	}
	return b
}

// c37NameLab builds a message around one crafted name: segments of labels chained by
// compression pointers (forward, into the trailing bytes of the message), optionally closed
// into a loop, with a chosen total length. carrier selects where the name sits.
func c37NameLab(rng *rand.Rand) ([]byte, string) {
	nseg := 1 + rng.IntN(14) // nseg-1 pointers are followed before the end / the loop
	loop := rng.IntN(3) == 0
	total := 0 // octets of labels over all segments
	switch rng.IntN(4) {
	case 0:
		total = 240 + rng.IntN(25) // around the 255 limit
	case 1:
		total = rng.IntN(40)
	default:
		total = rng.IntN(255)
	}
	// split total into per-segment label runs
	segLabels := make([][]byte, nseg)
	rest := total
	for i := 0; i < nseg && rest > 1; i++ {
		n := rest
		if i < nseg-1 {
			n = rng.IntN(rest + 1)
		}
		var seg []byte
		for n > 1 {
			l := 1 + rng.IntN(min(63, n-1))
			seg = append(seg, byte(l))
			for j := 0; j < l; j++ {
				seg = append(seg, byte('a'+rng.IntN(26)))
			}
			n -= l + 1
			rest -= l + 1
		}
		segLabels[i] = seg
	}
	carrier := rng.IntN(9)
	hdr := []byte{0x12, 0x34, 0x81, 0x80, 0, 0, 0, 0, 0, 0, 0, 0}
	var msg []byte
	var nameAt int // where segment 0 starts
	var patchRDLen = -1
	var rdStart int
	tail := func(t uint16) []byte { return []byte{byte(t >> 8), byte(t), 0, 1, 0, 0, 0, 60} } // type, class IN, TTL
	switch carrier {
	case 0: // question name
		hdr[5] = 1
		msg = append(msg, hdr...)
		nameAt = len(msg)
	case 1: // owner name of an A record
		hdr[7] = 1
		msg = append(msg, hdr...)
		nameAt = len(msg)
	default: // RDATA name of NS CNAME PTR MX SOA(mname) SRV SVCB
		typ := []uint16{tNS, tCNAME, tPTR, tMX, tSOA, tSRV, tSVCB}[carrier-2]
		hdr[7+2*rng.IntN(3)] = 1
		msg = append(msg, hdr...)
		msg = append(msg, 0) // root owner
		msg = append(msg, tail(typ)...)
		patchRDLen = len(msg)
		msg = append(msg, 0, 0)
		rdStart = len(msg)
		switch typ {
		case tMX, tSVCB:
			msg = append(msg, 0, 10)
		case tSRV:
			msg = append(msg, 0, 1, 0, 2, 0, 3)
		}
		nameAt = len(msg)
	}
	// segment 0 in place, terminated by a pointer placeholder or a zero
	segPtrAt := make([]int, nseg) // offset of the terminator of each segment
	segAt := make([]int, nseg)
	segAt[0] = nameAt
	msg = append(msg, segLabels[0]...)
	segPtrAt[0] = len(msg)
	if nseg > 1 || loop {
		msg = append(msg, 0xC0, 0)
	} else {
		msg = append(msg, 0)
	}
	// rest of the carrier
	switch carrier {
	case 0:
		msg = append(msg, 0, 1, 0, 1)
	case 1:
		msg = append(msg, tail(tA)...)
		msg = append(msg, 0, 4, 192, 0, 2, 1)
	default:
		switch []uint16{tNS, tCNAME, tPTR, tMX, tSOA, tSRV, tSVCB}[carrier-2] {
		case tSOA:
			msg = append(msg, 0) // rname = root
			msg = append(msg, make([]byte, 20)...)
		}
		c37Put16(msg, patchRDLen, len(msg)-rdStart)
	}
	// remaining segments live after the counted records
	for i := 1; i < nseg; i++ {
		for j := rng.IntN(3); j > 0; j-- {
			msg = append(msg, byte(rng.Uint32()))
		}
		segAt[i] = len(msg)
		msg = append(msg, segLabels[i]...)
		segPtrAt[i] = len(msg)
		if i < nseg-1 || loop {
			msg = append(msg, 0xC0, 0)
		} else {
			msg = append(msg, 0)
		}
	}
	for i := 0; i < nseg-1; i++ {
		c37Put16(msg, segPtrAt[i], 0xC000|segAt[i+1])
	}
	if loop {
		back := rng.IntN(nseg)
		target := segAt[back]
		if rng.IntN(3) == 0 {
			target = segPtrAt[nseg-1] // a pointer to itself
		}
		c37Put16(msg, segPtrAt[nseg-1], 0xC000|target)
	}
	return msg, fmt.Sprintf("name-lab carrier=%d segments=%d label-octets=%d loop=%v", carrier, nseg, total, loop)
}

// crafted regression inputs for discrepancies the design review predicted.
func c37Crafted() (out []struct {
	name string
	b    []byte
}) {
	add := func(name string, b []byte) {
		out = append(out, struct {
			name string
			b    []byte
		}{name, b})
	}
	hdr := func(an, ar int) []byte { return []byte{0, 1, 0x80, 0, 0, 0, 0, byte(an), 0, 0, 0, byte(ar)} }
	// A record, RDLENGTH one more than the 4 bytes that are there
	add("A-rdlength-5-with-4-bytes", append(hdr(1, 0), 0, 0, 1, 0, 1, 0, 0, 0, 60, 0, 5, 192, 0, 2, 1))
	// A record that ends exactly at the end of the message
	add("A-exact", append(hdr(1, 0), 0, 0, 1, 0, 1, 0, 0, 0, 60, 0, 4, 192, 0, 2, 1))
	// OPT whose RDLENGTH is 1 but whose single option claims 65535 bytes, all present
	opt := append(hdr(0, 1), 0, 0, 41, 16, 0, 0, 0, 0, 0, 0, 1, 0, 10, 0xff, 0xff)
	opt = append(opt, make([]byte, 65535)...)
	add("OPT-rdlength-1-option-65535", opt)
	// OPT whose option runs 3 bytes past RDLENGTH
	add("OPT-option-past-rdlength", append(hdr(0, 1), 0, 0, 41, 16, 0, 0, 0, 0, 0, 0, 5, 0, 10, 0, 4, 1, 2, 3, 4))
	// SVCB with a compressed target and 65535 bytes of RDATA: the target expands when re-packed.
	// The pointed-at name (3 labels of 63 octets) sits inside the parameter value.
	// (added after seeded change C37l: the pointed-at name is also the root and a one-octet label, alone and after a
	// literal label, because a length comparison in place of the label walk tells those apart from longer suffixes)
	for _, suffix := range []string{"xxx63", "root", "one-octet"} {
		for _, lit := range []int{0, 1, 5} {
			sv := append(hdr(1, 0), 0, 0, 64, 0, 1, 0, 0, 0, 60, 0xff, 0xff)
			rd := len(sv)
			tlen := 2
			if lit > 0 {
				tlen += 1 + lit
			}
			vlen := 65535 - 2 - tlen - 4
			nameAt := rd + 2 + tlen + 4 + 100
			sv = append(sv, 0, 1) // priority
			if lit > 0 {
				sv = append(sv, byte(lit))
				sv = append(sv, bytes.Repeat([]byte{'t'}, lit)...)
			}
			sv = append(sv, 0xC0|byte(nameAt>>8), byte(nameAt)) // pointer to nameAt
			sv = append(sv, 0, 7, byte(vlen>>8), byte(vlen))    // key 7, value length
			sv = append(sv, make([]byte, vlen)...)
			at := nameAt
			switch suffix {
			case "xxx63":
				for i := 0; i < 3; i++ {
					sv[at] = 63
					copy(sv[at+1:], bytes.Repeat([]byte{'x'}, 63))
					at += 64
				}
			case "one-octet":
				sv[at], sv[at+1] = 1, 'a'
			}
			name := "compressed-target-rdata-65535"
			if suffix != "xxx63" || lit != 0 {
				name += fmt.Sprintf("-%s-lit%d", suffix, lit)
			}
			add("SVCB-"+name, sv)
			hs := append([]byte(nil), sv...)
			hs[14] = 65 // same record as type HTTPS
			add("HTTPS-"+name, hs)
		}
	}
	return
}

// ---------------------------------------------------------------------------------------

func cpuSeconds() float64 {
	var ru syscall.Rusage
	if syscall.Getrusage(syscall.RUSAGE_SELF, &ru) != nil {
		return 0
	}
	return float64(ru.Utime.Sec+ru.Stime.Sec) + float64(ru.Utime.Usec+ru.Stime.Usec)/1e6
}

// terminates runs f on its own goroutine and reports false when the process has burnt more
// than limit CPU-seconds without f returning (the stream that uses it is sequential, so f
// is the only thing running). Wall-clock only paces the polling.
func terminates(limit float64, f func()) bool {
	done := make(chan struct{})
	go func() { defer close(done); f() }()
	start := cpuSeconds()
	for {
		select {
		case <-done:
			return true
		case <-time.After(100 * time.Millisecond):
		}
		if cpuSeconds()-start > limit {
			return false
		}
	}
}

func TestVerif_C37(t *testing.T) {
	r := verifrt.Start(t, "C37")
	defer r.Finish()
	r.ExitIfAbnormal()
	defer debug.SetGCPercent(debug.SetGCPercent(400))
	r.SetRule("inputs: (pointer-lab) one crafted name per message: 1-14 label segments chained by pointers, optional loop/self-pointer, total length around 255, carried as question name / owner / RDATA name of NS CNAME PTR MX SOA SRV SVCB; (mutated) small well-formed messages (Pack or harness encoder) with 1-3 targeted mutations of counts, RDLENGTH, label lengths, pointer targets, dots, types, truncation; (truncations) every prefix of a message; (random) semi-random bytes; (crafted) fixed regression inputs. non-trivial = input longer than a header whose counts announce at least one record; distinct by input bytes")
	r.Assume("harness name decoder written from RFC 1035 4.1.4; Parser offsets read white-box (p.off); ResourceHeader.Length excluded from message equality (documented as set by Pack); Skip succeeding where parse fails is documented behaviour and only counted")

	hung := false
	run := func(stream string, chunks, per int, gen func(rng *rand.Rand, x *c37ctx, k int)) {
		if hung {
			return
		}
		r.CasesParallel(stream, chunks, 0, func(c *verifrt.Case) {
			x := &c37ctx{c: c, r: r, ev: map[string]int64{}}
			for k := 0; k < per; k++ {
				x.rng = rand.New(rand.NewPCG(c.Rng.Uint64(), uint64(k)))
				x.sub = k
				gen(x.rng, x, k)
			}
			for kind, v := range x.ev {
				r.Event(kind, v)
			}
		})
	}

	// 0. pointer-lab, sequential, with the non-termination guard
	nLab := r.N(4000, 60000)
	r.Cases("pointer-lab", 8, func(c *verifrt.Case) {
		if hung {
			return
		}
		x := &c37ctx{c: c, r: r, ev: map[string]int64{}}
		for k := 0; k < nLab/8 && !hung; k++ {
			x.rng = rand.New(rand.NewPCG(c.Rng.Uint64(), uint64(k)))
			x.sub = k
			b, origin := c37NameLab(x.rng)
			x.b, x.orig = b, origin
			fin := terminates(20, func() {
				x.safely("Unpack (guarded)", func() { var m Message; m.Unpack(b) })
				x.safely("SkipAll (guarded)", func() {
					var p Parser
					if _, err := p.Start(b); err == nil {
						p.SkipAllQuestions()
						p.SkipAllAnswers()
						p.SkipAllAuthorities()
						p.SkipAllAdditionals()
					}
				})
			})
			if !fin {
				hung = true
				x.viol("parse-does-not-terminate", "Unpack/SkipAll burnt more than 20 CPU-seconds on this %d-byte input without returning", len(b))
				break
			}
			x.check(b, origin)
			x.ev["pointer_lab_inputs"]++
		}
		for kind, v := range x.ev {
			r.Event(kind, v)
		}
	})

	// 1. crafted regression inputs
	if !hung {
		r.Cases("crafted", 1, func(c *verifrt.Case) {
			x := &c37ctx{c: c, r: r, ev: map[string]int64{}, rng: c.Rng}
			for k, in := range c37Crafted() {
				x.sub = k
				x.check(in.b, "crafted:"+in.name)
				x.ev["crafted_inputs"]++
				hx := in.b
				if len(hx) > 48 {
					hx = hx[:48]
				}
				var m Message
				r.Sample(map[string]any{"origin": "crafted:" + in.name, "len": len(in.b), "first_bytes_hex": fmt.Sprintf("%x", hx), "unpack_error": fmt.Sprint(m.Unpack(in.b))})
			}
			for kind, v := range x.ev {
				r.Event(kind, v)
			}
		})
	}

	// 2. mutated well-formed messages
	nMut := r.N(60000, 2400000)
	run("mutated", 64, nMut/64, func(rng *rand.Rand, x *c37ctx, k int) {
		b, st := c37Base(rng)
		origin := "valid"
		if rng.IntN(12) != 0 {
			origin = ""
			for n := 1 + rng.IntN(3); n > 0; n-- {
				var what string
				b, what = c37Mutate(rng, b, st)
				origin += what + "+"
			}
		}
		x.ev["mutated_inputs"]++
		x.check(b, "mutated:"+origin)
		if k == 0 && x.c.Index < 3 && len(b) <= 200 {
			var m Message
			r.Sample(map[string]any{"origin": "mutated:" + origin, "len": len(b), "bytes_hex": fmt.Sprintf("%x", b), "unpack_error": fmt.Sprint(m.Unpack(b))})
		}
	})

	// 2b. full-size well-formed messages in the harness's own uncompressed encoding, half of them
	// with a filler that puts a new, re-used name at the first offset a compression pointer
	// cannot express in what Pack will produce: the Unpack-Pack-Unpack round trip at the limit.
	nBig := r.N(400, 12000)
	run("large-valid", 16, nBig/16, func(rng *rand.Rand, x *c37ctx, k int) {
		m, g, shape := genMsgShaped(rng, false, []int{0, 1, 1, 2}[rng.IntN(4)])
		b := m.refEncode()
		if len(b) > 65535 {
			return
		}
		x.ev[fmt.Sprintf("large_valid_shape_%d", shape)]++
		x.ev["large_valid_fresh_name_aimed_at_offset_0x4000"] += int64(g.aimed)
		x.check(b, "large-valid")
	})

	nTr := r.N(224, 9000)
	run("truncations", 32, nTr/32, func(rng *rand.Rand, x *c37ctx, k int) {
		b, _ := c37Base(rng)
		if len(b) > 400 {
			b = b[:400]
		}
		for cut := 0; cut <= len(b); cut++ {
			x.check(append([]byte(nil), b[:cut]...), fmt.Sprintf("truncation %d of %d", cut, len(b)))
			x.ev["truncation_inputs"]++
		}
	})

	// 4. semi-random bytes
	nRnd := r.N(40000, 2000000)
	run("random", 64, nRnd/64, func(rng *rand.Rand, x *c37ctx, k int) {
		x.check(c37RandomBytes(rng), "random")
		x.ev["random_inputs"]++
	})

	if r.Replay == nil && !hung {
		r.Require("inputs", int64(nLab/2+nMut/2))
		r.Require("accepted", 2000)
		r.Require("rejected", 2000)
		r.Require("repack_roundtrips", 2000)
		r.Require("names_checked", 10000)
		r.Require("accepted_names_with_pointers", 1000)
		r.Require("accepted_names_with_9_or_10_pointers", 20)
		r.Require("accepted_names_254_255_octets", 20)
		r.Require("rejected:pointer-loop", 200)
		r.Require("rejected:name-over-255", 100)
		r.Require("rejected:dot-in-label", 100)
		r.Require("rejected:more-than-10-pointers", 20)
		r.Require("skips_compared_with_parse", 5000)
		r.Require("parser_fuzz_calls", 100000)
	}
}
