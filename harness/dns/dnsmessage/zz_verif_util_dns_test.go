//go:build verif

package dnsmessage

// Shared by the C36 and C37 monitors: a neutral message representation, a reference encoder
// (uncompressed) and reference decoders written from RFC 1035 section 4.1 (header, question,
// RR, name compression 4.1.4), RFC 2782 (SRV), RFC 6891 (OPT), RFC 9460 section 2.2 (SVCB /
// HTTPS wire format) — none of it calls the code under test — plus the PRNG generator of
// well-formed messages.

import (
	"errors"
	"fmt"
	"math/rand/v2"
	"strings"
)

// ---------------------------------------------------------------------------------------
// neutral representation

type refHeader struct {
	ID                             uint16
	QR, AA, TC, RD, RA, AD, CD     bool
	OpCode, RCode                  uint8
	QD, AN, NS, AR                 int // counts as found on the wire (decode only)
	Z                              bool
}

type refQ struct {
	Name        string
	Type, Class uint16
}

// refRR: type-independent container. Which slots are used per type:
//
//	A, AAAA        Blobs[0] = address
//	NS, CNAME, PTR Names[0]
//	MX             Nums[pref]              Names[exchange]
//	SOA            Names[mname, rname]     Nums[serial, refresh, retry, expire, minimum]
//	TXT            Blobs = character-strings
//	SRV            Nums[prio, weight, port] Names[target]
//	SVCB, HTTPS    Nums[prio] Names[target] Keys = param keys, Blobs = param values
//	OPT            Keys = option codes, Blobs = option data
//	anything else  Blobs[0] = RDATA
type refRR struct {
	Name  string
	Type  uint16
	Class uint16
	TTL   uint32
	Names []string
	Nums  []uint32
	Keys  []uint16
	Blobs [][]byte

	RDLen int // decode only: RDLENGTH on the wire
}

type refMsg struct {
	H   refHeader
	Q   []refQ
	Sec [3][]refRR // answers, authorities, additionals
}

const (
	tA, tNS, tCNAME, tSOA, tPTR, tMX, tTXT, tAAAA, tSRV, tOPT, tSVCB, tHTTPS = 1, 2, 5, 6, 12, 15, 16, 28, 33, 41, 64, 65
)

func refKnownType(t uint16) bool {
	switch t {
	case tA, tNS, tCNAME, tSOA, tPTR, tMX, tTXT, tAAAA, tSRV, tOPT, tSVCB, tHTTPS:
		return true
	}
	return false
}

// canon renders everything that makes up message content (not RDLENGTH, not wire counts).
func (m *refMsg) canon() string {
	var sb strings.Builder
	h := m.H
	fmt.Fprintf(&sb, "H id=%d qr=%v op=%d aa=%v tc=%v rd=%v ra=%v ad=%v cd=%v rc=%d\n", h.ID, h.QR, h.OpCode, h.AA, h.TC, h.RD, h.RA, h.AD, h.CD, h.RCode)
	for _, q := range m.Q {
		fmt.Fprintf(&sb, "Q %q %d %d\n", q.Name, q.Type, q.Class)
	}
	for s := range m.Sec {
		for i := range m.Sec[s] {
			sb.WriteString(m.Sec[s][i].canon(s))
		}
	}
	return sb.String()
}

func (r *refRR) canon(sec int) string {
	var sb strings.Builder
	fmt.Fprintf(&sb, "R%d %q t=%d c=%d ttl=%d", sec, r.Name, r.Type, r.Class, r.TTL)
	for _, n := range r.Names {
		fmt.Fprintf(&sb, " n=%q", n)
	}
	for _, n := range r.Nums {
		fmt.Fprintf(&sb, " u=%d", n)
	}
	for _, k := range r.Keys {
		fmt.Fprintf(&sb, " k=%d", k)
	}
	for _, b := range r.Blobs {
		fmt.Fprintf(&sb, " b%d=%x", len(b), b)
	}
	sb.WriteByte('\n')
	return sb.String()
}

// refEqual compares message content (what canon renders) without allocating.
func refEqual(a, b *refMsg) bool {
	ha, hb := a.H, b.H
	ha.QD, ha.AN, ha.NS, ha.AR, ha.Z = 0, 0, 0, 0, false
	hb.QD, hb.AN, hb.NS, hb.AR, hb.Z = 0, 0, 0, 0, false
	if ha != hb || len(a.Q) != len(b.Q) {
		return false
	}
	for i := range a.Q {
		if a.Q[i] != b.Q[i] {
			return false
		}
	}
	for s := range a.Sec {
		if len(a.Sec[s]) != len(b.Sec[s]) {
			return false
		}
		for i := range a.Sec[s] {
			x, y := &a.Sec[s][i], &b.Sec[s][i]
			if x.Name != y.Name || x.Type != y.Type || x.Class != y.Class || x.TTL != y.TTL ||
				len(x.Names) != len(y.Names) || len(x.Nums) != len(y.Nums) || len(x.Keys) != len(y.Keys) || len(x.Blobs) != len(y.Blobs) {
				return false
			}
			for j := range x.Names {
				if x.Names[j] != y.Names[j] {
					return false
				}
			}
			for j := range x.Nums {
				if x.Nums[j] != y.Nums[j] {
					return false
				}
			}
			for j := range x.Keys {
				if x.Keys[j] != y.Keys[j] {
					return false
				}
			}
			for j := range x.Blobs {
				if string(x.Blobs[j]) != string(y.Blobs[j]) {
					return false
				}
			}
		}
	}
	return true
}

// summary is a short, JSON-friendly description for replay files and samples.
func (m *refMsg) summary() map[string]any {
	types := []string{}
	for s := range m.Sec {
		for _, r := range m.Sec[s] {
			types = append(types, fmt.Sprintf("%d:%d:%s", s, r.Type, r.Name))
			if len(types) >= 12 {
				break
			}
		}
	}
	qs := []string{}
	for _, q := range m.Q {
		qs = append(qs, q.Name)
		if len(qs) >= 6 {
			break
		}
	}
	return map[string]any{"id": m.H.ID, "questions": len(m.Q), "answers": len(m.Sec[0]), "authorities": len(m.Sec[1]),
		"additionals": len(m.Sec[2]), "first_qnames": qs, "first_rrs(section:type:name)": types}
}

func hexHead(b []byte) string {
	if len(b) > 300 {
		return fmt.Sprintf("%x…(%d bytes)", b[:300], len(b))
	}
	return fmt.Sprintf("%x", b)
}

func firstDiff(a, b string) string {
	la, lb := strings.Split(a, "\n"), strings.Split(b, "\n")
	for i := 0; i < len(la) || i < len(lb); i++ {
		var x, y string
		if i < len(la) {
			x = la[i]
		}
		if i < len(lb) {
			y = lb[i]
		}
		if x != y {
			if len(x) > 700 {
				x = x[:700] + "…"
			}
			if len(y) > 700 {
				y = y[:700] + "…"
			}
			return fmt.Sprintf("line %d: got  %s | want %s", i, x, y)
		}
	}
	return "equal"
}

// ---------------------------------------------------------------------------------------
// conversion from / to the package's Message (only struct field access, no package logic)

func refFromHeader(h Header) refHeader {
	return refHeader{ID: h.ID, QR: h.Response, OpCode: uint8(h.OpCode), AA: h.Authoritative, TC: h.Truncated, RD: h.RecursionDesired,
		RA: h.RecursionAvailable, AD: h.AuthenticData, CD: h.CheckingDisabled, RCode: uint8(h.RCode)}
}

func refFromBody(body ResourceBody, rr *refRR) error {
	svcb := func(s *SVCBResource) {
		rr.Nums = []uint32{uint32(s.Priority)}
		rr.Names = []string{s.Target.String()}
		for _, p := range s.Params {
			rr.Keys = append(rr.Keys, uint16(p.Key))
			rr.Blobs = append(rr.Blobs, p.Value)
		}
	}
	switch b := body.(type) {
	case *AResource:
		rr.Blobs = [][]byte{b.A[:]}
	case *AAAAResource:
		rr.Blobs = [][]byte{b.AAAA[:]}
	case *NSResource:
		rr.Names = []string{b.NS.String()}
	case *CNAMEResource:
		rr.Names = []string{b.CNAME.String()}
	case *PTRResource:
		rr.Names = []string{b.PTR.String()}
	case *MXResource:
		rr.Nums = []uint32{uint32(b.Pref)}
		rr.Names = []string{b.MX.String()}
	case *SOAResource:
		rr.Names = []string{b.NS.String(), b.MBox.String()}
		rr.Nums = []uint32{b.Serial, b.Refresh, b.Retry, b.Expire, b.MinTTL}
	case *TXTResource:
		for _, s := range b.TXT {
			rr.Blobs = append(rr.Blobs, []byte(s))
		}
	case *SRVResource:
		rr.Nums = []uint32{uint32(b.Priority), uint32(b.Weight), uint32(b.Port)}
		rr.Names = []string{b.Target.String()}
	case *SVCBResource:
		svcb(b)
	case *HTTPSResource:
		svcb(&b.SVCBResource)
	case *OPTResource:
		for _, o := range b.Options {
			rr.Keys = append(rr.Keys, o.Code)
			rr.Blobs = append(rr.Blobs, o.Data)
		}
	case *UnknownResource:
		rr.Blobs = [][]byte{b.Data}
	default:
		return fmt.Errorf("unexpected body %T", body)
	}
	return nil
}

func refBodyType(body ResourceBody) (uint16, bool) {
	switch b := body.(type) {
	case *AResource:
		return tA, true
	case *AAAAResource:
		return tAAAA, true
	case *NSResource:
		return tNS, true
	case *CNAMEResource:
		return tCNAME, true
	case *PTRResource:
		return tPTR, true
	case *MXResource:
		return tMX, true
	case *SOAResource:
		return tSOA, true
	case *TXTResource:
		return tTXT, true
	case *SRVResource:
		return tSRV, true
	case *SVCBResource:
		return tSVCB, true
	case *HTTPSResource:
		return tHTTPS, true
	case *OPTResource:
		return tOPT, true
	case *UnknownResource:
		return uint16(b.Type), true
	}
	return 0, false
}

// refFromMessage: the RR type is taken from the body (that is what decides the layout); a
// header Type that disagrees with the body is reported as an error.
func refFromMessage(m *Message) (*refMsg, error) {
	out := &refMsg{H: refFromHeader(m.Header)}
	for _, q := range m.Questions {
		out.Q = append(out.Q, refQ{q.Name.String(), uint16(q.Type), uint16(q.Class)})
	}
	for s, sec := range [][]Resource{m.Answers, m.Authorities, m.Additionals} {
		if len(sec) > 0 {
			out.Sec[s] = make([]refRR, 0, len(sec))
		}
		for i := range sec {
			r := &sec[i]
			bt, ok := refBodyType(r.Body)
			if !ok {
				return nil, fmt.Errorf("section %d rr %d: body %T", s, i, r.Body)
			}
			if uint16(r.Header.Type) != bt {
				return nil, fmt.Errorf("section %d rr %d: header type %d but body %T (type %d)", s, i, r.Header.Type, r.Body, bt)
			}
			rr := refRR{Name: r.Header.Name.String(), Type: bt, Class: uint16(r.Header.Class), TTL: r.Header.TTL, RDLen: int(r.Header.Length)}
			if err := refFromBody(r.Body, &rr); err != nil {
				return nil, err
			}
			out.Sec[s] = append(out.Sec[s], rr)
		}
	}
	return out, nil
}

func mkName(s string) Name {
	var n Name
	copy(n.Data[:], s)
	n.Length = uint8(len(s))
	return n
}

func (rr *refRR) body() ResourceBody {
	svcb := func() SVCBResource {
		s := SVCBResource{Priority: uint16(rr.Nums[0]), Target: mkName(rr.Names[0])}
		for i, k := range rr.Keys {
			s.Params = append(s.Params, SVCParam{Key: SVCParamKey(k), Value: append([]byte(nil), rr.Blobs[i]...)})
		}
		return s
	}
	switch rr.Type {
	case tA:
		var b AResource
		copy(b.A[:], rr.Blobs[0])
		return &b
	case tAAAA:
		var b AAAAResource
		copy(b.AAAA[:], rr.Blobs[0])
		return &b
	case tNS:
		return &NSResource{NS: mkName(rr.Names[0])}
	case tCNAME:
		return &CNAMEResource{CNAME: mkName(rr.Names[0])}
	case tPTR:
		return &PTRResource{PTR: mkName(rr.Names[0])}
	case tMX:
		return &MXResource{Pref: uint16(rr.Nums[0]), MX: mkName(rr.Names[0])}
	case tSOA:
		return &SOAResource{NS: mkName(rr.Names[0]), MBox: mkName(rr.Names[1]), Serial: rr.Nums[0], Refresh: rr.Nums[1], Retry: rr.Nums[2], Expire: rr.Nums[3], MinTTL: rr.Nums[4]}
	case tTXT:
		b := &TXTResource{}
		for _, s := range rr.Blobs {
			b.TXT = append(b.TXT, string(s))
		}
		return b
	case tSRV:
		return &SRVResource{Priority: uint16(rr.Nums[0]), Weight: uint16(rr.Nums[1]), Port: uint16(rr.Nums[2]), Target: mkName(rr.Names[0])}
	case tSVCB:
		s := svcb()
		return &s
	case tHTTPS:
		return &HTTPSResource{svcb()}
	case tOPT:
		b := &OPTResource{}
		for i, k := range rr.Keys {
			b.Options = append(b.Options, Option{Code: k, Data: append([]byte(nil), rr.Blobs[i]...)})
		}
		return b
	}
	return &UnknownResource{Type: Type(rr.Type), Data: append([]byte(nil), rr.Blobs[0]...)}
}

func (h refHeader) header() Header {
	return Header{ID: h.ID, Response: h.QR, OpCode: OpCode(h.OpCode), Authoritative: h.AA, Truncated: h.TC, RecursionDesired: h.RD,
		RecursionAvailable: h.RA, AuthenticData: h.AD, CheckingDisabled: h.CD, RCode: RCode(h.RCode)}
}

// message builds a fresh Message. junk != nil fills the two header fields the package
// documents as "set automatically during packing" (Type, Length) with PRNG garbage.
func (m *refMsg) message(junk *rand.Rand) Message {
	out := Message{Header: m.H.header()}
	for _, q := range m.Q {
		out.Questions = append(out.Questions, Question{mkName(q.Name), Type(q.Type), Class(q.Class)})
	}
	dst := []*[]Resource{&out.Answers, &out.Authorities, &out.Additionals}
	for s := range m.Sec {
		if len(m.Sec[s]) > 0 {
			*dst[s] = make([]Resource, 0, len(m.Sec[s]))
		}
		for i := range m.Sec[s] {
			rr := &m.Sec[s][i]
			h := ResourceHeader{Name: mkName(rr.Name), Type: Type(rr.Type), Class: Class(rr.Class), TTL: rr.TTL}
			if junk != nil && junk.IntN(2) == 0 {
				h.Type = Type(junk.Uint32())
				h.Length = uint16(junk.Uint32())
			}
			*dst[s] = append(*dst[s], Resource{Header: h, Body: rr.body()})
		}
	}
	return out
}

// ---------------------------------------------------------------------------------------
// reference encoder, no compression (RFC 1035 4.1.x: every field big-endian, names as
// length-prefixed labels ending in a zero byte)

func refPutName(b []byte, name string) []byte {
	if name != "." {
		for _, l := range strings.Split(strings.TrimSuffix(name, "."), ".") {
			b = append(b, byte(len(l)))
			b = append(b, l...)
		}
	}
	return append(b, 0)
}

func put16(b []byte, v uint16) []byte { return append(b, byte(v>>8), byte(v)) }
func put32(b []byte, v uint32) []byte { return append(b, byte(v>>24), byte(v>>16), byte(v>>8), byte(v)) }

func (rr *refRR) refRData() []byte {
	var b []byte
	switch rr.Type {
	case tA, tAAAA:
		b = append(b, rr.Blobs[0]...)
	case tNS, tCNAME, tPTR:
		b = refPutName(b, rr.Names[0])
	case tMX:
		b = put16(b, uint16(rr.Nums[0]))
		b = refPutName(b, rr.Names[0])
	case tSOA:
		b = refPutName(b, rr.Names[0])
		b = refPutName(b, rr.Names[1])
		for _, n := range rr.Nums {
			b = put32(b, n)
		}
	case tTXT:
		for _, s := range rr.Blobs {
			b = append(b, byte(len(s)))
			b = append(b, s...)
		}
	case tSRV:
		b = put16(b, uint16(rr.Nums[0]))
		b = put16(b, uint16(rr.Nums[1]))
		b = put16(b, uint16(rr.Nums[2]))
		b = refPutName(b, rr.Names[0])
	case tSVCB, tHTTPS:
		b = put16(b, uint16(rr.Nums[0]))
		b = refPutName(b, rr.Names[0])
		for i, k := range rr.Keys {
			b = put16(b, k)
			b = put16(b, uint16(len(rr.Blobs[i])))
			b = append(b, rr.Blobs[i]...)
		}
	case tOPT:
		for i, k := range rr.Keys {
			b = put16(b, k)
			b = put16(b, uint16(len(rr.Blobs[i])))
			b = append(b, rr.Blobs[i]...)
		}
	default:
		b = append(b, rr.Blobs[0]...)
	}
	return b
}

func (h refHeader) flags() uint16 {
	f := uint16(h.OpCode&0xF)<<11 | uint16(h.RCode&0xF)
	for _, x := range []struct {
		on  bool
		bit uint16
	}{{h.QR, 1 << 15}, {h.AA, 1 << 10}, {h.TC, 1 << 9}, {h.RD, 1 << 8}, {h.RA, 1 << 7}, {h.AD, 1 << 5}, {h.CD, 1 << 4}} {
		if x.on {
			f |= x.bit
		}
	}
	return f
}

func (m *refMsg) refEncode() []byte {
	b := put16(nil, m.H.ID)
	b = put16(b, m.H.flags())
	b = put16(b, uint16(len(m.Q)))
	for s := range m.Sec {
		b = put16(b, uint16(len(m.Sec[s])))
	}
	for _, q := range m.Q {
		b = refPutName(b, q.Name)
		b = put16(b, q.Type)
		b = put16(b, q.Class)
	}
	for s := range m.Sec {
		for i := range m.Sec[s] {
			rr := &m.Sec[s][i]
			b = refPutName(b, rr.Name)
			b = put16(b, rr.Type)
			b = put16(b, rr.Class)
			b = put32(b, rr.TTL)
			rd := rr.refRData()
			b = put16(b, uint16(len(rd)))
			b = append(b, rd...)
		}
	}
	return b
}

// ---------------------------------------------------------------------------------------
// reference name decoder (RFC 1035 4.1.4)

var (
	errRefTrunc    = errors.New("ref: name runs past the end of the message")
	errRefReserved = errors.New("ref: label type 01/10 is reserved")
	errRefLoop     = errors.New("ref: compression pointers form a loop")
	errRefForward  = errors.New("ref: pointer does not point to a prior position")
	errRefTooLong  = errors.New("ref: name longer than 255 octets")
)

type refNameInfo struct {
	Labels   [][]byte
	Next     int  // offset just after the name at its original position
	Ptrs     int  // pointers followed
	WireLen  int  // length of the expanded name: sum(len+1) + 1
	DotLabel bool // some label contains '.'
	// offsets (in the message) of every label length byte visited and every pointer's first byte
	LabelOffs, PtrOffs []int
}

func (n *refNameInfo) text() string {
	if len(n.Labels) == 0 {
		return "."
	}
	var sb strings.Builder
	for _, l := range n.Labels {
		sb.Write(l)
		sb.WriteByte('.')
	}
	return sb.String()
}

// refDecodeName expands the name at off. strict: every pointer must point before its own
// position ("a prior occurrence"); lenient: any target inside the message, loops detected by
// revisiting an offset. A name whose expansion exceeds 255 octets is errRefTooLong.
func refDecodeName(b []byte, off int, strict bool) (refNameInfo, error) {
	var n refNameInfo
	n.Next = -1
	cur := off
	n.WireLen = 1
	var visited []int
	for {
		if cur < 0 || cur >= len(b) {
			return n, errRefTrunc
		}
		c := int(b[cur])
		switch c & 0xC0 {
		case 0x00:
			if c == 0 {
				if n.Next < 0 {
					n.Next = cur + 1
				}
				return n, nil
			}
			if cur+1+c > len(b) {
				return n, errRefTrunc
			}
			lab := b[cur+1 : cur+1+c]
			n.WireLen += c + 1
			if n.WireLen > 255 {
				return n, errRefTooLong
			}
			for _, x := range lab {
				if x == '.' {
					n.DotLabel = true
				}
			}
			n.Labels = append(n.Labels, lab)
			n.LabelOffs = append(n.LabelOffs, cur)
			cur += 1 + c
		case 0xC0:
			if cur+1 >= len(b) {
				return n, errRefTrunc
			}
			target := (c&0x3F)<<8 | int(b[cur+1])
			if n.Next < 0 {
				n.Next = cur + 2
			}
			n.PtrOffs = append(n.PtrOffs, cur)
			n.Ptrs++
			if strict && target >= cur {
				return n, errRefForward
			}
			for _, v := range visited {
				if v == target {
					return n, errRefLoop
				}
			}
			visited = append(visited, target)
			if len(visited) > len(b) {
				return n, errRefLoop
			}
			cur = target
		default:
			return n, errRefReserved
		}
	}
}

// ---------------------------------------------------------------------------------------
// reference message decoder, strict: accepts exactly well-formed messages (RDLENGTH equal to
// the parsed RDATA, nothing after the last record, Z bit clear, backward pointers only).

type refStats struct {
	Names, Ptrs      int
	PtrsInNoCompress int   // pointers inside SRV / SVCB / HTTPS targets (RFC 2782, RFC 9460 2.2: must not be compressed)
	CountOffs        []int // offsets of the 4 count fields
	RDLenOffs        []int // offset of every RDLENGTH field
	RDataOffs        []int // offset of every RDATA
	RRTypes          []uint16
	NameOffs         []int // start of every name
	LabelOffs        []int // every label length byte (at its own position, not through pointers)
	PtrOffs          []int // every pointer (at its own position)
	QEnd             int   // offset after the question section
}

type refDecoder struct {
	b  []byte
	st refStats
}

func (d *refDecoder) name(off int, noCompress bool) (string, int, error) {
	n, err := refDecodeName(d.b, off, true)
	if err != nil {
		return "", 0, fmt.Errorf("name at %d: %w", off, err)
	}
	if n.DotLabel {
		return "", 0, fmt.Errorf("name at %d: label contains '.'", off)
	}
	d.st.Names++
	d.st.Ptrs += n.Ptrs
	if noCompress {
		d.st.PtrsInNoCompress += n.Ptrs
	}
	d.st.NameOffs = append(d.st.NameOffs, off)
	for _, o := range n.LabelOffs {
		if o >= off && o < n.Next {
			d.st.LabelOffs = append(d.st.LabelOffs, o)
		}
	}
	if n.Ptrs > 0 {
		d.st.PtrOffs = append(d.st.PtrOffs, n.PtrOffs[0])
	}
	return n.text(), n.Next, nil
}

func (d *refDecoder) u16(off int) (uint16, int, error) {
	if off+2 > len(d.b) {
		return 0, 0, fmt.Errorf("truncated at %d", off)
	}
	return uint16(d.b[off])<<8 | uint16(d.b[off+1]), off + 2, nil
}

func (d *refDecoder) u32(off int) (uint32, int, error) {
	if off+4 > len(d.b) {
		return 0, 0, fmt.Errorf("truncated at %d", off)
	}
	return uint32(d.b[off])<<24 | uint32(d.b[off+1])<<16 | uint32(d.b[off+2])<<8 | uint32(d.b[off+3]), off + 4, nil
}

func (d *refDecoder) rdata(rr *refRR, off, end int) error {
	var err error
	var v16 uint16
	var v32 uint32
	var s string
	need := func(n int) error {
		if off+n > end {
			return fmt.Errorf("RDATA of type %d too short at %d (end %d)", rr.Type, off, end)
		}
		return nil
	}
	kv := func() error { // (key, length, value)* up to end
		for off < end {
			if err := need(4); err != nil {
				return err
			}
			k, _, _ := d.u16(off)
			l, _, _ := d.u16(off + 2)
			off += 4
			if err := need(int(l)); err != nil {
				return err
			}
			rr.Keys = append(rr.Keys, k)
			rr.Blobs = append(rr.Blobs, d.b[off:off+int(l)])
			off += int(l)
		}
		return nil
	}
	switch rr.Type {
	case tA, tAAAA:
		n := 4
		if rr.Type == tAAAA {
			n = 16
		}
		if err := need(n); err != nil {
			return err
		}
		rr.Blobs = [][]byte{d.b[off : off+n]}
		off += n
	case tNS, tCNAME, tPTR:
		if s, off, err = d.name(off, false); err != nil {
			return err
		}
		rr.Names = []string{s}
	case tMX:
		if err := need(2); err != nil {
			return err
		}
		v16, off, _ = d.u16(off)
		rr.Nums = []uint32{uint32(v16)}
		if s, off, err = d.name(off, false); err != nil {
			return err
		}
		rr.Names = []string{s}
	case tSOA:
		for i := 0; i < 2; i++ {
			if s, off, err = d.name(off, false); err != nil {
				return err
			}
			rr.Names = append(rr.Names, s)
		}
		if err := need(20); err != nil {
			return err
		}
		for i := 0; i < 5; i++ {
			v32, off, _ = d.u32(off)
			rr.Nums = append(rr.Nums, v32)
		}
	case tTXT:
		for off < end {
			l := int(d.b[off])
			off++
			if err := need(l); err != nil {
				return err
			}
			rr.Blobs = append(rr.Blobs, d.b[off:off+l])
			off += l
		}
	case tSRV:
		if err := need(6); err != nil {
			return err
		}
		for i := 0; i < 3; i++ {
			v16, off, _ = d.u16(off)
			rr.Nums = append(rr.Nums, uint32(v16))
		}
		if s, off, err = d.name(off, true); err != nil {
			return err
		}
		rr.Names = []string{s}
	case tSVCB, tHTTPS:
		if err := need(2); err != nil {
			return err
		}
		v16, off, _ = d.u16(off)
		rr.Nums = []uint32{uint32(v16)}
		if s, off, err = d.name(off, true); err != nil {
			return err
		}
		rr.Names = []string{s}
		if off > end {
			return fmt.Errorf("SVCB target runs past RDATA")
		}
		if err := kv(); err != nil {
			return err
		}
		for i := 1; i < len(rr.Keys); i++ {
			if rr.Keys[i] <= rr.Keys[i-1] {
				return fmt.Errorf("SvcParamKeys not strictly increasing")
			}
		}
	case tOPT:
		if err := kv(); err != nil {
			return err
		}
	default:
		rr.Blobs = [][]byte{d.b[off:end]}
		off = end
	}
	if off != end {
		return fmt.Errorf("type %d: RDATA parsed to %d but RDLENGTH ends at %d", rr.Type, off, end)
	}
	return nil
}

func refDecodeMsg(b []byte) (*refMsg, *refStats, error) {
	d := &refDecoder{b: b}
	m := &refMsg{}
	if len(b) < 12 {
		return nil, nil, fmt.Errorf("shorter than a header")
	}
	m.H.ID = uint16(b[0])<<8 | uint16(b[1])
	f := uint16(b[2])<<8 | uint16(b[3])
	m.H.QR, m.H.OpCode, m.H.AA, m.H.TC, m.H.RD = f&(1<<15) != 0, uint8(f>>11)&0xF, f&(1<<10) != 0, f&(1<<9) != 0, f&(1<<8) != 0
	m.H.RA, m.H.Z, m.H.AD, m.H.CD, m.H.RCode = f&(1<<7) != 0, f&(1<<6) != 0, f&(1<<5) != 0, f&(1<<4) != 0, uint8(f&0xF)
	if m.H.Z {
		return nil, nil, fmt.Errorf("Z bit set")
	}
	cnt := [4]int{}
	for i := range cnt {
		cnt[i] = int(b[4+2*i])<<8 | int(b[5+2*i])
		d.st.CountOffs = append(d.st.CountOffs, 4+2*i)
	}
	m.H.QD, m.H.AN, m.H.NS, m.H.AR = cnt[0], cnt[1], cnt[2], cnt[3]
	off := 12
	var err error
	for i := 0; i < cnt[0]; i++ {
		var q refQ
		if q.Name, off, err = d.name(off, false); err != nil {
			return nil, nil, fmt.Errorf("question %d: %w", i, err)
		}
		if q.Type, off, err = d.u16(off); err != nil {
			return nil, nil, err
		}
		if q.Class, off, err = d.u16(off); err != nil {
			return nil, nil, err
		}
		m.Q = append(m.Q, q)
	}
	d.st.QEnd = off
	for s := 0; s < 3; s++ {
		if c := cnt[1+s]; c > 0 && c <= (len(b)-off)/11 {
			m.Sec[s] = make([]refRR, 0, c)
		}
		for i := 0; i < cnt[1+s]; i++ {
			var rr refRR
			if rr.Name, off, err = d.name(off, false); err != nil {
				return nil, nil, fmt.Errorf("section %d rr %d owner: %w", s, i, err)
			}
			if rr.Type, off, err = d.u16(off); err != nil {
				return nil, nil, err
			}
			if rr.Class, off, err = d.u16(off); err != nil {
				return nil, nil, err
			}
			if rr.TTL, off, err = d.u32(off); err != nil {
				return nil, nil, err
			}
			d.st.RDLenOffs = append(d.st.RDLenOffs, off)
			var l uint16
			if l, off, err = d.u16(off); err != nil {
				return nil, nil, err
			}
			rr.RDLen = int(l)
			if off+int(l) > len(b) {
				return nil, nil, fmt.Errorf("section %d rr %d: RDLENGTH %d runs past the message", s, i, l)
			}
			d.st.RDataOffs = append(d.st.RDataOffs, off)
			d.st.RRTypes = append(d.st.RRTypes, rr.Type)
			if err := d.rdata(&rr, off, off+int(l)); err != nil {
				return nil, nil, fmt.Errorf("section %d rr %d: %w", s, i, err)
			}
			off += int(l)
			m.Sec[s] = append(m.Sec[s], rr)
		}
	}
	if off != len(b) {
		return nil, nil, fmt.Errorf("%d bytes after the last record", len(b)-off)
	}
	return m, &d.st, nil
}

// ---------------------------------------------------------------------------------------
// PRNG generator of well-formed messages

var genLabelPool = []string{"a", "b", "c", "www", "mail", "ns1", "example", "com", "org", "net", "go", "dev", "x-y", "_tcp", "_dns",
	strings.Repeat("l", 63), strings.Repeat("m", 62), "Example", "COM"}

type dnsGen struct {
	rng   *rand.Rand
	small bool
	names []string // names already used in this message (suffix reuse)
	// reach counters
	maxNames, label63, rootNames, rawLabels, txt255, txtEmpty, bigRData, aimed int
}

func (g *dnsGen) label() string {
	switch g.rng.IntN(10) {
	case 0: // arbitrary bytes, anything but '.'
		n := 1 + g.rng.IntN(12)
		if g.rng.IntN(8) == 0 {
			n = 1 + g.rng.IntN(63)
		}
		b := make([]byte, n)
		for i := range b {
			b[i] = byte(g.rng.Uint32())
			if b[i] == '.' {
				b[i] = '-'
			}
		}
		g.rawLabels++
		return string(b)
	case 1: // short random letters
		n := 1 + g.rng.IntN(5)
		b := make([]byte, n)
		for i := range b {
			b[i] = byte('a' + g.rng.IntN(4))
		}
		return string(b)
	}
	return genLabelPool[g.rng.IntN(len(genLabelPool))]
}

// name returns an absolute name with text length <= 254 (wire length <= 255).
func (g *dnsGen) name() string {
	r := g.rng.IntN(100)
	var s string
	switch {
	case r < 4:
		g.rootNames++
		return "."
	case r < 8: // maximal name: text length exactly 254
		s = g.fill(254)
	case r < 11: // near-maximal
		s = g.fill(240 + g.rng.IntN(15))
	case r < 45 && len(g.names) > 0: // new labels in front of a suffix of an earlier name
		old := g.names[g.rng.IntN(len(g.names))]
		labs := strings.Split(strings.TrimSuffix(old, "."), ".")
		if old == "." {
			labs = nil
		}
		k := g.rng.IntN(len(labs) + 1)
		s = strings.Join(labs[k:], ".")
		if s != "" {
			s += "."
		}
		for n := g.rng.IntN(3); n > 0; n-- {
			l := g.label()
			if len(l)+1+len(s) > 254 {
				break
			}
			s = l + "." + s
		}
		if s == "" {
			s = g.label() + "."
		}
	case r < 55 && len(g.names) > 0: // exact repeat
		s = g.names[g.rng.IntN(len(g.names))]
	default:
		for n := 1 + g.rng.IntN(5); n > 0; n-- {
			l := g.label()
			if len(l)+1+len(s) > 254 {
				break
			}
			s = l + "." + s
		}
	}
	if len(s) == 254 {
		g.maxNames++
	}
	for _, l := range strings.Split(strings.TrimSuffix(s, "."), ".") {
		if len(l) == 63 {
			g.label63++
		}
	}
	g.names = append(g.names, s)
	return s
}

// fill builds a name of exactly total text bytes (total >= 2) out of labels <= 63.
func (g *dnsGen) fill(total int) string {
	var s string
	for rest := total; rest > 0; { // invariant: rest == 0 or rest >= 2
		maxL := rest - 1
		if maxL > 63 {
			maxL = 63
		}
		l := maxL
		if g.rng.IntN(3) == 0 {
			l = 1 + g.rng.IntN(maxL)
		}
		if rest-(l+1) == 1 { // would leave room for a dot only
			if l > 1 {
				l--
			} else {
				l++
			}
		}
		c := byte('a' + g.rng.IntN(3))
		s += strings.Repeat(string(c), l) + "."
		rest -= l + 1
	}
	return s
}

func (g *dnsGen) bytes(n int) []byte {
	b := make([]byte, n)
	for i := range b {
		b[i] = byte(g.rng.Uint32())
	}
	return b
}

func (g *dnsGen) blobLen() int {
	if g.small {
		return g.rng.IntN(12)
	}
	switch g.rng.IntN(12) {
	case 0:
		return 0
	case 1:
		return 255 + g.rng.IntN(3)
	case 2:
		return g.rng.IntN(700)
	}
	return g.rng.IntN(24)
}

var genRRTypes = []uint16{tA, tAAAA, tNS, tCNAME, tSOA, tPTR, tMX, tTXT, tSRV, tSVCB, tHTTPS, tOPT, 0}

func (g *dnsGen) rr(typ uint16) refRR {
	rr := refRR{Name: g.name(), Type: typ, Class: uint16(g.rng.Uint32()), TTL: g.rng.Uint32()}
	if g.rng.IntN(2) == 0 {
		rr.Class = 1
	}
	switch typ {
	case tA:
		rr.Blobs = [][]byte{g.bytes(4)}
	case tAAAA:
		rr.Blobs = [][]byte{g.bytes(16)}
	case tNS, tCNAME, tPTR:
		rr.Names = []string{g.name()}
	case tMX:
		rr.Nums = []uint32{uint32(uint16(g.rng.Uint32()))}
		rr.Names = []string{g.name()}
	case tSOA:
		rr.Names = []string{g.name(), g.name()}
		rr.Nums = []uint32{g.rng.Uint32(), g.rng.Uint32(), g.rng.Uint32(), g.rng.Uint32(), g.rng.Uint32()}
	case tTXT:
		for n := 1 + g.rng.IntN(4); n > 0; n-- {
			var l int
			switch g.rng.IntN(8) {
			case 0:
				l = 0
				g.txtEmpty++
			case 1:
				l = 255
				g.txt255++
			case 2:
				l = g.rng.IntN(256)
			default:
				l = g.rng.IntN(30)
			}
			rr.Blobs = append(rr.Blobs, g.bytes(l))
		}
	case tSRV:
		rr.Nums = []uint32{uint32(uint16(g.rng.Uint32())), uint32(uint16(g.rng.Uint32())), uint32(uint16(g.rng.Uint32()))}
		rr.Names = []string{g.name()}
	case tSVCB, tHTTPS:
		rr.Nums = []uint32{uint32(uint16(g.rng.Uint32()))}
		rr.Names = []string{g.name()}
		k := -1
		for n := g.rng.IntN(6); n > 0; n-- {
			if g.rng.IntN(3) == 0 {
				k += 1 + g.rng.IntN(20000)
			} else {
				k += 1 + g.rng.IntN(3)
			}
			if k > 65535 {
				break
			}
			rr.Keys = append(rr.Keys, uint16(k))
			rr.Blobs = append(rr.Blobs, g.bytes(g.blobLen()))
		}
	case tOPT:
		// RFC 6891: root owner name, CLASS = payload size, TTL = ext-rcode/version/flags
		rr.Name = "."
		rr.Class = uint16(g.rng.Uint32())
		rr.TTL = g.rng.Uint32()
		for n := g.rng.IntN(4); n > 0; n-- {
			rr.Keys = append(rr.Keys, uint16(g.rng.Uint32()))
			rr.Blobs = append(rr.Blobs, g.bytes(g.blobLen()))
		}
	default:
		t := uint16(g.rng.Uint32())
		if g.rng.IntN(3) == 0 {
			t = []uint16{0, 3, 4, 7, 11, 13, 14, 17, 29, 35, 39, 40, 42, 43, 46, 47, 48, 63, 66, 99, 249, 250, 251, 252, 255, 256, 257, 65535}[g.rng.IntN(28)]
		}
		for refKnownType(t) {
			t++
		}
		rr.Type = t
		rr.Blobs = [][]byte{g.bytes(g.blobLen())}
	}
	return rr
}

// genMsg: shape 0 = ordinary, 1 = a filler record pushes later names across the 14-bit
// pointer limit (offset 0x3FFF), 2 = many small records.
func genMsg(rng *rand.Rand) (*refMsg, *dnsGen, int) { return genMsgSized(rng, false) }

// genMsgSized(small=true): ordinary shape only, at most 3 records per section and no
// maximal-length blobs — base material for the C37 mutators.
func genMsgSized(rng *rand.Rand, small bool) (*refMsg, *dnsGen, int) {
	return genMsgShaped(rng, small, -1)
}

// genMsgShaped: as genMsgSized with the shape (0 plain, 1 filler up to the 14-bit pointer limit,
// 2 large) given; -1 draws it.
func genMsgShaped(rng *rand.Rand, small bool, force int) (*refMsg, *dnsGen, int) {
	g := &dnsGen{rng: rng, small: small}
	m := &refMsg{}
	m.H = refHeader{ID: uint16(rng.Uint32()), QR: rng.IntN(2) == 0, AA: rng.IntN(2) == 0, TC: rng.IntN(2) == 0, RD: rng.IntN(2) == 0,
		RA: rng.IntN(2) == 0, AD: rng.IntN(2) == 0, CD: rng.IntN(2) == 0, OpCode: uint8(rng.IntN(16)), RCode: uint8(rng.IntN(16))}
	shape := 0
	switch r := rng.IntN(100); {
	case small:
	case r < 3:
		shape = 1
	case r < 6:
		shape = 2
	}
	if force >= 0 {
		shape = force
	}
	cnt := func() int {
		if small {
			return rng.IntN(4)
		}
		switch rng.IntN(6) {
		case 0:
			return 0
		case 1:
			return rng.IntN(21)
		}
		return rng.IntN(4)
	}
	nq := cnt()
	if rng.IntN(2) == 0 {
		nq = 1
	}
	for i := 0; i < nq; i++ {
		q := refQ{Name: g.name(), Type: uint16(rng.Uint32()), Class: uint16(rng.Uint32())}
		if rng.IntN(2) == 0 {
			q.Type = genRRTypes[rng.IntN(len(genRRTypes))]
			q.Class = 1
		}
		m.Q = append(m.Q, q)
	}
	if shape == 1 {
		// One unknown-type record whose RDATA ends a few bytes around offset 0x3FFF when
		// nothing before it is compressible: header 12 + questions + owner + 10.
		used := 12
		for _, q := range m.Q {
			used += len(refPutName(nil, q.Name)) + 4
		}
		owner := g.name()
		used += len(refPutName(nil, owner)) + 10
		l := 0x3FFF - used + rng.IntN(120) - 80
		if l < 0 {
			l = 0
		}
		m.Sec[0] = append(m.Sec[0], refRR{Name: owner, Type: 99, Class: 1, TTL: rng.Uint32(), Blobs: [][]byte{g.bytes(l)}})
		if rng.IntN(2) == 0 {
			// Aim exactly: the record after the filler starts at an offset within two octets of
			// 0x4000, the first offset a compression pointer cannot express, and its owner name
			// is new and used again right away. The implementation's own Pack of the prefix tells
			// where the filler ends (names before it may or may not have been compressed); that
			// only steers the generator.
			pm := &refMsg{H: m.H, Q: m.Q}
			pm.Sec[0] = m.Sec[0]
			pmsg := pm.message(rand.New(rand.NewPCG(1, 2)))
			if pre, err := pmsg.Pack(); err == nil {
				target := 0x4000 + []int{0, 0, 0, -1, 1, -2, 2}[rng.IntN(7)]
				if nl := l + target - len(pre); nl >= 0 && nl <= 65535 {
					m.Sec[0][0].Blobs = [][]byte{g.bytes(nl)}
					fresh := fmt.Sprintf("zq%d.", rng.IntN(1000))
					if sfx := g.name(); sfx != "." {
						fresh += sfx
					}
					if len(fresh) <= 200 {
						for i := 0; i < 2+rng.IntN(2); i++ {
							m.Sec[0] = append(m.Sec[0], refRR{Name: fresh, Type: tA, Class: 1, TTL: rng.Uint32(), Blobs: [][]byte{g.bytes(4)}})
						}
						g.aimed++
					}
				}
			}
		}
	}
	for s := 0; s < 3; s++ {
		n := cnt()
		if shape == 2 && rng.IntN(2) == 0 {
			n = 30 + rng.IntN(120)
		}
		for i := 0; i < n; i++ {
			typ := genRRTypes[rng.IntN(len(genRRTypes))]
			if typ == tOPT && (s != 2 || rng.IntN(3) != 0) {
				typ = tA
			}
			m.Sec[s] = append(m.Sec[s], g.rr(typ))
		}
	}
	if shape == 1 && rng.IntN(3) == 0 {
		// a record with RDATA up to the 65535-octet limit (RDLENGTH needs all 16 bits)
		l := []int{65535, 65534, 32768, 32767, 16384, 16384 + rng.IntN(49152)}[rng.IntN(6)]
		var big refRR
		switch rng.IntN(3) {
		case 0:
			big = refRR{Name: g.name(), Type: 99, Class: 1, TTL: rng.Uint32(), Blobs: [][]byte{g.bytes(l)}}
		case 1: // OPT: one option filling the RDATA
			big = refRR{Name: ".", Type: tOPT, Class: 4096, Keys: []uint16{uint16(rng.Uint32())}, Blobs: [][]byte{g.bytes(l - 4)}}
		default: // TXT: 255-byte strings, the last one shorter
			big = refRR{Name: g.name(), Type: tTXT, Class: 1, TTL: rng.Uint32()}
			for rest := l; rest > 0; {
				n := 255
				if rest < 256 {
					n = rest - 1
				}
				big.Blobs = append(big.Blobs, g.bytes(n))
				rest -= n + 1
			}
		}
		g.bigRData++
		m.Sec[2] = append(m.Sec[2], big)
	}
	return m, g, shape
}
