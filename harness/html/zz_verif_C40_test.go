//go:build verif

package html

import (
	"bytes"
	"fmt"
	"io"
	"math/rand/v2"
	"strings"
	"testing"

	"golang.org/x/net/html/atom"
	"golang.org/x/net/internal/verifrt"
)

// Strings that matter to an escaper: markup delimiters, quotes, CR, NUL, things that look like
// character references (complete, incomplete, doubly escaped), raw-text terminators.
var verifC40Frags = []string{"<", ">", "&", "\"", "'", "\r", "\n", "\r\n", "\x00", " ", "\t", "\f", ";", "#", "&#", "&#x", "&#39;", "&#34;", "&#13;", "&#0;", "&#x3c;", "&#60", "&lt;", "&lt", "&gt;", "&amp;", "&amp;amp;", "&amp;lt;",
	"&quot;", "&apos;", "&notit;", "&not", "&copy=", "&nosuch;", "&AMP", "</script>", "</div>", "</p>", "<b>", "<script>", "<!--", "-->", "--!>", "]]>", "<![CDATA[", "</", "/>", "=", "`", "a", "b", "x", "1", "9", "f", "lt", "amp",
	"é", "€", "𝄞", "\ufffd", "\xff", "\xc3", "\xe2\x82", "javascript:alert(1)", "\" onmouseover=\"x", "' onx='", "><img src=x onerror=y>"}

func verifC40String(rng *rand.Rand, maxFrags int) string {
	var sb strings.Builder
	for k := 1 + rng.IntN(maxFrags); k > 0; k-- {
		if rng.IntN(12) == 0 {
			sb.WriteByte(byte(rng.Uint32()))
		} else {
			sb.WriteString(verifC40Frags[rng.IntN(len(verifC40Frags))])
		}
	}
	return sb.String()
}

// ---- trees ------------------------------------------------------------------------------------

type verifVNode struct {
	Tag   string        `json:"tag,omitempty"`
	Attrs []Attribute   `json:"attrs,omitempty"`
	Text  string        `json:"text,omitempty"`
	IsTxt bool          `json:"is_text,omitempty"`
	Kids  []*verifVNode `json:"kids,omitempty"`
}

var (
	verifC40Flow     = []string{"div", "section", "article", "ul", "p", "blockquote", "x-box", "pre", "listing"}
	verifC40Phrasing = []string{"span", "a", "b", "em", "i", "strong", "code", "small", "u", "x-inline", "label"}
	verifC40Format   = map[string]bool{"a": true, "b": true, "em": true, "i": true, "strong": true, "code": true, "small": true, "u": true}
	verifC40Leaves   = []string{"br", "img", "wbr"}
	verifC40Keys     = []string{"id", "class", "href", "title", "data-x", "lang", "style", "name", "value", "alt", "src", "onclick", "x"}
)

// verifC40Tree generates children for an element. flow says whether block-level children are
// allowed; banned holds formatting element names that are open above (HTML's adoption agency
// and the "Noah's Ark" clause restructure nested same-named formatting elements, which Render's
// documentation excludes from round-tripping).
func verifC40Kids(rng *rand.Rand, depth int, flow bool, listOnly bool, banned map[string]bool, budget *int) []*verifVNode {
	var kids []*verifVNode
	n := rng.IntN(5)
	if depth == 0 {
		n = 1 + rng.IntN(4)
	}
	for i := 0; i < n && *budget > 0; i++ {
		*budget--
		if listOnly {
			li := &verifVNode{Tag: "li", Attrs: verifC40Attrs(rng)}
			li.Kids = verifC40Kids(rng, depth+1, true, false, banned, budget)
			kids = append(kids, li)
			continue
		}
		switch k := rng.IntN(10); {
		case k < 4:
			kids = append(kids, &verifVNode{IsTxt: true, Text: verifC40String(rng, 5)})
			if rng.IntN(8) == 0 { // adjacent text nodes: the parser sees one run of text
				kids = append(kids, &verifVNode{IsTxt: true, Text: verifC40String(rng, 3)})
			}
		case k < 5:
			kids = append(kids, &verifVNode{Tag: verifC40Leaves[rng.IntN(len(verifC40Leaves))], Attrs: verifC40Attrs(rng)})
		case k < 7 && flow && depth < 6:
			tag := verifC40Flow[rng.IntN(len(verifC40Flow))]
			e := &verifVNode{Tag: tag, Attrs: verifC40Attrs(rng)}
			switch tag {
			case "ul":
				e.Kids = verifC40Kids(rng, depth+1, false, true, banned, budget)
			case "p":
				e.Kids = verifC40Kids(rng, depth+1, false, false, banned, budget)
			case "pre", "listing":
				// (added after seeded change C40l) the parser drops one newline right after these start tags and Render
				// writes one more to protect a text that begins with one: half of them begin with such a text
				e.Kids = verifC40Kids(rng, depth+1, false, false, banned, budget)
				if rng.IntN(2) == 0 {
					e.Kids = append([]*verifVNode{{IsTxt: true, Text: "\n" + verifC40String(rng, 3)}}, e.Kids...)
				}
			default:
				e.Kids = verifC40Kids(rng, depth+1, true, false, banned, budget)
			}
			kids = append(kids, e)
		default:
			if depth >= 7 {
				continue
			}
			tag := verifC40Phrasing[rng.IntN(len(verifC40Phrasing))]
			if banned[tag] {
				tag = "span"
			}
			e := &verifVNode{Tag: tag, Attrs: verifC40Attrs(rng)}
			b2 := banned
			if verifC40Format[tag] {
				b2 = map[string]bool{tag: true}
				for k := range banned {
					b2[k] = true
				}
			}
			e.Kids = verifC40Kids(rng, depth+1, false, false, b2, budget)
			kids = append(kids, e)
		}
	}
	return kids
}

func verifC40Attrs(rng *rand.Rand) []Attribute {
	var out []Attribute
	if rng.IntN(2) == 0 {
		return nil
	}
	used := map[string]bool{}
	for k := 1 + rng.IntN(3); k > 0; k-- {
		key := verifC40Keys[rng.IntN(len(verifC40Keys))]
		if used[key] {
			continue
		}
		used[key] = true
		val := ""
		if rng.IntN(6) != 0 {
			val = verifC40String(rng, 4)
		}
		out = append(out, Attribute{Key: key, Val: val})
	}
	return out
}

// noAtom builds the tree the way a program that assembles nodes by hand may: Data only, DataAtom zero (Render is
// documented in terms of Data).
func verifC40Build(v *verifVNode, noAtom bool) *Node {
	if v.IsTxt {
		return &Node{Type: TextNode, Data: v.Text}
	}
	n := &Node{Type: ElementNode, Data: v.Tag, DataAtom: atom.Lookup([]byte(v.Tag)), Attr: append([]Attribute(nil), v.Attrs...)}
	if noAtom {
		n.DataAtom = 0
	}
	for _, k := range v.Kids {
		n.AppendChild(verifC40Build(k, noAtom))
	}
	return n
}

func verifNormNL(s string) string {
	return strings.ReplaceAll(strings.ReplaceAll(s, "\r\n", "\n"), "\r", "\n")
}

// verifC40ValueEq: equal exactly, or equal after the parser's newline normalisation of the
// expected value (CRLF and CR become LF).
func verifC40ValueEq(got, want string) bool { return got == want || got == verifNormNL(want) }

// verifC40Compare checks that the parsed element got reproduces the generated element want.
// nulRepl selects which of the two documented NUL treatments is applied to the expected text
// (dropped, as "in body" does; or replaced by U+FFFD).
func verifC40Compare(want *verifVNode, got *Node, nulRepl bool, path string) string {
	if got.Type != ElementNode || got.Data != want.Tag || got.Namespace != "" {
		return fmt.Sprintf("%s: want element <%s>, got %v %q", path, want.Tag, got.Type, got.Data)
	}
	if len(got.Attr) != len(want.Attrs) {
		return fmt.Sprintf("%s<%s>: want %d attributes %q, got %d %q", path, want.Tag, len(want.Attrs), want.Attrs, len(got.Attr), got.Attr)
	}
	// attribute order is not part of the contract (the parser sorts the attributes of formatting
	// elements for its Noah's Ark comparison): match by key, keys are unique in generated trees
	for i, a := range want.Attrs {
		var g *Attribute
		for j := range got.Attr {
			if got.Attr[j].Key == a.Key && got.Attr[j].Namespace == "" {
				g = &got.Attr[j]
			}
		}
		if g == nil {
			return fmt.Sprintf("%s<%s>: attributes changed: attribute %d %s=%q is missing, got %q", path, want.Tag, i, a.Key, a.Val, got.Attr)
		}
		wv := strings.ReplaceAll(a.Val, "\x00", "\ufffd")
		if !(verifC40ValueEq(g.Val, wv) || verifC40ValueEq(g.Val, strings.ReplaceAll(a.Val, "\x00", ""))) {
			return fmt.Sprintf("%s<%s>: attribute %d: want %s=%q, got %s=%q", path, want.Tag, i, a.Key, a.Val, g.Key, g.Val)
		}
	}
	// expected child list after normalisation: NULs handled, empty text gone, adjacent text merged
	type exp struct {
		text string
		el   *verifVNode
	}
	var kids []exp
	for _, k := range want.Kids {
		if !k.IsTxt {
			kids = append(kids, exp{el: k})
			continue
		}
		t := strings.ReplaceAll(k.Text, "\x00", "")
		if nulRepl {
			t = strings.ReplaceAll(k.Text, "\x00", "\ufffd")
		}
		if t == "" {
			continue
		}
		if len(kids) > 0 && kids[len(kids)-1].el == nil {
			kids[len(kids)-1].text += t
		} else {
			kids = append(kids, exp{text: t})
		}
	}
	c := got.FirstChild
	for i, k := range kids {
		p := fmt.Sprintf("%s<%s>[%d]", path, want.Tag, i)
		if c == nil {
			return fmt.Sprintf("%s: missing child (want %d children)", p, len(kids))
		}
		if k.el == nil {
			if c.Type != TextNode {
				return fmt.Sprintf("%s: want text %q, got %v %q", p, k.text, c.Type, c.Data)
			}
			if !verifC40ValueEq(c.Data, k.text) {
				return fmt.Sprintf("%s: want text %q, got text %q", p, k.text, c.Data)
			}
		} else if msg := verifC40Compare(k.el, c, nulRepl, p); msg != "" {
			return msg
		}
		c = c.NextSibling
	}
	if c != nil {
		return fmt.Sprintf("%s<%s>: additional child %v %q after the %d expected", path, want.Tag, c.Type, c.Data, len(kids))
	}
	return ""
}

func verifCountElements(n *Node) (els int) {
	if n.Type == ElementNode {
		els = 1
	}
	for c := n.FirstChild; c != nil; c = c.NextSibling {
		els += verifCountElements(c)
	}
	return els
}

func verifVCount(v *verifVNode) (els, texts, attrs int) {
	if v.IsTxt {
		return 0, 1, 0
	}
	els, attrs = 1, len(v.Attrs)
	for _, k := range v.Kids {
		e, t, a := verifVCount(k)
		els, texts, attrs = els+e, texts+t, attrs+a
	}
	return
}

func verifTokenEq(a, b Token) bool {
	if a.Type != b.Type || a.Data != b.Data || a.DataAtom != b.DataAtom || len(a.Attr) != len(b.Attr) {
		return false
	}
	for i := range a.Attr {
		if a.Attr[i] != b.Attr[i] {
			return false
		}
	}
	return true
}

func TestVerif_C40(t *testing.T) {
	r := verifrt.Start(t, "C40")
	defer r.Finish()
	r.SetRule("(a) strings: every string of length<=5 over the 10-byte alphabet &#;x3a<\\r\"' plus PRNG concatenations of fragments heavy in <>&\"' CR NUL, character-reference look-alikes and invalid UTF-8; " +
		"(b) every tag/comment/doctype token the tokenizer returns on the shared html corpus (html5lib inputs verbatim+mutated, grammar, random bytes) under PRNG tokenizer configurations; " +
		"(c) PRNG trees of ordinary elements (flow: div section article ul/li p blockquote x-box; phrasing: span a b em i strong code small u label x-inline; void: br img wbr; no formatting element nested in a same-named one, p holds phrasing only) with such strings as text and attribute values, inside <html><head></head><body><div>. " +
		"non-trivial = the string/token/tree contains a byte that needs escaping (<>&\"' CR) or NUL; distinct by content")
	r.Assume("(c) accepts a value exactly, or with CR/CRLF turned into LF; NUL in text either dropped or replaced by U+FFFD, NUL in attribute values replaced by U+FFFD (or dropped); empty text nodes vanish and adjacent text nodes merge")
	r.Assume("(b) 'yields an equal token' is read as: the token stream of t.String() is exactly one token equal to t in Type, Data, DataAtom and Attr (keys, values, order), followed by io.EOF")

	needsEsc := func(s string) bool { return strings.ContainsAny(s, "<>&\"'\r\x00") }

	// ---- (a) ----------------------------------------------------------------------------------
	checkStr := func(c *verifrt.Case, s string) {
		e := EscapeString(s)
		if u := UnescapeString(e); u != s {
			c.Describe(map[string]any{"s": fmt.Sprintf("%q", s)})
			c.Violation("unescape-escape-not-identity", "s=%q EscapeString=%q UnescapeString(that)=%q", s, e, u)
		}
		r.EvalBytes(needsEsc(s), []byte(s))
		if e != s {
			r.Event("strings_changed_by_escape", 1)
		}
	}
	r.Cases("escape-exhaustive", 1, func(c *verifrt.Case) {
		const al = "&#;x3a<\r\"'"
		var rec func(prefix []byte, left int)
		rec = func(prefix []byte, left int) {
			checkStr(c, string(prefix))
			if left == 0 {
				return
			}
			for i := 0; i < len(al); i++ {
				rec(append(prefix, al[i]), left-1)
			}
		}
		rec(nil, 5)
		r.Event("escape_exhaustive_done", 1)
		r.Sample(map[string]any{"part": "a", "s": "&#3;<\r\"'", "escaped": EscapeString("&#3;<\r\"'")})
	})
	nStr := r.N(400000, 12000000)
	r.CasesParallel("escape-random", 64, 0, func(c *verifrt.Case) {
		for i := 0; i < nStr/64; i++ {
			checkStr(c, verifC40String(c.Rng, 8))
			r.Event("strings_random", 1)
		}
	})

	// ---- (b) ----------------------------------------------------------------------------------
	checkToken := func(c *verifrt.Case, tok Token, from []byte) {
		s := tok.String()
		z := NewTokenizer(strings.NewReader(s))
		tt := z.Next()
		var got Token
		if tt != ErrorToken {
			got = z.Token()
		}
		kind := strings.ToLower(tok.Type.String())
		if tt == ErrorToken || !verifTokenEq(got, tok) {
			key := "token-string-roundtrip-" + kind
			if tok.Type == DoctypeToken && tt == DoctypeToken && strings.TrimLeft(tok.Data, " \n\r\t\f") == got.Data {
				key = "token-string-roundtrip-doctype-leading-space"
			}
			if tok.Type == CommentToken && tt == CommentToken && strings.Contains(tok.Data, "\r") && verifNormNL(tok.Data) == got.Data {
				key = "token-string-roundtrip-comment-cr-becomes-lf"
			}
			c.Violation(key, "token %#v (from raw %q) has String() %q which tokenizes to %#v", tok, verifClip(from, 120), s, got)
			return
		}
		if tt2 := z.Next(); tt2 != ErrorToken || z.Err() != io.EOF {
			c.Violation("token-string-yields-extra-token-"+kind, "token %#v has String() %q which tokenizes to the same token followed by %v %q (err %v)", tok, s, tt2, z.Raw(), z.Err())
		}
	}
	r.CasesParallel("token-string", r.N(40000, 1500000), 0, func(c *verifrt.Case) {
		g := newVerifGen(c.Rng)
		input, how := g.Input(600)
		cfg := verifRandTokCfg(c.Rng)
		if c.Rng.IntN(2) == 0 {
			cfg.Context, cfg.NotRaw = "", 0
		}
		c.Describe(map[string]any{"input": fmt.Sprintf("%q", input), "cfg": cfg, "generator": how})
		rd := &verifReader{data: input, mode: cfg.Reader, rng: rand.New(rand.NewPCG(cfg.ChunkSeed, 39))}
		z := NewTokenizerFragment(rd, cfg.Context)
		z.AllowCDATA(cfg.AllowCDATA)
		for i := 0; i <= len(input)+2; i++ {
			tt := z.Next()
			if tt == ErrorToken {
				break
			}
			raw := bytes.Clone(z.Raw())
			tok := z.Token()
			if i < 64 && cfg.NotRaw>>uint(i)&1 == 1 {
				z.NextIsNotRawText()
			}
			if tt == TextToken {
				continue
			}
			checkToken(c, tok, raw)
			nt := needsEsc(tok.Data)
			for _, a := range tok.Attr {
				nt = nt || needsEsc(a.Val) || needsEsc(a.Key)
			}
			r.Eval(nt, "tok", tok.Type, tok.Data, tok.Attr)
			r.Event("tokens_"+strings.ToLower(tt.String()), 1)
			if len(tok.Attr) > 0 {
				r.Event("tokens_with_attributes", 1)
			}
			if c.Index == 7 && tt == StartTagToken && len(tok.Attr) > 0 {
				r.Sample(map[string]any{"part": "b", "raw": string(raw), "token_string": tok.String()})
			}
		}
	})
	// Constructed tag tokens: clean lower-case tag and attribute names, attribute values drawn
	// from the hostile string generator (CR, CRLF, NUL, quotes, ampersands, markup look-alikes).
	// Every such value is one the tokenizer can itself produce (through character references),
	// so the statement's "for every tag token" covers it; unlike the tokens above these do not
	// depend on the tokenizer under test having produced the value correctly in the first place.
	r.CasesParallel("token-string-constructed", r.N(20000, 600000), 0, func(c *verifrt.Case) {
		rng := c.Rng
		tok := Token{Type: []TokenType{StartTagToken, StartTagToken, SelfClosingTagToken, EndTagToken}[rng.IntN(4)]}
		tok.Data = []string{"a", "div", "span", "p", "b", "ul", "li", "section", "x-y", "h1", "custom-el"}[rng.IntN(11)]
		tok.DataAtom = atom.Lookup([]byte(tok.Data))
		if tok.Type != EndTagToken {
			for len(tok.Attr) == 0 {
				tok.Attr = verifC40Attrs(rng)
			}
		}
		for i := range tok.Attr {
			// a NUL never survives tokenization (raw NUL and &#0; both become U+FFFD), so no
			// token "the tokenizer saw" holds one
			tok.Attr[i].Val = strings.ReplaceAll(tok.Attr[i].Val, "\x00", "\uFFFD")
		}
		c.Describe(map[string]any{"token": fmt.Sprintf("%#v", tok)})
		checkToken(c, tok, nil)
		nt := false
		for _, a := range tok.Attr {
			nt = nt || needsEsc(a.Val)
			if strings.Contains(a.Val, "\r") {
				r.Event("constructed_attr_values_with_cr", 1)
			}
		}
		r.Eval(nt, "tokc", tok.Type, tok.Data, tok.Attr)
		r.Event("tokens_constructed", 1)
	})
	// a few tokens that only hand-written input reaches reliably
	r.Require("tokens_constructed", 10000)
	r.Require("constructed_attr_values_with_cr", 300)
	r.Cases("token-string-fixed", 1, func(c *verifrt.Case) {
		for _, in := range []string{"<!DOCTYPE html>", "<!doctype  html  >", "<!DOCTYPE>", "<!DOCTYPE a&gt;b>", "<!DOCTYPE &#32;x>", "<!DOCTYPE &#10;x>", "<!DOCTYPE x&#13;>", "<!DOCTYPE \x00>",
			"<!---->", "<!--->-->", "<!---->>", "<!-- - -- --! -->", "<!--x--!>", "<!--&gt;-->", "<!----!&gt;-->", "<!--x--!&gt;y-->", "<!---&gt;-->", "<!--!&gt;-->", "<!--x--&gt;y-->", "<!--&-->", "<!--\r-->", "<!--\x00-->", "<!-->", "<?php ?>", "</ x>", "</>",
			"<a b='&#13;'>", "<a b='&#10;\r\n'>", "<a b=\"'\" c='\"' d=&quot; e=&#39;>", "<a =b=c>", "<a \"=\">", "<a b=c/>", "<a b=c />", "<br/>", "<a/b/c>", "<p a=/>", "<A\x00B C\x00D=E\x00F>",
			"<script>", "<plaintext>", "<title x=y>", "</script x=y>", "<a b=&amp c=&ampx d=&amp= e='&copy=1'>", "<a b=>", "<a b= >", "<x:y z:w=1>", "<a<b c<d=e>", "<a b=\xff\xfe>"} {
			c.Describe(map[string]any{"input": fmt.Sprintf("%q", in)})
			z := NewTokenizer(strings.NewReader(in))
			for z.Next() != ErrorToken {
				raw := bytes.Clone(z.Raw())
				if tok := z.Token(); tok.Type != TextToken {
					checkToken(c, tok, raw)
					r.Eval(true, "tokfixed", in, tok.Data)
					r.Event("tokens_fixed_inputs", 1)
				}
			}
		}
	})

	// ---- (c) ----------------------------------------------------------------------------------
	r.CasesParallel("tree-render-parse", r.N(25000, 800000), 0, func(c *verifrt.Case) {
		budget := 4 + c.Rng.IntN(50)
		wrapper := &verifVNode{Tag: "div", Attrs: verifC40Attrs(c.Rng)}
		wrapper.Kids = verifC40Kids(c.Rng, 0, true, false, map[string]bool{}, &budget)
		c.Describe(wrapper)
		doc := &Node{Type: DocumentNode}
		htmlN := &Node{Type: ElementNode, Data: "html", DataAtom: atom.Html}
		head := &Node{Type: ElementNode, Data: "head", DataAtom: atom.Head}
		body := &Node{Type: ElementNode, Data: "body", DataAtom: atom.Body}
		doc.AppendChild(htmlN)
		htmlN.AppendChild(head)
		htmlN.AppendChild(body)
		noAtom := c.Rng.IntN(4) == 0
		if noAtom {
			r.Event("trees_built_without_DataAtom", 1)
		}
		body.AppendChild(verifC40Build(wrapper, noAtom))
		var buf bytes.Buffer
		if err := Render(&buf, doc); err != nil {
			c.Violation("render-error-on-ordinary-tree", "Render: %v", err)
			return
		}
		out := buf.String()
		doc2, err := Parse(strings.NewReader(out))
		if err != nil {
			c.Violation("parse-error-on-rendered-tree", "Parse(%q): %v", out, err)
			return
		}
		els, texts, attrs := verifVCount(wrapper)
		var h2, hd2, b2 *Node
		if h2 = doc2.FirstChild; h2 != nil && h2.Type == ElementNode && h2.Data == "html" && h2.NextSibling == nil {
			if hd2 = h2.FirstChild; hd2 != nil && hd2.Data == "head" && hd2.FirstChild == nil {
				if b2 = hd2.NextSibling; b2 != nil && (b2.Data != "body" || b2.NextSibling != nil) {
					b2 = nil
				}
			}
		}
		switch {
		case b2 == nil:
			c.Violation("rendered-document-skeleton-changed", "rendering %q does not parse to html>(head,body)", out)
		case b2.FirstChild == nil || b2.FirstChild.NextSibling != nil:
			c.Violation("rendered-body-children-changed", "body should hold exactly the wrapper div; rendering %q", out)
		default:
			m1 := verifC40Compare(wrapper, b2.FirstChild, false, "")
			if m1 != "" {
				if m2 := verifC40Compare(wrapper, b2.FirstChild, true, ""); m2 != "" {
					key := "render-parse-value-changed"
					if strings.Contains(m1, "additional child") || strings.Contains(m1, "want element") || strings.Contains(m1, "missing child") || strings.Contains(m1, "attributes changed") || strings.Contains(m1, "got Element") {
						key = "render-parse-structure-changed"
					}
					c.Violation(key, "%s; rendering %q", m1, out)
				}
			}
		}
		if n := verifCountElements(doc2); n != els+3 {
			c.Violation("render-parse-element-count", "generated %d elements (+html, head, body) but the re-parsed document has %d; rendering %q", els, n, out)
		}
		r.Event("tree_elements", int64(els))
		r.Event("tree_text_nodes", int64(texts))
		r.Event("tree_attributes", int64(attrs))
		r.Event("trees", 1)
		if strings.Contains(out, "&#13;") {
			r.Event("trees_with_cr", 1)
		}
		if strings.Contains(out, "\x00") {
			r.Event("trees_with_nul", 1)
		}
		r.EvalBytes(needsEsc(out[len("<html><head></head><body>"):]), []byte(out))
		if c.Index == 11 {
			r.Sample(map[string]any{"part": "c", "rendered": out, "elements": els, "texts": texts, "attributes": attrs})
		}
	})

	r.Require("trees", 1000)
	r.Require("tree_text_nodes", 5000)
	r.Require("tree_attributes", 5000)
	r.Require("trees_with_cr", 100)
	r.Require("trees_with_nul", 100)
	r.Require("tokens_starttag", 1000)
	r.Require("tokens_comment", 1000)
	r.Require("tokens_doctype", 300)
	r.Require("tokens_with_attributes", 1000)
	r.Require("strings_changed_by_escape", 10000)
}
