//go:build verif

package html

// Input generators shared by the html monitors (C39, C40, C41): the html5lib corpus that ships
// in testdata/ (inputs only; the expected trees are not used), a small grammar of HTML-ish
// pieces that is deliberately sloppy, byte-level mutation, and structural stressors.

import (
	"bytes"
	"math/rand/v2"
	"os"
	"path/filepath"
	"sort"
	"strings"
	"sync"
)

var (
	verifCorpusOnce sync.Once
	verifCorpus     [][]byte
)

// verifLoadCorpus returns the "#data" sections of the html5lib tree-construction files and the
// Go-specific files under testdata/ (the test's working directory is the package directory).
func verifLoadCorpus() [][]byte {
	verifCorpusOnce.Do(func() {
		var files []string
		for _, pat := range []string{"testdata/html5lib-tests/tree-construction/*.dat", "testdata/go/*.dat"} {
			m, _ := filepath.Glob(pat)
			files = append(files, m...)
		}
		sort.Strings(files)
		seen := map[string]bool{}
		for _, f := range files {
			b, err := os.ReadFile(f)
			if err != nil {
				continue
			}
			lines := bytes.SplitAfter(b, []byte("\n"))
			for i := 0; i < len(lines); i++ {
				if string(lines[i]) != "#data\n" {
					continue
				}
				var doc []byte
				for i++; i < len(lines) && !bytes.HasPrefix(lines[i], []byte("#errors")); i++ {
					doc = append(doc, lines[i]...)
				}
				doc = bytes.TrimSuffix(doc, []byte("\n"))
				if len(doc) > 0 && len(doc) <= 4096 && !seen[string(doc)] {
					seen[string(doc)] = true
					verifCorpus = append(verifCorpus, doc)
				}
			}
		}
	})
	return verifCorpus
}

var (
	verifOrdinaryTags = []string{"div", "span", "p", "a", "b", "i", "em", "strong", "ul", "ol", "li", "section", "article", "h1", "h2", "nav",
		"pre", "listing", "font", "nobr", "u", "s", "big", "small", "tt", "code", "center", "form", "button", "dl", "dt", "dd", "marquee",
		"object", "applet", "address", "blockquote", "fieldset", "details", "summary", "ruby", "rt", "rp", "rb", "rtc", "main", "menu", "label", "x-y", "unknown"}
	verifVoidTags    = []string{"br", "hr", "img", "input", "area", "base", "col", "embed", "keygen", "link", "meta", "param", "source", "track", "wbr", "image", "bgsound", "basefont", "frame"}
	verifRawTags     = []string{"script", "style", "textarea", "title", "plaintext", "xmp", "iframe", "noembed", "noframes", "noscript"}
	verifTableTags   = []string{"table", "tbody", "thead", "tfoot", "tr", "td", "th", "caption", "colgroup", "col"}
	verifSelectTags  = []string{"select", "option", "optgroup", "input", "textarea", "keygen", "hr"}
	verifForeignTags = []string{"svg", "math", "foreignObject", "foreignobject", "desc", "title", "mi", "mo", "mn", "ms", "mtext", "annotation-xml", "circle", "path", "g", "mglyph", "malignmark", "altGlyph", "clipPath", "font", "img", "br", "p", "table", "b"}
	verifMiscTags    = []string{"html", "head", "body", "template", "frameset", "frame", "noscript", "isindex", "dialog", "search", "menuitem", "image"}
	verifFormatTags  = []string{"a", "b", "big", "code", "em", "font", "i", "nobr", "s", "small", "strike", "strong", "tt", "u"}
	verifAttrNames   = []string{"id", "class", "href", "style", "title", "x", "xlink:href", "xml:lang", "xmlns", "xmlns:xlink", "encoding", "definitionurl", "color", "face", "size", "type", "name", "value", "action", "prompt", "A", "ID", "data-x", "on\x00x", "a=b", "\"", "'", "<", "λ"}
	verifAttrVals    = []string{"", "x", "text/html", "application/xhtml+xml", "TEXT/HTML", "hidden", "HIDDEN", "a b", "a>b", "a<b", "a&amp;b", "&lt;", "&#x22;", "&quot", "&copy=1", "&notit;", "'", "\"", "`", "=", "/", "a\rb", "a\r\nb", "\x00", "é", "\xff", "</script>", "-->", "http://www.w3.org/1999/xlink"}
	verifTexts       = []string{"x", "hello world", " ", "\n", "\r", "\r\n", "\t", "\f", "\x00", "a\x00b", "&", "&amp;", "&lt;", "&gt", "&#", "&#x", "&#x41;", "&#65", "&#0;", "&#xD800;", "&#1114112;", "&#x80;", "&#13;",
		"&notit;", "&notin;", "&amp;amp;", "&AElig", "&NotEqualTilde;", "&nosuch;", "<", ">", "<<", "< ", "<>", "</", "</>", "<!", "<?", "<!-", "<!--", "-->", "--!>", "]]>", "<![CDATA[", "λ", "€", "𝄞", "\xff", "\xc3", "\xe2\x82", "\xed\xa0\x80", "\ufeff", "\ufffd", "a<b", "1<2>3", "'", "\"", "`", "=", "/"}
	verifComments = []string{"<!---->", "<!-->", "<!--->", "<!-- x -->", "<!--x--!>", "<!-- -- -->", "<!--<!---->", "<!-- <!-- -->", "<!--x-", "<!--x--", "<!--x--!", "<!--", "<!-", "<!x>", "<!>", "<?xml version=\"1.0\"?>", "<?>", "<?", "</ x>", "</>", "</\x00>", "<!--a&b>c-->", "<!---!>-->", "<!--->-->", "<!--!>-->", "<!--\x00-->", "<!--\r\n-->", "<!----!&gt;-->", "<!---&gt;-->", "<!--&gt;-->", "<!--x--!&gt;y-->", "<!--!&gt;-->", "<!-- --&gt; -->", "<!--&#13;-->", "<!--a&amp;b-->"}
	verifDoctypes = []string{"<!DOCTYPE html>", "<!doctype html>", "<!DOCTYPE>", "<!DOCTYPE", "<!DOCTYP", "<!DOCTYPE ", "<!DOCTYPE html PUBLIC \"-//W3C//DTD HTML 4.01//EN\" \"http://www.w3.org/TR/html4/strict.dtd\">",
		"<!DOCTYPE html SYSTEM 'about:legacy-compat'>", "<!DOCTYPE html PUBLIC \"a'b\" 'c\"d'>", "<!DOCTYPE html PUBLIC '-//W3C//DTD XHTML 1.0 Frameset//EN'>", "<!DOCTYPE x y z>", "<!DOCTYPE\x00html>", "<!DOCTYPE html PUBLIC \"a>b\">", "<!DOCTYPE \r\nhtml\r>", "<!DOCTYPE html PUBLIC \"-//IETF//DTD HTML 2.0//EN\">", "<!DOCTYPE a&amp;b>"}
	verifCDATA   = []string{"<![CDATA[x]]>", "<![CDATA[]]>", "<![CDATA[ ]] ]]>", "<![CDATA[<b>]]>", "<![CDATA[", "<![CDATA", "<![CDATA[x]]", "<![cdata[x]]>", "<![CDATA[\x00]]>", "<![CDATA[a]]]>", "<![CDATA[&amp;]]>"}
	verifScripts = []string{"x", "<!--", "<!-- <script> </script> -->", "<!--<script>", "<!--<script></script>", "<!-- </script", "</scrip", "</script ", "</SCRIPT>", "</script/", "<!--<script>-->", "<!---->", "<!--->", "<!--<SCRIPT\t>x</script\n>-->", "<!--<scriptx>", "<\x00/script>", "</script\x00", "<!--<script></script><script></script>-->", "--><", "<!-", "<"}
)

type verifGen struct {
	rng    *rand.Rand
	corpus [][]byte
}

func newVerifGen(rng *rand.Rand) *verifGen { return &verifGen{rng: rng, corpus: verifLoadCorpus()} }

func (g *verifGen) pick(l []string) string { return l[g.rng.IntN(len(l))] }

func (g *verifGen) anyTag() string {
	switch g.rng.IntN(12) {
	case 0, 1, 2, 3:
		return g.pick(verifOrdinaryTags)
	case 4:
		return g.pick(verifVoidTags)
	case 5:
		return g.pick(verifRawTags)
	case 6, 7:
		return g.pick(verifTableTags)
	case 8:
		return g.pick(verifSelectTags)
	case 9:
		return g.pick(verifForeignTags)
	case 10:
		return g.pick(verifMiscTags)
	default:
		return g.pick(verifFormatTags)
	}
}

func (g *verifGen) caseMix(s string) string {
	switch g.rng.IntN(6) {
	case 0:
		return strings.ToUpper(s)
	case 1:
		b := []byte(s)
		for i := range b {
			if g.rng.IntN(2) == 0 && b[i] >= 'a' && b[i] <= 'z' {
				b[i] -= 32
			}
		}
		return string(b)
	}
	return s
}

func (g *verifGen) ws() string {
	return []string{" ", " ", " ", "  ", "\n", "\t", "\r", "\f", "\r\n", ""}[g.rng.IntN(10)]
}

func (g *verifGen) attrs(sb *bytes.Buffer) {
	n := 0
	switch g.rng.IntN(6) {
	case 0, 1, 2:
	case 3, 4:
		n = 1
	default:
		n = 1 + g.rng.IntN(5)
	}
	var prev string
	for i := 0; i < n; i++ {
		sb.WriteString(g.ws())
		if i == 0 {
			sb.WriteByte(' ')
		}
		name := g.caseMix(g.pick(verifAttrNames))
		if prev != "" && g.rng.IntN(5) == 0 {
			name = prev // duplicate attribute
		}
		prev = name
		sb.WriteString(name)
		v := g.pick(verifAttrVals)
		switch g.rng.IntN(8) {
		case 0: // no value
		case 1:
			sb.WriteString("=" + strings.NewReplacer(" ", "", ">", "", "\r", "", "\n", "").Replace(v))
		case 2:
			sb.WriteString("='" + strings.ReplaceAll(v, "'", "") + "'")
		case 3:
			sb.WriteString(g.ws() + "=" + g.ws() + "\"" + strings.ReplaceAll(v, "\"", "") + "\"")
		case 4:
			sb.WriteString("=\"" + v) // possibly unterminated / early-terminated quote
		case 5:
			sb.WriteString("=" + v)
		default:
			sb.WriteString("=\"" + strings.ReplaceAll(v, "\"", "&#34;") + "\"")
		}
	}
	switch g.rng.IntN(10) {
	case 0:
		sb.WriteString("/")
	case 1:
		sb.WriteString(" /")
	case 2:
		sb.WriteString(g.ws())
	}
}

func (g *verifGen) startTag(sb *bytes.Buffer, name string) {
	sb.WriteByte('<')
	sb.WriteString(g.caseMix(name))
	g.attrs(sb)
	sb.WriteByte('>')
}

func (g *verifGen) endTag(sb *bytes.Buffer, name string) {
	sb.WriteString("</")
	sb.WriteString(g.caseMix(name))
	switch g.rng.IntN(12) {
	case 0:
		sb.WriteString(" ")
	case 1:
		sb.WriteString(" x=y")
	case 2:
		sb.WriteString("/")
	}
	sb.WriteByte('>')
}

// piece appends one construct. open is a stack of names the generator believes are open.
func (g *verifGen) piece(sb *bytes.Buffer, open *[]string) {
	switch g.rng.IntN(20) {
	case 0, 1, 2, 3, 4:
		n := g.anyTag()
		g.startTag(sb, n)
		*open = append(*open, n)
		for _, r := range verifRawTags {
			if n == r && g.rng.IntN(4) != 0 { // raw text element: contents then usually a close tag
				if n == "script" {
					for k := g.rng.IntN(4); k > 0; k-- {
						sb.WriteString(g.pick(verifScripts))
					}
				} else {
					for k := g.rng.IntN(3); k > 0; k-- {
						sb.WriteString(g.pick(verifTexts))
					}
					if g.rng.IntN(3) == 0 {
						sb.WriteString("</" + n[:g.rng.IntN(len(n))])
					}
				}
				if g.rng.IntN(5) != 0 && n != "plaintext" {
					g.endTag(sb, n)
					*open = (*open)[:len(*open)-1]
				}
			}
		}
	case 5, 6, 7:
		if len(*open) > 0 && g.rng.IntN(4) != 0 {
			// close the innermost, or a mis-nested one
			k := len(*open) - 1
			if g.rng.IntN(3) == 0 {
				k = g.rng.IntN(len(*open))
			}
			g.endTag(sb, (*open)[k])
			*open = append((*open)[:k], (*open)[k+1:]...)
		} else {
			g.endTag(sb, g.anyTag())
		}
	case 8, 9, 10, 11, 12:
		for k := 1 + g.rng.IntN(3); k > 0; k-- {
			sb.WriteString(g.pick(verifTexts))
		}
	case 13:
		sb.WriteString(g.pick(verifComments))
	case 14:
		sb.WriteString(g.pick(verifDoctypes))
	case 15:
		sb.WriteString(g.pick(verifCDATA))
	case 16:
		sb.WriteString("<!--")
		for k := g.rng.IntN(4); k > 0; k-- {
			sb.WriteString([]string{"-", "--", "!", ">", "->", "-->x", "--!", "<!--", "x", "&", "\x00", "\r", "&gt;", "!&gt;", "--&gt;", "--!&gt;"}[g.rng.IntN(16)])
		}
		if g.rng.IntN(4) != 0 {
			sb.WriteString([]string{"-->", "--!>", "->", ">"}[g.rng.IntN(4)])
		}
	case 17:
		n := g.pick(verifVoidTags)
		sb.WriteString("<" + n)
		g.attrs(sb)
		sb.WriteString([]string{">", "/>", " />"}[g.rng.IntN(3)])
	case 18: // foreign island
		root := []string{"svg", "math"}[g.rng.IntN(2)]
		g.startTag(sb, root)
		for k := g.rng.IntN(5); k > 0; k-- {
			n := g.pick(verifForeignTags)
			g.startTag(sb, n)
			if g.rng.IntN(2) == 0 {
				sb.WriteString(g.pick(verifTexts))
			}
			if g.rng.IntN(3) == 0 {
				sb.WriteString(g.pick(verifCDATA))
			}
			if g.rng.IntN(2) == 0 {
				g.endTag(sb, n)
			}
		}
		if g.rng.IntN(3) != 0 {
			g.endTag(sb, root)
		}
	default:
		b := make([]byte, 1+g.rng.IntN(6))
		for i := range b {
			b[i] = verifHot[g.rng.IntN(len(verifHot))]
		}
		sb.Write(b)
	}
}

const verifHot = "<<<<>>>//!!??--==\"\"''&&;# \n\r\t\f\x00abcdefSTYLEscriptx[]\xff\xc3\xa9"

// Grammar builds a document of n pieces.
func (g *verifGen) Grammar(n int) []byte {
	var sb bytes.Buffer
	var open []string
	switch g.rng.IntN(6) {
	case 0:
		sb.WriteString(g.pick(verifDoctypes))
	case 1:
		sb.WriteString("<!DOCTYPE html><html><head></head><body>")
	}
	for i := 0; i < n; i++ {
		g.piece(&sb, &open)
	}
	if g.rng.IntN(2) == 0 {
		for i := len(open) - 1; i >= 0; i-- {
			sb.WriteString("</" + open[i] + ">")
		}
	}
	return sb.Bytes()
}

// Stress builds the structures that exercise the adoption agency, foster parenting, templates,
// select and the foreign-content integration points, nested depth levels deep.
func (g *verifGen) Stress(depth int) []byte {
	var sb bytes.Buffer
	pools := [][]string{verifFormatTags, verifTableTags, {"template", "select", "option", "optgroup", "table", "tr", "td", "div", "p"},
		{"svg", "math", "foreignObject", "desc", "title", "mi", "mtext", "annotation-xml", "p", "table", "b", "font"},
		{"a", "table", "a", "b", "p", "div", "nobr", "button", "form", "li", "dd", "dt", "h1", "ruby", "rt"},
		{"div"}, {"b", "p"}, {"a"}, {"table", "tr", "td", "select"}, {"template"}, {"frameset", "html", "body", "head"}, {"font", "svg"}}
	pool := pools[g.rng.IntN(len(pools))]
	if g.rng.IntN(4) == 0 {
		pool = append(append([]string{}, pool...), pools[g.rng.IntN(len(pools))]...)
	}
	var open []string
	for i := 0; i < depth; i++ {
		n := pool[g.rng.IntN(len(pool))]
		sb.WriteString("<" + n)
		if n == "annotation-xml" && g.rng.IntN(2) == 0 {
			sb.WriteString(" encoding=\"text/html\"")
		} else if n == "font" && g.rng.IntN(2) == 0 {
			sb.WriteString(" color=red")
		} else if g.rng.IntN(16) == 0 {
			sb.WriteString(" id=x")
		}
		sb.WriteString(">")
		open = append(open, n)
		switch g.rng.IntN(10) {
		case 0:
			sb.WriteString("x")
		case 1:
			sb.WriteString(" ")
		case 2:
			if len(open) > 1 { // mis-nested close
				k := g.rng.IntN(len(open))
				sb.WriteString("</" + open[k] + ">")
				open = append(open[:k], open[k+1:]...)
			}
		}
	}
	// close in a scrambled order
	switch g.rng.IntN(4) {
	case 0: // not at all
	case 1: // in opening order (maximally mis-nested)
		for _, n := range open {
			sb.WriteString("</" + n + ">")
		}
	case 2:
		for i := len(open) - 1; i >= 0; i-- {
			sb.WriteString("</" + open[i] + ">")
		}
	default:
		for len(open) > 0 {
			k := g.rng.IntN(len(open))
			sb.WriteString("</" + open[k] + ">x")
			open = append(open[:k], open[k+1:]...)
		}
	}
	return sb.Bytes()
}

func (g *verifGen) randomBytes(n int) []byte {
	b := make([]byte, n)
	switch g.rng.IntN(3) {
	case 0:
		for i := range b {
			b[i] = byte(g.rng.Uint32())
		}
	case 1:
		for i := range b {
			b[i] = verifHot[g.rng.IntN(len(verifHot))]
		}
	default: // hot alphabet with a heavy '<'-letter bias
		for i := 0; i < len(b); i++ {
			if g.rng.IntN(5) == 0 && i+2 < len(b) {
				b[i] = '<'
				i++
				b[i] = "abpst/!?"[g.rng.IntN(8)]
				continue
			}
			b[i] = verifHot[g.rng.IntN(len(verifHot))]
		}
	}
	return b
}

// Mutate applies a few byte-level edits.
func (g *verifGen) Mutate(in []byte) []byte {
	b := append([]byte{}, in...)
	for k := 1 + g.rng.IntN(4); k > 0; k-- {
		if len(b) == 0 {
			b = append(b, '<')
			continue
		}
		p := g.rng.IntN(len(b))
		switch g.rng.IntN(7) {
		case 0:
			b = append(b[:p], b[p+1:]...)
		case 1:
			b[p] = verifHot[g.rng.IntN(len(verifHot))]
		case 2:
			ins := g.pick([]string{"<", ">", "\"", "'", "</", "<!--", "-->", "\x00", "\r", "&", "<table>", "</p>", "<svg>", "<template>", "</template>", "<select>", "<a>", "</a>"})
			b = append(b[:p], append([]byte(ins), b[p:]...)...)
		case 3:
			b = b[:p] // truncate
		case 4: // duplicate a span
			q := p + g.rng.IntN(len(b)-p)
			b = append(b[:q], append(append([]byte{}, b[p:q]...), b[q:]...)...)
		case 5:
			b[p] ^= byte(1 << g.rng.IntN(8))
		default: // splice with another corpus document
			if len(g.corpus) > 0 {
				o := g.corpus[g.rng.IntN(len(g.corpus))]
				b = append(b[:p], o[g.rng.IntN(len(o)+1):]...)
			}
		}
	}
	return b
}

// Input returns one generated input of at most maxLen bytes and the name of the strategy.
func (g *verifGen) Input(maxLen int) ([]byte, string) {
	var b []byte
	var how string
	switch k := g.rng.IntN(16); {
	case k < 2:
		b, how = g.randomBytes(g.rng.IntN(1+min(maxLen, 200))), "random-bytes"
	case k < 7:
		b, how = g.Grammar(1+g.rng.IntN(24)), "grammar"
	case k < 9:
		b, how = g.Mutate(g.Grammar(1+g.rng.IntN(16))), "grammar-mutated"
	case k < 11 && len(g.corpus) > 0:
		b, how = g.corpus[g.rng.IntN(len(g.corpus))], "html5lib"
	case k < 14 && len(g.corpus) > 0:
		b, how = g.Mutate(g.corpus[g.rng.IntN(len(g.corpus))]), "html5lib-mutated"
	case k < 15:
		b, how = g.Stress(1+g.rng.IntN(40)), "stress"
	default:
		b, how = g.Grammar(1+g.rng.IntN(10)), "grammar-truncated"
		if len(b) > 0 {
			b = b[:g.rng.IntN(len(b)+1)]
		}
	}
	if len(b) > maxLen {
		b = b[:maxLen]
	}
	return b, how
}
