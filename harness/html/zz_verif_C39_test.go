//go:build verif

package html

import (
	"bytes"
	"fmt"
	"io"
	"math/rand/v2"
	"testing"
	"unicode/utf8"

	"golang.org/x/net/internal/verifrt"
)

// ---- independent reference: where does a tag end? -----------------------------------------
//
// verifRefTagEnd runs the WHATWG tokenizer's tag states (13.2.5.8 tag name … 13.2.5.40
// self-closing start tag) over s, which must start with "<" letter or "</" letter, and
// returns the index just past the '>' that emits the tag, or -1 if the input ends inside
// the tag (the "eof-in-tag" parse error, where HTML discards the tag). Written from the
// specification's state descriptions; CR counts as white space because the input stream
// preprocessing turns it into LF.
func verifRefTagEnd(s []byte) int {
	const (
		tagName = iota
		beforeAttrName
		attrName
		afterAttrName
		beforeAttrValue
		valueDQ
		valueSQ
		valueUnquoted
		afterValueQuoted
		selfClosing
	)
	isWS := func(c byte) bool { return c == ' ' || c == '\n' || c == '\t' || c == '\f' || c == '\r' }
	i := 1
	if len(s) > 1 && s[1] == '/' {
		i = 2
	}
	state := tagName
	for i < len(s) {
		c := s[i]
		switch state {
		case tagName:
			switch {
			case isWS(c):
				state = beforeAttrName
			case c == '/':
				state = selfClosing
			case c == '>':
				return i + 1
			}
			i++
		case beforeAttrName:
			switch {
			case isWS(c):
				i++
			case c == '/' || c == '>':
				state = afterAttrName // reconsume
			case c == '=':
				state = attrName
				i++
			default:
				state = attrName // reconsume
			}
		case attrName:
			switch {
			case isWS(c) || c == '/' || c == '>':
				state = afterAttrName // reconsume
			case c == '=':
				state = beforeAttrValue
				i++
			default:
				i++
			}
		case afterAttrName:
			switch {
			case isWS(c):
				i++
			case c == '/':
				state = selfClosing
				i++
			case c == '=':
				state = beforeAttrValue
				i++
			case c == '>':
				return i + 1
			default:
				state = attrName // reconsume, new attribute
			}
		case beforeAttrValue:
			switch {
			case isWS(c):
				i++
			case c == '"':
				state = valueDQ
				i++
			case c == '\'':
				state = valueSQ
				i++
			case c == '>':
				return i + 1
			default:
				state = valueUnquoted // reconsume
			}
		case valueDQ:
			if c == '"' {
				state = afterValueQuoted
			}
			i++
		case valueSQ:
			if c == '\'' {
				state = afterValueQuoted
			}
			i++
		case valueUnquoted:
			switch {
			case isWS(c):
				state = beforeAttrName
			case c == '>':
				return i + 1
			}
			i++
		case afterValueQuoted:
			switch {
			case isWS(c):
				state = beforeAttrName
				i++
			case c == '/':
				state = selfClosing
				i++
			case c == '>':
				return i + 1
			default:
				state = beforeAttrName // reconsume
			}
		case selfClosing:
			if c == '>' {
				return i + 1
			}
			state = beforeAttrName // reconsume
		}
	}
	return -1
}

func verifIsLetter(c byte) bool { return 'a' <= c && c <= 'z' || 'A' <= c && c <= 'Z' }

// verifStartsTag: "<" letter or "</" letter.
func verifStartsTag(s []byte) bool {
	if len(s) >= 2 && s[0] == '<' && verifIsLetter(s[1]) {
		return true
	}
	return len(s) >= 3 && s[0] == '<' && s[1] == '/' && verifIsLetter(s[2])
}

// verifMarkupProbeOvershoot recognises one specific failure shape, so that it gets a key of its
// own and any other way of exceeding the limit keeps the generic keys: the limit n was reached
// while the tokenizer was still matching "<!DOCTYPE" (any case) or "<![CDATA[" byte by byte
// (so 5 <= n <= 9 and the n-1 raw bytes before the one that reached the limit are a prefix of
// one of the two; that n-th byte itself is arbitrary, it may be the mismatch), and the token
// nevertheless carries one or two further bytes. Real comments ("<!--") never match.
func verifMarkupProbeOvershoot(raw []byte, n int) bool {
	if n < 5 || n > 9 || len(raw) <= n || len(raw) > n+2 {
		return false
	}
	head := raw[:n-1]
	return bytes.EqualFold(head, []byte("<!DOCTYPE")[:n-1]) || bytes.Equal(head, []byte("<![CDATA[")[:n-1])
}

type verifTokRun struct {
	raws    [][]byte
	types   []TokenType
	err     error
	leftRaw []byte // Raw() of the final ErrorToken
	maxCap  int
	runaway bool
	rawText int
}

// verifTokenize runs one Tokenizer over input.
func verifTokenize(input []byte, cfg verifTokCfg, maxBuf int) verifTokRun {
	rd := &verifReader{data: input, mode: cfg.Reader, rng: rand.New(rand.NewPCG(cfg.ChunkSeed, 39))}
	var z *Tokenizer
	if cfg.Context == "" {
		z = NewTokenizer(rd)
	} else {
		z = NewTokenizerFragment(rd, cfg.Context)
	}
	if maxBuf > 0 {
		z.SetMaxBuf(maxBuf)
	}
	allow := cfg.AllowCDATA
	z.AllowCDATA(allow)
	var run verifTokRun
	for i := 0; ; i++ {
		tt := z.Next()
		run.maxCap = max(run.maxCap, cap(z.buf))
		if tt == ErrorToken {
			run.err = z.Err()
			run.leftRaw = bytes.Clone(z.Raw())
			break
		}
		if i > len(input)+2 {
			run.runaway = true
			break
		}
		run.raws = append(run.raws, bytes.Clone(z.Raw()))
		run.types = append(run.types, tt)
		if tt == TextToken && z.textIsRaw {
			run.rawText++
		}
		// exercise every accessor: none may panic, whatever the token
		switch i % 3 {
		case 0:
			_ = z.Token()
		case 1:
			switch tt {
			case TextToken, CommentToken, DoctypeToken:
				_ = z.Text()
			default:
				_, more := z.TagName()
				for more {
					_, _, more = z.TagAttr()
				}
			}
			_ = z.Token()
		default:
			_ = z.Buffered()
		}
		if i < 64 {
			if cfg.CDATAFlip>>uint(i)&1 == 1 {
				allow = !allow
				z.AllowCDATA(allow)
			}
			if cfg.NotRaw>>uint(i)&1 == 1 {
				z.NextIsNotRawText()
			}
		}
	}
	// calls after the end must not panic either
	z.Next()
	_ = z.Token()
	_ = z.Raw()
	z.Next()
	return run
}

func TestVerif_C39(t *testing.T) {
	r := verifrt.Start(t, "C39")
	defer r.Finish()
	r.SetRule("inputs: html5lib tree-construction inputs (as shipped in testdata/) verbatim and byte-mutated, grammar-generated HTML (raw-text/RCDATA elements, script escapes, comments, doctypes, CDATA, foreign content, all attribute quoting styles, duplicate attributes), random bytes, every prefix of selected documents, documents with one 5-40 KB token; " +
		"each under a PRNG tokenizer configuration (fragment context, AllowCDATA incl. mid-stream flips, NextIsNotRawText calls) and reader (whole, 1 byte, random chunks, EOF returned with data, (0,nil) hiccups). " +
		"non-trivial = at least two tokens, or the unterminated-tag exception was used; distinct by (input, configuration)")
	r.Assume("'unterminated tag at the very end' is decided by a reference scanner of the WHATWG tag states written in the harness (verifRefTagEnd): the omitted suffix must start with '<' letter or '</' letter, contain no tag-closing '>' per that scanner, and the tokenizer must have ended with io.EOF")
	r.Assume("SetMaxBuf(n): 'buffering' is read as the bytes of the token being assembled (Raw) and the capacity of the tokenizer's buffer (white-box z.buf), which may not grow beyond max(4096, 4n+16)")

	corpus := verifLoadCorpus()
	r.SetExtra("html5lib_inputs_loaded", len(corpus))
	if len(corpus) == 0 {
		r.Note("testdata corpus not found; running on generated inputs only")
	}
	ttName := map[TokenType]string{TextToken: "tokens_text", StartTagToken: "tokens_start_tag", EndTagToken: "tokens_end_tag", SelfClosingTagToken: "tokens_self_closing", CommentToken: "tokens_comment", DoctypeToken: "tokens_doctype"}

	// oracle for one (input, cfg)
	check := func(c *verifrt.Case, input []byte, cfg verifTokCfg, how string, maxBuf int, describeInput bool) {
		if describeInput {
			c.Describe(map[string]any{"input": fmt.Sprintf("%q", input), "cfg": cfg, "generator": how, "max_buf": maxBuf})
		}
		run := verifTokenize(input, cfg, 0)
		concat := bytes.Join(run.raws, nil)
		omitted := false
		if run.runaway {
			c.Violation("next-never-returns-error-token", "more than len(input)+2 = %d tokens from %q", len(input)+2, input)
		}
		if !bytes.HasPrefix(input, concat) {
			// locate the first wrong token
			off := 0
			for i, raw := range run.raws {
				if !bytes.HasPrefix(input[min(off, len(input)):], raw) {
					c.Violation("raw-concat-not-input", "token %d (%v) Raw()=%q but input at offset %d is %q (input %q)", i, run.types[i], raw, off, verifClip(input[min(off, len(input)):], 40), verifClip(input, 300))
					break
				}
				off += len(raw)
			}
		} else if rest := input[len(concat):]; len(rest) > 0 {
			switch {
			case run.runaway:
			case run.err != io.EOF:
				c.Violation("bytes-lost-and-error-not-eof", "Err()=%v, %d trailing bytes not returned: %q", run.err, len(rest), verifClip(rest, 80))
			case !verifStartsTag(rest):
				c.Violation("trailing-bytes-lost-not-a-tag", "%d trailing bytes not returned and they do not start a tag: %q (input %q)", len(rest), verifClip(rest, 80), verifClip(input, 300))
			case verifRefTagEnd(rest) >= 0:
				c.Violation("terminated-tag-dropped", "trailing bytes %q not returned although the tag is terminated at +%d (input %q)", verifClip(rest, 80), verifRefTagEnd(rest), verifClip(input, 300))
			default:
				omitted = true
				r.Event("exception_used_unterminated_tag_omitted", 1)
				r.Event("exception_omitted_bytes", int64(len(rest)))
				if rest[1] == '/' {
					r.Event("exception_unterminated_end_tag", 1)
				}
			}
		}
		if !run.runaway && run.err != io.EOF {
			c.Violation("ends-without-eof", "tokenization of a finite input ended with Err()=%v", run.err)
		}
		for _, tt := range run.types {
			r.Event(ttName[tt], 1)
		}
		r.Event("raw_text_tokens", int64(run.rawText))
		r.Event(fmt.Sprintf("reader_mode_%d", cfg.Reader), 1)
		if !utf8.Valid(input) {
			r.Event("inputs_invalid_utf8", 1)
		}
		if bytes.IndexByte(input, 0) >= 0 {
			r.Event("inputs_with_nul", 1)
		}
		if cfg.Context != "" {
			r.Event("fragment_context_runs", 1)
		}
		h := verifrtHash(input, cfg)
		r.EvalHash(len(run.raws) >= 2 || omitted, h)

		if maxBuf <= 0 {
			return
		}
		// ---- SetMaxBuf ----
		lim := verifTokenize(input, cfg, maxBuf)
		r.Event("maxbuf_runs", 1)
		lcat := bytes.Join(lim.raws, nil)
		if lim.runaway {
			c.Violation("maxbuf-next-never-returns-error-token", "max_buf %d", maxBuf)
			return
		}
		for i, raw := range lim.raws {
			if len(raw) > maxBuf {
				key := "maxbuf-raw-exceeds-limit"
				if lim.types[i] == CommentToken && i == len(lim.raws)-1 && verifMarkupProbeOvershoot(raw, maxBuf) {
					// "<!DOCTYPE"/"<![CDATA[" probing that keeps reading after the limit was hit
					key = "maxbuf-markup-declaration-overshoots-limit"
				}
				c.Violation(key, "SetMaxBuf(%d): token %d (%v) has %d raw bytes: %q; Err() at the end = %v", maxBuf, i, lim.types[i], len(raw), verifClip(raw, 60), lim.err)
				break
			}
		}
		if len(lim.leftRaw) > maxBuf+2 {
			// the error token's own bytes: same bound, with the two bytes of look-ahead slack the
			// implementation needs to classify "<x"
			c.Violation("maxbuf-error-token-raw-exceeds-limit", "SetMaxBuf(%d): the final ErrorToken holds %d raw bytes", maxBuf, len(lim.leftRaw))
		}
		if !bytes.HasPrefix(input, lcat) {
			c.Violation("maxbuf-raw-concat-not-prefix", "SetMaxBuf(%d): concatenated Raw() %q is not a prefix of the input %q", maxBuf, verifClip(lcat, 200), verifClip(input, 200))
		}
		if lim.err != io.EOF && lim.err != ErrBufferExceeded {
			c.Violation("maxbuf-unexpected-error", "SetMaxBuf(%d): Err()=%v", maxBuf, lim.err)
		}
		if bound := max(4096, 4*maxBuf+16); lim.maxCap > bound {
			c.Violation("maxbuf-buffer-grows-past-limit", "SetMaxBuf(%d): cap(z.buf) reached %d (> %d)", maxBuf, lim.maxCap, bound)
		}
		longest := len(input) - len(concat) // the discarded unterminated tag counts as a token being assembled
		for _, raw := range run.raws {
			longest = max(longest, len(raw))
		}
		switch {
		case longest > maxBuf:
			// (a token of exactly maxBuf bytes may be returned whole: nothing beyond the limit was buffered)
			r.Event("maxbuf_limit_had_to_trigger", 1)
			if last := len(lim.raws) - 1; lim.err != ErrBufferExceeded && last >= 0 && lim.types[last] == CommentToken &&
				verifMarkupProbeOvershoot(lim.raws[last], maxBuf) {
				c.Violation("maxbuf-markup-declaration-eof-masks-limit", "SetMaxBuf(%d): last token %q has %d raw bytes and the run ended with Err()=%v instead of ErrBufferExceeded", maxBuf, verifClip(lim.raws[last], 60), len(lim.raws[last]), lim.err)
			} else if lim.err != ErrBufferExceeded {
				c.Violation("maxbuf-not-enforced", "SetMaxBuf(%d): a token of %d raw bytes exists, yet tokenization ended with Err()=%v after %d bytes", maxBuf, longest, lim.err, len(lcat))
			}
		case longest+16 < maxBuf:
			r.Event("maxbuf_limit_not_reached", 1)
			if lim.err != io.EOF || !bytes.Equal(lcat, concat) || len(lim.raws) != len(run.raws) {
				c.Violation("maxbuf-spurious-error", "SetMaxBuf(%d): longest token has %d raw bytes, yet Err()=%v after %d of %d bytes", maxBuf, longest, lim.err, len(lcat), len(concat))
			}
		default:
			r.Event("maxbuf_limit_borderline_either_ok", 1)
		}
		if lim.err == ErrBufferExceeded {
			r.Event("maxbuf_err_buffer_exceeded_seen", 1)
		}
	}

	// 1. every prefix of selected documents (EOF at every offset)
	fixed := []string{
		`<a href="x>y" b='c' d=e f>text</a>`,
		`<script><!--<script>x</script>--></script><style>a</style>`,
		`<!DOCTYPE html PUBLIC "a" 'b'><!--c--!><![CDATA[d]]><?e?></ f>`,
		`<title>&amp;</titl</title><textarea><b></textarea ><xmp></XMP/>`,
		`<p/ a="1"/><br/><a/b/c=d/><x =y z= "1" ''= ">">`,
		"<svg><![CDATA[a]]b]]></svg><plaintext></plaintext>\x00\xff",
		`</a b="c>d" e><//><</><a</b>`,
	}
	nPrefixDocs := r.N(60, 600)
	r.CasesParallel("eof-every-offset", nPrefixDocs, 0, func(c *verifrt.Case) {
		g := newVerifGen(c.Rng)
		var doc []byte
		how := "fixed"
		if c.Index < len(fixed) {
			doc = []byte(fixed[c.Index])
		} else {
			doc, how = g.Input(240)
		}
		cfg := verifRandTokCfg(c.Rng)
		if c.Index < len(fixed) {
			cfg.Context, cfg.NotRaw = "", 0
			cfg.AllowCDATA = c.Index%2 == 1
		}
		for cut := 0; cut <= len(doc); cut++ {
			cfg.Reader = (c.Index + cut) % 5
			mb := 0
			if cut%4 == 0 {
				mb = 1 + c.Rng.IntN(40)
			}
			c.Describe(map[string]any{"doc": fmt.Sprintf("%q", doc), "cut": cut, "cfg": cfg, "generator": how, "max_buf": mb})
			check(c, doc[:cut], cfg, how, mb, false)
			r.Event("prefix_inputs", 1)
		}
		if c.Index == 0 {
			r.Sample(map[string]any{"stream": "eof-every-offset", "doc": string(doc), "prefixes": len(doc) + 1})
		}
	})

	// 1b. fixed SetMaxBuf probes around "<!DOCTYPE" / "<![CDATA[" (read-ahead that backs up)
	type mbProbe struct {
		in     string
		n      int
		cdata  bool
		reader int
	}
	probes := []mbProbe{{"<!DOCTYP", 8, false, 1}, {"<!DOCTYPx", 8, true, 1}, {"<!DOCTYPxy", 8, true, 1}, {"<!doctype html>", 6, false, 0}, {"<!doctype html>", 6, true, 0},
		{"<!DOCTYPE html>", 9, false, 2}, {"<!DOCTYPE html>", 64, false, 2}, {"<![CDATA[x]]>", 5, true, 0}, {"<![CDATA[x]]>", 5, false, 1}, {"<![CDA", 6, true, 1}, {"<![CDAT", 6, true, 1},
		{"a<!DOCTYPE html>", 4, false, 0}, {"<!--x-->", 4, false, 1}, {"<!--x-->", 8, false, 1}, {"<!--x-->", 9, false, 1}, {"<title>abc</title>", 8, false, 1}, {"<a b=c>", 7, false, 1}, {"<a b=c>", 6, false, 1}, {"</a b=c>", 8, false, 1}}
	r.Cases("maxbuf-probes", len(probes), func(c *verifrt.Case) {
		p := probes[c.Index]
		check(c, []byte(p.in), verifTokCfg{AllowCDATA: p.cdata, Reader: p.reader, ChunkSeed: 1}, "maxbuf-probe", p.n, true)
		r.Event("maxbuf_probe_inputs", 1)
	})

	// 2. generated inputs
	r.CasesParallel("generated", r.N(60000, 2500000), 0, func(c *verifrt.Case) {
		g := newVerifGen(c.Rng)
		input, how := g.Input(700)
		cfg := verifRandTokCfg(c.Rng)
		mb := 0
		if c.Rng.IntN(2) == 0 {
			mb = []int{1, 2, 3, 4, 5, 7, 8, 12, 16, 24, 32, 50, 64, 100, 200, 256, 700, 1000}[c.Rng.IntN(18)]
		}
		check(c, input, cfg, how, mb, true)
		r.Event("gen_"+how, 1)
		if c.Index < 3 {
			run := verifTokenize(input, cfg, 0)
			r.Sample(map[string]any{"stream": "generated", "input": fmt.Sprintf("%q", verifClip(input, 160)), "generator": how, "cfg": cfg, "tokens": len(run.raws), "returned_bytes": len(bytes.Join(run.raws, nil)), "input_bytes": len(input)})
		}
	})

	// 3. one very large token, with and without a limit
	r.CasesParallel("big-token", r.N(200, 4000), 0, func(c *verifrt.Case) {
		g := newVerifGen(c.Rng)
		size := 5000 + c.Rng.IntN(35000)
		fill := func(alpha string) []byte {
			b := make([]byte, size)
			for i := range b {
				b[i] = alpha[c.Rng.IntN(len(alpha))]
			}
			return b
		}
		kind := c.Rng.IntN(9)
		var mid []byte
		switch kind {
		case 0:
			mid = fill("abc &;\n")
		case 1:
			mid = append(append([]byte("<!--"), fill("ab-!> ")...), "-->"...)
		case 2:
			mid = append(append([]byte(`<a href="`), fill("ab>'= ")...), `">`...)
		case 3:
			mid = append(append([]byte("<script>"), fill("ab<!-/scriptSCRIPT> ")...), "</script>"...)
		case 4:
			mid = append(append([]byte("<textarea>"), fill("ab</textar&;")...), "</textarea>"...)
		case 5:
			mid = append(append([]byte("<"), fill("abcdefgh")...), '>')
		case 6:
			mid = append(append([]byte("<!DOCTYPE "), fill("ab \"'")...), '>')
		case 7:
			mid = append(append([]byte("<![CDATA["), fill("ab]> ")...), "]]>"...)
		default:
			mid = append(append([]byte("<a "), fill("ab= \"'/")...), "x"...) // probably unterminated
		}
		pre := g.Grammar(c.Rng.IntN(6))
		if bytes.Contains(bytes.ToLower(pre), []byte("<plaintext")) {
			pre = nil
		}
		input := append(append(append([]byte{}, pre...), mid...), g.Grammar(c.Rng.IntN(4))...)
		cfg := verifRandTokCfg(c.Rng)
		cfg.Context = ""
		if kind == 7 {
			cfg.AllowCDATA, cfg.CDATAFlip = true, 0
		}
		mb := []int{1, 16, 100, 1000, 4096, 5000, 8192, 20000, 50000}[c.Rng.IntN(9)]
		c.Describe(map[string]any{"kind": kind, "size": size, "cfg": cfg, "max_buf": mb, "input_len": len(input)})
		check(c, input, cfg, "big-token", mb, false)
		r.Event("big_token_inputs", 1)
	})

	r.Require("exception_used_unterminated_tag_omitted", 20)
	r.Require("maxbuf_limit_had_to_trigger", 100)
	r.Require("maxbuf_limit_not_reached", 100)
	r.Require("raw_text_tokens", 100)
	r.Require("tokens_doctype", 50)
	r.Require("inputs_invalid_utf8", 100)
}

func verifrtHash(input []byte, cfg verifTokCfg) uint64 {
	h := uint64(14695981039346656037)
	mix := func(b byte) { h = (h ^ uint64(b)) * 1099511628211 }
	for _, b := range input {
		mix(b)
	}
	for _, b := range []byte(cfg.Context) {
		mix(b)
	}
	if cfg.AllowCDATA {
		mix(1)
	}
	for _, v := range []uint64{cfg.CDATAFlip, cfg.NotRaw} {
		for i := 0; i < 8; i++ {
			mix(byte(v >> (8 * i)))
		}
	}
	return h
}
