//go:build verif

package html

import (
	"bytes"
	"fmt"
	"reflect"
	"regexp"
	"runtime"
	"strings"
	"testing"

	"golang.org/x/net/html/atom"
	"golang.org/x/net/internal/verifrt"
)

type verifCtx struct {
	Tag      string      `json:"tag"` // "" = nil context
	NS       string      `json:"ns,omitempty"`
	Attr     []Attribute `json:"attr,omitempty"`
	InForm   bool        `json:"in_form,omitempty"`
	Document bool        `json:"document,omitempty"` // Parse instead of ParseFragment
}

var verifFragmentContexts = []verifCtx{
	{Tag: ""}, {Tag: "div"}, {Tag: "body"}, {Tag: "html"}, {Tag: "head"}, {Tag: "table"}, {Tag: "tbody"}, {Tag: "thead"}, {Tag: "tfoot"}, {Tag: "tr"}, {Tag: "td"}, {Tag: "th"},
	{Tag: "caption"}, {Tag: "colgroup"}, {Tag: "col"}, {Tag: "select"}, {Tag: "option"}, {Tag: "optgroup"}, {Tag: "template"}, {Tag: "title"}, {Tag: "textarea"}, {Tag: "script"},
	{Tag: "style"}, {Tag: "plaintext"}, {Tag: "xmp"}, {Tag: "iframe"}, {Tag: "noembed"}, {Tag: "noframes"}, {Tag: "noscript"}, {Tag: "frameset"}, {Tag: "p"}, {Tag: "a"}, {Tag: "b"},
	{Tag: "form"}, {Tag: "button"}, {Tag: "li"}, {Tag: "pre"}, {Tag: "ul"}, {Tag: "dl"}, {Tag: "h1"}, {Tag: "ruby"}, {Tag: "object"}, {Tag: "marquee"}, {Tag: "applet"}, {Tag: "br"}, {Tag: "input"},
	{Tag: "div", InForm: true}, {Tag: "td", InForm: true}, {Tag: "tagfromthefuture"}, {Tag: "x-y"},
	{Tag: "svg", NS: "svg"}, {Tag: "foreignObject", NS: "svg"}, {Tag: "desc", NS: "svg"}, {Tag: "title", NS: "svg"}, {Tag: "path", NS: "svg"}, {Tag: "g", NS: "svg"}, {Tag: "script", NS: "svg"},
	{Tag: "math", NS: "math"}, {Tag: "mi", NS: "math"}, {Tag: "mo", NS: "math"}, {Tag: "mtext", NS: "math"}, {Tag: "ms", NS: "math"}, {Tag: "mn", NS: "math"}, {Tag: "mrow", NS: "math"},
	{Tag: "annotation-xml", NS: "math"}, {Tag: "annotation-xml", NS: "math", Attr: []Attribute{{Key: "encoding", Val: "text/html"}}}, {Tag: "annotation-xml", NS: "math", Attr: []Attribute{{Key: "encoding", Val: "application/xhtml+xml"}}},
	// foreign elements that share their local name with an HTML element the parser treats
	// specially (what Parse produces for <svg><template>, <math><table> ...)
	{Tag: "template", NS: "svg"}, {Tag: "template", NS: "math"}, {Tag: "table", NS: "svg"}, {Tag: "tr", NS: "math"}, {Tag: "td", NS: "svg"}, {Tag: "select", NS: "svg"},
	{Tag: "head", NS: "math"}, {Tag: "body", NS: "svg"}, {Tag: "html", NS: "svg"}, {Tag: "frameset", NS: "math"}, {Tag: "textarea", NS: "svg"}, {Tag: "style", NS: "svg"}, {Tag: "plaintext", NS: "math"},
	{Tag: "colgroup", NS: "svg"}, {Tag: "caption", NS: "math"}, {Tag: "form", NS: "svg"},
}

func (x verifCtx) node() *Node {
	if x.Tag == "" {
		return nil
	}
	n := &Node{Type: ElementNode, Data: x.Tag, DataAtom: atom.Lookup([]byte(x.Tag)), Namespace: x.NS, Attr: x.Attr}
	if x.InForm {
		f := &Node{Type: ElementNode, Data: "form", DataAtom: atom.Form}
		f.AppendChild(n)
	}
	return n
}

type verifTreeStats struct {
	nodes, elements, texts, comments, foreign, templates, maxDepth int
}

// verifCheckTree walks the tree below root (iteratively) and returns the first broken invariant.
// Only exported Node fields are used.
func verifCheckTree(root *Node, isDocument bool, seen map[*Node]bool, limit int, st *verifTreeStats) (key, msg string) {
	if root.Parent != nil || root.PrevSibling != nil || root.NextSibling != nil {
		return "returned-root-still-linked", fmt.Sprintf("returned node %v %q has Parent/sibling links (%p %p %p)", root.Type, root.Data, root.Parent, root.PrevSibling, root.NextSibling)
	}
	if isDocument && root.Type != DocumentNode {
		return "root-not-document", fmt.Sprintf("Parse returned a %v node", root.Type)
	}
	type item struct {
		n     *Node
		depth int
	}
	stack := []item{{root, 0}}
	for len(stack) > 0 {
		it := stack[len(stack)-1]
		stack = stack[:len(stack)-1]
		n := it.n
		if seen[n] {
			return "node-reachable-twice", fmt.Sprintf("node %v %q (%p) is reachable along two paths", n.Type, n.Data, n)
		}
		seen[n] = true
		st.nodes++
		st.maxDepth = max(st.maxDepth, it.depth)
		if st.nodes > limit {
			return "tree-larger-than-quadratic-work-bound", fmt.Sprintf("more than %d nodes", limit)
		}
		switch n.Type {
		case DocumentNode:
			if n != root || !isDocument {
				return "invalid-node-type", fmt.Sprintf("DocumentNode below the root (parent %q)", verifParentData(n))
			}
		case ElementNode:
			st.elements++
			if n.Data == "" {
				return "element-without-name", fmt.Sprintf("element with empty Data below %q", verifParentData(n))
			}
			switch n.Namespace {
			case "":
				if n.DataAtom == atom.Template {
					st.templates++
				}
			case "svg", "math":
				st.foreign++
			default:
				return "invalid-namespace", fmt.Sprintf("element %q has Namespace %q", n.Data, n.Namespace)
			}
			if n.DataAtom != atom.Lookup([]byte(n.Data)) {
				return "dataatom-inconsistent", fmt.Sprintf("element Data=%q has DataAtom=%#x (%q) but atom.Lookup(Data)=%#x", n.Data, uint32(n.DataAtom), n.DataAtom.String(), uint32(atom.Lookup([]byte(n.Data))))
			}
		case TextNode:
			st.texts++
		case CommentNode:
			st.comments++
		case DoctypeNode:
		default:
			return "invalid-node-type", fmt.Sprintf("node of type %v (%d) below %q", n.Type, uint32(n.Type), verifParentData(n))
		}
		if n.Type != ElementNode && n.Type != DocumentNode && (n.FirstChild != nil || n.LastChild != nil) {
			return "leaf-node-has-children", fmt.Sprintf("%v node %q has children", n.Type, verifClip([]byte(n.Data), 40))
		}
		var prev *Node
		cnt := 0
		for c := n.FirstChild; c != nil; c = c.NextSibling {
			if c.Parent != n {
				return "child-parent-link", fmt.Sprintf("child %v %q of %v %q has Parent %p (%q), want %p", c.Type, verifClip([]byte(c.Data), 40), n.Type, n.Data, c.Parent, verifParentData(c), n)
			}
			if c.PrevSibling != prev {
				return "sibling-prev-link", fmt.Sprintf("child %d (%v %q) of %v %q: PrevSibling=%p, want %p", cnt, c.Type, verifClip([]byte(c.Data), 40), n.Type, n.Data, c.PrevSibling, prev)
			}
			prev = c
			cnt++
			if cnt > limit {
				return "sibling-list-cyclic", fmt.Sprintf("more than %d children below %v %q", limit, n.Type, n.Data)
			}
		}
		if prev != n.LastChild {
			return "last-child-link", fmt.Sprintf("%v %q: following NextSibling ends at %p but LastChild=%p (FirstChild=%p)", n.Type, n.Data, prev, n.LastChild, n.FirstChild)
		}
		for c := n.LastChild; c != nil; c = c.PrevSibling {
			stack = append(stack, item{c, it.depth + 1})
		}
	}
	return "", ""
}

func verifParentData(n *Node) string {
	if n.Parent == nil {
		return "<nil>"
	}
	return n.Parent.Data
}

var (
	verifSlugRe = regexp.MustCompile(`[^a-z0-9]+`)
	verifTagRe  = regexp.MustCompile(`<[^>]*>|%!.\(|0x[0-9a-f]+|[0-9]+`)
)

func verifSlug(s string) string {
	s = verifTagRe.ReplaceAllString(strings.ToLower(s), "")
	s = strings.Trim(verifSlugRe.ReplaceAllString(s, "-"), "-")
	if len(s) > 60 {
		s = s[:60]
	}
	return s
}

func TestVerif_C41(t *testing.T) {
	r := verifrt.Start(t, "C41")
	defer r.Finish()
	r.SetRule(fmt.Sprintf("inputs: every html5lib tree-construction input shipped in testdata/ (as document, scripting on and off, and as fragment), PRNG inputs from the shared generator (grammar HTML, mutated html5lib inputs, random bytes), adoption-agency/foster-parenting/template/select/foreign-content stressors nested 1-600 deep, uniform nesting 256-20000 deep of 17 element patterns, quadratic formatting-reconstruction inputs; "+
		"each parsed as a document or as a fragment in one of %d context elements (HTML, SVG, MathML, unknown, with form ancestor, nil), scripting on or off; the rendering of every returned tree is parsed and checked again. "+
		"non-trivial = returned tree has at least 8 nodes; distinct by (input, context, scripting)", len(verifFragmentContexts)))
	r.Assume("the only error Parse/ParseFragment may return on in-memory input is the documented rejection of nesting deeper than 512 open elements, and only when the input has at least 165 '<' (a start tag opens at most three elements); any other error is a recovered internal panic and counts as 'did not return a tree'")
	r.Assume("termination is observed as the child finishing; a hang would be reported by the driver's watchdog with the breadcrumb of the case. Work bound: node count <= (len(input)+16)*(count('<')+4)")

	corpus := verifLoadCorpus()
	r.SetExtra("html5lib_inputs_loaded", len(corpus))
	r.SetExtra("fragment_contexts", len(verifFragmentContexts))

	// parseOnce parses input and checks what comes back; returns the rendering ("" if none).
	parseOnce := func(c *verifrt.Case, input []byte, ctx verifCtx, scripting bool, stage string) (rendered []byte, ok bool) {
		var roots []*Node
		var err error
		opt := ParseOptionEnableScripting(scripting)
		var ps *parser // white-box: only used to name the insertion mode in which an internal panic happened
		grab := func(p *parser) { ps = p }
		if ctx.Document {
			var doc *Node
			doc, err = ParseWithOptions(bytes.NewReader(input), opt, grab)
			if doc != nil {
				roots = []*Node{doc}
			}
		} else {
			roots, err = ParseFragmentWithOptions(bytes.NewReader(input), ctx.node(), opt, grab)
		}
		r.Event(stage+"_parses", 1)
		if err != nil {
			// One start tag opens at most three elements (<td> implies tbody and tr), plus html/head/body.
			if strings.Contains(err.Error(), "exceeds 512") && bytes.Count(input, []byte("<")) >= 165 {
				r.Event("documented_depth_limit_rejections", 1)
				return nil, false
			}
			where, tok := "?", ""
			if ps != nil {
				if ps.im != nil {
					where = runtime.FuncForPC(reflect.ValueOf(ps.im).Pointer()).Name()
					where = where[strings.LastIndex(where, ".")+1:]
				}
				tok = fmt.Sprintf("%v %q", ps.tok.Type, ps.tok.Data)
			}
			// White-box classification, so that each known root cause gets its own key and
			// anything else stays visible under a different one.
			rootPopped := ps != nil && ps.fragment && (len(ps.oe) == 0 || ps.oe[0] != ps.doc.FirstChild)
			key := "parse-error-" + verifSlug(err.Error()) + "-in-" + where
			switch {
			case ps != nil && ps.fragment && ps.context == nil && ps.tok.Type == StartTagToken && (ps.tok.DataAtom == atom.Select || ps.tok.DataAtom == atom.Input) && strings.Contains(err.Error(), "nil pointer"):
				key = "parse-panic-nil-context-select-check"
			case rootPopped && ctx.NS != "":
				key = "parse-panic-root-popped-foreign-context"
			case rootPopped && ctx.Tag == "head" && ctx.NS == "":
				key = "parse-panic-root-popped-head-context"
			case ctx.Tag == "head" && ctx.NS == "" && strings.Contains(err.Error(), "new current node will be a head element"):
				key = "parse-panic-head-context-noscript-assertion"
			case rootPopped:
				key += "-root-popped"
			}
			nOpen := -1
			if ps != nil {
				nOpen = len(ps.oe)
			}
			c.Violation(key, "%s: Parse returned error %q (insertion mode %s, current token %s, %d open elements, root popped: %v) for input %q (ctx %+v, scripting %v)", stage, err, where, tok, nOpen, rootPopped, verifClip(input, 400), ctx, scripting)
			return nil, false
		}
		if ctx.Document && len(roots) != 1 {
			c.Violation("parse-returns-nil-tree", "%s: Parse returned nil, nil", stage)
			return nil, false
		}
		limit := (len(input) + 16) * (bytes.Count(input, []byte("<")) + 4)
		seen := map[*Node]bool{}
		var st verifTreeStats
		for i, root := range roots {
			if root == nil {
				c.Violation("fragment-contains-nil", "%s: ParseFragment result[%d] is nil", stage, i)
				return nil, false
			}
			if key, msg := verifCheckTree(root, ctx.Document, seen, limit, &st); key != "" {
				c.Violation(key, "%s: %s; input %q (ctx %+v, scripting %v)", stage, msg, verifClip(input, 400), ctx, scripting)
				return nil, false
			}
		}
		var buf bytes.Buffer
		for _, root := range roots {
			if err := Render(&buf, root); err != nil {
				key := "render-fails-" + verifSlug(err.Error())
				if strings.Contains(err.Error(), "void element") {
					// which void-named elements have children, and in which namespace?
					html, foreign := 0, 0
					for n := range root.Descendants() {
						if n.Type == ElementNode && voidElements[n.Data] && n.FirstChild != nil {
							if n.Namespace == "" {
								html++
							} else {
								foreign++
							}
						}
					}
					if root.Type == ElementNode && voidElements[root.Data] && root.FirstChild != nil && root.Namespace != "" {
						foreign++
					} else if root.Type == ElementNode && voidElements[root.Data] && root.FirstChild != nil {
						html++
					}
					if html == 0 && foreign > 0 {
						key = "render-fails-void-named-foreign-element-with-children"
					}
				}
				c.Violation(key, "%s: Render of the returned tree: %v; input %q (ctx %+v, scripting %v)", stage, err, verifClip(input, 400), ctx, scripting)
				return nil, false
			}
		}
		r.Event(stage+"_nodes_checked", int64(st.nodes))
		r.Event(stage+"_rendered_bytes", int64(buf.Len()))
		if stage == "input" {
			if st.foreign > 0 {
				r.Event("trees_with_foreign_elements", 1)
			}
			if st.templates > 0 {
				r.Event("trees_with_template", 1)
			}
			if st.elements > bytes.Count(input, []byte("<"))+3 {
				r.Event("trees_with_more_elements_than_tags", 1) // implied or cloned (reconstructed / adoption agency) elements
			}
			if st.maxDepth >= 100 {
				r.Event("trees_deeper_than_100", 1)
			}
			if !ctx.Document {
				r.Event("fragment_parses", 1)
			}
			if !scripting {
				r.Event("scripting_off_parses", 1)
			}
			h := verifrtHash41(input, ctx, scripting)
			r.EvalHash(st.nodes >= 8, h)
		}
		return buf.Bytes(), true
	}
	check := func(c *verifrt.Case, input []byte, ctx verifCtx, scripting bool) {
		out, ok := parseOnce(c, input, ctx, scripting, "input")
		if !ok {
			return
		}
		// the rendering is one more input: it must parse to a well-formed, renderable tree too
		parseOnce(c, out, ctx, scripting, "rerender")
	}

	// 1. html5lib inputs, systematically
	r.CasesParallel("html5lib", max(1, len(corpus)), 0, func(c *verifrt.Case) {
		if len(corpus) == 0 {
			return
		}
		in := corpus[c.Index]
		fc := verifFragmentContexts[c.Rng.IntN(len(verifFragmentContexts))]
		c.Describe(map[string]any{"input": fmt.Sprintf("%q", in), "fragment_ctx": fc})
		check(c, in, verifCtx{Document: true}, true)
		check(c, in, verifCtx{Document: true}, false)
		check(c, in, fc, c.Rng.IntN(2) == 0)
		r.Event("html5lib_inputs", 1)
		if c.Index == 3 {
			doc, _ := Parse(bytes.NewReader(in))
			var b bytes.Buffer
			if doc != nil {
				Render(&b, doc)
			}
			r.Sample(map[string]any{"stream": "html5lib", "input": string(verifClip(in, 200)), "rendered": string(verifClip(b.Bytes(), 300))})
		}
	})

	// 2. every fragment context on a fixed set of awkward inputs
	awkward := []string{"", "x", "<", "</", "<a", "<!--", "</table>", "<table><td>x</table>y", "<svg><p>", "</svg><b>", "<select><table>", "<template><tr><td></template>x",
		"<![CDATA[x]]>", "<math><annotation-xml encoding=text/html><b></math>", "<frameset><frame></frameset>", "</p><p></br>", "<form><form><input><isindex>", "<a><table><a>", "<b><p></b>x",
		"<li><li><dd><dt><option><optgroup>", "<body><html a=b><body c=d>", "<plaintext></plaintext>", "<script><!--<script></script>--></script>", "\x00<\x00b\x00>\x00", "<title>&amp;</title><textarea>\n\nx</textarea>",
		"<svg><foreignObject><svg><title><p><svg>", "<table><caption><select><tr>", "<ruby><rb><rt><rtc><rp>", "<font color><svg><font color><font>", "<nobr><nobr><nobr>", "<button><button><p><button>",
		"<noscript>x</noscript>y", "x</html>y<html a=b>z", "<frameset><frame></frameset>x", "</head><title>x</title>", "<keygen>x", "<table><input><select>", "</b>x</p>y<a>"}
	r.CasesParallel("contexts-x-awkward", len(verifFragmentContexts), 0, func(c *verifrt.Case) {
		ctx := verifFragmentContexts[c.Index]
		for _, in := range awkward {
			for _, s := range []bool{true, false} {
				c.Describe(map[string]any{"input": fmt.Sprintf("%q", in), "ctx": ctx, "scripting": s})
				check(c, []byte(in), ctx, s)
			}
		}
		r.Event("contexts_exercised_on_fixed_inputs", 1)
	})

	// 3. generated inputs
	r.CasesParallel("generated", r.N(30000, 2000000), 0, func(c *verifrt.Case) {
		g := newVerifGen(c.Rng)
		in, how := g.Input(1500)
		ctx := verifCtx{Document: true}
		if c.Rng.IntN(5) < 2 {
			ctx = verifFragmentContexts[c.Rng.IntN(len(verifFragmentContexts))]
		}
		s := c.Rng.IntN(4) != 0
		c.Describe(map[string]any{"input": fmt.Sprintf("%q", in), "ctx": ctx, "scripting": s, "generator": how})
		check(c, in, ctx, s)
		r.Event("gen_"+how, 1)
	})

	// 3b. small-alphabet tag soup: short sequences over a handful of element names taken from
	// one theme (document structure, tables, select, foreign content, formatting/adoption,
	// lists and forms), plus comments, white space and text. The tree-construction rules that
	// move or remove already inserted nodes (frameset replacing an implied body, foster
	// parenting, adoption agency) need specific short token sequences that uniform tag soup
	// almost never produces.
	themes := [][]string{
		{"html", "head", "body", "frameset", "frame", "noframes", "title", "base", "meta", "link", "noscript", "script", "style"},
		{"table", "caption", "colgroup", "col", "tbody", "thead", "tfoot", "tr", "td", "th", "form", "input", "select", "template"},
		{"select", "option", "optgroup", "keygen", "input", "textarea", "button", "hr", "table", "template", "script"},
		{"svg", "math", "foreignObject", "desc", "title", "mi", "mo", "mtext", "annotation-xml", "p", "b", "table", "font", "img", "br"},
		{"a", "b", "i", "em", "font", "nobr", "p", "div", "table", "td", "button", "applet", "marquee", "object", "li", "h1", "address"},
		{"ul", "ol", "li", "dl", "dd", "dt", "p", "form", "button", "h1", "h2", "pre", "listing", "plaintext", "xmp", "iframe", "ruby", "rb", "rt", "rp", "rtc"},
	}
	r.CasesParallel("soup", 64, 0, func(c *verifrt.Case) {
		per := r.N(120000, 6000000) / 64
		for k := 0; k < per; k++ {
			rng := c.Rng
			th := themes[rng.IntN(len(themes))]
			var alpha []string
			for i, n := 0, 2+rng.IntN(4); i < n; i++ {
				alpha = append(alpha, th[rng.IntN(len(th))])
			}
			if rng.IntN(3) == 0 {
				o := themes[rng.IntN(len(themes))]
				alpha = append(alpha, o[rng.IntN(len(o))])
			}
			var sb strings.Builder
			if rng.IntN(4) == 0 {
				sb.WriteString("<!DOCTYPE html>")
			}
			for i, n := 0, 2+rng.IntN(11); i < n; i++ {
				switch rng.IntN(12) {
				case 0, 1, 2, 3, 4:
					sb.WriteString("<" + alpha[rng.IntN(len(alpha))] + ">")
				case 5, 6, 7, 8:
					sb.WriteString("</" + alpha[rng.IntN(len(alpha))] + ">")
				case 9:
					sb.WriteString("<!--c-->")
				case 10:
					sb.WriteString([]string{" ", "\n", "\t "}[rng.IntN(3)])
				default:
					sb.WriteString("x")
				}
			}
			ctx := verifCtx{Document: true}
			if rng.IntN(6) == 0 {
				ctx = verifFragmentContexts[rng.IntN(len(verifFragmentContexts))]
			}
			in := sb.String()
			c.Describe(map[string]any{"input": in, "ctx": ctx})
			check(c, []byte(in), ctx, rng.IntN(4) != 0)
			r.Event("soup_inputs", 1)
		}
	})
	r.Require("soup_inputs", 50000)

	// 3b. layered inputs: the stack of open elements is built layer by layer - table parts, a foreign
	// root, a foreign element whose local name is the name of an HTML element with special
	// handling, an integration point, HTML elements in it, a template opened and closed - and
	// then end tags arrive for elements further down. (Tag soup of the same vocabulary almost
	// never stacks these in the order in which the insertion modes confuse one another.)
	layerTable := []string{"table", "tbody", "thead", "tfoot", "tr", "caption", "colgroup", "select", "template", "td"}
	layerForeignName := []string{"td", "th", "tr", "caption", "table", "tbody", "select", "template", "head", "body", "html", "frameset", "p", "li"}
	layerIPsvg := []string{"desc", "foreignObject", "title"}
	layerIPmath := []string{"mi", "mo", "mn", "ms", "mtext", `annotation-xml encoding="text/html"`, `annotation-xml encoding="application/xhtml+xml"`}
	layerHTML := []string{"div", "p", "b", "span", "a", "font", "li", "td", "table", "form", "nobr", "button"}
	layerEnd := []string{"table", "tbody", "tfoot", "thead", "tr", "td", "th", "caption", "svg", "math", "template", "select", "p", "body", "html"}
	r.CasesParallel("layered", 64, 0, func(c *verifrt.Case) {
		per := r.N(40000, 2000000) / 64
		for k := 0; k < per; k++ {
			rng := c.Rng
			pick := func(xs []string) string { return xs[rng.IntN(len(xs))] }
			var sb strings.Builder
			open := func(n string) { sb.WriteString("<" + n + ">") }
			for i, n := 0, rng.IntN(3); i < n || (i == 0 && rng.IntN(10) < 6); i++ {
				if i == 0 && n == 0 {
					open("table")
					break
				}
				open(pick(layerTable))
			}
			math := rng.IntN(2) == 0
			if rng.IntN(10) != 0 {
				if math {
					open("math")
				} else {
					open("svg")
				}
			}
			if rng.IntN(5) != 0 {
				open(pick(layerForeignName))
			}
			if rng.IntN(5) != 0 {
				if math {
					open(pick(layerIPmath))
				} else {
					open(pick(layerIPsvg))
				}
			}
			for i, n := 0, rng.IntN(3); i < n; i++ {
				open(pick(layerHTML))
			}
			if rng.IntN(5) != 0 {
				open("template")
				for i, n := 0, rng.IntN(3); i < n; i++ {
					if rng.IntN(2) == 0 {
						open(pick(layerHTML))
					} else {
						sb.WriteString("x")
					}
				}
				if rng.IntN(6) != 0 {
					sb.WriteString("</template>")
				}
			}
			for i, n := 0, 1+rng.IntN(3); i < n; i++ {
				sb.WriteString("</" + pick(layerEnd) + ">")
			}
			if rng.IntN(3) == 0 {
				sb.WriteString("y")
			}
			ctx := verifCtx{Document: true}
			if rng.IntN(4) == 0 {
				ctx = verifFragmentContexts[rng.IntN(len(verifFragmentContexts))]
			}
			in := sb.String()
			c.Describe(map[string]any{"input": in, "ctx": ctx})
			check(c, []byte(in), ctx, rng.IntN(4) != 0)
			r.Event("layered_inputs", 1)
		}
	})
	r.Require("layered_inputs", 20000)

	// 4. structural stress
	r.CasesParallel("stress", r.N(2500, 100000), 0, func(c *verifrt.Case) {
		g := newVerifGen(c.Rng)
		depth := 1 + c.Rng.IntN(60)
		if c.Rng.IntN(4) == 0 {
			depth = 1 + c.Rng.IntN(600)
		}
		in := g.Stress(depth)
		if c.Rng.IntN(3) == 0 {
			in = g.Mutate(in)
		}
		if c.Rng.IntN(4) == 0 {
			in = append(in, g.Stress(1+c.Rng.IntN(40))...)
		}
		ctx := verifCtx{Document: true}
		if c.Rng.IntN(4) == 0 {
			ctx = verifFragmentContexts[c.Rng.IntN(len(verifFragmentContexts))]
		}
		s := c.Rng.IntN(4) != 0
		c.Describe(map[string]any{"input": fmt.Sprintf("%q", in), "ctx": ctx, "scripting": s, "depth": depth})
		check(c, in, ctx, s)
		r.Event("stress_inputs", 1)
	})

	// 5. uniform deep nesting around the 512 limit and far beyond; quadratic reconstruction
	units := []string{"<div>", "<span>", "<b>", "<a>", "<font>", "<ul><li>", "<table><tr><td>", "<svg><g>", "<svg>", "<math><mi>", "<template>", "<select>", "<dl><dd>", "<button>", "<b><p>", "<a><table>", "<x>"}
	depths := []int{256, 500, 505, 509, 510, 511, 512, 513, 600, 2000, 20000}
	r.CasesParallel("deep-nesting", len(units)*len(depths), 0, func(c *verifrt.Case) {
		u, d := units[c.Index%len(units)], depths[c.Index/len(units)]
		n := d / strings.Count(u, "<")
		in := []byte(strings.Repeat(u, n) + "x")
		if c.Rng.IntN(2) == 0 {
			in = append(in, strings.Repeat("</"+u[1:strings.Index(u, ">")]+">", n)...)
		}
		ctx := verifCtx{Document: true}
		if c.Index%3 == 0 {
			ctx = verifCtx{Tag: "div"}
		}
		c.Describe(map[string]any{"unit": u, "repeat": n, "ctx": ctx, "input_len": len(in)})
		check(c, in, ctx, true)
		r.Event("deep_nesting_inputs", 1)
	})
	r.CasesParallel("quadratic", r.N(40, 400), 0, func(c *verifrt.Case) {
		k, m := 10+c.Rng.IntN(150), 10+c.Rng.IntN(150)
		var sb strings.Builder
		sb.WriteString("<p>")
		for i := 0; i < k; i++ {
			fmt.Fprintf(&sb, "<%s id=%d>", verifFormatTags[c.Rng.IntN(len(verifFormatTags))], i)
		}
		blk := []string{"</p><p>x", "<p>x", "<div>x</div>", "<table><td>x</table>", "</p>x"}[c.Rng.IntN(5)]
		for i := 0; i < m; i++ {
			sb.WriteString(blk)
		}
		c.Describe(map[string]any{"formatting_elements": k, "blocks": m, "block": blk})
		check(c, []byte(sb.String()), verifCtx{Document: true}, true)
		r.Event("quadratic_inputs", 1)
	})

	r.Require("input_nodes_checked", 100000)
	r.Require("rerender_parses", 1000)
	r.Require("fragment_parses", 1000)
	r.Require("scripting_off_parses", 1000)
	r.Require("trees_with_foreign_elements", 200)
	r.Require("trees_with_template", 50)
	r.Require("trees_with_more_elements_than_tags", 500)
	r.Require("documented_depth_limit_rejections", 5)
	r.Require("contexts_exercised_on_fixed_inputs", int64(len(verifFragmentContexts)))
}

func verifrtHash41(input []byte, ctx verifCtx, scripting bool) uint64 {
	h := uint64(14695981039346656037)
	mix := func(b byte) { h = (h ^ uint64(b)) * 1099511628211 }
	for _, b := range input {
		mix(b)
	}
	mix(0xfe)
	for _, b := range []byte(ctx.Tag + "|" + ctx.NS) {
		mix(b)
	}
	for _, a := range ctx.Attr {
		for _, b := range []byte(a.Val) {
			mix(b)
		}
	}
	if ctx.Document {
		mix(1)
	}
	if ctx.InForm {
		mix(2)
	}
	if scripting {
		mix(3)
	}
	return h
}
