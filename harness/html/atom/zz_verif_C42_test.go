//go:build verif

package atom

import (
	"fmt"
	"sort"
	"sync"
	"testing"

	"golang.org/x/net/internal/verifrt"
)

// The dictionary the oracle decides with is a plain set of names: the repository's own
// generated name list (table_test.go, testAtomList — produced from gen.go's name list, not
// from the hash table), cross-checked against the constant/name pairs frozen in
// zz_verif_C42_consts_test.go. Lookup's hash table, atomText and the Atom bit layout play no
// part in deciding what the right answer is; they are only read (white-box) to *aim* the
// generators at strings that land in an occupied slot of equal length, i.e. where only the
// final string compare can give the right answer.

// verifFNV is FNV-1 (multiply after xor) with a caller-chosen offset basis, written from the
// algorithm's definition.
func verifFNV(h uint32, s []byte) uint32 {
	for _, c := range s {
		h = (h ^ uint32(c)) * 16777619
	}
	return h
}

func TestVerif_C42(t *testing.T) {
	r := verifrt.Start(t, "C42")
	defer r.Finish()
	r.SetRule("defined atoms enumerated three ways (repo name list, every non-zero hash-table entry, every exported constant). " +
		"Non-atoms: all byte strings of length 1-2, all [a-z0-9-] strings of length 3, every substring of atomText up to maxAtomLen+1, " +
		"every atom name under single edits (delete/substitute/insert/case/truncate/extend/swap/concatenate), names with the first or last two bytes " +
		"replaced by all pairs from a 64 (quick) or 128 (thorough) byte alphabet, PRNG strings over several alphabets, lengths up to 40, " +
		"constructed non-atoms with the full 32-bit hash and length of an atom name, looked up alone and right after / before that name. " +
		"non-trivial = the string is an atom name, or it is a non-atom whose hash selects an occupied table slot holding an atom of the same length " +
		"(so only the final string compare can reject it); distinct by string")
	r.Assume("the set of atom names is the repository's generated list testAtomList (html/atom/table_test.go), which must agree with the 369 constant/name pairs frozen in the harness")
	r.Assume("slot aiming reads hash0/table white-box; the verdict for each string depends only on set membership in the name list")

	dict := map[string]bool{}
	for _, s := range testAtomList {
		dict[s] = true
	}
	names := append([]string{}, testAtomList...)
	sort.Strings(names)
	mask := uint32(len(table) - 1)
	longest := 0 // length of the longest atom name, from the name list
	for _, n := range names {
		longest = max(longest, len(n))
	}

	// reachesCompare: would a correct two-slot cuckoo lookup have to compare strings for s?
	reachesCompare := func(s []byte) bool {
		h := verifFNV(hash0, s)
		a1, a2 := table[h&mask], table[(h>>16)&mask]
		return (a1 != 0 && int(a1&0xff) == len(s)) || (a2 != 0 && int(a2&0xff) == len(s))
	}

	// check is the oracle for one byte string.
	check := func(c *verifrt.Case, s []byte, src string) {
		got := Lookup(s)
		if dict[string(s)] {
			if got == 0 {
				c.Describe(map[string]any{"input": fmt.Sprintf("%q", s), "generator": src})
				c.Violation("lookup-misses-atom", "Lookup(%q) = 0 but %q is an atom name", s, s)
			} else if got.String() != string(s) {
				c.Describe(map[string]any{"input": fmt.Sprintf("%q", s), "generator": src})
				c.Violation("lookup-wrong-atom", "Lookup(%q) = %#x whose String() is %q", s, uint32(got), got.String())
			}
			r.EvalBytes(true, s)
			r.Event("lookups_of_atom_names", 1)
			return
		}
		nt := reachesCompare(s)
		if got != 0 {
			c.Describe(map[string]any{"input": fmt.Sprintf("%q", s), "generator": src})
			key := "lookup-nonzero-for-non-atom"
			if len(s) > longest {
				key = "lookup-nonzero-for-overlong"
			} else if !nt {
				key = "lookup-nonzero-unexpected-slot"
			}
			c.Violation(key, "Lookup(%q) = %#x (%q) but %q is not an atom name (generator %s)", s, uint32(got), got.String(), s, src)
		}
		r.EvalBytes(nt, s)
		if nt {
			r.Event("nonatoms_decided_by_string_compare", 1)
		} else {
			r.Event("nonatoms_other", 1)
		}
	}

	// ---- defined atoms -------------------------------------------------------------------
	r.Cases("defined-name-list", 1, func(c *verifrt.Case) {
		seen := map[Atom]string{}
		for _, n := range testAtomList {
			c.Describe(map[string]any{"name": n})
			a := Lookup([]byte(n))
			if a == 0 {
				c.Violation("lookup-misses-atom", "Lookup(%q) = 0", n)
			} else if a.String() != n {
				c.Violation("lookup-wrong-atom", "Lookup(%q) = %#x, String() = %q", n, uint32(a), a.String())
			}
			if p, dup := seen[a]; dup && a != 0 {
				c.Violation("two-names-one-atom", "%q and %q both map to %#x", p, n, uint32(a))
			}
			seen[a] = n
			r.EvalBytes(true, []byte(n))
			r.Event("names_in_list_checked", 1)
		}
		r.Sample(map[string]any{"name": "onsecuritypolicyviolation", "atom": fmt.Sprintf("%#x", uint32(Lookup([]byte("onsecuritypolicyviolation")))), "len": 25})
		r.Sample(map[string]any{"name": "foreignObject", "atom": fmt.Sprintf("%#x", uint32(Lookup([]byte("foreignObject")))), "other": "foreignobject", "other_atom": fmt.Sprintf("%#x", uint32(Lookup([]byte("foreignobject"))))})
	})
	r.Cases("defined-table-entries", 1, func(c *verifrt.Case) {
		distinct := map[Atom]bool{}
		for i, a := range table {
			if a == 0 {
				continue
			}
			c.Describe(map[string]any{"table_index": i, "atom": fmt.Sprintf("%#x", uint32(a))})
			s := a.String()
			if s == "" {
				c.Violation("string-empty-for-defined-atom", "table[%d] = %#x has String() == \"\"", i, uint32(a))
				continue
			}
			if !dict[s] {
				c.Violation("table-entry-not-a-name", "table[%d] = %#x, String() = %q is not in the name list", i, uint32(a), s)
			}
			if got := Lookup([]byte(s)); got != a {
				c.Violation("lookup-string-roundtrip", "table[%d] = %#x (%q): Lookup gives %#x", i, uint32(a), s, uint32(got))
			}
			distinct[a] = true
			r.Event("table_entries_checked", 1)
		}
		if len(distinct) != len(dict) {
			c.Violation("table-size-vs-name-list", "%d distinct table entries, %d names", len(distinct), len(dict))
		}
	})
	r.Cases("defined-constants", 1, func(c *verifrt.Case) {
		for _, p := range verifC42Consts {
			c.Describe(map[string]any{"const_name": p.Name, "atom": fmt.Sprintf("%#x", uint32(p.A))})
			if p.A == 0 {
				c.Violation("constant-is-zero", "constant for %q is 0", p.Name)
			}
			if s := p.A.String(); s == "" {
				c.Violation("string-empty-for-defined-atom", "constant for %q (%#x) has empty String()", p.Name, uint32(p.A))
			} else if s != p.Name {
				c.Violation("constant-string-mismatch", "constant for %q (%#x) has String() %q", p.Name, uint32(p.A), s)
			}
			if got := Lookup([]byte(p.Name)); got != p.A {
				c.Violation("lookup-vs-constant", "Lookup(%q) = %#x, constant is %#x", p.Name, uint32(got), uint32(p.A))
			}
			if !dict[p.Name] {
				c.Violation("constant-not-in-name-list", "constant name %q is not in testAtomList", p.Name)
			}
			r.Event("constants_checked", 1)
		}
		if len(verifC42Consts) != len(dict) {
			r.Note("tree has %d names, harness froze %d constants (table regenerated since the pinned commit?)", len(dict), len(verifC42Consts))
		}
	})

	// ---- exhaustive small strings ---------------------------------------------------------
	r.Cases("exhaustive-short", 1, func(c *verifrt.Case) {
		check(c, []byte{}, "empty")
		for a := 0; a < 256; a++ {
			check(c, []byte{byte(a)}, "all-1-byte")
			for b := 0; b < 256; b++ {
				check(c, []byte{byte(a), byte(b)}, "all-2-byte")
			}
		}
		const al = "abcdefghijklmnopqrstuvwxyz0123456789-"
		for i := 0; i < len(al); i++ {
			for j := 0; j < len(al); j++ {
				for k := 0; k < len(al); k++ {
					check(c, []byte{al[i], al[j], al[k]}, "all-3-alnum")
				}
			}
		}
		r.Event("exhaustive_short_done", 1)
	})
	// every substring of the string table: these are exactly the strings a corrupted (offset,len)
	// pair would name.
	r.CasesParallel("atomtext-substrings", maxAtomLen+1, 0, func(c *verifrt.Case) {
		l := c.Index + 1
		for st := 0; st+l <= len(atomText); st++ {
			check(c, []byte(atomText[st:st+l]), "atomtext-substring")
		}
	})
	r.Cases("fixed", 1, func(c *verifrt.Case) {
		for _, s := range []string{"\x00", "\xff", "A", "DIV", "Div", "dIV", "aa", "a\x00", "abbr0", "abbr ", " abbr", " a",
			"acceptcharset", "acceptCharset", "accept_charset", "h0", "h1h2", "h7", "onClick", "λ",
			"\x00\x00\x00\x00\x00\x50\x18\xae\x38\xd0\xb7", // same 32-bit hash as "onmouseover" (from the repo's test)
			"foreignobjecT", "FOREIGNOBJECT", "ForeignObject", "foreignObject\x00"} {
			check(c, []byte(s), "fixed")
		}
	})

	// ---- single edits of every name ---------------------------------------------------------
	const editAl = "abcdefghijklmnopqrstuvwxyz0123456789-_ ABCXYZ\x00\xff"
	r.CasesParallel("name-edits", len(names), 0, func(c *verifrt.Case) {
		n := names[c.Index]
		b := []byte(n)
		mk := func(parts ...[]byte) []byte {
			var o []byte
			for _, p := range parts {
				o = append(o, p...)
			}
			return o
		}
		for i := 0; i <= len(b); i++ {
			if i < len(b) {
				check(c, mk(b[:i], b[i+1:]), "delete")
				for k := 0; k < len(editAl); k++ {
					if editAl[k] != b[i] {
						check(c, mk(b[:i], []byte{editAl[k]}, b[i+1:]), "substitute")
					}
				}
				for _, x := range []byte{b[i] ^ 0x20, b[i] ^ 0x01, b[i] ^ 0x80, b[i] + 1, b[i] - 1} {
					check(c, mk(b[:i], []byte{x}, b[i+1:]), "bitflip")
				}
				if i+1 < len(b) && b[i] != b[i+1] {
					check(c, mk(b[:i], []byte{b[i+1], b[i]}, b[i+2:]), "swap")
				}
				if i > 0 {
					check(c, b[:i], "truncate")
					check(c, b[i:], "drop-prefix")
				}
			}
			for k := 0; k < len(editAl); k++ {
				check(c, mk(b[:i], []byte{editAl[k]}, b[i:]), "insert")
			}
		}
		up := []byte(n)
		for i := range up {
			if up[i] >= 'a' && up[i] <= 'z' {
				up[i] -= 32
			}
		}
		check(c, up, "upper")
		// concatenations and over-long extensions
		for k := 0; k < 24; k++ {
			m := names[c.Rng.IntN(len(names))]
			check(c, []byte(n+m), "concat")
			check(c, []byte(m+n), "concat")
		}
		for pad := 1; len(n)+pad <= 40; pad++ {
			p := make([]byte, pad)
			for j := range p {
				p[j] = "abcdefghijklmnopqrstuvwxyz"[c.Rng.IntN(26)]
			}
			check(c, []byte(n+string(p)), "extend")
			check(c, []byte(string(p)+n), "prepend")
		}
		r.Event("names_edited", 1)
	})

	// ---- aimed collisions: keep all but two bytes of a name ------------------------------------
	alpha := []byte("abcdefghijklmnopqrstuvwxyz0123456789-_ABCDEFGHIJKLMNOPQRSTUVWXYZ") // 64
	// thorough adds 64 more byte values: every third byte value not already present
	if r.Thorough() {
		have := map[byte]bool{}
		for _, ch := range alpha {
			have[ch] = true
		}
		for x := 0; x < 256 && len(alpha) < 128; x += 3 {
			if !have[byte(x)] {
				alpha = append(alpha, byte(x))
			}
		}
	}
	r.SetExtra("pair_alphabet_size", len(alpha))
	r.CasesParallel("name-two-byte-variants", len(names), 0, func(c *verifrt.Case) {
		n := names[c.Index]
		if len(n) < 3 {
			return // covered exhaustively above
		}
		b := []byte(n)
		v := make([]byte, len(b))
		for _, x := range alpha {
			for _, y := range alpha {
				copy(v, b)
				v[len(v)-2], v[len(v)-1] = x, y
				check(c, v, "last-two-bytes")
				copy(v, b)
				v[0], v[1] = x, y
				check(c, v, "first-two-bytes")
				copy(v, b)
				v[len(v)/2], v[len(v)/2-1] = x, y
				check(c, v, "middle-two-bytes")
			}
		}
	})

	// ---- strings with the FULL 32-bit hash (and length) of an atom name -------------------------
	// FNV's step is invertible, so such strings can be constructed (meet in the middle: all
	// two-byte endings walked backwards from the name's hash, PRNG beginnings walked forwards).
	// They reach both table slots of the name they collide with, and any shortcut that trusts
	// the hash - a cache of the last hit, say - answers them with that atom. Each is looked up
	// on its own, right after a lookup of the name it collides with, and right before one; the
	// sequences run one after the other in a single goroutine, because what is being checked is
	// that Lookup's answer does not depend on what was looked up before.
	type collision struct{ name, other string }
	var (
		collMu sync.Mutex
		colls  []collision
	)
	var fnvInv uint32 = 16777619
	for i := 0; i < 5; i++ {
		fnvInv *= 2 - 16777619*fnvInv
	}
	perName := r.N(2, 8)
	// (the search is not a case of its own: it also runs when the history case is replayed)
	var searchWG sync.WaitGroup
	sem := make(chan struct{}, 16)
	var built, broken int64
	for idx, name := range names {
		if len(name) < 4 {
			continue
		}
		searchWG.Add(1)
		sem <- struct{}{}
		go func() {
			defer func() { <-sem; searchWG.Done() }()
			rng := r.Rand("full-hash-collisions-search", idx)
			n := len(name)
			target := verifFNV(hash0, []byte(name))
			back := make(map[uint32][2]byte, 1<<16)
			for b1 := 0; b1 < 256; b1++ {
				h1 := (target * fnvInv) ^ uint32(b1) // state before the last byte b1
				for b0 := 0; b0 < 256; b0++ {
					back[(h1*fnvInv)^uint32(b0)] = [2]byte{byte(b0), byte(b1)}
				}
			}
			pre := make([]byte, n-2)
			found := 0
			for try := 0; try < 1<<21 && found < perName; try++ {
				for j := range pre {
					if try%2 == 0 {
						pre[j] = byte(rng.Uint32())
					} else {
						pre[j] = byte(' ' + rng.IntN(95))
					}
				}
				if e, ok := back[verifFNV(hash0, pre)]; ok {
					y := string(pre) + string(e[:])
					if y == name || dict[y] {
						continue
					}
					collMu.Lock()
					if verifFNV(hash0, []byte(y)) != target {
						broken++
					} else {
						if found == 0 {
							built++
						}
						colls = append(colls, collision{name, y})
					}
					collMu.Unlock()
					found++
				}
			}
		}()
	}
	searchWG.Wait()
	r.Event("names_with_a_full_hash_collision_constructed", built)
	r.Cases("full-hash-collisions-history", 1, func(c *verifrt.Case) {
		if broken > 0 {
			c.Violation("harness-collision-construction", "%d constructed strings do not have the hash of the name they were built for", broken)
		}
		sort.Slice(colls, func(i, j int) bool {
			if colls[i].name != colls[j].name {
				return colls[i].name < colls[j].name
			}
			return colls[i].other < colls[j].other
		})
		for _, k := range colls {
			x, y := []byte(k.name), []byte(k.other)
			check(c, y, "full-hash-collision")
			want := Lookup(x)
			if want == 0 || want.String() != k.name {
				c.Violation("lookup-misses-atom", "Lookup(%q) = %#x (%q)", x, uint32(want), want.String())
			}
			if got := Lookup(y); got != 0 {
				c.Describe(map[string]any{"sequence": []string{fmt.Sprintf("Lookup(%q)", x), fmt.Sprintf("Lookup(%q)", y)}})
				c.Violation("lookup-nonzero-for-non-atom-after-a-hit", "Lookup(%q) right after Lookup(%q) = %#x (%q); %q has the same length and the same 32-bit hash %#x as the atom name but is not one (on its own it is answered with 0)", y, x, uint32(got), got.String(), y, verifFNV(hash0, x))
			}
			if got := Lookup(x); got != want {
				c.Violation("lookup-depends-on-history", "Lookup(%q) = %#x after a lookup of the colliding %q, %#x before", x, uint32(got), y, uint32(want))
			}
			r.Event("full_hash_collisions_looked_up_after_a_hit", 1)
		}
	})

	// ---- PRNG strings -----------------------------------------------------------------------------
	total := r.N(1000000, 30000000)
	const chunks = 64
	r.CasesParallel("random-strings", chunks, 0, func(c *verifrt.Case) {
		buf := make([]byte, 0, 64)
		for i := 0; i < total/chunks; i++ {
			buf = buf[:0]
			var l int
			switch c.Rng.IntN(8) {
			case 0:
				l = 26 + c.Rng.IntN(15) // longer than any atom
			case 1:
				l = maxAtomLen - c.Rng.IntN(3)
			default:
				l = 1 + c.Rng.IntN(12)
			}
			switch c.Rng.IntN(4) {
			case 0: // arbitrary bytes
				for j := 0; j < l; j++ {
					buf = append(buf, byte(c.Rng.Uint32()))
				}
			case 1: // lower-case letters
				for j := 0; j < l; j++ {
					buf = append(buf, byte('a'+c.Rng.IntN(26)))
				}
			case 2: // pieces of names glued together
				for len(buf) < l {
					m := names[c.Rng.IntN(len(names))]
					k := 1 + c.Rng.IntN(len(m))
					buf = append(buf, m[:k]...)
				}
				buf = buf[:l]
			default: // a name with some bytes replaced
				m := names[c.Rng.IntN(len(names))]
				buf = append(buf, m...)
				for k := c.Rng.IntN(3); k >= 0; k-- {
					buf[c.Rng.IntN(len(buf))] = alpha[c.Rng.IntN(len(alpha))]
				}
			}
			check(c, buf, "random")
		}
	})

	r.SetExtra("exhaustive", true)
	r.SetExtra("exhaustive_dimensions", "all defined atoms (name list, table entries, constants); all byte strings of length<=2; all [a-z0-9-]{3}; all substrings of atomText up to maxAtomLen+1 bytes")
	r.SetExtra("atom_names", len(dict))
	r.Require("names_in_list_checked", 300)
	r.Require("table_entries_checked", 300)
	r.Require("constants_checked", 300)
	r.Require("nonatoms_decided_by_string_compare", 10000)
	r.Require("lookups_of_atom_names", 1000)
	r.Require("names_with_a_full_hash_collision_constructed", 200)
	r.Require("full_hash_collisions_looked_up_after_a_hit", 400)
}
