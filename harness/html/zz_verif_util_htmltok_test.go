//go:build verif

package html

// Tokenizer driving helpers shared by the html monitors: readers with different chunking
// behaviour and PRNG tokenizer configurations.

import (
	"io"
	"math/rand/v2"
)

// ---- readers ---------------------------------------------------------------------------------

type verifReader struct {
	data   []byte
	pos    int
	mode   int // 0 whole, 1 one byte, 2 random chunks, 3 random chunks + EOF together with the last bytes, 4 random chunks + (0,nil) hiccups
	rng    *rand.Rand
	zeros  int
	served int
}

func (v *verifReader) Read(p []byte) (int, error) {
	if v.pos >= len(v.data) {
		return 0, io.EOF
	}
	if len(p) == 0 {
		return 0, nil
	}
	n := len(p)
	switch v.mode {
	case 1:
		n = 1
	case 2, 3, 4:
		n = 1 + v.rng.IntN(17)
		if v.mode == 4 && v.zeros < 3 && v.rng.IntN(3) == 0 {
			v.zeros++
			return 0, nil
		}
		v.zeros = 0
	}
	n = min(n, len(p), len(v.data)-v.pos)
	copy(p, v.data[v.pos:v.pos+n])
	v.pos += n
	v.served += n
	if v.mode == 3 && v.pos == len(v.data) {
		return n, io.EOF
	}
	return n, nil
}

type verifTokCfg struct {
	Context    string `json:"context"`
	AllowCDATA bool   `json:"allow_cdata"`
	CDATAFlip  uint64 `json:"cdata_flip_mask"` // bit i: flip AllowCDATA after token i
	NotRaw     uint64 `json:"not_raw_mask"`    // bit i: call NextIsNotRawText after token i
	Reader     int    `json:"reader_mode"`
	ChunkSeed  uint64 `json:"chunk_seed"`
}

var verifContexts = []string{"", "", "", "", "", "", "", "", "", "", "", "", "", "", "", "", "", "", "", "", "", "", "", "", "", "", "", "", "div", "title", "textarea", "style", "script", "xmp", "iframe", "noembed", "noframes", "noscript", "plaintext", "svg", "TITLE", "Script"}

func verifRandTokCfg(rng *rand.Rand) verifTokCfg {
	cfg := verifTokCfg{Context: verifContexts[rng.IntN(len(verifContexts))], AllowCDATA: rng.IntN(3) == 0, Reader: rng.IntN(5), ChunkSeed: rng.Uint64()}
	if rng.IntN(6) == 0 {
		cfg.CDATAFlip = rng.Uint64() & rng.Uint64() & rng.Uint64()
	}
	if rng.IntN(5) == 0 {
		cfg.NotRaw = rng.Uint64() & rng.Uint64()
	}
	return cfg
}

func verifClip(b []byte, n int) []byte {
	if len(b) > n {
		return b[:n]
	}
	return b
}
