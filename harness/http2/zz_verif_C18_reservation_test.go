//go:build verif

package http2

// C18, directed: GOAWAY while the connection is idle but promised to a request. The pool hands
// a warm, idle connection to a request (a reservation); before the request creates its stream
// (it is held in its httptrace GotConn hook) the server's GOAWAY arrives and is processed. The
// request must not open a stream on that connection afterwards: the cliwire oracle
// "new-stream-after-goaway" (a quiescent point lies between the GOAWAY and the HEADERS) judges
// the wire, and the request itself has to be served on another connection.

import (
	"net/http"
	"net/http/httptrace"
	"testing"
	"testing/synctest"

	"golang.org/x/net/internal/verifrt"
	"golang.org/x/net/internal/verifrt/h2ref"
)

func vcliC18ReservationCases(t *testing.T, r *verifrt.R, n int) {
	r.Cases("goaway-with-reservation", n, func(c *verifrt.Case) {
		synctest.Test(t, func(t *testing.T) {
			vcliC18Reservation(r, c)
		})
	})
}

func vcliC18Reservation(r *verifrt.R, c *verifrt.Case) {
	rng := c.Rng
	code := []uint32{0, 0, h2ref.ErrEnhanceYourCalm}[rng.IntN(3)]
	nHeld := 1 + rng.IntN(2)
	strict := rng.IntN(2) == 0
	c.Describe(map[string]any{"goaway_code": code, "held_requests": nHeld, "strict_max_concurrent_streams": strict})
	tr := &Transport{StrictMaxConcurrentStreams: strict}
	s := vcliNewSession(r, c, tr)
	s.CheckStreams = true
	s.CheckGoAway = true
	s.HookNewClientConn()
	defer s.Teardown()
	greeted := map[*vcliSrvConn]bool{}
	settle := func() {
		s.Settle()
		for _, sc := range s.Conns() {
			if !greeted[sc] {
				greeted[sc] = true
				sc.SendSettings(h2ref.Setting{ID: h2ref.SettingMaxConcurrentStreams, Val: 100})
			}
		}
		s.Settle()
	}
	answerAll := func() {
		for _, sc := range s.Conns() {
			if sc.Dead || sc.closedBySrv {
				continue
			}
			for _, st := range sc.Sh.order {
				if st.hdrDone && !st.respSent && !st.closed && (!sc.Sh.goAwaySent || st.id <= sc.Sh.goAwayLast) {
					sc.SendResponse(st.id, 200, 0, true)
				}
			}
		}
	}
	rt := func(req *http.Request) (*http.Response, error) { return tr.RoundTrip(req) }

	warm := s.NewReq("GET", -1, false, 0, false, false)
	s.Start(warm, rt)
	settle()
	answerAll()
	settle()
	conns := s.Conns()
	if len(conns) != 1 || !warm.Finished() || warm.Err != nil {
		r.Note("warm-up did not complete on one connection (%d conns, err %v)", len(conns), warm.Err)
		return
	}
	sc0 := conns[0]

	gate := make(chan struct{})
	var held []*vcliReq
	for i := 0; i < nHeld; i++ {
		rq := s.NewReq("GET", -1, false, 0, false, false)
		rq.Req = rq.Req.WithContext(httptrace.WithClientTrace(rq.Req.Context(), &httptrace.ClientTrace{
			GotConn: func(httptrace.GotConnInfo) { <-gate },
		}))
		held = append(held, rq)
		s.Start(rq, rt)
		settle()
	}
	sc0.SendGoAway(sc0.Sh.lastID, code)
	r.Event("goaways_sent_to_an_idle_connection_with_reservations", 1)
	settle() // the GOAWAY has been processed; from here on a new stream on sc0 is a violation
	close(gate)
	for i := 0; i < 6; i++ {
		settle()
		answerAll()
		// the pool's retry back-off runs in virtual time
		synctest.Wait()
		vcliSleepVirtual(1500)
	}
	settle()
	for _, rq := range held {
		switch {
		case !rq.Finished():
			s.Viol("request-without-outcome", "request %s was handed the idle connection before its GOAWAY arrived and has no outcome at the final quiescent point (it has to be served on another connection)", rq.Tag)
		case rq.Err != nil:
			s.Viol("reserved-request-failed-after-goaway", "request %s was handed the idle connection before its GOAWAY(last stream %d, code %d) arrived; it never had a stream there, so it can be sent elsewhere, but RoundTrip failed: %v", rq.Tag, sc0.Sh.lastID, code, rq.Err)
		default:
			r.Event("reserved_requests_served_elsewhere_after_goaway", 1)
		}
	}
	r.EvalHash(true, uint64(code)<<8|uint64(nHeld)<<1|uint64(map[bool]int{true: 1}[strict]))
}
