//go:build verif

package http2

// Receive-side flow control harness shared by C10 (inbound credit is never leaked) and C11
// (advertised receive windows are enforced), for both roles of the code under test:
//
//	server role:  scripted client  <-> real Server.ServeConn   (zz_verif_util_srvwire_test.go)
//	client role:  real ClientConn  <-> scripted server         (zz_verif_util_cliwire_test.go)
//
// vrfShadow is the *peer's* view of the receive windows of the implementation under test,
// computed only from frames split by the independent reader h2ref: the connection window
// starts at 65535 (RFC 9113 6.9.2), stream windows at the SETTINGS_INITIAL_WINDOW_SIZE the
// implementation announced, every DATA frame the peer sends costs its whole payload length
// (6.9.1: padding included), every WINDOW_UPDATE of the implementation adds its increment.
//
// Every top-level identifier in this file starts with vrf.

import (
	"context"
	"fmt"
	"io"
	"net/http"
	"os"
	"sort"
	"strconv"
	"strings"
	"sync"
	"sync/atomic"
	"testing/synctest"

	"golang.org/x/net/http2/hpack"
	"golang.org/x/net/internal/verifrt"
	"golang.org/x/net/internal/verifrt/h2ref"
)

var vrfDebug = os.Getenv("VRF_DEBUG") != ""

const vrfMaxWindow = 1<<31 - 1

// vrfMinRefresh is the documented batching threshold of flow.go ("inflowMinRefresh is the
// minimum number of bytes we'll send for a flow control window update"; smaller refunds are
// accumulated unless they at least double the peer's window). Kept as an own constant: a
// mutation of the implementation's constant must not move the oracle.
const vrfMinRefresh = 4 << 10

// ---------------------------------------------------------------------------------------
// body content: position dependent, so that a byte that should never have been delivered
// (or a missing one) is recognisable at the application boundary

func vrfByte(id uint32, off int64) byte {
	return byte(uint64(off)*131 + uint64(off>>8)*7 + uint64(id)*29 + 1)
}

func vrfFill(b []byte, id uint32, off int64) {
	for i := range b {
		b[i] = vrfByte(id, off+int64(i))
	}
}

// ---------------------------------------------------------------------------------------
// the peer's view of the implementation's receive windows

type vrfStreamWin struct {
	win  int64 // peer's view of the stream receive window
	sent int64 // flow-controlled bytes the peer sent on the stream
	wu   int64 // Σ stream WINDOW_UPDATE increments received
}

type vrfErrFrame struct {
	Stream uint32 // 0: GOAWAY
	Code   uint32
}

type vrfShadow struct {
	connWin    int64
	initStream int64
	maxFrame   int64
	streams    map[uint32]*vrfStreamWin
	sentFC     int64 // Σ flow-controlled bytes of the peer's DATA frames
	sentFrames int64
	connWU     int64 // Σ connection WINDOW_UPDATE increments
	nConnWU    int64
	nStreamWU  int64
	nSmallWU   int64 // connection updates below the batching threshold
	maxConn    int64 // largest connection window ever seen by the peer
	settings   int   // SETTINGS frames (non-ACK) of the implementation
	errs       []vrfErrFrame
	report     func(key, detail string)
}

func vrfNewShadow(report func(key, detail string)) *vrfShadow {
	return &vrfShadow{connWin: 65535, initStream: 65535, maxFrame: 16384, streams: map[uint32]*vrfStreamWin{}, maxConn: 65535, report: report}
}

func (sh *vrfShadow) stream(id uint32) *vrfStreamWin {
	st := sh.streams[id]
	if st == nil {
		st = &vrfStreamWin{win: sh.initStream}
		sh.streams[id] = st
	}
	return st
}

// peerData accounts for a DATA frame the peer sends.
func (sh *vrfShadow) peerData(f h2ref.Frame) {
	n := int64(f.Length)
	sh.sentFC += n
	sh.sentFrames++
	sh.connWin -= n
	st := sh.stream(f.StreamID)
	st.win -= n
	st.sent += n
}

// implFrame accounts for a frame written by the implementation under test.
func (sh *vrfShadow) implFrame(f h2ref.Frame) {
	switch f.Type {
	case h2ref.TypeWindowUpdate:
		inc, err := f.WindowIncrement()
		if err != nil {
			sh.report("malformed-window-update", fmt.Sprintf("%v", f))
			return
		}
		if inc == 0 {
			sh.report("window-update-increment-zero", fmt.Sprintf("%v has a zero increment (RFC 9113 6.9: must be treated as an error by the receiver)", f))
		}
		if f.StreamID == 0 {
			sh.connWin += int64(inc)
			sh.connWU += int64(inc)
			sh.nConnWU++
			if inc < vrfMinRefresh {
				sh.nSmallWU++
			}
			if sh.connWin > sh.maxConn {
				sh.maxConn = sh.connWin
			}
			if sh.connWin > vrfMaxWindow {
				sh.report("conn-window-exceeds-2^31-1", fmt.Sprintf("connection WINDOW_UPDATE +%d raises the peer's view of the connection receive window to %d > 2^31-1 (Σ updates %d, Σ DATA %d)", inc, sh.connWin, sh.connWU, sh.sentFC))
			}
		} else {
			st := sh.stream(f.StreamID)
			st.win += int64(inc)
			st.wu += int64(inc)
			sh.nStreamWU++
			if st.win > vrfMaxWindow {
				sh.report("stream-window-exceeds-2^31-1", fmt.Sprintf("WINDOW_UPDATE +%d on stream %d raises the peer's view of that receive window to %d > 2^31-1 (initial %d, Σ updates %d, Σ DATA %d)", inc, f.StreamID, st.win, sh.initStream, st.wu, st.sent))
			}
		}
	case h2ref.TypeSettings:
		if f.Has(h2ref.FlagAck) {
			return
		}
		ss, err := f.Settings()
		if err != nil {
			return
		}
		sh.settings++
		for _, s := range ss {
			switch s.ID {
			case h2ref.SettingInitialWindowSize:
				delta := int64(s.Val) - sh.initStream
				sh.initStream = int64(s.Val)
				for id, st := range sh.streams {
					st.win += delta
					if st.win > vrfMaxWindow {
						sh.report("stream-window-exceeds-2^31-1", fmt.Sprintf("SETTINGS_INITIAL_WINDOW_SIZE=%d raises the receive window of stream %d to %d", s.Val, id, st.win))
					}
				}
			case h2ref.SettingMaxFrameSize:
				sh.maxFrame = int64(s.Val)
			}
		}
	case h2ref.TypeRSTStream:
		code, _ := f.RSTCode()
		sh.errs = append(sh.errs, vrfErrFrame{f.StreamID, code})
	case h2ref.TypeGoAway:
		_, code, _, _ := f.GoAway()
		sh.errs = append(sh.errs, vrfErrFrame{0, code})
	}
}

// flowErr reports whether the implementation signalled FLOW_CONTROL_ERROR for the stream
// (RST_STREAM on it) or for the connection (GOAWAY).
func (sh *vrfShadow) flowErr(id uint32) (stream, conn bool) {
	for _, e := range sh.errs {
		if e.Code != h2ref.ErrFlowControl {
			continue
		}
		if e.Stream == 0 {
			conn = true
		} else if e.Stream == id {
			stream = true
		}
	}
	return
}

func (sh *vrfShadow) errCount() int { return len(sh.errs) }

// ---------------------------------------------------------------------------------------
// commands for the application side (request handler / response consumer)

type vrfCmd struct {
	K byte // 'r' one Read with an N-byte buffer, 'A' read to the end with N-byte buffers, 'c' close the body, 'w' write N response bytes and flush, 'x' return, 'p' panic(http.ErrAbortHandler)
	N int
}

// vrfApp is the application boundary of one stream: what the handler (server role) or the
// response consumer (client role) has done and seen. Fields are guarded by mu.
type vrfApp struct {
	id  uint32
	cmd chan vrfCmd

	mu         sync.Mutex
	started    bool
	returned   bool
	bodyClosed bool
	issued     int
	completed  int
	read       int64 // body bytes handed to the application
	reads      int
	readErr    error
	corrupt    string
}

func vrfNewApp(id uint32) *vrfApp { return &vrfApp{id: id, cmd: make(chan vrfCmd, 512)} }

func (a *vrfApp) send(c vrfCmd) {
	a.mu.Lock()
	if a.returned {
		a.mu.Unlock()
		return
	}
	a.issued++
	a.mu.Unlock()
	select {
	case a.cmd <- c:
	default:
		panic("vrf harness: command queue overflow")
	}
}

func (a *vrfApp) snapshot() (read int64, readErr error, bodyClosed, started, returned bool) {
	a.mu.Lock()
	defer a.mu.Unlock()
	return a.read, a.readErr, a.bodyClosed, a.started, a.returned
}

func (a *vrfApp) noteRead(b []byte, err error) {
	a.mu.Lock()
	defer a.mu.Unlock()
	for i, c := range b {
		if want := vrfByte(a.id, a.read+int64(i)); c != want && a.corrupt == "" {
			a.corrupt = fmt.Sprintf("body byte at offset %d is 0x%02x, the peer sent 0x%02x there", a.read+int64(i), c, want)
		}
	}
	a.read += int64(len(b))
	a.reads++
	if err != nil {
		a.readErr = err
	}
}

// runBody executes one body command; it reports false when the command is not a body command.
func (a *vrfApp) runBody(body io.ReadCloser, c vrfCmd) bool {
	switch c.K {
	case 'r':
		buf := make([]byte, max(c.N, 1))
		n, err := body.Read(buf)
		a.noteRead(buf[:n], err)
	case 'A':
		buf := make([]byte, max(c.N, 1))
		for {
			n, err := body.Read(buf)
			a.noteRead(buf[:n], err)
			if err != nil {
				break
			}
		}
	case 'c':
		// closed once only; see 'C'
		a.mu.Lock()
		already := a.bodyClosed
		a.bodyClosed = true
		a.mu.Unlock()
		if !already {
			body.Close()
		}
	case 'C':
		// a further Close of a body that may be closed already (defer resp.Body.Close() after an
		// explicit Close is everyday client code; the bodies of net/http tolerate it)
		a.mu.Lock()
		a.bodyClosed = true
		a.mu.Unlock()
		body.Close()
	default:
		return false
	}
	return true
}

func (a *vrfApp) done() {
	a.mu.Lock()
	a.completed++
	a.mu.Unlock()
}

// ---------------------------------------------------------------------------------------
// conservation bookkeeping common to both roles

// vrfLedger holds what the conservation oracle expects and rebases after a reported
// violation, so that one leak is reported once and everything after it is still checked.
type vrfLedger struct {
	role       string
	configured int64 // connection receive window the implementation is configured to offer
	lost       int64 // credit already reported as lost (+) or created (−)
	gap        int64 // avail − peer view already reported (DATA not counted (+) / update not on the wire (−))
	checks     int64
	viol       func(key, format string, a ...any)
}

// vrfClass maps the discard path of the stream an action touched to the class used in
// violation keys: the three ways of sending DATA after the peer's own END_STREAM are one class.
func vrfClass(taint string) string {
	switch taint {
	case "after-trailers", "short-body":
		return "after-end-stream"
	}
	return taint
}

// key builds <role>:<symptom>@<discard-path class>, or <role>:<symptom>:<action>@clean when
// the action touched no stream on a discard path.
func (l *vrfLedger) key(symptom, prim, taint string) string {
	if taint == "" {
		return l.role + ":" + symptom + ":" + prim + "@clean"
	}
	return l.role + ":" + symptom + "@" + vrfClass(taint)
}

// check evaluates the two at-quiescence equalities.
//
//	view:   peer's view of the connection window (wire)
//	avail, unsent: the implementation's inflow (white box)
//	held:   bytes sitting unread in body buffers the application can still read or close
//	prim, taint: the script action that preceded the check and the discard path of its stream
//	excessKey: optional refinement of the key of a credit-excess violation (given its amount)
func (l *vrfLedger) check(view int64, avail, unsent int32, held int64, prim, taint string, excessKey func(int64) string, hist string) (ok bool) {
	l.checks++
	ok = true
	what := prim + "@" + taint
	if d := int64(avail) - (view + l.gap); d != 0 {
		ok = false
		if d > 0 {
			l.viol(l.key("data-not-counted", prim, taint), "at quiescence the peer's view of the connection receive window is %d but the implementation believes the peer still has %d: %d flow-controlled bytes the peer sent were never taken from the connection window (and can therefore never be returned) [after %s]\n%s", view+l.gap, avail, d, what, hist)
		} else {
			l.viol(l.key("window-update-not-on-wire", prim, taint), "at quiescence the peer's view of the connection receive window is %d but the implementation believes it has advertised %d: %d bytes of credit were booked as sent without a WINDOW_UPDATE reaching the peer [after %s]\n%s", view+l.gap, avail, -d, what, hist)
		}
		l.gap += d
	}
	sum := int64(avail) + int64(unsent) + held
	if d := (l.configured - l.lost) - sum; d != 0 {
		ok = false
		if d > 0 {
			l.viol(l.key("credit-lost", prim, taint), "at quiescence advertised window %d + credit not yet advertised %d + bytes buffered for the application %d = %d, expected the configured connection window %d: %d bytes of connection-level credit are gone (neither advertised, nor pending, nor backing buffered data) [after %s]\n%s", avail, unsent, held, sum, l.configured-l.lost, d, what, hist)
		} else {
			k := ""
			if excessKey != nil {
				k = excessKey(-d)
			}
			if k == "" {
				k = l.key("credit-excess", prim, taint)
			}
			l.viol(k, "at quiescence advertised window %d + credit not yet advertised %d + bytes buffered for the application %d = %d, expected the configured connection window %d: %d bytes of connection-level credit were returned twice [after %s]\n%s", avail, unsent, held, sum, l.configured-l.lost, -d, what, hist)
		}
		l.lost += d
	}
	if unsent < 0 || unsent >= vrfMinRefresh {
		ok = false
		l.viol(l.role+":unsent-credit-out-of-range", "at quiescence inflow.unsent=%d, the documented batching keeps it in [0,%d) [after %s]\n%s", unsent, vrfMinRefresh, what, hist)
	}
	return ok
}

// final evaluates the statement's end condition on the wire alone: all bodies read or
// closed, all streams done: the peer's view must be back at the configured size except for
// batched credit below the refresh threshold; white box: that remainder is exactly unsent.
func (l *vrfLedger) final(view int64, avail, unsent int32, hist string) {
	want := l.configured - l.lost - l.gap
	d := want - view
	switch {
	case d < 0:
		l.viol(l.role+":final-window-above-configured", "all bodies read/closed and all streams done: the peer's view of the connection receive window is %d, above the configured %d\n%s", view, want, hist)
	case d >= vrfMinRefresh:
		l.viol(l.role+":final-window-not-restored", "all bodies read/closed and all streams done: the peer's view of the connection receive window is %d, %d below the configured %d; batching of small refunds explains less than %d\n%s", view, d, want, vrfMinRefresh, hist)
	case d != int64(unsent):
		l.viol(l.role+":final-deficit-not-pending", "all bodies read/closed and all streams done: the peer's view of the connection receive window is %d below the configured %d but only %d bytes are pending in inflow.unsent (avail %d)\n%s", d, want, unsent, avail, hist)
	}
}

// ---------------------------------------------------------------------------------------
// server role

type vrfSrvCfg struct {
	ConnBuf      int32  `json:"MaxUploadBufferPerConnection"`
	StreamBuf    int32  `json:"MaxUploadBufferPerStream"`
	MaxReadFrame uint32 `json:"MaxReadFrameSize"`
}

func (c vrfSrvCfg) configuredConn() int64 {
	if c.ConnBuf < 65535 {
		return 1 << 20 // documented default for out-of-range values
	}
	return int64(c.ConnBuf)
}

func (c vrfSrvCfg) configuredStream() int64 {
	if c.StreamBuf <= 0 {
		return 1 << 20
	}
	return int64(c.StreamBuf)
}

type vrfSrvStream struct {
	id       uint32
	app      *vrfApp // nil: no handler expected (stream never opened / opened after GOAWAY)
	cl       int64   // declared content-length, -1 none
	dataSent int64   // application bytes sent (pattern offset)
	accepted int64   // application bytes sent while the stream was clean
	taint    string  // discard path applied to the stream ("" = clean)
	cliEnded bool
	cliRST   bool
	finished bool
}

type vrfSrv struct {
	R   *verifrt.R
	C   *verifrt.Case
	S   *vsrvSession
	Sh  *vrfShadow
	L   *vrfLedger
	Cfg vrfSrvCfg

	mu      sync.Mutex
	apps    map[uint32]*vrfApp
	streams map[uint32]*vrfSrvStream
	order   []*vrfSrvStream
	dead    bool
	nviol   atomic.Int64

	prevRead map[uint32]int64 // handler read counts at the previous check
}

func vrfNewSrv(r *verifrt.R, c *verifrt.Case, cfg vrfSrvCfg, tune func(h1 *http.Server, h2 *Server)) *vrfSrv {
	h := &vrfSrv{R: r, C: c, Cfg: cfg, apps: map[uint32]*vrfApp{}, streams: map[uint32]*vrfSrvStream{}}
	h.Sh = vrfNewShadow(func(key, detail string) {
		// called from OnFrame: s.mu is held
		h.nviol.Add(1)
		c.Violation("server:"+key, "%s\n%s", detail, h.S.history(40))
	})
	h.L = &vrfLedger{role: "server", configured: cfg.configuredConn(), viol: func(key, format string, a ...any) {
		h.nviol.Add(1)
		c.Violation(key, format, a...)
	}}
	h.S = vsrvNewSession(vsrvConfig{
		Handler: h.serve,
		Tune: func(h1 *http.Server, h2 *Server) {
			h2.MaxUploadBufferPerConnection = cfg.ConnBuf
			h2.MaxUploadBufferPerStream = cfg.StreamBuf
			h2.MaxReadFrameSize = cfg.MaxReadFrame
			h2.MaxConcurrentStreams = 100
			if tune != nil {
				tune(h1, h2)
			}
		},
		OnFrame: func(s *vsrvSession, fromServer bool, f h2ref.Frame) {
			if fromServer {
				h.Sh.implFrame(f)
			} else if f.Type == h2ref.TypeData {
				h.Sh.peerData(f)
			}
		},
	})
	return h
}

func (h *vrfSrv) app(id uint32) *vrfApp {
	h.mu.Lock()
	defer h.mu.Unlock()
	return h.apps[id]
}

// serve is the request handler: it executes the commands the script sends for its stream.
func (h *vrfSrv) serve(s *vsrvSession, w http.ResponseWriter, r *http.Request) {
	var id uint32
	if rw, ok := w.(*responseWriter); ok && rw.rws != nil && rw.rws.stream != nil {
		id = rw.rws.stream.id
	}
	a := h.app(id)
	if a == nil {
		h.R.Event("handler_without_plan", 1)
		return
	}
	a.mu.Lock()
	a.started = true
	a.mu.Unlock()
	defer func() {
		a.mu.Lock()
		a.returned = true
		a.mu.Unlock()
	}()
	for c := range a.cmd {
		if !a.runBody(r.Body, c) {
			switch c.K {
			case 'w':
				b := make([]byte, c.N)
				w.Write(b)
				if f, ok := w.(http.Flusher); ok {
					f.Flush()
				}
			case 'x':
				a.done()
				return
			case 'p':
				a.done()
				panic(http.ErrAbortHandler)
			}
		}
		a.done()
	}
}

// open registers the stream and sends its HEADERS. withHandler=false for streams the server
// must not start a handler for.
func (h *vrfSrv) open(id uint32, cl int64, endStream, withHandler bool) *vrfSrvStream {
	st := &vrfSrvStream{id: id, cl: cl, cliEnded: endStream}
	h.mu.Lock()
	if withHandler {
		st.app = vrfNewApp(id)
		h.apps[id] = st.app
	}
	h.streams[id] = st
	h.order = append(h.order, st)
	h.mu.Unlock()
	f := []vsrvField{{":method", "POST"}, {":scheme", "https"}, {":authority", "verif.test"}, {":path", "/u/" + strconv.Itoa(int(id))}}
	if cl >= 0 {
		f = append(f, vsrvField{"content-length", strconv.FormatInt(cl, 10)})
	}
	h.S.cliHeaders(id, endStream, f)
	return st
}

// view returns the peer's current view (connection window, stream window, max frame size).
func (h *vrfSrv) view(id uint32) (conn, stream, maxFrame int64) {
	h.S.mu.Lock()
	defer h.S.mu.Unlock()
	return h.Sh.connWin, h.Sh.stream(id).win, h.Sh.maxFrame
}

// data sends one DATA frame with n application bytes and the given padding (<0: none).
func (h *vrfSrv) data(st *vrfSrvStream, n int, pad int, end bool) {
	b := make([]byte, n)
	vrfFill(b, st.id, st.dataSent)
	st.dataSent += int64(n)
	if st.taint == "" {
		st.accepted += int64(n)
	}
	if end {
		st.cliEnded = true
	}
	h.S.cliWrite(h2ref.AppendData(nil, st.id, end, b, pad))
}

type vrfSrvSample struct {
	avail, unsent int32
	bodies        map[uint32]int // st.body.Len() of every stream the server still knows
	known         map[uint32]bool
	stUnsent      map[uint32]int32 // st.inflow.unsent of those streams
	streams       int
	inGoAway      bool
}

// sample reads the connection's receive-side accounting on the serve goroutine.
func (h *vrfSrv) sample() (vrfSrvSample, bool) {
	sc := h.S.sc
	select {
	case <-sc.doneServing:
		return vrfSrvSample{}, false
	default:
	}
	ch := make(chan vrfSrvSample, 1)
	msg := func(sc *serverConn) {
		v := vrfSrvSample{avail: sc.inflow.avail, unsent: sc.inflow.unsent, bodies: map[uint32]int{}, known: map[uint32]bool{}, stUnsent: map[uint32]int32{}, streams: len(sc.streams), inGoAway: sc.inGoAway}
		for id, st := range sc.streams {
			v.known[id] = true
			v.stUnsent[id] = st.inflow.unsent
			if st.body != nil {
				v.bodies[id] = st.body.Len()
			}
		}
		ch <- v
	}
	select {
	case sc.serveMsgCh <- msg:
	default:
		return vrfSrvSample{}, false
	}
	synctest.Wait()
	select {
	case v := <-ch:
		return v, true
	default:
		return vrfSrvSample{}, false
	}
}

// quiescent waits for quiescence and reports whether the two views describe the same
// instant: connection up, every client byte consumed, no server write blocked or partial.
func (h *vrfSrv) quiescent() bool {
	synctest.Wait()
	s := h.S
	s.mu.Lock()
	defer s.mu.Unlock()
	s.ev["quiescent_points"]++
	if s.srvClosed || s.cliClosed || len(s.panics) > 0 || (s.goAway && s.goAwayCode != 0) {
		if !h.dead {
			switch {
			case len(s.panics) > 0:
				h.R.Event("server_connection_lost_to_panic", 1)
			case s.goAway && s.goAwayCode != 0:
				h.R.Event("server_connection_error_code_"+strconv.Itoa(int(s.goAwayCode)), 1)
				if vrfDebug {
					fmt.Printf("VRFDEBUG server GOAWAY code %d:\n%s\n", s.goAwayCode, s.history(30))
				}
			default:
				h.R.Event("server_connection_closed", 1)
				if vrfDebug {
					fmt.Printf("VRFDEBUG server closed:\n%s\n", s.history(30))
				}
			}
		}
		h.dead = true
		return false
	}
	return len(s.c2s) == 0 && len(s.cbuf) == 0 && s.cPrefaceLeft == 0 && s.blockedWriters == 0 && len(s.sbuf) == 0
}

func (h *vrfSrv) hist() string {
	h.S.mu.Lock()
	defer h.S.mu.Unlock()
	return h.S.history(45)
}

func vrfSplitWhat(what string) (prim, taint string) {
	if i := strings.IndexByte(what, '@'); i >= 0 {
		return what[:i], what[i+1:]
	}
	return what, ""
}

// check runs the conservation oracle at a quiescent point. what names the script action that
// preceded it: primitive@discard-path-of-the-stream-it-acted-on.
func (h *vrfSrv) check(what string) bool {
	if h.dead || !h.quiescent() {
		return false
	}
	smp, ok := h.sample()
	if !ok {
		return false
	}
	h.S.mu.Lock()
	view := h.Sh.connWin
	h.S.mu.Unlock()
	var held int64
	for _, n := range smp.bodies {
		held += int64(n)
	}
	h.R.Event("server_conservation_checks", 1)
	if held > 0 {
		h.R.Event("server_checks_with_buffered_body_bytes", 1)
	}
	if smp.unsent > 0 {
		h.R.Event("server_checks_with_batched_credit", 1)
	}
	// Body bytes handlers read since the previous check on streams the server has closed
	// (closeStream has run: the stream is gone from sc.streams). closeStream returns the
	// credit of everything still buffered; a handler reading those bytes afterwards is the one
	// known way to get the same credit twice, so an excess no larger than that gets its own key.
	var readOnClosed int64
	if h.prevRead == nil {
		h.prevRead = map[uint32]int64{}
	}
	for _, st := range h.order {
		if st.app == nil {
			continue
		}
		read, _, _, started, _ := st.app.snapshot()
		if started && !smp.known[st.id] {
			readOnClosed += read - h.prevRead[st.id]
		}
		h.prevRead[st.id] = read
	}
	prim, taint := vrfSplitWhat(what)
	good := h.L.check(view, smp.avail, smp.unsent, held, prim, taint, func(excess int64) string {
		if excess <= readOnClosed {
			return "server:credit-excess:body-read-after-stream-closed"
		}
		return ""
	}, h.hist())
	// boundary cross-check of the white-box "held": for a stream no discard path has touched,
	// the bytes buffered must be what the peer sent minus what the handler has read.
	for _, st := range h.order {
		if st.taint != "" || st.app == nil || st.finished {
			continue
		}
		read, _, closed, started, returned := st.app.snapshot()
		if !started || closed || returned {
			continue
		}
		if n, ok := smp.bodies[st.id]; ok && int64(n) != st.accepted-read {
			h.L.viol("server:buffered-bytes-mismatch:"+prim, "stream %d: the peer sent %d body bytes, the handler has read %d, but %d bytes are buffered\n%s", st.id, st.accepted, read, n, h.hist())
			good = false
		}
		h.R.Event("server_clean_stream_buffer_checks", 1)
	}
	return good
}

// final: every handler has returned and the server knows no stream any more.
func (h *vrfSrv) final() {
	if h.dead || !h.quiescent() {
		h.R.Event("server_final_skipped_connection_gone", 1)
		return
	}
	smp, ok := h.sample()
	if !ok {
		h.R.Event("server_final_skipped_connection_gone", 1)
		return
	}
	for _, st := range h.order {
		if st.app == nil {
			continue
		}
		if _, _, _, started, returned := st.app.snapshot(); started && !returned {
			h.R.Event("server_final_skipped_handler_running", 1)
			return
		}
	}
	if smp.streams != 0 {
		h.R.Event("server_final_skipped_streams_open", 1)
		return
	}
	h.S.mu.Lock()
	view := h.Sh.connWin
	h.S.mu.Unlock()
	h.R.Event("server_final_checks", 1)
	if int64(smp.unsent) > 0 {
		h.R.Event("server_final_with_batched_credit", 1)
	}
	h.L.final(view, smp.avail, smp.unsent, h.hist())
}

// finish releases every handler and ends the session.
func (h *vrfSrv) finish() {
	h.mu.Lock()
	for _, a := range h.apps {
		func() {
			defer func() { recover() }()
			close(a.cmd)
		}()
	}
	h.mu.Unlock()
	h.S.finish()
}

func (h *vrfSrv) corruptions() {
	for _, st := range h.order {
		if st.app == nil {
			continue
		}
		st.app.mu.Lock()
		c := st.app.corrupt
		st.app.mu.Unlock()
		if c != "" {
			h.L.viol("server:body-bytes-corrupt", "stream %d: %s\n%s", st.id, c, h.hist())
		}
	}
}

// ---------------------------------------------------------------------------------------
// client role

type vrfCliCfg struct {
	ConnBuf      int    `json:"MaxReceiveBufferPerConnection"` // 0: default
	StreamBuf    int    `json:"MaxReceiveBufferPerStream"`     // 0: default
	MaxReadFrame uint32 `json:"MaxReadFrameSize"`
}

// configuredConn: the Transport offers the RFC's initial 65535 plus the configured buffer
// (newClientConn: WINDOW_UPDATE(0, buffer) on top of the initial window). Valid buffer values
// per net/http.HTTP2Config: at least 64 KiB and less than 4 MiB; otherwise the default.
func (c vrfCliCfg) configuredConn() int64 {
	if c.ConnBuf == 0 {
		return 65535 + transportDefaultConnFlowVrf
	}
	return 65535 + int64(c.ConnBuf)
}

const transportDefaultConnFlowVrf = 1 << 30 // documented default (transport.go: transportDefaultConnFlow)

type vrfReq struct {
	idx      int
	tag      string
	method   string
	app      *vrfApp
	cancel   context.CancelFunc
	done     chan struct{}
	id       uint32 // stream id once the request HEADERS were seen
	cl       int64  // content-length the scripted server declared, -1 none
	hdrSent  bool
	srvEnded bool
	srvRST   bool
	dataSent int64
	accepted int64
	taint    string
	finished bool

	mu     sync.Mutex
	rtDone bool
	rtErr  error
	cs     *clientStream
}

func (rq *vrfReq) roundTripState() (done bool, err error, cs *clientStream) {
	rq.mu.Lock()
	defer rq.mu.Unlock()
	return rq.rtDone, rq.rtErr, rq.cs
}

type vrfCli struct {
	R    *verifrt.R
	C    *verifrt.Case
	Sess *vcliSession
	SC   *vcliSrvConn
	CC   *ClientConn
	Sh   *vrfShadow
	L    *vrfLedger
	Cfg  vrfCliCfg

	reqs  []*vrfReq
	byTag map[string]*vrfReq
	known map[*clientStream]bool // every clientStream ever seen (registered on the connection or behind a response body)
	dead  bool
	nviol int
}

func vrfNewCli(r *verifrt.R, c *verifrt.Case, cfg vrfCliCfg) (*vrfCli, error) {
	tr := &Transport{MaxReadFrameSize: cfg.MaxReadFrame}
	if cfg.ConnBuf != 0 || cfg.StreamBuf != 0 {
		tr.t1 = &http.Transport{HTTP2: &http.HTTP2Config{MaxReceiveBufferPerConnection: cfg.ConnBuf, MaxReceiveBufferPerStream: cfg.StreamBuf}}
	}
	h := &vrfCli{R: r, C: c, Cfg: cfg, byTag: map[string]*vrfReq{}, known: map[*clientStream]bool{}}
	h.Sess = vcliNewSession(r, c, tr)
	h.Sh = vrfNewShadow(func(key, detail string) {
		h.nviol++
		c.Violation("client:"+key, "%s\nlast frames:\n%s", detail, h.SC.Trace())
	})
	h.L = &vrfLedger{role: "client", configured: cfg.configuredConn(), viol: func(key, format string, a ...any) {
		h.nviol++
		c.Violation(key, format, a...)
	}}
	h.Sess.OnNewConn = func(sc *vcliSrvConn) {
		sc.OnFrame = func(fromClient bool, f h2ref.Frame) {
			if fromClient {
				h.Sh.implFrame(f)
			} else if f.Type == h2ref.TypeData {
				h.Sh.peerData(f)
			}
		}
		sc.OnOpen = func(st *vcliStream) {
			if rq := h.byTag[st.tag]; rq != nil {
				rq.id = st.id
				rq.app.mu.Lock()
				rq.app.id = st.id
				rq.app.mu.Unlock()
			}
		}
	}
	sc, cc, err := h.Sess.NewDirect()
	h.SC, h.CC = sc, cc
	return h, err
}

// start launches one request; its response body is driven by commands.
func (h *vrfCli) start(method string) *vrfReq {
	rq := &vrfReq{idx: len(h.reqs), method: method, cl: -1, done: make(chan struct{})}
	rq.tag = "q" + strconv.Itoa(rq.idx)
	rq.app = vrfNewApp(0)
	ctx, cancel := context.WithCancel(context.Background())
	rq.cancel = cancel
	req, err := http.NewRequestWithContext(ctx, method, "http://verif.test/"+rq.tag, nil)
	if err != nil {
		panic(err)
	}
	req.Header.Set("x-vreq", rq.tag)
	req.Header.Set("accept-encoding", "identity")
	h.reqs = append(h.reqs, rq)
	h.byTag[rq.tag] = rq
	h.R.Event("client_requests_started", 1)
	a := rq.app
	go func() {
		defer close(rq.done)
		resp, err := h.CC.RoundTrip(req)
		rq.mu.Lock()
		rq.rtDone, rq.rtErr = true, err
		if err == nil {
			if b, ok := resp.Body.(transportResponseBody); ok {
				rq.cs = b.cs
			}
		}
		rq.mu.Unlock()
		a.mu.Lock()
		a.started = true
		a.mu.Unlock()
		defer func() {
			a.mu.Lock()
			a.returned = true
			a.mu.Unlock()
		}()
		if err != nil {
			for c := range a.cmd {
				a.done()
				if c.K == 'x' {
					return
				}
			}
			return
		}
		for c := range a.cmd {
			a.runBody(resp.Body, c)
			a.done()
			if c.K == 'x' {
				break
			}
		}
		if _, _, closed, _, _ := a.snapshot(); !closed {
			resp.Body.Close()
		}
	}()
	return rq
}

// headers sends the response HEADERS of a request.
func (h *vrfCli) headers(rq *vrfReq, status int, cl int64, endStream bool, extra ...hpack.HeaderField) {
	sc := h.SC
	sc.hencBuf.Reset()
	sc.henc.WriteField(hpack.HeaderField{Name: ":status", Value: strconv.Itoa(status)})
	if cl >= 0 {
		sc.henc.WriteField(hpack.HeaderField{Name: "content-length", Value: strconv.FormatInt(cl, 10)})
	}
	for _, f := range extra {
		sc.henc.WriteField(f)
	}
	rq.hdrSent = true
	rq.cl = cl
	if endStream {
		rq.srvEnded = true
	}
	sc.send(h2ref.AppendHeaders(nil, rq.id, endStream, true, sc.hencBuf.Bytes(), nil, -1))
}

// trailers sends a trailing HEADERS frame with END_STREAM.
func (h *vrfCli) trailers(rq *vrfReq) {
	sc := h.SC
	sc.hencBuf.Reset()
	sc.henc.WriteField(hpack.HeaderField{Name: "x-trailer", Value: "1"})
	rq.srvEnded = true
	sc.send(h2ref.AppendHeaders(nil, rq.id, true, true, sc.hencBuf.Bytes(), nil, -1))
}

// dataFrame appends one DATA frame for the request to dst.
func (h *vrfCli) dataFrame(dst []byte, rq *vrfReq, n, pad int, end bool) []byte {
	b := make([]byte, n)
	vrfFill(b, rq.id, rq.dataSent)
	rq.dataSent += int64(n)
	if rq.taint == "" {
		rq.accepted += int64(n)
	}
	if end {
		rq.srvEnded = true
	}
	return h2ref.AppendData(dst, rq.id, end, b, pad)
}

func (h *vrfCli) view(id uint32) (conn, stream, maxFrame int64) {
	return h.Sh.connWin, h.Sh.stream(id).win, h.Sh.maxFrame
}

// settle reaches quiescence with all client output parsed; false when the connection is gone.
func (h *vrfCli) settle() bool {
	h.Sess.Settle()
	was := h.dead
	if h.SC.Dead || h.SC.closedBySrv || h.SC.NC.clientClosed() {
		h.dead = true
		if !was {
			h.R.Event("client_connection_closed_by_client", 1)
			if h.SC.Sh.goAwaySent {
				h.R.Event("client_connection_closed_after_server_goaway", 1)
			} else {
				code := -1
				for _, e := range h.Sh.errs {
					if e.Stream == 0 {
						code = int(e.Code)
					}
				}
				h.R.Event("client_connection_closed_with_goaway_code_"+strconv.Itoa(code), 1)
				var rerr error
				select {
				case <-h.CC.readerDone:
					rerr = h.CC.readerErr
				default:
				}
				if h.R.ID == "C10" { // C10's peer never exceeds a window: a connection the client gives up is worth a note
					h.R.Note("client closed connection in %s/%d (its GOAWAY code %d) reader error: %v\n%s", h.C.Stream, h.C.Index, code, rerr, h.SC.Trace())
				}
				if vrfDebug {
					fmt.Printf("VRFDEBUG client closed connection:\n%s\n", h.SC.Trace())
				}
			}
		}
	}
	for _, e := range h.Sh.errs {
		if e.Stream == 0 && e.Code != h2ref.ErrNo {
			if !h.dead {
				h.R.Event("client_connection_error_code_"+strconv.Itoa(int(e.Code)), 1)
			}
			h.dead = true // the client gave up on the connection
		}
	}
	return !h.dead && h.SC.NC.s2cPending() == 0
}

type vrfCliSample struct {
	avail, unsent int32
	held          int64
	streams       int
	stUnsent      map[uint32]int32 // cs.inflow.unsent of the streams registered on the connection
}

func (h *vrfCli) sample() vrfCliSample {
	cc := h.CC
	// A buffered byte counts as held only while somebody can still read or close the body:
	// the application has the response and has not closed it, or RoundTrip has not returned
	// yet. Bytes buffered for a request whose RoundTrip returned an error are nobody's.
	appClosed := map[*clientStream]bool{}
	failed := map[uint32]bool{}
	for _, rq := range h.reqs {
		done, err, cs := rq.roundTripState()
		if cs != nil {
			h.known[cs] = true
			if _, _, closed, _, _ := rq.app.snapshot(); closed {
				appClosed[cs] = true
			}
		}
		if done && err != nil && rq.id != 0 {
			failed[rq.id] = true
		}
	}
	cc.mu.Lock()
	defer cc.mu.Unlock()
	for _, cs := range cc.streams {
		h.known[cs] = true
	}
	v := vrfCliSample{avail: cc.inflow.avail, unsent: cc.inflow.unsent, streams: len(cc.streams), stUnsent: map[uint32]int32{}}
	for id, cs := range cc.streams {
		v.stUnsent[id] = cs.inflow.unsent
	}
	for cs := range h.known {
		if !appClosed[cs] && !failed[cs.ID] {
			v.held += int64(cs.bufPipe.Len())
		}
	}
	return v
}

func (h *vrfCli) check(what string) bool {
	if h.dead || !h.settle() {
		return false
	}
	smp := h.sample()
	h.R.Event("client_conservation_checks", 1)
	if smp.held > 0 {
		h.R.Event("client_checks_with_buffered_body_bytes", 1)
	}
	if smp.unsent > 0 {
		h.R.Event("client_checks_with_batched_credit", 1)
	}
	prim, taint := vrfSplitWhat(what)
	good := h.L.check(h.Sh.connWin, smp.avail, smp.unsent, smp.held, prim, taint, nil, "last frames:\n"+h.SC.Trace())
	for _, rq := range h.reqs {
		if rq.taint != "" || rq.finished {
			continue
		}
		done, err, cs := rq.roundTripState()
		if !done || err != nil || cs == nil {
			continue
		}
		read, _, closed, _, _ := rq.app.snapshot()
		if closed {
			continue
		}
		if n := int64(cs.bufPipe.Len()); n != rq.accepted-read {
			h.L.viol("client:buffered-bytes-mismatch:"+prim, "request %s (stream %d): the peer sent %d body bytes, the application has read %d, but %d bytes are buffered\nlast frames:\n%s", rq.tag, rq.id, rq.accepted, read, n, h.SC.Trace())
			good = false
		}
		h.R.Event("client_clean_stream_buffer_checks", 1)
	}
	return good
}

func (h *vrfCli) final() {
	if h.dead || !h.settle() {
		h.R.Event("client_final_skipped_connection_gone", 1)
		return
	}
	for _, rq := range h.reqs {
		select {
		case <-rq.done:
		default:
			h.R.Event("client_final_skipped_request_running", 1)
			return
		}
	}
	smp := h.sample()
	if smp.streams != 0 {
		h.R.Event("client_final_skipped_streams_open", 1)
		return
	}
	h.R.Event("client_final_checks", 1)
	if smp.unsent > 0 {
		h.R.Event("client_final_with_batched_credit", 1)
	}
	h.L.final(h.Sh.connWin, smp.avail, smp.unsent, "last frames:\n"+h.SC.Trace())
}

// finish ends every consumer (closing the bodies that are still open) and the session.
func (h *vrfCli) finish() {
	for _, rq := range h.reqs {
		func() {
			defer func() { recover() }()
			close(rq.app.cmd)
		}()
	}
	synctest.Wait()
	h.Sess.Teardown()
	for _, rq := range h.reqs {
		select {
		case <-rq.done:
		default:
			h.R.Event("client_request_goroutine_left_behind", 1)
		}
	}
}

func (h *vrfCli) corruptions() {
	for _, rq := range h.reqs {
		rq.app.mu.Lock()
		c := rq.app.corrupt
		rq.app.mu.Unlock()
		if c != "" {
			h.L.viol("client:body-bytes-corrupt", "request %s (stream %d): %s\nlast frames:\n%s", rq.tag, rq.id, c, h.SC.Trace())
		}
	}
}

// ---------------------------------------------------------------------------------------
// small helpers for the scripts

type vrfNotes struct {
	Lines []string
}

func (n *vrfNotes) add(format string, a ...any) {
	if len(n.Lines) < 400 {
		n.Lines = append(n.Lines, fmt.Sprintf(format, a...))
	}
}

func vrfSortedKeys(m map[string]bool) string {
	ks := make([]string, 0, len(m))
	for k := range m {
		ks = append(ks, k)
	}
	sort.Strings(ks)
	return strings.Join(ks, ",")
}
