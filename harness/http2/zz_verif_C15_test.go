//go:build verif

package http2

// C15: the HTTP/2 server obeys stream-state and connection-control rules: no HEADERS/DATA on
// a stream after END_STREAM / RST_STREAM sent or RST_STREAM received, never more handlers
// than the advertised SETTINGS_MAX_CONCURRENT_STREAMS, every PING answered with the same
// data, every SETTINGS acknowledged, malformed requests never reach the handler.
// WIRE monitor + handler events; shared harness in zz_verif_util_srvwire_test.go.

import (
	"fmt"
	"math/rand/v2"
	"net/http"
	"testing"
	"time"

	"golang.org/x/net/internal/verifrt"
	"golang.org/x/net/internal/verifrt/h2ref"
)

type vsrvC15Desc struct {
	Mode    string   `json:"mode"`
	Sched   string   `json:"sched"`
	Adv     uint32   `json:"max_concurrent_streams"`
	Cap     int      `json:"server_to_client_pipe_capacity"`
	InitWin int64    `json:"initial_window"`
	Steps   int      `json:"steps"`
	Script  []string `json:"script"`
	// server-ping mode: Server.ReadIdleTimeout
	ReadIdle time.Duration `json:"read_idle_timeout,omitempty"`
}

type vsrvMalformed struct {
	Name   string
	Fields []vsrvField
}

// vsrvMalformedRequests lists requests that RFC 9113 §8.2.1, §8.2.2, §8.3, §8.3.1 declare
// malformed (or that carry connection-specific fields).
func vsrvMalformedRequests(path string) []vsrvMalformed {
	base := func(extra ...vsrvField) []vsrvField { return vsrvGetFields(path, extra...) }
	without := func(name string) []vsrvField {
		var out []vsrvField
		for _, f := range vsrvGetFields(path) {
			if f.Name != name {
				out = append(out, f)
			}
		}
		return out
	}
	return []vsrvMalformed{
		{"uppercase-name", base(vsrvField{"X-Upper", "v"})},
		{"connection", base(vsrvField{"connection", "close"})},
		{"keep-alive", base(vsrvField{"keep-alive", "timeout=5"})},
		{"proxy-connection", base(vsrvField{"proxy-connection", "keep-alive"})},
		{"transfer-encoding", base(vsrvField{"transfer-encoding", "chunked"})},
		{"upgrade", base(vsrvField{"upgrade", "websocket"})},
		{"te-gzip", base(vsrvField{"te", "gzip"})},
		{"te-trailers-deflate", base(vsrvField{"te", "trailers, deflate"})},
		{"missing-method", without(":method")},
		{"missing-path", without(":path")},
		{"missing-scheme", without(":scheme")},
		{"duplicate-method", base(vsrvField{":method", "GET"})},
		{"duplicate-path", base(vsrvField{":path", "/other"})},
		{"pseudo-after-regular", append(without(":path"), vsrvField{"x-a", "1"}, vsrvField{":path", path})},
		{"unknown-pseudo", base(vsrvField{":foo", "bar"})},
		{"response-pseudo", base(vsrvField{":status", "200"})},
		{"empty-path", append(without(":path"), vsrvField{":path", ""})},
		{"value-lf", base(vsrvField{"x-bad", "a\nb"})},
		{"value-cr", base(vsrvField{"x-bad", "a\rb"})},
		{"value-nul", base(vsrvField{"x-bad", "a\x00b"})},
		{"name-space", base(vsrvField{"x bad", "v"})},
		{"name-colon", base(vsrvField{"x:bad", "v"})},
		{"name-empty", base(vsrvField{"", "v"})},
	}
}

type vsrvC15 struct {
	s         *vsrvSession
	rng       *rand.Rand
	d         *vsrvC15Desc
	nextID    uint32
	fullOpens int
	clientTx  int // request body bytes sent (kept far below the server's receive windows)
	posts     map[uint32]bool
	manyNames int // 0 undecided, 1 this session's valid requests carry many distinct field names, 2 they do not
	nameCtr   int
}

// extraNames returns 0 or 6-12 fields with names this connection has not seen before. The
// server keeps per-connection state keyed by field name (its canonical-name cache, HPACK
// tables); a session that has used a few dozen distinct names exercises the paths taken
// once that state is full, which is when a later connection-specific field must still be
// recognised.
func (x *vsrvC15) extraNames() []vsrvField {
	if x.manyNames == 0 {
		x.manyNames = 1 + x.rng.IntN(2)
	}
	if x.manyNames != 1 {
		return nil
	}
	var out []vsrvField
	for i, n := 0, 6+x.rng.IntN(7); i < n; i++ {
		x.nameCtr++
		out = append(out, vsrvField{fmt.Sprintf("x-verif-field-%04d", x.nameCtr), "v"})
	}
	x.s.mu.Lock()
	x.s.ev["distinct_request_field_names_sent"] += int64(len(out))
	x.s.mu.Unlock()
	return out
}

func (x *vsrvC15) note(f string, a ...any) {
	if len(x.d.Script) < 300 {
		x.d.Script = append(x.d.Script, fmt.Sprintf(f, a...))
	}
}

type vsrvC15View struct {
	running, maybeRunning, provablyOpen int
	live, parked, openPosts             []uint32
}

func (x *vsrvC15) look() (v vsrvC15View) {
	s := x.s
	s.mu.Lock()
	defer s.mu.Unlock()
	v.running = s.hRunning
	v.maybeRunning = s.hRunning + s.hRetSince
	for _, id := range s.order {
		st := s.streams[id]
		if !st.opened {
			continue
		}
		if st.hStarted && !st.hReturned && !st.cliRST && !st.srvRST && !st.srvEnd {
			v.provablyOpen++
		}
		// Streams whose request the script made malformed are left alone afterwards: the
		// server rejects some of them while decoding the header block, without recording the
		// stream id, and then treats a later RST_STREAM / WINDOW_UPDATE on that id as a frame
		// on an idle stream (connection error) — outside what C15 states.
		if !st.malformed && !st.cliRST && !st.srvRST && !(st.srvEnd && st.cliEnd) {
			v.live = append(v.live, id)
			if x.posts[id] && !st.cliEnd {
				v.openPosts = append(v.openPosts, id)
			}
		}
		if st.hParked {
			v.parked = append(v.parked, id)
		}
	}
	return v
}

func (x *vsrvC15) newID() uint32 {
	id := x.nextID
	x.nextID += 2
	return id
}

// plan for a handler: mostly short, often parked (so that the script controls concurrency).
func (x *vsrvC15) plan() []vsrvOp {
	rng := x.rng
	var ops []vsrvOp
	switch rng.IntN(4) {
	case 0:
		ops = append(ops, vsrvOp{Kind: 'p'})
	case 1:
		ops = append(ops, vsrvOp{Kind: 'P'})
	}
	if rng.IntN(3) == 0 {
		ops = append(ops, vsrvOp{Kind: 'f'})
	}
	n := vsrvPick(rng, 0, 1, 100, 5000, 20000, 70000)
	if n > 0 {
		ops = append(ops, vsrvOp{Kind: 'w', N: n})
	}
	if rng.IntN(3) == 0 {
		ops = append(ops, vsrvOp{Kind: 'f'}, vsrvOp{Kind: vsrvPick[byte](rng, 'p', 'P')})
		if rng.IntN(2) == 0 {
			ops = append(ops, vsrvOp{Kind: 'w', N: 1 + rng.IntN(30000)})
		}
	}
	return ops
}

// canOpen reports whether opening one more stream stays inside the early-reset backlog the
// server tolerates (4 × MAX_CONCURRENT_STREAMS queued handlers).
func (x *vsrvC15) canOpen(v vsrvC15View) bool {
	if v.maybeRunning >= int(x.d.Adv) {
		if x.fullOpens >= 4*int(x.d.Adv)-1 {
			return false
		}
		x.fullOpens++
	}
	return true
}

// openGet opens a GET stream. With tryOver it is an *over-limit* open when that can be proved.
//
// Soundness of the over-limit verdict (the two byte directions and the handler events have no
// global order unless the script creates one): the stream is marked over-limit only if
//
//	Q1  the script's previous action was a settle() that found the connection fully quiescent
//	    (settledClean: every goroutine of the bubble durably blocked — virtual time does not
//	    move because the script never sleeps —, all client bytes processed, no server write
//	    blocked or half on the wire, so every END_STREAM / RST_STREAM the server accounts as
//	    written has been seen by the shadow state) and at that instant at least
//	    MAX_CONCURRENT_STREAMS streams had a handler that started and did not return, with no
//	    END_STREAM / RST_STREAM from the server and no RST_STREAM sent by the client: each of
//	    them is open in the server's own accounting (a stream is taken off the server's count
//	    only when it wrote END_STREAM / RST_STREAM or processed the client's RST_STREAM) and
//	    its handler is parked on something only the script or the client can provide;
//	--  the only stimulus after Q1 is the HEADERS frame of the new stream;
//	Q2  the script settles again before doing anything else, and the server has consumed the
//	    HEADERS frame by then (otherwise the mark is withdrawn).
//
// Between Q1 and Q2 nothing but the HEADERS frame can make the server act, so when the serve
// loop processed it all streams counted at Q1 were still open. Streams that the client reset
// are never counted (the server stops counting them when it processes the RST_STREAM, even
// while their handlers are still running — those only count against the handler bound).
func (x *vsrvC15) openGet(tryOver bool) {
	quiescent := tryOver && x.s.settledClean()
	v := x.look()
	over := quiescent && v.provablyOpen >= int(x.d.Adv)
	if tryOver && !over {
		x.s.mu.Lock()
		if !quiescent {
			x.s.ev["over_limit_attempts_not_quiescent"]++
		} else {
			x.s.ev["over_limit_attempts_limit_not_reached"]++
		}
		x.s.mu.Unlock()
	}
	if !over && !x.canOpen(v) {
		return
	}
	id := x.newID()
	x.s.setPlan(id, x.plan())
	if over {
		x.s.mu.Lock()
		x.s.st(id).overLimit = true
		x.s.ev["over_limit_opens"]++
		x.s.mu.Unlock()
	}
	x.s.cliHeaders(id, true, vsrvGetFields(fmt.Sprintf("/s/%d", id), x.extraNames()...))
	x.note("open s=%d over_limit=%v", id, over)
	if over {
		x.s.settle() // Q2: nothing else happens before the server has dealt with the HEADERS
		x.note("settle")
		if !x.s.settledAllRead() {
			x.s.mu.Lock()
			x.s.st(id).overLimit = false
			x.s.ev["over_limit_opens"]--
			x.s.ev["over_limit_opens_withdrawn"]++
			x.s.mu.Unlock()
		}
	}
}

func (x *vsrvC15) openPost() {
	v := x.look()
	if !x.canOpen(v) || x.clientTx > 40000 {
		return
	}
	id := x.newID()
	ops := []vsrvOp{}
	if x.rng.IntN(2) == 0 {
		ops = append(ops, vsrvOp{Kind: 'r'})
	}
	ops = append(ops, x.plan()...)
	x.s.setPlan(id, ops)
	f := vsrvGetFields(fmt.Sprintf("/s/%d", id))
	f[0].Value = "POST"
	x.posts[id] = true
	x.s.cliHeaders(id, false, f)
	x.note("open POST s=%d", id)
}

func (x *vsrvC15) openMalformed(which int) {
	v := x.look()
	if !x.canOpen(v) {
		return
	}
	id := x.newID()
	all := vsrvMalformedRequests(fmt.Sprintf("/s/%d", id))
	if which < 0 {
		which = x.rng.IntN(len(all))
	}
	m := all[which%len(all)]
	x.s.setPlan(id, []vsrvOp{{Kind: 'w', N: 10}})
	x.s.mu.Lock()
	x.s.st(id).malformed = true
	x.s.ev["malformed_requests_sent"]++
	x.s.ev["malformed_"+m.Name]++
	x.s.mu.Unlock()
	x.s.cliHeaders(id, x.rng.IntN(3) != 0, m.Fields)
	x.note("open malformed(%s) s=%d", m.Name, id)
}

func (x *vsrvC15) earlyReset() {
	v := x.look()
	if !x.canOpen(v) {
		return
	}
	id := x.newID()
	x.s.setPlan(id, x.plan())
	x.s.cliHeaders(id, x.rng.IntN(2) == 0, vsrvGetFields(fmt.Sprintf("/s/%d", id)))
	x.s.cliRST(id, h2ref.ErrCancel)
	x.s.mu.Lock()
	x.s.ev["early_resets"]++
	x.s.mu.Unlock()
	x.note("open+RST s=%d", id)
}

func (x *vsrvC15) ping() {
	var p [8]byte
	for i := range p {
		p[i] = byte(x.rng.Uint32())
	}
	x.s.cliPing(p)
	x.note("PING %x", p)
}

func (x *vsrvC15) settings() {
	rng := x.rng
	var ss []h2ref.Setting
	switch rng.IntN(5) {
	case 0:
		ss = append(ss, h2ref.Setting{ID: h2ref.SettingInitialWindowSize, Val: uint32(vsrvPick(rng, 0, 1, 1000, 65535, 1<<20))})
	case 1:
		ss = append(ss, h2ref.Setting{ID: h2ref.SettingMaxFrameSize, Val: uint32(vsrvPick(rng, 16384, 20000, 1<<20))})
	case 2:
		ss = append(ss, h2ref.Setting{ID: h2ref.SettingHeaderTableSize, Val: uint32(vsrvPick(rng, 0, 100, 4096, 65536))})
	case 3:
		ss = append(ss, h2ref.Setting{ID: 0xff, Val: rng.Uint32()}) // unknown: must be ignored, still acknowledged
	case 4: // empty SETTINGS
	}
	x.s.cliSettings(ss...)
	x.note("SETTINGS %v", ss)
}

func vsrvC15Script(s *vsrvSession, rng *rand.Rand, d *vsrvC15Desc) {
	x := &vsrvC15{s: s, rng: rng, d: d, nextID: 1, posts: map[uint32]bool{}}
	s.cliPreface()
	ss := []h2ref.Setting{{ID: h2ref.SettingEnablePush, Val: 0}}
	if d.InitWin != 65535 {
		ss = append(ss, h2ref.Setting{ID: h2ref.SettingInitialWindowSize, Val: uint32(d.InitWin)})
	}
	s.cliSettings(ss...)
	s.settle()
	s.cliSettingsAck()
	s.cliWindowUpdate(0, 1<<24)

	switch d.Mode {
	case "over-limit":
		// fill the limit with parked handlers, then one more stream at a quiescent point
		for i := 0; i < int(d.Adv); i++ {
			id := x.newID()
			s.setPlan(id, []vsrvOp{{Kind: 'p'}, {Kind: 'w', N: 10}})
			s.cliHeaders(id, true, vsrvGetFields("/fill"))
		}
		s.settle()
		for k := 0; k < 3; k++ {
			x.openGet(true)
			s.settle()
		}
		x.ping()
	case "early-reset":
		// all handler slots taken by handlers that ignore cancellation; reset their streams;
		// then open up to 4×limit more streams: their handlers must wait
		var ids []uint32
		for i := 0; i < int(d.Adv); i++ {
			id := x.newID()
			ids = append(ids, id)
			s.setPlan(id, []vsrvOp{{Kind: 'P'}, {Kind: 'w', N: 10}})
			s.cliHeaders(id, true, vsrvGetFields("/fill"))
		}
		s.settle()
		for _, id := range ids {
			s.cliRST(id, h2ref.ErrCancel)
		}
		if rng.IntN(2) == 0 {
			s.settle()
		}
		n := 1 + rng.IntN(4*int(d.Adv)-1)
		for i := 0; i < n; i++ {
			if rng.IntN(2) == 0 {
				x.earlyReset()
			} else {
				x.openGet(false)
			}
			if rng.IntN(3) == 0 {
				s.settle()
			}
		}
		s.settle()
		for _, id := range ids {
			s.release(id)
			if rng.IntN(2) == 0 {
				s.settle()
			}
		}
	case "malformed":
		n := len(vsrvMalformedRequests(""))
		for i := 0; i < n; i++ {
			x.openMalformed(i)
			if rng.IntN(2) == 0 {
				s.settle()
			}
			if rng.IntN(4) == 0 {
				x.openGet(false)
			}
		}
		// a valid TE: trailers request must not be caught by the same net
		id := x.newID()
		s.setPlan(id, []vsrvOp{{Kind: 'w', N: 10}})
		s.cliHeaders(id, true, vsrvGetFields("/te", vsrvField{"te", "trailers"}))
	case "graceful-rst":
		// Graceful shutdown (the client's GOAWAY(NO_ERROR), answered by the server's) with requests
		// still running: the client then resets streams, the newest one included, while their
		// handlers are parked; once the resets have been processed the released handlers must not
		// get a single frame onto those streams.
		var ids []uint32
		for i, n := 0, 1+rng.IntN(3); i < n; i++ {
			id := x.newID()
			ids = append(ids, id)
			s.setPlan(id, []vsrvOp{{Kind: 'p'}, {Kind: 'w', N: 10 + rng.IntN(5000)}})
			s.cliHeaders(id, true, vsrvGetFields("/held"))
		}
		s.settle()
		s.cliWrite(h2ref.AppendGoAway(nil, 0, h2ref.ErrNo, nil))
		x.note("GOAWAY(NO_ERROR) from the client")
		s.settle()
		var reset []uint32
		for i := len(ids) - 1; i >= 0; i-- { // the newest first
			if i == len(ids)-1 || rng.IntN(2) == 0 {
				s.cliRST(ids[i], h2ref.ErrCancel)
				reset = append(reset, ids[i])
				x.note("RST s=%d during the graceful shutdown", ids[i])
			}
		}
		s.settle()
		s.mu.Lock()
		s.ev["streams_reset_during_graceful_shutdown"] += int64(len(reset))
		s.mu.Unlock()
		for _, id := range ids {
			s.release(id)
			if rng.IntN(2) == 0 {
				s.settle()
			}
		}
		s.settle()
	case "server-ping":
		// The server's own keep-alive PING (Server.ReadIdleTimeout) is outstanding while client
		// PINGs arrive, one of them carrying the very same opaque data: it is a PING like any
		// other and is owed an ACK; only a frame with the ACK flag answers the server's.
		for round := 0; round < 1+rng.IntN(3); round++ {
			s.settle()
			s.mu.Lock()
			before := len(s.srvPings)
			s.mu.Unlock()
			time.Sleep(d.ReadIdle + time.Millisecond)
			s.settle()
			s.mu.Lock()
			var sp [][8]byte
			sp = append(sp, s.srvPings[before:]...)
			s.mu.Unlock()
			if len(sp) == 0 {
				x.note("no keep-alive PING after %v of silence", d.ReadIdle)
				break
			}
			s.mu.Lock()
			s.ev["server_keepalive_pings_seen"]++
			s.mu.Unlock()
			steps := []int{0, 1, 2} // 0: client PING with other data, 1: client PING with the same data, 2: the ACK
			rng.Shuffle(len(steps), func(i, j int) { steps[i], steps[j] = steps[j], steps[i] })
			for _, st := range steps {
				switch st {
				case 0:
					x.ping()
				case 1:
					s.cliPing(sp[0])
					x.note("PING %x (same data as the server's outstanding PING)", sp[0])
					s.mu.Lock()
					s.ev["client_pings_with_data_of_outstanding_server_ping"]++
					s.mu.Unlock()
				case 2:
					s.cliPingAck(sp[0])
					x.note("PING ACK %x", sp[0])
				}
				if rng.IntN(2) == 0 {
					s.settle()
				}
			}
			if rng.IntN(2) == 0 {
				x.openGet(false)
			}
		}
	case "settings-ack-min":
		// minimal deterministic history for "two SETTINGS while a frame write is in flight"
		s.setCap(1000)
		id := x.newID()
		s.setPlan(id, []vsrvOp{{Kind: 'w', N: 20000}})
		s.cliHeaders(id, true, vsrvGetFields("/big"))
		s.settle() // HEADERS written; the 16 KiB DATA frame writer is parked in conn.Write
		s.cliSettings()
		s.cliSettings()
		s.settle()
		s.setCap(0) // the client reads everything
		s.settle()
	case "settings-during-write":
		// two SETTINGS (and a PING) arrive while a large frame write is stuck in the pipe
		s.setCap(1 + rng.IntN(8000))
		id := x.newID()
		s.setPlan(id, []vsrvOp{{Kind: 'w', N: 20000 + rng.IntN(60000)}})
		s.cliHeaders(id, true, vsrvGetFields("/big"))
		s.settle() // the async frame writer is now parked in conn.Write
		k := 2 + rng.IntN(3)
		for i := 0; i < k; i++ {
			x.settings()
			if rng.IntN(2) == 0 {
				x.ping()
			}
			if rng.IntN(2) == 0 {
				s.settle()
			}
		}
		s.settle()
		s.setCap(0)
		s.settle()
	}

	for step := 0; step < d.Steps && s.alive(); step++ {
		v := x.look()
		switch a := rng.IntN(100); {
		case a < 14:
			x.openGet(false)
		case a < 18:
			s.settle()
			x.openGet(true)
		case a < 24:
			x.openPost()
		case a < 32:
			x.openMalformed(-1)
		case a < 40:
			x.earlyReset()
		case a < 50: // reset a live stream at whatever point it is
			if len(v.live) > 0 {
				id := v.live[rng.IntN(len(v.live))]
				s.cliRST(id, vsrvPick(rng, h2ref.ErrCancel, h2ref.ErrNo, h2ref.ErrInternal))
				x.note("RST s=%d", id)
			}
		case a < 64:
			if len(v.parked) > 0 {
				id := v.parked[rng.IntN(len(v.parked))]
				s.release(id)
				x.note("release s=%d", id)
			}
		case a < 70:
			x.ping()
		case a < 76:
			x.settings()
		case a < 82: // request body data
			if len(v.openPosts) > 0 {
				id := v.openPosts[rng.IntN(len(v.openPosts))]
				n := rng.IntN(3000)
				end := rng.IntN(3) == 0
				x.clientTx += n
				s.cliData(id, end, vsrvBody[:n])
				x.note("DATA s=%d len=%d end=%v", id, n, end)
			}
		case a < 88:
			if len(v.live) > 0 {
				id := v.live[rng.IntN(len(v.live))]
				s.cliWindowUpdate(id, uint32(1+rng.IntN(100000)))
			}
		case a < 93:
			if d.Cap > 0 {
				if rng.IntN(2) == 0 {
					s.drain(-1)
				} else {
					s.drain(1 + rng.IntN(d.Cap))
				}
				x.note("drain")
			}
		default:
			s.settle()
		}
		if rng.IntN(2) == 0 {
			s.settle()
		}
	}

	// wind down: let everything finish, then the at-quiescence oracles must hold
	s.setCap(0)
	s.settle()
	for round := 0; round < 3 && s.alive(); round++ {
		v := x.look()
		for _, id := range v.live {
			s.releaseAll(id)
			s.cliWindowUpdate(id, 1<<20)
		}
		for _, id := range v.openPosts {
			s.cliData(id, true, nil)
		}
		for _, id := range v.parked {
			s.releaseAll(id)
		}
		s.settle()
	}
	s.mu.Lock()
	if s.healthy() {
		for _, id := range s.order {
			st := s.streams[id]
			if st.malformed && !st.cliRST {
				switch {
				case st.srvRST:
					s.ev["malformed_rejected_by_rst_stream"]++
				case st.srvStatus >= 400 && st.srvStatus < 500:
					s.ev["malformed_rejected_by_4xx"]++
				case st.srvHeaders > 0 && st.srvStatus < 0:
					s.ev["malformed_answer_status_unreadable"]++
				default:
					s.viol(vsrvGrpState, "malformed-request-not-rejected", "stream %d carried a malformed request; at the final quiescent point the server has neither reset it nor answered 4xx (response HEADERS %d, status %d, END_STREAM %v)", id, st.srvHeaders, st.srvStatus, st.srvEnd)
				}
			}
			if st.overLimit && !st.cliRST {
				if st.srvRST && (st.srvRSTCode == h2ref.ErrRefusedStream || st.srvRSTCode == h2ref.ErrProtocol) && st.srvHeaders == 0 {
					s.ev["over_limit_refused"]++
				} else {
					s.viol(vsrvGrpState, "over-limit-stream-not-refused", "stream %d was opened while %d streams were provably open (limit %d) but was not refused with RST_STREAM(REFUSED_STREAM|PROTOCOL_ERROR): rst=%v code=%d response HEADERS=%d", id, s.advMax, s.advMax, st.srvRST, st.srvRSTCode, st.srvHeaders)
				}
			}
		}
	}
	s.mu.Unlock()
}

func vsrvC15Session(r *verifrt.R, c *verifrt.Case, mode string) {
	rng := c.Rng
	d := &vsrvC15Desc{Mode: mode}
	d.Sched = vsrvPick(rng, "", "", "rr", "random")
	d.Adv = vsrvPick[uint32](rng, 1, 2, 3, 4, 8)
	d.Cap = vsrvPick(rng, 0, 0, 0, 4096, 20000, 70000)
	d.InitWin = vsrvPick[int64](rng, 65535, 65535, 0, 100, 1<<20)
	d.Steps = 20 + rng.IntN(100)
	if mode != "random" {
		d.Steps = rng.IntN(30)
		d.Cap = 0
	}
	if mode == "server-ping" {
		d.ReadIdle = time.Duration(vsrvPick(rng, 1, 10, 30, 300)) * time.Second
	}
	if mode == "settings-ack-min" {
		d.Steps, d.InitWin, d.Sched, d.Adv = 0, 65535, "", 8
	}
	c.Describe(d)
	var s *vsrvSession
	inner, outer := vsrvBubble(r.T, func() {
		cfg := vsrvConfig{Groups: vsrvGrpState, Sched: d.Sched, MaxConcurrentStreams: d.Adv, S2CCap: d.Cap}
		if mode == "server-ping" {
			cfg.Tune = func(h1 *http.Server, h2 *Server) { h2.ReadIdleTimeout = d.ReadIdle }
		}
		s = vsrvNewSession(cfg)
		s.start()
		vsrvC15Script(s, rng, d)
		s.finish()
	})
	if s == nil {
		c.Violation("harness-failure", "session did not start: %s %s", inner, outer)
		return
	}
	if inner != "" {
		c.Violation("harness-panic", "panic in the C15 script: %s", inner)
	}
	if outer != "" {
		c.Violation("bubble-did-not-exit:"+outer, "after the client closed the connection and released every handler the bubble could not exit: %s\n%s", outer, s.history(40))
	}
	s.report(r, c)
	s.mu.Lock()
	kinds := 0
	for _, k := range []string{"client_rst_became_effective", "early_resets", "malformed_requests_sent", "over_limit_opens", "client_pings", "client_settings_frames"} {
		if s.ev[k] > 0 {
			kinds++
		}
	}
	nt := kinds >= 4 && s.hMax >= int(d.Adv)
	r.Event(fmt.Sprintf("sessions_mode_%s", mode), 1)
	if int64(s.hMax) == s.advMax {
		r.Event("sessions_reaching_handler_limit", 1)
	}
	sig := fmt.Sprint(d.Mode, d.Adv, d.Cap, d.InitWin, d.Script)
	if mode == "random" && len(d.Script) > 20 {
		r.Sample(map[string]any{"case": d, "handler_starts": s.hStarts, "max_running": s.hMax, "server_frames": s.srvFrames})
	}
	s.mu.Unlock()
	r.Eval(nt, sig)
}

func TestVerif_C15(t *testing.T) {
	r := verifrt.Start(t, "C15")
	defer r.Finish()
	r.SetRule("one case = one server connection (MAX_CONCURRENT_STREAMS in {1,2,3,4,8}, sometimes a bounded server-to-client pipe the client drains at PRNG points) driven by a PRNG client script of 20-120 steps: GET/POST opens (also at provably-full quiescent points), 23 kinds of malformed / connection-specific requests, open+immediate RST_STREAM, RST_STREAM of live streams at any point, handler releases (handlers park, some ignoring cancellation), PING, SETTINGS (incl. empty/unknown), request DATA, WINDOW_UPDATE, drains; plus four directed openings (limit filled then exceeded; all handlers busy with reset streams then up to 4x limit new streams; every malformed kind once; several SETTINGS+PING while a large frame write is stuck in the pipe). non-trivial = the session used at least 4 of {effective client reset, early reset, malformed request, over-limit open, PING, extra SETTINGS} and reached the handler limit; distinct = script text")
	r.Assume("frames decoded by the independent h2ref reader; a client RST_STREAM counts as received only from the next quiescent point at which the server had consumed all client bytes and had no write in progress; the handler bound is measured by start/return hooks inside the user handler; PING/SETTINGS answers are compared at quiescent points while the connection is open with no GOAWAY seen")
	r.Assume("a stream counts as opened beyond the limit only when it is bracketed by two quiescent points: at the first (all client bytes processed, no server write blocked or half on the wire, nothing done by the script since) at least MAX_CONCURRENT_STREAMS streams had a started, unreturned handler and neither END_STREAM/RST_STREAM from the server nor RST_STREAM from the client; then only the HEADERS frame is sent and the script waits for quiescence again before any release/reset/drain — handler releases and the server reading a frame are otherwise unordered, and the server stops counting a stream as soon as it has buffered END_STREAM/RST_STREAM for it")
	r.Assume("a malformed request answered by a 4xx response instead of RST_STREAM counts as rejected (RFC 9113 §8.1.1 allows an HTTP response before closing the stream); the requirement checked strictly is that the user handler never runs")

	vsrvGoroutineTracking(true)
	r.CasesParallel("session-gotrack", r.N(20, 400), 0, func(c *verifrt.Case) { vsrvC15Session(r, c, "random") })
	vsrvGoroutineTracking(false)
	n := r.N(500, 15000)
	r.Cases("directed-settings-ack-min", 1, func(c *verifrt.Case) { vsrvC15Session(r, c, "settings-ack-min") })
	for _, m := range []string{"over-limit", "early-reset", "malformed", "settings-during-write", "server-ping", "graceful-rst"} {
		m := m
		r.CasesParallel("directed-"+m, n/10, 0, func(c *verifrt.Case) { vsrvC15Session(r, c, m) })
	}
	r.CasesParallel("session", n, 0, func(c *verifrt.Case) { vsrvC15Session(r, c, "random") })

	r.Require("stream_frames_state_checked", 2000)
	r.Require("client_rst_became_effective", 300)
	r.Require("handler_starts", 1000)
	r.Require("sessions_reaching_handler_limit", 100)
	r.Require("over_limit_refused", 50)
	r.Require("early_resets", 200)
	r.Require("malformed_requests_sent", 500)
	r.Require("distinct_request_field_names_sent", 5000)
	r.Require("malformed_rejected_by_rst_stream", 100)
	r.Require("malformed_rejected_by_4xx", 50)
	r.Require("server_ping_acks", 300)
	r.Require("client_pings_with_data_of_outstanding_server_ping", 20)
	r.Require("streams_reset_during_graceful_shutdown", 30)
	r.Require("server_settings_acks", 500)
	r.Require("quiescent_points_evaluated", 2000)
}
