//go:build verif

package http2

// C14 (part 1 of 3): the in-memory pipe that joins the real Transport and the real Server,
// and the wire shadow fed by its tee. Every byte of both directions is split into frames by
// the independent reader h2ref; header blocks are decoded by the independent HPACK
// reference hpackref (never by the Framer / hpack package under test).
//
// Every top-level identifier of the C14 files starts with v14.

import (
	"fmt"
	"io"
	"net"
	"sync"
	"sync/atomic"
	"time"

	"golang.org/x/net/internal/verifrt/h2ref"
	"golang.org/x/net/internal/verifrt/hpackref"
)

// ---------------------------------------------------------------------------------------
// small deterministic helpers (each goroutine owns its v14Rand; c.Rng is only used while the
// case is being generated)

func v14Mix(x uint64) uint64 {
	x ^= x >> 30
	x *= 0xbf58476d1ce4e5b9
	x ^= x >> 27
	x *= 0x94d049bb133111eb
	x ^= x >> 31
	return x
}

type v14Rand struct{ s uint64 }

func (r *v14Rand) u64() uint64 { r.s += 0x9e3779b97f4a7c15; return v14Mix(r.s) }
func (r *v14Rand) intn(n int) int {
	if n <= 1 {
		return 0
	}
	return int(r.u64() % uint64(n))
}

// v14Body describes a body: Len bytes, byte i is Magic[i] for i < len(Magic), otherwise a
// function of (Seed, i). Random access, so any chunk can be produced or verified.
type v14Body struct {
	Len   int64  `json:"len"`
	Seed  uint64 `json:"seed"`
	Text  bool   `json:"text,omitempty"`
	Magic string `json:"magic,omitempty"`
}

const v14TextAlpha = "abcdefghijklmnopqrstuvwxyz \n.,ABCDEFGHIJKLMNOPQRSTUVWXYZ0123456789-_"

func (b *v14Body) fill(off int64, p []byte) {
	i := 0
	for i < len(p) {
		pos := off + int64(i)
		if pos < int64(len(b.Magic)) {
			p[i] = b.Magic[pos]
			i++
			continue
		}
		w := v14Mix(b.Seed + uint64(pos>>3)*0x9e3779b97f4a7c15)
		for j := int(pos & 7); j < 8 && i < len(p); j++ {
			c := byte(w >> (8 * uint(j)))
			if b.Text {
				c = v14TextAlpha[c&63]
			}
			p[i] = c
			i++
		}
	}
}

func (b *v14Body) bytes() []byte {
	p := make([]byte, b.Len)
	b.fill(0, p)
	return p
}

// v14Checker verifies a byte stream against a v14Body in order.
type v14Checker struct {
	b       *v14Body
	raw     []byte // when non-nil the expected bytes are these, not b
	off     int64
	badAt   int64 // first differing offset, -1 none
	gotByte byte
	expByte byte
	scratch []byte
}

func v14NewChecker(b *v14Body) *v14Checker { return &v14Checker{b: b, badAt: -1} }

func (k *v14Checker) feed(p []byte) {
	if k.badAt < 0 && len(p) > 0 {
		n := int64(len(p))
		if k.off+n > k.want() {
			n = k.want() - k.off
			if n < 0 {
				n = 0
			}
		}
		var exp []byte
		if k.raw != nil {
			exp = k.raw[k.off : k.off+n]
		} else {
			if int64(cap(k.scratch)) < n {
				k.scratch = make([]byte, n)
			}
			exp = k.scratch[:n]
			k.b.fill(k.off, exp)
		}
		for i := range exp {
			if exp[i] != p[i] {
				k.badAt, k.gotByte, k.expByte = k.off+int64(i), p[i], exp[i]
				break
			}
		}
	}
	k.off += int64(len(p))
}

func (k *v14Checker) want() int64 {
	if k.raw != nil {
		return int64(len(k.raw))
	}
	return k.b.Len
}

// result: "" when the stream was exactly the body.
func (k *v14Checker) result() string {
	switch {
	case k.badAt >= 0:
		return fmt.Sprintf("byte at offset %d is 0x%02x, expected 0x%02x (body of %d bytes, %d received)", k.badAt, k.gotByte, k.expByte, k.want(), k.off)
	case k.off != k.want():
		return fmt.Sprintf("%d bytes received, %d sent", k.off, k.want())
	}
	return ""
}

// v14Chunker yields chunk sizes.
type v14Chunker struct {
	Mode int
	r    v14Rand
	n    int
	Cap  int // after this many chunks the rest goes in one piece (0: 2500)
}

var v14Boundaries = []int{1, 2, 100, 511, 512, 513, 4095, 4096, 4097, 8192, 16383, 16384, 16385, 32768, 65535, 65536, 65537}

func (k *v14Chunker) next() int {
	k.n++
	if c := k.Cap; (c > 0 && k.n > c) || k.n > 2500 { // keep tiny-chunk plans bounded
		return 1 << 22
	}
	m := k.Mode
	if m >= 6 {
		m = k.r.intn(6)
	}
	switch m {
	case 0:
		return 1 << 22
	case 1:
		return 1 + k.r.intn(16)
	case 2:
		return 1 + k.r.intn(300)
	case 3:
		return 1000 + k.r.intn(8000)
	case 4:
		return v14Boundaries[k.r.intn(len(v14Boundaries))]
	}
	return 1 + k.r.intn(1<<20)
}

// ---------------------------------------------------------------------------------------
// pipe

type v14Addr string

func (a v14Addr) Network() string { return "v14" }
func (a v14Addr) String() string  { return string(a) }

// v14Pipe is a bidirectional in-memory byte pipe with a bounded buffer per direction
// (capacity <= 0: unbounded). Direction 0 is client→server, 1 is server→client.
//
// Inside a synctest bubble the capacities are unbounded: the Transport holds its write mutex
// while it is inside conn.Write, and a goroutine waiting for a sync.Mutex is not durably
// blocked, so a peer that stops reading (any connection error) would make synctest.Wait and
// the virtual clock hang for good. Back-pressure is exercised in the real-time mode.
type v14Pipe struct {
	mu       sync.Mutex
	cond     *sync.Cond
	buf      [2][]byte
	cap      [2]int
	rmax     [2]int
	closed   [2]bool // [0] the client closed its end, [1] the server closed its end
	hold     bool    // server→client bytes are queued (unbounded) but not yet delivered
	wire     *v14Wire
	progress *atomic.Int64
	total    [2]int64
}

type v14End struct {
	p    *v14Pipe
	side int // 0 = the client's end, 1 = the server's end
}

func v14NewPipe(capC2S, capS2C, rmaxSrv, rmaxCli int, wire *v14Wire, progress *atomic.Int64) *v14Pipe {
	p := &v14Pipe{wire: wire, progress: progress}
	p.cond = sync.NewCond(&p.mu)
	p.cap = [2]int{capC2S, capS2C}
	p.rmax = [2]int{rmaxSrv, rmaxCli}
	return p
}

func (e *v14End) Read(b []byte) (int, error) {
	p, d := e.p, 1-e.side
	p.mu.Lock()
	defer p.mu.Unlock()
	for {
		if p.closed[e.side] {
			return 0, net.ErrClosed
		}
		held := d == 1 && p.hold
		if len(p.buf[d]) > 0 && !held {
			break
		}
		if p.closed[1-e.side] && !held {
			return 0, io.EOF
		}
		p.cond.Wait()
	}
	n := len(b)
	if n > len(p.buf[d]) {
		n = len(p.buf[d])
	}
	if p.rmax[d] > 0 && n > p.rmax[d] {
		n = p.rmax[d]
	}
	copy(b, p.buf[d][:n])
	p.buf[d] = p.buf[d][n:]
	if len(p.buf[d]) == 0 {
		p.buf[d] = nil
	}
	p.progress.Add(1)
	p.cond.Broadcast()
	return n, nil
}

func (e *v14End) Write(b []byte) (int, error) {
	p, d := e.p, e.side
	p.mu.Lock()
	defer p.mu.Unlock()
	total := 0
	for len(b) > 0 {
		if p.closed[e.side] {
			return total, net.ErrClosed
		}
		if p.closed[1-e.side] {
			return total, io.ErrClosedPipe
		}
		space := p.cap[d] - len(p.buf[d])
		if (d == 1 && p.hold) || p.cap[d] <= 0 {
			space = len(b)
		}
		if space <= 0 {
			p.cond.Wait()
			continue
		}
		if space > len(b) {
			space = len(b)
		}
		p.wire.feed(d, b[:space])
		p.buf[d] = append(p.buf[d], b[:space]...)
		p.total[d] += int64(space)
		b = b[space:]
		total += space
		p.progress.Add(1)
		p.cond.Broadcast()
	}
	return total, nil
}

func (e *v14End) Close() error {
	p := e.p
	p.mu.Lock()
	p.closed[e.side] = true
	p.cond.Broadcast()
	p.mu.Unlock()
	return nil
}

func (p *v14Pipe) release() {
	p.mu.Lock()
	p.hold = false
	p.cond.Broadcast()
	p.mu.Unlock()
}

func (p *v14Pipe) closeAll() {
	p.mu.Lock()
	p.closed[0], p.closed[1], p.hold = true, true, false
	p.cond.Broadcast()
	p.mu.Unlock()
}

func (e *v14End) LocalAddr() net.Addr {
	if e.side == 0 {
		return v14Addr("client:1")
	}
	return v14Addr("server:443")
}
func (e *v14End) RemoteAddr() net.Addr {
	if e.side == 0 {
		return v14Addr("server:443")
	}
	return v14Addr("client:1")
}
func (e *v14End) SetDeadline(time.Time) error      { return nil }
func (e *v14End) SetReadDeadline(time.Time) error  { return nil }
func (e *v14End) SetWriteDeadline(time.Time) error { return nil }

// ---------------------------------------------------------------------------------------
// wire shadow

type v14Snap struct {
	initWin, maxFrame, tableSize, maxHdrList int64
}

type v14WStream struct {
	id         uint32
	exch       int // index of the exchange, -1 unknown
	sent       [2]int64
	wu         [2]int64 // WINDOW_UPDATE credit granted to the sender of direction d
	ended      [2]bool
	blocks     [2]int
	contFrames [2]int
	listSize   [2]int64 // RFC 9113 section 6.5.2 size of the largest field block of the direction
	exhausted  [2]int
	resumed    [2]int
	pendingExh [2]bool
	dataFrames [2]int
	rstBy      int // 0 none, 1 client, 2 server
	rstCode    uint32
	// at the first RST_STREAM: the other request streams that were open on the wire at that
	// moment (request HEADERS sent, not reset, END_STREAM not yet seen in both directions)
	openAtRst int
	beforeAck bool // the request HEADERS were written before the client acknowledged the server's SETTINGS
}

type v14Side struct {
	in          []byte
	prefaceLeft int
	snaps       []v14Snap // SETTINGS this side has sent; [0] = protocol defaults
	acks        int       // SETTINGS ACK frames this side has sent
	lo          int       // lowest peer snapshot this side can still be using
	connSent    int64
	connWU      int64 // connection-level credit this side has granted to its peer
	hdrOpen     bool
	hdrStream   uint32
	hdrBuf      []byte
	hdrFlags    uint8
	hdrFrames   int
	dec         *hpackref.Decoder
	garbage     bool
}

type v14WViol struct {
	Key, Detail string
	Count       int
}

// v14Wire is guarded by the pipe's mutex while the pipe is live; the session reads it after
// both directions have stopped.
type v14Wire struct {
	side            [2]v14Side
	streams         map[uint32]*v14WStream
	viols           []*v14WViol
	ev              map[string]int64
	trace           []v14TraceEnt
	goAway          [2]int
	blocksBeforeAck int // client field blocks written before the client acknowledged the server's SETTINGS
	goCode          [2]uint32
	onBlock         func(d int, st *v14WStream, fields []hpackref.Field) // request blocks: lets the session attribute the stream
}

func v14NewWire() *v14Wire {
	w := &v14Wire{streams: map[uint32]*v14WStream{}, ev: map[string]int64{}}
	def := v14Snap{initWin: 65535, maxFrame: 16384, tableSize: 4096, maxHdrList: 1 << 62}
	for d := range w.side {
		w.side[d].snaps = []v14Snap{def}
		w.side[d].dec = hpackref.NewDecoder(4096)
	}
	w.side[0].prefaceLeft = len(h2ref.ClientPreface)
	return w
}

type v14TraceEnt struct {
	f string
	a []any
}

// tr records a trace line; formatting is deferred (arguments must be values, not buffers).
func (w *v14Wire) tr(format string, a ...any) {
	if len(w.trace) >= 120 {
		w.trace = append(w.trace[:0], w.trace[60:]...)
	}
	w.trace = append(w.trace, v14TraceEnt{format, a})
}

func (w *v14Wire) history() string {
	s := ""
	for _, l := range w.trace {
		s += "\n  " + fmt.Sprintf(l.f, l.a...)
	}
	return s
}

func (w *v14Wire) viol(key, format string, a ...any) {
	for _, v := range w.viols {
		if v.Key == key {
			v.Count++
			return
		}
	}
	w.viols = append(w.viols, &v14WViol{Key: key, Detail: fmt.Sprintf(format, a...) + "\nlast frames:" + w.history(), Count: 1})
}

func (w *v14Wire) st(id uint32) *v14WStream {
	st := w.streams[id]
	if st == nil {
		st = &v14WStream{id: id, exch: -1}
		w.streams[id] = st
	}
	return st
}

var v14DirName = [2]string{"C>S", "S>C"}

func (w *v14Wire) feed(d int, p []byte) {
	sd := &w.side[d]
	if sd.garbage {
		return
	}
	sd.in = append(sd.in, p...)
	if sd.prefaceLeft > 0 {
		n := sd.prefaceLeft
		if n > len(sd.in) {
			n = len(sd.in)
		}
		off := len(h2ref.ClientPreface) - sd.prefaceLeft
		if string(sd.in[:n]) != h2ref.ClientPreface[off:off+n] {
			sd.garbage = true
			w.viol("wire-bad-client-preface", "the client's first bytes are %q", sd.in[:n])
			return
		}
		sd.in = sd.in[n:]
		sd.prefaceLeft -= n
		if sd.prefaceLeft > 0 {
			return
		}
	}
	frames, rest := h2ref.ParseAll(sd.in)
	if len(frames) == 0 {
		return
	}
	for _, f := range frames {
		w.onFrame(d, f)
	}
	sd.in = append(sd.in[:0:0], rest...)
}

func (w *v14Wire) maxFrameAllowed(d int) int64 {
	me, peer := &w.side[d], &w.side[1-d]
	var m int64
	for j := me.lo; j < len(peer.snaps); j++ {
		if peer.snaps[j].maxFrame > m {
			m = peer.snaps[j].maxFrame
		}
	}
	return m
}

func (w *v14Wire) onFrame(d int, f h2ref.Frame) {
	me, peer := &w.side[d], &w.side[1-d]
	w.ev["frames_"+[2]string{"c2s", "s2c"}[d]]++
	if me.hdrOpen && (f.Type != h2ref.TypeContinuation || f.StreamID != me.hdrStream) {
		w.viol("wire-header-block-interleaved", "%s %v inside the field block of stream %d", v14DirName[d], f, me.hdrStream)
		me.hdrOpen = false
	}
	if m := w.maxFrameAllowed(d); int64(f.Length) > m {
		w.viol("wire-frame-exceeds-max-frame-size", "%s %v but the largest SETTINGS_MAX_FRAME_SIZE the sender can rely on is %d", v14DirName[d], f, m)
	}
	switch f.Type {
	case h2ref.TypeSettings:
		if f.Has(h2ref.FlagAck) {
			me.acks++
			w.tr("%s SETTINGS ACK #%d", v14DirName[d], me.acks)
			if me.acks > len(peer.snaps)-1 {
				w.viol("wire-settings-ack-unsolicited", "%s SETTINGS ACK number %d but the peer sent %d SETTINGS frames", v14DirName[d], me.acks, len(peer.snaps)-1)
				me.acks = len(peer.snaps) - 1
			}
			if me.acks > me.lo {
				me.lo = me.acks
			}
			return
		}
		ss, err := f.Settings()
		if err != nil {
			w.viol("wire-malformed-settings", "%s %v: %v", v14DirName[d], f, err)
			return
		}
		sn := me.snaps[len(me.snaps)-1]
		for _, x := range ss {
			switch x.ID {
			case h2ref.SettingInitialWindowSize:
				sn.initWin = int64(x.Val)
			case h2ref.SettingMaxFrameSize:
				sn.maxFrame = int64(x.Val)
			case h2ref.SettingHeaderTableSize:
				sn.tableSize = int64(x.Val)
			case h2ref.SettingMaxHeaderListSize:
				sn.maxHdrList = int64(x.Val)
			}
		}
		me.snaps = append(me.snaps, sn)
		w.tr("%s SETTINGS #%d %v", v14DirName[d], len(me.snaps)-1, ss)
	case h2ref.TypeWindowUpdate:
		inc, err := f.WindowIncrement()
		if err != nil {
			w.viol("wire-malformed-window-update", "%s %v: %v", v14DirName[d], f, err)
			return
		}
		if f.StreamID == 0 {
			me.connWU += int64(inc)
		} else {
			w.st(f.StreamID).wu[1-d] += int64(inc)
		}
		w.ev["window_updates"]++
		w.tr("%s WINDOW_UPDATE s=%d +%d", v14DirName[d], f.StreamID, inc)
	case h2ref.TypeHeaders:
		frag, _, _, err := f.Headers()
		if err != nil {
			w.viol("wire-malformed-headers", "%s %v: %v", v14DirName[d], f, err)
			return
		}
		st := w.st(f.StreamID)
		if st.ended[d] {
			w.viol("wire-frame-after-end-stream", "%s HEADERS on stream %d after the sender's END_STREAM", v14DirName[d], f.StreamID)
		}
		me.hdrOpen, me.hdrStream, me.hdrFlags, me.hdrFrames = true, f.StreamID, f.Flags, 1
		me.hdrBuf = append(me.hdrBuf[:0], frag...)
		w.tr("%s HEADERS s=%d len=%d flags=0x%x", v14DirName[d], f.StreamID, f.Length, f.Flags)
		if f.Has(h2ref.FlagEndHeaders) {
			w.endBlock(d)
		}
	case h2ref.TypeContinuation:
		if !me.hdrOpen {
			w.viol("wire-unexpected-continuation", "%s %v without an open field block", v14DirName[d], f)
			return
		}
		me.hdrBuf = append(me.hdrBuf, f.Payload...)
		me.hdrFrames++
		w.ev["continuation_frames_"+[2]string{"c2s", "s2c"}[d]]++
		w.tr("%s CONTINUATION s=%d len=%d flags=0x%x", v14DirName[d], f.StreamID, f.Length, f.Flags)
		if f.Has(h2ref.FlagEndHeaders) {
			w.endBlock(d)
		}
	case h2ref.TypeData:
		w.onData(d, f)
	case h2ref.TypeRSTStream:
		code, _ := f.RSTCode()
		st := w.st(f.StreamID)
		if st.rstBy == 0 {
			st.rstBy, st.rstCode = d+1, code
			for _, o := range w.streams {
				if o != st && o.blocks[0] > 0 && o.rstBy == 0 && !(o.ended[0] && o.ended[1]) {
					st.openAtRst++
				}
			}
		}
		w.ev["rst_stream_"+[2]string{"c2s", "s2c"}[d]]++
		w.tr("%s RST_STREAM s=%d code=%d", v14DirName[d], f.StreamID, code)
	case h2ref.TypeGoAway:
		last, code, dbg, _ := f.GoAway()
		w.goAway[d]++
		if w.goAway[d] == 1 || code != 0 {
			w.goCode[d] = code
		}
		w.tr("%s GOAWAY last=%d code=%d debug=%q", v14DirName[d], last, code, string(dbg))
	case h2ref.TypePing:
		w.tr("%s PING flags=0x%x", v14DirName[d], f.Flags)
	default:
		w.tr("%s %s", v14DirName[d], f.String())
	}
}

func (w *v14Wire) onData(d int, f h2ref.Frame) {
	me, peer := &w.side[d], &w.side[1-d]
	st := w.st(f.StreamID)
	L := int64(f.Length)
	dn := [2]string{"c2s", "s2c"}[d]
	w.ev["data_frames_"+dn]++
	w.ev["data_bytes_"+dn] += L
	st.dataFrames[d]++
	end := f.Has(h2ref.FlagEndStream)
	w.tr("%s DATA s=%d len=%d flags=0x%x", v14DirName[d], f.StreamID, f.Length, f.Flags)
	if st.ended[d] {
		w.viol("wire-frame-after-end-stream", "%s DATA on stream %d after the sender's END_STREAM", v14DirName[d], f.StreamID)
	}
	if end {
		st.ended[d] = true
	}
	if L == 0 {
		return
	}
	if st.pendingExh[d] {
		st.pendingExh[d] = false
		st.resumed[d]++
		w.ev["resumed_after_window_update_"+dn]++
	}
	connWin := 65535 + peer.connWU - me.connSent
	if L > connWin {
		w.viol("wire-data-exceeds-conn-window", "%s DATA of %d bytes on stream %d, connection send window %d", v14DirName[d], L, st.id, connWin)
	}
	feasible, sizeOK := -1, false
	var wins []string
	for j := me.lo; j < len(peer.snaps); j++ {
		sn := peer.snaps[j]
		win := sn.initWin + st.wu[d] - st.sent[d]
		wins = append(wins, fmt.Sprintf("#%d:window=%d,maxframe=%d", j, win, sn.maxFrame))
		if L <= sn.maxFrame {
			sizeOK = true
			if L <= win {
				feasible = j
				break
			}
		}
	}
	if feasible < 0 {
		if sizeOK {
			w.viol("wire-data-exceeds-stream-window", "%s DATA of %d bytes on stream %d (sent before %d, credit %d) exceeds the stream window under every admissible SETTINGS snapshot %v", v14DirName[d], L, st.id, st.sent[d], st.wu[d], wins)
		}
	} else if feasible > me.lo {
		me.lo = feasible
	}
	st.sent[d] += L
	me.connSent += L
	if !end {
		latest := peer.snaps[len(peer.snaps)-1]
		sw := latest.initWin + st.wu[d] - st.sent[d]
		if sw <= 0 {
			st.exhausted[d]++
			st.pendingExh[d] = true
			w.ev["stream_window_exhausted_"+dn]++
		} else if connWin-L <= 0 {
			st.exhausted[d]++
			st.pendingExh[d] = true
			w.ev["conn_window_exhausted_"+dn]++
		}
	}
}

var v14ConnSpecific = map[string]bool{"connection": true, "proxy-connection": true, "keep-alive": true, "transfer-encoding": true, "upgrade": true}

func (w *v14Wire) endBlock(d int) {
	me, peer := &w.side[d], &w.side[1-d]
	me.hdrOpen = false
	st := w.st(me.hdrStream)
	dn := [2]string{"c2s", "s2c"}[d]
	first := st.blocks[d] == 0
	st.blocks[d]++
	st.contFrames[d] += me.hdrFrames - 1
	w.ev["header_blocks_"+dn]++
	if me.hdrFrames > 1 {
		w.ev["header_blocks_with_continuation_"+dn]++
	}
	if n := int64(len(me.hdrBuf)); n > 0 && n%16384 == 0 {
		w.ev["header_blocks_of_exactly_a_multiple_of_16384_octets_"+dn]++
	}
	if me.hdrFlags&h2ref.FlagEndStream != 0 {
		st.ended[d] = true
	}
	if d == 0 && first {
		st.beforeAck = me.acks == 0
	}
	if d == 0 && me.acks == 0 {
		w.blocksBeforeAck++
	}
	// the table the peer has to provide: the largest size it has advertised and the sender may rely on
	var allowed int64
	for j := me.lo; j < len(peer.snaps); j++ {
		if peer.snaps[j].tableSize > allowed {
			allowed = peer.snaps[j].tableSize
		}
	}
	me.dec.Allowed = allowed
	res := me.dec.Decode(me.hdrBuf)
	if res.Err != "" {
		w.viol("wire-field-block-undecodable:"+res.Err, "%s field block of stream %d (%d bytes, %d frames) does not decode with the RFC 7541 reference decoder: %s %s (dynamic table limit %d)", v14DirName[d], st.id, len(me.hdrBuf), me.hdrFrames, res.Err, res.ErrDetail, allowed)
		return
	}
	if me.dec.Size > allowed {
		w.viol("wire-hpack-table-exceeds-advertised-size", "%s after the field block of stream %d the encoder's dynamic table holds %d bytes, the decoder advertised at most %d", v14DirName[d], st.id, me.dec.Size, allowed)
	}
	var size int64
	regular := false
	for _, f := range res.Fields {
		size += f.Size()
		for i := 0; i < len(f.Name); i++ {
			if c := f.Name[i]; c >= 'A' && c <= 'Z' {
				w.viol("wire-uppercase-field-name", "%s field name %q on stream %d", v14DirName[d], f.Name, st.id)
				break
			}
		}
		if len(f.Name) > 0 && f.Name[0] == ':' {
			if regular {
				w.viol("wire-pseudo-after-regular", "%s pseudo-header field %q after a regular field on stream %d", v14DirName[d], f.Name, st.id)
			}
		} else {
			regular = true
			if v14ConnSpecific[f.Name] {
				w.viol("wire-connection-specific-field", "%s field %q on stream %d", v14DirName[d], f.Name, st.id)
			}
		}
	}
	if size > st.listSize[d] {
		st.listSize[d] = size
	}
	w.ev["wire_fields_decoded"] += int64(len(res.Fields))
	for _, rp := range res.Reps {
		if rp.Kind == 'I' && rp.Index.V > 61 {
			w.ev["hpack_dynamic_table_references"]++
		}
		if rp.Kind == 'S' {
			w.ev["hpack_table_size_updates"]++
		}
	}
	if w.onBlock != nil {
		w.onBlock(d, st, res.Fields)
	}
}
