//go:build verif && !(go1.27 && !http2legacy)

package http2

import (
	"testing"

	"golang.org/x/net/internal/verifrt"
)

var vwsC12Configs = []vwsConfig{
	{Name: "random"},
	{Name: "roundrobin"},
	{Name: "rfc9218"},
	{Name: "random"},
	{Name: "roundrobin"},
	{Name: "rfc9218"},
	{Name: "rfc7540", NilCfg: true},
	{Name: "rfc7540", MaxClosed: 0, MaxIdle: 0},
	{Name: "rfc7540", MaxClosed: 0, MaxIdle: 10, Throttle: true},
	{Name: "rfc7540", MaxClosed: 1, MaxIdle: 10},
	{Name: "rfc7540", MaxClosed: 10, MaxIdle: 3, Throttle: true},
	{Name: "rfc7540", MaxClosed: 0, MaxIdle: 1},
}

func TestVerif_C12(t *testing.T) {
	r := verifrt.Start(t, "C12")
	defer r.Finish()
	r.SetRule("PRNG histories of OpenStream/CloseStream/AdjustStream/Push/Pop plus window changes on each of the four write schedulers (RFC 7540 one with nil config and MaxClosedNodesInTree 0/1/10, MaxIdleNodesInTree 0/1/3/10, throttle on/off); 'short' 6-30 ops, 'long' 50-400 ops, 2-8 open streams; every Pop is compared with a sequential FIFO model. non-trivial = history that closed a stream with frames still queued and had >=10 successful Pops afterwards; distinct by (config, complete op log)")
	r.Assume("the harness model (FIFO per open stream, control FIFO, stream/connection windows) is the WriteScheduler contract of writesched_common.go; contract limits taken from serverConn: ids never reused, stream frames only on open streams, RST_STREAM/connection frames with stream==nil, no self-dependency")
	r.Assume("violations seen on the RFC 7540 scheduler after CloseStream of a stream with queued frames (closed node retained) or on a stream opened after being prioritised while idle carry a suffix naming that situation")

	run := func(stream string, n int, p vwsParams) {
		r.CasesParallel(stream, n, 0, func(c *verifrt.Case) {
			cfg := vwsC12Configs[c.Index%len(vwsC12Configs)]
			h := vwsRunGuarded(c, r, cfg, p)
			if h == nil {
				return
			}
			nt := h.nCloseQueued > 0 && h.nPopsAfterCloseQueued >= 10
			r.Eval(nt, h.signature())
			if nt {
				r.Event("histories_nontrivial", 1)
			}
			if c.Index < 2*len(vwsC12Configs) && c.Index%5 == 0 && stream == "short" {
				ops := h.log.Ops
				if len(ops) > 25 {
					ops = ops[:25]
				}
				r.Sample(map[string]any{"config": cfg.String(), "conn": h.log.Conn, "first_ops": ops})
			}
		})
	}
	short := vwsParams{minOps: 6, maxOps: 30, maxStreams: 4, urgencies: 3,
		wOpen: 8, wClose: 8, wAdjust: 8, wData: 22, wHeaders: 8, wCtl: 6, wWindow: 8, wPop: 30, wMaxFrame: 1}
	long := vwsParams{minOps: 50, maxOps: 400, maxStreams: 8, urgencies: 3,
		wOpen: 7, wClose: 6, wAdjust: 10, wData: 22, wHeaders: 8, wCtl: 6, wWindow: 10, wPop: 30, wMaxFrame: 1}
	run("short", r.N(8000, 320000), short)
	run("long", r.N(2000, 80000), long)

	r.Require("closes_with_queued_frames", 500)
	r.Require("histories_nontrivial", 200)
	r.Require("data_frames_delivered_split", 500)
	r.Require("pops_none_all_blocked_by_flow_control", 500)
	r.Require("opens_after_a_close(pooled_queue_reuse)", 500)
	r.Require("adjusts_idle", 100)
	r.Require("adjusts_closed", 100)
	r.Require("popped_rst_stream", 100)
	for _, k := range []string{"random", "roundrobin", "rfc9218", "rfc7540"} {
		r.Require("histories_"+k, 100)
	}
}
