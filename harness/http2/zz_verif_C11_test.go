//go:build verif

package http2

// C11: HTTP/2 endpoints enforce their advertised receive windows (server and Transport).
//
// The scripted peer computes every DATA frame against the window it has actually been given
// (zz_verif_C10_C11_recvflow_test.go: initial value / announced SETTINGS_INITIAL_WINDOW_SIZE +
// WINDOW_UPDATEs received − DATA sent, padding included) and probes the boundary:
//
//	fill      DATA up to exactly the window (stream window, connection window, or both at once),
//	          in one or several frames, with or without padding, from a quiescent state or racing
//	          with the application's reads (the peer's view is then a lower bound): must be
//	          accepted — no FLOW_CONTROL_ERROR, every byte reaches the request/response body;
//	read      the application reads k bytes: k < 4096 leaves the refund batched (no WINDOW_UPDATE,
//	          the window the peer may use does NOT grow), larger reads produce WINDOW_UPDATEs;
//	          then the peer fills exactly the new window again;
//	overflow  from a quiescent state with the application idle, 1..n more flow-controlled bytes
//	          (1 data byte, an empty padded frame, a large frame; alone or in the same write as the
//	          last in-window frame): must be answered with RST_STREAM(FLOW_CONTROL_ERROR) on the
//	          stream or a connection error FLOW_CONTROL_ERROR, and the body must deliver exactly
//	          the bytes sent within the window and nothing of the excess.
//
// A Transport reports a connection error by closing the connection (its GOAWAY is written to
// the buffered writer but not flushed before the close), so for the client role the report is
// accepted either as GOAWAY(FLOW_CONTROL_ERROR) on the wire or as the connection being closed
// with the read loop's error being ConnectionError(FLOW_CONTROL_ERROR).

import (
	"fmt"
	"hash/fnv"
	"math/rand/v2"
	"testing"
	"testing/synctest"

	"golang.org/x/net/internal/verifrt"
	"golang.org/x/net/internal/verifrt/h2ref"
)

type vrfC11Desc struct {
	Role   string     `json:"role"`
	Srv    *vrfSrvCfg `json:"server_config,omitempty"`
	Cli    *vrfCliCfg `json:"transport_config,omitempty"`
	Script []string   `json:"script"`
	notes  vrfNotes
	sig    uint64
	// what the session reached
	exactFills, overflows, batchedAtOverflow, afterUpdate, racingFills int
}

func (d *vrfC11Desc) note(format string, a ...any) {
	d.notes.add(format, a...)
	d.Script = d.notes.Lines
	h := fnv.New64a()
	fmt.Fprint(h, d.sig, fmt.Sprintf(format, a...))
	d.sig = h.Sum64()
}

// vrfSplitFill cuts total flow-controlled bytes into frames (data bytes, padding) whose
// flow-controlled lengths add up to exactly total; every frame <= maxFrame.
func vrfSplitFill(rng *rand.Rand, total, maxFrame int64) (frames [][2]int) {
	for total > 0 {
		var fc int64
		switch rng.IntN(5) {
		case 0:
			fc = total
		case 1:
			fc = 1
		case 2:
			fc = 1 + rng.Int64N(min(total, 300))
		default:
			fc = 1 + rng.Int64N(total)
		}
		fc = min(fc, total, maxFrame)
		n, pad := int(fc), -1
		if rng.IntN(4) == 0 { // padded: fc = 1 + data + pad
			p := rng.IntN(int(min(fc, 256)))
			n, pad = int(fc)-1-p, p
		}
		frames = append(frames, [2]int{n, pad})
		total -= fc
		if len(frames) > 40 && total > 0 { // keep the frame count bounded: the rest in big frames
			for total > 0 {
				fc = min(total, maxFrame)
				frames = append(frames, [2]int{int(fc), -1})
				total -= fc
			}
		}
	}
	return
}

// vrfOverflowFrame picks the frame that goes beyond the window: (data bytes, padding).
func vrfOverflowFrame(rng *rand.Rand, maxFrame int64, small bool) (n, pad int) {
	k := rng.IntN(5)
	if small && k == 2 {
		k = 1
	}
	switch k {
	case 0:
		return 0, 0 // Length 1: only the Pad Length octet
	case 1:
		return 1 + rng.IntN(1000), -1
	case 2:
		return int(maxFrame), -1
	case 3:
		return 1, rng.IntN(200)
	}
	return 1, -1
}

// ---------------------------------------------------------------------------------------
// server role

func vrfC11Server(r *verifrt.R, c *verifrt.Case) {
	rng := c.Rng
	cfg := vrfSrvCfg{
		ConnBuf:      vsrvPick[int32](rng, 65535, 65535, 65536, 65535+100, 70000, 100000, 1<<20),
		StreamBuf:    vsrvPick[int32](rng, 1, 2, 100, 4095, 4096, 4097, 5000, 65535, 70001, 1<<20, 1<<20),
		MaxReadFrame: vsrvPick[uint32](rng, 0, 16384, 20000, 65536),
	}
	d := &vrfC11Desc{Role: "server", Srv: &cfg}
	c.Describe(d)
	var h *vrfSrv
	inner, outer := vsrvBubble(r.T, func() {
		h = vrfNewSrv(r, c, cfg, nil)
		h.S.start()
		vrfC11ServerScript(h, rng, d)
		h.finish()
	})
	if h == nil {
		c.Violation("harness-failure", "session did not start: %s %s", inner, outer)
		return
	}
	if inner != "" {
		c.Violation("harness-panic", "panic in the C11 server script: %s", inner)
	}
	h.S.mu.Lock()
	npanics := len(h.S.panics)
	h.S.mu.Unlock()
	if outer != "" {
		if npanics > 0 {
			r.Event("server_bubble_left_goroutines_after_serve_loop_panic", 1)
		} else {
			c.Violation("bubble-did-not-exit:"+outer, "after the client closed the connection and released every handler the bubble could not exit: %s\n%s", outer, h.hist())
		}
	}
	h.corruptions()
	h.S.mu.Lock()
	for _, p := range h.S.panics {
		c.Violation(vsrvPanicKey("", p), "serve loop panicked: %s\n%s", p, h.S.history(40))
	}
	sh := h.Sh
	r.Event("server_sessions", 1)
	r.Event("server_data_frames_sent", sh.sentFrames)
	r.Event("server_data_bytes_flow_controlled", sh.sentFC)
	r.Event("server_window_updates_received", sh.nConnWU+sh.nStreamWU)
	h.S.mu.Unlock()
	vrfC11Events(r, "server", d)
	nt := d.exactFills > 0 && d.overflows > 0
	r.EvalHash(nt, d.sig)
	if nt && (d.batchedAtOverflow > 0 || d.afterUpdate > 0) {
		r.Sample(map[string]any{"case": d, "exact_fills": d.exactFills, "overflows": d.overflows, "overflows_with_batched_credit_pending": d.batchedAtOverflow,
			"fills_after_window_update": d.afterUpdate, "fills_racing_with_reads": d.racingFills})
	}
}

func vrfC11Events(r *verifrt.R, role string, d *vrfC11Desc) {
	r.Event(role+"_exact_fills_accepted", int64(d.exactFills))
	r.Event(role+"_overflows_rejected", int64(d.overflows))
	r.Event(role+"_overflows_with_batched_credit_pending", int64(d.batchedAtOverflow))
	r.Event(role+"_fills_after_window_update", int64(d.afterUpdate))
	r.Event(role+"_fills_racing_with_reads", int64(d.racingFills))
}

func vrfC11ServerScript(h *vrfSrv, rng *rand.Rand, d *vrfC11Desc) {
	s := h.S
	viol := func(key, format string, a ...any) {
		h.C.Violation("server:"+key, "%s\n%s", fmt.Sprintf(format, a...), h.hist())
	}
	s.cliPreface()
	s.cliSettings(h2ref.Setting{ID: h2ref.SettingInitialWindowSize, Val: 1 << 24})
	s.cliWindowUpdate(0, 1<<28)
	s.cliSettingsAck()
	if !h.quiescent() {
		return
	}
	errsSeen := func() int {
		s.mu.Lock()
		defer s.mu.Unlock()
		return h.Sh.errCount()
	}
	// errorSince: an error frame for the stream or the connection arrived after mark
	errorSince := func(mark int, id uint32) bool {
		s.mu.Lock()
		defer s.mu.Unlock()
		for _, e := range h.Sh.errs[mark:] {
			if e.Stream == id || (e.Stream == 0 && e.Code != h2ref.ErrNo) {
				return true
			}
		}
		return false
	}
	flowErr := func(id uint32) (bool, bool) {
		s.mu.Lock()
		defer s.mu.Unlock()
		return h.Sh.flowErr(id)
	}
	// idle: the handler of st has executed every command (it is parked waiting for the next)
	idle := func(st *vrfSrvStream) bool {
		st.app.mu.Lock()
		defer st.app.mu.Unlock()
		return st.app.issued == st.app.completed
	}
	sendFrames := func(st *vrfSrvStream, frames [][2]int) {
		var out []byte
		for _, f := range frames {
			b := make([]byte, f[0])
			vrfFill(b, st.id, st.dataSent)
			st.dataSent += int64(f[0])
			out = h2ref.AppendData(out, st.id, false, b, f[1])
		}
		if rng.IntN(2) == 0 || len(frames) == 1 {
			s.cliWrite(out)
			return
		}
		// frame by frame (still no quiescent point in between)
		fs, _ := h2ref.ParseAll(out)
		for _, f := range fs {
			s.cliWrite(h2ref.AppendFrame(nil, f))
		}
	}
	nextID := uint32(1)
	probes := 2 + rng.IntN(5)
	beliefAbove := false // white box: the server's inflow.avail was seen above the peer's view of the connection window
	endAfter := false
	// connProbe exhausts the CONNECTION window with several streams, each inside its own stream
	// window, then sends one more frame on a fresh stream whose stream window has room.
	connProbe := func() {
		var used []*vrfSrvStream
		filled := false
		for i := 0; i < 26 && !h.dead; i++ {
			conn, _, _ := h.view(0)
			if conn <= 0 {
				filled = true
				break
			}
			st := h.open(nextID, -1, false, true)
			nextID += 2
			used = append(used, st)
			if !h.quiescent() {
				return
			}
			conn, sw, mf := h.view(st.id)
			target := max(min(conn, sw), 0)
			if int64(26-i)*sw < conn {
				break // the stream windows are too small to exhaust the connection window
			}
			before := errsSeen()
			frames := vrfSplitFill(rng, target, mf)
			sendFrames(st, frames)
			for _, f := range frames {
				st.accepted += int64(f[0])
			}
			d.note("conn-probe fill s=%d window(conn=%d stream=%d) -> %d", st.id, conn, sw, target)
			if !h.quiescent() {
				if h.dead {
					viol("in-window-data-killed-connection", "the peer sent %d flow-controlled bytes on stream %d within its window (connection %d, stream %d) and the connection ended", target, st.id, conn, sw)
				}
				return
			}
			if se, ce := flowErr(st.id); se || ce || errorSince(before, st.id) {
				viol("in-window-data-rejected", "the peer sent %d flow-controlled bytes on stream %d within its window (connection %d, stream %d) and the server answered with an error frame (FLOW_CONTROL_ERROR on stream: %v, on connection: %v)", target, st.id, conn, sw, se, ce)
				return
			}
			if target > 0 {
				d.exactFills++
			}
		}
		if conn, _, _ := h.view(0); !filled && conn > 0 {
			d.note("conn-probe: connection window not exhausted (%d left)", conn)
		} else if !h.dead {
			// variant: the excess goes to a stream for which the server has a RST_STREAM queued but
			// not yet written (the client is not reading): such DATA is dropped, and it still
			// counts against the connection window
			if conn, _, _ := h.view(0); conn == 0 && rng.IntN(4) == 0 {
				id := nextID
				nextID += 2
				h.R.Event("server_queued_reset_variant_entered", 1)
				s.setCap(1) // from here on the server's writes get stuck in the pipe
				s.cliPing([8]byte{0xc1, 0x1d})
				synctest.Wait() // (not h.quiescent: a stuck server write is what this variant wants)
				// HEADERS without :path: the server answers with RST_STREAM(PROTOCOL_ERROR), queued behind the stuck write
				s.cliWrite(h2ref.AppendHeaders(nil, id, false, true, vsrvEncodeFields([]vsrvField{{":method", "POST"}, {":scheme", "https"}, {":authority", "verif.test"}}), nil, -1))
				n := vsrvPick(rng, 1, 1, 100, 5000)
				s.cliWrite(h2ref.AppendData(nil, id, false, make([]byte, n), -1))
				d.note("conn-probe overflow on stream %d whose RST_STREAM is queued behind a stuck write: %d bytes with connection window 0", id, n)
				synctest.Wait()
				s.setCap(0)
				if !h.quiescent() && !h.dead {
					return
				}
				se, ce := flowErr(id)
				if !se && !ce {
					viol("overflow-not-rejected:connection-window-on-stream-with-queued-reset", "the peer's connection window was exhausted and it sent %d more flow-controlled bytes on stream %d, for which the server had a RST_STREAM(PROTOCOL_ERROR) queued but not yet written (its writes were stuck behind a client that was not reading); neither RST_STREAM(FLOW_CONTROL_ERROR) on the stream nor GOAWAY(FLOW_CONTROL_ERROR) followed once the client read again", n, id)
				} else {
					d.overflows++
					h.R.Event("server_overflow_of_connection_window", 1)
					h.R.Event("server_overflow_on_stream_with_queued_reset", 1)
				}
				endAfter = true
				return
			}
			// one time in three the excess goes to a stream the client has ended already (its DATA
			// is not delivered to any body and still counts against the connection window)
			ended := rng.IntN(3) == 0
			st := h.open(nextID, -1, ended, true)
			nextID += 2
			used = append(used, st)
			if !h.quiescent() {
				return
			}
			if ended {
				st.taint = "after-end-stream"
				h.R.Event("server_conn_probe_excess_on_ended_stream", 1)
			}
			conn, sw, mf := h.view(st.id)
			smp, ok := h.sample()
			if !ok {
				return
			}
			if int64(smp.avail) > conn {
				beliefAbove = true
			}
			n, pad := vrfOverflowFrame(rng, min(mf, max(sw, 1)), true)
			fc := int64(n)
			if pad >= 0 {
				fc += 1 + int64(pad)
			}
			if fc > sw { // stay inside the stream window: only the connection window is exceeded
				n, pad, fc = 1, -1, 1
			}
			if conn != 0 || sw < 1 {
				d.note("conn-probe: no clean boundary (conn=%d stream=%d)", conn, sw)
			} else {
				sendFrames(st, [][2]int{{n, pad}})
				d.note("conn-probe overflow s=%d window(conn=%d stream=%d) excess frame data=%d pad=%d over %d streams (server belief avail=%d unsent=%d)", st.id, conn, sw, n, pad, len(used), smp.avail, smp.unsent)
				if !h.quiescent() && !h.dead {
					return
				}
				se, ce := flowErr(st.id)
				if !se && !ce {
					key := "overflow-not-rejected:connection-window"
					if beliefAbove {
						key = "overflow-not-rejected:server-belief-above-peer-view"
					}
					viol(key, "the peer's connection window was exhausted over %d streams (connection %d, stream %d) and it sent %d more flow-controlled bytes on stream %d; no RST_STREAM(FLOW_CONTROL_ERROR) on the stream and no GOAWAY(FLOW_CONTROL_ERROR) followed (server's belief of the connection window before: avail=%d unsent=%d)", len(used)-1, conn, sw, fc, st.id, smp.avail, smp.unsent)
				} else {
					d.overflows++
					if smp.unsent > 0 {
						d.batchedAtOverflow++
					}
					h.R.Event("server_overflow_of_connection_window", 1)
					h.R.Event("server_overflow_of_connection_window_over_several_streams", 1)
					if ce {
						h.R.Event("server_overflow_answered_with_connection_error", 1)
					} else {
						h.R.Event("server_overflow_answered_with_stream_error", 1)
					}
				}
				endAfter = true
			}
		}
		if h.dead {
			return
		}
		// delivery: every handler gets exactly its in-window bytes
		for _, st := range used {
			for i := 0; i < 4; i++ {
				st.app.send(vrfCmd{'r', 1 << 21})
				if !h.quiescent() {
					return
				}
				if read, _, _, _, _ := st.app.snapshot(); read >= st.accepted {
					break
				}
			}
			read, _, _, _, _ := st.app.snapshot()
			if read > st.accepted {
				key := "excess-bytes-delivered"
				if beliefAbove {
					key += ":server-belief-above-peer-view"
				}
				viol(key, "stream %d: %d body bytes were sent within the window, the handler received %d", st.id, st.accepted, read)
			} else if read < st.accepted {
				if se, _ := flowErr(st.id); !se {
					viol("in-window-data-not-delivered", "stream %d: the peer sent %d body bytes within its window, the handler could read only %d", st.id, st.accepted, read)
				}
			}
			h.R.Event("server_body_delivery_checks", 1)
			st.app.send(vrfCmd{'w', 10})
			st.app.send(vrfCmd{'x', 0})
			st.finished = true
		}
		h.quiescent()
	}
	connFirst := rng.IntN(4) == 0
	connLast := !connFirst && rng.IntN(2) == 0
	if connFirst {
		connProbe()
		if endAfter || h.dead {
			d.note("done")
			return
		}
	}
	for p := 0; p < probes && !h.dead; p++ {
		st := h.open(nextID, -1, false, true)
		nextID += 2
		if !h.quiescent() {
			return
		}
		d.note("probe %d on stream %d", p, st.id)
		accepted := int64(0) // data bytes sent within the window on st
		rounds := 1 + rng.IntN(4)
		overflowed := false
		for round := 0; round < rounds && !h.dead; round++ {
			// ---- fill to exactly the window the peer has
			conn, sw, mf := h.view(st.id)
			target := min(conn, sw)
			if target < 0 {
				target = 0
			}
			racing := false
			if round > 0 && rng.IntN(3) == 0 && target > 0 {
				// in-window DATA racing with reads: the view is a lower bound, the data must be accepted
				st.app.send(vrfCmd{'r', vsrvPick(rng, 100, 5000, 70000)})
				racing = true
			}
			before := errsSeen()
			frames := vrfSplitFill(rng, target, mf)
			var dataBytes int64
			for _, f := range frames {
				dataBytes += int64(f[0])
			}
			sendFrames(st, frames)
			accepted += dataBytes
			d.note("fill s=%d window(conn=%d stream=%d) -> %d flow-controlled bytes in %d frames (racing=%v)", st.id, conn, sw, target, len(frames), racing)
			if !h.quiescent() {
				if h.dead {
					viol("in-window-data-killed-connection", "the peer sent %d flow-controlled bytes on stream %d, exactly its window (connection %d, stream %d), and the connection ended", target, st.id, conn, sw)
				}
				return
			}
			if se, ce := flowErr(st.id); se || ce || errorSince(before, st.id) {
				viol("in-window-data-rejected", "the peer sent %d flow-controlled bytes on stream %d within its window (connection %d, stream %d, racing with reads: %v) and the server answered with an error frame (FLOW_CONTROL_ERROR on stream: %v, on connection: %v)", target, st.id, conn, sw, racing, se, ce)
				overflowed = true // stream is gone
				break
			}
			if target > 0 {
				d.exactFills++
				if racing {
					d.racingFills++
				}
				if round > 0 {
					d.afterUpdate++
				}
			}
			if round == rounds-1 {
				break
			}
			// ---- the handler reads k bytes; refunds below 4096 stay batched
			k := vsrvPick(rng, 1, 100, 4095, 4096, 4097, 20000, 1<<20)
			st.app.send(vrfCmd{'r', k})
			d.note("handler s=%d read(%d)", st.id, k)
			if !h.quiescent() {
				return
			}
		}
		if h.dead {
			return
		}
		if !overflowed {
			// every in-window byte must be deliverable: checked for a part of the probes before
			// the overflow (reading changes the window; the overflow then goes against the new one)
			if rng.IntN(3) == 0 {
				for i := 0; i < 6; i++ {
					st.app.send(vrfCmd{'r', 1 << 20})
					if !h.quiescent() {
						return
					}
					if read, _, _, _, _ := st.app.snapshot(); read >= accepted {
						break
					}
				}
				if read, _, _, _, _ := st.app.snapshot(); read != accepted {
					viol("in-window-data-not-delivered", "stream %d: the peer sent %d body bytes within its window, the handler could read only %d", st.id, accepted, read)
				}
				// top the window up again to exactly its size
				conn, sw, mf := h.view(st.id)
				target := max(min(conn, sw), 0)
				frames := vrfSplitFill(rng, target, mf)
				for _, f := range frames {
					accepted += int64(f[0])
				}
				sendFrames(st, frames)
				d.note("refill s=%d -> %d", st.id, target)
				if !h.quiescent() {
					return
				}
			}
			// ---- overflow, from a quiescent state with the handler idle
			if !idle(st) {
				d.note("handler of s=%d not idle: no overflow", st.id)
			} else {
				// The window must be at exactly zero at a quiescent point first. Filling it can
				// itself release credit (padding is refunded at once; batched credit is sent as
				// soon as it would double the shrunken window), so: fill, settle, look again.
				var conn, sw, mf, room int64
				sameWrite := false
				// In a third of the probes the window is not driven to zero but to a small rest:
				// credit batched below the refresh threshold then stays pending (a window at zero
				// gets it released at once), and the excess frame is larger than that rest.
				leave := int64(0)
				if rng.IntN(3) == 0 {
					leave = vsrvPick[int64](rng, 1, 50, 150, 3000)
					if read, _, _, _, _ := st.app.snapshot(); read < accepted && rng.IntN(4) != 0 {
						// a small read first: its refund (below 4096 and below the rest) stays batched
						leave = vsrvPick[int64](rng, 150, 3000)
						st.app.send(vrfCmd{'r', vsrvPick(rng, 1, 10, 100)})
						if !h.quiescent() {
							return
						}
					}
				}
				var smp vrfSrvSample
				for i := 0; i < 8; i++ {
					conn, sw, mf = h.view(st.id)
					room = max(min(conn, sw), 0)
					var ok bool
					if smp, ok = h.sample(); !ok {
						return
					}
					if room <= leave {
						break
					}
					// With no credit batched anywhere and no padding, nothing can be released by
					// the fill: then the excess frame may travel in the same write.
					if leave == 0 && smp.unsent == 0 && smp.stUnsent[st.id] == 0 && rng.IntN(2) == 0 {
						sameWrite = true
						break
					}
					pre := vrfSplitFill(rng, room-leave, mf)
					for _, f := range pre {
						accepted += int64(f[0])
					}
					sendFrames(st, pre)
					d.note("top-up s=%d -> %d of %d", st.id, room-leave, room)
					if !h.quiescent() {
						return
					}
				}
				if (room > leave && !sameWrite) || room+1 > mf {
					d.note("window of s=%d does not settle (rest %d): no overflow", st.id, room)
				} else {
					avail, unsent := int64(smp.avail), int64(smp.unsent)
					n, pad := vrfOverflowFrame(rng, mf, p < probes-1)
					if room > 0 && !sameWrite { // the excess frame must be larger than the rest of the window
						n, pad = int(min(room+1+rng.Int64N(64), mf)), -1
						h.R.Event("server_overflow_from_nonzero_window", 1)
					}
					fc := int64(n)
					if pad >= 0 {
						fc += 1 + int64(pad)
					}
					var pre [][2]int
					if sameWrite {
						for left := room; left > 0; { // unpadded prefill
							k := min(left, mf, 1+rng.Int64N(left))
							pre = append(pre, [2]int{int(k), -1})
							accepted += k
							left -= k
						}
					}
					sendFrames(st, append(pre, [2]int{n, pad}))
					d.note("overflow s=%d window(conn=%d stream=%d) same-write prefill=%d excess frame data=%d pad=%d (server belief avail=%d unsent=%d)", st.id, conn, sw, len(pre), n, pad, avail, unsent)
					if !h.quiescent() && !h.dead {
						return
					}
					se, ce := flowErr(st.id)
					which := "stream"
					if conn <= sw {
						which = "connection"
					}
					if avail > conn {
						beliefAbove = true
					}
					if !se && !ce {
						key := "overflow-not-rejected:" + which + "-window"
						if beliefAbove {
							key = "overflow-not-rejected:server-belief-above-peer-view"
						}
						viol(key, "the peer's window was exhausted (connection %d, stream %d; %d in-window frames in the same write) and it sent %d more flow-controlled bytes on stream %d; no RST_STREAM(FLOW_CONTROL_ERROR) on the stream and no GOAWAY(FLOW_CONTROL_ERROR) followed (server's belief of the connection window before: avail=%d unsent=%d)", conn, sw, len(pre), fc, st.id, avail, unsent)
					} else {
						d.overflows++
						var pending int32 // credit batched on the window(s) the excess frame exceeds
						if sw <= conn {
							pending += smp.stUnsent[st.id]
						}
						if conn <= sw {
							pending += smp.unsent
						}
						if pending > 0 {
							d.batchedAtOverflow++
						}
						if ce {
							h.R.Event("server_overflow_answered_with_connection_error", 1)
						} else {
							h.R.Event("server_overflow_answered_with_stream_error", 1)
						}
						h.R.Event("server_overflow_of_"+which+"_window", 1)
						if sameWrite {
							h.R.Event("server_overflow_in_same_write_as_last_fill", 1)
						}
					}
					if h.dead {
						return
					}
					used := int64(0) // what the same-write prefill used up
					if sameWrite {
						used = room
					}
					if fc > conn-used {
						endAfter = true // the peer has broken the connection's flow control: nothing after this is specified
					}
				}
			}
		}
		// ---- what reached the handler: exactly the in-window bytes, never the excess
		st.app.send(vrfCmd{'A', vsrvPick(rng, 512, 4096, 1<<20)})
		if !h.quiescent() {
			return
		}
		read, _, _, _, _ := st.app.snapshot()
		if read > accepted {
			key := "excess-bytes-delivered"
			if beliefAbove {
				key += ":server-belief-above-peer-view"
			}
			viol(key, "stream %d: %d body bytes were sent within the window, the handler received %d", st.id, accepted, read)
		}
		h.R.Event("server_body_delivery_checks", 1)
		if endAfter {
			d.note("connection window was overflowed: end of session")
			break
		}
		// finish the stream, or keep it (unread) so that the next probe meets a used connection window
		st.app.send(vrfCmd{'w', 10})
		st.app.send(vrfCmd{'x', 0})
		st.finished = true
		if !h.quiescent() {
			return
		}
	}
	if connLast && !h.dead && !endAfter {
		connProbe()
	}
	d.note("done")
}

// ---------------------------------------------------------------------------------------
// client role

func vrfC11Client(r *verifrt.R, c *verifrt.Case) {
	rng := c.Rng
	cfg := vrfCliCfg{
		ConnBuf:      vsrvPick(rng, 64<<10, 64<<10, 64<<10+1, 100000, 1<<20),
		StreamBuf:    vsrvPick(rng, 1, 2, 100, 4095, 4096, 4097, 65535, 100000, 1<<20, 4<<20-1),
		MaxReadFrame: vsrvPick[uint32](rng, 0, 16384, 20000, 65536),
	}
	d := &vrfC11Desc{Role: "client", Cli: &cfg}
	c.Describe(d)
	var h *vrfCli
	inner, outer := vsrvBubble(r.T, func() {
		var err error
		h, err = vrfNewCli(r, c, cfg)
		if err != nil {
			r.Note("NewClientConn failed: %v", err)
			h.Sess.Teardown()
			return
		}
		vrfC11ClientScript(h, rng, d)
		h.finish()
	})
	if h == nil {
		c.Violation("harness-failure", "session did not start: %s %s", inner, outer)
		return
	}
	if inner != "" {
		c.Violation("harness-panic", "panic in the C11 client script: %s", inner)
	}
	if outer != "" {
		c.Violation("bubble-did-not-exit:"+outer, "after teardown the bubble could not exit: %s\nlast frames:\n%s", outer, h.SC.Trace())
	}
	h.corruptions()
	sh := h.Sh
	r.Event("client_sessions", 1)
	r.Event("client_data_frames_sent", sh.sentFrames)
	r.Event("client_data_bytes_flow_controlled", sh.sentFC)
	r.Event("client_window_updates_received", sh.nConnWU+sh.nStreamWU)
	vrfC11Events(r, "client", d)
	nt := d.exactFills > 0 && d.overflows > 0
	r.EvalHash(nt, d.sig)
	if nt && (d.batchedAtOverflow > 0 || d.afterUpdate > 0) {
		r.Sample(map[string]any{"case": d, "exact_fills": d.exactFills, "overflows": d.overflows, "overflows_with_batched_credit_pending": d.batchedAtOverflow,
			"fills_after_window_update": d.afterUpdate, "fills_racing_with_reads": d.racingFills})
	}
}

func vrfC11ClientScript(h *vrfCli, rng *rand.Rand, d *vrfC11Desc) {
	sc := h.SC
	viol := func(key, format string, a ...any) {
		h.C.Violation("client:"+key, "%s\nlast frames:\n%s", fmt.Sprintf(format, a...), sc.Trace())
	}
	sc.SendSettings(h2ref.Setting{ID: h2ref.SettingMaxConcurrentStreams, Val: 100})
	if !h.settle() {
		return
	}
	idle := func(rq *vrfReq) bool {
		rq.app.mu.Lock()
		defer rq.app.mu.Unlock()
		return rq.app.issued == rq.app.completed
	}
	sendFrames := func(rq *vrfReq, frames [][2]int) {
		for _, f := range frames {
			sc.send(h.dataFrame(nil, rq, f[0], f[1], false))
		}
	}
	// connGone: the client reported a connection-level FLOW_CONTROL_ERROR
	connFlowErr := func() (reported bool, how string) {
		if _, ce := h.Sh.flowErr(0); ce {
			return true, "goaway"
		}
		if sc.NC.clientClosed() {
			select {
			case <-h.CC.readerDone:
				if ce, ok := h.CC.readerErr.(ConnectionError); ok && ErrCode(ce) == ErrCodeFlowControl {
					return true, "closed"
				}
			default:
			}
		}
		return false, ""
	}
	// a few earlier responses left completely or partly unread use up connection window
	probes := 1 + rng.IntN(4)
	for p := 0; p < probes && !h.dead; p++ {
		rq := h.start("GET")
		if !h.settle() || rq.id == 0 {
			return
		}
		h.headers(rq, 200, -1, false)
		if !h.settle() {
			return
		}
		if done, err, _ := rq.roundTripState(); !done || err != nil {
			viol("response-not-delivered", "RoundTrip of %s did not return the response (done=%v err=%v)", rq.tag, done, err)
			return
		}
		d.note("probe %d on stream %d", p, rq.id)
		accepted := int64(0)
		last := p == probes-1
		rounds := 1 + rng.IntN(4)
		for round := 0; round < rounds && !h.dead; round++ {
			conn, sw, mf := h.view(rq.id)
			target := max(min(conn, sw), 0)
			racing := false
			if round > 0 && rng.IntN(3) == 0 && target > 0 {
				rq.app.send(vrfCmd{'r', vsrvPick(rng, 100, 5000, 70000)})
				racing = true
			}
			frames := vrfSplitFill(rng, target, mf)
			for _, f := range frames {
				accepted += int64(f[0])
			}
			sendFrames(rq, frames)
			d.note("fill s=%d window(conn=%d stream=%d) -> %d flow-controlled bytes in %d frames (racing=%v)", rq.id, conn, sw, target, len(frames), racing)
			if !h.settle() {
				rep, how := connFlowErr()
				viol("in-window-data-killed-connection", "the peer sent %d flow-controlled bytes on stream %d, exactly its window (connection %d, stream %d, racing with reads: %v), and the client ended the connection (FLOW_CONTROL_ERROR reported: %v %s; read loop error: %v)", target, rq.id, conn, sw, racing, rep, how, h.CC.readerErr)
				return
			}
			if se, _ := h.Sh.flowErr(rq.id); se {
				viol("in-window-data-rejected", "the peer sent %d flow-controlled bytes on stream %d within its window (connection %d, stream %d) and the client reset the stream with FLOW_CONTROL_ERROR", target, rq.id, conn, sw)
				return
			}
			if target > 0 {
				d.exactFills++
				if racing {
					d.racingFills++
				}
				if round > 0 {
					d.afterUpdate++
				}
			}
			if round == rounds-1 {
				break
			}
			k := vsrvPick(rng, 1, 100, 4095, 4096, 4097, 20000, 1<<20)
			rq.app.send(vrfCmd{'r', k})
			d.note("app s=%d read(%d)", rq.id, k)
			if !h.settle() {
				return
			}
		}
		if h.dead {
			return
		}
		if !last {
			// leave this response (partly) unread: it keeps using connection window; or read it
			if rng.IntN(2) == 0 {
				for i := 0; i < 6; i++ {
					rq.app.send(vrfCmd{'r', 1 << 20})
					if !h.settle() {
						return
					}
					if read, _, _, _, _ := rq.app.snapshot(); read >= accepted {
						break
					}
				}
				if read, _, _, _, _ := rq.app.snapshot(); read != accepted {
					viol("in-window-data-not-delivered", "request %s (stream %d): the peer sent %d body bytes within its window, the application could read only %d", rq.tag, rq.id, accepted, read)
				}
				h.R.Event("client_body_delivery_checks", 1)
			}
			continue
		}
		// ---- last probe: overflow (a connection error for the Transport)
		if !idle(rq) {
			d.note("consumer of s=%d not idle: no overflow", rq.id)
			return
		}
		var conn, sw, mf, room int64
		sameWrite := false
		leave := int64(0) // see the server role
		if rng.IntN(2) == 0 {
			leave = vsrvPick[int64](rng, 1, 50, 150, 3000)
			if read, _, _, _, _ := rq.app.snapshot(); read < accepted && rng.IntN(4) != 0 {
				leave = vsrvPick[int64](rng, 150, 3000)
				rq.app.send(vrfCmd{'r', vsrvPick(rng, 1, 10, 100)})
				if !h.settle() {
					return
				}
			}
		}
		var smp vrfCliSample
		for i := 0; i < 8; i++ {
			conn, sw, mf = h.view(rq.id)
			room = max(min(conn, sw), 0)
			smp = h.sample()
			if room <= leave {
				break
			}
			if leave == 0 && smp.unsent == 0 && smp.stUnsent[rq.id] == 0 && rng.IntN(2) == 0 {
				sameWrite = true
				break
			}
			pre := vrfSplitFill(rng, room-leave, mf)
			for _, f := range pre {
				accepted += int64(f[0])
			}
			sendFrames(rq, pre)
			d.note("top-up s=%d -> %d of %d", rq.id, room-leave, room)
			if !h.settle() {
				viol("in-window-data-killed-connection", "the peer topped its window up with %d flow-controlled bytes on stream %d (connection %d, stream %d) and the client ended the connection (read loop error: %v)", room, rq.id, conn, sw, h.CC.readerErr)
				return
			}
		}
		if (room > leave && !sameWrite) || room+1 > mf {
			d.note("window of s=%d does not settle (rest %d): no overflow", rq.id, room)
			return
		}
		if !sameWrite && rng.IntN(3) == 0 {
			// ---- variant: the excess arrives on a stream whose DATA the Transport does not deliver
			// to any body (a response that has ended, or one the application has abandoned): it
			// still counts against the connection window.
			how := vsrvPick(rng, "ended", "ended", "cancelled")
			rz := h.start("GET")
			if !h.settle() || rz.id == 0 {
				return
			}
			if how == "ended" {
				h.headers(rz, 200, 0, true)
			} else {
				h.headers(rz, 200, -1, false)
			}
			if !h.settle() {
				return
			}
			if done, err, _ := rz.roundTripState(); !done || err != nil {
				viol("response-not-delivered", "RoundTrip of %s did not return the response (done=%v err=%v)", rz.tag, done, err)
				return
			}
			if how == "cancelled" {
				rz.app.send(vrfCmd{'x', 0}) // the application closes the body: RST_STREAM(CANCEL)
				if !h.settle() {
					return
				}
			}
			conn, _, mf = h.view(rq.id)
			if conn+1 > mf {
				d.note("connection window %d too large for one excess frame on a discarded stream", conn)
				return
			}
			smp = h.sample()
			n := int(min(conn+1+rng.Int64N(64), mf))
			rz.taint = "excess"
			sc.send(h.dataFrame(nil, rz, n, -1, false))
			d.note("overflow of the connection window (%d) by a %d-byte DATA frame on %s stream %d (client belief avail=%d unsent=%d)", conn, n, how, rz.id, smp.avail, smp.unsent)
			h.settle()
			if rep, how2 := connFlowErr(); !rep {
				viol("overflow-not-rejected:connection-window-on-"+how+"-stream", "the peer had %d bytes of connection window left and sent a DATA frame of %d bytes on stream %d, whose response had %s; the client did not fail the connection with FLOW_CONTROL_ERROR (connection closed by client: %v, read loop error: %v; client's belief before: avail=%d unsent=%d)", conn, n, rz.id, how, sc.NC.clientClosed(), h.CC.readerErr, smp.avail, smp.unsent)
			} else {
				d.overflows++
				h.R.Event("client_overflow_of_connection_window_on_"+how+"_stream", 1)
				h.R.Event("client_overflow_answered_with_connection_error_"+how2, 1)
			}
			rq.app.send(vrfCmd{'A', 1 << 20})
			synctest.Wait()
			if read, _, _, _, _ := rq.app.snapshot(); read > accepted {
				viol("excess-bytes-delivered", "request %s (stream %d): %d body bytes were sent within the window, the application received %d", rq.tag, rq.id, accepted, read)
			}
			return
		}
		n, pad := vrfOverflowFrame(rng, mf, false)
		if room > 0 && !sameWrite {
			n, pad = int(min(room+1+rng.Int64N(64), mf)), -1
			h.R.Event("client_overflow_from_nonzero_window", 1)
		}
		fc := int64(n)
		if pad >= 0 {
			fc += 1 + int64(pad)
		}
		var pre [][2]int
		if sameWrite {
			for left := room; left > 0; {
				k := min(left, mf, 1+rng.Int64N(left))
				pre = append(pre, [2]int{int(k), -1})
				accepted += k
				left -= k
			}
			h.R.Event("client_overflow_in_same_write_as_last_fill", 1)
		}
		sendFrames(rq, append(pre, [2]int{n, pad}))
		d.note("overflow s=%d window(conn=%d stream=%d) same-write prefill=%d excess frame data=%d pad=%d (client belief avail=%d unsent=%d)", rq.id, conn, sw, len(pre), n, pad, smp.avail, smp.unsent)
		h.settle()
		which := "stream"
		if conn <= sw {
			which = "connection"
		}
		se, _ := h.Sh.flowErr(rq.id)
		rep, how := connFlowErr()
		if !se && !rep {
			viol("overflow-not-rejected:"+which+"-window", "the peer's window was exhausted (connection %d, stream %d; %d in-window frames in the same write) and it sent %d more flow-controlled bytes on stream %d; the client neither reset the stream nor failed the connection with FLOW_CONTROL_ERROR (connection closed by client: %v, read loop error: %v; client's belief before: avail=%d unsent=%d)", conn, sw, len(pre), fc, rq.id, sc.NC.clientClosed(), h.CC.readerErr, smp.avail, smp.unsent)
		} else {
			d.overflows++
			var pending int32
			if sw <= conn {
				pending += smp.stUnsent[rq.id]
			}
			if conn <= sw {
				pending += smp.unsent
			}
			if pending > 0 {
				d.batchedAtOverflow++
			}
			h.R.Event("client_overflow_of_"+which+"_window", 1)
			if se {
				h.R.Event("client_overflow_answered_with_stream_error", 1)
			} else {
				h.R.Event("client_overflow_answered_with_connection_error_"+how, 1)
			}
		}
		// what reached the application: at most the in-window bytes
		rq.app.send(vrfCmd{'A', vsrvPick(rng, 512, 4096, 1<<20)})
		synctest.Wait()
		read, _, _, _, _ := rq.app.snapshot()
		if read > accepted {
			viol("excess-bytes-delivered", "request %s (stream %d): %d body bytes were sent within the window, the application received %d", rq.tag, rq.id, accepted, read)
		}
		h.R.Event("client_body_delivery_checks", 1)
	}
	d.note("done")
}

func TestVerif_C11(t *testing.T) {
	r := verifrt.Start(t, "C11")
	defer r.Finish()
	r.ExitIfAbnormal()
	r.SetRule("one case = one connection with 1-6 boundary probes. Server role: MaxUploadBufferPerConnection in {65535,65536,65635,70000,100000,1MiB} x MaxUploadBufferPerStream in {1,2,100,4095,4096,4097,5000,65535,70001,1MiB}; client role: MaxReceiveBufferPerConnection in {64KiB,64KiB+1,100000,1MiB} x per-stream {1,2,100,4095,4096,4097,65535,100000,1MiB,4MiB-1}. A probe = 1-4 rounds of [fill the window the peer has to exactly 0 in PRNG-split frames (padding, 1-byte frames, max-size frames), optionally racing with an application read; application reads k in {1,100,4095,4096,4097,20000,1MiB} bytes] then, application idle and connection quiescent, a frame of 1..max-frame more flow-controlled bytes (alone or in one write with a last in-window prefill). non-trivial = session with an accepted exact fill and a rejected overflow; distinct = hash of the script")
	r.Assume("the peer's window = initial (65535 / announced SETTINGS_INITIAL_WINDOW_SIZE) + WINDOW_UPDATEs it has parsed − DATA payload lengths incl. padding; 'must be rejected' is only demanded from a quiescent state with the application idle, where the peer's view and the implementation's inflow.avail are the same number; racing fills only demand acceptance")
	r.Assume("accepted reports of FLOW_CONTROL_ERROR: RST_STREAM(3) on the stream, GOAWAY(3), or (Transport) the connection closed with the read loop's error being ConnectionError(FLOW_CONTROL_ERROR) — the Transport's GOAWAY is not flushed before it closes the connection")
	n := r.N(220, 1500)
	vsrvGoroutineTracking(false)
	r.CasesParallel("server", n, 0, func(c *verifrt.Case) { vrfC11Server(r, c) })
	r.CasesParallel("client", n, 0, func(c *verifrt.Case) { vrfC11Client(r, c) })
	q := func(quick, thorough int64) int64 {
		if r.Thorough() {
			return thorough
		}
		return quick
	}
	for _, role := range []string{"server", "client"} {
		r.Require(role+"_exact_fills_accepted", q(400, 3000))
		r.Require(role+"_overflows_rejected", q(70, 600))
		r.Require(role+"_overflows_with_batched_credit_pending", q(6, 50))
		r.Require(role+"_overflow_from_nonzero_window", q(12, 100))
		r.Require(role+"_fills_after_window_update", q(150, 1000))
		r.Require(role+"_fills_racing_with_reads", q(40, 300))
		r.Require(role+"_overflow_of_stream_window", q(20, 150))
		r.Require(role+"_overflow_of_connection_window", q(6, 50))
		r.Require(role+"_body_delivery_checks", q(150, 1000))
	}
}
