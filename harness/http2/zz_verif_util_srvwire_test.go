//go:build verif

package http2

// Shared harness for the HTTP/2 *server* connection monitors (C08, C15, C16).
//
// A vsrvSession is one server connection inside a testing/synctest bubble:
//
//	scripted client (harness goroutine)  <-- in-memory pipe -->  real http2.Server.ServeConn
//
// Every byte of both directions passes through the session (it *is* the pipe) and is parsed
// by the independent frame reader h2ref (never by the Framer under test). The session keeps
// the shadow protocol state (windows, SETTINGS sent vs acknowledged, stream states, PINGs,
// handler events) and evaluates the oracles on every frame and at synctest quiescence.
//
// Every top-level identifier in this file starts with vsrv.

import (
	"encoding/binary"
	"fmt"
	"hash/fnv"
	"io"
	"log"
	"math/rand/v2"
	"net"
	"net/http"
	"os"
	"runtime/debug"
	"sort"
	"strconv"
	"strings"
	"sync"
	"testing"
	"testing/synctest"
	"time"

	"golang.org/x/net/internal/verifrt"
	"golang.org/x/net/internal/verifrt/h2ref"
)

// Oracle groups. A violation is only recorded when its group is enabled for the session;
// otherwise it is counted as an event ("othergroup_<key>").
const (
	vsrvGrpFlow    = 1 << iota // C08: windows, max frame size, bounded progress
	vsrvGrpState               // C15: stream states, handler bound, PING/SETTINGS answers, malformed requests
	vsrvGrpSurvive             // C16: no panic, no wedged connection, bounded queues
)

func vsrvPick[T any](rng *rand.Rand, xs ...T) T { return xs[rng.IntN(len(xs))] }

// ---------------------------------------------------------------------------------------
// tiny HPACK helpers (RFC 7541), written from the RFC; only what the scripted client needs

type vsrvField struct{ Name, Value string }

// vsrvAppendInt appends an integer with an n-bit prefix (RFC 7541 §5.1); first holds the
// bits above the prefix.
func vsrvAppendInt(dst []byte, n uint, first byte, v uint64) []byte {
	max := uint64(1)<<n - 1
	if v < max {
		return append(dst, first|byte(v))
	}
	dst = append(dst, first|byte(max))
	v -= max
	for v >= 128 {
		dst = append(dst, byte(v&0x7f)|0x80)
		v >>= 7
	}
	return append(dst, byte(v))
}

// vsrvEncodeFields encodes every field as "literal header field without indexing — new
// name" with raw (non-Huffman) strings (RFC 7541 §6.2.2). It never touches the dynamic table.
func vsrvEncodeFields(fields []vsrvField) []byte {
	var b []byte
	for _, f := range fields {
		b = append(b, 0x00)
		b = vsrvAppendInt(b, 7, 0, uint64(len(f.Name)))
		b = append(b, f.Name...)
		b = vsrvAppendInt(b, 7, 0, uint64(len(f.Value)))
		b = append(b, f.Value...)
	}
	return b
}

func vsrvReadInt(b []byte, n uint) (v uint64, rest []byte, ok bool) {
	if len(b) == 0 {
		return 0, nil, false
	}
	max := uint64(1)<<n - 1
	v = uint64(b[0]) & max
	b = b[1:]
	if v < max {
		return v, b, true
	}
	var shift uint
	for {
		if len(b) == 0 || shift > 56 {
			return 0, nil, false
		}
		c := b[0]
		b = b[1:]
		v += uint64(c&0x7f) << shift
		shift += 7
		if c&0x80 == 0 {
			return v, b, true
		}
	}
}

// vsrvHuffDigits decodes a Huffman string consisting of decimal digits only (codes from
// RFC 7541 Appendix B: '0','1','2' are 5 bits 00000,00001,00010; '3'..'9' are 6 bits
// 011001..011111). Anything else → ok=false.
func vsrvHuffDigits(b []byte) (string, bool) {
	var out []byte
	var acc uint32
	var nbits uint
	for _, c := range b {
		acc = acc<<8 | uint32(c)
		nbits += 8
		for {
			if nbits >= 5 {
				top5 := (acc >> (nbits - 5)) & 0x1f
				if top5 <= 2 {
					out = append(out, byte('0'+top5))
					nbits -= 5
					continue
				}
			}
			if nbits >= 6 {
				top6 := (acc >> (nbits - 6)) & 0x3f
				if top6 >= 0x19 && top6 <= 0x1f {
					out = append(out, byte('3'+top6-0x19))
					nbits -= 6
					continue
				}
			}
			break
		}
		acc &= 1<<nbits - 1
	}
	// the rest must be EOS padding: fewer than 8 one-bits
	if nbits >= 8 || acc != 1<<nbits-1 {
		return "", false
	}
	return string(out), true
}

// vsrvStatusOf extracts the :status of a response field block when it is the first field
// (which is how the server under test emits it); -1 when it cannot tell.
func vsrvStatusOf(block []byte) int {
	b := block
	for len(b) > 0 && b[0]&0xe0 == 0x20 { // dynamic table size update
		_, rest, ok := vsrvReadInt(b, 5)
		if !ok {
			return -1
		}
		b = rest
	}
	if len(b) == 0 {
		return -1
	}
	static := map[uint64]int{8: 200, 9: 204, 10: 206, 11: 304, 12: 400, 13: 404, 14: 500}
	if b[0]&0x80 != 0 { // indexed
		idx, _, ok := vsrvReadInt(b, 7)
		if !ok {
			return -1
		}
		if st, ok := static[idx]; ok {
			return st
		}
		return -1
	}
	var prefix uint = 4
	if b[0]&0xc0 == 0x40 {
		prefix = 6
	}
	idx, rest, ok := vsrvReadInt(b, prefix)
	if !ok {
		return -1
	}
	if idx == 0 {
		// literal name
		if len(rest) == 0 {
			return -1
		}
		huff := rest[0]&0x80 != 0
		l, r2, ok := vsrvReadInt(rest, 7)
		if !ok || uint64(len(r2)) < l || huff {
			return -1
		}
		if string(r2[:l]) != ":status" {
			return -1
		}
		rest = r2[l:]
	} else if _, ok := static[idx]; !ok {
		return -1
	}
	if len(rest) == 0 {
		return -1
	}
	huff := rest[0]&0x80 != 0
	l, r2, ok := vsrvReadInt(rest, 7)
	if !ok || uint64(len(r2)) < l {
		return -1
	}
	val := string(r2[:l])
	if huff {
		val, ok = vsrvHuffDigits(r2[:l])
		if !ok {
			return -1
		}
	}
	if len(val) != 3 {
		return -1
	}
	n := 0
	for _, c := range val {
		if c < '0' || c > '9' {
			return -1
		}
		n = n*10 + int(c-'0')
	}
	return n
}

// ---------------------------------------------------------------------------------------
// session

type vsrvSnap struct {
	initWin  int64
	maxFrame int64
}

type vsrvOp struct {
	Kind byte // 'w' Write(N bytes), 'f' Flush, 'p' park until released or cancelled, 'P' park until released, 'r' read request body, 'h' WriteHeader(N)
	N    int
}

type vsrvPlan struct {
	Ops     []vsrvOp
	release chan struct{}
}

type vsrvStream struct {
	id              uint32
	opened          bool // client HEADERS seen on the wire
	cliEnd          bool
	cliRST          bool
	cliRSTEffective bool
	malformed       bool // the script marked the request as one the server must reject
	overLimit       bool // the script opened it while the limit was provably reached
	srvHeaders      int
	srvStatus       int
	srvEnd          bool
	srvRST          bool
	srvRSTCode      uint32
	wu              int64 // Σ client WINDOW_UPDATE increments
	sent            int64 // Σ flow-controlled length of server DATA
	hitZero         bool
	reopened        bool

	hStarted  bool
	hReturned bool
	hInCall   string
	hTotal    int64
	hWriteErr bool
	hParked   bool
}

type vsrvTraceEnt struct {
	f string
	a []any
}

type vsrvViol struct {
	Key    string
	Detail string
	Count  int
}

type vsrvConfig struct {
	Groups               int
	Sched                string // "" (default RFC 9218), "rr", "random", "rfc7540"
	MaxConcurrentStreams uint32 // 0 = server default
	S2CCap               int    // capacity of the server→client pipe; <=0 unlimited
	WUReservedBit        bool   // the scripted client sets the reserved bit in every second WINDOW_UPDATE it sends
	ExpectErrors         bool   // the script provokes connection errors on purpose
	Handler              func(s *vsrvSession, w http.ResponseWriter, r *http.Request)
	// Optional, nil by default (added for C10/C11; no effect on the other monitors):
	// Tune adjusts the servers before ConfigureServer (receive windows, MaxReadFrameSize …).
	Tune func(h1 *http.Server, h2 *Server)
	// OnFrame sees every complete frame of both directions, in wire order per direction, before
	// the session's own bookkeeping; it is called with s.mu held (it must not call session
	// methods that lock).
	OnFrame func(s *vsrvSession, fromServer bool, f h2ref.Frame)
}

type vsrvSession struct {
	cfg  vsrvConfig
	mu   sync.Mutex
	cond *sync.Cond

	// pipe
	c2s            []byte
	cliClosed      bool
	wuCount        int
	srvClosed      bool
	s2cLen         int
	blockedWriters int
	writesDone     int // server Write calls that have returned
	srvBytesOut    int64
	cliBytesOut    int64

	// parsers
	cbuf         []byte
	cPrefaceLeft int
	cGarbage     bool // client bytes are not a frame stream the shadow can follow
	sbuf         []byte

	// shadow state
	snaps         []vsrvSnap // [0] = protocol defaults, then one per client SETTINGS frame
	acked         int        // SETTINGS ACK frames seen from the server
	lo            int        // lowest snapshot index the server can still be at
	connWin       int64
	connHit0      bool
	streams       map[uint32]*vsrvStream
	order         []uint32
	pings         [][8]byte
	srvPings      [][8]byte // data of the PINGs the server itself sent (keep-alive)
	pingAcks      int
	lastPingAck   [8]byte
	srvFrames     int64
	advMax        int64 // server-advertised MAX_CONCURRENT_STREAMS, -1 = none
	goAway        bool
	goAwayCode    uint32
	cHdrOpen      uint32
	sHdrOpen      uint32
	sHdrBuf       []byte
	hRunning      int
	hMax          int
	hStarts       int
	hRetSince     int // handler returns since the last evaluated quiescent point
	maxQueuedSeen int // C16: largest sc.queuedControlFrames sampled
	panics        []string
	expectGone    bool // script sent something after which the server may legitimately hang up

	// Ordering aid for scripts (see settledClean): what the last settle() found, cleared by
	// every later stimulus from the script (client bytes, handler release, drain, capacity
	// change, close).
	lastSettleClean   bool // connection healthy, all client bytes consumed, no server write blocked or half on the wire
	lastSettleAllRead bool // all client bytes consumed by the server

	trace    []vsrvTraceEnt
	traceCut int
	viols    []*vsrvViol
	ev       map[string]int64
	sigh     uint64

	sc      *serverConn
	srv     *Server
	plans   map[uint32]*vsrvPlan
	started bool
}

var vsrvBody = func() []byte {
	b := make([]byte, 1<<20)
	for i := range b {
		b[i] = byte('a' + i%23)
	}
	return b
}()

// panic hook plumbing -------------------------------------------------------------------

var (
	vsrvHookOnce sync.Once
	vsrvConnMu   sync.Mutex
	vsrvConns    = map[*serverConn]*vsrvSession{}
)

func vsrvInstallPanicHook() {
	vsrvHookOnce.Do(func() {
		testHookOnPanicMu.Lock()
		defer testHookOnPanicMu.Unlock()
		testHookOnPanic = func(sc *serverConn, v interface{}) bool {
			st := string(debug.Stack())
			vsrvConnMu.Lock()
			s := vsrvConns[sc]
			vsrvConnMu.Unlock()
			if s == nil {
				return true // not ours: let it crash
			}
			s.mu.Lock()
			s.panics = append(s.panics, fmt.Sprintf("%v\n%s", v, st))
			s.tr("!! serve loop panic: %v", v)
			s.mu.Unlock()
			return false
		}
	})
}

func vsrvNewSession(cfg vsrvConfig) *vsrvSession {
	if g := os.Getenv("VSRV_DEBUG_GROUPS"); g != "" { // debugging aid: enable extra oracle groups
		for _, c := range g {
			cfg.Groups |= 1 << (c - '0')
		}
	}
	s := &vsrvSession{cfg: cfg, streams: map[uint32]*vsrvStream{}, ev: map[string]int64{},
		plans: map[uint32]*vsrvPlan{}, advMax: -1, cPrefaceLeft: len(h2ref.ClientPreface)}
	s.cond = sync.NewCond(&s.mu)
	s.snaps = []vsrvSnap{{initWin: 65535, maxFrame: 16384}}
	s.connWin = 65535
	return s
}

// vsrvGoroutineTracking switches the package's own debug assertion "serve-loop state is only
// touched on the serve goroutine" (goroutineLock, enabled for the test binary by
// http2_test.go). It costs a runtime.Stack per check (2/3 of the run time), so the monitors
// keep it on for a small sequential slice of their sessions and off for the bulk. Must only
// be called while no session is running.
func vsrvGoroutineTracking(on bool) { disableDebugGoroutines.Store(!on) }

// start creates the server and starts ServeConn. Must be called inside the bubble.
func (s *vsrvSession) start() {
	vsrvInstallPanicHook()
	h1 := &http.Server{ErrorLog: log.New(io.Discard, "", 0)}
	h2 := &Server{MaxConcurrentStreams: s.cfg.MaxConcurrentStreams}
	switch s.cfg.Sched {
	case "rr":
		h2.NewWriteScheduler = func() WriteScheduler { return newRoundRobinWriteScheduler() }
	case "random":
		h2.NewWriteScheduler = func() WriteScheduler { return NewRandomWriteScheduler() }
	case "rfc7540":
		h2.NewWriteScheduler = func() WriteScheduler { return NewPriorityWriteScheduler(nil) }
	case "rfc7540-throttle":
		h2.NewWriteScheduler = func() WriteScheduler {
			return NewPriorityWriteScheduler(&PriorityWriteSchedulerConfig{MaxClosedNodesInTree: 10, MaxIdleNodesInTree: 10, ThrottleOutOfOrderWrites: true})
		}
	}
	if s.cfg.Tune != nil {
		s.cfg.Tune(h1, h2)
	}
	ConfigureServer(h1, h2)
	s.srv = h2
	ready := make(chan struct{})
	go h2.serveConn(vsrvSrvConn{s}, &ServeConnOpts{
		Handler:    http.HandlerFunc(s.serveHTTP),
		BaseConfig: h1,
	}, func(sc *serverConn) {
		s.sc = sc
		vsrvConnMu.Lock()
		vsrvConns[sc] = s
		vsrvConnMu.Unlock()
		close(ready)
	})
	<-ready
	s.started = true
}

// finish releases everything so that the bubble can exit.
func (s *vsrvSession) finish() {
	s.mu.Lock()
	for _, p := range s.plans {
		if p.release != nil {
			func() {
				defer func() { recover() }()
				close(p.release)
			}()
		}
	}
	s.cliClosed = true
	s.cond.Broadcast()
	s.mu.Unlock()
	synctest.Wait()
	if s.sc != nil {
		vsrvConnMu.Lock()
		delete(vsrvConns, s.sc)
		vsrvConnMu.Unlock()
	}
}

// server end of the pipe ------------------------------------------------------------------

type vsrvSrvConn struct{ s *vsrvSession }

type vsrvAddr string

func (a vsrvAddr) Network() string { return "verif" }
func (a vsrvAddr) String() string  { return string(a) }

func (c vsrvSrvConn) Read(p []byte) (int, error) {
	s := c.s
	s.mu.Lock()
	defer s.mu.Unlock()
	for len(s.c2s) == 0 && !s.cliClosed && !s.srvClosed {
		s.cond.Wait()
	}
	if s.srvClosed {
		return 0, net.ErrClosed
	}
	if len(s.c2s) == 0 {
		return 0, io.EOF
	}
	n := copy(p, s.c2s)
	s.c2s = s.c2s[n:]
	if len(s.c2s) == 0 {
		s.c2s = nil
	}
	return n, nil
}

func (c vsrvSrvConn) Write(p []byte) (int, error) {
	s := c.s
	s.mu.Lock()
	defer s.mu.Unlock()
	total := 0
	for len(p) > 0 {
		if s.srvClosed {
			return total, net.ErrClosed
		}
		if s.cliClosed {
			return total, io.ErrClosedPipe
		}
		space := len(p)
		if s.cfg.S2CCap > 0 {
			space = s.cfg.S2CCap - s.s2cLen
			if space <= 0 {
				s.blockedWriters++
				s.cond.Wait()
				s.blockedWriters--
				continue
			}
			if space > len(p) {
				space = len(p)
			}
			s.s2cLen += space
		}
		s.serverBytes(p[:space])
		p = p[space:]
		total += space
	}
	s.writesDone++
	return total, nil
}

func (c vsrvSrvConn) Close() error {
	s := c.s
	s.mu.Lock()
	if !s.srvClosed {
		s.srvClosed = true
		s.tr("S closes connection")
	}
	s.cond.Broadcast()
	s.mu.Unlock()
	return nil
}

func (c vsrvSrvConn) LocalAddr() net.Addr                { return vsrvAddr("server:443") }
func (c vsrvSrvConn) RemoteAddr() net.Addr               { return vsrvAddr("client:1") }
func (c vsrvSrvConn) SetDeadline(t time.Time) error      { return nil }
func (c vsrvSrvConn) SetReadDeadline(t time.Time) error  { return nil }
func (c vsrvSrvConn) SetWriteDeadline(t time.Time) error { return nil }

// client side -----------------------------------------------------------------------------

// stimulus records that the script acted on the connection or on a handler: whatever the last
// settle() established is no longer "now". s.mu held.
func (s *vsrvSession) stimulus() { s.lastSettleClean, s.lastSettleAllRead = false, false }

// settledClean reports whether the script's last action was a settle() that found the
// connection open and fully quiescent: every goroutine durably blocked, every client byte
// consumed by the server, no server write blocked in or half-way through the pipe (so every
// frame the server considers written — incl. those only buffered — has been seen by the
// monitor), and nothing done by the script since. At such a point the shadow state and the
// server's own state describe the same instant.
func (s *vsrvSession) settledClean() bool {
	s.mu.Lock()
	defer s.mu.Unlock()
	return s.lastSettleClean
}

// settledAllRead reports whether the script's last action was a settle() at which the server
// had consumed (and, being quiescent, processed) every byte the client sent.
func (s *vsrvSession) settledAllRead() bool {
	s.mu.Lock()
	defer s.mu.Unlock()
	return s.lastSettleAllRead
}

// cliWrite sends raw bytes from the scripted client.
func (s *vsrvSession) cliWrite(p []byte) {
	s.mu.Lock()
	defer s.mu.Unlock()
	s.stimulus()
	if s.cliClosed {
		return
	}
	s.clientBytes(p)
	if s.srvClosed {
		return
	}
	s.c2s = append(s.c2s, p...)
	s.cond.Broadcast()
}

// drain lets the client read up to n bytes of server output (only meaningful with S2CCap>0).
func (s *vsrvSession) drain(n int) {
	s.mu.Lock()
	s.stimulus()
	if n < 0 || n > s.s2cLen {
		n = s.s2cLen
	}
	s.s2cLen -= n
	s.cond.Broadcast()
	s.mu.Unlock()
}

// setCap changes the capacity of the server→client pipe (<=0: unlimited, which also lets
// every blocked server write through).
func (s *vsrvSession) setCap(n int) {
	s.mu.Lock()
	s.stimulus()
	s.cfg.S2CCap = n
	if n <= 0 {
		s.s2cLen = 0
	}
	s.cond.Broadcast()
	s.mu.Unlock()
}

func (s *vsrvSession) cliClose() {
	s.mu.Lock()
	s.stimulus()
	s.cliClosed = true
	s.tr("C closes connection")
	s.cond.Broadcast()
	s.mu.Unlock()
}

func (s *vsrvSession) cliPreface() { s.cliWrite([]byte(h2ref.ClientPreface)) }
func (s *vsrvSession) cliSettings(ss ...h2ref.Setting) {
	s.cliWrite(h2ref.AppendSettings(nil, ss...))
}
func (s *vsrvSession) cliSettingsAck() { s.cliWrite(h2ref.AppendSettingsAck(nil)) }
func (s *vsrvSession) cliWindowUpdate(stream, incr uint32) {
	if s.cfg.WUReservedBit {
		// every second WINDOW_UPDATE carries the reserved bit of its payload set; the increment
		// is the low 31 bits (RFC 9113 6.9), the bit means nothing
		if s.wuCount++; s.wuCount%2 == 0 {
			incr |= 1 << 31
		}
	}
	s.cliWrite(h2ref.AppendWindowUpdate(nil, stream, incr))
}
func (s *vsrvSession) cliRST(stream, code uint32) {
	s.cliWrite(h2ref.AppendRSTStream(nil, stream, code))
}
func (s *vsrvSession) cliPing(data [8]byte)    { s.cliWrite(h2ref.AppendPing(nil, false, data)) }
func (s *vsrvSession) cliPingAck(data [8]byte) { s.cliWrite(h2ref.AppendPing(nil, true, data)) }
func (s *vsrvSession) cliData(stream uint32, end bool, data []byte) {
	s.cliWrite(h2ref.AppendData(nil, stream, end, data, -1))
}

func vsrvGetFields(path string, extra ...vsrvField) []vsrvField {
	f := []vsrvField{{":method", "GET"}, {":scheme", "https"}, {":authority", "verif.test"}, {":path", path}}
	return append(f, extra...)
}

// cliHeaders opens a stream (or sends trailers) with one HEADERS frame.
func (s *vsrvSession) cliHeaders(stream uint32, endStream bool, fields []vsrvField) {
	s.cliWrite(h2ref.AppendHeaders(nil, stream, endStream, true, vsrvEncodeFields(fields), nil, -1))
}

// cliHeadersPrio: HEADERS carrying an RFC 7540 priority section.
func (s *vsrvSession) cliHeadersPrio(stream uint32, endStream bool, fields []vsrvField, prio h2ref.Priority) {
	s.cliWrite(h2ref.AppendHeaders(nil, stream, endStream, true, vsrvEncodeFields(fields), &prio, -1))
}

// setPlan registers what the handler of a stream will do.
func (s *vsrvSession) setPlan(stream uint32, ops []vsrvOp) *vsrvPlan {
	p := &vsrvPlan{Ops: ops, release: make(chan struct{}, 64)}
	s.mu.Lock()
	s.plans[stream] = p
	s.mu.Unlock()
	return p
}

func (s *vsrvSession) release(stream uint32) {
	s.mu.Lock()
	s.stimulus()
	p := s.plans[stream]
	s.mu.Unlock()
	if p != nil {
		select {
		case p.release <- struct{}{}:
		default:
		}
	}
}

// releaseAll lets the handler of a stream run through all its remaining park points.
func (s *vsrvSession) releaseAll(stream uint32) {
	s.mu.Lock()
	s.stimulus()
	p := s.plans[stream]
	s.mu.Unlock()
	if p != nil {
		func() {
			defer func() { recover() }()
			close(p.release)
		}()
	}
}

// alive reports whether the connection is still up and not shutting down.
func (s *vsrvSession) alive() bool {
	s.mu.Lock()
	defer s.mu.Unlock()
	return s.healthy()
}

func (s *vsrvSession) markMalformed(stream uint32) {
	s.mu.Lock()
	s.st(stream).malformed = true
	s.mu.Unlock()
}

// bookkeeping (all below: s.mu held) ------------------------------------------------------

// tr records a trace event; formatting is deferred until a history is actually printed, so
// arguments must not alias buffers that are reused (pass values, not sub-slices).
func (s *vsrvSession) tr(format string, a ...any) {
	const keep = 600
	if len(s.trace) >= keep {
		s.trace = append(s.trace[:0], s.trace[keep/2:]...)
		s.traceCut += keep / 2
	}
	s.trace = append(s.trace, vsrvTraceEnt{format, a})
}

func (s *vsrvSession) history(n int) string {
	t := s.trace
	cut := s.traceCut
	if len(t) > n {
		cut += len(t) - n
		t = t[len(t)-n:]
	}
	var b strings.Builder
	fmt.Fprintf(&b, "[history: %d earlier events omitted]", cut)
	for _, e := range t {
		b.WriteString("\n  ")
		fmt.Fprintf(&b, e.f, e.a...)
	}
	return b.String()
}

func (s *vsrvSession) viol(group int, key, format string, a ...any) {
	if s.cfg.Groups&group == 0 {
		s.ev["othergroup_"+key]++
		return
	}
	for _, v := range s.viols {
		if v.Key == key {
			v.Count++
			return
		}
	}
	s.tr("!! VIOLATION %s", key)
	s.viols = append(s.viols, &vsrvViol{Key: key, Detail: fmt.Sprintf(format, a...) + "\n" + s.history(60), Count: 1})
}

func (s *vsrvSession) st(id uint32) *vsrvStream {
	st := s.streams[id]
	if st == nil {
		st = &vsrvStream{id: id, srvStatus: -1}
		s.streams[id] = st
		s.order = append(s.order, id)
	}
	return st
}

func (s *vsrvSession) sigAdd(parts ...any) {
	h := fnv.New64a()
	fmt.Fprint(h, s.sigh, parts)
	s.sigh = h.Sum64()
}

func (s *vsrvSession) healthy() bool {
	return !s.srvClosed && !s.cliClosed && !s.goAway && len(s.panics) == 0
}

func (s *vsrvSession) sentSnap() vsrvSnap { return s.snaps[len(s.snaps)-1] }

// client → server bytes ---------------------------------------------------------------------

func (s *vsrvSession) clientBytes(p []byte) {
	s.cliBytesOut += int64(len(p))
	if s.cGarbage {
		return
	}
	s.cbuf = append(s.cbuf, p...)
	if s.cPrefaceLeft > 0 {
		n := s.cPrefaceLeft
		if n > len(s.cbuf) {
			n = len(s.cbuf)
		}
		off := len(h2ref.ClientPreface) - s.cPrefaceLeft
		if string(s.cbuf[:n]) != h2ref.ClientPreface[off:off+n] {
			s.cGarbage = true
			s.tr("C> (bytes that are not the client preface)")
			return
		}
		s.cbuf = s.cbuf[n:]
		s.cPrefaceLeft -= n
		if s.cPrefaceLeft > 0 {
			return
		}
		s.tr("C> preface")
	}
	frames, rest := h2ref.ParseAll(s.cbuf)
	for _, f := range frames {
		s.onClientFrame(f)
	}
	s.cbuf = append([]byte(nil), rest...)
}

func (s *vsrvSession) onClientFrame(f h2ref.Frame) {
	s.ev["client_frames"]++
	if s.cfg.OnFrame != nil {
		s.cfg.OnFrame(s, false, f)
	}
	switch f.Type {
	case h2ref.TypeSettings:
		if f.StreamID != 0 {
			break
		}
		if f.Has(h2ref.FlagAck) {
			s.tr("C> SETTINGS ACK")
			break
		}
		ss, err := f.Settings()
		if err != nil {
			break
		}
		sn := s.sentSnap()
		var desc []string
		for _, x := range ss {
			switch x.ID {
			case h2ref.SettingInitialWindowSize:
				sn.initWin = int64(x.Val)
				desc = append(desc, fmt.Sprintf("INITIAL_WINDOW_SIZE=%d", x.Val))
			case h2ref.SettingMaxFrameSize:
				sn.maxFrame = int64(x.Val)
				desc = append(desc, fmt.Sprintf("MAX_FRAME_SIZE=%d", x.Val))
			default:
				desc = append(desc, fmt.Sprintf("0x%x=%d", x.ID, x.Val))
			}
		}
		s.snaps = append(s.snaps, sn)
		s.ev["client_settings_frames"]++
		s.tr("C> SETTINGS #%d {%s}", len(s.snaps)-1, strings.Join(desc, ","))
		for _, id := range s.order {
			st := s.streams[id]
			if !st.opened || st.srvEnd || st.srvRST || st.cliRST {
				continue
			}
			if w := sn.initWin + st.wu - st.sent; w <= 0 {
				if w < 0 {
					s.ev["stream_window_negative_after_settings"]++
				}
				if !st.hitZero {
					s.ev["stream_window_hit_zero"]++
				}
				st.hitZero = true
				st.reopened = false
			}
		}
	case h2ref.TypeWindowUpdate:
		inc, err := f.WindowIncrement()
		if err != nil {
			break
		}
		if f.StreamID == 0 {
			if s.connWin <= 0 && s.connWin+int64(inc) > 0 {
				s.ev["conn_window_reopened"]++
			}
			s.connWin += int64(inc)
			s.tr("C> WINDOW_UPDATE conn +%d (now %d)", inc, s.connWin)
		} else {
			st := s.st(f.StreamID)
			st.wu += int64(inc)
			s.tr("C> WINDOW_UPDATE s=%d +%d", f.StreamID, inc)
		}
		s.ev["client_window_updates"]++
	case h2ref.TypeHeaders:
		st := s.st(f.StreamID)
		if !st.opened {
			st.opened = true
			s.ev["streams_opened"]++
		}
		if f.Has(h2ref.FlagEndStream) {
			st.cliEnd = true
		}
		if !f.Has(h2ref.FlagEndHeaders) {
			s.cHdrOpen = f.StreamID
		}
		s.tr("C> HEADERS s=%d len=%d flags=0x%x", f.StreamID, f.Length, f.Flags)
	case h2ref.TypeContinuation:
		if f.Has(h2ref.FlagEndHeaders) {
			s.cHdrOpen = 0
		}
		s.tr("C> CONTINUATION s=%d len=%d flags=0x%x", f.StreamID, f.Length, f.Flags)
	case h2ref.TypeData:
		st := s.st(f.StreamID)
		if f.Has(h2ref.FlagEndStream) {
			st.cliEnd = true
		}
		s.tr("C> DATA s=%d len=%d flags=0x%x", f.StreamID, f.Length, f.Flags)
	case h2ref.TypeRSTStream:
		st := s.st(f.StreamID)
		st.cliRST = true
		code, _ := f.RSTCode()
		s.ev["client_rst_stream"]++
		s.tr("C> RST_STREAM s=%d code=%d", f.StreamID, code)
	case h2ref.TypePing:
		d, perr := f.Ping()
		if f.StreamID == 0 && !f.Has(h2ref.FlagAck) && perr == nil {
			s.pings = append(s.pings, d)
			s.ev["client_pings"]++
		}
		s.tr("C> PING flags=0x%x len=%d %x", f.Flags, f.Length, d)
	case h2ref.TypeGoAway:
		s.tr("C> GOAWAY")
		s.expectGone = true
	default:
		f.Payload = nil
		s.tr("C> %v", f)
	}
}

// server → client bytes ---------------------------------------------------------------------

func (s *vsrvSession) serverBytes(p []byte) {
	s.srvBytesOut += int64(len(p))
	buf := p
	if len(s.sbuf) > 0 {
		s.sbuf = append(s.sbuf, p...)
		buf = s.sbuf
	}
	frames, rest := h2ref.ParseAll(buf)
	for _, f := range frames {
		s.onServerFrame(f)
	}
	s.sbuf = append(s.sbuf[:0], rest...) // rest may alias s.sbuf further up: append moves forward safely
}

func (s *vsrvSession) maxFrameAllowed() int64 {
	var m int64
	for j := s.lo; j < len(s.snaps); j++ {
		if s.snaps[j].maxFrame > m {
			m = s.snaps[j].maxFrame
		}
	}
	return m
}

func (s *vsrvSession) onServerFrame(f h2ref.Frame) {
	s.srvFrames++
	s.ev["server_frames"]++
	if s.cfg.OnFrame != nil {
		s.cfg.OnFrame(s, true, f)
	}
	if !s.cGarbage {
		if m := s.maxFrameAllowed(); int64(f.Length) > m {
			s.viol(vsrvGrpFlow, "frame-exceeds-max-frame-size", "server sent %v but the largest SETTINGS_MAX_FRAME_SIZE it can rely on is %d (snapshots %d..%d of %v)", f, m, s.lo, len(s.snaps)-1, s.snaps)
		}
	}
	switch f.Type {
	case h2ref.TypeSettings:
		if f.Has(h2ref.FlagAck) {
			s.acked++
			s.ev["server_settings_acks"]++
			s.tr("S> SETTINGS ACK #%d", s.acked)
			if s.cGarbage {
				break
			}
			if s.acked > len(s.snaps)-1 {
				s.viol(vsrvGrpState, "settings-ack-unsolicited", "server sent SETTINGS ACK number %d but the client sent only %d SETTINGS frames", s.acked, len(s.snaps)-1)
				s.acked = len(s.snaps) - 1
			}
			if s.acked > s.lo {
				s.lo = s.acked
			}
			break
		}
		ss, _ := f.Settings()
		for _, x := range ss {
			if x.ID == h2ref.SettingMaxConcurrentStreams {
				s.advMax = int64(x.Val)
			}
		}
		s.tr("S> SETTINGS %v", ss)
	case h2ref.TypePing:
		if !f.Has(h2ref.FlagAck) {
			d, _ := f.Ping()
			s.srvPings = append(s.srvPings, d)
			s.tr("S> PING %x", d)
			break
		}
		d, _ := f.Ping()
		s.tr("S> PING ACK %x", d)
		s.ev["server_ping_acks"]++
		s.lastPingAck = d
		if s.cGarbage {
			break
		}
		if s.pingAcks >= len(s.pings) {
			s.viol(vsrvGrpState, "ping-ack-unsolicited", "server sent PING ACK %x but all %d client PINGs were already answered", d, len(s.pings))
			break
		}
		if want := s.pings[s.pingAcks]; want != d {
			s.viol(vsrvGrpState, "ping-ack-wrong-data", "PING ACK number %d carries %x, the client's PING number %d carried %x", s.pingAcks+1, d, s.pingAcks+1, want)
		}
		s.pingAcks++
	case h2ref.TypeGoAway:
		last, code, _, _ := f.GoAway()
		s.goAway = true
		s.goAwayCode = code
		s.ev["server_goaway"]++
		s.tr("S> GOAWAY last=%d code=%d", last, code)
	case h2ref.TypeRSTStream:
		code, _ := f.RSTCode()
		st := s.st(f.StreamID)
		st.srvRST = true
		st.srvRSTCode = code
		s.ev["server_rst_stream"]++
		s.tr("S> RST_STREAM s=%d code=%d", f.StreamID, code)
	case h2ref.TypeWindowUpdate:
		inc, _ := f.WindowIncrement()
		s.tr("S> WINDOW_UPDATE s=%d +%d", f.StreamID, inc)
	case h2ref.TypeHeaders:
		st := s.st(f.StreamID)
		s.tr("S> HEADERS s=%d len=%d flags=0x%x", f.StreamID, f.Length, f.Flags)
		s.checkStreamFrame(st, f)
		st.srvHeaders++
		frag, _ := f.Fragment()
		s.sHdrBuf = append(s.sHdrBuf[:0], frag...)
		if f.Has(h2ref.FlagEndHeaders) {
			s.endServerHeaders(st)
		} else {
			s.sHdrOpen = f.StreamID
		}
		if f.Has(h2ref.FlagEndStream) {
			st.srvEnd = true
		}
		s.ev["server_headers"]++
	case h2ref.TypeContinuation:
		s.tr("S> CONTINUATION s=%d len=%d flags=0x%x", f.StreamID, f.Length, f.Flags)
		s.sHdrBuf = append(s.sHdrBuf, f.Payload...)
		if f.Has(h2ref.FlagEndHeaders) {
			s.sHdrOpen = 0
			s.endServerHeaders(s.st(f.StreamID))
		}
	case h2ref.TypeData:
		st := s.st(f.StreamID)
		s.tr("S> DATA s=%d len=%d flags=0x%x", f.StreamID, f.Length, f.Flags)
		s.checkStreamFrame(st, f)
		s.checkDataFlow(st, f)
		if f.Has(h2ref.FlagEndStream) {
			st.srvEnd = true
		}
	case h2ref.TypePushPromise:
		// the promised stream is a response stream like any other: its DATA is subject to the
		// client's windows, and the client may extend them
		pl := f.Payload
		if f.Has(h2ref.FlagPadded) && len(pl) > 0 {
			pl = pl[1:]
		}
		if len(pl) >= 4 {
			pid := binary.BigEndian.Uint32(pl) & 0x7fffffff
			st := s.st(pid)
			st.opened = true
			s.ev["server_push_promises"]++
			s.tr("S> PUSH_PROMISE s=%d promised=%d", f.StreamID, pid)
		}
	default:
		f.Payload = nil
		s.tr("S> %v", f)
	}
}

func (s *vsrvSession) endServerHeaders(st *vsrvStream) {
	if st.srvStatus < 0 {
		st.srvStatus = vsrvStatusOf(s.sHdrBuf)
		if st.srvStatus > 0 {
			s.tr("   (status %d on s=%d)", st.srvStatus, st.id)
		}
	}
}

// checkStreamFrame: HEADERS/DATA only on streams that are still writable (C15).
func (s *vsrvSession) checkStreamFrame(st *vsrvStream, f h2ref.Frame) {
	if s.cGarbage {
		return
	}
	s.ev["stream_frames_state_checked"]++
	name := h2ref.TypeName(f.Type)
	switch {
	case st.srvEnd:
		s.viol(vsrvGrpState, "frame-after-end-stream-sent", "server sent %s on stream %d after it had sent END_STREAM on it", name, st.id)
	case st.srvRST:
		s.viol(vsrvGrpState, "frame-after-rst-stream-sent", "server sent %s on stream %d after it had sent RST_STREAM(code %d) on it", name, st.id, st.srvRSTCode)
	case st.cliRSTEffective:
		s.viol(vsrvGrpState, "frame-after-rst-stream-received", "server sent %s on stream %d although the client's RST_STREAM had been delivered and processed (a quiescent point lies in between)", name, st.id)
	}
	if !st.opened {
		s.ev["server_frame_on_unopened_stream"]++
	}
}

// checkDataFlow: C08 per-frame oracle.
func (s *vsrvSession) checkDataFlow(st *vsrvStream, f h2ref.Frame) {
	if s.cGarbage {
		return
	}
	L := int64(f.Length) // flow-controlled length includes padding
	s.ev["data_frames_checked"]++
	s.ev["data_bytes"] += L
	if L == 0 {
		s.ev["data_frames_empty"]++
		return
	}
	s.sigAdd("D", st.id, L)
	// connection window (does not depend on SETTINGS)
	if s.connWin-L < 0 {
		s.viol(vsrvGrpFlow, "data-exceeds-conn-window", "DATA of %d bytes on stream %d but the connection send window is %d", L, st.id, s.connWin)
	}
	// stream window / frame size under every snapshot the server may legitimately be using
	feasible := -1
	sizeOK := false
	var wins []string
	for j := s.lo; j < len(s.snaps); j++ {
		sn := s.snaps[j]
		w := sn.initWin + st.wu - st.sent
		wins = append(wins, fmt.Sprintf("#%d:window=%d,maxframe=%d", j, w, sn.maxFrame))
		if L <= sn.maxFrame {
			sizeOK = true
			if w-L >= 0 {
				feasible = j
				break
			}
		}
	}
	if feasible < 0 {
		if !sizeOK {
			// already reported by the generic frame-size check; keep the specific key too
			s.viol(vsrvGrpFlow, "data-exceeds-max-frame-size", "DATA of %d bytes on stream %d exceeds SETTINGS_MAX_FRAME_SIZE under every admissible SETTINGS snapshot: %v", L, st.id, wins)
		} else {
			s.viol(vsrvGrpFlow, "data-exceeds-stream-window", "DATA of %d bytes on stream %d (already sent %d, WINDOW_UPDATEs %d) exceeds the stream send window under every admissible SETTINGS snapshot (acked=%d sent=%d): %v", L, st.id, st.sent, st.wu, s.acked, len(s.snaps)-1, wins)
		}
	} else {
		if feasible > s.lo {
			s.lo = feasible
			s.ev["settings_applied_before_ack_proven"]++
		}
		if L == s.snaps[feasible].maxFrame {
			s.ev["data_frames_at_max_frame_size"]++
		}
	}
	if st.hitZero && !st.reopened {
		st.reopened = true
		s.ev["stream_window_reopened_and_used"]++
	}
	if s.connHit0 {
		s.connHit0 = false
		s.ev["conn_window_reopened_and_used"]++
	}
	st.sent += L
	s.connWin -= L
	if s.connWin == 0 {
		s.connHit0 = true
		s.ev["conn_window_hit_zero"]++
	}
	if w := s.sentSnap().initWin + st.wu - st.sent; w <= 0 {
		if !st.hitZero {
			s.ev["stream_window_hit_zero"]++
		}
		st.hitZero = true
		st.reopened = false
	}
}

// handler side ----------------------------------------------------------------------------

type vsrvFlushErrorer interface{ FlushError() error }

func (s *vsrvSession) hEvent(id uint32, what string, n int, err error) {
	s.mu.Lock()
	defer s.mu.Unlock()
	st := s.st(id)
	switch what {
	case "start":
		st.hStarted = true
		s.hRunning++
		s.hStarts++
		s.ev["handler_starts"]++
		if s.hRunning > s.hMax {
			s.hMax = s.hRunning
		}
		s.tr("H  start s=%d (running %d)", id, s.hRunning)
		if s.advMax >= 0 && int64(s.hRunning) > s.advMax {
			s.viol(vsrvGrpState, "handlers-exceed-max-concurrent-streams", "%d request handlers running at once, the server advertised SETTINGS_MAX_CONCURRENT_STREAMS=%d", s.hRunning, s.advMax)
		}
		// The bound on running handlers is the server's own configured limit; it holds whether
		// or not the client has read (and the monitor has seen) the server's SETTINGS frame.
		if lim := int(s.cfg.MaxConcurrentStreams); lim > 0 && s.hRunning > lim {
			s.viol(vsrvGrpSurvive, "running-handlers-exceed-configured-limit", "%d request handlers running at once, Server.MaxConcurrentStreams=%d", s.hRunning, lim)
		}
		if st.malformed {
			s.viol(vsrvGrpState, "malformed-request-reached-handler", "the request on stream %d is malformed / carries connection-specific fields but the user handler was invoked", id)
		}
		if st.overLimit {
			s.viol(vsrvGrpState, "over-limit-stream-reached-handler", "stream %d was opened while SETTINGS_MAX_CONCURRENT_STREAMS=%d streams were provably open, but its handler ran", id, s.advMax)
		}
	case "return":
		st.hReturned = true
		st.hInCall = ""
		s.hRunning--
		s.hRetSince++
		s.tr("H  return s=%d", id)
	case "write", "flush", "park", "read":
		st.hInCall = what
		if what == "write" {
			st.hTotal += int64(n)
		}
		if what == "park" {
			st.hParked = true
		}
	case "push":
		if err != nil {
			s.ev["handler_push_errors"]++
			s.tr("H  push by s=%d failed: %v", id, err)
		} else {
			s.ev["handler_pushes"]++
		}
	case "done":
		if st.hInCall == "write" && err != nil {
			st.hWriteErr = true
		}
		if st.hInCall == "flush" && err != nil {
			st.hWriteErr = true
		}
		if st.hInCall == "park" {
			st.hParked = false
		}
		st.hInCall = ""
	}
}

func (s *vsrvSession) serveHTTP(w http.ResponseWriter, r *http.Request) {
	var id uint32
	if rw, ok := w.(*responseWriter); ok && rw.rws != nil && rw.rws.stream != nil {
		id = rw.rws.stream.id
	}
	s.hEvent(id, "start", 0, nil)
	defer s.hEvent(id, "return", 0, nil)
	if s.cfg.Handler != nil {
		s.cfg.Handler(s, w, r)
		return
	}
	s.mu.Lock()
	plan := s.plans[id]
	s.mu.Unlock()
	if plan == nil {
		w.Write(vsrvBody[:100])
		return
	}
	for _, op := range plan.Ops {
		switch op.Kind {
		case 'w':
			s.hEvent(id, "write", op.N, nil)
			_, err := w.Write(vsrvBody[:op.N])
			s.hEvent(id, "done", 0, err)
			if err != nil {
				return
			}
		case 'f':
			s.hEvent(id, "flush", 0, nil)
			err := w.(vsrvFlushErrorer).FlushError()
			s.hEvent(id, "done", 0, err)
			if err != nil {
				return
			}
		case 'p':
			s.hEvent(id, "park", 0, nil)
			select {
			case <-plan.release:
				s.hEvent(id, "done", 0, nil)
			case <-r.Context().Done():
				s.hEvent(id, "done", 0, nil)
				return
			}
		case 'P': // park that ignores cancellation of the request (only the script releases it)
			s.hEvent(id, "park", 0, nil)
			<-plan.release
			s.hEvent(id, "done", 0, nil)
		case 'r':
			s.hEvent(id, "read", 0, nil)
			io.Copy(io.Discard, r.Body)
			s.hEvent(id, "done", 0, nil)
		case 'h':
			w.WriteHeader(op.N)
		case 'U': // server push of /pushed/<N>
			if pu, ok := w.(http.Pusher); ok {
				var opt *http.PushOptions
				if op.N >= 100 {
					// a promised request whose field block does not fit one frame
					opt = &http.PushOptions{Header: http.Header{"X-Big": {strings.Repeat("X", 17000+op.N)}}} // "X": 8-bit Huffman code, sent as it is
				}
				err := pu.Push("/pushed/"+strconv.Itoa(op.N), opt)
				s.hEvent(id, "push", 0, err)
			}
		}
	}
}

// quiescence -------------------------------------------------------------------------------

// settle waits until every goroutine of the bubble is durably blocked and evaluates the
// at-quiescence oracles.
func (s *vsrvSession) settle() {
	synctest.Wait()
	s.mu.Lock()
	defer s.mu.Unlock()
	s.ev["quiescent_points"]++
	s.stimulus()
	if s.cGarbage {
		return
	}
	writerFree := s.blockedWriters == 0 && len(s.sbuf) == 0
	allRead := len(s.c2s) == 0 && len(s.cbuf) == 0 && s.cPrefaceLeft == 0
	s.lastSettleAllRead = allRead
	s.lastSettleClean = allRead && writerFree && s.healthy()
	if !writerFree || !allRead {
		s.ev["quiescent_points_with_blocked_io"]++
		return
	}
	// the serve loop has consumed everything the client sent
	s.hRetSince = 0
	for _, id := range s.order {
		st := s.streams[id]
		if st.cliRST && !st.cliRSTEffective {
			st.cliRSTEffective = true
			s.ev["client_rst_became_effective"]++
		}
	}
	if !s.healthy() {
		if !s.cfg.ExpectErrors && !s.expectGone && !s.cliClosed && len(s.panics) == 0 && (s.goAway && s.goAwayCode != 0 || s.srvClosed) {
			s.viol(vsrvGrpFlow|vsrvGrpState, "valid-session-killed", "the client only sent valid frames but the server ended the connection (goaway=%v code=%d closed=%v)", s.goAway, s.goAwayCode, s.srvClosed)
		}
		return
	}
	s.ev["quiescent_points_evaluated"]++
	// C15: answers owed
	if s.pingAcks != len(s.pings) {
		s.viol(vsrvGrpState, "ping-unanswered", "at quiescence the server has answered %d of %d client PINGs", s.pingAcks, len(s.pings))
	}
	if s.acked != len(s.snaps)-1 {
		s.viol(vsrvGrpState, "settings-ack-missing", "at quiescence (connection open, server idle, all client bytes consumed, all server output read) the client has sent %d SETTINGS frames but the server has sent %d SETTINGS ACKs", len(s.snaps)-1, s.acked)
	}
	// C08: bounded progress (needs the write accounting of the plan-driven handler)
	cur := s.sentSnap()
	for _, id := range s.order {
		if s.cfg.Handler != nil {
			break
		}
		st := s.streams[id]
		if !st.hStarted || st.cliRST || st.srvRST || st.srvEnd || st.hWriteErr {
			continue
		}
		blocked := st.hInCall == "write" || st.hInCall == "flush" || st.hReturned
		if !blocked {
			continue
		}
		pending := st.hTotal - st.sent
		win := cur.initWin + st.wu - st.sent
		switch {
		case pending <= 0 && st.hReturned:
			s.viol(vsrvGrpFlow, "stuck-end-stream", "stream %d: handler returned, all %d body bytes are on the wire, but END_STREAM was not sent at quiescence", id, st.hTotal)
		case pending <= 0:
			s.viol(vsrvGrpFlow, "stuck-call-nothing-pending", "stream %d: handler is parked inside %s at quiescence although no body byte is outstanding (written %d, on the wire %d)", id, st.hInCall, st.hTotal, st.sent)
		case win > 0 && s.connWin > 0:
			s.viol(vsrvGrpFlow, "stuck-with-open-windows", "stream %d: %d body bytes outstanding (handler in %q, returned=%v) at quiescence although the stream window is %d and the connection window is %d", id, pending, st.hInCall, st.hReturned, win, s.connWin)
		default:
			s.ev["blocked_on_closed_window_at_quiescence"]++
		}
	}
}

// report -------------------------------------------------------------------------------------

// report transfers the session's findings into the verifrt case/run.
func (s *vsrvSession) report(r *verifrt.R, c *verifrt.Case) {
	s.mu.Lock()
	defer s.mu.Unlock()
	for _, v := range s.viols {
		c.Violation(v.Key, "%s (×%d in this session)", v.Detail, v.Count)
	}
	for _, p := range s.panics {
		c.Violation(vsrvPanicKey(s.cfg.Sched, p), "serve loop panicked: %s\n%s", p, s.history(60))
	}
	keys := make([]string, 0, len(s.ev))
	for k := range s.ev {
		keys = append(keys, k)
	}
	sort.Strings(keys)
	for _, k := range keys {
		r.Event(k, s.ev[k])
	}
	r.Event("sessions", 1)
	r.Event("server_bytes_on_wire", s.srvBytesOut)
}

// vsrvPanicKey gives a serve-loop panic a stable key. A nil-interface call in startFrameWrite
// under the RFC 7540 priority scheduler is the signature of the scheduler defect tracked
// under C12 (Pop returning a zero FrameWriteRequest after CloseStream with queued frames).
func vsrvPanicKey(sched, p string) string {
	first := p
	if i := strings.IndexByte(first, '\n'); i >= 0 {
		first = first[:i]
	}
	if strings.HasPrefix(sched, "rfc7540") && strings.Contains(first, "nil pointer dereference") && strings.Contains(p, "startFrameWrite") {
		return "c12-rfc7540-zero-request"
	}
	if len(first) > 70 {
		first = first[:70]
	}
	b := []byte(first)
	for i, c := range b {
		if c >= '0' && c <= '9' {
			b[i] = '#'
		}
	}
	return "serve-loop-panic:" + string(b)
}

// vsrvBubble runs fn inside a synctest bubble and converts panics (of fn, or the bubble's
// deadlock / leaked-goroutine panic) into a returned description.
//
// synctest.Test runs on a goroutine of its own: when the race detector reports a race during
// a bubble, testing marks the bubble's T failed and synctest.Test calls FailNow on the parent
// T, i.e. runtime.Goexit on the calling goroutine — which must not be a verifrt worker.
func vsrvBubble(tb testing.TB, fn func()) (inner, outer string) {
	done := make(chan struct{})
	go func() {
		defer close(done)
		defer func() {
			if e := recover(); e != nil {
				outer = fmt.Sprint(e)
			}
		}()
		synctest.Test(tb.(*testing.T), func(t *testing.T) {
			defer func() {
				if e := recover(); e != nil {
					inner = fmt.Sprintf("%v\n%s", e, debug.Stack())
				}
			}()
			fn()
		})
	}()
	<-done
	return
}
