//go:build verif

package http2

// C06: every frame a Framer Write method accepts reads back identically.
//
// For each generated call the monitor knows, from the arguments alone, (a) the exact bytes
// RFC 9113 §4.1/§6 (RFC 9218 §7.1) prescribe — built with the independent h2ref builders —
// and (b) the logical frame (type, flags, stream, fields, padding removed). It compares the
// bytes the Framer wrote with (a) and what Framer.ReadFrame returns for those bytes with (b).

import (
	"bytes"
	"fmt"
	"hash/fnv"
	"io"
	"math/rand/v2"
	"sync"
	"testing"
	"time"

	"golang.org/x/net/internal/verifrt"
	"golang.org/x/net/internal/verifrt/h2ref"
)

type c06Frame struct {
	desc     string
	oversize bool // payload would need more than 24 bits of length: must be refused
	bad      bool // arguments the documentation declares illegal: the method is expected to refuse
	write    func(fr *Framer) error
	wire     []byte   // expected bytes
	want     vfrmView // expected logical frame
	padded   bool
	prio     bool
	// header-block bookkeeping for legal ordering
	opens  uint32 // HEADERS/PUSH_PROMISE without END_HEADERS on this stream
	closes bool   // carries END_HEADERS
}

var c06Sizes = []int{0, 1, 2, 8, 9, 255, 256, 257, 16383, 16384, 16385}

func c06Size(rng *rand.Rand) int {
	switch rng.IntN(10) {
	case 0, 1:
		return c06Sizes[rng.IntN(len(c06Sizes))]
	case 2:
		return rng.IntN(20000)
	}
	return rng.IntN(300)
}

func c06wire(b []byte) (h2ref.Frame, []byte) {
	fs, rest := h2ref.ParseAll(b)
	if len(fs) != 1 || len(rest) != 0 {
		panic("verif harness: h2ref builder did not produce exactly one frame")
	}
	return fs[0], b
}

// c06Gen draws one Write call. open is the stream with an unfinished field block (0: none);
// last tells that nothing will be written after this frame.
func c06Gen(rng *rand.Rand, open uint32, last bool, size func(*rand.Rand) int) *c06Frame {
	sid := vfrmStreamID(rng)
	if open != 0 {
		// only CONTINUATION on the open stream is legal now
		frag := vfrmFill(rng, size(rng))
		end := rng.IntN(2) == 0
		g := &c06Frame{desc: fmt.Sprintf("WriteContinuation(%d,%v,%dB)", open, end, len(frag)), closes: end, opens: open}
		g.write = func(fr *Framer) error { return fr.WriteContinuation(open, end, frag) }
		g.wire = h2ref.AppendContinuation(nil, open, end, frag)
		g.want = vfrmView{Kind: "ContinuationFrame", Type: h2ref.TypeContinuation, StreamID: open, Length: uint32(len(frag)), Body: frag}
		if end {
			g.want.Flags = h2ref.FlagEndHeaders
			g.opens = 0
		}
		return g
	}
	g := &c06Frame{}
	switch k := rng.IntN(16); k {
	case 0: // WriteData
		data := vfrmFill(rng, size(rng))
		es := rng.IntN(2) == 0
		g.desc = fmt.Sprintf("WriteData(%d,%v,%dB)", sid, es, len(data))
		g.write = func(fr *Framer) error { return fr.WriteData(sid, es, data) }
		g.wire = h2ref.AppendData(nil, sid, es, data, -1)
		g.want = vfrmView{Kind: "DataFrame", Type: h2ref.TypeData, StreamID: sid, Length: uint32(len(data)), Body: data}
		if es {
			g.want.Flags |= h2ref.FlagEndStream
		}
	case 1, 2: // WriteDataPadded
		data := vfrmFill(rng, size(rng))
		es := rng.IntN(2) == 0
		var pad []byte
		padLen := -1
		switch rng.IntN(6) {
		case 0: // nil: no PADDED flag
		case 1:
			pad, padLen = []byte{}, 0 // non-nil empty: PADDED flag with Pad Length 0
		case 2:
			padLen = 255
			pad = make([]byte, 255)
		default:
			padLen = 1 + rng.IntN(255)
			pad = make([]byte, padLen)
		}
		g.desc = fmt.Sprintf("WriteDataPadded(%d,%v,%dB,pad=%d)", sid, es, len(data), padLen)
		g.write = func(fr *Framer) error { return fr.WriteDataPadded(sid, es, data, pad) }
		g.wire = h2ref.AppendData(nil, sid, es, data, padLen)
		g.want = vfrmView{Kind: "DataFrame", Type: h2ref.TypeData, StreamID: sid, Length: uint32(len(data)), Body: data}
		if es {
			g.want.Flags |= h2ref.FlagEndStream
		}
		if padLen >= 0 {
			g.want.Flags |= h2ref.FlagPadded
			g.want.Length += uint32(1 + padLen)
			g.padded = true
		}
	case 3, 4, 5: // WriteHeaders
		frag := vfrmFill(rng, size(rng))
		p := HeadersFrameParam{StreamID: sid, BlockFragment: frag, EndStream: rng.IntN(2) == 0, EndHeaders: rng.IntN(3) != 0}
		if last && rng.IntN(2) == 0 {
			p.EndHeaders = false
		}
		padLen := -1
		switch rng.IntN(4) {
		case 0:
			p.PadLength = uint8(1 + rng.IntN(255))
		case 1:
			p.PadLength = 255
		}
		if p.PadLength != 0 {
			padLen = int(p.PadLength)
		}
		var rp *h2ref.Priority
		if rng.IntN(2) == 0 {
			q := vfrmPrio(rng)
			p.Priority = PriorityParam{StreamDep: q.StreamDep, Exclusive: q.Exclusive, Weight: q.Weight}
			if q != (h2ref.Priority{}) { // documented: "Priority, if non-zero, includes stream priority information"
				rp = &q
			}
		}
		g.desc = fmt.Sprintf("WriteHeaders(%d,es=%v,eh=%v,%dB,pad=%d,prio=%+v)", sid, p.EndStream, p.EndHeaders, len(frag), p.PadLength, p.Priority)
		g.write = func(fr *Framer) error { return fr.WriteHeaders(p) }
		g.wire = h2ref.AppendHeaders(nil, sid, p.EndStream, p.EndHeaders, frag, rp, padLen)
		g.want = vfrmView{Kind: "HeadersFrame", Type: h2ref.TypeHeaders, StreamID: sid, Length: uint32(len(frag)), Body: frag}
		if p.EndStream {
			g.want.Flags |= h2ref.FlagEndStream
		}
		if p.EndHeaders {
			g.want.Flags |= h2ref.FlagEndHeaders
			g.closes = true
		} else {
			g.opens = sid
		}
		if padLen > 0 {
			g.want.Flags |= h2ref.FlagPadded
			g.want.Length += uint32(1 + padLen)
			g.padded = true
		}
		if rp != nil {
			g.want.Flags |= h2ref.FlagPriority
			g.want.Length += 5
			g.want.HasPrio, g.want.Prio = true, *rp
			g.prio = true
		}
	case 6: // WritePriority
		q := vfrmPrio(rng)
		g.desc = fmt.Sprintf("WritePriority(%d,%+v)", sid, q)
		g.write = func(fr *Framer) error {
			return fr.WritePriority(sid, PriorityParam{StreamDep: q.StreamDep, Exclusive: q.Exclusive, Weight: q.Weight})
		}
		g.wire = h2ref.AppendPriority(nil, sid, q)
		g.want = vfrmView{Kind: "PriorityFrame", Type: h2ref.TypePriority, StreamID: sid, Length: 5, HasPrio: true, Prio: q}
		g.prio = true
	case 7: // WriteRSTStream
		code := rng.Uint32()
		if rng.IntN(2) == 0 {
			code = rng.Uint32N(16)
		}
		g.desc = fmt.Sprintf("WriteRSTStream(%d,%d)", sid, code)
		g.write = func(fr *Framer) error { return fr.WriteRSTStream(sid, ErrCode(code)) }
		g.wire = h2ref.AppendRSTStream(nil, sid, code)
		g.want = vfrmView{Kind: "RSTStreamFrame", Type: h2ref.TypeRSTStream, StreamID: sid, Length: 4, Code: code}
	case 8: // WriteSettings / WriteSettingsAck
		if rng.IntN(5) == 0 {
			g.desc = "WriteSettingsAck()"
			g.write = func(fr *Framer) error { return fr.WriteSettingsAck() }
			g.wire = h2ref.AppendSettingsAck(nil)
			g.want = vfrmView{Kind: "SettingsFrame", Type: h2ref.TypeSettings, Flags: h2ref.FlagAck}
			break
		}
		n := rng.IntN(21)
		var ss []Setting
		var rs []h2ref.Setting
		for i := 0; i < n; i++ {
			id := uint16(1 + rng.IntN(9))
			if rng.IntN(6) == 0 {
				id = uint16(rng.Uint32())
			}
			val := rng.Uint32()
			switch rng.IntN(4) {
			case 0:
				val = rng.Uint32N(2)
			case 1:
				val = []uint32{0, 1, 16384, 65535, 1<<24 - 1, 1<<31 - 1, 1 << 31, 1<<32 - 1}[rng.IntN(8)]
			}
			if id == h2ref.SettingInitialWindowSize {
				// a receiver MUST refuse larger values (§6.5.2), so they cannot "read back"
				val &= 1<<31 - 1
			}
			ss = append(ss, Setting{ID: SettingID(id), Val: val})
			rs = append(rs, h2ref.Setting{ID: id, Val: val})
		}
		g.desc = fmt.Sprintf("WriteSettings(%d entries)", n)
		g.write = func(fr *Framer) error { return fr.WriteSettings(ss...) }
		g.wire = h2ref.AppendSettings(nil, rs...)
		g.want = vfrmView{Kind: "SettingsFrame", Type: h2ref.TypeSettings, Length: uint32(6 * n), Settings: rs}
	case 9: // WritePing
		var d [8]byte
		copy(d[:], vfrmFill(rng, 8))
		ack := rng.IntN(2) == 0
		g.desc = fmt.Sprintf("WritePing(%v,%x)", ack, d)
		g.write = func(fr *Framer) error { return fr.WritePing(ack, d) }
		g.wire = h2ref.AppendPing(nil, ack, d)
		g.want = vfrmView{Kind: "PingFrame", Type: h2ref.TypePing, Length: 8, Ping: d}
		if ack {
			g.want.Flags = h2ref.FlagAck
		}
	case 10: // WriteGoAway
		lastID := rng.Uint32N(1 << 31)
		if rng.IntN(3) == 0 {
			lastID = []uint32{0, 1, 1<<31 - 1}[rng.IntN(3)]
		}
		code := rng.Uint32()
		var dbg []byte
		if rng.IntN(3) != 0 {
			dbg = vfrmFill(rng, size(rng))
		}
		g.desc = fmt.Sprintf("WriteGoAway(%d,%d,%dB)", lastID, code, len(dbg))
		g.write = func(fr *Framer) error { return fr.WriteGoAway(lastID, ErrCode(code), dbg) }
		g.wire = h2ref.AppendGoAway(nil, lastID, code, dbg)
		g.want = vfrmView{Kind: "GoAwayFrame", Type: h2ref.TypeGoAway, Length: uint32(8 + len(dbg)), ID: lastID, Code: code, Body: dbg}
	case 11: // WriteWindowUpdate
		wsid := sid
		if rng.IntN(3) == 0 {
			wsid = 0
		}
		incr := 1 + rng.Uint32N(1<<31-1)
		switch rng.IntN(4) {
		case 0:
			incr = 1
		case 1:
			incr = 1<<31 - 1
		}
		g.desc = fmt.Sprintf("WriteWindowUpdate(%d,%d)", wsid, incr)
		g.write = func(fr *Framer) error { return fr.WriteWindowUpdate(wsid, incr) }
		g.wire = h2ref.AppendWindowUpdate(nil, wsid, incr)
		g.want = vfrmView{Kind: "WindowUpdateFrame", Type: h2ref.TypeWindowUpdate, StreamID: wsid, Length: 4, Incr: incr}
	case 12: // WritePushPromise
		frag := vfrmFill(rng, size(rng))
		// The CONTINUATION that has to follow a PUSH_PROMISE without END_HEADERS is
		// exercised by the dedicated "push-promise-continuation" stream; here such a frame
		// may only be the last one written.
		p := PushPromiseParam{StreamID: sid, PromiseID: vfrmStreamID(rng), BlockFragment: frag, EndHeaders: !(last && rng.IntN(2) == 0)}
		padLen := -1
		if rng.IntN(2) == 0 {
			p.PadLength = uint8(1 + rng.IntN(255))
			padLen = int(p.PadLength)
		}
		g.desc = fmt.Sprintf("WritePushPromise(%d,promise=%d,eh=%v,%dB,pad=%d)", sid, p.PromiseID, p.EndHeaders, len(frag), p.PadLength)
		g.write = func(fr *Framer) error { return fr.WritePushPromise(p) }
		g.wire = h2ref.AppendPushPromise(nil, sid, p.PromiseID, p.EndHeaders, frag, padLen)
		g.want = vfrmView{Kind: "PushPromiseFrame", Type: h2ref.TypePushPromise, StreamID: sid, Length: uint32(4 + len(frag)), ID: p.PromiseID, Body: frag}
		if p.EndHeaders {
			g.want.Flags |= h2ref.FlagEndHeaders
		}
		if padLen > 0 {
			g.want.Flags |= h2ref.FlagPadded
			g.want.Length += uint32(1 + padLen)
			g.padded = true
		}
	case 13: // WritePriorityUpdate
		val := []string{"", "u=3", "u=0, i", "i=?0", "u=7,i=?1", "\x00\xff"}[rng.IntN(6)]
		if rng.IntN(3) == 0 {
			val = string(vfrmFill(rng, size(rng)))
		}
		g.desc = fmt.Sprintf("WritePriorityUpdate(%d,%dB)", sid, len(val))
		g.write = func(fr *Framer) error { return fr.WritePriorityUpdate(sid, val) }
		g.wire = h2ref.AppendPriorityUpdate(nil, sid, val)
		g.want = vfrmView{Kind: "PriorityUpdateFrame", Type: h2ref.TypePriorityUpdate, Length: uint32(4 + len(val)), ID: sid, Body: []byte(val)}
	case 14: // WriteRawFrame, extension type
		var typ uint8
		for {
			typ = uint8(rng.Uint32())
			if typ > h2ref.TypeContinuation && typ != h2ref.TypePriorityUpdate {
				break
			}
		}
		flags := uint8(rng.Uint32())
		rsid := sid
		if rng.IntN(3) == 0 {
			rsid = 0
		}
		pl := vfrmFill(rng, size(rng))
		g.desc = fmt.Sprintf("WriteRawFrame(0x%x,0x%x,%d,%dB)", typ, flags, rsid, len(pl))
		g.write = func(fr *Framer) error { return fr.WriteRawFrame(FrameType(typ), Flags(flags), rsid, pl) }
		g.wire = h2ref.AppendFrame(nil, h2ref.Frame{Type: typ, Flags: flags, StreamID: rsid, Payload: pl})
		g.want = vfrmView{Kind: "UnknownFrame", Type: typ, Flags: flags, StreamID: rsid, Length: uint32(len(pl)), Body: pl}
	case 15: // WriteRawFrame carrying a well-formed frame of a known type (non-zero padding, unused flag bits)
		var f h2ref.Frame
		var want vfrmView
		junk := uint8(rng.Uint32()) &^ (h2ref.FlagPadded | h2ref.FlagPriority | h2ref.FlagEndHeaders | h2ref.FlagEndStream)
		switch rng.IntN(6) {
		case 0: // DATA with non-zero padding octets (a receiver must still strip them, §6.1)
			data := vfrmFill(rng, size(rng))
			padLen := rng.IntN(256)
			pl := append([]byte{byte(padLen)}, data...)
			pl = append(pl, vfrmFill(rng, padLen)...)
			f = h2ref.Frame{Type: h2ref.TypeData, Flags: h2ref.FlagPadded | junk | uint8(rng.IntN(2)), StreamID: sid, Payload: pl}
			want = vfrmView{Kind: "DataFrame", Body: data}
			g.padded = true
		case 1: // HEADERS, END_HEADERS, non-zero padding, priority
			frag := vfrmFill(rng, size(rng))
			padLen := rng.IntN(256)
			q := vfrmPrio(rng)
			w, _ := c06wire(h2ref.AppendHeaders(nil, sid, rng.IntN(2) == 0, true, frag, &q, padLen))
			copy(w.Payload[len(w.Payload)-padLen:], vfrmFill(rng, padLen))
			f = w
			want = vfrmView{Kind: "HeadersFrame", Body: frag, HasPrio: true, Prio: q}
			g.padded, g.prio, g.closes = true, true, true
		case 2:
			var d [8]byte
			copy(d[:], vfrmFill(rng, 8))
			f, _ = c06wire(h2ref.AppendPing(nil, false, d))
			f.Flags = uint8(rng.Uint32())
			want = vfrmView{Kind: "PingFrame", Ping: d}
		case 3:
			code := rng.Uint32()
			f, _ = c06wire(h2ref.AppendRSTStream(nil, sid, code))
			f.Flags = uint8(rng.Uint32())
			want = vfrmView{Kind: "RSTStreamFrame", Code: code}
		case 4:
			incr := 1 + rng.Uint32N(1<<31-1)
			f, _ = c06wire(h2ref.AppendWindowUpdate(nil, sid, incr|1<<31)) // reserved bit set: must be ignored
			f.Flags = uint8(rng.Uint32())
			want = vfrmView{Kind: "WindowUpdateFrame", Incr: incr}
		case 5:
			lastID, code := rng.Uint32N(1<<31), rng.Uint32()
			dbg := vfrmFill(rng, size(rng))
			f, _ = c06wire(h2ref.AppendGoAway(nil, lastID|1<<31, code, dbg))
			f.Flags = uint8(rng.Uint32())
			want = vfrmView{Kind: "GoAwayFrame", ID: lastID, Code: code, Body: dbg}
		}
		want.Type, want.Flags, want.StreamID, want.Length = f.Type, f.Flags, f.StreamID, uint32(len(f.Payload))
		g.desc = fmt.Sprintf("WriteRawFrame(%s,0x%x,%d,%dB)", h2ref.TypeName(f.Type), f.Flags, f.StreamID, len(f.Payload))
		g.write = func(fr *Framer) error {
			return fr.WriteRawFrame(FrameType(f.Type), Flags(f.Flags), f.StreamID, f.Payload)
		}
		g.wire = h2ref.AppendFrame(nil, f)
		g.want = want
	}
	return g
}

// c06Bad draws a call whose arguments the documentation declares illegal. If the method
// accepts it anyway the frame must still read back, which it cannot: the generic oracle
// then reports it.
func c06Bad(rng *rand.Rand) *c06Frame {
	g := &c06Frame{bad: true}
	sid := vfrmStreamID(rng)
	badSID := []uint32{0, 1 << 31, 1<<31 | 5, 1<<32 - 1}[rng.IntN(4)]
	data := vfrmFill(rng, rng.IntN(50))
	switch rng.IntN(12) {
	case 0:
		g.desc = fmt.Sprintf("WriteData(%d) illegal stream", badSID)
		g.write = func(fr *Framer) error { return fr.WriteData(badSID, false, data) }
		g.wire = h2ref.AppendData(nil, badSID, false, data, -1)
		g.want = vfrmView{Kind: "DataFrame", StreamID: badSID, Length: uint32(len(data)), Body: data}
	case 1:
		pad := make([]byte, 256+rng.IntN(50))
		g.desc = fmt.Sprintf("WriteDataPadded pad=%d", len(pad))
		g.write = func(fr *Framer) error { return fr.WriteDataPadded(sid, false, data, pad) }
		g.wire = h2ref.AppendData(nil, sid, false, data, len(pad))
		g.want = vfrmView{Kind: "DataFrame", Flags: h2ref.FlagPadded, StreamID: sid, Length: uint32(1 + len(data) + len(pad)), Body: data}
	case 2:
		pad := make([]byte, 1+rng.IntN(255))
		pad[rng.IntN(len(pad))] = 1 + byte(rng.IntN(255))
		g.desc = fmt.Sprintf("WriteDataPadded non-zero padding octet, pad=%d", len(pad))
		g.write = func(fr *Framer) error { return fr.WriteDataPadded(sid, false, data, pad) }
		// a non-zero octet would not survive as "the same frame": expected wire has zeros
		g.wire = h2ref.AppendData(nil, sid, false, data, len(pad))
		g.want = vfrmView{Kind: "DataFrame", Flags: h2ref.FlagPadded, StreamID: sid, Length: uint32(1 + len(data) + len(pad)), Body: data}
	case 3:
		g.desc = fmt.Sprintf("WriteHeaders(%d) illegal stream", badSID)
		g.write = func(fr *Framer) error {
			return fr.WriteHeaders(HeadersFrameParam{StreamID: badSID, BlockFragment: data, EndHeaders: true})
		}
		g.wire = h2ref.AppendHeaders(nil, badSID, false, true, data, nil, -1)
		g.want = vfrmView{Kind: "HeadersFrame", Type: 1, Flags: h2ref.FlagEndHeaders, StreamID: badSID, Length: uint32(len(data)), Body: data}
		g.closes = true
	case 4:
		dep := 1<<31 | rng.Uint32N(1<<31)
		g.desc = fmt.Sprintf("WriteHeaders dependency %d has bit 31", dep)
		g.write = func(fr *Framer) error {
			return fr.WriteHeaders(HeadersFrameParam{StreamID: sid, BlockFragment: data, EndHeaders: true, Priority: PriorityParam{StreamDep: dep, Weight: 3}})
		}
		g.wire = h2ref.AppendHeaders(nil, sid, false, true, data, &h2ref.Priority{StreamDep: dep, Weight: 3}, -1)
		g.want = vfrmView{Kind: "HeadersFrame", Type: 1, Flags: h2ref.FlagEndHeaders | h2ref.FlagPriority, StreamID: sid, Length: uint32(5 + len(data)), Body: data, HasPrio: true, Prio: h2ref.Priority{StreamDep: dep, Weight: 3}}
		g.closes = true
	case 5:
		g.desc = fmt.Sprintf("WritePriority(%d) illegal stream", badSID)
		g.write = func(fr *Framer) error { return fr.WritePriority(badSID, PriorityParam{StreamDep: 1, Weight: 1}) }
		g.wire = h2ref.AppendPriority(nil, badSID, h2ref.Priority{StreamDep: 1, Weight: 1})
		g.want = vfrmView{Kind: "PriorityFrame", Type: 2, StreamID: badSID, Length: 5, HasPrio: true, Prio: h2ref.Priority{StreamDep: 1, Weight: 1}}
	case 6:
		dep := 1<<31 | rng.Uint32N(1<<31)
		g.desc = fmt.Sprintf("WritePriority dependency %d has bit 31", dep)
		g.write = func(fr *Framer) error { return fr.WritePriority(sid, PriorityParam{StreamDep: dep, Weight: 1}) }
		g.wire = h2ref.AppendPriority(nil, sid, h2ref.Priority{StreamDep: dep, Weight: 1})
		g.want = vfrmView{Kind: "PriorityFrame", Type: 2, StreamID: sid, Length: 5, HasPrio: true, Prio: h2ref.Priority{StreamDep: dep, Weight: 1}}
	case 7:
		g.desc = fmt.Sprintf("WriteRSTStream(%d) illegal stream", badSID)
		g.write = func(fr *Framer) error { return fr.WriteRSTStream(badSID, ErrCodeCancel) }
		g.wire = h2ref.AppendRSTStream(nil, badSID, h2ref.ErrCancel)
		g.want = vfrmView{Kind: "RSTStreamFrame", Type: 3, StreamID: badSID, Length: 4, Code: h2ref.ErrCancel}
	case 8:
		incr := []uint32{0, 1 << 31, 1<<32 - 1}[rng.IntN(3)]
		g.desc = fmt.Sprintf("WriteWindowUpdate increment %d", incr)
		g.write = func(fr *Framer) error { return fr.WriteWindowUpdate(sid, incr) }
		g.wire = h2ref.AppendWindowUpdate(nil, sid, incr)
		g.want = vfrmView{Kind: "WindowUpdateFrame", Type: 8, StreamID: sid, Length: 4, Incr: incr}
	case 9:
		g.desc = fmt.Sprintf("WriteContinuation(%d) illegal stream", badSID)
		g.write = func(fr *Framer) error { return fr.WriteContinuation(badSID, true, data) }
		g.wire = h2ref.AppendContinuation(nil, badSID, true, data)
		g.want = vfrmView{Kind: "ContinuationFrame", Type: 9, Flags: h2ref.FlagEndHeaders, StreamID: badSID, Length: uint32(len(data)), Body: data}
	case 10:
		p := PushPromiseParam{StreamID: sid, PromiseID: sid + 1, BlockFragment: data, EndHeaders: true}
		if rng.IntN(2) == 0 {
			p.StreamID = badSID
		} else {
			p.PromiseID = badSID
		}
		g.desc = fmt.Sprintf("WritePushPromise(%d,%d) illegal stream", p.StreamID, p.PromiseID)
		g.write = func(fr *Framer) error { return fr.WritePushPromise(p) }
		g.wire = h2ref.AppendPushPromise(nil, p.StreamID, p.PromiseID, true, data, -1)
		g.want = vfrmView{Kind: "PushPromiseFrame", Type: 5, Flags: h2ref.FlagEndHeaders, StreamID: p.StreamID, Length: uint32(4 + len(data)), ID: p.PromiseID, Body: data}
	case 11:
		g.desc = fmt.Sprintf("WritePriorityUpdate(%d) illegal stream", badSID)
		g.write = func(fr *Framer) error { return fr.WritePriorityUpdate(badSID, "u=1") }
		g.wire = h2ref.AppendPriorityUpdate(nil, badSID, "u=1")
		g.want = vfrmView{Kind: "PriorityUpdateFrame", Type: 0x10, Length: 7, ID: badSID, Body: []byte("u=1")}
	}
	return g
}

type c06State struct {
	r     *verifrt.R
	mu    sync.Mutex
	combo map[[2]uint8]struct{}
}

func (s *c06State) noteCombo(t, f uint8) {
	s.mu.Lock()
	s.combo[[2]uint8{t, f}] = struct{}{}
	s.mu.Unlock()
}

// c06Run writes the frames with one Framer into one buffer and reads them back with another
// Framer. It returns false when the read side had to be abandoned.
func (s *c06State) run(c *verifrt.Case, frames []*c06Frame, reuse, tightMax bool) bool {
	return s.runPool(c, frames, reuse, tightMax, nil)
}

// c06Pool keeps the 16 MiB buffers of the "large" stream alive between cases: on the shared
// test machine touching fresh memory is ~1000 times slower than reusing it. wbuf and rbuf
// pre-seed the Framers' own scratch buffers (Framer.wbuf, Framer.readBuf: plain caches that
// the Framer would otherwise allocate at the same size).
type c06Pool struct {
	data, wire, out, wbuf, rbuf []byte
}

type c06Sink struct{ b []byte }

func (k *c06Sink) Write(p []byte) (int, error) { k.b = append(k.b, p...); return len(p), nil }
func (k *c06Sink) Len() int                    { return len(k.b) }
func (k *c06Sink) Bytes() []byte               { return k.b }

func (s *c06State) runPool(c *verifrt.Case, frames []*c06Frame, reuse, tightMax bool, pool *c06Pool) bool {
	r := s.r
	buf := &c06Sink{}
	w := NewFramer(buf, nil)
	if pool != nil {
		buf.b = pool.out[:0]
		w.wbuf = pool.wbuf[:0]
		defer func() { pool.out, pool.wbuf = buf.b, w.wbuf }()
	}
	type span struct {
		g          *c06Frame
		start, end int
	}
	var written []span
	for _, g := range frames {
		start := buf.Len()
		err := g.write(w)
		if err != nil {
			if buf.Len() != start {
				// a refused call that nevertheless emitted bytes corrupts every later frame
				c.Violation("refused-call-wrote-bytes", "%s returned %v but wrote %d bytes", g.desc, err, buf.Len()-start)
				return false
			}
			if g.bad {
				r.Event("illegal_args_refused", 1)
			} else if g.oversize {
				r.Event("oversize_refused", 1)
			} else {
				r.Event("legal_args_refused", 1)
				r.Note("refused although documented legal: %s: %v", g.desc, err)
			}
			if !g.bad && (g.opens != 0 || g.closes) {
				// header-block bookkeeping of the following frames relied on this one
				break
			}
			continue
		}
		if g.oversize {
			c.Violation("oversize-accepted", "%s: a payload of more than 2^24-1 bytes was accepted and %d bytes written", g.desc, buf.Len()-start)
			return false
		}
		written = append(written, span{g, start, buf.Len()})
	}
	wire := buf.Bytes()
	ok := true
	// (a) layout of the written bytes against the RFC layout computed from the arguments
	for _, sp := range written {
		got := wire[sp.start:sp.end]
		name := h2ref.TypeName(sp.g.want.Type)
		if sp.g.want.Kind == "UnknownFrame" {
			name = "EXT"
		}
		if !bytes.Equal(got, sp.g.wire) {
			ok = false
			fs, rest := h2ref.ParseAll(got)
			what := "payload"
			switch {
			case len(fs) != 1 || len(rest) != 0:
				what = "length-field"
			case !bytes.Equal(got[:h2ref.HeaderLen], sp.g.wire[:h2ref.HeaderLen]):
				what = "header"
			}
			c.Violation("wire-layout:"+name+":"+what, "%s wrote %d bytes %s, RFC layout is %d bytes %s", sp.g.desc, len(got), vfrmHex(got), len(sp.g.wire), vfrmHex(sp.g.wire))
		}
		// self-check of the reference: its parser must agree with the argument-derived view
		if fs, rest := h2ref.ParseAll(sp.g.wire); len(fs) != 1 || len(rest) != 0 {
			panic("verif harness: reference wire is not one frame: " + sp.g.desc)
		} else if v, err := vfrmFromRef(fs[0]); err != nil {
			panic("verif harness: reference cannot parse its own frame: " + sp.g.desc)
		} else if f, d := vfrmDiff(v, sp.g.want); f != "" {
			panic("verif harness: reference parse disagrees with arguments (" + f + " " + d + "): " + sp.g.desc)
		}
		r.Event("wrote_"+name, 1)
	}
	// (b) read back
	rd := NewFramer(nil, bytes.NewReader(wire))
	fromImpl := vfrmFromImpl
	if pool != nil {
		rd.readBuf = pool.rbuf
		defer func() { pool.rbuf = rd.readBuf }()
		fromImpl = vfrmFromImplNoCopy
	}
	if reuse {
		rd.SetReuseFrames()
	}
	if tightMax {
		var max uint32 = 0
		for _, sp := range written {
			if l := uint32(sp.end - sp.start - h2ref.HeaderLen); l > max {
				max = l
			}
		}
		rd.SetMaxReadFrameSize(max) // the largest frame sits exactly on the limit
	}
	for i, sp := range written {
		name := h2ref.TypeName(sp.g.want.Type)
		if sp.g.want.Kind == "UnknownFrame" {
			name = "EXT"
		}
		f, err := rd.ReadFrame()
		if err != nil {
			c.Violation("readback-error:"+name, "frame %d of %d, %s: wire %s: ReadFrame error %v (%s; detail %v)", i, len(written), sp.g.desc, vfrmHex(wire[sp.start:sp.end]), err, vfrmErrClass(err), rd.ErrorDetail())
			return false
		}
		got := fromImpl(f)
		if fld, d := vfrmDiff(got, sp.g.want); fld != "" {
			ok = false
			c.Violation("readback-mismatch:"+name+":"+fld, "frame %d of %d, %s: wire %s: %s", i, len(written), sp.g.desc, vfrmHex(wire[sp.start:sp.end]), d)
		}
		r.Event("readback_"+name, 1)
		r.Event("frames_roundtripped", 1)
		s.noteCombo(sp.g.want.Type, sp.g.want.Flags)
		if sp.g.padded {
			r.Event("padded_frames", 1)
		}
		if sp.g.prio {
			r.Event("priority_frames", 1)
		}
		if sp.g.want.Type == h2ref.TypeContinuation {
			r.Event("continuation_frames", 1)
		}
	}
	if f, err := rd.ReadFrame(); err != io.EOF {
		ok = false
		c.Violation("trailing-frame", "after %d frames ReadFrame returned (%v, %v) instead of io.EOF", len(written), f, err)
	}
	return ok
}

func c06Sig(frames []*c06Frame) uint64 {
	h := fnv.New64a()
	for _, g := range frames {
		w := g.wire
		if len(w) > 4096 {
			fmt.Fprintf(h, "%d", len(w))
			w = w[:4096]
		}
		h.Write(w)
	}
	return h.Sum64()
}

func TestVerif_C06(t *testing.T) {
	r := verifrt.Start(t, "C06")
	defer r.Finish()
	r.SetRule("case = sequence of 1-12 PRNG-drawn Write* calls (legal HEADERS…CONTINUATION order) on one Framer, read back by another; plus all pad lengths 0..255 x DATA/HEADERS/PUSH_PROMISE, boundary payload sizes up to 2^24-1, illegal-argument probes. non-trivial = sequence containing a padded frame, a priority block or a CONTINUATION; distinct by the expected wire bytes")
	r.Assume("expected bytes come from the harness's own RFC 9113 §6 / RFC 9218 §7.1 builders (h2ref), cross-checked against its own parser")
	st := &c06State{r: r, combo: map[[2]uint8]struct{}{}}

	seq := func(c *verifrt.Case, n int, size func(*rand.Rand) int, badP int) {
		var frames []*c06Frame
		var descs []string
		var open uint32
		nt := false
		for i := 0; i < n; i++ {
			var g *c06Frame
			if open == 0 && badP > 0 && c.Rng.IntN(badP) == 0 {
				g = c06Bad(c.Rng)
			} else {
				g = c06Gen(c.Rng, open, i == n-1, size)
				if g.want.Type == h2ref.TypeContinuation || g.want.Type == h2ref.TypeHeaders {
					open = g.opens
				}
			}
			nt = nt || ((g.padded || g.prio || g.want.Type == h2ref.TypeContinuation) && !g.bad)
			frames = append(frames, g)
			descs = append(descs, g.desc)
		}
		reuse, tight := c.Rng.IntN(2) == 0, c.Rng.IntN(3) == 0
		c.Describe(map[string]any{"calls": descs, "reader_reuse_frames": reuse, "reader_max_is_largest_frame": tight})
		st.run(c, frames, reuse, tight)
		r.EvalHash(nt, c06Sig(frames))
		if c.Index < 3 && c.Stream == "sequences" {
			r.Sample(map[string]any{"stream": c.Stream, "index": c.Index, "calls": descs})
		}
	}

	t0 := time.Now()
	lap := func(what string) { t.Logf("verif C06 timing: %s done at %.1fs", what, time.Since(t0).Seconds()) }
	r.CasesParallel("sequences", r.N(12000, 400000), 0, func(c *verifrt.Case) {
		seq(c, 1+c.Rng.IntN(12), c06Size, 25)
	})
	lap("sequences")

	// every pad length, for each padded frame type, with and without priority / data
	r.CasesParallel("pad-exhaustive", 256, 0, func(c *verifrt.Case) {
		pad := c.Index
		var frames []*c06Frame
		var descs []string
		for _, n := range []int{0, 1, 5, c.Rng.IntN(400)} {
			sid := vfrmStreamID(c.Rng)
			data := vfrmFill(c.Rng, n)
			es := c.Rng.IntN(2) == 0
			// DATA
			{
				g := &c06Frame{desc: fmt.Sprintf("WriteDataPadded(%d,%v,%dB,pad=%d)", sid, es, n, pad), padded: true}
				padb := make([]byte, pad)
				g.write = func(fr *Framer) error { return fr.WriteDataPadded(sid, es, data, padb) }
				g.wire = h2ref.AppendData(nil, sid, es, data, pad)
				g.want = vfrmView{Kind: "DataFrame", Flags: h2ref.FlagPadded, StreamID: sid, Length: uint32(1 + n + pad), Body: data}
				if es {
					g.want.Flags |= h2ref.FlagEndStream
				}
				frames = append(frames, g)
			}
			// HEADERS with and without priority
			for _, withPrio := range []bool{false, true} {
				p := HeadersFrameParam{StreamID: sid, BlockFragment: data, EndStream: es, EndHeaders: true, PadLength: uint8(pad)}
				g := &c06Frame{closes: true, padded: pad > 0}
				g.want = vfrmView{Kind: "HeadersFrame", Type: 1, Flags: h2ref.FlagEndHeaders, StreamID: sid, Length: uint32(n), Body: data}
				var rp *h2ref.Priority
				if withPrio {
					q := vfrmPrio(c.Rng)
					q.Weight |= 1 // non-zero
					rp = &q
					p.Priority = PriorityParam{StreamDep: q.StreamDep, Exclusive: q.Exclusive, Weight: q.Weight}
					g.want.Flags |= h2ref.FlagPriority
					g.want.Length += 5
					g.want.HasPrio, g.want.Prio = true, q
					g.prio = true
				}
				if es {
					g.want.Flags |= h2ref.FlagEndStream
				}
				padLen := -1
				if pad > 0 {
					padLen = pad
					g.want.Flags |= h2ref.FlagPadded
					g.want.Length += uint32(1 + pad)
				}
				g.desc = fmt.Sprintf("WriteHeaders(%d,es=%v,%dB,pad=%d,prio=%v)", sid, es, n, pad, withPrio)
				g.write = func(fr *Framer) error { return fr.WriteHeaders(p) }
				g.wire = h2ref.AppendHeaders(nil, sid, es, true, data, rp, padLen)
				frames = append(frames, g)
			}
			// PUSH_PROMISE
			{
				p := PushPromiseParam{StreamID: sid, PromiseID: vfrmStreamID(c.Rng), BlockFragment: data, EndHeaders: true, PadLength: uint8(pad)}
				g := &c06Frame{padded: pad > 0}
				g.want = vfrmView{Kind: "PushPromiseFrame", Type: 5, Flags: h2ref.FlagEndHeaders, StreamID: sid, Length: uint32(4 + n), ID: p.PromiseID, Body: data}
				padLen := -1
				if pad > 0 {
					padLen = pad
					g.want.Flags |= h2ref.FlagPadded
					g.want.Length += uint32(1 + pad)
				}
				g.desc = fmt.Sprintf("WritePushPromise(%d,%d,%dB,pad=%d)", sid, p.PromiseID, n, pad)
				g.write = func(fr *Framer) error { return fr.WritePushPromise(p) }
				g.wire = h2ref.AppendPushPromise(nil, sid, p.PromiseID, true, data, padLen)
				frames = append(frames, g)
			}
		}
		for _, g := range frames {
			descs = append(descs, g.desc)
		}
		c.Describe(map[string]any{"pad": pad, "calls": descs})
		st.run(c, frames, c.Rng.IntN(2) == 0, false)
		r.EvalHash(true, c06Sig(frames))
		r.Event("pad_lengths_covered", 1)
	})

	lap("pad-exhaustive")
	// payload sizes around the 24-bit limit. One frame type per case, sizes chosen so that the
	// total payload is 2^24-10, 2^24-1 (largest legal) or 2^24 (cannot be represented: the
	// method must refuse; an accepted call is reported because it cannot read back).
	pool := &c06Pool{}
	r.Cases("large", r.N(18, 72), func(c *verifrt.Case) {
		total := []int{1<<24 - 1, 1 << 24, 1<<24 - 10, 1<<24 + 5, 1<<24 - 2, 1 << 23}[(c.Index/6)%6]
		sid := vfrmStreamID(c.Rng)
		ov := total > h2ref.MaxFrameLen // no legal wire form exists
		mk := func(build func() []byte) []byte {
			if ov {
				return nil
			}
			return build()
		}
		fill := func(n int) []byte {
			if cap(pool.data) < n {
				pool.data = make([]byte, n)
			}
			b := pool.data[:n]
			vfrmFillInto(c.Rng, b)
			return b
		}
		var g *c06Frame
		switch c.Index % 6 {
		case 0: // DATA unpadded
			data := fill(total)
			g = &c06Frame{desc: fmt.Sprintf("WriteData(%d,false,%dB)", sid, total)}
			g.write = func(fr *Framer) error { return fr.WriteData(sid, false, data) }
			g.wire = mk(func() []byte { return h2ref.AppendData(pool.wire[:0], sid, false, data, -1) })
			g.want = vfrmView{Kind: "DataFrame", StreamID: sid, Length: uint32(total), Body: data}
		case 1: // DATA padded: 1 + data + pad = total
			pad := 1 + c.Rng.IntN(255)
			data := fill(total - 1 - pad)
			padb := make([]byte, pad)
			g = &c06Frame{desc: fmt.Sprintf("WriteDataPadded(%d,true,%dB,pad=%d)", sid, len(data), pad), padded: true}
			g.write = func(fr *Framer) error { return fr.WriteDataPadded(sid, true, data, padb) }
			g.wire = mk(func() []byte { return h2ref.AppendData(pool.wire[:0], sid, true, data, pad) })
			g.want = vfrmView{Kind: "DataFrame", Flags: h2ref.FlagPadded | h2ref.FlagEndStream, StreamID: sid, Length: uint32(total), Body: data}
		case 2: // HEADERS padded + priority: 1 + 5 + frag + pad = total
			pad := 1 + c.Rng.IntN(255)
			frag := fill(total - 6 - pad)
			q := h2ref.Priority{StreamDep: 7, Weight: 9, Exclusive: true}
			p := HeadersFrameParam{StreamID: sid, BlockFragment: frag, EndHeaders: true, PadLength: uint8(pad), Priority: PriorityParam{StreamDep: 7, Weight: 9, Exclusive: true}}
			g = &c06Frame{desc: fmt.Sprintf("WriteHeaders(%d,%dB,pad=%d,prio)", sid, len(frag), pad), padded: true, prio: true, closes: true}
			g.write = func(fr *Framer) error { return fr.WriteHeaders(p) }
			g.wire = mk(func() []byte { return h2ref.AppendHeaders(pool.wire[:0], sid, false, true, frag, &q, pad) })
			g.want = vfrmView{Kind: "HeadersFrame", Type: 1, Flags: h2ref.FlagEndHeaders | h2ref.FlagPadded | h2ref.FlagPriority, StreamID: sid, Length: uint32(total), Body: frag, HasPrio: true, Prio: q}
		case 3: // GOAWAY: 8 + debug = total
			dbg := fill(total - 8)
			g = &c06Frame{desc: fmt.Sprintf("WriteGoAway(5,2,%dB)", len(dbg))}
			g.write = func(fr *Framer) error { return fr.WriteGoAway(5, 2, dbg) }
			g.wire = mk(func() []byte { return h2ref.AppendGoAway(pool.wire[:0], 5, 2, dbg) })
			g.want = vfrmView{Kind: "GoAwayFrame", Type: 7, Length: uint32(total), ID: 5, Code: 2, Body: dbg}
		case 4: // raw extension frame
			pl := fill(total)
			g = &c06Frame{desc: fmt.Sprintf("WriteRawFrame(0xfa,0x55,%d,%dB)", sid, total)}
			g.write = func(fr *Framer) error { return fr.WriteRawFrame(0xfa, 0x55, sid, pl) }
			g.wire = mk(func() []byte {
				return h2ref.AppendFrame(pool.wire[:0], h2ref.Frame{Type: 0xfa, Flags: 0x55, StreamID: sid, Payload: pl})
			})
			g.want = vfrmView{Kind: "UnknownFrame", Type: 0xfa, Flags: 0x55, StreamID: sid, Length: uint32(total), Body: pl}
		case 5: // CONTINUATION after a small HEADERS
			frag := fill(total)
			h := &c06Frame{desc: fmt.Sprintf("WriteHeaders(%d,eh=false,0B)", sid), opens: sid}
			h.write = func(fr *Framer) error { return fr.WriteHeaders(HeadersFrameParam{StreamID: sid}) }
			h.wire = h2ref.AppendHeaders(nil, sid, false, false, nil, nil, -1)
			h.want = vfrmView{Kind: "HeadersFrame", Type: 1, StreamID: sid}
			g = &c06Frame{desc: fmt.Sprintf("WriteContinuation(%d,true,%dB)", sid, total), closes: true}
			g.write = func(fr *Framer) error { return fr.WriteContinuation(sid, true, frag) }
			g.wire = mk(func() []byte { return h2ref.AppendContinuation(pool.wire[:0], sid, true, frag) })
			g.want = vfrmView{Kind: "ContinuationFrame", Type: 9, Flags: h2ref.FlagEndHeaders, StreamID: sid, Length: uint32(total), Body: frag}
			c.Describe(map[string]any{"calls": []string{h.desc, g.desc}, "total_payload": total})
			g.oversize = ov
			st.runPool(c, []*c06Frame{h, g}, false, !ov, pool)
			if !ov {
				pool.wire = g.wire
			}
			r.Eval(true, "large", c.Index, total)
			r.Event("large_cases", 1)
			return
		}
		c.Describe(map[string]any{"calls": []string{g.desc}, "total_payload": total})
		g.oversize = ov
		st.runPool(c, []*c06Frame{g}, c.Rng.IntN(2) == 0, !ov, pool)
		if !ov {
			pool.wire = g.wire
		}
		r.Eval(true, "large", c.Index, total)
		r.Event("large_cases", 1)
	})

	lap("large")
	// A PUSH_PROMISE without END_HEADERS must be followed by CONTINUATION frames of the same
	// stream (RFC 9113 §6.6, §6.10); WritePushPromise documents that "Continuation frames are
	// handled elsewhere". Writing that legal sequence and reading it back is kept in a stream
	// of its own so that a reader that rejects it has its own narrow key.
	r.Cases("push-promise-continuation", r.N(40, 400), func(c *verifrt.Case) {
		sid := vfrmStreamID(c.Rng)
		prom := vfrmStreamID(c.Rng)
		frag := vfrmFill(c.Rng, c.Rng.IntN(100))
		pad := c.Rng.IntN(3) * c.Rng.IntN(128)
		nCont := 1 + c.Rng.IntN(3)
		var buf bytes.Buffer
		w := NewFramer(&buf, nil)
		var want []vfrmView
		var descs []string
		if err := w.WritePushPromise(PushPromiseParam{StreamID: sid, PromiseID: prom, BlockFragment: frag, PadLength: uint8(pad)}); err != nil {
			r.Event("legal_args_refused", 1)
			return
		}
		v := vfrmView{Kind: "PushPromiseFrame", Type: 5, StreamID: sid, Length: uint32(4 + len(frag)), ID: prom, Body: frag}
		if pad > 0 {
			v.Flags |= h2ref.FlagPadded
			v.Length += uint32(1 + pad)
		}
		want = append(want, v)
		descs = append(descs, fmt.Sprintf("WritePushPromise(%d,%d,eh=false,%dB,pad=%d)", sid, prom, len(frag), pad))
		for i := 0; i < nCont; i++ {
			cf := vfrmFill(c.Rng, c.Rng.IntN(100))
			end := i == nCont-1
			if err := w.WriteContinuation(sid, end, cf); err != nil {
				r.Event("legal_args_refused", 1)
				return
			}
			v := vfrmView{Kind: "ContinuationFrame", Type: 9, StreamID: sid, Length: uint32(len(cf)), Body: cf}
			if end {
				v.Flags = h2ref.FlagEndHeaders
			}
			want = append(want, v)
			descs = append(descs, fmt.Sprintf("WriteContinuation(%d,%v,%dB)", sid, end, len(cf)))
		}
		// a frame of another kind afterwards shows the reader is still in step
		w.WritePing(false, [8]byte{1, 2, 3})
		want = append(want, vfrmView{Kind: "PingFrame", Type: 6, Length: 8, Ping: [8]byte{1, 2, 3}})
		descs = append(descs, "WritePing")
		c.Describe(map[string]any{"calls": descs})
		// the bytes themselves must be what the RFC says, whatever the reader does with them
		fs, rest := h2ref.ParseAll(buf.Bytes())
		if len(fs) != len(want) || len(rest) != 0 {
			c.Violation("wire-layout:PUSH_PROMISE:length-field", "%d frames written, reference parser sees %d (+%d bytes)", len(want), len(fs), len(rest))
			return
		}
		for i, f := range fs {
			rv, err := vfrmFromRef(f)
			if err != nil {
				c.Violation("wire-layout:"+h2ref.TypeName(f.Type)+":payload", "%s: reference parser: %v", descs[i], err)
			} else if fld, d := vfrmDiff(rv, want[i]); fld != "" {
				c.Violation("wire-layout:"+h2ref.TypeName(f.Type)+":"+fld, "%s: %s", descs[i], d)
			}
		}
		rd := NewFramer(nil, bytes.NewReader(buf.Bytes()))
		for i := range want {
			f, err := rd.ReadFrame()
			if err != nil {
				key := "readback-error:" + h2ref.TypeName(want[i].Type)
				if i == 1 {
					key = "continuation-after-push-promise-rejected"
				}
				c.Violation(key, "%v; frame %d (%s): ReadFrame error %v (%s; detail: %v)", descs, i, descs[i], err, vfrmErrClass(err), rd.ErrorDetail())
				break
			}
			if fld, d := vfrmDiff(vfrmFromImpl(f), want[i]); fld != "" {
				c.Violation("readback-mismatch:"+h2ref.TypeName(want[i].Type)+":"+fld, "%s: %s", descs[i], d)
			}
			r.Event("pp_group_frames_readback", 1)
		}
		r.Eval(true, "ppc", sid, prom, len(frag), pad, nCont)
		r.Event("push_promise_continuation_groups", 1)
	})

	st.mu.Lock()
	r.SetExtra("distinct_type_flag_combinations", len(st.combo))
	st.mu.Unlock()
	r.SetExtra("pad_lengths_exhaustive", true)
	for _, n := range []string{"DATA", "HEADERS", "PRIORITY", "RST_STREAM", "SETTINGS", "PUSH_PROMISE", "PING", "GOAWAY", "WINDOW_UPDATE", "CONTINUATION", "PRIORITY_UPDATE", "EXT"} {
		r.Require("readback_"+n, 200)
	}
	r.Require("padded_frames", 1000)
	r.Require("priority_frames", 1000)
	r.Require("continuation_frames", 500)
	r.Require("pad_lengths_covered", 256)
	r.Require("large_cases", 12)
	r.Require("illegal_args_refused", 100)
	r.Require("oversize_refused", 2)
}
