//go:build verif

package http2

// C18: the HTTP/2 client handles GOAWAY without losing or duplicating requests.
//
// A real Transport with its connection pool has 1..12 requests in flight (GET, POST with the
// upload stalled on a small window, replayable through GetBody or not) when the scripted server
// sends GOAWAY(L, code) at a PRNG point: L in {0, an in-flight id, the last id, beyond, 2^31-1
// followed by a second lower GOAWAY}, code NO_ERROR or an error. Afterwards the server answers
// the streams <= L (all, some) and/or closes the connection; further requests keep arriving;
// replacement connections may get a GOAWAY as well.
// Oracles (wire side from an independent frame reader, plus the RoundTrip results):
//   - once a quiescent point has passed after the GOAWAY was written, no stream-opening HEADERS
//     on that connection;
//   - every request is accounted for exactly once: a request never has two streams on one
//     connection; it gets a further stream (always on another connection) only if its previous
//     stream id was > L of a GOAWAY on that connection;
//   - stream <= L answered by the server: RoundTrip succeeds with that status; stream <= L not
//     answered and connection closed: RoundTrip fails (connection's error), no retry;
//   - last stream > L: RoundTrip fails with an error naming the GOAWAY; if the request can be
//     replayed (no body or GetBody) that is a violation (it has to be retried instead), except
//     stream 1 after a GOAWAY with an error code, where the implementation documents that it
//     fails instead (both behaviours accepted there);
//   - when everything has been answered/closed and virtual time has passed the retry back-off,
//     every RoundTrip has returned (no request without outcome).

import (
	"fmt"
	"hash/fnv"
	"net/http"
	"os"
	"runtime"
	"runtime/debug"
	"strings"
	"testing"
	"testing/synctest"

	"golang.org/x/net/internal/verifrt"
	"golang.org/x/net/internal/verifrt/h2ref"
)

type vcliC18Params struct {
	Strict    int    `json:"strict_max_concurrent_streams"` // 0: off; n>0: StrictMaxConcurrentStreams with the server announcing a limit of n (requests queue on the connection)
	Requests  int    `json:"requests"`
	Bodies    []int  `json:"body_sizes"` // -1: GET
	Replay    []bool `json:"get_body_defined"`
	InitWin   int    `json:"server_initial_window"`
	GoAwayAt  int    `json:"goaway_at_step"`
	LMode     int    `json:"last_stream_id_mode"` // 0: 0, 1: an opened id, 2: last id, 3: beyond, 4: 2^31-1 then lower
	Code      uint32 `json:"goaway_code"`
	After     int    `json:"after_goaway"` // 0: answer all then leave open, 1: answer all then close, 2: close at once, 3: answer some then close
	Second    bool   `json:"goaway_on_replacement_connection_too"`
	DelayPct  int    `json:"failpoint_delay_pct"`
	StartLate int    `json:"requests_started_after_goaway"`
	Hold      bool   `json:"goaway_while_a_data_write_blocks_the_connection"`
}

type vcliC18Use struct {
	sc  *vcliSrvConn
	st  *vcliStream
	seq int
}

func TestVerif_C18(t *testing.T) {
	r := verifrt.Start(t, "C18")
	defer r.Finish()
	r.SetRule("one case = one Transport session: 1-12 requests (GET / POST 0-100000 B, upload stalled by a server window of 0/1000/65535, GetBody defined or not) through Transport.RoundTrip and its pool; the server sends GOAWAY(L,code) at a PRNG step with L in {0, an in-flight id, last id, beyond, 2^31-1 then a lower one} and code in {NO_ERROR, ENHANCE_YOUR_CALM, INTERNAL_ERROR}, then answers all/some streams <= L and/or closes; more requests arrive afterwards; the replacement connection may get a GOAWAY too. non-trivial = session in which the GOAWAY split the in-flight requests (at least one stream <= L and one > L on the same connection) ; distinct by hash of parameters + per-request sequence of (connection, stream id) and outcome class")
	r.Assume("independent frame reader h2ref; request-to-stream mapping decodes request header blocks with the repository's hpack decoder (bookkeeping only)")
	r.Assume("a stream-1 request after a GOAWAY with an error code may either fail or be retried (implementation documents the former; the property statement asks for the latter)")
	fpMissing := strings.Contains(os.Getenv("VERIF_FAILPOINT_MISSING"), "transport.beforeWriteHeaders")
	if fpMissing {
		r.Note("failpoint_missing: transport.beforeWriteHeaders anchor not found; running without the injected delay")
		r.SetExtra("failpoint_missing", true)
	}
	n := r.N(700, 6000)
	r.Cases("goaway", n, func(c *verifrt.Case) {
		synctest.Test(t, func(t *testing.T) {
			defer func() {
				if e := recover(); e != nil {
					c.Violation("panic:"+vcliPanicSig(e), "panic in session: %v\n%s", e, debug.Stack())
				}
			}()
			vcliC18Session(r, c)
		})
	})
	vcliC18ReservationCases(t, r, r.N(120, 1200))
	r.Require("reserved_requests_served_elsewhere_after_goaway", 60)
	r.Require("goaways_sent", int64(n*8/10))
	r.Require("requests_on_stream_le_L_completed", 200)
	r.Require("requests_on_stream_le_L_failed_with_conn_error", 50)
	r.Require("requests_retried_on_new_connection", 100)
	r.Require("requests_gt_L_failed_not_replayable", 25)
	r.Require("new_requests_after_goaway_went_to_new_connection", 100)
	r.Require("sessions_completed", int64(n*9/10))
}

func vcliC18Session(r *verifrt.R, c *verifrt.Case) {
	rng := c.Rng
	pick := func(xs ...int) int { return xs[rng.IntN(len(xs))] }
	p := vcliC18Params{}
	p.Requests = 1 + rng.IntN(12)
	for i := 0; i < p.Requests; i++ {
		p.Bodies = append(p.Bodies, pick(-1, -1, -1, 0, 500, 5000, 100000))
		p.Replay = append(p.Replay, rng.IntN(2) == 0)
	}
	p.InitWin = pick(0, 1000, 1000, 65535)
	p.GoAwayAt = 1 + rng.IntN(12)
	p.LMode = pick(0, 1, 1, 1, 2, 2, 3, 4)
	p.Code = uint32(pick(0, 0, 0, int(h2ref.ErrEnhanceYourCalm), int(h2ref.ErrInternal)))
	p.After = pick(0, 1, 1, 2, 3, 3)
	p.Second = rng.IntN(4) == 0
	p.DelayPct = pick(0, 0, 50, 100)
	p.StartLate = rng.IntN(p.Requests + 1)
	if rng.IntN(3) == 0 {
		// requests wait on the connection for a stream slot: a request that was already
		// queued when the GOAWAY arrives must not open a stream on that connection either
		p.Strict = pick(1, 2, 2, 3, 4)
	}
	// The GOAWAY arrives while the socket takes no more bytes: a DATA write sits in conn.Write
	// holding the connection's write lock, requests that already have a stream id queue behind it.
	p.Hold = rng.IntN(3) == 0
	c.Describe(p)

	tr := &Transport{StrictMaxConcurrentStreams: p.Strict > 0}
	s := vcliNewSession(r, c, tr)
	s.CheckStreams = true
	s.CheckGoAway = true
	s.HookNewClientConn()
	s.Delay.only = "transport.beforeWriteHeaders"
	hook := s.Delay.Delay
	verifDelayHook.Store(&hook)
	defer verifDelayHook.Store(nil)
	s.Delay.pct.Store(int64(p.DelayPct))
	defer s.Teardown()

	sig := fnv.New64a()
	fmt.Fprintf(sig, "%+v", p)

	uses := map[string][]vcliC18Use{}
	seq := 0
	s.OnNewConn = func(sc *vcliSrvConn) {
		sc.OnOpen = func(st *vcliStream) { // harness goroutine
			seq++
			uses[st.tag] = append(uses[st.tag], vcliC18Use{sc, st, seq})
		}
	}
	reqByTag := map[string]*vcliReq{}
	for i := 0; i < p.Requests; i++ {
		var rq *vcliReq
		if p.Bodies[i] < 0 {
			rq = s.NewReq("GET", -1, false, 0, false, false)
		} else {
			rq = s.NewReq("POST", int64(p.Bodies[i]), rng.IntN(2) == 0, 0, rng.IntN(2) == 0, p.Replay[i])
		}
		reqByTag[rq.Tag] = rq
	}
	next := 0
	startOne := func() {
		if next < len(s.Reqs) {
			s.Start(s.Reqs[next], func(req *http.Request) (*http.Response, error) { return tr.RoundTrip(req) })
			next++
		}
	}
	early := len(s.Reqs) - p.StartLate // requests started before the GOAWAY
	if early < 1 {
		early = 1
	}

	type connInfo struct {
		greeted    bool
		goAwayStep int  // step at which the (first) GOAWAY went out, -1: none
		lowerDue   bool // LMode 4: a second, lower GOAWAY is still to come
		closeDue   bool
		after      int
		dialSeq    int
	}
	info := map[*vcliSrvConn]*connInfo{}
	greet := func() {
		for i, sc := range s.Conns() {
			ci := info[sc]
			if ci == nil {
				ci = &connInfo{goAwayStep: -1, dialSeq: i}
				info[sc] = ci
			}
			if !ci.greeted {
				ci.greeted = true
				ss := []h2ref.Setting{{ID: h2ref.SettingInitialWindowSize, Val: uint32(p.InitWin)}}
				if p.Strict > 0 {
					ss = append(ss, h2ref.Setting{ID: h2ref.SettingMaxConcurrentStreams, Val: uint32(p.Strict)})
					r.Event("strict_mode_connections", 1)
				}
				sc.SendSettings(ss...)
			}
		}
	}
	live := func() []*vcliSrvConn {
		var out []*vcliSrvConn
		for _, sc := range s.Conns() {
			if !sc.Dead && !sc.closedBySrv {
				out = append(out, sc)
			}
		}
		return out
	}
	// streams the server is going to process: no GOAWAY, or id <= L
	accepted := func(sc *vcliSrvConn, st *vcliStream) bool {
		return !sc.Sh.goAwaySent || st.id <= sc.Sh.goAwayLast
	}
	answerable := func(sc *vcliSrvConn) []*vcliStream {
		var out []*vcliStream
		for _, st := range sc.Sh.order {
			if st.hdrDone && !st.closed && !st.respSent && !st.cliReset && accepted(sc, st) {
				out = append(out, st)
			}
		}
		return out
	}
	feedUploads := func(sc *vcliSrvConn) {
		var need int64
		for _, st := range sc.Sh.order {
			rq := reqByTag[st.tag]
			if rq == nil || !st.hdrDone || !st.cliCanSend() || st.closed || !accepted(sc, st) {
				continue
			}
			rem := rq.BodyLen - st.dataBytes
			if rem > 0 {
				need += rem
				if st.win < rem {
					sc.SendWindowUpdate(st.id, uint32(rem-st.win))
				}
			}
		}
		if need > sc.Sh.connWin {
			sc.SendWindowUpdate(0, uint32(need-sc.Sh.connWin))
		}
	}
	sendGoAway := func(sc *vcliSrvConn, step int) {
		ci := info[sc]
		sh := &sc.Sh
		var L uint32
		mode := p.LMode
		switch mode {
		case 0:
			L = 0
		case 1:
			if len(sh.order) > 0 {
				L = sh.order[rng.IntN(len(sh.order))].id
			}
		case 2:
			L = sh.lastID
		case 3:
			L = sh.lastID + 2*uint32(1+rng.IntN(3))
		case 4:
			L = 1<<31 - 1
			ci.lowerDue = true
		}
		ci.goAwayStep = step
		ci.after = p.After
		code := p.Code
		if mode == 4 {
			code = 0
		}
		sc.SendGoAway(L, code)
		r.Event("goaways_sent", 1)
		r.Event(fmt.Sprintf("goaway_mode_%d", mode), 1)
		if code != 0 {
			r.Event("goaways_with_error_code", 1)
		}
		if ci.after == 2 && !ci.lowerDue {
			sc.Close()
			r.Event("closed_right_after_goaway", 1)
		}
	}

	goAwaysLeft := 1
	if p.Second {
		goAwaysLeft = 2
	}
	completed := false
	for step := 0; step < 1500; step++ {
		drain := step > p.GoAwayAt+40
		if drain || rng.IntN(2) == 0 {
			s.Settle()
		} else {
			s.Pump()
		}
		greet()
		if next == len(s.Reqs) && s.AllFinished() {
			completed = true
			break
		}
		conns := live()
		if len(conns) == 0 {
			startOne()
			if next == len(s.Reqs) {
				// everything is started, nothing is connected: waiting for a retry back-off
				synctest.Wait()
				vcliSleepVirtual(1500)
			}
			continue
		}
		// scripted part
		for _, sc := range conns {
			ci := info[sc]
			if ci == nil {
				continue
			}
			sh := &sc.Sh
			if !sh.goAwaySent && goAwaysLeft > 0 && step >= p.GoAwayAt && (sc.Idx == 0 || (p.Second && sc.Idx == 1 && rng.IntN(3) == 0)) && len(sh.order) > 0 {
				if s.Delay.sleepers.Load() > 0 {
					r.Event("goaway_sent_while_headers_delayed", 1)
				}
				goAwaysLeft--
				if p.Hold {
					// a settled point: no write is in flight; then the socket stops taking bytes,
					// a stalled upload gets window and its DATA write blocks under the write lock.
					// While a goroutine waits for that lock (sync.Mutex: not a durable block) the
					// bubble cannot settle and its clock stands still, so this stretch polls with
					// Gosched instead of synctest.Wait.
					s.Settle()
					var up *vcliStream
					for _, st := range sh.order {
						rq := reqByTag[st.tag]
						if rq != nil && st.hdrDone && st.cliCanSend() && !st.closed && rq.BodyLen-st.dataBytes > 0 && (st.win <= 0 || sh.connWin <= 0) {
							up = st
						}
					}
					cc := sc.NC.cc.Load()
					if up != nil && !sc.Dead && cc != nil {
						spin := func(cond func() bool) bool {
							for i := 0; i < 2000000; i++ {
								if cond() {
									return true
								}
								runtime.Gosched()
							}
							return false
						}
						sc.NC.holdWrites(true)
						if up.win <= 0 {
							sc.SendWindowUpdate(up.id, uint32(-up.win+1+int64(rng.IntN(3000))))
						}
						if sh.connWin <= 0 {
							sc.SendWindowUpdate(0, uint32(-sh.connWin+1+int64(rng.IntN(3000))))
						}
						if spin(sc.NC.writeBlocked) {
							r.Event("goaway_sent_while_a_data_write_blocked_the_connection", 1)
							cc.mu.Lock()
							id0 := cc.nextStreamID
							cc.mu.Unlock()
							before := next
							for k := 0; k < 1+rng.IntN(3); k++ {
								startOne()
							}
							want := id0 + 2*uint32(next-before)
							if next > before && spin(func() bool { cc.mu.Lock(); defer cc.mu.Unlock(); return cc.nextStreamID >= want }) {
								r.Event("requests_given_a_stream_id_while_the_connection_write_was_blocked", int64(next-before))
							}
							for i := 0; i < 100000; i++ { // let them reach the write lock
								runtime.Gosched()
							}
							sendGoAway(sc, step)
							if spin(func() bool { cc.mu.Lock(); defer cc.mu.Unlock(); return cc.goAway != nil }) && sh.goAwayLast < id0 {
								// The client has processed the GOAWAY (white-box) while the only write in
								// flight is the blocked DATA frame, and every stream id handed out since is
								// above L: whatever stream-opening HEADERS follow were written after the
								// GOAWAY took effect, exactly as after a quiescent point.
								sh.goAwaySettled = true
								r.Event("goaway_processed_by_the_client_while_a_data_write_blocked_the_connection", 1)
							}
						} else {
							sendGoAway(sc, step)
						}
						sc.NC.holdWrites(false)
						s.Settle()
						continue
					}
				}
				sendGoAway(sc, step)
				continue
			}
			if sh.goAwaySent && !sc.closedBySrv {
				if ci.lowerDue && rng.IntN(2) == 0 {
					// the real GOAWAY after the "shutdown notice" (RFC 9113 6.8)
					ci.lowerDue = false
					L := uint32(0)
					if len(sh.order) > 0 && rng.IntN(4) != 0 {
						L = sh.order[rng.IntN(len(sh.order))].id
					}
					sc.SendGoAway(L, p.Code)
					r.Event("goaways_sent", 1)
					r.Event("second_lower_goaway", 1)
					if p.Code != 0 {
						r.Event("goaways_with_error_code", 1)
					}
					continue
				}
				if ci.lowerDue {
					continue
				}
				switch ci.after {
				case 2:
					sc.Close()
				case 0, 1:
					feedUploads(sc)
					for _, st := range answerable(sc) {
						if st.cliEnded && rng.IntN(2) == 0 {
							sc.SendResponse(st.id, 200, pick(0, 0, 7), true)
						}
					}
					if ci.after == 1 && len(answerable(sc)) == 0 {
						sc.Close()
					}
				case 3:
					feedUploads(sc)
					for _, st := range answerable(sc) {
						if st.cliEnded && rng.IntN(3) == 0 {
							sc.SendResponse(st.id, 200, pick(0, 0, 7), true)
						}
					}
					if rng.IntN(4) == 0 || drain {
						sc.Close()
						r.Event("closed_with_unanswered_streams", 1)
					}
				}
				continue
			}
			// a connection without GOAWAY: normal service, slowly before the GOAWAY, fully in drain
			if drain || step > p.GoAwayAt || rng.IntN(3) == 0 {
				if drain || rng.IntN(2) == 0 {
					feedUploads(sc)
				}
				for _, st := range answerable(sc) {
					if st.cliEnded && (drain || rng.IntN(3) == 0) {
						sc.SendResponse(st.id, 200, pick(0, 0, 7), true)
					}
				}
			}
		}
		if next < early || step > p.GoAwayAt || drain {
			if rng.IntN(2) == 0 || drain {
				startOne()
			}
		}
		if drain && step%5 == 0 {
			synctest.Wait()
			vcliSleepVirtual(1200) // retry back-off of the pool
		}
	}

	// ---------------- evaluation of every request
	s.Settle()
	r.Event("sessions", 1)
	r.Event("failpoint_sleeps", s.Delay.slept.Load())
	r.Event("dials", s.dials.Load())
	if n := s.BodyReadAfterClose.Load(); n > 0 {
		r.Event("request_body_read_after_close", n)
		if r.EventCount("request_body_read_after_close") == n {
			r.Note("observation (outside the C18 statement): %s/%d a request that failed with errClientConnUnusable before anything was read had its Body closed by cleanupWriteRequest and was then retried with the same, closed Body (shouldRetryRequest reuses req for errClientConnUnusable); the harness body tolerates reads after Close, a stricter body would make the retry fail", c.Stream, c.Index)
		}
	}
	if completed {
		r.Event("sessions_completed", 1)
	}
	split := false
	for _, sc := range s.Conns() {
		if sc.Sh.goAwaySent {
			le, gt := 0, 0
			for _, st := range sc.Sh.order {
				if st.id <= sc.Sh.goAwayLast {
					le++
				} else {
					gt++
				}
			}
			if le > 0 && gt > 0 {
				split = true
			}
		}
	}
	trace := func(us []vcliC18Use) string {
		var sb strings.Builder
		for _, u := range us {
			ga := "no GOAWAY"
			if u.sc.Sh.goAwaySent {
				ga = fmt.Sprintf("GOAWAY L=%d code=%d", u.sc.Sh.goAwayLast, u.sc.Sh.goAwayCode)
			}
			fmt.Fprintf(&sb, " [conn %d stream %d (%s; answered=%v)]", u.sc.Idx, u.st.id, ga, u.st.respSent && u.st.srvEnded)
		}
		return sb.String()
	}
	for _, rq := range s.Reqs {
		if !rq.Started {
			continue
		}
		us := uses[rq.Tag]
		fmt.Fprintf(sig, "|%s", rq.Tag)
		for _, u := range us {
			fmt.Fprintf(sig, ":c%d.s%d", u.sc.Idx, u.st.id)
		}
		replayable := rq.BodyLen < 0 || rq.Replay
		desc := fmt.Sprintf("request %s (%s body=%d GetBody=%v) used%s; RoundTrip: finished=%v status=%d err=%v", rq.Tag, rq.Method, rq.BodyLen, rq.Replay, trace(us), rq.Finished(), rq.Status, rq.Err)
		lastTrace := ""
		if len(us) > 0 {
			lastTrace = "\nlast frames of conn " + fmt.Sprint(us[len(us)-1].sc.Idx) + ":\n" + us[len(us)-1].sc.Trace()
		}
		// never twice on one connection; a further stream only after a stream > L
		seen := map[*vcliSrvConn]bool{}
		for i, u := range us {
			if seen[u.sc] {
				s.Viol("request-sent-twice-on-same-connection", "%s", desc+lastTrace)
			}
			seen[u.sc] = true
			if i < len(us)-1 {
				if !(u.sc.Sh.goAwaySent && u.st.id > u.sc.Sh.goAwayLast) {
					s.Viol("request-sent-again-although-server-may-have-processed-it", "stream %d on conn %d was not above a GOAWAY's last-stream-id, yet the request was sent again: %s", u.st.id, u.sc.Idx, desc+lastTrace)
				} else {
					r.Event("requests_retried_on_new_connection", 1)
				}
			}
		}
		// whichever connection carried it: a request the client ended (END_STREAM) was sent whole
		for _, u := range us {
			if rq.BodyLen >= 0 && u.st.cliEnded && !u.st.cliReset && u.st.dataBytes != rq.BodyLen {
				s.Viol("request-body-incomplete-on-the-wire", "stream %d on conn %d was ended by the client after %d body bytes, the request body has %d: %s", u.st.id, u.sc.Idx, u.st.dataBytes, rq.BodyLen, desc+lastTrace)
			} else if rq.BodyLen > 0 && u.st.cliEnded && !u.st.cliReset {
				r.Event("request_bodies_complete_on_the_wire", 1)
			}
		}
		if !rq.Finished() {
			if completed || len(us) == 0 {
				continue
			}
			last := us[len(us)-1]
			// the session ran into its step bound: is this request owed an outcome?
			if last.sc.closedBySrv || (last.st.respSent && last.st.srvEnded) || (last.sc.Sh.goAwaySent && last.st.id > last.sc.Sh.goAwayLast) {
				s.Viol("request-without-outcome", "RoundTrip has not returned at the final quiescent point: %s", desc+lastTrace)
			} else {
				r.Event("unfinished_requests_at_step_bound", 1)
			}
			continue
		}
		if len(us) == 0 {
			r.Event("requests_finished_without_stream", 1)
			if rq.Err == nil {
				s.Viol("success-without-stream", "%s", desc)
			} else if _, ok := rq.Err.(GoAwayError); ok {
				// stream id <= L allocated, the connection went away before the HEADERS reached
				// the server: the client cannot know, failing with the connection's error is
				// what the statement allows for ids <= L
				r.Event("requests_le_L_lost_in_close_failed_with_GoAwayError", 1)
			} else if strings.Contains(rq.Err.Error(), "graceful shutdown GOAWAY") {
				// stream id > L allocated, GOAWAY processed before the HEADERS were written
				r.Event("requests_aborted_by_goaway_before_headers_not_replayable", 1)
				if replayable {
					s.Viol("replayable-request-above-last-stream-id-not-retried", "%s", desc)
				}
			} else if strings.Contains(rq.Err.Error(), "received GOAWAY from server ErrCode") {
				r.Event("stream1_error_goaway_failed_without_retry", 1)
			} else {
				r.Event("requests_without_stream_other_error", 1)
				if r.EventCount("requests_without_stream_other_error") <= 3 {
					r.Note("request finished without ever reaching the wire: %s", desc)
				}
			}
			continue
		}
		last := us[len(us)-1]
		sh := &last.sc.Sh
		switch {
		case last.st.respSent && last.st.srvEnded && !last.st.srvReset:
			if rq.Err != nil || rq.Status != 200 {
				s.Viol("answered-request-failed", "the server answered stream %d on conn %d with 200, RoundTrip did not deliver it: %s", last.st.id, last.sc.Idx, desc+lastTrace)
			} else if sh.goAwaySent {
				r.Event("requests_on_stream_le_L_completed", 1)
				fmt.Fprint(sig, "=ok-le-L")
			} else {
				r.Event("requests_completed_on_conn_without_goaway", 1)
				if last.sc.Idx > 0 && len(us) == 1 {
					r.Event("new_requests_after_goaway_went_to_new_connection", 1)
				}
			}
		case last.st.cliReset && last.st.cliResetBeforeGoAway:
			// given up by the client before any GOAWAY was sent on that connection: not a
			// GOAWAY outcome (does not happen unless a request fails for another reason)
			r.Event("requests_reset_by_client_before_goaway", 1)
			if rq.Err == nil {
				s.Viol("success-without-answer", "%s", desc+lastTrace)
			}
		case sh.goAwaySent && last.st.id > sh.goAwayLast:
			fmt.Fprint(sig, "=gt-L")
			if rq.Err == nil {
				s.Viol("success-on-stream-above-last-stream-id", "%s", desc+lastTrace)
				break
			}
			stream1Err := last.st.id == 1 && sh.goAwayCode != 0
			if !strings.Contains(rq.Err.Error(), "GOAWAY") {
				s.Viol("stream-above-last-stream-id-failed-without-goaway-cause", "%s", desc+lastTrace)
			} else if replayable && !stream1Err {
				s.Viol("replayable-request-above-last-stream-id-not-retried", "%s", desc+lastTrace)
			} else if stream1Err {
				r.Event("stream1_error_goaway_failed_without_retry", 1)
			} else {
				r.Event("requests_gt_L_failed_not_replayable", 1)
			}
		default:
			// stream <= L (or no GOAWAY) and no complete answer: the connection must be gone
			fmt.Fprint(sig, "=le-L-unanswered")
			if rq.Err == nil {
				s.Viol("success-without-answer", "%s", desc+lastTrace)
			} else if sh.goAwaySent && !last.sc.closedBySrv && !last.st.srvReset && last.st.hdrDone {
				// The server named this stream in its GOAWAY as one it is going to process, has
				// not reset it and has kept the connection open (the script closes or answers,
				// it never does anything else): the client gave the request up by itself.
				s.Viol("request-on-stream-le-last-stream-id-abandoned-by-client", "stream %d on conn %d is not above the GOAWAY's last-stream-id %d, the server neither reset it nor closed the connection (client closed it: %v), yet RoundTrip failed: %s", last.st.id, last.sc.Idx, sh.goAwayLast, last.sc.Dead, desc+lastTrace)
			} else if sh.goAwaySent {
				r.Event("requests_on_stream_le_L_failed_with_conn_error", 1)
				if _, ok := rq.Err.(GoAwayError); ok {
					r.Event("le_L_error_is_GoAwayError", 1)
				}
			} else if !last.sc.closedBySrv && !last.sc.Dead && !last.st.srvReset {
				// the connection is up, no GOAWAY was sent on it, the server has not reset the
				// stream and the script never cancels a request: nothing explains the failure
				// (seen when a retried request is sent with the body the first attempt consumed)
				s.Viol("request-failed-on-a-healthy-connection", "%s", desc+lastTrace)
			} else {
				r.Event("requests_failed_on_conn_without_goaway", 1)
			}
		}
	}
	r.EvalHash(split, sig.Sum64())
	if split {
		var reqs []string
		for _, rq := range s.Reqs {
			if rq.Started {
				reqs = append(reqs, fmt.Sprintf("%s%s -> status=%d err=%v", rq.Tag, trace(uses[rq.Tag]), rq.Status, rq.Err))
			}
		}
		r.Sample(map[string]any{"params": p, "requests": reqs})
	}
}
