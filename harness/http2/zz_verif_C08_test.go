//go:build verif

package http2

// C08: the HTTP/2 server never sends DATA beyond the client's flow-control windows, never a
// frame above the client's SETTINGS_MAX_FRAME_SIZE, and sends pending response data once a
// window is available again. WIRE monitor; the shared harness is zz_verif_util_srvwire_test.go.

import (
	"fmt"
	"math/rand/v2"
	"strings"
	"testing"

	"golang.org/x/net/internal/verifrt"
	"golang.org/x/net/internal/verifrt/h2ref"
)

type vsrvC08Desc struct {
	Sched     string   `json:"sched"`
	InitWin   int64    `json:"initial_window"`
	MaxFrame  int64    `json:"max_frame_size"`
	ConnBoost int64    `json:"conn_window_boost"`
	Streams   int      `json:"streams"`
	Bodies    []int    `json:"body_bytes"`
	Steps     int      `json:"steps"`
	Script    []string `json:"script"`
	WUResBit  bool     `json:"window_updates_with_reserved_bit"`
}

// vsrvC08Plan builds the write pattern of one handler.
func vsrvC08Plan(rng *rand.Rand) (ops []vsrvOp, total int) {
	switch rng.IntN(6) {
	case 0:
		total = 0
	case 1:
		total = 1 + rng.IntN(3000)
	case 2:
		total = vsrvPick(rng, 4095, 4096, 4097, 16383, 16384, 16385, 65535, 65536)
	default:
		total = rng.IntN(300 << 10)
	}
	mode := rng.IntN(5)
	flushP := vsrvPick(rng, 0.0, 0.0, 0.3, 1.0)
	parkP := vsrvPick(rng, 0.0, 0.0, 0.1, 0.3)
	if rng.IntN(8) == 0 {
		ops = append(ops, vsrvOp{Kind: 'f'}) // headers first
	}
	left := total
	for left > 0 {
		var n int
		switch mode {
		case 0:
			n = left
		case 1:
			n = 1 + rng.IntN(200)
		case 2:
			n = 3000 + rng.IntN(3000)
		case 3:
			n = 1 + rng.IntN(70000)
		default:
			n = vsrvPick(rng, 1, 100, 4096, 8192, 16384, 32768, 100000)
		}
		if n > left {
			n = left
		}
		left -= n
		ops = append(ops, vsrvOp{Kind: 'w', N: n})
		if rng.Float64() < flushP {
			ops = append(ops, vsrvOp{Kind: 'f'})
		}
		if rng.Float64() < parkP && len(ops) < 400 {
			ops = append(ops, vsrvOp{Kind: 'p'})
		}
		if len(ops) > 3000 { // keep tiny-write plans bounded
			mode = 0
		}
	}
	return ops, total
}

func vsrvC08Session(r *verifrt.R, c *verifrt.Case, sched string, directed int) {
	rng := c.Rng
	d := &vsrvC08Desc{Sched: sched}
	d.InitWin = vsrvPick[int64](rng, 0, 1, 100, 65535, 1<<20, int64(rng.IntN(70000)))
	d.MaxFrame = vsrvPick[int64](rng, 0, 16384, 16385, 65536, 1<<24-1)
	d.ConnBoost = vsrvPick[int64](rng, 0, 0, 0, 1<<20, int64(1+rng.IntN(100000)))
	d.Streams = 1 + rng.IntN(6)
	d.Steps = 10 + rng.IntN(60)
	if directed == 1 {
		// large windows, so that the scheduler's own per-write budget is what limits a frame
		d.InitWin, d.ConnBoost = 4<<20, 4<<20
		d.MaxFrame = vsrvPick[int64](rng, 0, 16384, 16384, 20000)
		d.Streams = 2 + rng.IntN(3)
	}
	d.WUResBit = rng.IntN(4) == 0
	c.Describe(d)

	var s *vsrvSession
	inner, outer := vsrvBubble(r.T, func() {
		s = vsrvNewSession(vsrvConfig{Groups: vsrvGrpFlow, Sched: sched, WUReservedBit: d.WUResBit})
		s.start()
		vsrvC08Script(s, rng, d, directed)
		s.finish()
	})
	if s == nil {
		c.Violation("harness-failure", "session did not start: %s %s", inner, outer)
		return
	}
	if inner != "" {
		c.Violation("harness-panic", "panic in the C08 script: %s", inner)
	}
	if outer != "" {
		c.Violation("bubble-did-not-exit:"+outer, "after the client closed the connection and released every handler the bubble could not exit: %s\n%s", outer, s.history(40))
	}
	s.report(r, c)
	s.mu.Lock()
	nt := s.ev["stream_window_reopened_and_used"] > 0 || s.ev["conn_window_reopened_and_used"] > 0
	sig := s.sigh
	if s.ev["data_frames_checked"] > 0 && len(d.Script) > 0 {
		r.Sample(map[string]any{"case": d, "data_frames": s.ev["data_frames_checked"], "data_bytes": s.ev["data_bytes"],
			"stream_window_hit_zero": s.ev["stream_window_hit_zero"], "reopened_and_used": s.ev["stream_window_reopened_and_used"]})
	}
	s.mu.Unlock()
	r.EvalHash(nt, sig)
}

const vsrvC08WUBudget = 1 << 29

func vsrvC08Script(s *vsrvSession, rng *rand.Rand, d *vsrvC08Desc, directed int) {
	note := func(f string, a ...any) {
		if len(d.Script) < 200 {
			d.Script = append(d.Script, fmt.Sprintf(f, a...))
		}
	}
	maybeSettle := func(p float64) {
		if rng.Float64() < p {
			s.settle()
		}
	}
	s.cliPreface()
	var ss []h2ref.Setting
	if d.InitWin != 65535 || rng.IntN(2) == 0 {
		ss = append(ss, h2ref.Setting{ID: h2ref.SettingInitialWindowSize, Val: uint32(d.InitWin)})
	}
	if d.MaxFrame != 0 {
		ss = append(ss, h2ref.Setting{ID: h2ref.SettingMaxFrameSize, Val: uint32(d.MaxFrame)})
	}
	if rng.IntN(2) == 0 && directed != 2 {
		ss = append(ss, h2ref.Setting{ID: h2ref.SettingEnablePush, Val: 0})
	}
	rng.Shuffle(len(ss), func(i, j int) { ss[i], ss[j] = ss[j], ss[i] })
	s.cliSettings(ss...)
	note("SETTINGS %v", ss)
	maybeSettle(0.5)
	s.cliSettingsAck()
	var connWU int64
	if d.ConnBoost > 0 {
		s.cliWindowUpdate(0, uint32(d.ConnBoost))
		connWU += d.ConnBoost
		note("WU conn +%d", d.ConnBoost)
	}

	planTotal := map[uint32]int{}
	var openedIDs []uint32
	// graceful shutdown: after the client's GOAWAY(NO_ERROR) the server answers with its own and
	// keeps serving the streams that are open; their windows still have to work
	sentGoAway := false
	goAwayStep := -1
	if rng.IntN(4) == 0 {
		goAwayStep = rng.IntN(d.Steps + 1)
	}
	alive := func() bool {
		if !sentGoAway {
			return s.alive()
		}
		s.mu.Lock()
		defer s.mu.Unlock()
		return !s.srvClosed && !s.cliClosed && len(s.panics) == 0 && (!s.goAway || s.goAwayCode == 0)
	}
	nextID := uint32(1)
	opened := 0
	open := func() {
		if opened >= d.Streams || sentGoAway {
			return
		}
		id := nextID
		nextID += 2
		if rng.IntN(10) == 0 {
			nextID += 2 * uint32(rng.IntN(3)) // skip ids
		}
		opened++
		ops, total := vsrvC08Plan(rng)
		if directed == 2 {
			// server push: the first request's handler pushes /pushed/N (N = 1..) and stays; the
			// promised streams 2, 4, .. carry large bodies and are flow-controlled like any other
			if opened == 1 {
				np := 1 + rng.IntN(2)
				ops, total = nil, 0
				for k := 1; k <= np; k++ {
					pn := k
					if rng.IntN(3) == 0 {
						pn = 100 + rng.IntN(900) // PUSH_PROMISE + CONTINUATION
						s.mu.Lock()
						s.ev["pushes_with_a_field_block_above_16k"]++
						s.mu.Unlock()
					}
					ops = append(ops, vsrvOp{Kind: 'U', N: pn})
					pt := vsrvPick(rng, 70000, 100000, 300000)
					pid := uint32(2 * k)
					planTotal[pid] = pt
					s.setPlan(pid, []vsrvOp{{Kind: 'w', N: pt}})
					d.Bodies = append(d.Bodies, pt)
				}
				ops = append(ops, vsrvOp{Kind: 'p'})
			}
		}
		if directed == 1 {
			// RFC 7540 tree: the first stream is an open parent with nothing to send, the others
			// depend on it and have large bodies (their writes are "out of order" for the scheduler)
			if opened == 1 {
				ops, total = []vsrvOp{{Kind: 'p'}}, 0
			} else {
				total = vsrvPick(rng, 100000, 300000, 1<<20)
				ops = []vsrvOp{{Kind: 'w', N: total}}
			}
		}
		planTotal[id] = total
		d.Bodies = append(d.Bodies, total)
		s.setPlan(id, ops)
		if strings.HasPrefix(d.Sched, "rfc7540") && (directed == 1 || rng.IntN(2) == 0) {
			dep := uint32(0)
			if len(openedIDs) > 0 && (directed == 1 || rng.IntN(3) != 0) {
				dep = openedIDs[rng.IntN(len(openedIDs))]
				if directed == 1 {
					dep = openedIDs[0]
				}
			}
			pr := h2ref.Priority{StreamDep: dep, Weight: uint8(rng.IntN(256)), Exclusive: directed != 1 && rng.IntN(4) == 0}
			s.cliHeadersPrio(id, true, vsrvGetFields(fmt.Sprintf("/s/%d", id)), pr)
			s.mu.Lock()
			s.ev["streams_opened_with_rfc7540_priority"]++
			s.mu.Unlock()
			note("open s=%d body=%d ops=%d priority dep=%d weight=%d excl=%v", id, total, len(ops), pr.StreamDep, pr.Weight, pr.Exclusive)
		} else {
			s.cliHeaders(id, true, vsrvGetFields(fmt.Sprintf("/s/%d", id)))
			note("open s=%d body=%d ops=%d", id, total, len(ops))
		}
		openedIDs = append(openedIDs, id)
	}
	for i, n := 0, 1+rng.IntN(d.Streams); i < n; i++ {
		open()
	}
	maybeSettle(0.7)

	type view struct {
		id                 uint32
		win, pending, left int64
		wu                 int64
		parked, live       bool
	}
	look := func() (vs []view, connWin int64) {
		s.mu.Lock()
		defer s.mu.Unlock()
		cur := s.sentSnap()
		for _, id := range s.order {
			st := s.streams[id]
			if !st.opened {
				continue
			}
			v := view{id: id, wu: st.wu, parked: st.hParked}
			v.win = cur.initWin + st.wu - st.sent
			v.pending = st.hTotal - st.sent
			v.left = int64(planTotal[id]) - st.sent
			v.live = !st.cliRST && !st.srvRST && !st.srvEnd
			vs = append(vs, v)
		}
		return vs, s.connWin
	}
	pickLive := func(vs []view) (view, bool) {
		var live []view
		for _, v := range vs {
			if v.live {
				live = append(live, v)
			}
		}
		if len(live) == 0 {
			return view{}, false
		}
		return live[rng.IntN(len(live))], true
	}
	wuSize := func(win, pending int64) int64 {
		switch rng.IntN(6) {
		case 0:
			return 1
		case 1:
			return 1 + int64(rng.IntN(2000))
		case 2: // exactly what is outstanding
			if n := pending - win; n > 0 {
				return n
			}
			return 1 + int64(rng.IntN(100))
		case 3: // bring a negative/zero window to exactly 1 or 0
			if win <= 0 {
				return -win + int64(rng.IntN(2))
			}
			return 1
		case 4:
			return 16384 + int64(rng.IntN(3))
		default:
			return 1 + int64(rng.IntN(1<<20))
		}
	}

	for step := 0; step < d.Steps && alive(); step++ {
		if step == goAwayStep && opened > 0 {
			s.cliWrite(h2ref.AppendGoAway(nil, 0, h2ref.ErrNo, nil))
			sentGoAway = true
			s.mu.Lock()
			s.ev["sessions_with_client_goaway_no_error_mid_session"]++
			s.mu.Unlock()
			note("GOAWAY(NO_ERROR) from the client")
			maybeSettle(0.5)
		}
		vs, connWin := look()
		switch a := rng.IntN(100); {
		case a < 30: // stream WINDOW_UPDATE
			if v, ok := pickLive(vs); ok {
				n := wuSize(v.win, v.pending)
				if n > 0 && v.wu+n < vsrvC08WUBudget {
					s.cliWindowUpdate(v.id, uint32(n))
					note("WU s=%d +%d", v.id, n)
				}
			}
		case a < 45: // connection WINDOW_UPDATE
			var pend int64
			for _, v := range vs {
				if v.live && v.pending > 0 {
					pend += v.pending
				}
			}
			n := wuSize(connWin, pend)
			if n > 0 && connWU+n < vsrvC08WUBudget {
				connWU += n
				s.cliWindowUpdate(0, uint32(n))
				note("WU conn +%d", n)
			}
		case a < 57: // SETTINGS_INITIAL_WINDOW_SIZE change, possibly below what is already in use
			val := vsrvPick[int64](rng, 0, 0, 1, 100, 65535, 1<<20, int64(rng.IntN(70000)), int64(rng.IntN(1<<22)))
			ss := []h2ref.Setting{{ID: h2ref.SettingInitialWindowSize, Val: uint32(val)}}
			if rng.IntN(4) == 0 {
				mf := vsrvPick[int64](rng, 16384, 16385, 65536, 1<<24-1, 16384+int64(rng.IntN(100000)))
				ss = append(ss, h2ref.Setting{ID: h2ref.SettingMaxFrameSize, Val: uint32(mf)})
			}
			s.cliSettings(ss...)
			note("SETTINGS %v", ss)
		case a < 62: // SETTINGS_MAX_FRAME_SIZE change
			mf := vsrvPick[int64](rng, 16384, 16385, 65536, 1<<24-1, 16384+int64(rng.IntN(100000)))
			s.cliSettings(h2ref.Setting{ID: h2ref.SettingMaxFrameSize, Val: uint32(mf)})
			note("SETTINGS MAX_FRAME_SIZE=%d", mf)
		case a < 72:
			open()
		case a < 87: // release a parked handler
			var parked []view
			for _, v := range vs {
				if v.parked {
					parked = append(parked, v)
				}
			}
			if len(parked) > 0 {
				v := parked[rng.IntN(len(parked))]
				s.release(v.id)
				note("release s=%d", v.id)
			}
		case a < 90:
			var p [8]byte
			for i := range p {
				p[i] = byte(rng.Uint32())
			}
			s.cliPing(p)
			note("PING")
		case a < 93: // client gives up on a stream
			if v, ok := pickLive(vs); ok {
				s.cliRST(v.id, h2ref.ErrCancel)
				note("RST s=%d", v.id)
			}
		default:
			s.settle()
			note("settle")
		}
		maybeSettle(0.55)
	}
	for opened < d.Streams && alive() && !sentGoAway {
		open()
	}
	s.settle()

	// Final phase: open every window wide enough and require every response to complete.
	for round := 0; round < 8 && alive(); round++ {
		vs, connWin := look()
		var need int64
		busy := false
		for _, v := range vs {
			if !v.live {
				continue
			}
			busy = true
			if round == 0 {
				s.releaseAll(v.id)
			}
			if v.left > 0 {
				need += v.left
				if n := v.left - v.win; n > 0 && v.wu+n < 2*vsrvC08WUBudget {
					s.cliWindowUpdate(v.id, uint32(n))
				}
			}
		}
		if !busy {
			break
		}
		if n := need - connWin; n > 0 {
			s.cliWindowUpdate(0, uint32(n))
		}
		s.settle()
	}
	note("final phase done")
	s.mu.Lock()
	// (in a graceful shutdown the server hangs up once the last stream is done: judged all the same)
	if s.healthy() || sentGoAway && len(s.panics) == 0 && !s.cliClosed && (!s.goAway || s.goAwayCode == 0) {
		for _, id := range s.order {
			st := s.streams[id]
			if !st.opened || st.cliRST || st.srvRST {
				continue
			}
			if !st.srvEnd {
				s.viol(vsrvGrpFlow, "response-incomplete-at-end", "stream %d: after all windows were opened (stream window %d, connection window %d) and every handler was released the response never completed: handler started=%v returned=%v in=%q, body written %d, on the wire %d of planned %d", id,
					s.sentSnap().initWin+st.wu-st.sent, s.connWin, st.hStarted, st.hReturned, st.hInCall, st.hTotal, st.sent, planTotal[id])
			} else if st.hReturned && !st.hWriteErr && st.sent != st.hTotal {
				s.viol(vsrvGrpFlow, "end-stream-with-data-missing", "stream %d: END_STREAM sent after %d DATA bytes but the handler wrote %d", id, st.sent, st.hTotal)
			} else {
				s.ev["responses_completed"]++
			}
		}
	}
	s.mu.Unlock()
}

func TestVerif_C08(t *testing.T) {
	r := verifrt.Start(t, "C08")
	defer r.Finish()
	r.SetRule("one case = one server connection in a synctest bubble driven by a PRNG client script: client SETTINGS (INITIAL_WINDOW_SIZE in {0,1,100,65535,1MiB,random}, MAX_FRAME_SIZE in {default,16384,16385,65536,2^24-1}), 1-6 streams whose handlers write 0-300 KiB in PRNG chunkings with/without Flush and parking, then 10-70 PRNG steps (stream/connection WINDOW_UPDATE of size 1 / small / exactly-outstanding / to-exactly-zero / 16 KiB / large, SETTINGS raising or shrinking the window below bytes in flight, MAX_FRAME_SIZE changes, new streams, handler releases, PING, client RST_STREAM, quiescence checks), then all windows are opened and every response must complete. non-trivial = some stream or the connection window was exhausted (<=0) and DATA flowed again after it was reopened; distinct = hash of the sequence of (stream, length) of all non-empty DATA frames")
	r.Assume("frame boundaries and fields are decoded by the independent h2ref reader; a client SETTINGS change binds the server only from its SETTINGS ACK in the server's byte stream, before that old and new values are both admissible (monotone: once a DATA frame proves a newer snapshot is in use, older ones are dropped); WINDOW_UPDATE counts from the moment the client wrote it; quiescence = testing/synctest.Wait")
	r.Assume("the 'sent once a window is available' clause is decided at quiescent points only: a handler parked in Write/Flush, or returned, with body bytes outstanding while both shadow windows are > 0 is a violation")

	n := r.N(400, 6000)
	// a slice of the sessions runs with the package's serve-goroutine assertion enabled
	vsrvGoroutineTracking(true)
	r.CasesParallel("session-gotrack", n/20, 0, func(c *verifrt.Case) {
		sched := vsrvPick(c.Rng, "", "", "rr", "random")
		vsrvC08Session(r, c, sched, 0)
	})
	vsrvGoroutineTracking(false)
	r.CasesParallel("session", n, 0, func(c *verifrt.Case) {
		sched := vsrvPick(c.Rng, "", "", "rr", "random")
		vsrvC08Session(r, c, sched, 0)
	})
	// RFC 7540 priority scheduler: separate sub-run (see DESIGN §3 C08 / §5 item 2): a
	// serve-loop crash with the C12 signature gets the key c12-rfc7540-zero-request.
	r.CasesParallel("session-rfc7540", n/5, 0, func(c *verifrt.Case) {
		vsrvC08Session(r, c, "rfc7540", 0)
	})
	// server push: promised streams obey the client's windows too, also while the connection is
	// being shut down gracefully
	r.CasesParallel("session-push", r.N(60, 400), 0, func(c *verifrt.Case) {
		vsrvC08Session(r, c, vsrvPick(c.Rng, "", "rr", "random"), 2)
	})
	r.Require("server_push_promises", 30)
	// the same scheduler throttling out-of-order writes (its per-write budget grows by 1 KiB per
	// write and crosses the frame size): dependants of an open, silent parent with large bodies
	r.CasesParallel("session-rfc7540-throttle", r.N(40, 300), 0, func(c *verifrt.Case) {
		vsrvC08Session(r, c, "rfc7540-throttle", 1)
	})
	r.Require("streams_opened_with_rfc7540_priority", 50)
	r.Require("data_frames_checked", 3000)
	r.Require("stream_window_hit_zero", 100)
	r.Require("stream_window_reopened_and_used", 100)
	r.Require("conn_window_hit_zero", 20)
	r.Require("stream_window_negative_after_settings", 20)
	r.Require("quiescent_points_evaluated", 500)
	r.Require("responses_completed", 200)
	r.Require("blocked_on_closed_window_at_quiescence", 100)
}
