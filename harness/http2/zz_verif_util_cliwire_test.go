//go:build verif

package http2

// Scripted-server harness and wire monitor for the HTTP/2 *client* checks (C09, C17, C18).
//
// A real Transport / ClientConn talks over an in-memory pipe (vcliConn) to a scripted server
// that is driven synchronously by the test's main goroutine inside a testing/synctest bubble.
// Every byte in both directions is split into frames by the independent reader
// golang.org/x/net/internal/verifrt/h2ref and fed into a per-connection shadow of the
// protocol state as the *server* sees it (vcliShadow): send windows the server has granted,
// SETTINGS sent vs. acknowledged, stream states, open-stream count. The oracles run on every
// client frame; the workloads (in the zz_verif_C*_test.go files) add the at-quiescence ones.
//
// Every top-level identifier in this file starts with vcli.

import (
	"bytes"
	"context"
	"crypto/tls"
	"fmt"
	"io"
	"math"
	"math/rand/v2"
	"net"
	"net/http"
	"strconv"
	"strings"
	"sync"
	"sync/atomic"
	"testing/synctest"
	"time"

	"golang.org/x/net/http2/hpack"
	"golang.org/x/net/internal/verifrt"
	"golang.org/x/net/internal/verifrt/h2ref"
)

// ---------------------------------------------------------------------------------------
// in-memory connection

type vcliAddr string

func (a vcliAddr) Network() string { return "vcli" }
func (a vcliAddr) String() string  { return string(a) }

// vcliConn is the client's end of the pipe (a net.Conn). The server end has no goroutine:
// the harness takes the bytes the client wrote and appends the bytes the client will read.
// Both buffers are unbounded, so writes never block unless the script holds them (holdWrites).
type vcliConn struct {
	mu        sync.Mutex
	cond      *sync.Cond
	s2c       []byte
	c2s       []byte
	srvClosed bool
	cliClosed bool
	c2sTotal  int64
	discarded int64
	s2cTotal  int64
	readMax   int  // >0: a client Read returns at most this many bytes (fragmentation)
	hold      bool // client Writes block (a socket whose send buffer is full) until released
	heldOnce  bool // a Write has blocked since hold was set
	cc        atomic.Pointer[ClientConn]
}

func vcliNewConn() *vcliConn {
	c := &vcliConn{}
	c.cond = sync.NewCond(&c.mu)
	return c
}

func (c *vcliConn) Read(p []byte) (int, error) {
	c.mu.Lock()
	defer c.mu.Unlock()
	for len(c.s2c) == 0 && !c.srvClosed && !c.cliClosed {
		c.cond.Wait()
	}
	if len(c.s2c) > 0 {
		if c.readMax > 0 && len(p) > c.readMax {
			p = p[:c.readMax]
		}
		n := copy(p, c.s2c)
		c.s2c = c.s2c[n:]
		return n, nil
	}
	if c.cliClosed {
		return 0, net.ErrClosed
	}
	return 0, io.EOF
}

func (c *vcliConn) Write(p []byte) (int, error) {
	c.mu.Lock()
	defer c.mu.Unlock()
	for c.hold && !c.cliClosed && !c.srvClosed {
		c.heldOnce = true
		c.cond.Wait()
	}
	if c.cliClosed {
		return 0, net.ErrClosed
	}
	if c.srvClosed {
		// Like TCP after the peer's FIN: the local write still succeeds, the bytes go
		// nowhere. (Failing here would let the client see a write error before it has read
		// what the server sent ahead of closing, e.g. a GOAWAY.)
		c.discarded += int64(len(p))
		return len(p), nil
	}
	c.c2s = append(c.c2s, p...)
	c.c2sTotal += int64(len(p))
	return len(p), nil
}

func (c *vcliConn) Close() error {
	c.mu.Lock()
	c.cliClosed = true
	c.cond.Broadcast()
	c.mu.Unlock()
	return nil
}

func (c *vcliConn) LocalAddr() net.Addr                { return vcliAddr("client") }
func (c *vcliConn) RemoteAddr() net.Addr               { return vcliAddr("server") }
func (c *vcliConn) SetDeadline(t time.Time) error      { return nil }
func (c *vcliConn) SetReadDeadline(t time.Time) error  { return nil }
func (c *vcliConn) SetWriteDeadline(t time.Time) error { return nil }

// server side
func (c *vcliConn) takeC2S() []byte {
	c.mu.Lock()
	b := c.c2s
	c.c2s = nil
	c.mu.Unlock()
	return b
}

func (c *vcliConn) serverWrite(b []byte) {
	c.mu.Lock()
	if !c.srvClosed && !c.cliClosed {
		c.s2c = append(c.s2c, b...)
		c.s2cTotal += int64(len(b))
		c.cond.Broadcast()
	}
	c.mu.Unlock()
}

func (c *vcliConn) serverClose() {
	c.mu.Lock()
	c.srvClosed = true
	c.cond.Broadcast()
	c.mu.Unlock()
}

func (c *vcliConn) clientClosed() bool {
	c.mu.Lock()
	defer c.mu.Unlock()
	return c.cliClosed
}

// holdWrites(true) makes client Writes block until holdWrites(false); it reports whether a
// Write was blocked while the hold was on.
func (c *vcliConn) holdWrites(on bool) (blocked bool) {
	c.mu.Lock()
	defer c.mu.Unlock()
	blocked = c.heldOnce
	c.hold = on
	c.heldOnce = false
	c.cond.Broadcast()
	return blocked
}

func (c *vcliConn) writeBlocked() bool {
	c.mu.Lock()
	defer c.mu.Unlock()
	return c.heldOnce
}

func (c *vcliConn) setReadMax(n int) {
	c.mu.Lock()
	c.readMax = n
	c.mu.Unlock()
}

func (c *vcliConn) s2cPending() int {
	c.mu.Lock()
	defer c.mu.Unlock()
	return len(c.s2c)
}

// ---------------------------------------------------------------------------------------
// delay injection bookkeeping (the failpoint function itself lives in a non-test file that
// only the checks using it include; the check's test file points its hook at Delay)

type vcliDelayer struct {
	seed     uint64
	pct      atomic.Int64 // probability (0..100) that a hit sleeps
	only     string       // when non-empty, only this failpoint name sleeps
	maxMs    int64
	ctr      atomic.Uint64
	sleepers atomic.Int64
	hits     atomic.Int64
	slept    atomic.Int64
}

func vcliMix(x uint64) uint64 {
	x ^= x >> 30
	x *= 0xbf58476d1ce4e5b9
	x ^= x >> 27
	x *= 0x94d049bb133111eb
	x ^= x >> 31
	return x
}

// Delay is called on goroutines of the code under test. Inside a bubble the sleep is virtual.
func (d *vcliDelayer) Delay(name string) {
	d.hits.Add(1)
	p := d.pct.Load()
	if p <= 0 || (d.only != "" && d.only != name) {
		return
	}
	h := vcliMix(d.seed ^ d.ctr.Add(1)*0x9e3779b97f4a7c15)
	if int64(h%100) >= p {
		return
	}
	ms := int64(1)
	if d.maxMs > 1 {
		ms = 1 + int64((h>>16)%uint64(d.maxMs))
	}
	d.slept.Add(1)
	d.sleepers.Add(1)
	time.Sleep(time.Duration(ms) * time.Millisecond)
	d.sleepers.Add(-1)
}

// ---------------------------------------------------------------------------------------
// shadow protocol state, server view

const vcliUnlimited = math.MaxInt64

type vcliStream struct {
	id                   uint32
	win                  int64 // send window the server has granted to the client on this stream (acknowledged settings)
	dataBytes            int64 // flow-controlled bytes of client DATA received
	dataFrm              int
	cliEnded             bool
	srvEnded             bool
	cliReset             bool
	srvReset             bool
	cliResetBeforeGoAway bool
	closed               bool // server view: no longer counts against MAX_CONCURRENT_STREAMS
	hdrDone              bool
	tag                  string // x-vreq header of the request (harness bookkeeping)
	method               string
	clen                 int64 // content-length header or -1
	respSent             bool
	errResp              bool // the server answered with a status that makes the client stop uploading
	// for classifying an overshoot as "frame in flight across a SETTINGS ACK"
	winBeforeAck   int64
	frameBeforeAck int64
	dataSinceAck   int
	ackSeen        bool
	openedAfter    int // number of SETTINGS ACKs seen on the connection when the stream was opened
	openSeq        int
	headersAtC2S   int // index of the opening HEADERS in the client's frame sequence
	afterGoAway    bool
	limitAtOpen    int64
	openCntAtOpen  int
}

func (st *vcliStream) cliCanSend() bool { return !st.cliEnded && !st.cliReset }

type vcliShadow struct {
	connWin    int64
	initWin    int64
	maxFrame   int64
	maxStreams int64
	pending    [][]h2ref.Setting // SETTINGS frames sent by the server, not yet acknowledged
	streams    map[uint32]*vcliStream
	order      []*vcliStream
	lastID     uint32
	openCount  int
	acks       int
	// race classification (see vcliStream)
	limitBeforeAck int64
	opensSinceAck  int
	ackSeen        bool

	// Event positions (count of frames seen in both directions) of the last SETTINGS ACK that
	// raised the client's concurrency limit and of the last stream close in the server's view.
	lastRaiseAckSeq int
	lastCloseSeq    int

	goAwaySent     bool
	goAwayLast     uint32
	goAwayCode     uint32
	goAwaySettled  bool // a quiescent point has passed since the GOAWAY was written
	cliGoAway      bool
	cliSettings    []h2ref.Setting
	cliSettingsN   int
	pingsOwed      [][8]byte
	settingsAckOwe int
}

func (sh *vcliShadow) permWinExtra() int64 {
	cur, extra := sh.initWin, int64(0)
	for _, ss := range sh.pending {
		for _, s := range ss {
			if s.ID == h2ref.SettingInitialWindowSize {
				cur = int64(s.Val)
				if cur-sh.initWin > extra {
					extra = cur - sh.initWin
				}
			}
		}
	}
	return extra
}

// minWinExtra is the most restrictive adjustment any prefix of the pending SETTINGS gives.
func (sh *vcliShadow) minWinExtra() int64 {
	cur, extra := sh.initWin, int64(0)
	for _, ss := range sh.pending {
		for _, s := range ss {
			if s.ID == h2ref.SettingInitialWindowSize {
				cur = int64(s.Val)
				if cur-sh.initWin < extra {
					extra = cur - sh.initWin
				}
			}
		}
	}
	return extra
}

func (sh *vcliShadow) permSetting(id uint16, acked int64) int64 {
	v := acked
	for _, ss := range sh.pending {
		for _, s := range ss {
			if s.ID == id && int64(s.Val) > v {
				v = int64(s.Val)
			}
		}
	}
	return v
}

func (sh *vcliShadow) permMaxFrame() int64 {
	return sh.permSetting(h2ref.SettingMaxFrameSize, sh.maxFrame)
}

func (sh *vcliShadow) permMaxStreams() int64 {
	if sh.maxStreams == vcliUnlimited {
		return vcliUnlimited
	}
	return sh.permSetting(h2ref.SettingMaxConcurrentStreams, sh.maxStreams)
}

// ---------------------------------------------------------------------------------------
// server side of one connection

type vcliSrvConn struct {
	S   *vcliSession
	Idx int
	NC  *vcliConn
	CC  *ClientConn // set for connections created through NewDirect / the newclientconn hook

	Sh vcliShadow

	in          []byte
	prefaceSeen bool
	contStream  uint32
	hdrBuf      []byte
	hdrStream   uint32
	hdrNew      bool
	hdec        *hpack.Decoder
	hfields     []hpack.HeaderField
	henc        *hpack.Encoder
	hencBuf     bytes.Buffer
	nC2S        int
	nS2C        int
	trace       []string
	closedBySrv bool
	HoldPings   bool
	Dead        bool // client closed its end or protocol garbage seen

	// hooks for the individual checks
	OnOpen func(st *vcliStream)
	OnData func(st *vcliStream, f h2ref.Frame)
	// OnFrame (optional, added for C10/C11) sees every complete frame of both directions before
	// the shadow bookkeeping: client frames when Pump parses them, server frames when the
	// harness writes them.
	OnFrame func(fromClient bool, f h2ref.Frame)
}

func (sc *vcliSrvConn) logf(format string, a ...any) {
	if len(sc.trace) >= 60 {
		copy(sc.trace, sc.trace[20:])
		sc.trace = sc.trace[:40]
	}
	sc.trace = append(sc.trace, fmt.Sprintf(format, a...))
}

// Trace returns the most recent frames in both directions (wire order per direction, server
// frames at the point the harness wrote them).
func (sc *vcliSrvConn) Trace() string { return strings.Join(sc.trace, "\n") }

func (sc *vcliSrvConn) viol(key, format string, a ...any) {
	d := fmt.Sprintf(format, a...)
	sc.S.Viol(key, "conn %d: %s\nlast frames:\n%s", sc.Idx, d, sc.Trace())
}

// Pump consumes what the client has written so far and runs the per-frame oracles.
func (sc *vcliSrvConn) Pump() int {
	b := sc.NC.takeC2S()
	if len(b) > 0 {
		sc.in = append(sc.in, b...)
	}
	if !sc.prefaceSeen {
		if len(sc.in) < len(h2ref.ClientPreface) {
			return 0
		}
		if string(sc.in[:len(h2ref.ClientPreface)]) != h2ref.ClientPreface {
			sc.viol("bad-client-preface", "client preface %q", sc.in[:len(h2ref.ClientPreface)])
			sc.Dead = true
			return 0
		}
		sc.in = sc.in[len(h2ref.ClientPreface):]
		sc.prefaceSeen = true
	}
	frames, rest := h2ref.ParseAll(sc.in)
	for _, f := range frames {
		sc.onClientFrame(f)
	}
	sc.in = append(sc.in[:0:0], rest...)
	if sc.NC.clientClosed() {
		sc.Dead = true
	}
	return len(frames)
}

func (sc *vcliSrvConn) onClientFrame(f h2ref.Frame) {
	sc.nC2S++
	if sc.OnFrame != nil {
		sc.OnFrame(true, f)
	}
	sc.S.R.Event("client_frames", 1)
	sh := &sc.Sh
	if sc.contStream != 0 {
		if f.Type != h2ref.TypeContinuation || f.StreamID != sc.contStream {
			sc.viol("client-interleaved-header-block", "%v inside the header block of stream %d", f, sc.contStream)
			sc.contStream = 0
		} else {
			sc.logf("C>S %v", f)
			sc.hdrBuf = append(sc.hdrBuf, f.Payload...)
			if f.Has(h2ref.FlagEndHeaders) {
				sc.contStream = 0
				sc.headerBlockDone()
			}
			return
		}
	}
	switch f.Type {
	case h2ref.TypeSettings:
		if f.Has(h2ref.FlagAck) {
			sc.logf("C>S SETTINGS ACK (#%d)", sh.acks+1)
			sc.onSettingsAck()
		} else {
			ss, _ := f.Settings()
			sc.logf("C>S SETTINGS %v", ss)
			sh.cliSettings = append(sh.cliSettings, ss...)
			sh.cliSettingsN++
			sh.settingsAckOwe++
		}
	case h2ref.TypeHeaders:
		frag, _, _, err := f.Headers()
		if err != nil {
			sc.viol("client-malformed-headers", "%v: %v", f, err)
			return
		}
		sc.hdrBuf = append(sc.hdrBuf[:0], frag...)
		sc.hdrStream = f.StreamID
		sc.onHeadersFrame(f)
		if f.Has(h2ref.FlagEndHeaders) {
			sc.headerBlockDone()
		} else {
			sc.contStream = f.StreamID
		}
	case h2ref.TypeData:
		sc.onData(f)
	case h2ref.TypeRSTStream:
		code, _ := f.RSTCode()
		sc.logf("C>S RST_STREAM s=%d code=%d", f.StreamID, code)
		sc.S.R.Event("client_rst_stream", 1)
		if st := sh.streams[f.StreamID]; st != nil {
			if !st.cliReset {
				st.cliResetBeforeGoAway = !sh.goAwaySent
			}
			st.cliReset = true
			sc.maybeClose(st)
		}
	case h2ref.TypePing:
		d, _ := f.Ping()
		if f.Has(h2ref.FlagAck) {
			sc.logf("C>S PING ACK")
		} else {
			sc.logf("C>S PING")
			sc.S.R.Event("client_pings", 1)
			sh.pingsOwed = append(sh.pingsOwed, d)
		}
	case h2ref.TypeWindowUpdate:
		// the client's receive windows: not part of these checks
	case h2ref.TypeGoAway:
		last, code, _, _ := f.GoAway()
		sc.logf("C>S GOAWAY last=%d code=%d", last, code)
		sh.cliGoAway = true
	default:
		sc.logf("C>S %v", f)
	}
}

func (sc *vcliSrvConn) onHeadersFrame(f h2ref.Frame) {
	sh := &sc.Sh
	id := f.StreamID
	st := sh.streams[id]
	sc.hdrNew = false
	if st != nil {
		// trailers
		sc.logf("C>S HEADERS s=%d (trailers) flags=0x%x", id, f.Flags)
		if f.Has(h2ref.FlagEndStream) {
			st.cliEnded = true
			sc.maybeClose(st)
		}
		return
	}
	sc.hdrNew = true
	limit := sh.permMaxStreams()
	sc.logf("C>S HEADERS s=%d flags=0x%x len=%d | server-view open=%d limit(acked)=%s limit(permissive)=%s", id, f.Flags, f.Length,
		sh.openCount, vcliLim(sh.maxStreams), vcliLim(limit))
	sc.S.R.Event("streams_opened", 1)
	if sc.S.CheckGoAway && sh.goAwaySettled {
		sc.viol("new-stream-after-goaway", "client opened stream %d although a quiescent point has passed since the server's GOAWAY (last-stream-id %d) was delivered", id, sh.goAwayLast)
	}
	if sh.goAwaySent {
		sc.S.R.Event("headers_in_flight_across_goaway", 1)
	}
	if sc.S.CheckStreams {
		if id%2 == 0 {
			sc.viol("even-stream-id", "client opened stream %d", id)
		}
		if id <= sh.lastID {
			sc.viol("stream-id-not-increasing", "client opened stream %d after stream %d", id, sh.lastID)
		}
		if sc.S.Strict && int64(sh.openCount) >= limit {
			// Was the slot taken before a SETTINGS ACK that lowered the limit, with the HEADERS
			// written after it? Then this is the first stream opened after that ACK and the
			// count is still within the limit that applied before the ACK.
			if sh.ackSeen && sh.opensSinceAck == 0 && int64(sh.openCount) < sh.limitBeforeAck {
				sc.viol("max-concurrent-streams-exceeded-by-first-headers-after-settings-ack",
					"HEADERS for stream %d written after the SETTINGS ACK that lowered MAX_CONCURRENT_STREAMS to %s (before: %s); streams open in the server's view: %d",
					id, vcliLim(limit), vcliLim(sh.limitBeforeAck), sh.openCount)
			} else {
				sc.viol("max-concurrent-streams-exceeded", "HEADERS for stream %d while %d streams are open in the server's view; limit %s", id, sh.openCount, vcliLim(limit))
			}
		}
	}
	if id > sh.lastID {
		sh.lastID = id
	}
	st = &vcliStream{id: id, win: sh.initWin, clen: -1, openedAfter: sh.acks, openSeq: len(sh.order), headersAtC2S: sc.nC2S,
		limitAtOpen: limit, openCntAtOpen: sh.openCount}
	st.afterGoAway = sh.goAwaySent
	sh.streams[id] = st
	sh.order = append(sh.order, st)
	sh.openCount++
	sh.opensSinceAck++
	if sh.openCount > int(sc.S.maxOpen.Load()) {
		sc.S.maxOpen.Store(int64(sh.openCount))
	}
	if f.Has(h2ref.FlagEndStream) {
		st.cliEnded = true
	}
}

func vcliLim(v int64) string {
	if v == vcliUnlimited {
		return "unlimited"
	}
	return strconv.FormatInt(v, 10)
}

func (sc *vcliSrvConn) headerBlockDone() {
	sh := &sc.Sh
	st := sh.streams[sc.hdrStream]
	sc.hfields = sc.hfields[:0]
	if _, err := sc.hdec.Write(sc.hdrBuf); err != nil {
		sc.S.R.Event("hpack_decode_errors", 1)
		sc.logf("(harness: hpack decode error %v)", err)
	}
	sc.hdec.Close()
	if st == nil {
		return
	}
	if sc.hdrNew {
		for _, hf := range sc.hfields {
			switch hf.Name {
			case "x-vreq":
				st.tag = hf.Value
			case ":method":
				st.method = hf.Value
			case "content-length":
				if n, err := strconv.ParseInt(hf.Value, 10, 64); err == nil {
					st.clen = n
				}
			}
		}
		st.hdrDone = true
		sc.logf("    stream %d is request %q %s content-length=%d", st.id, st.tag, st.method, st.clen)
		if sc.OnOpen != nil {
			sc.OnOpen(st)
		}
	}
	sc.maybeClose(st)
}

func (sc *vcliSrvConn) onData(f h2ref.Frame) {
	sh := &sc.Sh
	n := int64(f.Length) // the whole payload is flow controlled (RFC 9113 section 6.9.1)
	st := sh.streams[f.StreamID]
	sw := "?"
	if st != nil {
		sw = strconv.FormatInt(st.win, 10)
	}
	sc.logf("C>S DATA s=%d len=%d flags=0x%x | before: stream-win=%s conn-win=%d init-win(acked)=%d max-frame(acked)=%d unacked-SETTINGS=%d",
		f.StreamID, n, f.Flags, sw, sh.connWin, sh.initWin, sh.maxFrame, len(sh.pending))
	sc.S.R.Event("data_frames_checked", 1)
	sc.S.R.Event("data_bytes", n)
	if sc.S.CheckFlow && n > 0 {
		if mf := sh.permMaxFrame(); n > mf {
			if st != nil && st.ackSeen && st.dataSinceAck == 0 && n <= st.frameBeforeAck {
				sc.viol("max-frame-size-exceeded-by-first-data-after-settings-ack",
					"DATA of %d bytes on stream %d written after the SETTINGS ACK that lowered MAX_FRAME_SIZE to %d (before: %d)", n, f.StreamID, mf, st.frameBeforeAck)
			} else {
				sc.viol("max-frame-size-exceeded", "DATA of %d bytes on stream %d; SETTINGS_MAX_FRAME_SIZE %d", n, f.StreamID, mf)
			}
		}
		if n > sh.connWin {
			sc.viol("conn-window-exceeded", "DATA of %d bytes on stream %d; connection window %d", n, f.StreamID, sh.connWin)
		}
		if st != nil && !st.srvReset {
			perm := st.win + sh.permWinExtra()
			if n > perm {
				if st.ackSeen && st.dataSinceAck == 0 && n <= st.winBeforeAck {
					sc.viol("stream-window-exceeded-by-first-data-after-settings-ack",
						"DATA of %d bytes on stream %d is the first DATA on that stream after the client's SETTINGS ACK; the acknowledged SETTINGS_INITIAL_WINDOW_SIZE leaves a stream window of %d (window before the ACK: %d)",
						n, f.StreamID, perm, st.winBeforeAck)
				} else {
					sc.viol("stream-window-exceeded", "DATA of %d bytes on stream %d; stream window %d (acknowledged settings %d, most permissive unacknowledged adjustment %+d)",
						n, f.StreamID, perm, st.win, sh.permWinExtra())
				}
			}
		}
	}
	sh.connWin -= n
	if st == nil {
		sc.S.R.Event("data_on_unknown_stream", 1)
		return
	}
	if st.srvReset {
		sc.S.R.Event("data_after_server_reset", 1)
	}
	if st.win-n <= 0 && st.win > 0 {
		sc.S.R.Event("stream_window_hit_zero", 1)
	}
	if sh.connWin <= 0 && sh.connWin+n > 0 {
		sc.S.R.Event("conn_window_hit_zero", 1)
	}
	st.win -= n
	st.dataBytes += n
	st.dataFrm++
	st.dataSinceAck++
	if f.Has(h2ref.FlagEndStream) {
		st.cliEnded = true
		sc.maybeClose(st)
	}
	if sc.OnData != nil {
		sc.OnData(st, f)
	}
}

func (sc *vcliSrvConn) onSettingsAck() {
	sh := &sc.Sh
	if len(sh.pending) == 0 {
		sc.S.R.Event("unexpected_settings_ack", 1)
		return
	}
	// values that applied just before this ACK (most permissive), for race classification
	preExtra := sh.permWinExtra()
	preFrame := sh.permMaxFrame()
	preLimit := sh.permMaxStreams()
	// (over a run of ACKs with no DATA on the stream / no new stream in between, the largest)
	for _, st := range sh.streams {
		w := st.win + preExtra
		if st.ackSeen && st.dataSinceAck == 0 {
			st.winBeforeAck = max(st.winBeforeAck, w)
			st.frameBeforeAck = max(st.frameBeforeAck, preFrame)
		} else {
			st.winBeforeAck = w
			st.frameBeforeAck = preFrame
		}
		st.ackSeen = true
		st.dataSinceAck = 0
	}
	if sh.ackSeen && sh.opensSinceAck == 0 {
		sh.limitBeforeAck = max(sh.limitBeforeAck, preLimit)
	} else {
		sh.limitBeforeAck = preLimit
	}
	sh.ackSeen = true
	sh.opensSinceAck = 0

	ss := sh.pending[0]
	sh.pending = sh.pending[1:]
	sh.acks++
	sc.S.R.Event("settings_acked", 1)
	if sh.acks == 1 {
		// Until the first server SETTINGS the client works with a provisional limit and
		// replaces it afterwards, so the first ACK may amount to a raise on the client side.
		sh.lastRaiseAckSeq = sc.nC2S + sc.nS2C
	}
	for _, s := range ss {
		switch s.ID {
		case h2ref.SettingInitialWindowSize:
			delta := int64(s.Val) - sh.initWin
			sh.initWin = int64(s.Val)
			for _, st := range sh.streams {
				if st.cliCanSend() {
					if delta < 0 && st.win > 0 && st.win+delta <= 0 {
						sc.S.R.Event("stream_window_shrunk_to_nonpositive", 1)
					}
					st.win += delta
				}
			}
		case h2ref.SettingMaxFrameSize:
			sh.maxFrame = int64(s.Val)
		case h2ref.SettingMaxConcurrentStreams:
			if int64(s.Val) < int64(sh.openCount) {
				sc.S.R.Event("limit_lowered_below_open_count", 1)
			}
			if int64(s.Val) > sh.maxStreams {
				sh.lastRaiseAckSeq = sc.nC2S + sc.nS2C
			}
			sh.maxStreams = int64(s.Val)
		}
	}
}

func (sc *vcliSrvConn) maybeClose(st *vcliStream) {
	if st.closed {
		return
	}
	if (st.cliEnded && st.srvEnded) || st.cliReset || st.srvReset {
		st.closed = true
		sc.Sh.openCount--
		sc.Sh.lastCloseSeq = sc.nC2S + sc.nS2C
	}
}

// ----- server -> client

func (sc *vcliSrvConn) send(b []byte) {
	frames, rest := h2ref.ParseAll(b)
	if len(rest) != 0 {
		panic("vcli harness: server wrote a partial frame")
	}
	for _, f := range frames {
		sc.onServerFrame(f)
	}
	sc.NC.serverWrite(b)
}

func (sc *vcliSrvConn) onServerFrame(f h2ref.Frame) {
	sc.nS2C++
	if sc.OnFrame != nil {
		sc.OnFrame(false, f)
	}
	sc.S.R.Event("server_frames", 1)
	sh := &sc.Sh
	switch f.Type {
	case h2ref.TypeSettings:
		if f.Has(h2ref.FlagAck) {
			sc.logf("S>C SETTINGS ACK")
			return
		}
		ss, _ := f.Settings()
		sc.logf("S>C SETTINGS %v", vcliSettingsString(ss))
		sh.pending = append(sh.pending, ss)
	case h2ref.TypeWindowUpdate:
		inc, _ := f.WindowIncrement()
		if f.StreamID == 0 {
			sh.connWin += int64(inc)
			sc.logf("S>C WINDOW_UPDATE conn +%d -> %d", inc, sh.connWin)
		} else if st := sh.streams[f.StreamID]; st != nil {
			st.win += int64(inc)
			sc.logf("S>C WINDOW_UPDATE s=%d +%d -> %d", f.StreamID, inc, st.win)
		}
	case h2ref.TypeHeaders, h2ref.TypeData:
		sc.logf("S>C %v", f)
		if st := sh.streams[f.StreamID]; st != nil && f.Has(h2ref.FlagEndStream) {
			st.srvEnded = true
			sc.maybeClose(st)
		}
	case h2ref.TypeRSTStream:
		code, _ := f.RSTCode()
		sc.logf("S>C RST_STREAM s=%d code=%d", f.StreamID, code)
		if st := sh.streams[f.StreamID]; st != nil {
			st.srvReset = true
			sc.maybeClose(st)
		}
	case h2ref.TypeGoAway:
		last, code, _, _ := f.GoAway()
		sc.logf("S>C GOAWAY last=%d code=%d", last, code)
		if !sh.goAwaySent || last < sh.goAwayLast {
			sh.goAwayLast = last
		}
		if !sh.goAwaySent || code != h2ref.ErrNo {
			sh.goAwayCode = code
		}
		sh.goAwaySent = true
	default:
		sc.logf("S>C %v", f)
	}
}

func vcliSettingsString(ss []h2ref.Setting) string {
	var sb strings.Builder
	for i, s := range ss {
		if i > 0 {
			sb.WriteByte(' ')
		}
		switch s.ID {
		case h2ref.SettingInitialWindowSize:
			fmt.Fprintf(&sb, "INITIAL_WINDOW_SIZE=%d", s.Val)
		case h2ref.SettingMaxFrameSize:
			fmt.Fprintf(&sb, "MAX_FRAME_SIZE=%d", s.Val)
		case h2ref.SettingMaxConcurrentStreams:
			fmt.Fprintf(&sb, "MAX_CONCURRENT_STREAMS=%d", s.Val)
		default:
			fmt.Fprintf(&sb, "0x%x=%d", s.ID, s.Val)
		}
	}
	return sb.String()
}

func (sc *vcliSrvConn) SendSettings(ss ...h2ref.Setting) { sc.send(h2ref.AppendSettings(nil, ss...)) }
func (sc *vcliSrvConn) SendWindowUpdate(id, inc uint32) {
	sc.send(h2ref.AppendWindowUpdate(nil, id, inc))
}
func (sc *vcliSrvConn) SendRST(id, code uint32) { sc.send(h2ref.AppendRSTStream(nil, id, code)) }
func (sc *vcliSrvConn) SendGoAway(last, code uint32) {
	sc.send(h2ref.AppendGoAway(nil, last, code, []byte("verif")))
}
func (sc *vcliSrvConn) SendPing(ack bool, d [8]byte) { sc.send(h2ref.AppendPing(nil, ack, d)) }

// SendResponse writes response HEADERS (hpack-encoded with the repository's encoder, which
// is harness input here, not the code under check) and optionally a small DATA frame.
func (sc *vcliSrvConn) SendResponse(id uint32, status int, body int, endStream bool) {
	sc.hencBuf.Reset()
	sc.henc.WriteField(hpack.HeaderField{Name: ":status", Value: strconv.Itoa(status)})
	if body > 0 {
		sc.henc.WriteField(hpack.HeaderField{Name: "content-length", Value: strconv.Itoa(body)})
	}
	var b []byte
	b = h2ref.AppendHeaders(b, id, endStream && body == 0, true, sc.hencBuf.Bytes(), nil, -1)
	if body > 0 {
		b = h2ref.AppendData(b, id, endStream, bytes.Repeat([]byte{'r'}, body), -1)
	}
	if st := sc.Sh.streams[id]; st != nil {
		st.respSent = true
	}
	sc.send(b)
}

// Housekeeping acknowledges the client's SETTINGS and (unless HoldPings) answers its PINGs.
func (sc *vcliSrvConn) Housekeeping() {
	sh := &sc.Sh
	for sh.settingsAckOwe > 0 {
		sh.settingsAckOwe--
		sc.send(h2ref.AppendSettingsAck(nil))
	}
	if !sc.HoldPings {
		sc.AnswerPings()
	}
}

func (sc *vcliSrvConn) AnswerPings() {
	sh := &sc.Sh
	for _, d := range sh.pingsOwed {
		sc.SendPing(true, d)
	}
	sh.pingsOwed = nil
}

func (sc *vcliSrvConn) Close() {
	sc.closedBySrv = true
	sc.NC.serverClose()
}

// ---------------------------------------------------------------------------------------
// session: one Transport, its connections and requests, inside one bubble

type vcliSession struct {
	R   *verifrt.R
	C   *verifrt.Case
	Rng *rand.Rand
	Tr  *Transport

	CheckFlow    bool
	CheckStreams bool
	Strict       bool
	CheckGoAway  bool

	Delay *vcliDelayer

	OnNewConn func(sc *vcliSrvConn) // set before the first request

	BodyReadAfterClose atomic.Int64

	mu      sync.Mutex
	conns   []*vcliSrvConn
	Reqs    []*vcliReq
	maxOpen atomic.Int64
	dials   atomic.Int64
	DialErr atomic.Pointer[error] // when set, the dial hook fails with it

	violMu sync.Mutex
	NViol  int
}

func vcliNewSession(r *verifrt.R, c *verifrt.Case, tr *Transport) *vcliSession {
	s := &vcliSession{R: r, C: c, Rng: c.Rng, Tr: tr}
	s.Delay = &vcliDelayer{seed: c.Rng.Uint64(), maxMs: 5}
	if tr.DialTLSContext == nil {
		tr.DialTLSContext = func(ctx context.Context, network, addr string, cfg *tls.Config) (net.Conn, error) {
			if e := s.DialErr.Load(); e != nil {
				return nil, *e
			}
			sc := s.newSrvConn()
			return sc.NC, nil
		}
	}
	tr.AllowHTTP = true
	return s
}

func (s *vcliSession) Viol(key, format string, a ...any) {
	s.violMu.Lock()
	s.NViol++
	s.violMu.Unlock()
	s.C.Violation(key, format, a...)
}

func (s *vcliSession) newSrvConn() *vcliSrvConn {
	sc := &vcliSrvConn{S: s, NC: vcliNewConn()}
	sc.Sh = vcliShadow{connWin: 65535, initWin: 65535, maxFrame: 16384, maxStreams: vcliUnlimited, streams: map[uint32]*vcliStream{}}
	sc.hdec = hpack.NewDecoder(4096, func(hf hpack.HeaderField) { sc.hfields = append(sc.hfields, hf) })
	sc.henc = hpack.NewEncoder(&sc.hencBuf)
	if s.OnNewConn != nil {
		s.OnNewConn(sc) // may run on a goroutine of the code under test (dial): only touch sc
	}
	s.mu.Lock()
	sc.Idx = len(s.conns)
	s.conns = append(s.conns, sc)
	s.mu.Unlock()
	s.dials.Add(1)
	s.R.Event("connections", 1)
	return sc
}

// HookNewClientConn makes connections dialed by the Transport's pool known to the harness
// (white-box: Transport.transportTestHooks.newclientconn), so ClientConn() works for them.
func (s *vcliSession) HookNewClientConn() {
	s.Tr.transportTestHooks = &transportTestHooks{newclientconn: func(cc *ClientConn) {
		if vc, ok := cc.tconn.(*vcliConn); ok {
			vc.cc.Store(cc)
		}
	}}
}

// ClientConn returns the implementation's connection object for this pipe, if known.
func (sc *vcliSrvConn) ClientConn() *ClientConn {
	if sc.CC != nil {
		return sc.CC
	}
	return sc.NC.cc.Load()
}

// NewDirect creates a connection with Transport.NewClientConn (no pool involved).
func (s *vcliSession) NewDirect() (*vcliSrvConn, *ClientConn, error) {
	sc := s.newSrvConn()
	cc, err := s.Tr.NewClientConn(sc.NC)
	sc.CC = cc
	return sc, cc, err
}

func (s *vcliSession) Conns() []*vcliSrvConn {
	s.mu.Lock()
	defer s.mu.Unlock()
	return append([]*vcliSrvConn(nil), s.conns...)
}

// Pump waits until every goroutine in the bubble is durably blocked (possibly in an injected
// virtual sleep) and consumes the client's output on all connections.
func (s *vcliSession) Pump() int {
	synctest.Wait()
	n := 0
	for _, sc := range s.Conns() {
		n += sc.Pump()
		sc.Housekeeping()
	}
	if n > 0 {
		// housekeeping may have produced reactions
		synctest.Wait()
		for _, sc := range s.Conns() {
			n += sc.Pump()
		}
	}
	return n
}

// Settle reaches true quiescence: nothing runnable, nobody inside an injected delay, all
// client output consumed. Virtual time advances only by the injected delays.
func (s *vcliSession) Settle() {
	for i := 0; ; i++ {
		n := s.Pump()
		if s.Delay.sleepers.Load() == 0 && n == 0 {
			break
		}
		if s.Delay.sleepers.Load() > 0 {
			time.Sleep(time.Duration(s.Delay.maxMs+1) * time.Millisecond)
		}
		if i > 200000 {
			panic("vcli harness: Settle does not converge")
		}
	}
	for _, sc := range s.Conns() {
		if sc.Sh.goAwaySent {
			sc.Sh.goAwaySettled = true
		}
	}
}

// ----- requests

type vcliBody struct {
	remain      int64
	chunk       int
	eofWithLast bool
	closed      atomic.Bool
	reads       atomic.Int64
	rac         *atomic.Int64 // session counter: reads after Close
}

func (b *vcliBody) Read(p []byte) (int, error) {
	b.reads.Add(1)
	if b.closed.Load() {
		// The Transport closes a request body in cleanupWriteRequest even when the attempt
		// failed before anything was read (errClientConnUnusable) and then retries with the
		// same body. A body that refuses reads after Close would fail such a retry; this one
		// keeps working and counts the event.
		if b.rac != nil {
			b.rac.Add(1)
		}
	}
	if b.remain == 0 {
		return 0, io.EOF
	}
	n := len(p)
	if b.chunk > 0 && n > b.chunk {
		n = b.chunk
	}
	if int64(n) > b.remain {
		n = int(b.remain)
	}
	for i := 0; i < n; i++ {
		p[i] = 'b'
	}
	b.remain -= int64(n)
	if b.remain == 0 && b.eofWithLast {
		return n, io.EOF
	}
	return n, nil
}

func (b *vcliBody) Close() error { b.closed.Store(true); return nil }

type vcliReq struct {
	Idx      int
	Tag      string
	Method   string
	BodyLen  int64 // -1: no body
	Declared bool
	Chunk    int
	EOFLast  bool
	Replay   bool // GetBody defined
	Req      *http.Request
	Cancel   context.CancelFunc
	Done     chan struct{}
	Resp     *http.Response
	Err      error
	Status   int
	BodyErr  error
	GetBodyN atomic.Int64
	Started  bool
}

func (rq *vcliReq) Finished() bool {
	select {
	case <-rq.Done:
		return true
	default:
		return false
	}
}

// NewReq builds (does not start) a request. bodyLen < 0 means no body.
func (s *vcliSession) NewReq(method string, bodyLen int64, declared bool, chunk int, eofLast, replay bool) *vcliReq {
	rq := &vcliReq{Idx: len(s.Reqs), Method: method, BodyLen: bodyLen, Declared: declared, Chunk: chunk, EOFLast: eofLast, Replay: replay, Done: make(chan struct{})}
	rq.Tag = "r" + strconv.Itoa(rq.Idx)
	ctx, cancel := context.WithCancel(context.Background())
	rq.Cancel = cancel
	var body io.ReadCloser
	mk := func() io.ReadCloser {
		return &vcliBody{remain: bodyLen, chunk: chunk, eofWithLast: eofLast, rac: &s.BodyReadAfterClose}
	}
	if bodyLen >= 0 {
		body = mk()
	}
	req, err := http.NewRequestWithContext(ctx, method, "http://verif.test/"+rq.Tag, body)
	if err != nil {
		panic(err)
	}
	if bodyLen >= 0 {
		if declared {
			req.ContentLength = bodyLen
			if bodyLen == 0 {
				// ContentLength 0 with a non-nil Body means "unknown" to net/http; keep it unknown
				req.ContentLength = -1
			}
		} else {
			req.ContentLength = -1
		}
		if replay {
			req.GetBody = func() (io.ReadCloser, error) { rq.GetBodyN.Add(1); return mk(), nil }
		}
	}
	req.Header.Set("x-vreq", rq.Tag)
	req.Header.Set("accept-encoding", "identity")
	rq.Req = req
	s.Reqs = append(s.Reqs, rq)
	return rq
}

// Start runs the round trip on its own goroutine; the response body is read to the end and
// closed there.
func (s *vcliSession) Start(rq *vcliReq, rt func(*http.Request) (*http.Response, error)) {
	rq.Started = true
	s.R.Event("requests_started", 1)
	go func() {
		defer close(rq.Done)
		resp, err := rt(rq.Req)
		rq.Resp, rq.Err = resp, err
		if err == nil && resp != nil {
			rq.Status = resp.StatusCode
			_, rq.BodyErr = io.Copy(io.Discard, resp.Body)
			resp.Body.Close()
		}
	}()
}

func (s *vcliSession) AllFinished() bool {
	for _, rq := range s.Reqs {
		if rq.Started && !rq.Finished() {
			return false
		}
	}
	return true
}

// Teardown cancels what is left, closes every connection and lets the bubble drain.
func (s *vcliSession) Teardown() {
	s.Delay.pct.Store(0)
	for _, rq := range s.Reqs {
		rq.Cancel()
	}
	for _, sc := range s.Conns() {
		sc.Close()
	}
	s.Tr.CloseIdleConnections()
	for i := 0; i < 50; i++ {
		synctest.Wait()
		if s.Delay.sleepers.Load() == 0 && s.AllFinished() {
			break
		}
		time.Sleep(10 * time.Millisecond)
	}
	for _, sc := range s.Conns() {
		sc.Pump()
	}
	if !s.AllFinished() {
		s.R.Event("teardown_unfinished_requests", 1)
	}
}

// vcliSleepVirtual advances the bubble's clock (e.g. past the pool's retry back-off).
func vcliSleepVirtual(ms int) { time.Sleep(time.Duration(ms) * time.Millisecond) }

// vcliPanicSig shortens a recovered panic value to a stable violation-key suffix.
func vcliPanicSig(e any) string {
	s := fmt.Sprint(e)
	if i := strings.IndexAny(s, ":\n"); i > 0 && i < 60 {
		s = s[:i]
	} else if len(s) > 60 {
		s = s[:60]
	}
	return s
}
