//go:build verif

package http2

import "sync/atomic"

// verifDelay is the target of the anchored one-line insertions described in
// /verif/failpoints/transport.*.json. It does nothing unless a monitor has installed a hook
// (C09, C17, C18 point it at vcliDelayer.Delay, which sleeps in virtual time inside a bubble).
var verifDelayHook atomic.Pointer[func(name string)]

func verifDelay(name string) {
	if f := verifDelayHook.Load(); f != nil {
		(*f)(name)
	}
}
