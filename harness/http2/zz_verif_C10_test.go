//go:build verif

package http2

// C10: HTTP/2 inbound flow-control credit is never leaked (server and Transport).
//
// One case = one connection in a testing/synctest bubble. The scripted peer stays inside the
// windows it has been given (exceeding them is C11's subject) and walks, PRNG-driven, through
// the discard paths the statement names; the application side (request handler / response
// consumer) is driven by commands, so the monitor knows at its boundary how many body bytes
// were handed over and which bodies were closed.
//
// Oracle, evaluated at a quiescent point after every script action (zz_verif_C10_C11_recvflow_test.go):
//
//	(wire)      no WINDOW_UPDATE raises the peer's view of a receive window above 2^31-1;
//	(wire+INV)  peer's view of the connection window == inflow.avail;
//	(INV)       inflow.avail + inflow.unsent + bytes buffered for bodies the application can still
//	            read or close == configured connection window;  0 <= inflow.unsent < 4096;
//	(boundary)  for a stream no discard path touched: buffered == sent by the peer − read by the app;
//	(final, wire) all bodies read/closed and all streams done: 0 <= configured − view < 4096
//	            and that remainder is exactly inflow.unsent (the documented batching).
//
// Exactly one script action (which may itself contain concurrency: DATA in the same burst as a
// reset, a read command racing with arriving frames) lies between two checks, and every stream
// is put on at most one discard path, so a violation is attributed to that path. Keys:
//
//	<role>:<symptom>@<discard path>          the action touched a stream on that discard path
//	                                         (after-trailers and short-body count as after-end-stream)
//	<role>:<symptom>:<action>@clean          the action touched only untouched streams
//	server:credit-excess:body-read-after-stream-closed   excess no larger than what handlers read,
//	                                         since the last check, from streams closeStream had closed
//	<role>:final-*, <role>:unsent-credit-out-of-range, <role>:{conn,stream}-window-exceeds-2^31-1
//
// symptom: credit-lost / credit-excess (the INV sum is below / above the configured window),
// data-not-counted / window-update-not-on-wire (peer view below / above inflow.avail).
// After reporting, the expectation is rebased so that the rest of the session is still checked.

import (
	"fmt"
	"hash/fnv"
	"math"
	"math/rand/v2"
	"net/http"
	"testing"

	"golang.org/x/net/internal/verifrt"
	"golang.org/x/net/internal/verifrt/h2ref"
)

type vrfC10Desc struct {
	Role    string     `json:"role"`
	Srv     *vrfSrvCfg `json:"server_config,omitempty"`
	Cli     *vrfCliCfg `json:"transport_config,omitempty"`
	Steps   int        `json:"steps"`
	Script  []string   `json:"script"`
	notes   vrfNotes
	paths   map[string]bool // discard paths on which DATA bytes were actually sent / discarded
	sig     uint64
	padded  int
	zeroLen int
}

func (d *vrfC10Desc) note(format string, a ...any) {
	d.notes.add(format, a...)
	d.Script = d.notes.Lines
	h := fnv.New64a()
	fmt.Fprint(h, d.sig, fmt.Sprintf(format, a...))
	d.sig = h.Sum64()
}

// vrfPadding picks the padding of a DATA frame: -1 none, else 0..255.
func vrfPadding(rng *rand.Rand) int {
	switch rng.IntN(10) {
	case 0:
		return 0
	case 1:
		return 255
	case 2, 3:
		return rng.IntN(256)
	}
	return -1
}

// vrfFit shrinks (n data bytes, pad) until the frame's flow-controlled length fits limit.
// ok=false when not even an empty unpadded frame... (which always fits: length 0).
func vrfFit(n, pad int, limit int64) (int, int) {
	fc := func() int64 {
		if pad < 0 {
			return int64(n)
		}
		return int64(n) + 1 + int64(pad)
	}
	if fc() > limit && pad >= 0 {
		pad = -1
	}
	if fc() > limit {
		n = int(limit)
	}
	if n < 0 {
		n = 0
	}
	return n, pad
}

// ---------------------------------------------------------------------------------------
// server role

var vrfSrvTaints = []string{"body-closed", "handler-returned", "handler-panicked", "client-rst", "beyond-content-length", "after-end-stream", "after-trailers", "short-body", "stream-window-exceeded"}

func vrfC10Server(r *verifrt.R, c *verifrt.Case) {
	rng := c.Rng
	cfg := vrfSrvCfg{
		ConnBuf:      vsrvPick[int32](rng, 0, 0, 65535, 65536, 65535+100, 65535+4095, 65535+4096, 70000, 100000, 1<<20, 1<<20+17, 3<<20, math.MaxInt32),
		StreamBuf:    vsrvPick[int32](rng, 0, 0, 1, 100, 4096, 5000, 65535, 70001, 1<<20, 1<<20, math.MaxInt32),
		MaxReadFrame: vsrvPick[uint32](rng, 0, 16384, 20000, 65536),
	}
	d := &vrfC10Desc{Role: "server", Srv: &cfg, Steps: 15 + rng.IntN(50), paths: map[string]bool{}}
	c.Describe(d)
	var h *vrfSrv
	inner, outer := vsrvBubble(r.T, func() {
		h = vrfNewSrv(r, c, cfg, nil)
		h.S.start()
		vrfC10ServerScript(h, rng, d)
		h.finish()
	})
	if h == nil {
		c.Violation("harness-failure", "session did not start: %s %s", inner, outer)
		return
	}
	if inner != "" {
		c.Violation("harness-panic", "panic in the C10 server script: %s", inner)
	}
	h.S.mu.Lock()
	npanics := len(h.S.panics)
	h.S.mu.Unlock()
	if outer != "" {
		if npanics > 0 {
			// the serve loop died in a panic (reported below): goroutines it left behind are its
			// consequence, not a finding of their own
			r.Event("server_bubble_left_goroutines_after_serve_loop_panic", 1)
		} else {
			c.Violation("bubble-did-not-exit:"+outer, "after the client closed the connection and released every handler the bubble could not exit: %s\n%s", outer, h.hist())
		}
	}
	h.corruptions()
	h.S.mu.Lock()
	for _, p := range h.S.panics {
		c.Violation(vsrvPanicKey("", p), "serve loop panicked: %s\n%s", p, h.S.history(40))
	}
	sh := h.Sh
	r.Event("server_sessions", 1)
	r.Event("server_data_frames_sent", sh.sentFrames)
	r.Event("server_data_bytes_flow_controlled", sh.sentFC)
	r.Event("server_conn_window_updates", sh.nConnWU)
	r.Event("server_stream_window_updates", sh.nStreamWU)
	r.Event("server_conn_window_updates_below_4096", sh.nSmallWU)
	r.Event("server_padded_data_frames", int64(d.padded))
	r.Event("server_zero_length_data_frames", int64(d.zeroLen))
	for p := range d.paths {
		r.Event("server_path_"+p, 1)
	}
	h.S.mu.Unlock()
	nt := len(d.paths) >= 2
	r.EvalHash(nt, d.sig)
	if nt {
		r.Sample(map[string]any{"case": d, "discard_paths": vrfSortedKeys(d.paths), "data_frames": sh.sentFrames, "flow_controlled_bytes": sh.sentFC,
			"conn_window_updates": sh.nConnWU, "conservation_checks": h.L.checks, "final_peer_view": sh.connWin, "configured": h.L.configured})
	}
}

func vrfC10ServerScript(h *vrfSrv, rng *rand.Rand, d *vrfC10Desc) {
	s := h.S
	s.cliPreface()
	// wide send windows for the (small) responses; they play no role here
	s.cliSettings(h2ref.Setting{ID: h2ref.SettingInitialWindowSize, Val: 1 << 24})
	s.cliWindowUpdate(0, 1<<28)
	s.cliSettingsAck()
	if !h.check("setup") {
		if h.dead {
			return
		}
	}
	nextID := uint32(1)
	var skipped []uint32
	goneAway := false
	live := func() (clean, tainted, all []*vrfSrvStream) {
		for _, st := range h.order {
			if st.finished {
				continue
			}
			all = append(all, st)
			if st.taint == "" {
				clean = append(clean, st)
			} else {
				tainted = append(tainted, st)
			}
		}
		return
	}
	openStream := func() *vrfSrvStream {
		if goneAway || len(h.order) >= 14 {
			return nil
		}
		if rng.IntN(6) == 0 {
			skipped = append(skipped, nextID)
			nextID += 2
		}
		id := nextID
		nextID += 2
		cl := int64(-1)
		if rng.IntN(3) == 0 {
			cl = vsrvPick[int64](rng, 0, 1, 100, 5000, 20000, 70000)
		}
		st := h.open(id, cl, false, true)
		d.note("open s=%d content-length=%d", id, cl)
		return st
	}
	// sendData sends up to k DATA frames on st inside the peer's windows. The stream window the
	// peer was given is respected even after the stream has been closed or reset (the
	// implementation may still apply it to frames that cross its own clean-up).
	sendData := func(st *vrfSrvStream, k int, allowEnd bool) (sentFC int64) {
		for i := 0; i < k; i++ {
			conn, sw, mf := h.view(st.id)
			limit := min(conn, sw, mf)
			n := vsrvPick(rng, 0, 1, 1+rng.IntN(100), 1+rng.IntN(5000), 4096, 1+rng.IntN(20000), int(mf))
			pad := vrfPadding(rng)
			if st.cl >= 0 && st.taint != "beyond-content-length" {
				// stay within the declared length (one discard path per stream)
				if rest := st.cl - st.dataSent; int64(n) > rest {
					n = int(max(rest, 0))
				}
			}
			n, pad = vrfFit(n, pad, limit)
			if limit <= 0 && (n > 0 || pad >= 0) {
				n, pad = 0, -1
			}
			end := false
			if allowEnd && st.taint == "" && i == k-1 && rng.IntN(4) == 0 && (st.cl < 0 || st.dataSent+int64(n) == st.cl) {
				end = true
			}
			if pad >= 0 {
				d.padded++
			}
			if n == 0 {
				d.zeroLen++
			}
			fcl := int64(n)
			if pad >= 0 {
				fcl += 1 + int64(pad)
			}
			sentFC += fcl
			h.data(st, n, pad, end)
			d.note("DATA s=%d data=%d pad=%d end=%v", st.id, n, pad, end)
			if st.taint != "" && fcl > 0 {
				d.paths[st.taint] = true
			}
			if pad >= 0 && fcl > 0 {
				d.paths["padding"] = true
			}
			if end {
				break
			}
		}
		return
	}
	appCmd := func(st *vrfSrvStream) string {
		if st.app == nil {
			return ""
		}
		_, _, _, _, returned := st.app.snapshot()
		if returned {
			return ""
		}
		switch rng.IntN(3) {
		case 0:
			n := vsrvPick(rng, 1, 10, 512, 4095, 4096, 4097, 32768)
			st.app.send(vrfCmd{'r', n})
			return fmt.Sprintf("read(%d)", n)
		case 1:
			n := vsrvPick(rng, 1, 100, 3000)
			for i := 0; i < 3; i++ {
				st.app.send(vrfCmd{'r', n})
			}
			return fmt.Sprintf("3xread(%d)", n)
		default:
			if !st.cliEnded && !st.cliRST {
				// would block until the end of the body: only a bounded read here
				st.app.send(vrfCmd{'r', 65536})
				return "read(65536)"
			}
			st.app.send(vrfCmd{'A', vsrvPick(rng, 512, 4096, 100000)})
			return "read-all"
		}
	}
	applyTaint := func(st *vrfSrvStream) string {
		var cands []string
		for _, t := range vrfSrvTaints {
			switch t {
			case "beyond-content-length", "short-body":
				if st.cl < 0 || st.dataSent > st.cl || (t == "short-body" && st.dataSent >= st.cl) {
					continue
				}
			case "stream-window-exceeded":
				// one frame above the stream window but inside the connection window: the server
				// answers with a stream error, the connection (and its accounting) goes on
				conn, sw, mf := h.view(st.id)
				if sw+1 > min(conn, mf) || (st.cl >= 0 && st.dataSent+sw+1 > st.cl) {
					continue
				}
			}
			cands = append(cands, t)
		}
		t := cands[rng.IntN(len(cands))]
		// most taints are more interesting with unread data buffered
		if rng.IntN(3) != 0 && t != "beyond-content-length" && t != "short-body" && t != "stream-window-exceeded" {
			sendData(st, 1+rng.IntN(2), false)
		}
		concurrentRead := rng.IntN(3) == 0
		if concurrentRead {
			st.app.send(vrfCmd{'r', vsrvPick(rng, 1, 100, 5000)})
		}
		switch t {
		case "body-closed":
			st.app.send(vrfCmd{'c', 0})
		case "handler-returned":
			st.app.send(vrfCmd{'w', rng.IntN(300)})
			st.app.send(vrfCmd{'x', 0})
		case "handler-panicked":
			if rng.IntN(2) == 0 {
				st.app.send(vrfCmd{'w', 10})
			}
			st.app.send(vrfCmd{'p', 0})
		case "client-rst":
			s.cliRST(st.id, h2ref.ErrCancel)
			st.cliRST = true
		case "beyond-content-length":
			// the frame that crosses the declared length
			conn, sw, mf := h.view(st.id)
			n := int(st.cl-st.dataSent) + 1 + rng.IntN(50)
			if int64(n) > min(conn, sw, mf) {
				return ""
			}
			st.taint = t
			h.data(st, n, -1, false)
			d.paths[t] = true
			d.note("DATA s=%d data=%d (crossing content-length %d)", st.id, n, st.cl)
		case "stream-window-exceeded":
			conn, sw, mf := h.view(st.id)
			n := sw + 1
			if extra := min(conn, mf) - n; extra > 0 && rng.IntN(2) == 0 {
				n += rng.Int64N(min(extra, 3000) + 1)
			}
			if st.cl >= 0 && st.dataSent+n > st.cl {
				n = sw + 1
			}
			st.taint = t
			h.data(st, int(n), -1, false)
			d.paths[t] = true
			d.note("DATA s=%d data=%d (stream window %d, connection window %d)", st.id, n, sw, conn)
		case "after-end-stream":
			h.data(st, 0, -1, true)
		case "after-trailers":
			s.cliHeaders(st.id, true, []vsrvField{{"x-trailer", "1"}})
			st.cliEnded = true
		case "short-body":
			h.data(st, 0, -1, true)
		}
		st.taint = t
		d.note("taint s=%d %s (concurrent read: %v)", st.id, t, concurrentRead)
		// DATA racing with the discard: same burst, no quiescent point in between
		if rng.IntN(2) == 0 {
			sendData(st, 1+rng.IntN(3), false)
		}
		return t
	}

	for step := 0; step < d.Steps && !h.dead; step++ {
		clean, tainted, all := live()
		what := ""
		switch a := rng.IntN(100); {
		case a < 12 || len(all) == 0:
			if st := openStream(); st != nil {
				what = "open@"
				if rng.IntN(2) == 0 {
					sendData(st, 1+rng.IntN(3), true)
					what = "open+data@"
				}
			}
		case a < 40: // DATA on a clean stream, possibly while its handler reads
			if len(clean) == 0 {
				break
			}
			st := clean[rng.IntN(len(clean))]
			rd := ""
			if rng.IntN(3) == 0 {
				rd = "+" + appCmd(st)
			}
			if st.cliEnded {
				if rd != "" {
					what = "read@"
				}
				break
			}
			sendData(st, 1+rng.IntN(4), true)
			what = "data" + rd + "@"
			if rd != "" {
				what = "data+read@"
			}
		case a < 55: // handler reads
			if len(all) == 0 {
				break
			}
			st := all[rng.IntN(len(all))]
			if cmd := appCmd(st); cmd != "" {
				d.note("handler s=%d %s", st.id, cmd)
				what = "read@" + st.taint
			}
		case a < 70: // a discard path starts on a clean stream
			var cands []*vrfSrvStream
			for _, st := range clean {
				if _, _, _, started, returned := st.app.snapshot(); started && !returned && !st.cliEnded {
					cands = append(cands, st)
				}
			}
			if len(cands) == 0 {
				break
			}
			st := cands[rng.IntN(len(cands))]
			if t := applyTaint(st); t != "" {
				what = "start@" + t
			}
		case a < 88: // more DATA on a stream that is on a discard path
			if len(tainted) == 0 {
				break
			}
			st := tainted[rng.IntN(len(tainted))]
			rd := false
			if rng.IntN(3) == 0 {
				rd = appCmd(st) != ""
			}
			sendData(st, 1+rng.IntN(4), false)
			what = "data@" + st.taint
			if rd {
				what = "data+read@" + st.taint
			}
		case a < 91: // DATA on a stream id the client skipped (closed by the id rule, never opened)
			if len(skipped) == 0 {
				break
			}
			id := skipped[rng.IntN(len(skipped))]
			if id >= nextID-2 {
				break // not yet below the highest opened id: would be an idle stream (connection error)
			}
			st := h.streams[id]
			if st == nil {
				st = &vrfSrvStream{id: id, cl: -1, taint: "never-opened", cliEnded: true}
				h.streams[id] = st
				h.order = append(h.order, st)
			}
			sendData(st, 1+rng.IntN(2), false)
			what = "data@never-opened"
		case a < 94: // graceful shutdown, then a stream the server must ignore
			if goneAway || step < d.Steps/2 || len(h.order) == 0 {
				break
			}
			goneAway = true
			h.S.sc.startGracefulShutdown()
			if !h.check("goaway@") {
				break
			}
			id := nextID
			nextID += 2
			st := h.open(id, -1, false, false)
			st.taint = "after-goaway"
			d.note("GOAWAY(graceful); open s=%d", id)
			sendData(st, 1+rng.IntN(3), false)
			what = "data@after-goaway"
		case a < 97: // finish a stream completely
			if len(all) == 0 {
				break
			}
			st := all[rng.IntN(len(all))]
			vrfC10FinishSrvStream(h, rng, d, st)
			what = "finish@" + st.taint
		default:
			var p [8]byte
			p[0] = byte(step)
			s.cliPing(p)
			what = "ping@"
		}
		if what != "" {
			h.check(what)
		}
	}
	// wind down: every stream is completed, one at a time, then the end condition is checked
	for _, st := range h.order {
		if h.dead {
			break
		}
		if !st.finished {
			vrfC10FinishSrvStream(h, rng, d, st)
			h.check("finish@" + st.taint)
		}
	}
	d.note("wind-down done")
	h.final()
}

// vrfC10FinishSrvStream brings one stream to its end from both sides.
func vrfC10FinishSrvStream(h *vrfSrv, rng *rand.Rand, d *vrfC10Desc, st *vrfSrvStream) {
	st.finished = true
	if st.app == nil {
		if st.taint == "after-goaway" && !st.cliRST {
			h.S.cliRST(st.id, h2ref.ErrCancel)
			st.cliRST = true
		}
		return
	}
	mode := rng.IntN(3)
	if !st.cliEnded && !st.cliRST {
		if mode == 0 {
			h.S.cliRST(st.id, h2ref.ErrCancel)
			st.cliRST = true
			if st.taint == "" {
				st.taint = "client-rst"
			}
		} else if st.cl < 0 || st.taint != "" || st.dataSent == st.cl {
			h.data(st, 0, -1, true)
		} else {
			// complete the declared length
			for i := 0; st.dataSent < st.cl && i < 12; i++ {
				conn, sw, mf := h.view(st.id)
				n := min(st.cl-st.dataSent, conn, sw, mf)
				if n <= 0 {
					break
				}
				h.data(st, int(n), -1, st.dataSent+n == st.cl)
				st.app.send(vrfCmd{'A', 4096})
				h.quiescent()
			}
			if !st.cliEnded {
				h.S.cliRST(st.id, h2ref.ErrCancel)
				st.cliRST = true
			}
		}
	}
	switch rng.IntN(3) {
	case 0:
		st.app.send(vrfCmd{'A', vsrvPick(rng, 512, 4096, 70000)})
	case 1:
		st.app.send(vrfCmd{'c', 0})
	}
	st.app.send(vrfCmd{'w', rng.IntN(200)})
	st.app.send(vrfCmd{'x', 0})
	d.note("finish s=%d (mode %d)", st.id, mode)
}

// ---------------------------------------------------------------------------------------
// client role

var vrfCliTaints = []string{"body-closed", "ctx-cancel", "server-rst", "beyond-content-length", "after-end-stream", "after-trailers", "short-body", "after-goaway"}

func vrfC10Client(r *verifrt.R, c *verifrt.Case) {
	rng := c.Rng
	cfg := vrfCliCfg{
		ConnBuf:      vsrvPick(rng, 0, 0, 64<<10, 64<<10+1, 100000, 1<<20, 4<<20-1),
		StreamBuf:    vsrvPick(rng, 0, 0, 1, 100, 4096, 65535, 100000, 1<<20, 4<<20-1),
		MaxReadFrame: vsrvPick[uint32](rng, 0, 16384, 20000, 65536),
	}
	d := &vrfC10Desc{Role: "client", Cli: &cfg, Steps: 15 + rng.IntN(50), paths: map[string]bool{}}
	c.Describe(d)
	var h *vrfCli
	inner, outer := vsrvBubble(r.T, func() {
		var err error
		h, err = vrfNewCli(r, c, cfg)
		if err != nil {
			r.Note("NewClientConn failed: %v", err)
			h.Sess.Teardown()
			return
		}
		vrfC10ClientScript(h, rng, d)
		h.finish()
	})
	if h == nil {
		c.Violation("harness-failure", "session did not start: %s %s", inner, outer)
		return
	}
	if inner != "" {
		c.Violation("harness-panic", "panic in the C10 client script: %s", inner)
	}
	if outer != "" {
		c.Violation("bubble-did-not-exit:"+outer, "after teardown the bubble could not exit: %s\nlast frames:\n%s", outer, h.SC.Trace())
	}
	h.corruptions()
	sh := h.Sh
	r.Event("client_sessions", 1)
	r.Event("client_data_frames_sent", sh.sentFrames)
	r.Event("client_data_bytes_flow_controlled", sh.sentFC)
	r.Event("client_conn_window_updates", sh.nConnWU)
	r.Event("client_stream_window_updates", sh.nStreamWU)
	r.Event("client_conn_window_updates_below_4096", sh.nSmallWU)
	r.Event("client_padded_data_frames", int64(d.padded))
	r.Event("client_zero_length_data_frames", int64(d.zeroLen))
	for p := range d.paths {
		r.Event("client_path_"+p, 1)
	}
	nt := len(d.paths) >= 2
	r.EvalHash(nt, d.sig)
	if nt {
		r.Sample(map[string]any{"case": d, "discard_paths": vrfSortedKeys(d.paths), "data_frames": sh.sentFrames, "flow_controlled_bytes": sh.sentFC,
			"conn_window_updates": sh.nConnWU, "conservation_checks": h.L.checks, "final_peer_view": sh.connWin, "configured": h.L.configured})
	}
}

func vrfC10ClientScript(h *vrfCli, rng *rand.Rand, d *vrfC10Desc) {
	sc := h.SC
	sc.SendSettings(h2ref.Setting{ID: h2ref.SettingMaxConcurrentStreams, Val: 100})
	if !h.check("setup") && h.dead {
		return
	}
	goneAway := false
	late := false
	live := func() (clean, tainted, all []*vrfReq) {
		for _, rq := range h.reqs {
			if rq.finished || rq.id == 0 {
				continue
			}
			all = append(all, rq)
			if rq.taint == "" {
				clean = append(clean, rq)
			} else {
				tainted = append(tainted, rq)
			}
		}
		return
	}
	startReq := func() *vrfReq {
		if goneAway || len(h.reqs) >= 14 {
			return nil
		}
		method := "GET"
		if rng.IntN(8) == 0 {
			method = "HEAD"
		}
		rq := h.start(method)
		if !h.settle() || rq.id == 0 {
			rq.finished = true
			return nil
		}
		d.note("request %s %s -> stream %d", rq.tag, method, rq.id)
		if rq.method == "HEAD" {
			rq.taint = "head-with-data" // any DATA payload on it is a protocol error of the peer
		}
		return rq
	}
	sendHeaders := func(rq *vrfReq) {
		cl := int64(-1)
		if rng.IntN(3) == 0 {
			cl = vsrvPick[int64](rng, 0, 1, 5, 100, 5000, 20000, 70000)
		}
		h.headers(rq, 200, cl, false)
		d.note("HEADERS s=%d content-length=%d", rq.id, cl)
	}
	// sendData writes up to k DATA frames of rq in ONE write, inside the peer's windows.
	sendData := func(rq *vrfReq, k int, allowEnd bool) {
		var out []byte
		for i := 0; i < k; i++ {
			conn, sw, mf := h.view(rq.id)
			limit := min(conn, sw, mf)
			n := vsrvPick(rng, 0, 1, 1+rng.IntN(100), 1+rng.IntN(5000), 4096, 1+rng.IntN(20000), int(mf))
			pad := vrfPadding(rng)
			if rq.cl >= 0 && rq.taint != "beyond-content-length" {
				if rest := rq.cl - rq.dataSent; int64(n) > rest {
					n = int(max(rest, 0))
				}
			}
			n, pad = vrfFit(n, pad, limit)
			if limit <= 0 && (n > 0 || pad >= 0) {
				n, pad = 0, -1
			}
			end := false
			if allowEnd && rq.taint == "" && i == k-1 && rng.IntN(4) == 0 && (rq.cl < 0 || rq.dataSent+int64(n) == rq.cl) {
				end = true
			}
			if pad >= 0 {
				d.padded++
			}
			if n == 0 {
				d.zeroLen++
			}
			fcl := int64(n)
			if pad >= 0 {
				fcl += 1 + int64(pad)
			}
			// account in the shadow right away so that the next frame of the burst sees it
			out = h.dataFrame(out[:0], rq, n, pad, end)
			sc.send(out)
			d.note("DATA s=%d data=%d pad=%d end=%v", rq.id, n, pad, end)
			if rq.taint != "" && fcl > 0 {
				d.paths[rq.taint] = true
			}
			if pad >= 0 && fcl > 0 {
				d.paths["padding"] = true
			}
			if end {
				break
			}
		}
	}
	appCmd := func(rq *vrfReq) string {
		done, err, _ := rq.roundTripState()
		if !done || err != nil {
			return ""
		}
		if _, _, _, _, returned := rq.app.snapshot(); returned {
			return ""
		}
		switch rng.IntN(3) {
		case 0:
			n := vsrvPick(rng, 1, 10, 512, 4095, 4096, 4097, 32768)
			rq.app.send(vrfCmd{'r', n})
			return fmt.Sprintf("read(%d)", n)
		case 1:
			n := vsrvPick(rng, 1, 100, 3000)
			for i := 0; i < 3; i++ {
				rq.app.send(vrfCmd{'r', n})
			}
			return fmt.Sprintf("3xread(%d)", n)
		default:
			if !rq.srvEnded && !rq.srvRST && rq.taint == "" {
				rq.app.send(vrfCmd{'r', 65536})
				return "read(65536)"
			}
			rq.app.send(vrfCmd{'A', vsrvPick(rng, 512, 4096, 100000)})
			return "read-all"
		}
	}
	force := ""
	applyTaint := func(rq *vrfReq) string {
		var cands []string
		for _, t := range vrfCliTaints {
			if force != "" && t != force {
				continue
			}
			switch t {
			case "beyond-content-length", "short-body":
				if rq.cl < 0 || rq.dataSent > rq.cl || (t == "short-body" && rq.dataSent >= rq.cl) {
					continue
				}
			case "after-goaway":
				// the client closes the connection once it is idle after a GOAWAY: late, and not in every session
				if goneAway || !late {
					continue
				}
			}
			cands = append(cands, t)
		}
		if len(cands) == 0 {
			return ""
		}
		t := cands[rng.IntN(len(cands))]
		if rng.IntN(3) != 0 && t != "beyond-content-length" && t != "short-body" {
			sendData(rq, 1+rng.IntN(2), false)
		}
		concurrentRead := rng.IntN(3) == 0
		if concurrentRead {
			rq.app.send(vrfCmd{'r', vsrvPick(rng, 1, 100, 5000)})
		}
		switch t {
		case "body-closed":
			rq.app.send(vrfCmd{'c', 0})
			if rng.IntN(2) == 0 {
				rq.app.send(vrfCmd{'C', 0})
				h.R.Event("client_bodies_closed_twice", 1)
				d.note("app s=%d closes the body a second time", rq.id)
			}
		case "ctx-cancel":
			rq.cancel()
		case "server-rst":
			sc.SendRST(rq.id, vsrvPick[uint32](rng, h2ref.ErrCancel, h2ref.ErrInternal, h2ref.ErrNo))
			rq.srvRST = true
		case "beyond-content-length":
			conn, sw, mf := h.view(rq.id)
			n := int(rq.cl-rq.dataSent) + 1 + rng.IntN(50)
			if int64(n) > min(conn, sw, mf) {
				return ""
			}
			rq.taint = t
			sc.send(h.dataFrame(nil, rq, n, -1, false))
			d.paths[t] = true
			d.note("DATA s=%d data=%d (crossing content-length %d)", rq.id, n, rq.cl)
		case "after-end-stream", "short-body":
			sc.send(h.dataFrame(nil, rq, 0, -1, true))
		case "after-trailers":
			h.trailers(rq)
		case "after-goaway":
			// GOAWAY naming a last stream id below this request's: the client gives the
			// request up; DATA the server had in flight for it follows
			goneAway = true
			last := uint32(0)
			if rq.id > 2 {
				last = rq.id - 2
			}
			sc.SendGoAway(last, h2ref.ErrNo)
		}
		rq.taint = t
		d.note("taint s=%d %s (concurrent read: %v)", rq.id, t, concurrentRead)
		if rng.IntN(2) == 0 {
			sendData(rq, 1+rng.IntN(3), false)
		}
		return t
	}

	for step := 0; step < d.Steps && !h.dead; step++ {
		clean, tainted, all := live()
		what := ""
		late = false
		switch a := rng.IntN(100); {
		case a < 12 || len(all) == 0:
			rq := startReq()
			if rq == nil {
				break
			}
			what = "request@" + rq.taint
			switch rng.IntN(8) {
			case 0: // DATA before the response HEADERS
				if rq.taint == "" {
					rq.taint = "before-headers"
				}
				sendData(rq, 1+rng.IntN(2), false)
				what = "data@" + rq.taint
			case 1: // the request is cancelled while HEADERS+DATA arrive
				if rq.taint == "" {
					rq.taint = "cancel-racing-response"
					rq.cancel()
					sendHeaders(rq)
					sendData(rq, 1+rng.IntN(3), false)
					d.note("cancel racing HEADERS+DATA s=%d", rq.id)
					what = "start@" + rq.taint
				}
			default:
				sendHeaders(rq)
				if rng.IntN(2) == 0 {
					sendData(rq, 1+rng.IntN(3), true)
				}
			}
		case a < 40:
			if len(clean) == 0 {
				break
			}
			rq := clean[rng.IntN(len(clean))]
			if !rq.hdrSent {
				sendHeaders(rq)
			}
			rd := false
			if rng.IntN(3) == 0 {
				rd = appCmd(rq) != ""
			}
			if rq.srvEnded {
				if rd {
					what = "read@"
				}
				break
			}
			sendData(rq, 1+rng.IntN(4), true)
			what = "data@"
			if rd {
				what = "data+read@"
			}
		case a < 55:
			if len(all) == 0 {
				break
			}
			rq := all[rng.IntN(len(all))]
			if cmd := appCmd(rq); cmd != "" {
				d.note("app s=%d %s", rq.id, cmd)
				what = "read@" + rq.taint
			}
		case a < 70:
			var cands []*vrfReq
			for _, rq := range clean {
				if done, err, _ := rq.roundTripState(); done && err == nil && rq.hdrSent && !rq.srvEnded {
					cands = append(cands, rq)
				}
			}
			if len(cands) == 0 {
				break
			}
			if t := applyTaint(cands[rng.IntN(len(cands))]); t != "" {
				what = "start@" + t
			}
		case a < 90:
			if len(tainted) == 0 {
				break
			}
			rq := tainted[rng.IntN(len(tainted))]
			rd := false
			if rng.IntN(3) == 0 {
				rd = appCmd(rq) != ""
			}
			if rq.taint == "head-with-data" && !rq.hdrSent {
				h.headers(rq, 200, -1, false)
			}
			sendData(rq, 1+rng.IntN(4), false)
			what = "data@" + rq.taint
			if rd {
				what = "data+read@" + rq.taint
			}
		case a < 96:
			if len(all) == 0 {
				break
			}
			rq := all[rng.IntN(len(all))]
			vrfC10FinishCliReq(h, rng, d, rq)
			what = "finish@" + rq.taint
		default:
			sc.SendPing(false, [8]byte{9, 9, 9, byte(step)})
			what = "ping@"
		}
		if what != "" {
			h.check(what)
		}
	}
	// in a part of the sessions the server says GOAWAY before the wind-down, naming a last
	// stream id below a request that is still in progress
	if !h.dead && !goneAway && rng.IntN(3) == 0 {
		late, force = true, "after-goaway"
		clean, _, _ := live()
		for i := len(clean) - 1; i >= 0; i-- {
			rq := clean[i]
			if done, err, _ := rq.roundTripState(); done && err == nil && rq.hdrSent && !rq.srvEnded {
				if t := applyTaint(rq); t != "" {
					h.check("start@" + t)
				}
				break
			}
		}
		force = ""
	}
	for _, rq := range h.reqs {
		if h.dead {
			break
		}
		if !rq.finished {
			vrfC10FinishCliReq(h, rng, d, rq)
			h.check("finish@" + rq.taint)
		}
	}
	// DATA for streams that are completely over (the client has forgotten them)
	if !h.dead && len(h.reqs) > 0 && rng.IntN(2) == 0 {
		rq := h.reqs[rng.IntN(len(h.reqs))]
		if rq.id != 0 {
			old := rq.taint
			rq.taint = "finished-stream"
			rq.srvEnded = true
			rq.cl = -1
			sendData(rq, 1+rng.IntN(3), false)
			h.check("data@finished-stream")
			_ = old
		}
	}
	d.note("wind-down done")
	h.final()
}

// vrfC10FinishCliReq ends a request from both sides: the server ends or resets the stream,
// the application reads to the end or not, and closes the body.
func vrfC10FinishCliReq(h *vrfCli, rng *rand.Rand, d *vrfC10Desc, rq *vrfReq) {
	rq.finished = true
	if rq.id == 0 {
		rq.cancel()
		return
	}
	sc := h.SC
	if !rq.hdrSent && !rq.srvRST {
		h.headers(rq, 200, -1, false)
	}
	mode := rng.IntN(3)
	if !rq.srvEnded && !rq.srvRST {
		switch {
		case mode == 0:
			sc.SendRST(rq.id, h2ref.ErrCancel)
			rq.srvRST = true
		case rq.cl < 0 || rq.taint != "" || rq.dataSent == rq.cl:
			sc.send(h.dataFrame(nil, rq, 0, -1, true))
		default:
			for i := 0; rq.dataSent < rq.cl && !h.dead && i < 12; i++ {
				conn, sw, mf := h.view(rq.id)
				n := min(rq.cl-rq.dataSent, conn, sw, mf)
				if n <= 0 {
					break
				}
				sc.send(h.dataFrame(nil, rq, int(n), -1, rq.dataSent+n == rq.cl))
				rq.app.send(vrfCmd{'A', 4096})
				h.settle()
			}
			if !rq.srvEnded {
				sc.SendRST(rq.id, h2ref.ErrCancel)
				rq.srvRST = true
			}
		}
	}
	if rng.IntN(2) == 0 {
		rq.app.send(vrfCmd{'A', vsrvPick(rng, 512, 4096, 70000)})
	}
	rq.app.send(vrfCmd{'c', 0})
	rq.app.send(vrfCmd{'x', 0})
	d.note("finish s=%d (mode %d)", rq.id, mode)
	// a request whose RoundTrip has not returned (no response yet / failed) is released
	if done, _, _ := rq.roundTripState(); !done {
		h.settle()
		if done, _, _ := rq.roundTripState(); !done {
			rq.cancel()
		}
	}
}

// ---------------------------------------------------------------------------------------

func TestVerif_C10(t *testing.T) {
	r := verifrt.Start(t, "C10")
	defer r.Finish()
	r.ExitIfAbnormal()
	r.SetRule("one case = one HTTP/2 connection (server role: scripted client against Server.ServeConn with MaxUploadBufferPerConnection in {default,65535,65536,65535+100,+4095,+4096,70000,100000,1MiB,1MiB+17,3MiB,2^31-1} and MaxUploadBufferPerStream in {default,1,100,4096,5000,65535,70001,1MiB,2^31-1}; client role: scripted server against a ClientConn with MaxReceiveBufferPerConnection in {default,64KiB,64KiB+1,100000,1MiB,4MiB-1}, per-stream in {default,1,100,4096,65535,100000,1MiB,4MiB-1}) running 15-65 PRNG script actions, each followed by a quiescent conservation check: open/request, DATA bursts within the peer's windows (sizes 0,1,small,4096,<=20000,max-frame; padding none/0/255/random; END_STREAM), application reads (single, triple, bounded, to-the-end; buffer 1..100000), one discard path per stream {body closed early, handler returned, handler panicked, RST_STREAM from either side, request context cancelled, DATA beyond Content-Length, DATA after END_STREAM, after trailers, END_STREAM short of Content-Length, DATA on never-opened / finished stream, after GOAWAY, DATA before HEADERS, DATA on HEAD, cancel racing HEADERS+DATA} started with data buffered and/or a concurrent read and followed by more DATA, PING, finishing streams; then every stream is completed and the end condition is checked. non-trivial = DATA was sent on >= 2 distinct discard paths (padding counts as one); distinct = hash of the script")
	r.Assume("frames are split by the independent reader h2ref; the peer's view of a window = initial (65535 / announced SETTINGS_INITIAL_WINDOW_SIZE) + Σ WINDOW_UPDATE − Σ DATA payload length incl. padding (RFC 9113 6.9, 6.9.1)")
	r.Assume("'configured size' of the connection window: Server: MaxUploadBufferPerConnection (default 1 MiB when outside 65535..2^31-1); Transport: 65535 + MaxReceiveBufferPerConnection (default 2^30), which is what newClientConn establishes; cross-checked at the first quiescent point")
	r.Assume("'eventually returned' is decided at synctest quiescence after each action; credit for bytes buffered in a body the application can still read/close counts as held (white-box pipe length, cross-checked against sent−read at the application boundary for untouched streams); batched credit is inflow.unsent and must stay in [0,4096) (flow.go: inflowMinRefresh)")
	r.Assume("the end condition is only evaluated on connections that are still up, once every handler/consumer has returned and the implementation knows no stream any more")

	n := r.N(200, 1200)
	vsrvGoroutineTracking(false)
	r.CasesParallel("server", n, 0, func(c *verifrt.Case) { vrfC10Server(r, c) })
	// client sessions use synctest.Test on the calling goroutine through vsrvBubble as well
	r.CasesParallel("client", n, 0, func(c *verifrt.Case) { vrfC10Client(r, c) })

	q := func(quick, thorough int64) int64 {
		if r.Thorough() {
			return thorough
		}
		return quick
	}
	r.Require("server_conservation_checks", q(2500, 15000))
	r.Require("client_conservation_checks", q(2500, 15000))
	r.Require("server_final_checks", q(70, 450))
	r.Require("client_final_checks", q(70, 450))
	r.Require("server_checks_with_buffered_body_bytes", q(500, 3000))
	r.Require("client_checks_with_buffered_body_bytes", q(500, 3000))
	r.Require("server_checks_with_batched_credit", q(300, 2000))
	r.Require("client_checks_with_batched_credit", q(300, 2000))
	r.Require("server_conn_window_updates", q(500, 3000))
	r.Require("client_conn_window_updates", q(300, 2000))
	r.Require("server_padded_data_frames", q(300, 2000))
	r.Require("client_padded_data_frames", q(300, 2000))
	for _, p := range []string{"body-closed", "handler-returned", "handler-panicked", "client-rst", "beyond-content-length", "after-end-stream", "after-trailers", "short-body", "never-opened", "after-goaway", "stream-window-exceeded"} {
		r.Require("server_path_"+p, q(1, 10))
	}
	for _, p := range []string{"body-closed", "ctx-cancel", "server-rst", "beyond-content-length", "after-end-stream", "after-trailers", "short-body", "after-goaway", "before-headers", "head-with-data", "cancel-racing-response", "finished-stream"} {
		r.Require("client_path_"+p, q(1, 10))
	}
	_ = http.ErrAbortHandler
}
