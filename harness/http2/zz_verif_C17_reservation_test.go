//go:build verif

package http2

// C17, pool clause, directed: reservations. Without StrictMaxConcurrentStreams the pool counts
// open streams plus the requests it has already handed a connection to ("reservations") against
// SETTINGS_MAX_CONCURRENT_STREAMS. Here requests are held between "the pool gave me this
// connection" and "I created my stream" (a blocking httptrace GotConn hook), some of the held
// requests then fail after their stream id was assigned but before HEADERS were written (field
// list larger than the server's SETTINGS_MAX_HEADER_LIST_SIZE), further requests arrive, and the
// held ones are released in PRNG order. The server never finishes a stream and its limit never
// changes after the warm-up exchange, so for every stream-opening HEADERS on a connection whose
// limit the client has acknowledged the number of streams open in the server's view must be
// below the limit: otherwise the pool has chosen a connection that was at its limit.
// The choice itself is observed too (the wire cannot show it: a request that arrives at a full
// connection is turned away again before it writes anything): every request carries a GotConn
// hook, and when the pool hands the warm connection to a request, fewer than the limit of the
// requests it handed that connection to earlier may still be unfinished.

import (
	"fmt"
	"net"
	"net/http"
	"net/http/httptrace"
	"sort"
	"strings"
	"sync"
	"testing"
	"testing/synctest"

	"golang.org/x/net/internal/verifrt"
	"golang.org/x/net/internal/verifrt/h2ref"
)

type vcliC17ResParams struct {
	Limit     int      `json:"server_max_concurrent_streams"`
	HdrLimit  int      `json:"server_max_header_list_size"`
	Held      []string `json:"held_requests"` // "ok" or "oversized", in start order
	Late      int      `json:"requests_started_after_the_failures"`
	ReleaseBy []int    `json:"release_order_of_the_remaining_held_requests"`
}

func vcliC17ReservationCases(t *testing.T, r *verifrt.R, n int) {
	r.Cases("nonstrict-reservations", n, func(c *verifrt.Case) {
		synctest.Test(t, func(t *testing.T) {
			vcliC17Reservation(r, c)
		})
	})
}

func vcliC17Reservation(r *verifrt.R, c *verifrt.Case) {
	rng := c.Rng
	p := vcliC17ResParams{Limit: []int{2, 2, 3, 5}[rng.IntN(4)], HdrLimit: []int{1000, 4000}[rng.IntN(2)]}
	nHeld := p.Limit + rng.IntN(2)
	nBad := 0
	for i := 0; i < nHeld; i++ {
		k := "ok"
		if rng.IntN(2) == 0 && nBad < nHeld-1 {
			k = "oversized"
			nBad++
		}
		p.Held = append(p.Held, k)
	}
	if nBad == 0 {
		p.Held[0] = "oversized"
	}
	p.Late = 1 + rng.IntN(p.Limit+1)
	c.Describe(p)

	tr := &Transport{}
	s := vcliNewSession(r, c, tr)
	s.CheckStreams = true
	s.HookNewClientConn()
	defer s.Teardown()
	s.OnNewConn = func(sc *vcliSrvConn) {
		sc.OnOpen = func(st *vcliStream) {
			if st.limitAtOpen == vcliUnlimited {
				r.Event("reservation_headers_before_limit_known", 1)
				return
			}
			r.Event("reservation_headers_checked_against_limit", 1)
			if int64(st.openCntAtOpen) >= st.limitAtOpen {
				sc.viol("nonstrict-conn-at-limit-got-new-stream",
					"non-strict mode, reservations scenario: HEADERS for stream %d (request %s) while %d streams are open in the server's view; MAX_CONCURRENT_STREAMS has been %s on this connection since before the request was started and the server has finished no stream, so the connection was at its limit when the pool chose it",
					st.id, st.tag, st.openCntAtOpen, vcliLim(st.limitAtOpen))
			}
		}
	}
	greeted := map[*vcliSrvConn]bool{}
	greet := func() {
		for _, sc := range s.Conns() {
			if !greeted[sc] {
				greeted[sc] = true
				sc.SendSettings(h2ref.Setting{ID: h2ref.SettingMaxConcurrentStreams, Val: uint32(p.Limit)},
					h2ref.Setting{ID: h2ref.SettingMaxHeaderListSize, Val: uint32(p.HdrLimit)})
			}
		}
	}
	settle := func() {
		s.Settle()
		greet()
		s.Settle()
	}
	rt := func(req *http.Request) (*http.Response, error) { return tr.RoundTrip(req) }
	// what the pool has decided: request tag -> connection it was last given
	var amu sync.Mutex
	givenTo := map[string]net.Conn{}
	byTag := map[string]*vcliReq{}
	var warmConn net.Conn // set after the warm-up: the connection whose limit is acknowledged
	trace := func(rq *vcliReq, gate chan struct{}) {
		byTag[rq.Tag] = rq
		rq.Req = rq.Req.WithContext(httptrace.WithClientTrace(rq.Req.Context(), &httptrace.ClientTrace{
			GotConn: func(gi httptrace.GotConnInfo) {
				amu.Lock()
				if warmConn != nil && gi.Conn == warmConn {
					var others []string
					for tag, cn := range givenTo {
						if cn != warmConn || tag == rq.Tag {
							continue
						}
						select {
						case <-byTag[tag].Done:
						default:
							others = append(others, tag)
						}
					}
					r.Event("reservation_pool_choices_of_the_warm_connection_checked", 1)
					if len(others) >= p.Limit {
						sort.Strings(others)
						s.Viol("pool-chose-connection-at-its-limit", "non-strict mode: the pool gave request %s the connection whose SETTINGS_MAX_CONCURRENT_STREAMS=%d the client has acknowledged, although %d requests it had given that connection earlier are unfinished (%v; a held request has its slot reserved, the others have streams the server has not answered)", rq.Tag, p.Limit, len(others), others)
					}
				}
				givenTo[rq.Tag] = gi.Conn
				amu.Unlock()
				if gate != nil {
					<-gate
				}
			},
		}))
	}

	// warm-up: one exchange, so that the connection exists and the limits are acknowledged
	warm := s.NewReq("GET", -1, false, 0, false, false)
	s.Start(warm, rt)
	settle()
	conns := s.Conns()
	if len(conns) != 1 {
		r.Note("warm-up did not produce exactly one connection (%d)", len(conns))
		return
	}
	sc0 := conns[0]
	for _, st := range sc0.Sh.order {
		if st.hdrDone && !st.respSent {
			sc0.SendResponse(st.id, 200, 0, true)
		}
	}
	settle()
	if !warm.Finished() || warm.Err != nil {
		r.Note("warm-up request did not complete: %v", warm.Err)
		return
	}
	amu.Lock()
	warmConn = sc0.NC
	amu.Unlock()

	// held requests: each blocks in GotConn, i.e. holds a reservation on the connection it was given
	type held struct {
		rq   *vcliReq
		gate chan struct{}
		kind string
	}
	var hs []*held
	for _, k := range p.Held {
		rq := s.NewReq("GET", -1, false, 0, false, false)
		h := &held{rq: rq, gate: make(chan struct{}), kind: k}
		if k == "oversized" {
			rq.Req.Header.Set("x-filler", strings.Repeat("f", p.HdrLimit))
		}
		trace(rq, h.gate)
		hs = append(hs, h)
		s.Start(rq, rt)
		settle()
	}
	r.Event("reservation_requests_held_after_getting_a_connection", int64(len(hs)))
	// the oversized ones go first: stream id assigned, header encoding fails, nothing written
	for _, h := range hs {
		if h.kind == "oversized" {
			close(h.gate)
			settle()
			if !h.rq.Finished() {
				s.Viol("oversized-request-without-outcome", "request %s (field list above the server's SETTINGS_MAX_HEADER_LIST_SIZE %d) has not returned at quiescence", h.rq.Tag, p.HdrLimit)
			} else if h.rq.Err == nil {
				r.Note("request %s with an oversized field list was sent all the same", h.rq.Tag)
			} else {
				r.Event("reservation_requests_failed_after_stream_id_before_headers", 1)
			}
		}
	}
	// new arrivals
	for i := 0; i < p.Late; i++ {
		rq := s.NewReq("GET", -1, false, 0, false, false)
		trace(rq, nil)
		s.Start(rq, rt)
		settle()
	}
	settle()
	// the other held requests create their streams now
	var rest []*held
	for _, h := range hs {
		if h.kind != "oversized" {
			rest = append(rest, h)
		}
	}
	for _, i := range rng.Perm(len(rest)) {
		p.ReleaseBy = append(p.ReleaseBy, i)
		close(rest[i].gate)
		if rng.IntN(2) == 0 {
			settle()
		}
	}
	settle()
	open := 0
	for _, sc := range s.Conns() {
		open += sc.Sh.openCount
	}
	r.Event("reservation_sessions", 1)
	r.Event("reservation_connections_dialed", int64(len(s.Conns())))
	r.EvalHash(len(s.Conns()) > 1, vcliHashString(fmt.Sprintf("%+v|%d|%d", p, len(s.Conns()), open)))
}

func vcliHashString(s string) uint64 {
	var h uint64 = 14695981039346656037
	for i := 0; i < len(s); i++ {
		h ^= uint64(s[i])
		h *= 1099511628211
	}
	return h
}
