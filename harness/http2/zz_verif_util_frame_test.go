//go:build verif

package http2

// Shared helpers of the Framer monitors (C06, C07): a normalised, comparable view of a
// frame that can be filled in either from the http2 package's typed Frame values or from the
// independent h2ref parser / directly from generator arguments. Everything is prefixed vfrm
// because other white-box monitors live in this package too.

import (
	"bytes"
	"encoding/binary"
	"fmt"
	"math/rand/v2"

	"golang.org/x/net/internal/verifrt/h2ref"
)

type vfrmView struct {
	Kind     string // DataFrame, HeadersFrame … (Go type for the implementation, derived from the type code for the reference)
	Type     uint8
	Flags    uint8
	StreamID uint32
	Length   uint32 // wire length including pad-length octet, priority block and padding
	Body     []byte // DATA data / field block fragment / GOAWAY debug data / PRIORITY_UPDATE value / unknown payload
	HasPrio  bool
	Prio     h2ref.Priority
	ID       uint32 // PUSH_PROMISE promised id / GOAWAY last stream id / PRIORITY_UPDATE prioritized id
	Code     uint32 // RST_STREAM, GOAWAY
	Incr     uint32
	Ping     [8]byte
	Settings []h2ref.Setting
}

func vfrmKind(t uint8) string {
	switch t {
	case h2ref.TypeData:
		return "DataFrame"
	case h2ref.TypeHeaders:
		return "HeadersFrame"
	case h2ref.TypePriority:
		return "PriorityFrame"
	case h2ref.TypeRSTStream:
		return "RSTStreamFrame"
	case h2ref.TypeSettings:
		return "SettingsFrame"
	case h2ref.TypePushPromise:
		return "PushPromiseFrame"
	case h2ref.TypePing:
		return "PingFrame"
	case h2ref.TypeGoAway:
		return "GoAwayFrame"
	case h2ref.TypeWindowUpdate:
		return "WindowUpdateFrame"
	case h2ref.TypeContinuation:
		return "ContinuationFrame"
	case h2ref.TypePriorityUpdate:
		return "PriorityUpdateFrame"
	}
	return "UnknownFrame"
}

// vfrmFromImpl copies everything out of a frame returned by Framer.ReadFrame (the frame is
// only valid until the next ReadFrame).
func vfrmFromImpl(f Frame) vfrmView {
	return vfrmFromImplCp(f, func(b []byte) []byte { return append([]byte(nil), b...) })
}

// vfrmFromImplNoCopy aliases the frame's buffers: the view dies with the next ReadFrame.
func vfrmFromImplNoCopy(f Frame) vfrmView {
	return vfrmFromImplCp(f, func(b []byte) []byte { return b })
}

func vfrmFromImplCp(f Frame, cp func([]byte) []byte) vfrmView {
	h := f.Header()
	v := vfrmView{Type: uint8(h.Type), Flags: uint8(h.Flags), StreamID: h.StreamID, Length: h.Length}
	switch f := f.(type) {
	case *DataFrame:
		v.Kind = "DataFrame"
		v.Body = cp(f.Data())
	case *HeadersFrame:
		v.Kind = "HeadersFrame"
		v.Body = cp(f.HeaderBlockFragment())
		v.HasPrio = f.HasPriority()
		v.Prio = h2ref.Priority{Exclusive: f.Priority.Exclusive, StreamDep: f.Priority.StreamDep, Weight: f.Priority.Weight}
	case *MetaHeadersFrame:
		v.Kind = "MetaHeadersFrame"
		v.HasPrio = f.HasPriority()
		v.Prio = h2ref.Priority{Exclusive: f.Priority.Exclusive, StreamDep: f.Priority.StreamDep, Weight: f.Priority.Weight}
	case *PriorityFrame:
		v.Kind = "PriorityFrame"
		v.HasPrio = true
		v.Prio = h2ref.Priority{Exclusive: f.Exclusive, StreamDep: f.StreamDep, Weight: f.Weight}
	case *RSTStreamFrame:
		v.Kind = "RSTStreamFrame"
		v.Code = uint32(f.ErrCode)
	case *SettingsFrame:
		v.Kind = "SettingsFrame"
		f.ForeachSetting(func(s Setting) error {
			v.Settings = append(v.Settings, h2ref.Setting{ID: uint16(s.ID), Val: s.Val})
			return nil
		})
	case *PushPromiseFrame:
		v.Kind = "PushPromiseFrame"
		v.ID = f.PromiseID
		v.Body = cp(f.HeaderBlockFragment())
	case *PingFrame:
		v.Kind = "PingFrame"
		v.Ping = f.Data
	case *GoAwayFrame:
		v.Kind = "GoAwayFrame"
		v.ID = f.LastStreamID
		v.Code = uint32(f.ErrCode)
		v.Body = cp(f.DebugData())
	case *WindowUpdateFrame:
		v.Kind = "WindowUpdateFrame"
		v.Incr = f.Increment
	case *ContinuationFrame:
		v.Kind = "ContinuationFrame"
		v.Body = cp(f.HeaderBlockFragment())
	case *PriorityUpdateFrame:
		v.Kind = "PriorityUpdateFrame"
		v.ID = f.PrioritizedStreamID
		v.Body = []byte(f.Priority)
	case *UnknownFrame:
		v.Kind = "UnknownFrame"
		v.Body = cp(f.Payload())
	default:
		v.Kind = fmt.Sprintf("%T", f)
	}
	return v
}

// vfrmFromRef decodes a wire frame with the independent parser. err != nil means the payload
// does not have the layout of its type.
func vfrmFromRef(f h2ref.Frame) (vfrmView, error) {
	v := vfrmView{Kind: vfrmKind(f.Type), Type: f.Type, Flags: f.Flags, StreamID: f.StreamID, Length: uint32(len(f.Payload))}
	var err error
	switch f.Type {
	case h2ref.TypeData:
		v.Body, _, err = f.Data()
	case h2ref.TypeHeaders:
		var p *h2ref.Priority
		v.Body, p, _, err = f.Headers()
		if p != nil {
			v.HasPrio, v.Prio = true, *p
		}
	case h2ref.TypePriority:
		v.HasPrio = true
		v.Prio, err = f.PriorityFrame()
	case h2ref.TypeRSTStream:
		v.Code, err = f.RSTCode()
	case h2ref.TypeSettings:
		v.Settings, err = f.Settings()
	case h2ref.TypePushPromise:
		v.ID, v.Body, _, err = f.PushPromise()
	case h2ref.TypePing:
		v.Ping, err = f.Ping()
	case h2ref.TypeGoAway:
		v.ID, v.Code, v.Body, err = f.GoAway()
	case h2ref.TypeWindowUpdate:
		v.Incr, err = f.WindowIncrement()
	case h2ref.TypeContinuation:
		v.Body = f.Payload
	case h2ref.TypePriorityUpdate:
		v.ID, v.Body, err = f.PriorityUpdate()
	default:
		v.Body = f.Payload
	}
	return v, err
}

// vfrmDiff returns "" when the two views agree, otherwise the name of the first differing
// field and a printable detail.
func vfrmDiff(got, want vfrmView) (field, detail string) {
	switch {
	case got.Kind != want.Kind:
		return "kind", fmt.Sprintf("got %s want %s", got.Kind, want.Kind)
	case got.Type != want.Type:
		return "type", fmt.Sprintf("got 0x%x want 0x%x", got.Type, want.Type)
	case got.Flags != want.Flags:
		return "flags", fmt.Sprintf("got 0x%x want 0x%x", got.Flags, want.Flags)
	case got.StreamID != want.StreamID:
		return "streamid", fmt.Sprintf("got %d want %d", got.StreamID, want.StreamID)
	case got.Length != want.Length:
		return "length", fmt.Sprintf("got %d want %d", got.Length, want.Length)
	case !bytes.Equal(got.Body, want.Body):
		return "body", fmt.Sprintf("got %d bytes %s want %d bytes %s", len(got.Body), vfrmHex(got.Body), len(want.Body), vfrmHex(want.Body))
	case got.HasPrio != want.HasPrio:
		return "haspriority", fmt.Sprintf("got %v want %v", got.HasPrio, want.HasPrio)
	case got.Prio != want.Prio:
		return "priority", fmt.Sprintf("got %+v want %+v", got.Prio, want.Prio)
	case got.ID != want.ID:
		return "id", fmt.Sprintf("got %d want %d", got.ID, want.ID)
	case got.Code != want.Code:
		return "code", fmt.Sprintf("got %d want %d", got.Code, want.Code)
	case got.Incr != want.Incr:
		return "increment", fmt.Sprintf("got %d want %d", got.Incr, want.Incr)
	case got.Ping != want.Ping:
		return "ping", fmt.Sprintf("got %x want %x", got.Ping, want.Ping)
	}
	if len(got.Settings) != len(want.Settings) {
		return "settings", fmt.Sprintf("got %d entries want %d", len(got.Settings), len(want.Settings))
	}
	for i := range got.Settings {
		if got.Settings[i] != want.Settings[i] {
			return "settings", fmt.Sprintf("entry %d got %+v want %+v", i, got.Settings[i], want.Settings[i])
		}
	}
	return "", ""
}

func vfrmHex(b []byte) string {
	if len(b) <= 48 {
		return fmt.Sprintf("%x", b)
	}
	return fmt.Sprintf("%x…%x", b[:24], b[len(b)-16:])
}

// vfrmFill returns n PRNG bytes.
func vfrmFill(rng *rand.Rand, n int) []byte {
	b := make([]byte, n)
	vfrmFillInto(rng, b)
	return b
}

func vfrmFillInto(rng *rand.Rand, b []byte) {
	n := len(b)
	i := 0
	for ; i+8 <= n; i += 8 {
		binary.LittleEndian.PutUint64(b[i:], rng.Uint64())
	}
	if i < n {
		var t [8]byte
		binary.LittleEndian.PutUint64(t[:], rng.Uint64())
		copy(b[i:], t[:])
	}
}

// vfrmStreamID draws a non-zero 31-bit stream id with the boundary values over-represented.
func vfrmStreamID(rng *rand.Rand) uint32 {
	switch rng.IntN(8) {
	case 0:
		return 1
	case 1:
		return 2
	case 2:
		return 3
	case 3:
		return 1<<31 - 1
	case 4:
		return 1<<31 - 2
	case 5:
		return 1 + rng.Uint32N(300)
	}
	return 1 + rng.Uint32N(1<<31-1)
}

// vfrmErrClass classifies an error returned by ReadFrame.
func vfrmErrClass(err error) string {
	switch e := err.(type) {
	case nil:
		return "nil"
	case StreamError:
		return fmt.Sprintf("stream(%d,%v)", e.StreamID, e.Code)
	case ConnectionError:
		return fmt.Sprintf("conn(%v)", ErrCode(e))
	case connError:
		return fmt.Sprintf("conn(%v)", e.Code)
	}
	return fmt.Sprintf("other(%v)", err)
}

// vfrmPrio draws a priority block with boundary dependencies and weights over-represented.
func vfrmPrio(rng *rand.Rand) h2ref.Priority {
	p := h2ref.Priority{Exclusive: rng.IntN(2) == 0, Weight: uint8(rng.Uint32())}
	switch rng.IntN(5) {
	case 0:
		p.StreamDep = 0
	case 1:
		p.StreamDep = 1<<31 - 1
	case 2:
		p.StreamDep = 1 + rng.Uint32N(10)
	default:
		p.StreamDep = rng.Uint32N(1 << 31)
	}
	switch rng.IntN(6) {
	case 0:
		p.Weight = 0
	case 1:
		p.Weight = 255
	}
	return p
}
