//go:build verif

package http2

// C17: the HTTP/2 client respects stream limits and stream-ID order.
//
// A real Transport (with its clientConnPool) sends 1..40 requests with PRNG arrival,
// completion, cancellation and reset order to scripted servers (one per dialed connection)
// that advertise SETTINGS_MAX_CONCURRENT_STREAMS in {1,2,5,100} and change it mid-flight
// (also below the current number of open streams).
// Oracles, per connection, from the server's side of the wire (independent frame reader):
//   - ids of stream-opening HEADERS are odd and strictly increasing;
//   - StrictMaxConcurrentStreams: before every stream-opening HEADERS the number of streams
//     open in the server's view (opened at HEADERS; closed when both END_STREAMs were seen, or
//     a RST_STREAM from either side) is below the limit, where the limit is the largest of the
//     last acknowledged value and all sent-but-unacknowledged values;
//   - without strict mode the statement only constrains the pool's choice ("a connection that
//     is at its limit is not chosen for new requests"), and the choice is made at some point
//     between the RoundTrip call and the HEADERS. The same count is therefore compared with
//     the largest limit that was in force on that connection at any time since the request
//     was started: only then is it certain that the connection was at its limit when it was
//     chosen. (A stream opened on a connection whose limit the server lowered after the
//     request was started is counted as an observation, not as a violation.)
//   - StrictMaxConcurrentStreams: the Transport never dials a second connection while the
//     first is usable, and at quiescence a request that has not reached the wire while the
//     connection has a free slot is a violation (extra requests wait, and start when a slot
//     frees);
//   - without strict mode, at quiescence a connection whose open-stream count has reached the
//     acknowledged limit must report CanTakeNewRequest()==false (that is what the pool asks).
//
// Failpoint transport.beforeWriteHeaders sleeps in virtual time between stream-id allocation
// and the HEADERS write.

import (
	"fmt"
	"hash/fnv"
	"net/http"
	"os"
	"runtime/debug"
	"strings"
	"testing"
	"testing/synctest"

	"golang.org/x/net/internal/verifrt"
	"golang.org/x/net/internal/verifrt/h2ref"
)

type vcliC17Params struct {
	Strict    bool  `json:"strict_max_concurrent_streams"`
	Limit     int   `json:"server_max_concurrent_streams"` // -1: not advertised
	Requests  int   `json:"requests"`
	Bodies    []int `json:"body_sizes"` // -1: GET
	DelayPct  int   `json:"failpoint_delay_pct"`
	Steps     int   `json:"scripted_steps"`
	HoldPings bool  `json:"server_delays_ping_acks"`
	Simple    bool  `json:"simple_queue_scenario,omitempty"` // strict, all requests at once, server completes streams one by one, nothing else
}

func TestVerif_C17(t *testing.T) {
	r := verifrt.Start(t, "C17")
	defer r.Finish()
	r.SetRule("one case = one Transport session: 1-40 requests (GET or small POST) through Transport.RoundTrip and its connection pool, strict or non-strict, server limit {unset,0(strict only),1,2,5,100} changed mid-flight by SETTINGS (lowered below the open count, raised), PRNG order of arrivals, server responses, server RST_STREAM, client cancellations (waiting and in flight, with the RST+PING slot accounting), delayed PING acks. non-trivial = session in which the limit was actually reached (a request was seen waiting at quiescence at a full connection, or a full connection forced a further dial); distinct by hash of parameters + per-connection sequence of opened stream ids and open counts")
	r.Assume("independent frame reader h2ref; open-stream accounting per RFC 9113 5.1/5.1.2 from the server's side; a SETTINGS change binds at the client's ACK, before that the largest candidate value is the limit")
	r.Assume("without StrictMaxConcurrentStreams the pool chooses the connection at some point between the RoundTrip call and the HEADERS frame; the count oracle then uses the largest limit in force on that connection during that interval")
	r.Assume("request-to-stream mapping decodes request header blocks with the repository's hpack decoder (bookkeeping only); ClientConn objects of pool-dialed connections are obtained through the transportTestHooks.newclientconn test hook")
	fpMissing := strings.Contains(os.Getenv("VERIF_FAILPOINT_MISSING"), "transport.beforeWriteHeaders")
	if fpMissing {
		r.Note("failpoint_missing: transport.beforeWriteHeaders anchor not found; running without the injected delay")
		r.SetExtra("failpoint_missing", true)
	}
	n := r.N(400, 3000)
	r.Cases("limits", n, func(c *verifrt.Case) {
		synctest.Test(t, func(t *testing.T) {
			defer func() {
				if e := recover(); e != nil {
					c.Violation("panic:"+vcliPanicKey17(e), "panic in session: %v\n%s", e, debug.Stack())
				}
			}()
			vcliC17Session(r, c, false)
		})
	})
	r.Cases("strict-queue", 12, func(c *verifrt.Case) {
		synctest.Test(t, func(t *testing.T) {
			defer func() {
				if e := recover(); e != nil {
					c.Violation("panic:"+vcliPanicKey17(e), "panic in session: %v\n%s", e, debug.Stack())
				}
			}()
			vcliC17Session(r, c, true)
		})
	})
	vcliC17ReservationCases(t, r, r.N(150, 1500))
	r.Require("reservation_headers_checked_against_limit", 300)
	r.Require("reservation_pool_choices_of_the_warm_connection_checked", 200)
	r.Require("reservation_requests_failed_after_stream_id_before_headers", 100)
	r.Require("streams_opened", 2000)
	r.Require("headers_checked_at_limit_minus_one", 200)
	r.Require("waiting_at_quiescence_conn_full", 100)
	r.Require("waiting_request_started_after_slot_freed", 100)
	r.Require("full_conn_refuses_new_request", 50)
	r.Require("nonstrict_headers_checked_against_limits_since_request_start", 500)
	r.Require("nonstrict_headers_checked_at_limit_minus_one", 50)
	r.Require("limit_lowered_below_open_count", 20)
	r.Require("client_rst_stream", 50)
	r.Require("sessions_completed", int64(n*9/10))
	if !fpMissing {
		r.Require("failpoint_sleeps", 100)
	}
}

func vcliPanicKey17(e any) string {
	s := fmt.Sprint(e)
	if i := strings.IndexAny(s, ":\n"); i > 0 && i < 60 {
		s = s[:i]
	} else if len(s) > 60 {
		s = s[:60]
	}
	return s
}

func vcliC17Session(r *verifrt.R, c *verifrt.Case, simple bool) {
	rng := c.Rng
	pick := func(xs ...int) int { return xs[rng.IntN(len(xs))] }
	p := vcliC17Params{}
	p.Simple = simple
	p.Strict = rng.IntN(2) == 0
	p.Limit = pick(-1, 1, 1, 2, 2, 5, 5, 100)
	if p.Strict && rng.IntN(12) == 0 {
		p.Limit = 0
	}
	p.Requests = 1 + rng.IntN(40)
	for i := 0; i < p.Requests; i++ {
		p.Bodies = append(p.Bodies, pick(-1, -1, -1, 0, 1, 300, 2000))
	}
	p.DelayPct = pick(0, 0, 30, 100)
	p.Steps = 20 + rng.IntN(200)
	p.HoldPings = rng.IntN(3) == 0
	if simple {
		// the smallest scenarios first: limit L, L+1 .. L+4 GET requests started together
		ls := []int{1, 2, 5}
		p.Strict, p.Limit, p.DelayPct, p.HoldPings, p.Steps = true, ls[c.Index%3], 0, false, 60
		p.Requests = p.Limit + 1 + (c.Index/3)%4
		p.Bodies = nil
		for i := 0; i < p.Requests; i++ {
			p.Bodies = append(p.Bodies, -1)
		}
	}
	c.Describe(p)

	tr := &Transport{StrictMaxConcurrentStreams: p.Strict}
	s := vcliNewSession(r, c, tr)
	s.CheckStreams = true
	// The per-HEADERS count oracle of the shared wire monitor (count < current limit) is what
	// the statement promises in strict mode. Without strict mode the statement speaks about
	// the pool's choice only; that variant of the oracle is in OnOpen below.
	s.Strict = p.Strict
	s.HookNewClientConn()
	s.Delay.only = "transport.beforeWriteHeaders"
	hook := s.Delay.Delay
	verifDelayHook.Store(&hook)
	defer verifDelayHook.Store(nil)
	s.Delay.pct.Store(int64(p.DelayPct))
	defer s.Teardown()

	sig := fnv.New64a()
	fmt.Fprintf(sig, "%+v", p)

	for i := 0; i < p.Requests; i++ {
		if p.Bodies[i] < 0 {
			// one bodiless request in four is a HEAD
			s.NewReq([]string{"GET", "GET", "GET", "HEAD"}[rng.IntN(4)], -1, false, 0, false, false)
		} else {
			rq := s.NewReq("POST", int64(p.Bodies[i]), rng.IntN(2) == 0, 0, rng.IntN(2) == 0, true)
			if rng.IntN(3) == 0 {
				// trailers that are announced and never given a value: nothing to send for them,
				// the request still has to be ended (END_STREAM) so that its stream can close
				rq.Req.Trailer = http.Header{"X-Unset-Trailer": nil}
				r.Event("uploads_with_declared_but_unset_trailers", 1)
			}
		}
	}
	reqOf := map[string]*vcliReq{}
	for _, rq := range s.Reqs {
		reqOf[rq.Tag] = rq
	}
	next := 0
	canceled := map[*vcliReq]bool{}
	// per-connection bookkeeping
	type connInfo struct {
		greeted   bool
		curLimit  int // last value sent
		wasFull   bool
		seenFull  bool
		dialedCnt int
	}
	info := map[*vcliSrvConn]*connInfo{}
	onWire := map[string]int{} // request tag -> number of streams that carried it
	// Non-strict mode: which limits were in force on each connection since a request started.
	// limSent: every MAX_CONCURRENT_STREAMS value sent on a connection, in order; reqSnap: per
	// request, per connection existing when it was started, the most permissive limit then
	// (acknowledged or in flight) and the length of limSent then. A connection that appears
	// later starts with no limit at all in the server's view.
	type limSnap struct {
		perm int64
		sent int
	}
	limSent := map[*vcliSrvConn][]int64{}
	reqSnap := map[string]map[*vcliSrvConn]limSnap{}
	sendLimit := func(sc *vcliSrvConn, v int) {
		limSent[sc] = append(limSent[sc], int64(v))
		sc.SendSettings(h2ref.Setting{ID: h2ref.SettingMaxConcurrentStreams, Val: uint32(v)})
	}
	waitingSeen := map[string]bool{}
	reachedLimit := false
	s.OnNewConn = func(sc *vcliSrvConn) {
		sc.HoldPings = p.HoldPings
		sc.OnOpen = func(st *vcliStream) { // runs on the harness goroutine (Pump)
			onWire[st.tag]++
			fmt.Fprintf(sig, "|c%d:s%d:o%d", sc.Idx, st.id, st.openCntAtOpen)
			if st.limitAtOpen != vcliUnlimited && int64(st.openCntAtOpen) == st.limitAtOpen-1 {
				r.Event("headers_checked_at_limit_minus_one", 1)
			}
			if waitingSeen[st.tag] {
				delete(waitingSeen, st.tag)
				r.Event("waiting_request_started_after_slot_freed", 1)
			}
			if !p.Strict {
				floor := int64(vcliUnlimited)
				if sn, ok := reqSnap[st.tag][sc]; ok {
					floor = sn.perm
					for _, v := range limSent[sc][sn.sent:] {
						floor = max(floor, v)
					}
				}
				switch {
				case int64(st.openCntAtOpen) >= floor:
					sc.viol("nonstrict-conn-at-limit-got-new-stream",
						"non-strict mode: HEADERS for stream %d (request %s) while %d streams are open in the server's view; MAX_CONCURRENT_STREAMS has not been above %s on this connection at any time since the request was started (now: %s), so the connection was at its limit when it was chosen for the request",
						st.id, st.tag, st.openCntAtOpen, vcliLim(floor), vcliLim(st.limitAtOpen))
				case int64(st.openCntAtOpen) >= st.limitAtOpen:
					// chosen under an earlier, higher limit (the statement does not exclude that)
					r.Event("observation_nonstrict_stream_opened_after_limit_was_lowered", 1)
				case floor == vcliUnlimited:
					// the connection had no limit at some time since the request started (e.g. it
					// was dialed for this request): nothing can be concluded
					r.Event("nonstrict_headers_without_limit_since_request_start", 1)
				default:
					r.Event("nonstrict_headers_checked_against_limits_since_request_start", 1)
					if int64(st.openCntAtOpen) == floor-1 {
						r.Event("nonstrict_headers_checked_at_limit_minus_one", 1)
					}
				}
			}
		}
	}
	startOne := func() {
		if next < len(s.Reqs) {
			rq := s.Reqs[next]
			snap := map[*vcliSrvConn]limSnap{}
			for _, sc := range s.Conns() {
				snap[sc] = limSnap{perm: sc.Sh.permMaxStreams(), sent: len(limSent[sc])}
			}
			reqSnap[rq.Tag] = snap
			s.Start(rq, func(req *http.Request) (*http.Response, error) { return tr.RoundTrip(req) })
			next++
		}
	}
	greet := func() {
		for _, sc := range s.Conns() {
			ci := info[sc]
			if ci == nil {
				ci = &connInfo{curLimit: -1}
				info[sc] = ci
			}
			if !ci.greeted {
				ci.greeted = true
				if p.Limit >= 0 {
					ci.curLimit = p.Limit
					sendLimit(sc, p.Limit)
				} else {
					sc.SendSettings()
				}
			}
		}
	}
	live := func() []*vcliSrvConn {
		var out []*vcliSrvConn
		for _, sc := range s.Conns() {
			if !sc.Dead && !sc.closedBySrv {
				out = append(out, sc)
			}
		}
		return out
	}
	openStreams := func(sc *vcliSrvConn, needCliEnded bool) []*vcliStream {
		var out []*vcliStream
		for _, st := range sc.Sh.order {
			if st.hdrDone && !st.closed && !st.respSent && (!needCliEnded || st.cliEnded) {
				out = append(out, st)
			}
		}
		return out
	}
	waiting := func() []*vcliReq {
		var out []*vcliReq
		for _, rq := range s.Reqs {
			if rq.Started && !rq.Finished() && onWire[rq.Tag] == 0 && !canceled[rq] {
				out = append(out, rq)
			}
		}
		return out
	}

	// responses whose HEADERS went out without END_STREAM; the stream stays open in the server's
	// view (and has to in the client's, also for a HEAD request) until an empty DATA frame ends it
	type halfDone struct {
		sc *vcliSrvConn
		st *vcliStream
	}
	var pendingEnd []halfDone
	complete := func(sc *vcliSrvConn, st *vcliStream) {
		if !p.Simple && rng.IntN(3) == 0 {
			sc.SendResponse(st.id, 200, 0, false)
			pendingEnd = append(pendingEnd, halfDone{sc, st})
			r.Event("responses_whose_headers_do_not_end_the_stream", 1)
			return
		}
		sc.SendResponse(st.id, 200, pick(0, 0, 5), true)
	}
	finishOne := func(all bool) {
		for len(pendingEnd) > 0 {
			i := rng.IntN(len(pendingEnd))
			hd := pendingEnd[i]
			pendingEnd = append(pendingEnd[:i], pendingEnd[i+1:]...)
			if !hd.sc.Dead && !hd.sc.closedBySrv && !hd.st.closed {
				hd.sc.send(h2ref.AppendData(nil, hd.st.id, true, nil, -1))
				r.Event("streams_ended_by_a_later_empty_data_frame", 1)
			}
			if !all {
				return
			}
		}
	}
	noted := false
	var nudge []*vcliSrvConn
	quiescentChecks := func() {
		conns := live()
		if p.Strict && int(s.dials.Load()) > 1 {
			s.Viol("strict-mode-dialed-second-connection", "StrictMaxConcurrentStreams is set and the first connection is usable, yet the Transport dialed %d connections", s.dials.Load())
		}
		for _, sc := range conns {
			sh := &sc.Sh
			if len(sh.pending) > 0 || len(sh.pingsOwed) > 0 || sc.NC.s2cPending() > 0 || !sc.prefaceSeen {
				r.Event("quiescence_check_skipped", 1)
				continue
			}
			r.Event("quiescence_checks", 1)
			// a request whose whole body is on the wire has been ended by the client: otherwise its
			// stream stays open for the server and keeps counting against the limit it advertised
			if s.Delay.sleepers.Load() == 0 {
				for _, st := range sh.order {
					rq := reqOf[st.tag]
					if rq == nil || rq.BodyLen < 0 || !st.hdrDone || st.closed || st.cliReset || st.srvReset || canceled[rq] {
						continue
					}
					if st.dataBytes == rq.BodyLen && !st.cliEnded {
						sc.viol("request-not-ended-after-its-whole-body", "at quiescence stream %d (request %s) has all %d body bytes on the wire and the client has not sent END_STREAM: the stream stays open in the server's view (open streams there: %d)", st.id, st.tag, rq.BodyLen, sh.openCount)
					} else if st.cliEnded && rq.BodyLen > 0 {
						r.Event("uploads_seen_ended_at_quiescence", 1)
					}
				}
			}
			full := sh.maxStreams != vcliUnlimited && int64(sh.openCount) >= sh.maxStreams
			w := waiting()
			if p.Strict {
				if len(w) > 0 {
					if full {
						reachedLimit = true
						r.Event("waiting_at_quiescence_conn_full", int64(len(w)))
						for _, rq := range w {
							waitingSeen[rq.Tag] = true
						}
					} else if sh.lastCloseSeq > sh.lastRaiseAckSeq {
						// a stream was closed after the limit last went up: that is "a slot frees"
						key := "waiting-request-not-started-although-slot-freed"
						if cc := sc.ClientConn(); cc != nil {
							// white-box, only to tell causes apart (narrow key): is the head of the
							// queue held back by the reservations of the requests queued behind it?
							cc.mu.Lock()
							streams, reserved, resets, max := len(cc.streams), cc.streamsReserved, cc.pendingResets, int(cc.maxConcurrentStreams)
							cc.mu.Unlock()
							if reserved > 0 && streams+resets < max && streams+reserved+resets >= max {
								key = "waiting-request-blocked-by-reservations-of-queued-requests"
							}
						}
						sc.viol(key,
							"strict mode, at quiescence: %d request(s) (first: %s) have not reached the wire although a stream has been closed since the limit was last raised, only %d streams are open in the server's view and the acknowledged limit is %s",
							len(w), w[0].Tag, sh.openCount, vcliLim(sh.maxStreams))
					} else {
						// Free slots exist only because SETTINGS raised the limit and nothing else has
						// happened since. The property statement does not promise that waiters start
						// then, so this is recorded as an observation, not as a violation.
						r.Event("observation_waiters_not_woken_by_limit_raise", 1)
						if !noted && r.EventCount("observation_waiters_not_woken_by_limit_raise") <= 3 {
							noted = true
							r.Note("observation (not a C17 violation): %s/%d strict mode, %d request(s) still blocked at quiescence after a SETTINGS frame raised MAX_CONCURRENT_STREAMS to %s with %d streams open; processSettingsNoWrite does not Broadcast for SettingMaxConcurrentStreams, waiters start only at the next unrelated Broadcast", c.Stream, c.Index, len(w), vcliLim(sh.maxStreams), sh.openCount)
						}
						nudge = append(nudge, sc)
					}
				}
			} else if cc := sc.ClientConn(); cc != nil && full {
				if cc.CanTakeNewRequest() {
					sc.viol("full-conn-offered-for-new-request",
						"non-strict mode, at quiescence: %d streams open in the server's view, acknowledged limit %s, yet ClientConn.CanTakeNewRequest() reports true", sh.openCount, vcliLim(sh.maxStreams))
				} else {
					r.Event("full_conn_refuses_new_request", 1)
				}
			}
		}
		if !p.Strict && len(conns) > 1 {
			reachedLimit = true
		}
	}

	completed := false
	for step := 0; step < 4000; step++ {
		drain := step >= p.Steps
		settled := false
		if drain || rng.IntN(3) == 0 {
			s.Settle()
			settled = true
		} else {
			s.Pump()
		}
		greet()
		if settled {
			// new connections may just have been greeted: their SETTINGS are unacknowledged,
			// the checks skip them
			quiescentChecks()
		}
		if next == len(s.Reqs) && s.AllFinished() {
			completed = true
			break
		}
		conns := live()
		if drain {
			startOne()
			for _, sc := range nudge {
				// a connection-level WINDOW_UPDATE makes the client re-examine its waiters
				sc.SendWindowUpdate(0, 1)
				r.Event("drain_nudges", 1)
			}
			nudge = nil
			for _, sc := range conns {
				sc.HoldPings = false
				sc.AnswerPings()
				if step > p.Steps+5 && rng.IntN(3) == 0 {
					// Requests blocked in awaitOpenSlotForStreamLocked are not woken by a SETTINGS
					// frame that raises the limit (see the observation above); any frame that makes
					// the client Broadcast lets the session finish.
					sc.SendWindowUpdate(0, 1)
				}
				ci := info[sc]
				if ci != nil && ci.curLimit >= 0 && ci.curLimit < 100 && rng.IntN(4) == 0 {
					ci.curLimit = 100
					sendLimit(sc, 100)
				}
				for _, st := range openStreams(sc, true) {
					if rng.IntN(2) == 0 {
						complete(sc, st)
					}
				}
			}
			finishOne(true)
			// a drained session may need virtual time for the pool's retry back-off
			if step > p.Steps+20 {
				synctest.Wait()
				vcliSleepVirtual(1500)
			}
			continue
		}
		if len(conns) == 0 {
			startOne()
			continue
		}
		sc := conns[rng.IntN(len(conns))]
		if p.Simple {
			if sc.Sh.acks < 1 {
				continue // first request dialed the connection; wait until the limit is acknowledged
			}
			if next < len(s.Reqs) {
				for next < len(s.Reqs) {
					startOne()
				}
			} else if os := openStreams(sc, true); len(os) > 0 {
				sc.SendResponse(os[0].id, 200, 0, true)
				r.Event("streams_completed_by_server", 1)
			}
			continue
		}
		switch a := rng.IntN(20); {
		case a < 7:
			startOne()
		case a < 11: // complete a stream
			if len(pendingEnd) > 0 && rng.IntN(2) == 0 {
				finishOne(false)
			} else if os := openStreams(sc, true); len(os) > 0 {
				st := os[rng.IntN(len(os))]
				complete(sc, st)
				r.Event("streams_completed_by_server", 1)
			}
		case a < 13: // cancel a request: waiting or in flight
			var cands []*vcliReq
			for _, rq := range s.Reqs {
				if rq.Started && !rq.Finished() && !canceled[rq] {
					cands = append(cands, rq)
				}
			}
			if len(cands) > 0 {
				rq := cands[rng.IntN(len(cands))]
				canceled[rq] = true
				rq.Cancel()
				if onWire[rq.Tag] == 0 {
					r.Event("cancel_while_waiting", 1)
				} else {
					r.Event("cancel_in_flight", 1)
				}
			}
		case a < 15: // change the limit
			ci := info[sc]
			nl := pick(1, 1, 2, 2, 5, 100)
			if p.Strict && rng.IntN(10) == 0 {
				nl = 0
			}
			if !p.Strict && nl < 1 {
				nl = 1
			}
			ci.curLimit = nl
			if s.Delay.sleepers.Load() > 0 {
				r.Event("settings_sent_while_headers_delayed", 1)
			}
			sendLimit(sc, nl)
			r.Event("limit_changes_sent", 1)
		case a == 15: // server resets a stream
			if os := openStreams(sc, false); len(os) > 0 {
				st := os[rng.IntN(len(os))]
				sc.SendRST(st.id, uint32(pick(int(h2ref.ErrCancel), int(h2ref.ErrInternal), int(h2ref.ErrRefusedStream))))
				st.respSent = true
				r.Event("server_rst_stream", 1)
			}
		case a == 16 && rng.IntN(2) == 0:
			// a SETTINGS frame that does not mention MAX_CONCURRENT_STREAMS (empty, or other
			// parameters only): the limit sent earlier stays in force (RFC 9113 6.5: each
			// parameter keeps its value until it is changed)
			switch rng.IntN(3) {
			case 0:
				sc.SendSettings()
			case 1:
				sc.SendSettings(h2ref.Setting{ID: h2ref.SettingInitialWindowSize, Val: uint32(pick(65535, 100000, 1<<20))})
			default:
				sc.SendSettings(h2ref.Setting{ID: h2ref.SettingMaxFrameSize, Val: uint32(pick(16384, 65536))}, h2ref.Setting{ID: h2ref.SettingInitialWindowSize, Val: 70000})
			}
			r.Event("settings_without_stream_limit_sent", 1)
		case a == 16: // answer delayed pings now / toggle
			sc.AnswerPings()
		case a == 17:
			sc.SendPing(false, [8]byte{9, 9, 9, 9, 9, 9, 9, byte(step)})
		default:
		}
	}

	r.Event("sessions", 1)
	r.Event("failpoint_hits", s.Delay.hits.Load())
	r.Event("failpoint_sleeps", s.Delay.slept.Load())
	r.Event("dials", s.dials.Load())
	if completed {
		r.Event("sessions_completed", 1)
	} else {
		r.Event("sessions_incomplete", 1)
		tr := ""
		if cs := s.Conns(); len(cs) > 0 {
			tr = cs[0].Trace()
		}
		r.Note("session %s/%d did not complete within the step bound (strict=%v); conn 0 last frames:\n%s", c.Stream, c.Index, p.Strict, tr)
	}
	for _, rq := range s.Reqs {
		if rq.Started && rq.Finished() {
			if rq.Err == nil {
				r.Event("requests_ok", 1)
			} else {
				r.Event("requests_failed", 1)
			}
		}
	}
	r.EvalHash(reachedLimit, sig.Sum64())
	if reachedLimit {
		var ids [][]uint32
		for _, sc := range s.Conns() {
			var l []uint32
			for _, st := range sc.Sh.order {
				l = append(l, st.id)
			}
			ids = append(ids, l)
		}
		r.Sample(map[string]any{"params": p, "connections": len(s.Conns()), "stream_ids_per_connection": ids, "max_open_streams_seen": s.maxOpen.Load()})
	}
}
