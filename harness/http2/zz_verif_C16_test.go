//go:build verif

package http2

// C16: the HTTP/2 server survives any client byte stream: no panic, no wedged connection
// goroutine, the connection either keeps serving or is ended within bounded (virtual) time,
// queued control frames and running handlers stay bounded.
// WIRE + white-box sampling on the serve goroutine; shared harness in
// zz_verif_util_srvwire_test.go.

import (
	"bytes"
	"encoding/binary"
	"fmt"
	"hash/fnv"
	"io"
	"math/rand/v2"
	"net/http"
	"os"
	"sync"
	"testing"
	"testing/synctest"
	"time"

	"golang.org/x/net/internal/verifrt"
	"golang.org/x/net/internal/verifrt/h2ref"
)

type vsrvC16Desc struct {
	Kind     string   `json:"kind"`
	Adv      uint32   `json:"max_concurrent_streams"`
	Cap      int      `json:"server_to_client_pipe_capacity"`
	InputLen int      `json:"input_bytes"`
	InputHex string   `json:"input_hex_prefix"`
	Notes    []string `json:"notes"`
	Outcome  string   `json:"outcome"`
}

// handler used by C16: behaviour chosen by the stream id, never waits for the script.
func vsrvC16Handler(s *vsrvSession, w http.ResponseWriter, r *http.Request) {
	var id uint32
	if rw, ok := w.(*responseWriter); ok && rw.rws != nil && rw.rws.stream != nil {
		id = rw.rws.stream.id
	}
	if id%14 == 13 {
		// holds its handler slot for 1.5 virtual seconds whatever happens to the stream
		// (a handler is not obliged to watch its context): after a client reset the stream
		// slot is free again while the handler slot is not
		// (staggered by id, so that the sleepers do not all finish at the same virtual instant)
		time.Sleep(time.Duration(1000+(id/14)%40*25) * time.Millisecond)
		w.WriteHeader(204)
		return
	}
	switch (id / 2) % 6 {
	case 0:
		w.Write(vsrvBody[:100])
	case 1:
		io.Copy(io.Discard, r.Body)
		w.Write(vsrvBody[:3000])
	case 2:
		w.Write(vsrvBody[:100000]) // blocks on flow control once the client's window is used up
	case 3:
		<-r.Context().Done() // holds its slot until the stream or connection goes away
	case 4:
		w.WriteHeader(204)
	case 5:
		w.(http.Flusher).Flush()
		buf := make([]byte, 512)
		r.Body.Read(buf)
		w.Write(vsrvBody[:10])
	}
}

// --- input generators ---------------------------------------------------------------------

func vsrvRandBytes(rng *rand.Rand, n int) []byte {
	b := make([]byte, n)
	for i := range b {
		b[i] = byte(rng.Uint32())
	}
	return b
}

func vsrvC16Request(rng *rand.Rand, id uint32) (block []byte, hasBody bool) {
	hasBody = rng.IntN(3) == 0
	f := vsrvGetFields(fmt.Sprintf("/c16/%d", id))
	if hasBody {
		f[0].Value = "POST"
	}
	for i, n := 0, rng.IntN(4); i < n; i++ {
		f = append(f, vsrvField{fmt.Sprintf("x-h%d", i), string(bytes.Repeat([]byte{'v'}, rng.IntN(200)))})
	}
	if rng.IntN(6) == 0 {
		f = append(f, vsrvField{"priority", "u=1, i"})
	}
	return vsrvEncodeFields(f), hasBody
}

// vsrvC16ValidFrames builds an open-loop but protocol-valid client session (without the
// preface), one element per frame.
func vsrvC16ValidFrames(rng *rand.Rand) [][]byte {
	var fs [][]byte
	add := func(b []byte) { fs = append(fs, b) }
	var ss []h2ref.Setting
	if rng.IntN(2) == 0 {
		ss = append(ss, h2ref.Setting{ID: h2ref.SettingInitialWindowSize, Val: uint32(vsrvPick(rng, 0, 100, 65535, 1<<20))})
	}
	if rng.IntN(3) == 0 {
		ss = append(ss, h2ref.Setting{ID: h2ref.SettingMaxFrameSize, Val: uint32(vsrvPick(rng, 16384, 1<<20))})
	}
	if rng.IntN(3) == 0 {
		ss = append(ss, h2ref.Setting{ID: h2ref.SettingHeaderTableSize, Val: uint32(vsrvPick(rng, 0, 4096, 100))})
	}
	add(h2ref.AppendSettings(nil, ss...))
	add(h2ref.AppendSettingsAck(nil))
	id := uint32(1)
	var open []uint32
	sentBody := 0
	for i, n := 0, 2+rng.IntN(12); i < n; i++ {
		switch rng.IntN(11) {
		case 10: // SETTINGS in mid-session: windows of open streams shrink (below zero as well) and grow
			var ss []h2ref.Setting
			for j, m := 0, 1+rng.IntN(2); j < m; j++ {
				switch rng.IntN(4) {
				case 0, 1:
					ss = append(ss, h2ref.Setting{ID: h2ref.SettingInitialWindowSize, Val: uint32(vsrvPick(rng, 0, 1, 100, 1000, 65535, 1<<20, 1<<31-1))})
				case 2:
					ss = append(ss, h2ref.Setting{ID: h2ref.SettingMaxFrameSize, Val: uint32(vsrvPick(rng, 16384, 16385, 1<<20, 1<<24-1))})
				case 3:
					ss = append(ss, h2ref.Setting{ID: h2ref.SettingHeaderTableSize, Val: uint32(vsrvPick(rng, 0, 100, 4096, 65536))})
				}
			}
			add(h2ref.AppendSettings(nil, ss...))
		case 0, 1, 2, 3:
			block, hasBody := vsrvC16Request(rng, id)
			pad := -1
			if rng.IntN(5) == 0 {
				pad = rng.IntN(20)
			}
			var prio *h2ref.Priority
			if rng.IntN(5) == 0 {
				prio = &h2ref.Priority{StreamDep: uint32(rng.IntN(int(id))), Weight: uint8(rng.Uint32()), Exclusive: rng.IntN(2) == 0}
				if prio.StreamDep == id {
					prio.StreamDep = 0
				}
			}
			if rng.IntN(4) == 0 && len(block) > 4 { // split into HEADERS + CONTINUATIONs
				cut := 1 + rng.IntN(len(block)-1)
				add(h2ref.AppendHeaders(nil, id, !hasBody, false, block[:cut], prio, pad))
				rest := block[cut:]
				for len(rest) > 0 {
					k := 1 + rng.IntN(len(rest))
					add(h2ref.AppendContinuation(nil, id, k == len(rest), rest[:k]))
					rest = rest[k:]
				}
			} else {
				add(h2ref.AppendHeaders(nil, id, !hasBody, true, block, prio, pad))
			}
			if hasBody {
				for j, m := 0, rng.IntN(4); j < m && sentBody < 30000; j++ {
					n := rng.IntN(3000)
					sentBody += n + 256
					pad := -1
					if rng.IntN(4) == 0 {
						pad = rng.IntN(256)
					}
					add(h2ref.AppendData(nil, id, false, vsrvBody[:n], pad))
				}
				if rng.IntN(4) != 0 {
					add(h2ref.AppendData(nil, id, true, nil, -1))
				}
			}
			open = append(open, id)
			id += 2
		case 4:
			var p [8]byte
			copy(p[:], vsrvRandBytes(rng, 8))
			add(h2ref.AppendPing(nil, false, p))
		case 5:
			sid := uint32(0)
			if len(open) > 0 && rng.IntN(2) == 0 {
				sid = open[rng.IntN(len(open))]
			}
			add(h2ref.AppendWindowUpdate(nil, sid, uint32(1+rng.IntN(1<<20))))
		case 6:
			if len(open) > 0 {
				add(h2ref.AppendRSTStream(nil, open[rng.IntN(len(open))], uint32(rng.IntN(14))))
			}
		case 7:
			add(h2ref.AppendPriority(nil, id+uint32(2*rng.IntN(3)), h2ref.Priority{StreamDep: uint32(rng.IntN(20)) * 2, Weight: uint8(rng.Uint32())}))
		case 8:
			add(h2ref.AppendPriorityUpdate(nil, id+uint32(2*rng.IntN(3)), vsrvPick(rng, "u=0", "u=7, i", "i", "")))
		case 9:
			add(h2ref.AppendFrame(nil, h2ref.Frame{Type: uint8(0x20 + rng.IntN(200)), Flags: uint8(rng.Uint32()), StreamID: uint32(rng.IntN(10)), Payload: vsrvRandBytes(rng, rng.IntN(50))}))
		}
	}
	if rng.IntN(6) == 0 {
		add(h2ref.AppendGoAway(nil, 0, uint32(rng.IntN(3)), nil))
	}
	return fs
}

// vsrvC16Mutate damages a valid frame list.
func vsrvC16Mutate(rng *rand.Rand, fs [][]byte, notes *[]string) []byte {
	note := func(f string, a ...any) { *notes = append(*notes, fmt.Sprintf(f, a...)) }
	for k, n := 0, 1+rng.IntN(3); k < n && len(fs) > 0; k++ {
		i := rng.IntN(len(fs))
		switch rng.IntN(9) {
		case 0: // bit flips
			f := append([]byte(nil), fs[i]...)
			for j, m := 0, 1+rng.IntN(4); j < m; j++ {
				p := rng.IntN(len(f))
				f[p] ^= 1 << rng.IntN(8)
			}
			fs[i] = f
			note("bitflip frame %d", i)
		case 1: // length lie
			f := append([]byte(nil), fs[i]...)
			l := int(f[0])<<16 | int(f[1])<<8 | int(f[2])
			l += vsrvPick(rng, -1, 1, 2, -2, 7, 100, 1<<14, rng.IntN(1<<24))
			if l < 0 {
				l = 0
			}
			f[0], f[1], f[2] = byte(l>>16), byte(l>>8), byte(l)
			fs[i] = f
			note("length lie frame %d -> %d", i, l)
		case 2: // swap
			j := rng.IntN(len(fs))
			fs[i], fs[j] = fs[j], fs[i]
			note("swap %d %d", i, j)
		case 3: // duplicate
			fs = append(fs[:i+1], append([][]byte{fs[i]}, fs[i+1:]...)...)
			note("dup %d", i)
		case 4: // delete
			fs = append(fs[:i], fs[i+1:]...)
			note("delete %d", i)
		case 5: // change type
			f := append([]byte(nil), fs[i]...)
			f[3] = byte(rng.IntN(12))
			fs[i] = f
			note("retype frame %d -> %d", i, f[3])
		case 6: // change stream id
			f := append([]byte(nil), fs[i]...)
			binary.BigEndian.PutUint32(f[5:], vsrvPick(rng, 0, 1, 2, 3, 1<<31-1, 1<<31, rng.Uint32()))
			fs[i] = f
			note("restream frame %d", i)
		case 7: // flags
			f := append([]byte(nil), fs[i]...)
			f[4] = byte(rng.Uint32())
			fs[i] = f
			note("reflag frame %d -> 0x%x", i, f[4])
		case 8: // random payload of the same length
			f := append([]byte(nil), fs[i]...)
			copy(f[9:], vsrvRandBytes(rng, len(f)-9))
			fs[i] = f
			note("scramble payload of frame %d", i)
		}
	}
	out := bytes.Join(fs, nil)
	if rng.IntN(4) == 0 && len(out) > 0 {
		cut := rng.IntN(len(out))
		out = out[:cut]
		note("truncate at %d", cut)
	}
	return out
}

// vsrvC16Flood builds a flood of n frames of one kind after a valid opening.
func vsrvC16Flood(rng *rand.Rand, kind string, n int, adv uint32) []byte {
	out := h2ref.AppendSettings(nil)
	out = h2ref.AppendSettingsAck(out)
	get := func(id uint32, end bool) []byte {
		return h2ref.AppendHeaders(nil, id, end, true, vsrvEncodeFields(vsrvGetFields("/flood")), nil, -1)
	}
	switch kind {
	case "ping":
		for i := 0; i < n; i++ {
			var p [8]byte
			binary.BigEndian.PutUint64(p[:], uint64(i))
			out = h2ref.AppendPing(out, false, p)
		}
	case "settings":
		for i := 0; i < n; i++ {
			out = h2ref.AppendSettings(out, h2ref.Setting{ID: h2ref.SettingInitialWindowSize, Val: uint32(i % 70000)})
		}
	case "rst-fresh": // rapid reset
		for i := 0; i < n; i++ {
			id := uint32(1 + 2*i)
			out = append(out, get(id, true)...)
			out = h2ref.AppendRSTStream(out, id, h2ref.ErrCancel)
		}
	case "empty-continuation":
		out = h2ref.AppendHeaders(out, 1, true, false, vsrvEncodeFields(vsrvGetFields("/flood")), nil, -1)
		for i := 0; i < n; i++ {
			out = h2ref.AppendContinuation(out, 1, false, nil)
		}
	case "empty-data":
		f := vsrvGetFields("/flood")
		f[0].Value = "POST"
		out = h2ref.AppendHeaders(out, 3, false, true, vsrvEncodeFields(f), nil, -1) // id 3: handler reads the body
		for i := 0; i < n; i++ {
			out = h2ref.AppendData(out, 3, false, nil, -1)
		}
	case "window-update":
		out = append(out, get(1, true)...)
		for i := 0; i < n; i++ {
			out = h2ref.AppendWindowUpdate(out, uint32(rng.IntN(2)), uint32(1+rng.IntN(3)))
		}
	case "zero-window-update": // each one earns a RST_STREAM
		out = append(out, get(7, true)...) // id 7: handler parks
		for i := 0; i < n; i++ {
			out = h2ref.AppendWindowUpdate(out, 7, 0)
		}
	case "data-on-closed": // each one earns RST_STREAM (+ WINDOW_UPDATE)
		out = append(out, get(1, true)...)
		for i := 0; i < n; i++ {
			out = h2ref.AppendData(out, 1, false, vsrvBody[:rng.IntN(3)], -1)
		}
	case "malformed-headers": // each one earns a RST_STREAM
		for i := 0; i < n; i++ {
			out = h2ref.AppendHeaders(out, uint32(1+2*i), true, true, vsrvEncodeFields(vsrvGetFields("/flood", vsrvField{"Bad", "x"})), nil, -1)
		}
	case "priority":
		for i := 0; i < n; i++ {
			out = h2ref.AppendPriority(out, uint32(1+2*rng.IntN(1000)), h2ref.Priority{StreamDep: uint32(rng.IntN(2000)), Weight: uint8(i)})
		}
	case "unknown-type":
		for i := 0; i < n; i++ {
			out = h2ref.AppendFrame(out, h2ref.Frame{Type: 0x77, StreamID: uint32(rng.IntN(5)), Payload: vsrvRandBytes(rng, rng.IntN(20))})
		}
	case "reset-then-open":
		// Fill every handler slot with handlers of streams the client resets at once (they
		// sleep on regardless), then open streams that stay open: their handlers must wait
		// for a slot, and when the sleepers finish only as many may start as slots are free.
		id := uint32(13)
		for round, rounds := 0, 1+rng.IntN(3); round < rounds; round++ {
			for i := uint32(0); i < adv; i++ {
				out = append(out, get(id, true)...)
				out = h2ref.AppendRSTStream(out, id, h2ref.ErrCancel)
				id += 14
			}
			// more sleepers, left open: they wait for a handler slot
			for i, m := uint32(0), 1+uint32(rng.IntN(int(min(adv, 8))+1)); i < m && i < adv; i++ {
				out = append(out, get(id, true)...)
				id += 14
			}
			out = h2ref.AppendPing(out, false, [8]byte{byte(round)})
		}
	case "over-limit-opens": // streams beyond MAX_CONCURRENT_STREAMS: each refused with RST_STREAM
		for i := 0; i < n; i++ {
			out = append(out, get(uint32(7+12*i), true)...) // ids ≡ 7 mod 12 → (id/2)%6 == 3: parking handler
		}
	}
	return out
}

var vsrvC16FloodKinds = []string{"ping", "settings", "rst-fresh", "empty-continuation", "empty-data", "window-update",
	"zero-window-update", "data-on-closed", "malformed-headers", "priority", "unknown-type", "over-limit-opens", "reset-then-open"}

var (
	vsrvC16MaxMu     sync.Mutex
	vsrvC16MaxQueued int
)

// --- white-box sampling -------------------------------------------------------------------

type vsrvServeSample struct {
	queuedControl, curHandlers, unstarted int
	adv                                   uint32
}

// sampleServe runs on the serve goroutine (through serveMsgCh) and returns its bookkeeping.
// state: "gone" (serve loop ended), "ok", "stuck" (loop alive but not taking messages at
// quiescence).
func (s *vsrvSession) sampleServe() (vsrvServeSample, string) {
	sc := s.sc
	select {
	case <-sc.doneServing:
		return vsrvServeSample{}, "gone"
	default:
	}
	ch := make(chan vsrvServeSample, 1)
	msg := func(sc *serverConn) {
		ch <- vsrvServeSample{sc.queuedControlFrames, int(sc.curHandlers), len(sc.unstartedHandlers), sc.advMaxStreams}
	}
	select {
	case sc.serveMsgCh <- msg:
	default:
		select {
		case <-sc.doneServing:
			return vsrvServeSample{}, "gone"
		default:
		}
		return vsrvServeSample{}, "stuck"
	}
	synctest.Wait()
	select {
	case v := <-ch:
		return v, "ok"
	default:
	}
	select {
	case <-sc.doneServing:
		return vsrvServeSample{}, "gone"
	default:
	}
	return vsrvServeSample{}, "stuck"
}

func (s *vsrvSession) c16Sample(d *vsrvC16Desc) {
	s.mu.Lock()
	prefaceDone := s.cPrefaceLeft == 0 && !s.cGarbage && len(s.c2s) == 0
	s.mu.Unlock()
	if !prefaceDone {
		return // the serve loop proper has not started (still waiting for the preface)
	}
	v, state := s.sampleServe()
	s.mu.Lock()
	defer s.mu.Unlock()
	switch state {
	case "gone":
		return
	case "stuck":
		s.viol(vsrvGrpSurvive, "serve-loop-not-responding", "at a quiescent point the connection goroutine is alive (doneServing open) but does not take messages from serveMsgCh")
		return
	}
	s.ev["serve_loop_samples"]++
	if v.queuedControl > s.maxQueuedSeen {
		s.maxQueuedSeen = v.queuedControl
	}
	if v.queuedControl > maxQueuedControlFrames {
		s.viol(vsrvGrpSurvive, "queued-control-frames-unbounded", "serve loop still running with queuedControlFrames=%d > maxQueuedControlFrames=%d", v.queuedControl, maxQueuedControlFrames)
	}
	if v.curHandlers > int(v.adv) {
		s.viol(vsrvGrpSurvive, "handlers-unbounded", "curHandlers=%d > advertised MAX_CONCURRENT_STREAMS=%d", v.curHandlers, v.adv)
	}
	if v.unstarted > 4*int(v.adv)+1 {
		s.viol(vsrvGrpSurvive, "unstarted-handlers-unbounded", "len(unstartedHandlers)=%d > 4*%d+1", v.unstarted, v.adv)
	}
	if int64(s.hRunning) > int64(v.adv) {
		s.viol(vsrvGrpSurvive, "handlers-unbounded", "%d user handlers running > advertised MAX_CONCURRENT_STREAMS=%d", s.hRunning, v.adv)
	}
}

// --- the session ---------------------------------------------------------------------------

func vsrvC16Feed(s *vsrvSession, rng *rand.Rand, d *vsrvC16Desc, input []byte, bulk, paced bool) {
	if paced {
		// one frame at a time, the server settled after each (handlers have run as far as they
		// can - into flow control, say - before the next frame arrives)
		if len(input) >= len(h2ref.ClientPreface) && string(input[:len(h2ref.ClientPreface)]) == h2ref.ClientPreface {
			s.cliWrite(input[:len(h2ref.ClientPreface)])
			input = input[len(h2ref.ClientPreface):]
		}
		for len(input) > 0 && !s.c16Closed() {
			n := len(input)
			if n >= h2ref.HeaderLen {
				if l := h2ref.HeaderLen + int(h2ref.ParseHeader(input[:h2ref.HeaderLen]).Length); l < n {
					n = l
				}
			}
			s.cliWrite(input[:n])
			input = input[n:]
			s.settle()
		}
		return
	}
	for len(input) > 0 {
		s.mu.Lock()
		gone := s.srvClosed
		s.mu.Unlock()
		if gone {
			return
		}
		var n int
		switch {
		case bulk:
			n = 1 + rng.IntN(1<<16)
		case rng.IntN(3) == 0:
			n = 1 + rng.IntN(5)
		case rng.IntN(2) == 0:
			n = 1 + rng.IntN(100)
		default:
			n = 1 + rng.IntN(5000)
		}
		if n > len(input) {
			n = len(input)
		}
		s.cliWrite(input[:n])
		input = input[n:]
		switch r := rng.IntN(20); {
		case r < 6:
			s.settle()
			if rng.IntN(3) == 0 {
				s.c16Sample(d)
			}
		case r == 6 && !bulk:
			time.Sleep(time.Duration(1+rng.IntN(1500)) * time.Millisecond)
		case r == 7 && d.Cap > 0:
			s.drain(1 + rng.IntN(d.Cap))
		}
	}
}

func (s *vsrvSession) c16Closed() bool {
	s.mu.Lock()
	defer s.mu.Unlock()
	return s.srvClosed
}

func (s *vsrvSession) serveDone() bool {
	select {
	case <-s.sc.doneServing:
		return true
	default:
		return false
	}
}

// vsrvC16Probe decides "still serving or ended" once the input is exhausted.
func vsrvC16Probe(s *vsrvSession, rng *rand.Rand, d *vsrvC16Desc) {
	longest := prefaceTimeout
	if firstSettingsTimeout > longest {
		longest = firstSettingsTimeout
	}
	if goAwayTimeout > longest {
		longest = goAwayTimeout
	}
	s.settle()
	s.c16Sample(d)
	s.setCap(0) // the client reads everything from now on
	s.settle()
	time.Sleep(longest + time.Second)
	s.settle()
	closedCheck := func(when string) bool {
		if !s.c16Closed() {
			return false
		}
		if !s.serveDone() {
			s.mu.Lock()
			s.viol(vsrvGrpSurvive, "closed-but-serve-loop-alive", "%s: the server closed the net.Conn but its connection goroutine has not finished at quiescence", when)
			s.mu.Unlock()
		}
		d.Outcome = "closed " + when
		return true
	}
	if closedCheck("after input + timers") {
		return
	}
	// Still open: then the preface must have been complete. Finish a partial frame, if any.
	s.mu.Lock()
	garbage, prefLeft, partial := s.cGarbage, s.cPrefaceLeft, append([]byte(nil), s.cbuf...)
	s.mu.Unlock()
	if garbage || prefLeft > 0 {
		s.mu.Lock()
		s.viol(vsrvGrpSurvive, "open-without-valid-preface", "%v after the last input byte the connection is still open although the client never sent a complete valid preface (garbage=%v, preface bytes missing=%d)", longest+time.Second, garbage, prefLeft)
		s.mu.Unlock()
		d.Outcome = "open without preface"
		return
	}
	if len(partial) > 0 {
		var fill []byte
		if len(partial) < h2ref.HeaderLen {
			fill = make([]byte, h2ref.HeaderLen-len(partial))
			partial = append(partial, fill...)
		}
		h := h2ref.ParseHeader(partial)
		need := int(h.Length) - (len(partial) - h2ref.HeaderLen)
		if need > 1<<20 {
			// The server reads frames of at most 16 KiB here and must refuse a longer one when it
			// sees its header; a megabyte of payload is more than enough to find out. (A server
			// that wrongly went on reading the payload would swallow the PING below and fail
			// the liveness probe.)
			need = 1 << 20
		}
		if need > 0 {
			fill = append(fill, make([]byte, need)...)
		}
		d.Notes = append(d.Notes, fmt.Sprintf("probe: completing partial frame with %d zero bytes", len(fill)))
		for len(fill) > 0 && !s.c16Closed() {
			n := 1 << 16
			if n > len(fill) {
				n = len(fill)
			}
			s.cliWrite(fill[:n])
			fill = fill[n:]
		}
		s.settle()
		time.Sleep(goAwayTimeout + time.Second)
		s.settle()
		if closedCheck("after completing the partial frame") {
			return
		}
	}
	s.c16Sample(d)
	// liveness probe: a PING must be answered, or the connection must go away
	var p [8]byte
	copy(p[:], "verifC16")
	binary.BigEndian.PutUint16(p[6:], uint16(rng.Uint32()))
	s.mu.Lock()
	before := s.ev["server_ping_acks"]
	s.cGarbage = true // the shadow no longer follows the client frames; only the raw answer matters
	s.mu.Unlock()
	s.cliWrite(h2ref.AppendPing(nil, false, p))
	s.settle()
	time.Sleep(goAwayTimeout + time.Second)
	s.settle()
	s.mu.Lock()
	answered := s.ev["server_ping_acks"] > before && bytes.Equal(s.lastPingAck[:], p[:])
	s.mu.Unlock()
	if answered {
		d.Outcome = "serving (PING answered)"
		s.mu.Lock()
		s.ev["probe_ping_answered"]++
		s.mu.Unlock()
		return
	}
	if closedCheck("after the probe PING") {
		return
	}
	s.mu.Lock()
	s.viol(vsrvGrpSurvive, "connection-wedged", "after the input ended, all timers (%v) ran and the client read all output, the connection is open, the probe PING %x was not answered and the connection was not closed (goaway=%v code=%d)", longest, p, s.goAway, s.goAwayCode)
	s.mu.Unlock()
	d.Outcome = "wedged"
}

// vsrvC16SlowReaderBurst: a client that reads only when the script says so. While a flush of
// the server is stuck in the full pipe it sends a burst of k SETTINGS frames (k around the
// number of 9-octet SETTINGS ACKs that fill the server's 4 KiB write buffer), lets exactly that
// one stuck write finish, stops reading again, and then sends more answer-earning frames than the
// server may queue. The connection goroutine must still be alive to notice: with the client not
// reading a single octet the server has to end the connection.
func vsrvC16SlowReaderBurst(r *verifrt.R, c *verifrt.Case) {
	rng := c.Rng
	d := &vsrvC16Desc{Kind: "slow-reader-burst"}
	d.Adv = 10
	d.Cap = vsrvPick(rng, 1, 9, 64, 1000, 4096)
	k := 450 + rng.IntN(14)
	if rng.IntN(3) == 0 {
		k = 1 + rng.IntN(2000)
	}
	pre := rng.IntN(4) // PINGs before the burst: their 17-octet ACKs shift the alignment
	// one time in three the connection is in graceful shutdown (the client's GOAWAY(NO_ERROR), a
	// request still running) when the flood arrives: the bound on queued control frames applies
	// all the same, nothing else would ever end such a connection
	graceful := rng.IntN(3) == 0
	// what the write buffer (4 KiB) and the pipe can still absorb is written, not queued
	flood := maxQueuedControlFrames + (4096+d.Cap)/17 + 100 + rng.IntN(50)
	d.Notes = append(d.Notes, fmt.Sprintf("pipe capacity %d, %d PING then %d SETTINGS in the burst, then %d PING; graceful shutdown first: %v", d.Cap, pre, k, flood, graceful))
	c.Describe(d)
	var s *vsrvSession
	ended, serveAlive := false, false
	inner, outer := vsrvBubble(r.T, func() {
		s = vsrvNewSession(vsrvConfig{Groups: vsrvGrpSurvive, MaxConcurrentStreams: d.Adv, S2CCap: d.Cap, ExpectErrors: true, Handler: vsrvC16Handler})
		s.start()
		s.cliWrite(append([]byte(h2ref.ClientPreface), h2ref.AppendSettings(nil)...))
		s.settle()
		s.mu.Lock()
		stuck := s.blockedWriters > 0
		s.mu.Unlock()
		var burst []byte
		if graceful {
			// stream 7: its handler waits for the end of the stream (vsrvC16Handler)
			burst = h2ref.AppendHeaders(burst, 7, true, true, vsrvEncodeFields(vsrvGetFields("/held")), nil, -1)
			burst = h2ref.AppendGoAway(burst, 0, h2ref.ErrNo, nil)
			s.mu.Lock()
			s.ev["slow_reader_bursts_in_graceful_shutdown"]++
			s.mu.Unlock()
		}
		for i := 0; i < pre; i++ {
			burst = h2ref.AppendPing(burst, false, [8]byte{1, byte(i)})
		}
		for i := 0; i < k; i++ {
			burst = h2ref.AppendSettings(burst)
		}
		s.mu.Lock()
		s.cGarbage = true // the shadow does not follow this session; only the ending matters
		s.mu.Unlock()
		s.cliWrite(burst)
		s.settle()
		if stuck {
			// read until the write that was stuck has returned, not an octet more
			s.mu.Lock()
			w0 := s.writesDone
			s.mu.Unlock()
			for i := 0; i < 200000; i++ {
				s.mu.Lock()
				done := s.writesDone > w0 || s.blockedWriters == 0 || s.srvClosed
				s.mu.Unlock()
				if done {
					break
				}
				s.drain(1 + rng.IntN(8))
				s.settle()
			}
			s.mu.Lock()
			s.ev["slow_reader_bursts_with_a_stuck_write_released"]++
			s.mu.Unlock()
		}
		// from here on the client reads nothing
		var pings []byte
		for i := 0; i < flood; i++ {
			pings = h2ref.AppendPing(pings, false, [8]byte{2, byte(i), byte(i >> 8)})
		}
		for len(pings) > 0 {
			n := min(len(pings), 17*(1+rng.IntN(500)))
			s.cliWrite(pings[:n])
			pings = pings[n:]
			if rng.IntN(3) == 0 {
				s.settle()
			}
		}
		s.settle()
		time.Sleep(time.Second)
		s.settle()
		ended = s.c16Closed()
		serveAlive = !s.serveDone()
		s.finish()
	})
	if s == nil {
		c.Violation("harness-failure", "session did not start: %s %s", inner, outer)
		return
	}
	if inner != "" {
		c.Violation("harness-panic", "panic in the C16 script: %s", inner)
	}
	if outer != "" {
		c.Violation("goroutines-left-behind:"+outer, "after the client closed the connection the bubble could not exit (some server goroutine is blocked forever): %s\n%s", outer, s.history(40))
	}
	if !ended {
		s.mu.Lock()
		s.viol(vsrvGrpSurvive, "not-ended-under-unread-control-flood", "a client that had stopped reading (pipe capacity %d) sent %d PING after a burst of %d SETTINGS frames, i.e. more frames owed an answer than maxQueuedControlFrames=%d: one virtual second later the server has not ended the connection (connection goroutine still running: %v, server writes blocked in the pipe: %d)", d.Cap, flood, k, maxQueuedControlFrames, serveAlive, s.blockedWriters)
		s.mu.Unlock()
		d.Outcome = "not ended"
	} else {
		d.Outcome = "ended under the flood"
	}
	s.report(r, c)
	r.Event("kind_slow-reader-burst", 1)
	r.Event("outcome_"+d.Outcome, 1)
	r.EvalHash(true, uint64(d.Cap)<<40|uint64(k)<<20|uint64(pre)<<16|uint64(flood))
}

func vsrvC16Session(r *verifrt.R, c *verifrt.Case, kind string) {
	rng := c.Rng
	d := &vsrvC16Desc{Kind: kind}
	d.Adv = vsrvPick[uint32](rng, 1, 3, 10, 100)
	d.Cap = vsrvPick(rng, 0, 0, 4096, 65536)
	var input []byte
	bulk := false
	preface := []byte(h2ref.ClientPreface)
	switch kind {
	case "random-nopreface":
		input = vsrvRandBytes(rng, rng.IntN(300))
		if rng.IntN(3) == 0 { // close to a preface
			input = append(append([]byte(nil), preface[:rng.IntN(len(preface))]...), input...)
		}
	case "random-afterpreface":
		input = append(append([]byte(nil), preface...), vsrvRandBytes(rng, rng.IntN(3000))...)
	case "random-frames": // well-formed headers, random everything else
		input = append([]byte(nil), preface...)
		if rng.IntN(4) != 0 {
			input = h2ref.AppendSettings(input)
		}
		for i, n := 0, rng.IntN(40); i < n; i++ {
			l := vsrvPick(rng, 0, 4, 5, 6, 8, 9, rng.IntN(64), rng.IntN(2000))
			input = h2ref.AppendFrame(input, h2ref.Frame{Type: uint8(rng.IntN(12)), Flags: uint8(rng.Uint32()) & vsrvPick[uint8](rng, 0xff, 0x05, 0x0d, 0x2d),
				StreamID: vsrvPick(rng, 0, 1, 1, 3, 5, 2, uint32(rng.IntN(40))), Payload: vsrvRandBytes(rng, l)})
		}
	case "boundary-frames":
		// Frames whose length, flags and leading length-like octets sit on the edges the
		// frame parsers have to check: padded frames (with and without the 5 priority
		// octets) whose Pad Length is within a few octets of the payload length, and
		// fixed-size frames one octet short / long. 1-3 of them after a valid opening,
		// the first on a fresh stream so that it is the frame that gets parsed.
		input = append([]byte(nil), preface...)
		input = h2ref.AppendSettings(input)
		sid := uint32(1)
		for i, n := 0, 1+rng.IntN(3); i < n; i++ {
			var f h2ref.Frame
			switch rng.IntN(10) {
			case 0, 1, 2, 3: // HEADERS with PADDED and/or PRIORITY
				f.Type = 1
				f.Flags = vsrvPick[uint8](rng, 0x08, 0x20, 0x28, 0x28, 0x28) | vsrvPick[uint8](rng, 0, 0x04, 0x05, 0x01)
				f.StreamID = sid
				sid += 2
			case 4: // DATA, padded, on a stream opened by a small valid request
				blk, _ := vsrvC16Request(rng, sid)
				input = h2ref.AppendFrame(input, h2ref.Frame{Type: 1, Flags: 0x04, StreamID: sid, Payload: blk})
				f.Type, f.Flags, f.StreamID = 0, 0x08|vsrvPick[uint8](rng, 0, 1), sid
				sid += 2
			case 5: // PUSH_PROMISE from a client, padded
				f.Type, f.Flags, f.StreamID = 5, 0x08|vsrvPick[uint8](rng, 0, 4), vsrvPick(rng, 0, 1, sid)
			case 6: // CONTINUATION after HEADERS without END_HEADERS
				blk, _ := vsrvC16Request(rng, sid)
				input = h2ref.AppendFrame(input, h2ref.Frame{Type: 1, Flags: 0x28 &^ vsrvPick[uint8](rng, 0x28, 0x08, 0x20), StreamID: sid, Payload: append([]byte{0, 0, 0, 0, 0, 0}[:0], blk...)})
				f.Type, f.Flags, f.StreamID = 9, vsrvPick[uint8](rng, 0, 4, 0x28), sid
				sid += 2
			default: // fixed-size frames around their size
				f.Type = vsrvPick[uint8](rng, 2, 3, 4, 6, 7, 8)
				f.Flags = vsrvPick[uint8](rng, 0, 1, 0x08, 0x28)
				f.StreamID = vsrvPick(rng, 0, sid, 1)
			}
			want := map[uint8]int{2: 5, 3: 4, 4: 6, 6: 8, 7: 8, 8: 4}[f.Type]
			l := want + rng.IntN(3) - 1
			if want == 0 {
				l = rng.IntN(14)
			}
			if l < 0 {
				l = 0
			}
			f.Payload = vsrvRandBytes(rng, l)
			if l > 0 && f.Flags&0x08 != 0 && (f.Type == 0 || f.Type == 1 || f.Type == 5) {
				// Pad Length from len-7 .. len+1
				f.Payload[0] = byte(max(0, l-7+rng.IntN(9)))
			}
			d.Notes = append(d.Notes, fmt.Sprintf("type %d flags %#x stream %d payload %x", f.Type, f.Flags, f.StreamID, f.Payload))
			input = h2ref.AppendFrame(input, f)
		}
	case "mutated":
		fs := vsrvC16ValidFrames(rng)
		body := vsrvC16Mutate(rng, fs, &d.Notes)
		input = append(append([]byte(nil), preface...), body...)
	case "valid", "valid-paced":
		input = append(append([]byte(nil), preface...), bytes.Join(vsrvC16ValidFrames(rng), nil)...)
	default: // flood:<kind>
		fk := kind[len("flood:"):]
		n := vsrvPick(rng, 50, 2000, 5000)
		switch fk {
		case "ping", "zero-window-update", "data-on-closed", "malformed-headers", "rst-fresh", "over-limit-opens":
			// every frame earns a control frame in reply: go past maxQueuedControlFrames
			n = vsrvPick(rng, 50, 2000, maxQueuedControlFrames+1000)
		}
		d.Notes = append(d.Notes, fmt.Sprintf("flood of %d", n))
		input = append(append([]byte(nil), preface...), vsrvC16Flood(rng, fk, n, d.Adv)...)
		bulk = true
		d.Cap = vsrvPick(rng, 0, 4096, 4096, 65536) // mostly a client that does not read
	}
	paced := kind == "valid-paced" || (kind == "valid" || kind == "mutated") && rng.IntN(2) == 0
	if paced {
		d.Notes = append(d.Notes, "fed one frame at a time, server settled after each")
	}
	d.InputLen = len(input)
	hp := input
	if len(hp) > 96 {
		hp = hp[:96]
	}
	d.InputHex = fmt.Sprintf("%x", hp)
	c.Describe(d)

	var s *vsrvSession
	inner, outer := vsrvBubble(r.T, func() {
		s = vsrvNewSession(vsrvConfig{Groups: vsrvGrpSurvive, MaxConcurrentStreams: d.Adv, S2CCap: d.Cap, ExpectErrors: true, Handler: vsrvC16Handler})
		s.start()
		vsrvC16Feed(s, rng, d, input, bulk, paced)
		vsrvC16Probe(s, rng, d)
		s.finish()
	})
	if s == nil {
		c.Violation("harness-failure", "session did not start: %s %s", inner, outer)
		return
	}
	if inner != "" {
		c.Violation("harness-panic", "panic in the C16 script: %s", inner)
	}
	if outer != "" {
		c.Violation("goroutines-left-behind:"+outer, "after the client closed the connection the bubble could not exit (some server goroutine is blocked forever): %s\n%s", outer, s.history(40))
	}
	s.report(r, c)
	s.mu.Lock()
	if os.Getenv("VERIF_DEBUG") != "" {
		fmt.Printf("C16 DEBUG %s adv=%d cap=%d hmax=%d starts=%d\n%s\n", kind, d.Adv, d.Cap, s.hMax, s.hStarts, s.history(120))
	}
	nt := s.srvFrames > 2 || s.hStarts > 0
	r.Event("kind_"+kind, 1)
	r.Event("outcome_"+d.Outcome, 1)
	if s.goAway {
		r.Event(fmt.Sprintf("goaway_code_%d", s.goAwayCode), 1)
	}
	r.Event("input_bytes", int64(len(input)))
	if bulk && s.maxQueuedSeen > 1000 {
		r.Event("floods_with_over_1000_queued_control_frames_sampled", 1)
	}
	vsrvC16MaxMu.Lock()
	if s.maxQueuedSeen > vsrvC16MaxQueued {
		vsrvC16MaxQueued = s.maxQueuedSeen
	}
	vsrvC16MaxMu.Unlock()
	if kind == "mutated" || kind == "random-frames" {
		r.Sample(map[string]any{"case": d, "server_frames": s.srvFrames, "handler_starts": s.hStarts})
	}
	s.mu.Unlock()
	h := fnv.New64a()
	h.Write(input)
	r.EvalHash(nt, h.Sum64())
}

func TestVerif_C16(t *testing.T) {
	r := verifrt.Start(t, "C16")
	defer r.Finish()
	// a connection goroutine that spins keeps its bubble from ever becoming idle: the case would
	// simply never return (see verifrt.CaseCPUBudget; a case takes milliseconds)
	r.CaseCPUBudget(300, "case-never-finishes:server-goroutine-spins-or-bubble-cannot-settle")
	r.SetRule("one case = one server connection fed a generated client byte stream in PRNG chunks (with quiescent points, virtual sleeps, and for floods a client that does not read): random bytes without / after a valid preface, random frames (valid 9-byte headers, random type/flags/stream/payload), protocol-valid open-loop sessions, the same sessions damaged by 1-3 of {bit flips, length lie, swap, duplicate, delete, retype, restream, reflag, scramble payload} plus truncation, and frames on the parsers' length edges (padded HEADERS/DATA/PUSH_PROMISE with and without priority octets whose Pad Length is within a few octets of the payload length; fixed-size frames one octet short or long), and 13 kinds of floods (handlers that outlive a reset followed by opens, PING, SETTINGS, HEADERS+RST_STREAM, empty CONTINUATION, empty DATA, WINDOW_UPDATE, zero WINDOW_UPDATE, DATA on closed stream, malformed HEADERS, PRIORITY, unknown type, over-limit opens; 50-25000 frames). non-trivial = the server got past the preface far enough to emit more than its two opening frames or to start a handler; distinct = hash of the input bytes")
	r.Assume("no-panic = serve-loop panic hook + recovered harness goroutines + child exit status; 'keeps serving or ends the connection' = after the input, all server timers (read from the package constants) and a full read of the server's output: connection closed with the connection goroutine finished, or a probe PING answered (a partial trailing frame is first completed with zero bytes); bounds are sampled on the serve goroutine through serveMsgCh at quiescent points")

	kinds := []string{"random-nopreface", "random-afterpreface", "random-frames", "random-frames", "mutated", "mutated", "mutated", "mutated", "valid"}
	vsrvGoroutineTracking(true)
	r.CasesParallel("session-gotrack", r.N(20, 300), 0, func(c *verifrt.Case) {
		vsrvC16Session(r, c, kinds[c.Index%len(kinds)])
	})
	vsrvGoroutineTracking(false)
	r.CasesParallel("session", r.N(400, 16000), 0, func(c *verifrt.Case) {
		vsrvC16Session(r, c, kinds[c.Index%len(kinds)])
	})
	r.CasesParallel("flood", r.N(52, 780), 0, func(c *verifrt.Case) {
		vsrvC16Session(r, c, "flood:"+vsrvC16FloodKinds[c.Index%len(vsrvC16FloodKinds)])
	})
	r.CasesParallel("boundary", r.N(600, 12000), 0, func(c *verifrt.Case) {
		vsrvC16Session(r, c, "boundary-frames")
	})
	// protocol-valid sessions with SETTINGS in mid-session, one frame at a time: every handler has
	// run as far as flow control lets it before the next frame changes the windows
	r.CasesParallel("valid-paced", r.N(300, 6000), 0, func(c *verifrt.Case) {
		vsrvC16Session(r, c, "valid-paced")
	})
	r.Require("kind_valid-paced", 150)
	r.Require("kind_boundary-frames", 300)
	r.Require("serve_loop_samples", 200)
	r.Require("probe_ping_answered", 40)
	r.Require("server_goaway", 100)
	r.Require("handler_starts", 300)
	r.CasesParallel("slow-reader-burst", r.N(40, 400), 0, func(c *verifrt.Case) { vsrvC16SlowReaderBurst(r, c) })
	r.Require("slow_reader_bursts_with_a_stuck_write_released", 10)
	r.Require("floods_with_over_1000_queued_control_frames_sampled", 2)
	r.Require("outcome_closed after input + timers", 100)
	vsrvC16MaxMu.Lock()
	r.SetExtra("max_queued_control_frames_sampled", vsrvC16MaxQueued)
	r.SetExtra("max_queued_control_frames_limit", maxQueuedControlFrames)
	vsrvC16MaxMu.Unlock()
}
