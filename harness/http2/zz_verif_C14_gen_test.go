//go:build verif

package http2

// C14 (part 2 of 3): the configuration (SETTINGS space) and exchange generator, and the
// expected views (what the handler must see, what the client must get), computed from the
// spec with the documented canonicalisations only.

import (
	"bytes"
	"compress/gzip"
	"fmt"
	"math/rand/v2"
	"net/http"
	"net/url"
	"sort"
	"strconv"
	"strings"
)

type v14Conf struct {
	Mode string `json:"mode"` // "bubble" or "realtime"

	SrvStreamWin      int32  `json:"srv_stream_window"`
	SrvConnWin        int32  `json:"srv_conn_window"`
	SrvMaxFrame       uint32 `json:"srv_max_read_frame"`
	SrvDecTable       uint32 `json:"srv_decoder_table"`
	SrvEncTable       uint32 `json:"srv_encoder_table"`
	SrvMaxHeaderBytes int    `json:"srv_max_header_bytes"`
	SrvMaxStreams     uint32 `json:"srv_max_streams"`
	Sched             string `json:"sched"`

	CliStreamWin     int    `json:"cli_stream_window"`
	CliConnWin       int    `json:"cli_conn_window"`
	CliMaxFrame      uint32 `json:"cli_max_read_frame"`
	CliDecTable      uint32 `json:"cli_decoder_table"`
	CliEncTable      uint32 `json:"cli_encoder_table"`
	CliMaxHeaderList uint32 `json:"cli_max_header_list"`
	DisableCompr     bool   `json:"disable_compression"`
	ViaHTTP2Config   bool   `json:"via_http2config"`
	StrictMax        bool   `json:"strict_max_streams"`

	CapC2S  int `json:"pipe_cap_c2s"`
	CapS2C  int `json:"pipe_cap_s2c"`
	RMaxSrv int `json:"read_max_srv"`
	RMaxCli int `json:"read_max_cli"`

	WaitSettings bool  `json:"wait_settings"`
	HoldS2C      bool  `json:"hold_s2c"` // "early": the server's bytes reach the client only after wave 0 was written
	Waves        []int `json:"waves"`
	JitterPM     int   `json:"jitter_permille"`
}

func (cf *v14Conf) srvStreamWinEff() int64 {
	if cf.SrvStreamWin < 1 {
		return 1 << 20
	}
	return int64(cf.SrvStreamWin)
}
func (cf *v14Conf) cliStreamWinEff() int64 {
	if cf.CliStreamWin < 1 {
		return 4 << 20
	}
	return int64(cf.CliStreamWin)
}
func (cf *v14Conf) reqHeaderLimit() int64 {
	if cf.SrvMaxHeaderBytes <= 0 {
		return 1 << 20
	}
	return int64(cf.SrvMaxHeaderBytes)
}
func (cf *v14Conf) respHeaderLimit() int64 {
	if cf.CliMaxHeaderList == 0 {
		return 10 << 20
	}
	return int64(cf.CliMaxHeaderList)
}

type v14Hdr struct {
	K string
	V []string
}

type v14Exch struct {
	Idx  int
	Wave int

	Method   string
	Scheme   string
	URLHost  string
	HostOver string
	Path     string
	RawQuery string

	ReqHdr      []v14Hdr
	ReqBodyKind int // 0 nil body, 1 http.NoBody, 2 declared length, 3 undeclared (ContentLength -1), 4 undeclared (ContentLength 0 with a body)
	ReqBody     v14Body
	ReqChunk    int
	ReqEOFLast  bool
	ReqTrailer  []v14Hdr // declared keys with their final values (possibly none)
	ReqTrLate   bool     // values are filled in just before the body returns EOF
	Expect100   bool

	Status      int
	ExplicitWH  bool
	FlushHdr    bool
	EarlyHints  int
	RespHdr     []v14Hdr
	RespBody    v14Body
	RespRaw     []byte // when non-nil the handler writes these bytes (gzip of RespBody)
	RespGzip    bool
	RespDecl    bool
	RespChunk   int
	RespFlushPM int
	RespStrPM   int
	RespTrDecl  []v14Hdr // declared through the Trailer header; V nil = declared but never set
	RespTrHdr   []string // values of the Trailer header
	RespTrPfx   []v14Hdr // undeclared, sent with http.TrailerPrefix
	Order       int      // 0 read request, then respond; 1 respond, then read; 2 interleaved
	HReadChunk  int
	CReadChunk  int
	Seed        uint64
	NearLimit   string // "", "req", "resp"
	Refused     string // "trailers": the request trailers exceed the server's SETTINGS_MAX_HEADER_LIST_SIZE; the Transport has to refuse the request, nothing about it is compared
	ReqWireSize int64
	OpCap       int
	handlerBody bool // the response may carry a body (status allows it and the method is not HEAD)
}

// ---------------------------------------------------------------------------------------
// strings

const v14NameChars = "abcdefghijklmnopqrstuvwxyz0123456789-_.!#$%&'*+^`|~"
const v14PlainChars = "abcdefghijklmnopqrstuvwxyzABCDEFGHIJKLMNOPQRSTUVWXYZ0123456789-_.~/=+,;:@()[]{}<>?!$%&'*^`|\"\\#"

func v14Value(rng *rand.Rand, n int) string {
	if n <= 0 {
		return ""
	}
	b := make([]byte, n)
	kind := rng.IntN(4)
	for i := range b {
		switch {
		case kind == 1 && i > 0 && i < n-1 && rng.IntN(7) == 0:
			b[i] = " \t"[rng.IntN(2)]
		case kind == 2 && rng.IntN(3) == 0:
			b[i] = byte(0x80 + rng.IntN(0x80))
		case kind == 3:
			b[i] = byte(0x21 + rng.IntN(0x7e-0x21+1))
		default:
			b[i] = v14PlainChars[rng.IntN(len(v14PlainChars))]
		}
	}
	return string(b)
}

func v14ValueLen(rng *rand.Rand) int {
	switch rng.IntN(20) {
	case 0:
		return 0
	case 1, 2, 3, 4, 5, 6:
		return 1 + rng.IntN(8)
	case 7, 8, 9, 10, 11, 12, 13:
		return 1 + rng.IntN(64)
	case 14, 15, 16, 17:
		return 1 + rng.IntN(1000)
	case 18:
		return 1000 + rng.IntN(4000)
	}
	return 4000 + rng.IntN(16000)
}

func v14Token(rng *rand.Rand, n int) string {
	b := make([]byte, n)
	for i := range b {
		b[i] = v14NameChars[rng.IntN(len(v14NameChars))]
	}
	return string(b)
}

// v14Case re-spells the letters of a field name.
func v14Case(rng *rand.Rand, s string) string {
	switch rng.IntN(4) {
	case 0:
		return http.CanonicalHeaderKey(s)
	case 1:
		return strings.ToLower(s)
	case 2:
		return strings.ToUpper(s)
	}
	b := []byte(s)
	for i, c := range b {
		if rng.IntN(2) == 0 {
			if c >= 'a' && c <= 'z' {
				b[i] = c - 32
			} else if c >= 'A' && c <= 'Z' {
				b[i] = c + 32
			}
		}
	}
	return string(b)
}

var v14ReqNames = []string{"accept", "accept-language", "cache-control", "referer", "authorization", "if-modified-since", "if-none-match", "origin", "pragma", "x-forwarded-for", "via", "from", "max-forwards"}
var v14RespNames = []string{"cache-control", "etag", "last-modified", "location", "server", "set-cookie", "vary", "www-authenticate", "link", "age", "allow", "content-language", "content-location", "expires", "retry-after", "accept-ranges", "strict-transport-security"}
var v14TrailerNames = []string{"grpc-status", "grpc-message", "server-timing", "digest", "x-checksum", "x-request-cost"}

type v14HdrGen struct {
	rng    *rand.Rand
	used   map[string]bool // canonical names already present
	common []v14Hdr        // session-wide fields that recur (HPACK dynamic table reuse)
}

func (g *v14HdrGen) freshName(pool []string, prefix string) string {
	for {
		var n string
		if len(pool) > 0 && g.rng.IntN(3) == 0 {
			n = pool[g.rng.IntN(len(pool))]
		} else {
			n = prefix + v14Token(g.rng, 1+g.rng.IntN(18))
		}
		ck := http.CanonicalHeaderKey(n)
		if !g.used[ck] {
			g.used[ck] = true
			return n
		}
	}
}

// fields generates n fields (some multi-valued) within about budget bytes of RFC list size.
func (g *v14HdrGen) fields(n int, pool []string, prefix string, budget int64) []v14Hdr {
	var out []v14Hdr
	for i := 0; i < n && budget > 64; i++ {
		if len(g.common) > 0 && g.rng.IntN(4) == 0 {
			c := g.common[g.rng.IntN(len(g.common))]
			if ck := http.CanonicalHeaderKey(c.K); !g.used[ck] {
				g.used[ck] = true
				out = append(out, c)
				budget -= v14ListSize([]v14Hdr{c})
				continue
			}
		}
		h := v14Hdr{K: v14Case(g.rng, g.freshName(pool, prefix))}
		nv := 1
		if g.rng.IntN(6) == 0 {
			nv = 2 + g.rng.IntN(3)
		}
		for j := 0; j < nv; j++ {
			l := v14ValueLen(g.rng)
			if int64(l+len(h.K)+32) > budget {
				l = int(budget) - len(h.K) - 32
				if l < 0 {
					break
				}
			}
			h.V = append(h.V, v14Value(g.rng, l))
			budget -= int64(l + len(h.K) + 32)
		}
		if len(h.V) > 0 {
			out = append(out, h)
		}
	}
	return out
}

// v14DropLargest removes the largest generated ("x-…") field; false when there is none.
func v14DropLargest(hs *[]v14Hdr) bool {
	best, bestSize := -1, int64(-1)
	for i, h := range *hs {
		if k := strings.ToLower(h.K); !strings.HasPrefix(k, "x-") || k == "x-v14-id" {
			continue
		}
		if n := v14ListSize([]v14Hdr{h}); n > bestSize {
			best, bestSize = i, n
		}
	}
	if best < 0 {
		return false
	}
	*hs = append((*hs)[:best], (*hs)[best+1:]...)
	return true
}

func v14ListSize(hs []v14Hdr) int64 {
	var n int64
	for _, h := range hs {
		for _, v := range h.V {
			n += int64(len(h.K) + len(v) + 32)
		}
	}
	return n
}

// v14Filler adds x-fill-<tag>N fields whose RFC list size is exactly total (total >= 60).
func v14Filler(rng *rand.Rand, total int64, tag string) []v14Hdr {
	var out []v14Hdr
	for i := 0; total >= 60; i++ {
		name := fmt.Sprintf("x-fill-%s%d", tag, i)
		over := int64(len(name) + 32)
		vl := total - over
		if max := int64(2000 + rng.IntN(14000)); vl > max {
			vl = max
			if total-over-vl < 60 {
				vl -= 60
			}
		}
		out = append(out, v14Hdr{K: v14Case(rng, name), V: []string{v14Value(rng, int(vl))}})
		total -= over + vl
	}
	return out
}

func v14PickSize(rng *rand.Rand, max int64) int64 {
	var n int64
	switch rng.IntN(13) {
	case 0:
		n = 0
	case 1:
		n = 1
	case 2:
		n = 1 + rng.Int64N(100)
	case 3, 4:
		n = rng.Int64N(5000)
	case 5:
		n = int64(v14Boundaries[rng.IntN(len(v14Boundaries))])
	case 6, 7:
		n = rng.Int64N(70000)
	case 8, 9:
		n = rng.Int64N(300 << 10)
	case 10:
		n = rng.Int64N(1 << 20)
	default:
		n = rng.Int64N(max + 1)
	}
	if n > max {
		n = max
	}
	return n
}

func v14GenBody(rng *rand.Rand, n int64) v14Body {
	b := v14Body{Len: n, Seed: rng.Uint64(), Text: rng.IntN(3) == 0}
	if rng.IntN(4) == 0 {
		b.Magic = vsrvPick(rng, "<html><body>", "%PDF-1.4\n", "\x89PNG\r\n\x1a\n", "GIF89a", "<?xml version=", "\xff\xd8\xff", "{\"json\":")
		if int64(len(b.Magic)) > n {
			b.Magic = b.Magic[:n]
		}
	}
	return b
}

// ---------------------------------------------------------------------------------------
// configuration

func v14GenConf(rng *rand.Rand, mode, flavor string) *v14Conf {
	cf := &v14Conf{Mode: mode}
	tbl := func() uint32 {
		return vsrvPick[uint32](rng, 0, 0, 1, 31, 100, 4096, 4096, 65536, 65536, uint32(rng.IntN(20000)))
	}
	cf.SrvStreamWin = vsrvPick[int32](rng, 0, 1, 100, 65535, 1<<20, int32(1+rng.IntN(70000)))
	cf.SrvConnWin = vsrvPick[int32](rng, 0, 65535, 1<<20, int32(65535+rng.IntN(200000)))
	cf.SrvMaxFrame = vsrvPick[uint32](rng, 0, 16384, 16385, 65536, 1<<24-1)
	cf.SrvDecTable, cf.SrvEncTable = tbl(), tbl()
	cf.SrvMaxHeaderBytes = vsrvPick(rng, 0, 0, 4096, 16384, 65536, 1<<20)
	cf.SrvMaxStreams = vsrvPick[uint32](rng, 0, 0, 0, 1, 2, 3, 100)
	cf.Sched = vsrvPick(rng, "", "", "rr", "random", "rfc9218", "rfc7540")

	cf.CliStreamWin = vsrvPick(rng, 0, 1, 100, 65535, 1<<20, 1+rng.IntN(70000))
	cf.CliConnWin = vsrvPick(rng, 0, 65535, 1<<20, 65535+rng.IntN(200000))
	cf.CliMaxFrame = vsrvPick[uint32](rng, 0, 16384, 65536, 1<<20, 1<<24-1)
	cf.CliDecTable, cf.CliEncTable = tbl(), tbl()
	cf.CliMaxHeaderList = vsrvPick[uint32](rng, 0, 0, 16384, 65536, 1<<20)
	cf.DisableCompr = rng.IntN(3) == 0
	cf.ViaHTTP2Config = rng.IntN(3) == 0

	cf.CapC2S = vsrvPick(rng, 64, 1024, 16384, 65536, 1<<20)
	cf.CapS2C = vsrvPick(rng, 64, 1024, 16384, 65536, 1<<20)
	if mode == "bubble" {
		cf.CapC2S, cf.CapS2C = 0, 0 // see v14Pipe
	}
	cf.RMaxSrv = vsrvPick(rng, 0, 0, 1, 7, 100, 4096)
	cf.RMaxCli = vsrvPick(rng, 0, 0, 1, 7, 100, 4096)
	cf.WaitSettings = true
	// Without StrictMaxConcurrentStreams a ClientConn at the server's limit refuses the request
	// ("client conn not usable": the pool would dial another connection), which is by design.
	cf.StrictMax = cf.SrvMaxStreams != 0 && cf.SrvMaxStreams < 100 || rng.IntN(2) == 0
	cf.JitterPM = vsrvPick(rng, 0, 0, 5, 30, 100)

	nw := 1 + rng.IntN(3)
	for i := 0; i < nw; i++ {
		cf.Waves = append(cf.Waves, 1+rng.IntN(8))
	}
	switch flavor {
	case "tiny-window":
		cf.SrvStreamWin = vsrvPick[int32](rng, 1, 2, 100, 1000)
		cf.CliStreamWin = vsrvPick(rng, 1, 2, 100, 1000)
	case "early":
		// The client sends its first wave before anything the server wrote has reached it.
		// A refused stream is a legitimate outcome of opening more streams than the server
		// will allow, so the concurrency limit stays above the wave size here.
		cf.HoldS2C = true
		cf.WaitSettings = false
		cf.SrvMaxStreams = 0
	case "frame-boundary":
		// Field blocks whose length is exactly the frame size the peer accepts: both peers keep
		// the protocol minimum, one session sweeps the length of one field octet by octet.
		cf.SrvMaxFrame, cf.CliMaxFrame = 16384, 16384
		cf.SrvMaxHeaderBytes, cf.CliMaxHeaderList = 1<<20, 1<<20
		cf.SrvMaxStreams = 0
		cf.Waves = []int{1, 8, 8, 8, 8, 8, 8, 8, 8}
	case "over-limit-trailers":
		// one request of the first wave is refused by the Transport itself (its trailers do not
		// fit the server's limit); what matters is that the exchanges after it are still exact
		cf.SrvMaxHeaderBytes = vsrvPick(rng, 4096, 16384)
		cf.SrvMaxStreams = 0
		cf.Waves = []int{2 + rng.IntN(2), 2 + rng.IntN(3), 1 + rng.IntN(3)}
	case "near-limit":
		cf.SrvMaxHeaderBytes = vsrvPick(rng, 4096, 16384, 65536, 65536, 1<<20)
		cf.CliMaxHeaderList = vsrvPick[uint32](rng, 16384, 65536, 65536, 1<<20)
		cf.Waves = []int{1 + rng.IntN(3)}
	}
	return cf
}

// ---------------------------------------------------------------------------------------
// exchanges

// perEx is the exchange's frame budget per direction: it bounds body/window and the number of
// separate body chunks (the race detector makes every frame expensive: the server starts a
// goroutine per frame it writes).
func v14GenExch(rng *rand.Rand, cf *v14Conf, idx, wave int, flavor string, maxBody int64, perEx int, common *[2][]v14Hdr) *v14Exch {
	e := &v14Exch{Idx: idx, Wave: wave, Seed: rng.Uint64(), OpCap: perEx}
	switch x := rng.IntN(100); {
	case x < 28:
		e.Method = "GET"
	case x < 48:
		e.Method = "POST"
	case x < 58:
		e.Method = "PUT"
	case x < 63:
		e.Method = "PATCH"
	case x < 68:
		e.Method = "DELETE"
	case x < 76:
		e.Method = "HEAD"
	case x < 81:
		e.Method = "OPTIONS"
	case x < 85:
		e.Method = "PROPFIND"
	case x < 88:
		e.Method = "V14-CUSTOM"
	case x < 91:
		e.Method = "CONNECT"
	default:
		e.Method = "POST"
	}
	e.Scheme = vsrvPick(rng, "https", "https", "http")
	e.URLHost = vsrvPick(rng, "verif.test", "verif.test:8443", "[::1]:443", "192.0.2.7", "a.b.c.example.")
	if rng.IntN(5) == 0 {
		e.HostOver = vsrvPick(rng, "other.example", "other.example:444", "UPPER.example")
	}
	// target
	switch {
	case e.Method == "OPTIONS" && rng.IntN(3) == 0:
		e.Path = "*"
	default:
		nseg := 1 + rng.IntN(4)
		var sb strings.Builder
		for i := 0; i < nseg; i++ {
			sb.WriteByte('/')
			l := rng.IntN(12)
			if i == 0 && l == 0 {
				l = 1
			}
			for j := 0; j < l; j++ {
				if rng.IntN(10) == 0 {
					sb.WriteString(vsrvPick(rng, " ", "%", "?", "#", "é", "+", ";", ":", "@", "&", "=", "\"", "<", "日本", "%41", "\\"))
				} else {
					sb.WriteByte("abcdefghijklmnopqrstuvwxyzABCXYZ0123456789-._~"[rng.IntN(46)])
				}
			}
		}
		e.Path = sb.String()
		if rng.IntN(2) == 0 {
			l := 1 + rng.IntN(30)
			if rng.IntN(10) == 0 {
				l = 200 + rng.IntN(3000)
			}
			q := make([]byte, 0, l+3)
			for len(q) < l {
				if rng.IntN(12) == 0 {
					q = append(q, '%', "0123456789ABCDEF"[rng.IntN(16)], "0123456789abcdef"[rng.IntN(16)])
				} else {
					q = append(q, "abcdefghijklmnopqrstuvwxyzABCXYZ0123456789-._~=&+"[rng.IntN(49)])
				}
			}
			e.RawQuery = string(q)
		}
	}

	// request body
	reqMax := maxBody
	if m := cf.srvStreamWinEff() * int64(perEx); m < reqMax {
		reqMax = m
	}
	hasBody := false
	switch e.Method {
	case "POST", "PUT", "PATCH":
		hasBody = rng.IntN(10) != 0
	case "HEAD":
	case "CONNECT":
		hasBody = rng.IntN(2) == 0
	default:
		hasBody = rng.IntN(5) == 0
	}
	if !hasBody {
		e.ReqBodyKind = rng.IntN(2)
	} else {
		n := v14PickSize(rng, reqMax)
		e.ReqBody = v14GenBody(rng, n)
		switch {
		case e.Method == "CONNECT":
			e.ReqBodyKind = 3
		case n > 0 && rng.IntN(2) == 0:
			e.ReqBodyKind = 2
		default:
			e.ReqBodyKind = 3 + rng.IntN(2)
		}
		e.ReqChunk = rng.IntN(7)
		e.ReqEOFLast = rng.IntN(2) == 0
	}

	// request header fields
	g := &v14HdrGen{rng: rng, used: map[string]bool{}, common: common[0]}
	for _, k := range []string{"Host", "Content-Length", "Connection", "Proxy-Connection", "Transfer-Encoding", "Upgrade", "Keep-Alive",
		"User-Agent", "Cookie", "Trailer", "Expect", "Accept-Encoding", "Range", "Te", "Priority", "X-V14-Id", "Content-Type", "Date", "Content-Encoding"} {
		g.used[k] = true
	}
	limit := cf.reqHeaderLimit()
	budget := limit - 700 - int64(len(e.Path)*3+len(e.RawQuery))
	nf := 0
	switch rng.IntN(10) {
	case 0:
	case 1, 2, 3, 4, 5:
		nf = 1 + rng.IntN(8)
	case 6, 7:
		nf = 8 + rng.IntN(40)
	case 8:
		nf = 100 + rng.IntN(400) // many small fields
	default:
		nf = 3 + rng.IntN(10)
	}
	hb := budget
	if rng.IntN(8) != 0 && hb > 6000 {
		hb = 6000 // most header sets are modest
	} else if hb > 300000 && rng.IntN(4) != 0 {
		hb = 300000
	}
	e.ReqHdr = append(e.ReqHdr, v14Hdr{K: "X-V14-Id", V: []string{strconv.Itoa(idx)}})
	if nf >= 100 {
		for i := 0; i < nf && hb > 100; i++ {
			h := v14Hdr{K: v14Case(rng, g.freshName(nil, "x-")), V: []string{v14Value(rng, rng.IntN(6))}}
			e.ReqHdr = append(e.ReqHdr, h)
			hb -= v14ListSize([]v14Hdr{h})
		}
	} else {
		e.ReqHdr = append(e.ReqHdr, g.fields(nf, v14ReqNames, "x-", hb)...)
	}
	sp := func(p int) bool { return rng.IntN(100) < p }
	if sp(25) { // cookies: split into crumbs on the wire, joined with "; " for the handler
		var vv []string
		for i, n := 0, 1+rng.IntN(3); i < n; i++ {
			var pairs []string
			for j, m := 0, 1+rng.IntN(4); j < m; j++ {
				pairs = append(pairs, v14Token(rng, 1+rng.IntN(6))+"="+v14Token(rng, rng.IntN(20)))
			}
			vv = append(vv, strings.Join(pairs, vsrvPick(rng, "; ", "; ", ";")))
		}
		e.ReqHdr = append(e.ReqHdr, v14Hdr{K: "Cookie", V: vv})
	}
	if sp(20) {
		e.ReqHdr = append(e.ReqHdr, v14Hdr{K: "User-Agent", V: vsrvPick(rng, []string{"verif/14"}, []string{""}, []string{"first/1", "second/2"}, nil)})
	}
	if sp(20) {
		e.ReqHdr = append(e.ReqHdr, v14Hdr{K: "Accept-Encoding", V: []string{vsrvPick(rng, "identity", "br, deflate", "gzip")}})
	}
	if sp(5) {
		e.ReqHdr = append(e.ReqHdr, v14Hdr{K: "Range", V: []string{"bytes=0-99"}})
	}
	if sp(8) {
		e.ReqHdr = append(e.ReqHdr, v14Hdr{K: v14Case(rng, "host"), V: []string{"ignored.example"}})
	}
	if sp(8) {
		e.ReqHdr = append(e.ReqHdr, v14Hdr{K: v14Case(rng, "content-length"), V: []string{"987654"}})
	}
	if sp(8) {
		e.ReqHdr = append(e.ReqHdr, v14Hdr{K: "Connection", V: []string{vsrvPick(rng, "keep-alive", "Keep-Alive", "")}})
	}
	if sp(5) {
		e.ReqHdr = append(e.ReqHdr, v14Hdr{K: v14Case(rng, "keep-alive"), V: []string{"timeout=5, max=100"}})
	}
	if sp(5) {
		e.ReqHdr = append(e.ReqHdr, v14Hdr{K: v14Case(rng, "proxy-connection"), V: []string{"keep-alive"}})
	}
	if sp(5) {
		e.ReqHdr = append(e.ReqHdr, v14Hdr{K: "Transfer-Encoding", V: []string{"chunked"}})
	}
	if sp(6) {
		e.ReqHdr = append(e.ReqHdr, v14Hdr{K: "Te", V: []string{"trailers"}})
	}
	if sp(10) {
		e.ReqHdr = append(e.ReqHdr, v14Hdr{K: "Priority", V: []string{vsrvPick(rng, "u=0", "u=7, i", "u=3", "i", "u=1, i")}})
	}
	if sp(10) {
		e.ReqHdr = append(e.ReqHdr, v14Hdr{K: v14Case(rng, "x-empty-list"), V: nil})
	}
	if sp(10) {
		e.ReqHdr = append(e.ReqHdr, v14Hdr{K: "Content-Type", V: []string{vsrvPick(rng, "application/json", "text/plain; charset=utf-8", "application/grpc")}})
	}
	if hasBody && e.ReqBody.Len > 0 && sp(6) {
		e.Expect100 = true
		e.ReqHdr = append(e.ReqHdr, v14Hdr{K: "Expect", V: []string{"100-continue"}})
	}
	// request trailers (only with a body: net/http sends trailers after a body)
	if hasBody && sp(35) {
		tg := &v14HdrGen{rng: rng, used: map[string]bool{}}
		n := 1 + rng.IntN(4)
		if rng.IntN(6) == 0 {
			n = 10 + rng.IntN(31)
		}
		tb := budget / 3
		if tb > 3000 && rng.IntN(6) != 0 {
			tb = 3000
		} else if tb > 60000 {
			tb = 60000
		}
		e.ReqTrailer = tg.fields(n, v14TrailerNames, "x-tr-", tb)
		if rng.IntN(4) == 0 && len(e.ReqTrailer) > 0 {
			e.ReqTrailer[rng.IntN(len(e.ReqTrailer))].V = nil // declared, never sent
		}
		e.ReqTrLate = rng.IntN(2) == 0
	}
	rng.Shuffle(len(e.ReqHdr), func(i, j int) { e.ReqHdr[i], e.ReqHdr[j] = e.ReqHdr[j], e.ReqHdr[i] })

	// ---- response
	e.Status = vsrvPick(rng, 200, 200, 200, 200, 200, 201, 202, 203, 206, 226, 299, 204, 304, 300, 301, 400, 404, 418, 451, 500, 503, 599)
	e.handlerBody = e.Status != 204 && e.Status != 304 && e.Method != "HEAD"
	bodyStatus := e.Status != 204 && e.Status != 304
	e.ExplicitWH = e.Status != 200 || rng.IntN(2) == 0
	respMax := maxBody
	if m := cf.cliStreamWinEff() * int64(perEx); m < respMax {
		respMax = m
	}
	if bodyStatus {
		e.RespBody = v14GenBody(rng, v14PickSize(rng, respMax))
		if e.Method == "HEAD" && e.RespBody.Len > 100000 {
			e.RespBody.Len = 100000
		}
		e.RespDecl = rng.IntN(2) == 0
	}
	e.FlushHdr = e.ExplicitWH && rng.IntN(4) == 0
	e.RespChunk = rng.IntN(7)
	e.RespFlushPM = vsrvPick(rng, 0, 0, 50, 300, 1000)
	e.RespStrPM = vsrvPick(rng, 0, 0, 500)
	if e.Status < 300 && e.handlerBody && rng.IntN(6) == 0 {
		e.EarlyHints = 1 + rng.IntN(2)
	}
	switch {
	case e.Status > 299 || !bodyStatus:
		e.Order = 0
	default:
		e.Order = rng.IntN(3)
	}
	e.HReadChunk, e.CReadChunk = rng.IntN(7), rng.IntN(7)

	rg := &v14HdrGen{rng: rng, used: map[string]bool{}, common: common[1]}
	for _, k := range []string{"Content-Length", "Connection", "Transfer-Encoding", "Upgrade", "Keep-Alive", "Proxy-Connection", "Trailer", "Date", "Content-Type", "Content-Encoding", "Link"} {
		rg.used[k] = true
	}
	rlimit := cf.respHeaderLimit()
	rbudget := rlimit - 600
	nf = 0
	switch rng.IntN(10) {
	case 0:
	case 1, 2, 3, 4, 5:
		nf = 1 + rng.IntN(8)
	case 6, 7:
		nf = 8 + rng.IntN(40)
	case 8:
		nf = 100 + rng.IntN(400)
	default:
		nf = 3 + rng.IntN(10)
	}
	hb = rbudget
	if rng.IntN(8) != 0 && hb > 6000 {
		hb = 6000
	} else if hb > 300000 && rng.IntN(4) != 0 {
		hb = 300000
	}
	if nf >= 100 {
		for i := 0; i < nf && hb > 100; i++ {
			h := v14Hdr{K: v14Case(rng, rg.freshName(nil, "x-")), V: []string{v14Value(rng, rng.IntN(6))}}
			e.RespHdr = append(e.RespHdr, h)
			hb -= v14ListSize([]v14Hdr{h})
		}
	} else {
		e.RespHdr = append(e.RespHdr, rg.fields(nf, v14RespNames, "x-", hb)...)
	}
	if bodyStatus && sp(70) {
		// (special response fields are set under their canonical key, as net/http documents)
		e.RespHdr = append(e.RespHdr, v14Hdr{K: "Content-Type", V: []string{vsrvPick(rng, "application/octet-stream", "text/html; charset=utf-8", "application/grpc+proto", "image/png")}})
	}
	if sp(8) {
		e.RespHdr = append(e.RespHdr, v14Hdr{K: "Date", V: []string{"Tue, 15 Nov 1994 08:12:31 GMT"}})
	}
	if sp(6) {
		e.RespHdr = append(e.RespHdr, v14Hdr{K: "Content-Encoding", V: []string{vsrvPick(rng, "identity", "br")}})
	} else if e.handlerBody && e.RespBody.Len > 0 && e.RespBody.Len <= 200000 && sp(12) {
		// transparent gzip: only meaningful when the Transport asked for it itself (decided in the expectation)
		e.RespGzip = true
		var zb bytes.Buffer
		zw := gzip.NewWriter(&zb)
		zw.Write(e.RespBody.bytes())
		zw.Close()
		e.RespRaw = zb.Bytes()
		e.RespHdr = append(e.RespHdr, v14Hdr{K: "Content-Encoding", V: []string{vsrvPick(rng, "gzip", "GZIP")}})
	}
	if sp(10) {
		e.RespHdr = append(e.RespHdr, v14Hdr{K: v14Case(rng, "x-empty-list"), V: nil})
	}
	// response trailers
	if e.handlerBody && sp(40) {
		tg := &v14HdrGen{rng: rng, used: map[string]bool{}}
		n := 1 + rng.IntN(4)
		if rng.IntN(6) == 0 {
			n = 10 + rng.IntN(31)
		}
		tb := rbudget / 3
		if tb > 3000 && rng.IntN(6) != 0 {
			tb = 3000
		} else if tb > 60000 {
			tb = 60000
		}
		all := tg.fields(n, v14TrailerNames, "x-tr-", tb)
		for _, h := range all {
			if rng.IntN(2) == 0 {
				e.RespTrPfx = append(e.RespTrPfx, h)
			} else {
				if rng.IntN(8) == 0 {
					h.V = nil
				}
				e.RespTrDecl = append(e.RespTrDecl, h)
			}
		}
		if len(e.RespTrDecl) > 0 {
			var cur []string
			for _, h := range e.RespTrDecl {
				cur = append(cur, v14Case(rng, h.K))
				if rng.IntN(3) == 0 {
					e.RespTrHdr = append(e.RespTrHdr, strings.Join(cur, vsrvPick(rng, ", ", ",", " , ")))
					cur = nil
				}
			}
			if len(cur) > 0 {
				e.RespTrHdr = append(e.RespTrHdr, strings.Join(cur, ", "))
			}
			e.RespHdr = append(e.RespHdr, v14Hdr{K: "Trailer", V: e.RespTrHdr})
		}
	}

	// the special fields and the trailer announcement were added on top of the budget: trim
	// generic fields until the sets are within the limits again
	for v14ReqWireSize(e, cf) > limit {
		if !v14DropLargest(&e.ReqHdr) {
			break
		}
	}
	for v14ListSize(e.RespHdr)+400 > rlimit {
		if !v14DropLargest(&e.RespHdr) {
			break
		}
	}

	// near-limit header sets
	if flavor == "near-limit" || rng.IntN(25) == 0 {
		delta := vsrvPick[int64](rng, 0, 0, 1, 31, 32, 33, 100, 1000)
		if rng.IntN(2) == 0 && limit <= 1<<20 {
			// the server advertises MaxHeaderBytes+320 (checked on the wire before anything is demanded)
			cur := v14ReqWireSize(e, cf)
			if room := limit + 320 - delta - cur; room >= 60 {
				e.ReqHdr = append(e.ReqHdr, v14Filler(rng, room, "q")...)
				e.NearLimit = "req"
			}
		} else if rlimit <= 1<<20 {
			// make the size of the response field list exactly predictable: explicit
			// content-type, declared length
			hasCT, hasDate := false, false
			for _, h := range e.RespHdr {
				switch http.CanonicalHeaderKey(h.K) {
				case "Content-Type":
					hasCT = len(h.V) > 0
				case "Date":
					hasDate = len(h.V) > 0
				}
			}
			cur := int64(42)
			if bodyStatus {
				if !hasCT {
					e.RespHdr = append(e.RespHdr, v14Hdr{K: "Content-Type", V: []string{"application/octet-stream"}})
				}
				e.RespDecl = true
				n := e.RespBody.Len
				if e.RespRaw != nil {
					n = int64(len(e.RespRaw))
				}
				cur += int64(14 + 32 + len(strconv.FormatInt(n, 10)))
			}
			if !hasDate {
				cur += 65
			}
			cur += v14ListSize(e.RespHdr)
			if room := rlimit - delta - cur; room >= 60 {
				e.RespHdr = append(e.RespHdr, v14Filler(rng, room, "p")...)
				e.NearLimit = "resp"
				e.EarlyHints = 0
			}
		}
	}
	e.ReqWireSize = v14ReqWireSize(e, cf)
	return e
}

// v14OverLimitTrailers turns exchange e into a small upload whose declared trailers are larger
// than the server's SETTINGS_MAX_HEADER_LIST_SIZE: one field above the limit plus a few small
// ones (which an HPACK encoder would index).
func v14OverLimitTrailers(rng *rand.Rand, e *v14Exch, cf *v14Conf) {
	e.Method = "POST"
	e.Expect100 = false
	e.ReqBodyKind, e.ReqBody, e.ReqChunk = 3, v14GenBody(rng, int64(1+rng.IntN(2000))), 500
	e.ReqTrLate = rng.IntN(2) == 0
	e.ReqTrailer = nil
	for i, n := 0, 1+rng.IntN(4); i < n; i++ {
		e.ReqTrailer = append(e.ReqTrailer, v14Hdr{K: fmt.Sprintf("X-Small-Trailer-%d", i), V: []string{v14Value(rng, 1+rng.IntN(30))}})
	}
	e.ReqTrailer = append(e.ReqTrailer, v14Hdr{K: "X-Big-Trailer", V: []string{strings.Repeat("t", cf.SrvMaxHeaderBytes+400+rng.IntN(2000))}})
	rng.Shuffle(len(e.ReqTrailer), func(i, j int) { e.ReqTrailer[i], e.ReqTrailer[j] = e.ReqTrailer[j], e.ReqTrailer[i] })
	e.Refused = "trailers"
	e.ReqWireSize = v14ReqWireSize(e, cf)
}

// v14Boundary turns exchange e of a "frame-boundary" session into one of a sweep: everything that
// contributes to the size of the field block is the same in every exchange of the session except
// one field whose value grows by one octet per exchange (octets whose Huffman code has 8 bits, so
// the encoder sends them as they are): once the dynamic table has settled after the first exchange
// consecutive exchanges have consecutive block lengths, and the sweep crosses 16384. kind selects
// the block: 0 request header, 1 request trailer, 2 response header, 3 response trailer.
func v14Boundary(e *v14Exch, cf *v14Conf, kind int) {
	e.Method, e.Scheme, e.URLHost, e.HostOver, e.Path, e.RawQuery = "POST", "https", "verif.test", "", "/boundary", ""
	e.Expect100, e.EarlyHints, e.NearLimit = false, 0, ""
	e.ReqHdr, e.ReqTrailer, e.RespHdr, e.RespTrDecl, e.RespTrHdr, e.RespTrPfx = []v14Hdr{{K: "X-V14-Id", V: []string{strconv.Itoa(e.Idx)}}}, nil, nil, nil, nil, nil
	e.RespGzip, e.RespRaw = false, nil
	e.Status, e.ExplicitWH, e.RespDecl = 200, true, false
	e.RespHdr = []v14Hdr{{K: "Content-Type", V: []string{"application/octet-stream"}}, {K: "Date", V: []string{"Thu, 01 Jan 2026 00:00:00 GMT"}}}
	e.ReqBodyKind, e.ReqBody, e.ReqChunk = 3, v14GenBody(rand.New(rand.NewPCG(e.Seed, 1)), 10), 10
	e.RespBody = v14GenBody(rand.New(rand.NewPCG(e.Seed, 2)), 10)
	e.handlerBody = true
	v := strings.Repeat("X", 16384-64+e.Idx)
	switch kind {
	case 0:
		e.ReqHdr = append(e.ReqHdr, v14Hdr{K: "X-Boundary", V: []string{v}})
	case 1:
		e.ReqTrailer = []v14Hdr{{K: "X-Boundary-T", V: []string{v}}}
	case 2:
		e.RespHdr = append(e.RespHdr, v14Hdr{K: "X-Boundary", V: []string{v}})
	default:
		e.RespTrDecl = []v14Hdr{{K: "X-Boundary-T", V: []string{v}}}
		e.RespTrHdr = []string{"X-Boundary-T"}
		e.RespHdr = append(e.RespHdr, v14Hdr{K: "Trailer", V: e.RespTrHdr})
	}
	e.ReqWireSize = v14ReqWireSize(e, cf)
}

// ---------------------------------------------------------------------------------------
// expected views

type v14Want struct {
	Header    map[string][]string
	Unordered map[string]bool     // keys whose value order is unspecified
	Optional  map[string][]string // keys that may be absent; when present must equal this (nil value = any single valid value)
	ContLen   []int64             // admissible ContentLength values
	Trailer   map[string][]string
}

func v14CookieCrumbs(vv []string) []string {
	var out []string
	for _, v := range vv {
		parts := strings.Split(v, ";")
		for i, p := range parts {
			if i > 0 {
				p = strings.TrimLeft(p, " ")
			}
			if i == len(parts)-1 && p == "" {
				continue
			}
			out = append(out, p)
		}
	}
	return out
}

func (e *v14Exch) actualReqLen() int64 {
	switch e.ReqBodyKind {
	case 0, 1:
		return 0
	case 2:
		return e.ReqBody.Len
	}
	return -1
}

func (e *v14Exch) requestedGzip(cf *v14Conf) bool {
	if cf.DisableCompr || e.Method == "HEAD" {
		return false
	}
	for _, h := range e.ReqHdr {
		if (h.K == "Accept-Encoding" || h.K == "Range") && len(h.V) > 0 {
			return false
		}
	}
	return true
}

func (e *v14Exch) host() string {
	if e.HostOver != "" {
		return e.HostOver
	}
	return e.URLHost
}

func (e *v14Exch) url() *url.URL {
	u := &url.URL{Scheme: e.Scheme, Host: e.URLHost, Path: e.Path, RawQuery: e.RawQuery}
	return u
}

func v14SendsContentLength(method string, n int64) bool {
	if n > 0 {
		return true
	}
	if n < 0 {
		return false
	}
	return method == "POST" || method == "PUT" || method == "PATCH"
}

// wantRequest: what the handler must observe.
func (e *v14Exch) wantRequest(cf *v14Conf) *v14Want {
	w := &v14Want{Header: map[string][]string{}, Unordered: map[string]bool{}, Optional: map[string][]string{}, Trailer: map[string][]string{}}
	src := map[string]int{}
	didUA := false
	var cookies []string
	for _, h := range e.ReqHdr {
		ck := http.CanonicalHeaderKey(h.K)
		vv := h.V
		switch ck {
		case "Host", "Content-Length", "Connection", "Proxy-Connection", "Transfer-Encoding", "Upgrade", "Keep-Alive":
			continue
		case "User-Agent":
			didUA = true
			if len(vv) == 0 || vv[0] == "" {
				continue
			}
			vv = vv[:1]
		case "Cookie":
			cookies = append(cookies, v14CookieCrumbs(vv)...)
			continue
		case "Expect":
			w.Optional["Expect"] = vv // the server consumes "100-continue"; either view is accepted
			continue
		}
		if len(vv) == 0 {
			continue
		}
		w.Header[ck] = append(w.Header[ck], vv...)
		src[ck]++
		if src[ck] > 1 {
			w.Unordered[ck] = true
		}
	}
	if len(cookies) > 0 {
		w.Header["Cookie"] = []string{strings.Join(cookies, "; ")}
	}
	if n := e.actualReqLen(); v14SendsContentLength(e.Method, n) {
		w.Header["Content-Length"] = []string{strconv.FormatInt(n, 10)}
	}
	if e.requestedGzip(cf) {
		w.Header["Accept-Encoding"] = []string{"gzip"}
	}
	if !didUA {
		w.Header["User-Agent"] = []string{"Go-http-client/2.0"}
	}
	w.ContLen = []int64{e.actualReqLen()}
	for _, t := range e.ReqTrailer {
		w.Trailer[http.CanonicalHeaderKey(t.K)] = t.V
	}
	return w
}

// v14ReqWireSize is the RFC 9113 section 6.5.2 size of the request's field list as the
// Transport is documented to send it.
func v14ReqWireSize(e *v14Exch, cf *v14Conf) int64 {
	var n int64
	add := func(k, v string) { n += int64(len(k) + len(v) + 32) }
	add(":authority", e.host())
	add(":method", e.Method)
	if e.Method != "CONNECT" {
		add(":path", e.url().RequestURI())
		add(":scheme", e.Scheme)
	}
	if len(e.ReqTrailer) > 0 {
		var keys []string
		for _, t := range e.ReqTrailer {
			keys = append(keys, http.CanonicalHeaderKey(t.K))
		}
		add("trailer", strings.Join(keys, ","))
	}
	w := e.wantRequest(cf)
	for k, vv := range w.Header {
		if k == "Cookie" {
			continue
		}
		for _, v := range vv {
			add(k, v)
		}
	}
	for k, vv := range w.Optional {
		for _, v := range vv {
			add(k, v)
		}
	}
	for _, h := range e.ReqHdr {
		if h.K == "Cookie" {
			for _, c := range v14CookieCrumbs(h.V) {
				add("cookie", c)
			}
		}
	}
	return n
}

// wantResponse: what the client must get. sniffK is the number of body bytes the handler had
// written when the response header went out (see the Assume list); wrote is what the handler
// wrote in total.
func (e *v14Exch) wantResponse(cf *v14Conf, sniffK int64) *v14Want {
	w := &v14Want{Header: map[string][]string{}, Unordered: map[string]bool{}, Optional: map[string][]string{}, Trailer: map[string][]string{}}
	src := map[string]int{}
	hasCT, hasCE, hasDate := false, false, false
	for _, h := range e.RespHdr {
		ck := http.CanonicalHeaderKey(h.K)
		if ck == "Trailer" {
			continue
		}
		if len(h.V) == 0 {
			continue
		}
		switch ck {
		case "Content-Type":
			hasCT = true
		case "Content-Encoding":
			hasCE = true
		case "Date":
			hasDate = true
		}
		w.Header[ck] = append(w.Header[ck], h.V...)
		src[ck]++
		if src[ck] > 1 {
			w.Unordered[ck] = true
		}
	}
	if !hasDate {
		w.Header["Date"] = nil // any valid HTTP date
	}
	bodyStatus := e.Status != 204 && e.Status != 304
	written := e.RespBody.Len // what the handler writes (also for HEAD, where it is discarded)
	if e.RespRaw != nil {
		written = int64(len(e.RespRaw))
	}
	if !bodyStatus {
		written = 0
	}
	if !hasCT && !hasCE && bodyStatus && sniffK > 0 {
		k := sniffK
		if k > 512 {
			k = 512
		}
		p := make([]byte, k)
		e.RespBody.fill(0, p)
		w.Header["Content-Type"] = []string{http.DetectContentType(p)}
	}
	gunzip := e.RespGzip && e.requestedGzip(cf) && e.handlerBody
	switch {
	case gunzip:
		delete(w.Header, "Content-Encoding")
		w.ContLen = []int64{-1}
	case e.RespDecl && bodyStatus:
		w.Header["Content-Length"] = []string{strconv.FormatInt(written, 10)}
		w.ContLen = []int64{written}
	case bodyStatus:
		// undeclared: the server may add the exact length when the handler finished before the
		// header was sent
		w.Optional["Content-Length"] = []string{strconv.FormatInt(written, 10)}
		w.ContLen = []int64{-1, written}
	default:
		w.ContLen = []int64{-1, 0}
	}
	for _, t := range e.RespTrDecl {
		w.Trailer[http.CanonicalHeaderKey(t.K)] = t.V
	}
	for _, t := range e.RespTrPfx {
		w.Trailer[http.CanonicalHeaderKey(t.K)] = t.V
	}
	return w
}

func v14SortedCopy(vv []string) []string {
	c := append([]string(nil), vv...)
	sort.Strings(c)
	return c
}

func v14Short(s string) string {
	if len(s) > 80 {
		return fmt.Sprintf("%q…(%d bytes)", s[:60], len(s))
	}
	return strconv.Quote(s)
}

func v14ShortList(vv []string) string {
	if vv == nil {
		return "<absent>"
	}
	var p []string
	for i, v := range vv {
		if i == 4 {
			p = append(p, fmt.Sprintf("…(%d values)", len(vv)))
			break
		}
		p = append(p, v14Short(v))
	}
	return "[" + strings.Join(p, " ") + "]"
}

func v14EqList(a, b []string) bool {
	if len(a) != len(b) {
		return false
	}
	for i := range a {
		if a[i] != b[i] {
			return false
		}
	}
	return true
}

func v14HdrClass(k string) string {
	switch k {
	case "Cookie", "Content-Length", "User-Agent", "Accept-Encoding", "Trailer", "Date", "Content-Type", "Content-Encoding", "Host", "Expect", "X-V14-Id":
		return strings.ToLower(k)
	case "Connection", "Proxy-Connection", "Transfer-Encoding", "Upgrade", "Keep-Alive":
		return "connection-specific"
	}
	return "other"
}

// v14CmpHeader compares a received header map with the expectation; report is called with a
// violation key suffix and a detail for every difference.
func v14CmpHeader(got http.Header, w *v14Want, report func(class, detail string)) {
	for k, want := range w.Header {
		g, ok := got[k]
		switch {
		case !ok:
			report(v14HdrClass(k)+"-missing", fmt.Sprintf("field %q is missing; sent %s", k, v14ShortList(want)))
		case want == nil: // any single valid date
			if k == "Date" {
				if len(g) != 1 {
					report("date-invalid", fmt.Sprintf("Date %s", v14ShortList(g)))
				} else if _, err := http.ParseTime(g[0]); err != nil {
					report("date-invalid", fmt.Sprintf("Date %s: %v", v14ShortList(g), err))
				}
			}
		case w.Unordered[k]:
			if !v14EqList(v14SortedCopy(g), v14SortedCopy(want)) {
				report(v14HdrClass(k)+"-value", fmt.Sprintf("field %q: received %s, sent (any order) %s", k, v14ShortList(g), v14ShortList(want)))
			}
		default:
			if !v14EqList(g, want) {
				report(v14HdrClass(k)+"-value", fmt.Sprintf("field %q: received %s, sent %s", k, v14ShortList(g), v14ShortList(want)))
			}
		}
	}
	for k, g := range got {
		if _, ok := w.Header[k]; ok {
			continue
		}
		if opt, ok := w.Optional[k]; ok {
			if !v14EqList(g, opt) {
				report(v14HdrClass(k)+"-value", fmt.Sprintf("optional field %q: received %s, admissible %s", k, v14ShortList(g), v14ShortList(opt)))
			}
			continue
		}
		report(v14HdrClass(k)+"-extra", fmt.Sprintf("field %q = %s was received but not sent", k, v14ShortList(g)))
	}
}

func v14CmpTrailer(got http.Header, want map[string][]string, report func(class, detail string)) {
	for k, wv := range want {
		g, ok := got[k]
		if !ok {
			report("missing", fmt.Sprintf("trailer key %q is missing (sent %s)", k, v14ShortList(wv)))
			continue
		}
		if len(g) == 0 && len(wv) == 0 {
			continue
		}
		if !v14EqList(g, wv) {
			report("value", fmt.Sprintf("trailer %q: received %s, sent %s", k, v14ShortList(g), v14ShortList(wv)))
		}
	}
	for k, g := range got {
		if _, ok := want[k]; !ok {
			report("extra", fmt.Sprintf("trailer %q = %s was received but not sent", k, v14ShortList(g)))
		}
	}
}
