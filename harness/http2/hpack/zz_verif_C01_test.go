//go:build verif

package hpack

import (
	"fmt"
	"hash/fnv"
	"testing"

	"golang.org/x/net/internal/verifrt"
	"golang.org/x/net/internal/verifrt/hpackref"
)

type c01Stats struct {
	blocks, fields, bytes             int64
	evictions                         int64
	idxStatic, idxDynamic             int64
	litIndexed, litPlain, litNever    int64
	nameRefDynamic, nameRefStatic     int64
	huffStrings, rawStrings           int64
	sizeUpdates, doubleUpdates        int64
	tableCompares, pendingBlocks      int64
	opsSetMax, opsLimit, opsClampedBy int64
	tablesIdentical, decoderSuperset  int64
	supersetByCause                   map[string]int64
}

func (s *c01Stats) flush(r *verifrt.R) {
	ev := func(k string, n int64) {
		if n > 0 {
			r.Event(k, n)
		}
	}
	ev("blocks", s.blocks)
	ev("fields_roundtripped", s.fields)
	ev("wire_octets", s.bytes)
	ev("evictions", s.evictions)
	ev("repr_indexed_static", s.idxStatic)
	ev("repr_indexed_dynamic", s.idxDynamic)
	ev("repr_literal_incremental", s.litIndexed)
	ev("repr_literal_without_indexing", s.litPlain)
	ev("repr_literal_never_indexed", s.litNever)
	ev("name_ref_dynamic", s.nameRefDynamic)
	ev("name_ref_static", s.nameRefStatic)
	ev("strings_huffman", s.huffStrings)
	ev("strings_raw", s.rawStrings)
	ev("size_updates_in_band", s.sizeUpdates)
	ev("blocks_with_two_size_updates", s.doubleUpdates)
	ev("table_lockstep_compares", s.tableCompares)
	ev("blocks_with_change_still_pending", s.pendingBlocks)
	ev("ops_set_max_size", s.opsSetMax)
	ev("ops_set_limit", s.opsLimit)
	ev("blocks_after_which_tables_identical", s.tablesIdentical)
	ev("blocks_after_which_decoder_still_holds_entries_the_encoder_dropped", s.decoderSuperset)
	for k, n := range s.supersetByCause {
		ev("decoder_holds_more_because_"+k, n)
	}
}

func c01Hex(b []byte) string {
	if len(b) > 600 {
		return fmt.Sprintf("%x…(%d octets)", b[:600], len(b))
	}
	return fmt.Sprintf("%x", b)
}

// c01History runs one history and applies the C01 oracle after every block.
func c01History(r *verifrt.R, c *verifrt.Case, cfg vuHistCfg) {
	st := &c01Stats{supersetByCause: map[string]int64{}}
	defer st.flush(r)
	h := fnv.New64a()
	histEvict, histDynIdx := int64(0), int64(0)
	var opsSoFar [][]vuOp
	violated := false
	fail := func(b *vuBlock, key, format string, a ...any) bool {
		c.Describe(map[string]any{"history": c.Stream, "failing_block": b.Idx, "size_ops_before_each_block": opsSoFar,
			"block_fields": vuFieldsStr(vuToRefList(b.In), 30), "block_wire_hex": c01Hex(b.Wire), "decoder_allowed_max": b.Allowed})
		c.Violation(key, "block %d: "+format, append([]any{b.Idx}, a...)...)
		violated = true
		return false
	}
	defer vuRecover(func(key, detail string) {
		c.Describe(map[string]any{"history": c.Stream, "size_ops_before_each_block": opsSoFar, "note": "panic during the block after the last one listed"})
		c.Violation(key, "%s", detail)
		r.Event("histories_ended_by_a_violation_in_stream_"+c.Stream, 1)
	})
	vuRunHistory(c.Rng, cfg, func(b *vuBlock) bool {
		opsSoFar = append(opsSoFar, b.Ops)
		for _, op := range b.Ops {
			if op.Limit {
				st.opsLimit++
			} else {
				st.opsSetMax++
			}
		}
		in := vuToRefList(b.In)
		res := b.Res
		// leading size updates, by framing alone
		var announced []uint64
		for _, rp := range res.Reps {
			if rp.Kind != 'S' {
				break
			}
			announced = append(announced, rp.Index.V)
		}
		// cause attribution for the violations below (RFC 7541 section 4.2: after a change the
		// next block starts with the smallest size in force since the last block, if smaller
		// than the final one, then the final one)
		cause := ""
		if b.ChangePend && len(b.In) > 0 {
			minAnn := ^uint64(0)
			for _, v := range announced {
				minAnn = min(minAnn, v)
			}
			switch {
			case len(announced) == 0:
				cause = "no-size-update-after-change"
			case announced[len(announced)-1] != uint64(b.ModelMax):
				cause = "final-size-not-announced"
			case minAnn > uint64(b.ModelMin):
				cause = "size-reduction-not-signalled"
			}
		}

		// (b) the reference decoder accepts the encoder's octets and reads the input fields
		if res.Err != "" {
			return fail(b, "encoder-output-rejected-by-reference:"+res.Err, "reference decoder: %s %s at representation %d", res.Err, res.ErrDetail, res.ErrRep)
		}
		if d := vuFirstDiff(res.Fields, in); d >= 0 {
			if cause != "" {
				return fail(b, "desync:"+cause, "reference decoder reads different fields from field %d on; announced sizes %v, encoder was told max=%d min-since-last-block=%d. written:%s reference:%s", d, announced, b.ModelMax, b.ModelMin, vuFieldsStr(in, 12), vuFieldsStr(res.Fields, 12))
			}
			return fail(b, "reference-reads-different-fields", "from field %d on. written:%s reference:%s", d, vuFieldsStr(in, 12), vuFieldsStr(res.Fields, 12))
		}
		// (a) the real decoder accepts and emits exactly the input
		if err := b.Werr; err != nil || b.Cerr != nil {
			if err == nil {
				err = b.Cerr
			}
			cl := vuErrClass(err)
			if cl == "size-update-position" && len(announced) >= 2 {
				return fail(b, "decoder-rejects-second-size-update", "Decoder error %q on a block that starts with the two size updates %v RFC 7541 4.2 prescribes (table not empty after the first); fields:%s", err, announced, vuFieldsStr(in, 6))
			}
			return fail(b, "decoder-rejects-encoder-output:"+cl, "Decoder error %q; reference decoder accepts the block", err)
		}
		got := vuToRefList(b.Got)
		if d := vuFirstDiff(got, in); d >= 0 {
			if cause != "" {
				return fail(b, "desync:"+cause, "Decoder emits different fields from field %d on; announced sizes %v, encoder was told max=%d min-since-last-block=%d. written:%s emitted:%s", d, announced, b.ModelMax, b.ModelMin, vuFieldsStr(in, 12), vuFieldsStr(got, 12))
			}
			return fail(b, "decoder-emits-different-fields", "from field %d on. written:%s emitted:%s", d, vuFieldsStr(in, 12), vuFieldsStr(got, 12))
		}
		// (c) invariants and lock-step of the three tables
		if k, d := vuCheckDynTab(&b.Enc.dynTab); k != "" {
			return fail(b, "encoder-"+k, "%s", d)
		}
		if k, d := vuCheckDynTab(&b.Dec.dynTab); k != "" {
			return fail(b, "decoder-"+k, "%s", d)
		}
		decTab := vuDynEntries(&b.Dec.dynTab)
		if d := vuFirstDiff(decTab, b.Ref.Dyn); d >= 0 || int64(b.Dec.dynTab.size) != b.Ref.Size || int64(b.Dec.dynTab.maxSize) != b.Ref.MaxSize {
			return fail(b, "decoder-table-differs-from-reference", "entry %d; decoder size %d max %d (%d entries), reference size %d max %d (%d entries)", d, b.Dec.dynTab.size, b.Dec.dynTab.maxSize, len(decTab), b.Ref.Size, b.Ref.MaxSize, len(b.Ref.Dyn))
		}
		if !b.StillPending {
			// The encoder addresses entries from the newest end, so what every continuation of
			// the history needs is: the encoder's table is the newest part of the decoder's, and
			// the decoder's limit is not below the encoder's. (A decoder that still holds older
			// entries the encoder has dropped decodes every future block identically; an
			// encoder entry the decoder lacks, or a smaller decoder limit, breaks some
			// continuation.)
			encTab := vuDynEntries(&b.Enc.dynTab)
			if len(encTab) > len(decTab) || vuFirstDiff(encTab, decTab[:len(encTab)]) >= 0 || b.Dec.dynTab.maxSize < b.Enc.dynTab.maxSize {
				key := "encoder-table-not-newest-part-of-decoder-table"
				if cause != "" {
					key = "desync:" + cause
				}
				return fail(b, key, "after the block: encoder %d entries size %d max %d, decoder %d entries size %d max %d; announced sizes %v, encoder was told max=%d min-since-last-block=%d. encoder:%s decoder:%s",
					len(encTab), b.Enc.dynTab.size, b.Enc.dynTab.maxSize, len(decTab), b.Dec.dynTab.size, b.Dec.dynTab.maxSize, announced, b.ModelMax, b.ModelMin, vuFieldsStr(encTab, 6), vuFieldsStr(decTab, 6))
			}
			if len(decTab) == len(encTab) && b.Dec.dynTab.maxSize == b.Enc.dynTab.maxSize {
				st.tablesIdentical++
			} else {
				st.decoderSuperset++
				if cause != "" {
					st.supersetByCause[cause]++
				}
			}
			if b.Enc.dynTab.maxSize != b.ModelMax {
				// not part of the property; it only means the harness model of the calls is off
				r.Event("harness_model_of_encoder_max_size_off", 1)
			}
			st.tableCompares++
		} else {
			st.pendingBlocks++
		}
		// bookkeeping
		st.blocks++
		st.fields += int64(len(in))
		st.bytes += int64(len(b.Wire))
		h.Write(b.Wire)
		h.Write([]byte{0xff})
		if len(announced) >= 2 {
			st.doubleUpdates++
		}
		for _, rp := range res.Reps {
			histEvict += int64(rp.Evicted)
			st.evictions += int64(rp.Evicted)
			switch rp.Kind {
			case 'S':
				st.sizeUpdates++
				continue
			case 'I':
				if rp.Index.V > 61 {
					st.idxDynamic++
					histDynIdx++
				} else {
					st.idxStatic++
				}
				continue
			case 'L':
				st.litIndexed++
			case 'N':
				st.litPlain++
			case 'V':
				st.litNever++
			}
			if rp.Index.V > 61 {
				st.nameRefDynamic++
			} else if rp.Index.V > 0 {
				st.nameRefStatic++
			} else if rp.NameHuff {
				st.huffStrings++
			} else {
				st.rawStrings++
			}
			if rp.ValueHuff {
				st.huffStrings++
			} else {
				st.rawStrings++
			}
		}
		return true
	})
	nt := histEvict >= 1 && histDynIdx >= 1 && !violated
	r.EvalHash(nt, h.Sum64())
	if nt {
		r.Event("histories_with_eviction_and_dynamic_reference", 1)
	}
	r.Event("histories", 1)
	if violated {
		r.Event("histories_ended_by_a_violation_in_stream_"+c.Stream, 1)
	}
}

func TestVerif_C01(t *testing.T) {
	r := verifrt.Start(t, "C01")
	defer r.Finish()
	r.SetRule("history = 1..40 header blocks of 0..25 fields drawn from a small per-history alphabet (static-table names and pairs, custom names, empty strings, 4 KiB incompressible and Huffman-friendly values, Sensitive with p=0.1) written by one Encoder and read by one Decoder (one Write + Close per block) and by the reference decoder; between blocks 0..3 SetMaxDynamicTableSize / SetMaxDynamicTableSizeLimit calls with values from {0,1,31,32,33,64,100,4096,65536,random}; decoder allowed maximum = 2^20 or exactly the largest size the history announces. After every block: fields identical from Decoder and reference, table invariants, decoder table == reference table, encoder table == newest part of the decoder table and decoder limit >= encoder limit. non-trivial = history with >=1 eviction and >=1 indexed reference to a dynamic-table entry; distinct by the octets on the wire")
	r.Assume("reference decoder written from RFC 7541 (hpackref), pinned by the Appendix C examples; table invariants read white-box from Encoder.dynTab / Decoder.dynTab")
	r.Require("ref_selfcheck_ok", 1)
	if err := hpackref.SelfCheck(); err != nil {
		r.Note("reference self-check failed, nothing was checked: %v", err)
		return
	}
	r.Event("ref_selfcheck_ok", 1)

	r.CasesParallel("histories", r.N(4000, 100000), 0, func(c *verifrt.Case) {
		c01History(r, c, vuHistCfg{pSensitive: 0.1})
	})
	// same, restricted to size-change shapes that stay clear of the size-update defect found on
	// the pinned tree (decoder refuses the second of two leading size updates), so that long
	// histories keep exercising everything else
	r.CasesParallel("histories-single-change", r.N(4000, 100000), 0, func(c *verifrt.Case) {
		c01History(r, c, vuHistCfg{pSensitive: 0.1, avoidKnown: true})
	})
	r.Sample(map[string]any{"what": "first history of stream 'histories' for this seed", "size_ops_before_each_block": c01SamplePlan(r)})
	r.Require("histories_with_eviction_and_dynamic_reference", 500)
	r.Require("table_lockstep_compares", 10000)
	r.Require("size_updates_in_band", 1000)
	r.Require("repr_indexed_dynamic", 1000)
	r.Require("evictions", 1000)
}

func c01SamplePlan(r *verifrt.R) any {
	var blocks []map[string]any
	vuRunHistory(r.Rand("histories", 0), vuHistCfg{pSensitive: 0.1}, func(b *vuBlock) bool {
		if len(blocks) < 6 {
			blocks = append(blocks, map[string]any{"ops": b.Ops, "fields": vuFieldsStr(vuToRefList(b.In), 4), "wire_hex": c01Hex(b.Wire[:min(len(b.Wire), 48)]),
				"decoder_error": fmt.Sprint(b.Werr), "table_entries_after": len(b.Ref.Dyn)})
		}
		return b.Werr == nil
	})
	return blocks
}
