//go:build verif

package hpack

import (
	"fmt"
	"hash/fnv"
	"strings"
	"testing"

	"golang.org/x/net/internal/verifrt"
	"golang.org/x/net/internal/verifrt/hpackref"
)

var c05KindName = map[byte]string{'I': "indexed-reference", 'L': "literal-with-incremental-indexing", 'N': "literal-without-indexing", 'V': "literal-never-indexed", 'S': "size-update"}

// adds counts the entries ever inserted into a table: it is unchanged by evictions and size
// updates and grows by one per insertion.
func c05Adds(dt *dynamicTable) uint64 { return dt.table.evictCount + uint64(len(dt.table.ents)) }

func c05History(r *verifrt.R, c *verifrt.Case, avoidKnown bool) {
	ev := map[string]int64{}
	defer func() {
		for k, n := range ev {
			r.Event(k, n)
		}
	}()
	var opsSoFar [][]vuOp
	describe := func(extra map[string]any) {
		m := map[string]any{"history": c.Stream, "size_ops_before_each_block": opsSoFar}
		for k, v := range extra {
			m[k] = v
		}
		c.Describe(m)
	}
	violated := false
	viol := func(key, format string, a ...any) {
		c.Violation(key, format, a...)
		violated = true
	}
	defer vuRecover(func(key, detail string) {
		describe(map[string]any{"note": "panic during the block after the last one listed"})
		c.Violation(key, "%s", detail)
	})

	// encoder side: table insert count around every WriteField of a sensitive field
	var encBefore uint64
	var encSizeBefore uint32
	// decoder side: insert count after every emitted field
	var decAddsAtEmit []uint64
	var decAddsBlockStart uint64
	cfg := vuHistCfg{pSensitive: 0.3, twins: true, avoidKnown: avoidKnown, tagSensitive: true}
	cfg.onWrite = func(e *Encoder, blk, idx int, f HeaderField, before bool) {
		if !f.Sensitive {
			return
		}
		if before {
			encBefore, encSizeBefore = c05Adds(&e.dynTab), e.dynTab.size
			return
		}
		ev["encoder_table_checked_around_sensitive_field"]++
		if a := c05Adds(&e.dynTab); a != encBefore || e.dynTab.size != encSizeBefore {
			describe(map[string]any{"block": blk, "field_index": idx, "field": vuFieldsStr([]hpackref.Field{vuToRef(f)}, 1)})
			viol("encoder-table-changed-by-sensitive-field", "block %d field %d %s: encoder table had %d insertions / size %d before WriteField and %d / %d after", blk, idx, vuFieldsStr([]hpackref.Field{vuToRef(f)}, 1), encBefore, encSizeBefore, a, e.dynTab.size)
		}
	}
	cfg.onEmit = func(d *Decoder, f HeaderField) {
		decAddsAtEmit = append(decAddsAtEmit, c05Adds(&d.dynTab))
	}
	h := fnv.New64a()
	nt := false

	vuRunHistory(c.Rng, cfg, func(b *vuBlock) bool {
		opsSoFar = append(opsSoFar, b.Ops)
		emits := decAddsAtEmit
		decAddsAtEmit = nil
		startAdds := decAddsBlockStart
		decAddsBlockStart = c05Adds(&b.Dec.dynTab)
		if violated {
			return false
		}
		in := vuToRefList(b.In)
		res := b.Res
		// The round trip itself is C01's business: if it broke (known size-update defects), this
		// history cannot be followed any further.
		cut := res.Err != "" || b.Werr != nil || b.Cerr != nil || len(res.Fields) != len(in) || len(b.Got) != len(in) || len(emits) != len(in)
		for i := 0; !cut && i < len(in); i++ {
			if res.Fields[i].Name != in[i].Name || res.Fields[i].Value != in[i].Value || b.Got[i].Name != in[i].Name || b.Got[i].Value != in[i].Value {
				cut = true
			}
		}
		if cut {
			ev["histories_cut_short_by_round_trip_failure"]++
			return false
		}
		// walk the representations with the reference table as it was before each of them
		tmp := b.RefBefore
		fi := 0
		for ri := range res.Reps {
			rp := &res.Reps[ri]
			if rp.Kind == 'S' {
				tmp.SetMaxSize(int64(rp.Index.V))
				continue
			}
			f := in[fi]
			if f.Sensitive {
				ev["sensitive_fields"]++
				inStatic, inDyn, nameKnown := false, false, false
				for _, e := range hpackref.StaticTable {
					if e.Name == f.Name {
						nameKnown = true
						if e.Value == f.Value {
							inStatic = true
						}
					}
				}
				for _, e := range tmp.Dyn {
					if e.Name == f.Name {
						nameKnown = true
						if e.Value == f.Value {
							inDyn = true
						}
					}
				}
				if inStatic {
					ev["sensitive_fields_with_identical_pair_in_static_table"]++
				}
				if inDyn {
					ev["sensitive_fields_with_identical_pair_in_dynamic_table"]++
				}
				if inStatic || inDyn {
					nt = true
				}
				fail := func(key, format string, a ...any) {
					describe(map[string]any{"block": b.Idx, "field_index": fi, "field": vuFieldsStr(in[fi:fi+1], 1), "pair_in_static_table": inStatic, "pair_in_dynamic_table": inDyn,
						"representation_hex": vuHex(b.Wire[rp.Start:rp.End]), "block_wire_hex": vuHex(b.Wire)})
					viol(key, "block %d field %d %s (identical pair in static table: %v, in dynamic table: %v): "+format, append([]any{b.Idx, fi, vuFieldsStr(in[fi:fi+1], 1), inStatic, inDyn}, a...)...)
				}
				if rp.Kind != 'V' {
					fail("sensitive-field-encoded-as-"+c05KindName[rp.Kind], "representation %x… is %s, not a never-indexed literal (0001xxxx)", b.Wire[rp.Start:min(rp.End, rp.Start+6)], c05KindName[rp.Kind])
					return false
				}
				if b.Wire[rp.Start]&0xf0 != 0x10 {
					fail("sensitive-field-type-bits", "first octet %02x", b.Wire[rp.Start])
					return false
				}
				if rp.Index.V != 0 {
					ev["sensitive_fields_name_sent_as_index"]++
				} else if nameKnown {
					ev["sensitive_fields_name_literal_although_indexable"]++
				}
				if !b.Got[fi].Sensitive {
					fail("decoder-drops-sensitive-flag", "Decoder emitted it with Sensitive=false")
					return false
				}
				prev := startAdds
				if fi > 0 {
					prev = emits[fi-1]
				}
				if emits[fi] != prev {
					fail("decoder-table-changed-by-sensitive-field", "decoder table insert count went from %d to %d while decoding it", prev, emits[fi])
					return false
				}
				ev["decoder_table_checked_around_sensitive_field"]++
			} else if b.Got[fi].Sensitive {
				describe(map[string]any{"block": b.Idx, "field_index": fi, "block_wire_hex": vuHex(b.Wire)})
				viol("non-sensitive-field-reported-sensitive", "block %d field %d %s", b.Idx, fi, vuFieldsStr(in[fi:fi+1], 1))
				return false
			}
			if rp.Kind == 'L' {
				tmp.Add(rp.Field)
			}
			fi++
		}
		// no table may hold a value that was only ever written as sensitive
		scan := func(who string, tab []hpackref.Field) bool {
			for _, e := range tab {
				if strings.Contains(e.Value, "#s") {
					describe(map[string]any{"block": b.Idx, "table": who, "block_wire_hex": vuHex(b.Wire)})
					viol("sensitive-value-in-"+who+"-table", "after block %d the %s dynamic table holds %s, a value only ever written with Sensitive=true", b.Idx, who, vuFieldsStr([]hpackref.Field{e}, 1))
					return false
				}
			}
			return true
		}
		if !scan("encoder", vuDynEntries(&b.Enc.dynTab)) || !scan("decoder", vuDynEntries(&b.Dec.dynTab)) || !scan("reference", b.Ref.Dyn) {
			return false
		}
		ev["table_scans_for_tagged_sensitive_values"] += 3
		for _, f := range in {
			if strings.Contains(f.Value, "#s") {
				ev["tagged_sensitive_only_values_written"]++
			}
		}
		ev["blocks"]++
		ev["fields"] += int64(len(in))
		h.Write(b.Wire)
		h.Write([]byte{0xfe})
		return true
	})
	ev["histories"]++
	if nt && !violated {
		ev["histories_with_sensitive_field_already_in_a_table"]++
	}
	r.EvalHash(nt && !violated, h.Sum64())
}

func TestVerif_C05(t *testing.T) {
	r := verifrt.Start(t, "C05")
	defer r.Finish()
	r.SetRule("history as in C01 (1..40 blocks of 0..25 fields from a small alphabet, table-size changes in between) with Sensitive drawn with p=0.3 per field, every 4th field repeating the previous pair with the flag drawn afresh (sensitive / non-sensitive twins in both orders, static-table pairs such as :method GET included), and about half of the sensitive values made unique by a '#s<n>' tag that is never written non-sensitively. non-trivial = history containing a sensitive field whose exact (name,value) pair sits in the static or dynamic table when it is written; distinct by the octets on the wire")
	r.Assume("representation types and table contents before each field come from the reference decoder (hpackref) run on the encoder's octets; encoder/decoder table insert counts are read white-box (evictCount+len)")
	r.Require("ref_selfcheck_ok", 1)
	if err := hpackref.SelfCheck(); err != nil {
		r.Note("reference self-check failed, nothing was checked: %v", err)
		return
	}
	r.Event("ref_selfcheck_ok", 1)
	n := r.N(3000, 60000)
	r.CasesParallel("histories", n, 0, func(c *verifrt.Case) { c05History(r, c, false) })
	r.CasesParallel("histories-single-change", n, 0, func(c *verifrt.Case) { c05History(r, c, true) })
	r.Sample(map[string]any{"what": "a sensitive twin of a static-table pair as the pinned Encoder writes it", "field": ":method=GET sensitive", "wire_hex": fmt.Sprintf("%x", c05SampleWire())})
	r.Require("sensitive_fields", 20000)
	r.Require("sensitive_fields_with_identical_pair_in_dynamic_table", 1000)
	r.Require("sensitive_fields_with_identical_pair_in_static_table", 500)
	r.Require("histories_with_sensitive_field_already_in_a_table", 500)
	r.Require("decoder_table_checked_around_sensitive_field", 20000)
	r.Require("encoder_table_checked_around_sensitive_field", 20000)
	r.Require("tagged_sensitive_only_values_written", 5000)
}

func c05SampleWire() []byte {
	var w writeCollector
	NewEncoder(&w).WriteField(HeaderField{Name: ":method", Value: "GET", Sensitive: true})
	return w.buf
}
