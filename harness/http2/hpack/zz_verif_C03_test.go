//go:build verif

package hpack

import (
	"encoding/json"
	"fmt"
	"hash/fnv"
	"math/rand/v2"
	"sort"
	"strings"
	"testing"

	"golang.org/x/net/internal/verifrt"
	"golang.org/x/net/internal/verifrt/hpackref"
)

type c03Cfg struct {
	maxStr int
	table  uint32
}

type c03Outcome struct {
	fields    []hpackref.Field
	class     string // "ok" or the error class of the first error (Write or Close)
	err       error
	errAt     string
	tab       []hpackref.Field
	size, max uint32
	resumed   int // Write calls that left an incomplete representation in saveBuf
	fed       int // octets of the test block handed to Write so far (including the failing call)
	bufBug    string
}

// c03Run feeds the warm-up blocks (one Write + Close each), then the test block as the given
// chunks + Close, to a fresh Decoder.
func c03Run(cfg c03Cfg, warm [][]byte, chunks [][]byte) *c03Outcome {
	o := &c03Outcome{class: "ok"}
	var em []HeaderField
	d := NewDecoder(cfg.table, func(f HeaderField) { em = append(em, f) })
	if cfg.maxStr > 0 {
		d.SetMaxStringLength(cfg.maxStr)
	}
	for _, w := range warm {
		d.Write(w)
		d.Close()
	}
	em = nil
	for i, ch := range chunks {
		_, err := d.Write(ch)
		o.fed += len(ch)
		if d.saveBuf.Len() > o.fed {
			// white-box: what is kept for the next Write can never exceed what was written
			o.bufBug = fmt.Sprintf("after Write #%d saveBuf holds %d octets, only %d were written in this block", i, d.saveBuf.Len(), o.fed)
			o.err, o.errAt = fmt.Errorf("harness stopped: %s", o.bufBug), fmt.Sprintf("Write #%d", i)
			break
		}
		if err != nil {
			o.err, o.errAt = err, fmt.Sprintf("Write #%d", i)
			break
		}
		if d.saveBuf.Len() > 0 {
			o.resumed++
		}
	}
	if o.err == nil {
		if err := d.Close(); err != nil {
			o.err, o.errAt = err, "Close"
		}
	}
	o.class = vuErrClass(o.err)
	o.fields = vuToRefList(em)
	o.tab = vuDynEntries(&d.dynTab)
	o.size, o.max = d.dynTab.size, d.dynTab.maxSize
	return o
}

type c03Extent struct {
	lo, hi int // a split position p with lo < p < hi lands strictly inside
	kind   string
}

// c03Extents lists, from the reference framing of the block, the byte ranges of every
// representation and of its integers and string bodies.
func c03Extents(b []byte) (exts []c03Extent, reps []hpackref.Rep, rest int) {
	reps, rest = hpackref.FrameAll(b)
	for _, rp := range reps {
		exts = append(exts, c03Extent{rp.Start, rp.End, "representation"})
		p := rp.Start
		exts = append(exts, c03Extent{p, p + rp.Index.Len, "integer"})
		p += rp.Index.Len
		if rp.Kind == 'I' || rp.Kind == 'S' {
			continue
		}
		if !rp.Index.Huge && rp.Index.V == 0 {
			exts = append(exts, c03Extent{p, p + rp.NameLen.Len, "integer"})
			p += rp.NameLen.Len
			k := "raw-string"
			if rp.NameHuff {
				k = "huffman-string"
			}
			exts = append(exts, c03Extent{p, p + len(rp.NameRaw), k})
			p += len(rp.NameRaw)
		}
		exts = append(exts, c03Extent{p, p + rp.ValueLen.Len, "integer"})
		p += rp.ValueLen.Len
		k := "raw-string"
		if rp.ValueHuff {
			k = "huffman-string"
		}
		exts = append(exts, c03Extent{p, p + len(rp.ValueRaw), k})
	}
	if rest < len(b) {
		exts = append(exts, c03Extent{rest, len(b) + 1, "representation"}) // incomplete tail: any cut after its first octet is inside it
	}
	return
}

type c03Desc struct {
	Cfg    c03Cfg
	Gen    string
	Warm   [][]byte
	Block  []byte
	Chunks []int
}

func (d *c03Desc) MarshalJSON() ([]byte, error) {
	var w []string
	for _, b := range d.Warm {
		w = append(w, vuHex(b))
	}
	return json.Marshal(map[string]any{"max_string_length": d.Cfg.maxStr, "table_size": d.Cfg.table, "generator": d.Gen,
		"warmup_blocks_hex": w, "block_hex": vuHex(d.Block), "block_len": len(d.Block), "write_chunk_lengths": d.Chunks})
}

// c03NearBound builds one literal field with a new name whose name and value are about as long
// as SetMaxStringLength allows and whose length prefixes are (legally) zero-padded.
func c03NearBound(rng *rand.Rand, L int) []byte {
	str := func() string {
		n := L - rng.IntN(3)
		if rng.IntN(6) == 0 {
			n = L / 2
		}
		if n < 0 {
			n = 0
		}
		return strings.Repeat(string(rune('a'+rng.IntN(26))), n)
	}
	pad := func() int {
		if rng.IntN(3) == 0 {
			return 0
		}
		return 1 + rng.IntN(8)
	}
	kind := []byte{'L', 'N', 'V'}[rng.IntN(3)]
	var b []byte
	if rng.IntN(4) == 0 {
		b = hpackref.AppendIndexed(b, 2, 0) // something before it
	}
	b = hpackref.AppendLiteral(b, kind, 0, str(), str(), rng.IntN(5) == 0, rng.IntN(5) == 0, 0, pad(), pad())
	if rng.IntN(4) == 0 {
		b = hpackref.AppendIndexed(b, 3, 0)
	}
	if rng.IntN(8) == 0 && len(b) > 2 {
		b = b[:len(b)-1-rng.IntN(2)] // and sometimes truncated
	}
	return b
}

func TestVerif_C03(t *testing.T) {
	r := verifrt.Start(t, "C03")
	defer r.Finish()
	r.SetRule("case = decoder config (max string length in {0,1,16,127,1000,4096}, table 64/256/4096) + 0..2 warm-up blocks + one test block (grammar-based valid/hostile representations incl. zero-padded integers; real Encoder output, sometimes mutated; literal fields near the string-length limit with zero-padded length prefixes; uniform octets) + partitions of it: every 2-split when the block is <= 64 octets, else PRNG 2..6-splits, cuts forced inside integers / string bodies, one octet per Write. Each partition is compared with the single-Write run on a decoder brought to the same state. non-trivial = some cut lies strictly inside a representation; distinct by config + block + partition")
	r.Assume("both decoders reach the same state by replaying the same warm-up blocks; outcome = class of the first error from Write or Close (error identity and the call at which it surfaces are not compared); representation extents come from the reference framing (hpackref)")
	r.Require("ref_selfcheck_ok", 1)
	if err := hpackref.SelfCheck(); err != nil {
		r.Note("reference self-check failed, nothing was checked: %v", err)
		return
	}
	r.Event("ref_selfcheck_ok", 1)

	maxStrs := []int{0, 0, 1, 16, 127, 1000, 4096}
	tables := []uint32{64, 256, 4096, 4096}

	runCase := func(c *verifrt.Case, genName string) {
		rng := c.Rng
		cfg := c03Cfg{maxStr: maxStrs[rng.IntN(len(maxStrs))], table: tables[rng.IntN(len(tables))]}
		ev := map[string]int64{}
		defer func() {
			for k, n := range ev {
				r.Event(k, n)
			}
		}()
		// ---- warm-up blocks and the test block
		var warm [][]byte
		g := vuNewGen(rng, cfg.table, cfg.maxStr, 0)
		for n := rng.IntN(3); n > 0; n-- {
			var b []byte
			for k := 1 + rng.IntN(8); k > 0; k-- {
				b = g.rep(b)
			}
			warm = append(warm, b)
		}
		var block []byte
		switch genName {
		case "grammar":
			g.hostile = []float64{0, 0, 0.05, 0.25}[rng.IntN(4)]
			for k := 1 + rng.IntN(10); k > 0; k-- {
				block = g.rep(block)
			}
			if rng.IntN(8) == 0 && len(block) > 1 {
				block = block[:1+rng.IntN(len(block)-1)]
			}
		case "encoder":
			var w writeCollector
			enc := NewEncoder(&w)
			enc.SetMaxDynamicTableSize(cfg.table)
			alpha := vuNewAlphabet(rng)
			for k := 1 + rng.IntN(12); k > 0; k-- {
				var f HeaderField
				f.Name, f.Value = alpha.pick(rng)
				f.Sensitive = rng.IntN(8) == 0
				enc.WriteField(f)
			}
			block = w.buf
			if rng.IntN(3) == 0 && len(block) > 0 {
				block[rng.IntN(len(block))] ^= 1 << rng.IntN(8)
			}
			warm = nil // the encoder starts from an empty table
		case "near-limit":
			cfg.maxStr = []int{16, 127, 127, 1000, 4096}[rng.IntN(5)]
			block = c03NearBound(rng, cfg.maxStr)
		case "uniform":
			block = make([]byte, 1+rng.IntN(48))
			for i := range block {
				block[i] = byte(rng.Uint32())
			}
		}
		if len(block) < 2 {
			block = append(block, 0x82, 0x86)
		}
		desc := &c03Desc{Cfg: cfg, Gen: genName, Warm: warm, Block: block}
		c.Describe(desc)
		defer vuRecover(func(key, detail string) { c.Violation(key, "%s", detail) })

		exts, reps, _ := c03Extents(block)
		longest := 0
		for _, rp := range reps {
			longest = max(longest, rp.End-rp.Start)
		}
		whole := c03Run(cfg, warm, [][]byte{block})
		ev["blocks"]++
		ev["blocks_"+genName]++
		if whole.class == "ok" {
			ev["blocks_single_write_ok"]++
		} else {
			ev["blocks_single_write_error_"+whole.class]++
		}

		// ---- partitions (as sorted cut positions 0 < p < len)
		var parts [][]int
		n := len(block)
		if n <= 64 {
			for p := 1; p < n; p++ {
				parts = append(parts, []int{p})
			}
			ev["blocks_with_every_2_split"]++
		} else {
			for k := 0; k < 4; k++ {
				parts = append(parts, []int{1 + rng.IntN(n-1)})
			}
			parts = append(parts, []int{n - 1}, []int{1})
		}
		for k := 0; k < 3; k++ { // PRNG 2..6-splits
			m := 1 + rng.IntN(5)
			set := map[int]bool{}
			for i := 0; i < m; i++ {
				set[1+rng.IntN(n-1)] = true
			}
			var cut []int
			for p := range set {
				cut = append(cut, p)
			}
			sort.Ints(cut)
			parts = append(parts, cut)
		}
		// forced: inside integers and string bodies, first/last octet of each
		var forced []int
		for _, e := range exts {
			if e.kind == "representation" || e.hi-e.lo < 2 {
				continue
			}
			forced = append(forced, e.lo+1, e.hi-1)
			if e.hi-e.lo > 3 {
				forced = append(forced, e.lo+1+rng.IntN(e.hi-e.lo-1))
			}
		}
		rng.Shuffle(len(forced), func(i, j int) { forced[i], forced[j] = forced[j], forced[i] })
		for i, p := range forced {
			if i >= 10 {
				break
			}
			if p > 0 && p < n {
				parts = append(parts, []int{p})
			}
		}
		if n <= 600 || rng.IntN(4) == 0 { // one octet per Write
			all := make([]int, 0, n-1)
			for p := 1; p < n; p++ {
				all = append(all, p)
			}
			parts = append(parts, all)
			ev["one_octet_per_write_runs"]++
		}

		for _, cut := range parts {
			var chunks [][]byte
			var lens []int
			prev := 0
			for _, p := range cut {
				chunks = append(chunks, block[prev:p])
				lens = append(lens, p-prev)
				prev = p
			}
			chunks = append(chunks, block[prev:])
			lens = append(lens, n-prev)
			desc.Chunks = lens
			split := c03Run(cfg, warm, chunks)

			inside := false
			kinds := map[string]bool{}
			for _, p := range cut {
				for _, e := range exts {
					if e.lo < p && p < e.hi {
						kinds[e.kind] = true
						if e.kind == "representation" {
							inside = true
						}
					}
				}
			}
			ev["partitions_compared"]++
			if inside {
				ev["partitions_cutting_inside_a_representation"]++
			}
			for k := range kinds {
				if k != "representation" {
					ev["partitions_cutting_inside_"+k]++
				}
			}
			ev["writes_that_left_a_partial_representation_buffered"] += int64(split.resumed)
			h := fnv.New64a()
			fmt.Fprintf(h, "%d/%d/%v/", cfg.maxStr, cfg.table, cut)
			for _, w := range warm {
				h.Write(w)
				h.Write([]byte{0xfe})
			}
			h.Write(block)
			r.EvalHash(inside, h.Sum64())

			if split.bufBug != "" {
				c.Violation("savebuf-grows-beyond-input", "chunks %v: %s", lens, split.bufBug)
				ev["partitions_with_violation"]++
				break // the decoder is blowing up; further partitions of this block would only burn time
			}
			if split.class != whole.class {
				key := "split-changes-outcome"
				if cfg.maxStr > 0 && split.class == "string-length" {
					// narrow signature of the saveBuf bound in Decoder.Write: the failing Write ended
					// strictly inside a complete representation of which more than 2*(maxStrLen+8)
					// octets had been written by then
					for _, rp := range reps {
						if rp.Start < split.fed && split.fed < rp.End && split.fed-rp.Start > 2*(cfg.maxStr+8) {
							key = "split-refuses-representation-longer-than-savebuf-bound"
						}
					}
				}
				c.Violation(key, "single Write: %s (%v, %d fields); chunks %v: %s at %s (%v, %d fields); SetMaxStringLength(%d), longest representation %d octets, block %d octets",
					whole.class, whole.err, len(whole.fields), lens, split.class, split.errAt, split.err, len(split.fields), cfg.maxStr, longest, n)
				ev["partitions_with_violation"]++
				continue
			}
			if d := vuFirstDiff(split.fields, whole.fields); d >= 0 {
				c.Violation("split-changes-emitted-fields", "chunks %v: field %d differs. single Write:%s split:%s", lens, d, vuFieldsStr(whole.fields, 8), vuFieldsStr(split.fields, 8))
				continue
			}
			if d := vuFirstDiff(split.tab, whole.tab); d >= 0 || split.size != whole.size || split.max != whole.max {
				c.Violation("split-changes-table-state", "chunks %v (outcome %s): table entry %d; single Write size %d max %d (%d entries), split size %d max %d (%d entries)", lens, whole.class, d, whole.size, whole.max, len(whole.tab), split.size, split.max, len(split.tab))
				continue
			}
		}
	}

	n := r.N(8000, 100000)
	r.CasesParallel("grammar", n, 0, func(c *verifrt.Case) { runCase(c, "grammar") })
	r.CasesParallel("encoder", n/3, 0, func(c *verifrt.Case) { runCase(c, "encoder") })
	r.CasesParallel("near-limit", n/3, 0, func(c *verifrt.Case) { runCase(c, "near-limit") })
	r.CasesParallel("uniform", n/3, 0, func(c *verifrt.Case) { runCase(c, "uniform") })

	r.Sample(map[string]any{"what": "near-limit block 0 of this seed (literal field, SetMaxStringLength(127))", "block_hex": vuHex(c03NearBound(r.Rand("near-limit-sample", 0), 127))})
	r.Require("partitions_cutting_inside_a_representation", 50000)
	r.Require("partitions_cutting_inside_integer", 2000)
	r.Require("partitions_cutting_inside_huffman-string", 2000)
	r.Require("partitions_cutting_inside_raw-string", 2000)
	r.Require("writes_that_left_a_partial_representation_buffered", 50000)
	r.Require("blocks_single_write_ok", 2000)
	r.Require("one_octet_per_write_runs", 1000)
}
