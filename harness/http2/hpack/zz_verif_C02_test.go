//go:build verif

package hpack

import (
	"encoding/json"
	"fmt"
	"hash/fnv"
	"sort"
	"sync"
	"testing"

	"golang.org/x/net/internal/verifrt"
	"golang.org/x/net/internal/verifrt/hpackref"
)

var c02MaxStr = []int{0, 1, 16, 127, 4096}
var c02Allowed = []uint32{0, 64, 4096}

type c02Case struct {
	MaxStrLen int
	Allowed   uint32
	Gen       string
	Blocks    [][]byte
	Chunks    [][]int
}

// MarshalJSON renders the case only when a replay file is actually written.
func (d *c02Case) MarshalJSON() ([]byte, error) {
	var hx []string
	for _, b := range d.Blocks {
		hx = append(hx, c02Hex(b))
	}
	return json.Marshal(map[string]any{"max_string_length": d.MaxStrLen, "allowed_max_table_size": d.Allowed, "generator": d.Gen,
		"blocks_hex": hx, "write_chunk_lengths_per_block": d.Chunks})
}

func c02Hex(b []byte) string {
	if len(b) > 1500 {
		return fmt.Sprintf("%x…(%d octets)", b[:1500], len(b))
	}
	return fmt.Sprintf("%x", b)
}

func TestVerif_C02(t *testing.T) {
	r := verifrt.Start(t, "C02")
	defer r.Finish()
	r.SetRule("case = decoder config (max string length in {0,1,16,127,4096}, allowed table size in {0,64,4096}) + an octet sequence from one of three generators (uniform octets; grammar-based representations with valid and hostile indices, overlong / huge integers, strings around the length limit, broken Huffman, size updates at and above the allowed maximum; real Encoder output with bit flips, truncation, splices), cut into 1..4 header blocks, each written in 1..3 Write calls and closed. non-trivial = the decoder emitted at least one field and then reported an error; distinct by config + octets")
	r.Assume("reference decoder written from RFC 7541 with unbounded integers (hpackref); rejections the RFC leaves to the implementation (integers longer than 10 octets, Huffman octets longer than the string limit, size update after a field) are accepted either way; the documented SetMaxStringLength contract is treated as mandatory")
	r.Require("ref_selfcheck_ok", 1)
	if err := hpackref.SelfCheck(); err != nil {
		r.Note("reference self-check failed, nothing was checked: %v", err)
		return
	}
	r.Event("ref_selfcheck_ok", 1)

	var clsMu sync.Mutex
	classes := map[string]bool{}

	runCase := func(c *verifrt.Case, genName string) {
		rng := c.Rng
		maxStr := c02MaxStr[rng.IntN(len(c02MaxStr))]
		allowed := c02Allowed[rng.IntN(len(c02Allowed))]
		// ---- input
		var stream []byte
		var boundaries []int // representation boundaries (grammar generator)
		switch genName {
		case "uniform":
			stream = make([]byte, rng.IntN(65))
			for i := range stream {
				stream[i] = byte(rng.Uint32())
			}
		case "grammar":
			hostile := []float64{0, 0.02, 0.1, 0.3}[rng.IntN(4)]
			g := vuNewGen(rng, allowed, maxStr, hostile)
			for n := 1 + rng.IntN(30); n > 0; n-- {
				stream = g.rep(stream)
				boundaries = append(boundaries, len(stream))
			}
		case "mutated-encoder":
			var w writeCollector
			enc := NewEncoder(&w)
			enc.SetMaxDynamicTableSize(allowed)
			alpha := vuNewAlphabet(rng)
			for n := 1 + rng.IntN(30); n > 0; n-- {
				var f HeaderField
				f.Name, f.Value = alpha.pick(rng)
				f.Sensitive = rng.IntN(8) == 0
				enc.WriteField(f)
				boundaries = append(boundaries, len(w.buf))
				if rng.IntN(10) == 0 {
					enc.SetMaxDynamicTableSize(uint32(rng.IntN(int(allowed) + 2)))
				}
			}
			stream = w.buf
			for k := rng.IntN(4); k > 0 && len(stream) > 0; k-- {
				switch rng.IntN(4) {
				case 0:
					stream[rng.IntN(len(stream))] ^= 1 << rng.IntN(8)
				case 1:
					stream = stream[:rng.IntN(len(stream)+1)]
				case 2: // splice: repeat a slice of the stream somewhere else
					a, b := rng.IntN(len(stream)), rng.IntN(len(stream))
					if a > b {
						a, b = b, a
					}
					at := rng.IntN(len(stream) + 1)
					stream = append(append(append([]byte(nil), stream[:at]...), stream[a:b]...), stream[at:]...)
				default:
					stream[rng.IntN(len(stream))] = byte(rng.Uint32())
				}
			}
		}
		// ---- cut into blocks
		nb := 1 + rng.IntN(4)
		var cuts []int
		for i := 1; i < nb; i++ {
			if len(boundaries) > 0 && rng.IntN(5) != 0 {
				if b := boundaries[rng.IntN(len(boundaries))]; b <= len(stream) {
					cuts = append(cuts, b)
					continue
				}
			}
			cuts = append(cuts, rng.IntN(len(stream)+1))
		}
		sort.Ints(cuts)
		var blocks [][]byte
		prev := 0
		for _, cu := range cuts {
			blocks = append(blocks, stream[prev:cu])
			prev = cu
		}
		blocks = append(blocks, stream[prev:])
		desc := &c02Case{MaxStrLen: maxStr, Allowed: allowed, Gen: genName}
		var chunked [][][]byte
		for _, b := range blocks {
			desc.Blocks = append(desc.Blocks, b)
			ch := vuSplit(rng, b, 1+rng.IntN(3))
			chunked = append(chunked, ch)
			var ls []int
			for _, x := range ch {
				ls = append(ls, len(x))
			}
			desc.Chunks = append(desc.Chunks, ls)
		}
		c.Describe(desc)

		// ---- run
		var emitted []HeaderField
		dec := NewDecoder(allowed, func(f HeaderField) { emitted = append(emitted, f) })
		if maxStr > 0 {
			dec.SetMaxStringLength(maxStr)
		}
		ref := hpackref.NewDecoder(allowed)
		ref.MaxStrLen = maxStr

		ev := map[string]int64{}
		defer func() {
			for k, n := range ev {
				r.Event(k, n)
			}
		}()
		defer vuRecover(func(key, detail string) { c.Violation(key, "%s", detail) })

		inv := func(where string) bool {
			if k, d := vuCheckDynTab(&dec.dynTab); k != "" {
				c.Violation("decoder-"+k, "%s: %s", where, d)
				return false
			}
			if dec.dynTab.maxSize > dec.dynTab.allowedMaxSize || dec.dynTab.size > allowed {
				c.Violation("table-above-allowed-maximum", "%s: size %d maxSize %d allowed %d", where, dec.dynTab.size, dec.dynTab.maxSize, allowed)
				return false
			}
			ev["table_invariant_checks"]++
			return true
		}
		checkEmitted := func(fs []HeaderField) bool {
			if maxStr == 0 {
				return true
			}
			for _, f := range fs {
				if len(f.Name) > maxStr || len(f.Value) > maxStr {
					c.Violation("emitted-string-above-max-length", "emitted name %d / value %d octets with SetMaxStringLength(%d)", len(f.Name), len(f.Value), maxStr)
					return false
				}
			}
			return true
		}

		h := fnv.New64a()
		fmt.Fprintf(h, "%d/%d/", maxStr, allowed)
		nontrivial := false
		totalFields := 0
	blocksLoop:
		for bi, chunks := range chunked {
			block := blocks[bi]
			h.Write(block)
			h.Write([]byte{0xfe})
			emitted = nil
			var implErr error
			for ci, ch := range chunks {
				_, err := dec.Write(ch)
				ev["writes"]++
				if !inv(fmt.Sprintf("block %d after Write %d", bi, ci)) {
					return
				}
				if err != nil {
					implErr = err
					break
				}
			}
			if implErr == nil {
				implErr = dec.Close()
				if !inv(fmt.Sprintf("block %d after Close", bi)) {
					return
				}
			}
			ev["blocks"]++
			if !checkEmitted(emitted) {
				return
			}
			got := vuToRefList(emitted)
			res := ref.Decode(block)
			totalFields += len(got)
			ev["fields_emitted"] += int64(len(got))
			for _, rp := range res.Reps {
				ev["evictions_in_reference"] += int64(rp.Evicted)
				if rp.Kind == 'S' {
					ev["size_updates_in_input"]++
				}
			}
			if res.Err != "" {
				ev["ref_reject_"+res.Err]++
			}
			if implErr == nil {
				if res.Err != "" {
					c.Violation("accepts-malformed:"+res.Err, "block %d: Write/Close returned no error; reference: %s %s at representation %d (offset %d). emitted:%s", bi, res.Err, res.ErrDetail, res.ErrRep, c02Offset(res), vuFieldsStr(got, 8))
					return
				}
				if d := vuFirstDiff(got, res.Fields); d >= 0 {
					c.Violation("emits-fields-not-in-input", "block %d accepted, but field %d differs from what the octets encode. emitted:%s reference:%s", bi, d, vuFieldsStr(got, 10), vuFieldsStr(res.Fields, 10))
					return
				}
				tab := vuDynEntries(&dec.dynTab)
				if d := vuFirstDiff(tab, ref.Dyn); d >= 0 || int64(dec.dynTab.size) != ref.Size || int64(dec.dynTab.maxSize) != ref.MaxSize {
					c.Violation("table-differs-from-reference", "block %d accepted; entry %d; decoder size %d max %d (%d entries), reference size %d max %d (%d entries). decoder:%s reference:%s", bi, d, dec.dynTab.size, dec.dynTab.maxSize, len(tab), ref.Size, ref.MaxSize, len(ref.Dyn), vuFieldsStr(tab, 5), vuFieldsStr(ref.Dyn, 5))
					return
				}
				ev["blocks_accepted_and_equal_to_reference"]++
				for _, m := range res.May {
					ev["accepted_although_may_reject_"+m.Why]++
				}
				continue
			}
			// the implementation reported an error: nothing it emitted before may be made up
			cl := vuErrClass(implErr)
			ev["impl_error_"+cl]++
			if len(got) > len(res.Fields) || vuFirstDiff(got, res.Fields[:len(got)]) >= 0 {
				c.Violation("emits-fields-not-in-input", "block %d: error %q, but before it the decoder emitted fields the octets do not encode. emitted:%s reference:%s (reference: %s at representation %d)", bi, implErr, vuFieldsStr(got, 10), vuFieldsStr(res.Fields, 10), res.Err, res.ErrRep)
				return
			}
			explained := ""
			if res.Err != "" && res.FieldsBefore(res.ErrRep) == len(got) {
				explained = "mandatory_" + res.Err
			} else {
				for _, m := range res.May {
					if res.FieldsBefore(m.Rep) == len(got) {
						explained = "may_" + m.Why
						break
					}
				}
			}
			if explained == "" && res.Err != "" {
				explained = "earlier_than_mandatory_" + res.Err
			}
			if explained == "" {
				ev["impl_rejects_what_reference_accepts_"+cl]++
			} else {
				ev["impl_rejection_explained_"+explained]++
			}
			clsMu.Lock()
			classes[cl] = true
			clsMu.Unlock()
			if totalFields > 0 {
				nontrivial = true
				ev["cases_fields_then_error"]++
			}
			break blocksLoop // a decoding error ends the connection
		}
		ev["cases"]++
		ev["cases_"+genName]++
		r.EvalHash(nontrivial, h.Sum64())
	}

	n := r.N(30000, 600000)
	r.CasesParallel("grammar", n, 0, func(c *verifrt.Case) { runCase(c, "grammar") })
	r.CasesParallel("mutated-encoder", n/2, 0, func(c *verifrt.Case) { runCase(c, "mutated-encoder") })
	r.CasesParallel("uniform", n/2, 0, func(c *verifrt.Case) { runCase(c, "uniform") })

	var cl []string
	for k := range classes {
		cl = append(cl, k)
	}
	sort.Strings(cl)
	r.SetExtra("implementation_error_classes_seen", cl)
	r.Sample(map[string]any{"what": "first grammar case of this seed", "case": c02Sample(r)})
	r.Require("blocks_accepted_and_equal_to_reference", 5000)
	r.Require("cases_fields_then_error", 2000)
	r.Require("table_invariant_checks", 50000)
	for _, k := range []string{hpackref.ErrBadIndex, hpackref.ErrBadHuffman, hpackref.ErrSizeTooLarge, hpackref.ErrTruncated, hpackref.ErrStringTooLong} {
		r.Require("ref_reject_"+k, 200)
	}
	r.Require("evictions_in_reference", 1000)
}

func c02Offset(res *hpackref.Result) int {
	if res.ErrRep < len(res.Reps) {
		return res.Reps[res.ErrRep].Start
	}
	if len(res.Reps) > 0 {
		return res.Reps[len(res.Reps)-1].End
	}
	return 0
}

func c02Sample(r *verifrt.R) any {
	rng := r.Rand("grammar", 0)
	g := vuNewGen(rng, 4096, 16, 0.1)
	var b []byte
	for i := 0; i < 6; i++ {
		b = g.rep(b)
	}
	res := hpackref.NewDecoder(4096).Decode(b)
	return map[string]any{"octets_hex": c02Hex(b), "reference_fields": vuFieldsStr(res.Fields, 6), "reference_error": res.Err}
}
