//go:build verif

package hpack

import (
	"bytes"
	"fmt"
	"math/rand/v2"
	"sync"
	"testing"

	"golang.org/x/net/internal/verifrt"
	"golang.org/x/net/internal/verifrt/hpackref"
)

// c04cov is per-case coverage, merged into the run's events once per case.
type c04cov struct {
	tailBytes [5]int64 // octets written after the last 32-bit flush
	padBits   [8]int64
	flushLeft [32]int64 // bits left in the accumulator after a 32-bit flush
	byLenSym  [31]int64 // symbols encoded, per code length
	encodes   int64
	decAccept int64
	decReject map[string]int64
	implErrs  map[string]int64
}

func (cv *c04cov) flush(r *verifrt.R, mu *sync.Mutex, leftSeen *[32]bool) {
	for i, n := range cv.tailBytes {
		if n > 0 {
			r.Event(fmt.Sprintf("enc_tail_octets_%d", i), n)
		}
	}
	for i, n := range cv.padBits {
		if n > 0 {
			r.Event(fmt.Sprintf("enc_pad_bits_%d", i), n)
		}
	}
	var long, l30 int64
	for l, n := range cv.byLenSym {
		if l >= 19 {
			long += n
		}
		if l == 30 {
			l30 += n
		}
	}
	if long > 0 {
		r.Event("enc_symbols_code_19_to_30_bits", long)
	}
	if l30 > 0 {
		r.Event("enc_symbols_code_30_bits", l30)
	}
	if cv.encodes > 0 {
		r.Event("strings_encoded", cv.encodes)
	}
	if cv.decAccept > 0 {
		r.Event("dec_inputs_accepted", cv.decAccept)
	}
	for k, n := range cv.decReject {
		r.Event("dec_inputs_rejected_"+k, n)
	}
	for k, n := range cv.implErrs {
		r.Event("dec_impl_error_"+k, n)
	}
	mu.Lock()
	for i, n := range cv.flushLeft {
		if n > 0 {
			leftSeen[i] = true
		}
	}
	mu.Unlock()
}

func TestVerif_C04(t *testing.T) {
	r := verifrt.Start(t, "C04")
	defer r.Finish()
	r.SetRule("encode direction: the empty string, every 1- and 2-octet string, PRNG strings of 0..300 octets from symbol palettes (text, one code length, two code lengths, repeated symbol, 30-bit symbols, uniform); decode direction: every 1- and 2-octet input (3-octet inputs: all in thorough, a PRNG slice in quick), PRNG octets, valid encodings with bit flips / truncation / appended 0xff / padding changes / spliced EOS. non-trivial = string with >= 32 code bits (reaches the 32-bit flush) or decode input of >= 2 octets; distinct by content")
	r.Assume("reference Huffman code = canonical code derived from a frozen list of the 257 RFC 7541 code lengths, pinned by the RFC 7541 Appendix C strings (hpackref.SelfCheck)")
	r.Require("ref_selfcheck_ok", 1)
	if err := hpackref.SelfCheck(); err != nil {
		r.Note("reference self-check failed, nothing was checked: %v", err)
		return
	}
	r.Event("ref_selfcheck_ok", 1)

	var covMu sync.Mutex
	var leftSeen [32]bool

	checkEncode := func(c *verifrt.Case, cv *c04cov, s string) {
		c.Describe(map[string]any{"dir": "encode", "string_hex": fmt.Sprintf("%x", s)})
		want := hpackref.HuffmanEncode(nil, s)
		enc := AppendHuffmanString(nil, s)
		if !bytes.Equal(enc, want) {
			c.Violation("encode-not-canonical", "AppendHuffmanString(%x)=%x, canonical encoding is %x", s, enc, want)
		}
		if l := HuffmanEncodeLength(s); l != uint64(len(enc)) || l != uint64(len(want)) {
			c.Violation("encodelength-mismatch", "HuffmanEncodeLength(%x)=%d, AppendHuffmanString wrote %d octets, canonical %d", s, l, len(enc), len(want))
		}
		dec, err := HuffmanDecodeToString(enc)
		if err != nil {
			c.Violation("roundtrip-decode-error", "HuffmanDecodeToString(AppendHuffmanString(%x)=%x) error %v", s, enc, err)
		} else if dec != s {
			c.Violation("roundtrip-differs", "HuffmanDecodeToString(AppendHuffmanString(%x)=%x)=%x", s, enc, dec)
		}
		var buf bytes.Buffer
		n, err := HuffmanDecode(&buf, enc)
		if err != nil || n != len(s) || buf.String() != s {
			c.Violation("roundtrip-writer-variant", "HuffmanDecode(w, AppendHuffmanString(%x)=%x) = %d,%v wrote %x", s, enc, n, err, buf.Bytes())
		}
		pre := []byte{0x5a, 0xa5, 0x00}
		if e2 := AppendHuffmanString(append([]byte(nil), pre...), s); !bytes.Equal(e2[:3], pre) || !bytes.Equal(e2[3:], enc) {
			c.Violation("append-clobbers-dst", "AppendHuffmanString(%x, %x)=%x", pre, s, e2)
		}
		// coverage bookkeeping (not an oracle)
		bits := uint(0)
		acc := uint(0)
		for i := 0; i < len(s); i++ {
			l := uint(hpackref.HuffLen[s[i]])
			cv.byLenSym[l]++
			bits += l
			acc += l
			if acc >= 32 {
				acc -= 32
				cv.flushLeft[acc]++
			}
		}
		cv.tailBytes[(acc+7)/8]++
		cv.padBits[(8-bits%8)%8]++
		cv.encodes++
		r.EvalBytes(bits >= 32, append([]byte("e"), s...))
	}

	checkDecode := func(c *verifrt.Case, cv *c04cov, v []byte) {
		c.Describe(map[string]any{"dir": "decode", "input_hex": fmt.Sprintf("%x", v)})
		want, why := hpackref.HuffmanDecode(v)
		got, err := HuffmanDecodeToString(v)
		switch {
		case why == "" && err != nil:
			// v is the canonical encoding of want, so this breaks the round trip clause
			if re := AppendHuffmanString(nil, want); bytes.Equal(re, v) {
				c.Violation("decode-rejects-valid-encoding", "HuffmanDecodeToString(%x) error %v; input is the encoding of %x", v, err, want)
			} else {
				c.Violation("encode-not-canonical", "AppendHuffmanString(%x)=%x, canonical encoding is %x", want, re, v)
			}
		case why != "" && err == nil:
			c.Violation("decode-accepts-"+why, "HuffmanDecodeToString(%x) accepted (output %x); reference: %s", v, got, why)
		case why == "" && err == nil:
			if got != want {
				c.Violation("decode-wrong-output", "HuffmanDecodeToString(%x)=%x, reference %x", v, got, want)
			}
			if re := AppendHuffmanString(nil, got); !bytes.Equal(re, v) {
				c.Violation("decode-accepted-noncanonical", "HuffmanDecodeToString(%x)=%x but AppendHuffmanString of that is %x", v, got, re)
			}
		}
		var buf bytes.Buffer
		n, err2 := HuffmanDecode(&buf, v)
		if (err2 == nil) != (err == nil) || (err == nil && (buf.String() != got || n != len(got))) || (err2 != nil && (n != 0 || buf.Len() != 0)) {
			c.Violation("decode-variants-disagree", "HuffmanDecode(w,%x)=(%d,%v) wrote %x; HuffmanDecodeToString=(%x,%v)", v, n, err2, buf.Bytes(), got, err)
		}
		if why == "" {
			cv.decAccept++
		} else {
			if cv.decReject == nil {
				cv.decReject = map[string]int64{}
			}
			cv.decReject[why]++
		}
		if err != nil {
			if cv.implErrs == nil {
				cv.implErrs = map[string]int64{}
			}
			if err == ErrInvalidHuffman {
				cv.implErrs["ErrInvalidHuffman"]++
			} else {
				cv.implErrs["other"]++
			}
		}
		r.EvalBytes(len(v) >= 2, append([]byte("d"), v...))
	}

	// ---- exhaustive short strings / inputs
	r.CasesParallel("enc-exhaustive-1-2", 256, 0, func(c *verifrt.Case) {
		cv := &c04cov{}
		defer cv.flush(r, &covMu, &leftSeen)
		if c.Index == 0 {
			checkEncode(c, cv, "")
		}
		checkEncode(c, cv, string([]byte{byte(c.Index)}))
		for j := 0; j < 256; j++ {
			checkEncode(c, cv, string([]byte{byte(c.Index), byte(j)}))
		}
	})
	r.CasesParallel("dec-exhaustive-1-2-3", 256, 0, func(c *verifrt.Case) {
		cv := &c04cov{}
		defer cv.flush(r, &covMu, &leftSeen)
		if c.Index == 0 {
			checkDecode(c, cv, nil)
		}
		checkDecode(c, cv, []byte{byte(c.Index)})
		var third []int
		if r.Thorough() {
			for k := 0; k < 256; k++ {
				third = append(third, k)
			}
		} else {
			for k := 0; k < 6; k++ {
				third = append(third, c.Rng.IntN(256))
			}
			third = append(third, 0xff, 0x00)
		}
		for j := 0; j < 256; j++ {
			checkDecode(c, cv, []byte{byte(c.Index), byte(j)})
			for _, k := range third {
				checkDecode(c, cv, []byte{byte(c.Index), byte(j), byte(k)})
			}
		}
	})
	if r.Thorough() {
		r.SetExtra("exhaustive_decode_inputs_up_to_octets", 3)
	} else {
		r.SetExtra("exhaustive_decode_inputs_up_to_octets", 2)
	}
	r.SetExtra("exhaustive_encode_strings_up_to_octets", 2)

	// ---- PRNG strings
	lens := []int{}
	for l := 5; l <= 30; l++ {
		if len(hpackref.SymbolsByLen(l)) > 0 {
			lens = append(lens, l)
		}
	}
	text := []byte("abcdefghijklmnopqrstuvwxyzABCDEFGHIJKLMNOPQRSTUVWXYZ0123456789-_./:;=,% *&")
	genString := func(rng *rand.Rand) string {
		var n int
		switch rng.IntN(4) {
		case 0:
			n = rng.IntN(13)
		case 1:
			n = rng.IntN(40)
		default:
			n = rng.IntN(301)
		}
		b := make([]byte, n)
		switch rng.IntN(7) {
		case 0: // uniform octets
			for i := range b {
				b[i] = byte(rng.Uint32())
			}
		case 1: // header-like text
			for i := range b {
				b[i] = text[rng.IntN(len(text))]
			}
		case 2: // one code length
			syms := hpackref.SymbolsByLen(lens[rng.IntN(len(lens))])
			for i := range b {
				b[i] = syms[rng.IntN(len(syms))]
			}
		case 3: // two code lengths
			s1 := hpackref.SymbolsByLen(lens[rng.IntN(len(lens))])
			s2 := hpackref.SymbolsByLen(lens[rng.IntN(len(lens))])
			for i := range b {
				if rng.IntN(2) == 0 {
					b[i] = s1[rng.IntN(len(s1))]
				} else {
					b[i] = s2[rng.IntN(len(s2))]
				}
			}
		case 4: // one symbol repeated
			x := byte(rng.Uint32())
			for i := range b {
				b[i] = x
			}
		case 5: // 30-bit symbols among short ones
			s30 := hpackref.SymbolsByLen(30)
			for i := range b {
				if rng.IntN(3) == 0 {
					b[i] = s30[rng.IntN(len(s30))]
				} else {
					b[i] = text[rng.IntN(len(text))]
				}
			}
		default: // long codes only
			for i := range b {
				b[i] = byte(128 + rng.IntN(128))
			}
		}
		return string(b)
	}
	const batch = 256
	nEnc := r.N(2000, 30000)
	r.CasesParallel("enc-random", nEnc, 0, func(c *verifrt.Case) {
		cv := &c04cov{}
		defer cv.flush(r, &covMu, &leftSeen)
		for i := 0; i < batch; i++ {
			checkEncode(c, cv, genString(c.Rng))
		}
	})
	// ---- PRNG / mutated decode inputs
	eos := []byte{0xff, 0xff, 0xff, 0xff}
	nDec := r.N(2000, 30000)
	r.CasesParallel("dec-random", nDec, 0, func(c *verifrt.Case) {
		cv := &c04cov{}
		defer cv.flush(r, &covMu, &leftSeen)
		rng := c.Rng
		for i := 0; i < batch; i++ {
			var v []byte
			if rng.IntN(4) == 0 {
				v = make([]byte, rng.IntN(41))
				for j := range v {
					v[j] = byte(rng.Uint32())
				}
			} else {
				v = hpackref.HuffmanEncode(nil, genString(rng))
				switch rng.IntN(8) {
				case 0: // unchanged valid encoding
				case 1:
					if len(v) > 0 {
						v[rng.IntN(len(v))] ^= 1 << rng.IntN(8)
					}
				case 2:
					if len(v) > 0 {
						v = v[:len(v)-1-rng.IntN(min(len(v), 3))]
					}
				case 3:
					v = append(v, 0xff)
				case 4:
					v = append(v, byte(rng.Uint32()))
				case 5: // disturb the padding bits of the last octet
					if len(v) > 0 {
						v[len(v)-1] ^= byte(1 << rng.IntN(3))
					}
				case 6: // EOS spliced in at an octet boundary
					at := rng.IntN(len(v) + 1)
					v = append(append(append([]byte(nil), v[:at]...), eos...), v[at:]...)
				case 7: // last octet rewritten: short code + all-ones tail
					if len(v) > 0 {
						v[len(v)-1] = byte(rng.Uint32()) | byte(1<<rng.IntN(8)-1)
					}
				}
			}
			checkDecode(c, cv, v)
		}
	})

	n := 0
	for _, s := range leftSeen {
		if s {
			n++
		}
	}
	r.SetExtra("distinct_accumulator_remainders_after_32bit_flush", n)
	r.Sample(map[string]any{"string": "www.example.com", "AppendHuffmanString_hex": fmt.Sprintf("%x", AppendHuffmanString(nil, "www.example.com"))})
	r.Sample(map[string]any{"decode_input_hex": "1fff", "HuffmanDecodeToString_error": fmt.Sprint(func() error { _, err := HuffmanDecodeToString([]byte{0x1f, 0xff}); return err }())})
	r.Require("strings_encoded", 50000)
	r.Require("dec_inputs_accepted", 10000)
	r.Require("dec_inputs_rejected_"+hpackref.HuffEOS, 100)
	r.Require("dec_inputs_rejected_"+hpackref.HuffPadTooLong, 100)
	r.Require("dec_inputs_rejected_"+hpackref.HuffPadNotOnes, 100)
	r.Require("dec_inputs_rejected_"+hpackref.HuffIncomplete, 100)
	r.Require("enc_symbols_code_30_bits", 100)
	for i := 0; i < 5; i++ {
		r.Require(fmt.Sprintf("enc_tail_octets_%d", i), 100)
	}
	for i := 0; i < 8; i++ {
		r.Require(fmt.Sprintf("enc_pad_bits_%d", i), 100)
	}
}
