//go:build verif

package hpack

// Helpers shared by the hpack monitors (C01, C02, C03, C05).

import (
	"errors"
	"fmt"
	"io"
	"math/rand/v2"
	"regexp"
	"runtime/debug"
	"strings"

	"golang.org/x/net/internal/verifrt/hpackref"
)

func vuToRef(f HeaderField) hpackref.Field {
	return hpackref.Field{Name: f.Name, Value: f.Value, Sensitive: f.Sensitive}
}

func vuToRefList(fs []HeaderField) []hpackref.Field {
	out := make([]hpackref.Field, len(fs))
	for i, f := range fs {
		out[i] = vuToRef(f)
	}
	return out
}

// vuDynEntries returns the live dynamic table, newest entry first (HPACK index order),
// without the Sensitive flag (tables do not carry it).
func vuDynEntries(dt *dynamicTable) []hpackref.Field {
	n := len(dt.table.ents)
	out := make([]hpackref.Field, n)
	for k, f := range dt.table.ents {
		out[n-1-k] = hpackref.Field{Name: f.Name, Value: f.Value}
	}
	return out
}

// vuCheckDynTab checks the structural invariants of a dynamic table: size is the sum of the
// entry sizes, size <= maxSize, and byName / byNameValue hold exactly the unique id of the
// newest entry for every name / pair present (no stale keys). Returns "" or (key, detail).
func vuCheckDynTab(dt *dynamicTable) (string, string) {
	t := &dt.table
	var sum uint64
	byName := map[string]uint64{}
	byNV := map[pairNameValue]uint64{}
	for k, f := range t.ents {
		sum += uint64(len(f.Name)) + uint64(len(f.Value)) + 32
		id := uint64(k) + t.evictCount + 1
		byName[f.Name] = id
		byNV[pairNameValue{f.Name, f.Value}] = id
	}
	if sum != uint64(dt.size) {
		return "table-size-not-sum-of-entries", fmt.Sprintf("size field %d, entries sum to %d (%d entries)", dt.size, sum, len(t.ents))
	}
	if dt.size > dt.maxSize {
		return "table-size-above-max", fmt.Sprintf("size %d > maxSize %d", dt.size, dt.maxSize)
	}
	if len(t.byName) != len(byName) {
		return "table-byname-stale-key", fmt.Sprintf("byName has %d keys, table has %d distinct names", len(t.byName), len(byName))
	}
	for n, id := range byName {
		if t.byName[n] != id {
			return "table-byname-not-newest", fmt.Sprintf("byName[%q]=%d, newest entry with that name has id %d (evictCount %d, len %d)", n, t.byName[n], id, t.evictCount, len(t.ents))
		}
	}
	if len(t.byNameValue) != len(byNV) {
		return "table-bynamevalue-stale-key", fmt.Sprintf("byNameValue has %d keys, table has %d distinct pairs", len(t.byNameValue), len(byNV))
	}
	for p, id := range byNV {
		if t.byNameValue[p] != id {
			return "table-bynamevalue-not-newest", fmt.Sprintf("byNameValue[%q,%q]=%d, newest such entry has id %d", p.name, p.value, t.byNameValue[p], id)
		}
	}
	return "", ""
}

// vuErrClass maps a Decoder error to a coarse class (identity of the error value is not part
// of any property).
func vuErrClass(err error) string {
	if err == nil {
		return "ok"
	}
	if err == ErrStringLength {
		return "string-length"
	}
	if err == ErrInvalidHuffman {
		return "invalid-huffman"
	}
	var de DecodingError
	if errors.As(err, &de) {
		if _, ok := de.Err.(InvalidIndexError); ok {
			return "invalid-index"
		}
		msg := de.Err.Error()
		switch {
		case strings.Contains(msg, "truncated"):
			return "truncated"
		case strings.Contains(msg, "update too large"):
			return "size-update-too-large"
		case strings.Contains(msg, "MUST occur at the beginning"):
			return "size-update-position"
		case strings.Contains(msg, "varint integer overflow"):
			return "varint-overflow"
		}
		return "decoding-error:" + msg
	}
	return "other:" + err.Error()
}

func vuFieldsStr(fs []hpackref.Field, max int) string {
	var sb strings.Builder
	for i, f := range fs {
		if i == max {
			fmt.Fprintf(&sb, " …(%d more)", len(fs)-max)
			break
		}
		n, v := f.Name, f.Value
		if len(n) > 40 {
			n = n[:40] + "…"
		}
		if len(v) > 40 {
			v = fmt.Sprintf("%s…(%d)", v[:40], len(f.Value))
		}
		s := ""
		if f.Sensitive {
			s = "!"
		}
		fmt.Fprintf(&sb, " [%q=%q%s]", n, v, s)
	}
	return sb.String()
}

func vuFirstDiff(a, b []hpackref.Field) int {
	for i := 0; i < len(a) && i < len(b); i++ {
		if a[i] != b[i] {
			return i
		}
	}
	if len(a) != len(b) {
		return min(len(a), len(b))
	}
	return -1
}

// ---- field alphabet for histories (C01, C05)

type vuAlphabet struct {
	names  []string
	values [][]string // per name
}

// vuNewAlphabet builds a small alphabet so that repeats (table hits) and evictions are
// frequent: static-table names and pairs, custom names, the empty string, long,
// incompressible and Huffman-friendly values.
func vuNewAlphabet(rng *rand.Rand) *vuAlphabet {
	rnd := func(n int) string {
		b := make([]byte, n)
		for i := range b {
			b[i] = byte(rng.Uint32())
		}
		return string(b)
	}
	a := &vuAlphabet{}
	add := func(n string, vs ...string) {
		a.names = append(a.names, n)
		a.values = append(a.values, vs)
	}
	add(":method", "GET", "POST", "PUT", "")
	add(":path", "/", "/index.html", "/a/b/c?d=e", strings.Repeat("/seg", 30))
	add(":status", "200", "404", "302", "999")
	add("accept-encoding", "gzip, deflate", "br", "")
	add("cookie", "a=b", "session="+strings.Repeat("0123456789abcdef", 4), rnd(24), "")
	add("content-type", "text/html", "application/json", "")
	add("x-a", "1", "2", "3", "")
	add("x-b", "1", "yes", strings.Repeat("v", 90))
	add("", "", "empty-name", "x")
	add("x-"+strings.Repeat("long-name-", 10), "1", "")
	add("x-bin", rnd(7), rnd(40), "\x00\xff\x80")
	add("X-Upper", "MiXed", "\n\r")
	if rng.IntN(3) == 0 {
		add("x-huge", rnd(4096), strings.Repeat("compressible text ", 230), "small")
	}
	if rng.IntN(3) == 0 {
		add("x-mid", rnd(200), strings.Repeat("e", 300), strings.Repeat("~", 130))
	}
	return a
}

func (a *vuAlphabet) pick(rng *rand.Rand) (string, string) {
	i := rng.IntN(len(a.names))
	// skew towards few names so that pairs repeat
	if rng.IntN(2) == 0 {
		i = rng.IntN(min(6, len(a.names)))
	}
	vs := a.values[i]
	return a.names[i], vs[rng.IntN(len(vs))]
}

var vuSizeChoices = []uint32{0, 1, 31, 32, 33, 64, 100, 4096, 65536}

func vuPickSize(rng *rand.Rand) uint32 {
	switch rng.IntN(5) {
	case 0:
		return uint32(rng.IntN(400))
	case 1:
		return uint32(rng.IntN(8192))
	}
	return vuSizeChoices[rng.IntN(len(vuSizeChoices))]
}

// ---- encoder/decoder history runner (C01, C05)

type vuOp struct {
	Limit bool   `json:"limit"` // SetMaxDynamicTableSizeLimit instead of SetMaxDynamicTableSize
	V     uint32 `json:"v"`
}

type vuHistCfg struct {
	pSensitive float64
	twins      bool // interleave sensitive / non-sensitive fields with equal name and value
	// avoidKnown restricts the size-change operations to shapes for which the encoder emits a
	// single size update (the pinned Decoder refuses the second of two leading updates, see
	// C01), so that everything else is still exercised over long histories: at most one change
	// between two blocks and the limit is never lowered below the current maximum size.
	avoidKnown bool
	// tagSensitive appends a unique "#s<n>" tag to the value of about half of the sensitive
	// fields; a tagged value is never written as a non-sensitive field, so finding it in any
	// table is attributable to exactly one sensitive field.
	tagSensitive bool
	onEmit       func(d *Decoder, f HeaderField)                            // inside the Decoder's emit callback
	onWrite      func(e *Encoder, blk, idx int, f HeaderField, before bool) // around every Encoder.WriteField
}

type vuBlock struct {
	Idx        int
	Ops        []vuOp
	In         []HeaderField
	Wire       []byte
	Res        *hpackref.Result
	RefBefore  *hpackref.Decoder // reference state before this block
	Got        []HeaderField
	Werr, Cerr error
	Enc        *Encoder
	Dec        *Decoder
	Ref        *hpackref.Decoder
	// harness-side model of what the encoder was told (not read from the encoder)
	ModelMax     uint32 // maximum size the encoder must be using now
	ModelMin     uint32 // smallest maximum size in force at any time since the last block that carried fields
	ChangePend   bool   // a size change happened since the last block that carried fields (before this block's fields)
	StillPending bool   // this block carried no field, so the change is still unannounced
	Allowed      uint32
}

// vuRunHistory drives one Encoder, one Decoder and the reference decoder through a PRNG
// history of header blocks with table-size operations in between. onBlock returns false to
// stop (state has diverged).
func vuRunHistory(rng *rand.Rand, cfg vuHistCfg, onBlock func(b *vuBlock) bool) (plan [][]vuOp) {
	alpha := vuNewAlphabet(rng)
	nBlocks := 1 + rng.IntN(40)
	if rng.IntN(4) == 0 {
		nBlocks = 1 + rng.IntN(6)
	}
	pOps := []float64{0, 0.15, 0.4, 0.8}[rng.IntN(4)]
	maxFields := []int{3, 8, 25}[rng.IntN(3)]
	// plan the size operations first: the decoder's allowed maximum must cover them
	limit, cur := uint32(4096), uint32(4096)
	maxSeen := uint32(4096)
	plan = make([][]vuOp, nBlocks)
	for i := range plan {
		if rng.Float64() >= pOps {
			continue
		}
		k := 1 + rng.IntN(3)
		if cfg.avoidKnown {
			k = 1
		}
		for j := 0; j < k; j++ {
			op := vuOp{Limit: rng.IntN(3) == 0, V: vuPickSize(rng)}
			if cfg.avoidKnown && op.Limit && op.V < cur {
				op.Limit = false
			}
			if op.Limit {
				limit = op.V
				if cur > limit {
					cur = limit
				}
			} else {
				cur = min(op.V, limit)
			}
			maxSeen = max(maxSeen, cur)
			plan[i] = append(plan[i], op)
		}
	}
	allowed := uint32(1 << 20)
	if rng.IntN(2) == 0 {
		allowed = maxSeen // tight: the largest value that will ever be announced
	}

	var wire writeCollector
	enc := NewEncoder(&wire)
	var got []HeaderField
	var dec *Decoder
	dec = NewDecoder(4096, func(f HeaderField) {
		got = append(got, f)
		if cfg.onEmit != nil {
			cfg.onEmit(dec, f)
		}
	})
	dec.SetAllowedMaxDynamicTableSize(allowed)
	ref := hpackref.NewDecoder(4096)
	ref.Allowed = int64(allowed)

	limit, cur = 4096, 4096
	modelMin := ^uint32(0)
	pending := false
	var last HeaderField
	haveLast := false
	tagN := 0
	for i := 0; i < nBlocks; i++ {
		for _, op := range plan[i] {
			if op.Limit {
				enc.SetMaxDynamicTableSizeLimit(op.V)
				limit = op.V
				if cur > limit {
					cur = limit
					pending = true
					modelMin = min(modelMin, cur)
				}
			} else {
				enc.SetMaxDynamicTableSize(op.V)
				cur = min(op.V, limit)
				pending = true
				modelMin = min(modelMin, cur)
			}
		}
		n := rng.IntN(maxFields + 1)
		if cfg.avoidKnown && pending && n == 0 {
			n = 1
		}
		in := make([]HeaderField, 0, n)
		for j := 0; j < n; j++ {
			var f HeaderField
			if cfg.twins && haveLast && rng.IntN(4) == 0 {
				f = last // same pair again, sensitivity drawn afresh below
			} else {
				f.Name, f.Value = alpha.pick(rng)
			}
			f.Sensitive = rng.Float64() < cfg.pSensitive
			if strings.Contains(f.Value, "#s") {
				f.Sensitive = true // a tagged value stays sensitive-only
			} else if cfg.tagSensitive && f.Sensitive && rng.IntN(2) == 0 {
				tagN++
				f.Value = fmt.Sprintf("%s#s%d", f.Value, tagN)
			}
			in = append(in, f)
			last, haveLast = f, true
		}
		wire.buf = wire.buf[:0]
		for j, f := range in {
			if cfg.onWrite != nil {
				cfg.onWrite(enc, i, j, f, true)
			}
			if err := enc.WriteField(f); err != nil {
				panic("WriteField on an in-memory writer failed: " + err.Error())
			}
			if cfg.onWrite != nil {
				cfg.onWrite(enc, i, j, f, false)
			}
		}
		b := &vuBlock{Idx: i, Ops: plan[i], In: in, Wire: append([]byte(nil), wire.buf...), Enc: enc, Dec: dec, Ref: ref,
			ModelMax: cur, ModelMin: modelMin, ChangePend: pending, Allowed: allowed}
		b.RefBefore = ref.Clone()
		got = nil
		// Other users of the package in the same process (internal/http3 decodes QPACK strings
		// with the exported Huffman helpers) share the package's buffer pool with the Decoder:
		// let some of them run, on valid and on invalid input, right before the block is read.
		for k := rng.IntN(3); k > 0; k-- {
			hs := AppendHuffmanString(nil, []string{"x-left-over-from-another-user-of-the-pool", "www.example.org", "0123456789", "\x00\xff"}[rng.IntN(4)])
			switch rng.IntN(3) {
			case 0:
				HuffmanDecode(io.Discard, hs)
			case 1:
				HuffmanDecodeToString(hs)
			default:
				HuffmanDecodeToString(append(hs, 0x00, 0x00, 0x00, 0x00)) // ends in an error
			}
		}
		_, b.Werr = dec.Write(b.Wire)
		if b.Werr == nil {
			b.Cerr = dec.Close()
		}
		b.Got = got
		b.Res = ref.Decode(b.Wire)
		if len(in) > 0 {
			pending = false
			modelMin = ^uint32(0)
		}
		b.StillPending = pending
		if !onBlock(b) {
			return plan
		}
	}
	return plan
}

type writeCollector struct{ buf []byte }

func (w *writeCollector) Write(p []byte) (int, error) {
	w.buf = append(w.buf, p...)
	return len(p), nil
}

var vuDigits = regexp.MustCompile(`[0-9]+`)

// vuRecover turns a panic inside golang/net code into a violation with a key that does not
// depend on the numbers in the panic message. Use as: defer vuRecover(func(key, detail string){…}).
func vuRecover(report func(key, detail string)) {
	if e := recover(); e != nil {
		msg := fmt.Sprint(e)
		k := vuDigits.ReplaceAllString(msg, "N")
		if i := strings.IndexByte(k, '\n'); i >= 0 {
			k = k[:i]
		}
		if len(k) > 70 {
			k = k[:70]
		}
		st := strings.Split(string(debug.Stack()), "\n")
		if len(st) > 30 {
			st = st[:30]
		}
		report("panic:"+k, fmt.Sprintf("panic: %v\n%s", e, strings.Join(st, "\n")))
	}
}

// ---- grammar-based header block generator (C02, C03)

type vuGen struct {
	rng       *rand.Rand
	model     *hpackref.Decoder // generator-side table model, so that indices are mostly valid
	maxStrLen int
	allowed   uint32
	hostile   float64 // probability that a representation is deliberately broken
	words     []string
}

func vuNewGen(rng *rand.Rand, maxTable uint32, maxStrLen int, hostile float64) *vuGen {
	g := &vuGen{rng: rng, model: hpackref.NewDecoder(maxTable), maxStrLen: maxStrLen, allowed: maxTable, hostile: hostile}
	g.words = []string{"", "a", "b", "x-a", "x-b", "k", "cookie", "gzip", "0", "1", "text/html", ":path", "/", "Mon, 21 Oct 2013 20:13:21 GMT",
		strings.Repeat("v", 15), strings.Repeat("w", 16), strings.Repeat("~", 17), "\x00\xff", strings.Repeat("e", 126), strings.Repeat("f", 127), strings.Repeat("g", 128),
		strings.Repeat("long-", 60)}
	return g
}

func (g *vuGen) str() string {
	rng := g.rng
	if g.maxStrLen > 0 && rng.IntN(3) == 0 {
		// around the configured maximum
		n := g.maxStrLen + rng.IntN(3) - 1
		if n < 0 {
			n = 0
		}
		b := make([]byte, n)
		switch rng.IntN(3) {
		case 0:
			for i := range b {
				b[i] = "aeiost012"[rng.IntN(9)] // 5-bit codes: Huffman form is shorter
			}
		case 1:
			for i := range b {
				b[i] = byte(1 + rng.IntN(8)) // 28-bit codes: Huffman form is 3.5 times longer
			}
		default:
			for i := range b {
				b[i] = byte(rng.Uint32())
			}
		}
		return string(b)
	}
	if rng.IntN(6) == 0 {
		b := make([]byte, rng.IntN(40))
		for i := range b {
			b[i] = byte(rng.Uint32())
		}
		return string(b)
	}
	return g.words[rng.IntN(len(g.words))]
}

func (g *vuGen) pad() int {
	switch g.rng.IntN(12) {
	case 0:
		return 1 + g.rng.IntN(3)
	case 1:
		return 8 // a 127-octet length then takes 10 octets: the longest integer readVarInt accepts
	case 2:
		if g.rng.Float64() < g.hostile {
			return 9 + g.rng.IntN(4) // longer than any implementation needs to accept
		}
	}
	return 0
}

var vuHugeInts = []uint64{1 << 31, 1<<32 - 1, 1 << 32, 1<<62 + 5, 1<<63 - 1, 1 << 63, ^uint64(0)}

func (g *vuGen) index(nameOnly bool) uint64 {
	rng := g.rng
	n := uint64(61 + len(g.model.Dyn))
	if rng.Float64() < g.hostile {
		switch rng.IntN(5) {
		case 0:
			if !nameOnly {
				return 0
			}
			return n + 1
		case 1:
			return n + 1
		case 2:
			return n + 2 + uint64(rng.IntN(200))
		case 3:
			return vuHugeInts[rng.IntN(len(vuHugeInts))]
		default:
			return 127 + uint64(rng.IntN(3)) // prefix boundary
		}
	}
	if len(g.model.Dyn) > 0 && rng.IntN(2) == 0 {
		return 62 + uint64(rng.IntN(len(g.model.Dyn)))
	}
	return 1 + uint64(rng.IntN(61))
}

// appendStr appends a string literal, possibly broken.
func (g *vuGen) appendStr(dst []byte, s string) []byte {
	rng := g.rng
	huff := rng.IntN(2) == 0
	pad := g.pad()
	if rng.Float64() >= g.hostile*0.5 {
		return hpackref.AppendString(dst, s, huff, pad)
	}
	switch rng.IntN(6) {
	case 0: // declared length larger than the data
		data := []byte(s)
		if huff {
			data = hpackref.HuffmanEncode(nil, s)
		}
		flags := byte(0)
		if huff {
			flags = 0x80
		}
		dst = hpackref.AppendInt(dst, 7, flags, uint64(len(data)+1+rng.IntN(5)), pad)
		return append(dst, data...)
	case 1: // enormous declared length
		return hpackref.AppendInt(dst, 7, byte(rng.IntN(2))<<7, vuHugeInts[rng.IntN(len(vuHugeInts))], 0)
	case 2: // Huffman with a flipped bit
		data := hpackref.HuffmanEncode(nil, s+"x")
		data[rng.IntN(len(data))] ^= 1 << rng.IntN(8)
		dst = hpackref.AppendInt(dst, 7, 0x80, uint64(len(data)), pad)
		return append(dst, data...)
	case 3: // Huffman with a whole octet of padding
		data := append(hpackref.HuffmanEncode(nil, s), 0xff)
		dst = hpackref.AppendInt(dst, 7, 0x80, uint64(len(data)), pad)
		return append(dst, data...)
	case 4: // Huffman containing EOS
		data := append(hpackref.HuffmanEncode(nil, s), 0xff, 0xff, 0xff, 0xff)
		dst = hpackref.AppendInt(dst, 7, 0x80, uint64(len(data)), pad)
		return append(dst, data...)
	default: // Huffman ending in zero padding
		data := hpackref.HuffmanEncode(nil, s+"0")
		data[len(data)-1] &^= 1
		dst = hpackref.AppendInt(dst, 7, 0x80, uint64(len(data)), pad)
		return append(dst, data...)
	}
}

// rep appends one representation and advances the generator's table model.
func (g *vuGen) rep(dst []byte) []byte {
	rng := g.rng
	start := len(dst)
	switch x := rng.IntN(100); {
	case x < 32:
		dst = hpackref.AppendIndexed(dst, g.index(false), g.pad())
	case x < 80:
		kind := []byte{'L', 'L', 'N', 'V'}[rng.IntN(4)]
		var nameIdx uint64
		if rng.IntN(2) == 0 {
			nameIdx = g.index(true)
		}
		switch kind {
		case 'L':
			dst = hpackref.AppendInt(dst, 6, 0x40, nameIdx, g.pad())
		case 'V':
			dst = hpackref.AppendInt(dst, 4, 0x10, nameIdx, g.pad())
		default:
			dst = hpackref.AppendInt(dst, 4, 0x00, nameIdx, g.pad())
		}
		if nameIdx == 0 {
			dst = g.appendStr(dst, g.str())
		}
		dst = g.appendStr(dst, g.str())
	case x < 92:
		v := uint64(g.allowed)
		switch rng.IntN(4) {
		case 0:
			v = 0
		case 1:
			v = uint64(rng.IntN(int(g.allowed) + 1))
		case 2:
			v = uint64(rng.IntN(200))
			if v > uint64(g.allowed) {
				v = uint64(g.allowed)
			}
		}
		if rng.Float64() < g.hostile {
			if rng.IntN(2) == 0 {
				v = uint64(g.allowed) + 1 + uint64(rng.IntN(3))
			} else {
				v = vuHugeInts[rng.IntN(len(vuHugeInts))]
			}
		}
		dst = hpackref.AppendSizeUpdate(dst, v, g.pad())
	default:
		if rng.Float64() < g.hostile {
			if rng.IntN(2) == 0 {
				// an integer of 2^64 or more whose low 64 bits are a perfectly valid value
				chunks, hi := 9+rng.IntN(3), byte(2*(1+rng.IntN(60)))
				switch rng.IntN(4) {
				case 0: // literal, name index = valid static index + k*2^64
					dst = hpackref.AppendIntWrapped(dst, 4, byte(rng.IntN(2))<<4, 15+uint64(rng.IntN(47)), chunks, hi)
					dst = hpackref.AppendString(dst, "v", false, 0)
				case 1: // size update
					dst = hpackref.AppendIntWrapped(dst, 5, 0x20, 31+uint64(rng.IntN(30)), chunks, hi)
				case 2: // literal with indexing, name index 63..
					dst = hpackref.AppendIntWrapped(dst, 6, 0x40, 63+uint64(rng.IntN(3)), chunks, hi)
					dst = hpackref.AppendString(dst, "v", false, 0)
				default: // string length 127 + k*2^64 followed by 127 octets
					dst = append(dst, 0x00)
					dst = hpackref.AppendIntWrapped(dst, 7, 0, 127, chunks, hi)
					dst = append(dst, strings.Repeat("n", 127)...)
					dst = hpackref.AppendString(dst, "v", false, 0)
				}
				break
			}
			for i := 1 + rng.IntN(4); i > 0; i-- {
				dst = append(dst, byte(rng.Uint32()))
			}
		} else {
			dst = hpackref.AppendIndexed(dst, 1+uint64(rng.IntN(61)), 0)
		}
	}
	g.model.MaxStrLen = 0
	g.model.Decode(dst[start:]) // keeps the model's table roughly in step; errors are irrelevant here
	return dst
}

// vuSplit cuts b into k consecutive chunks at PRNG positions (chunks may be empty).
func vuSplit(rng *rand.Rand, b []byte, k int) [][]byte {
	if k <= 1 || len(b) == 0 {
		return [][]byte{b}
	}
	cuts := make([]int, k-1)
	for i := range cuts {
		cuts[i] = rng.IntN(len(b) + 1)
	}
	for i := range cuts { // insertion sort, k is tiny
		for j := i; j > 0 && cuts[j] < cuts[j-1]; j-- {
			cuts[j], cuts[j-1] = cuts[j-1], cuts[j]
		}
	}
	var out [][]byte
	prev := 0
	for _, c := range cuts {
		out = append(out, b[prev:c])
		prev = c
	}
	return append(out, b[prev:])
}

func vuHex(b []byte) string {
	if len(b) > 1500 {
		return fmt.Sprintf("%x…(%d octets)", b[:1500], len(b))
	}
	return fmt.Sprintf("%x", b)
}
