//go:build verif && !(go1.27 && !http2legacy)

package http2

// Shared history harness of the write-scheduler monitors (C12, C13).
//
// A history is a PRNG-generated sequence of WriteScheduler calls that respects the interface
// contract documented in writesched_common.go and the way serverConn drives a scheduler:
// stream ids are never reused, client (odd) and pushed (even) ids only grow, stream frames
// are only pushed on open streams, RST_STREAM and connection frames carry stream == nil,
// nothing is pushed on a stream after a frame with END_STREAM, a stream never depends on
// itself. Everything else is free: streams are closed while frames are queued, PRIORITY /
// PRIORITY_UPDATE arrive for idle, open and closed ids, windows shrink below zero.
//
// The model is a sequential one written from the interface documentation: a FIFO per open
// stream, a FIFO of control frames, a window per stream and one for the connection.

import (
	"bytes"
	"fmt"
	"math/rand/v2"
	"strings"
	"sync"
	"sync/atomic"
	"time"

	"golang.org/x/net/internal/verifrt"
)

type vwsConfig struct {
	Name      string `json:"scheduler"` // random | roundrobin | rfc9218 | rfc7540
	NilCfg    bool   `json:"nil_config,omitempty"`
	MaxClosed int    `json:"max_closed_nodes,omitempty"`
	MaxIdle   int    `json:"max_idle_nodes,omitempty"`
	Throttle  bool   `json:"throttle,omitempty"`
}

func (cfg vwsConfig) String() string {
	if cfg.Name != "rfc7540" {
		return cfg.Name
	}
	if cfg.NilCfg {
		return "rfc7540(default config)"
	}
	return fmt.Sprintf("rfc7540(MaxClosedNodesInTree=%d,MaxIdleNodesInTree=%d,Throttle=%v)", cfg.MaxClosed, cfg.MaxIdle, cfg.Throttle)
}

func (cfg vwsConfig) maxClosed() int {
	if cfg.NilCfg {
		return 10
	}
	return cfg.MaxClosed
}

func (cfg vwsConfig) maxIdle() int {
	if cfg.NilCfg {
		return 10
	}
	return cfg.MaxIdle
}

func (cfg vwsConfig) build() WriteScheduler {
	switch cfg.Name {
	case "random":
		return NewRandomWriteScheduler()
	case "roundrobin":
		return newRoundRobinWriteScheduler()
	case "rfc9218":
		return newPriorityWriteSchedulerRFC9218()
	case "rfc7540":
		if cfg.NilCfg {
			return NewPriorityWriteScheduler(nil)
		}
		return NewPriorityWriteScheduler(&PriorityWriteSchedulerConfig{
			MaxClosedNodesInTree:     cfg.MaxClosed,
			MaxIdleNodesInTree:       cfg.MaxIdle,
			ThrottleOutOfOrderWrites: cfg.Throttle,
		})
	}
	panic("vws: unknown scheduler " + cfg.Name)
}

// vwsCause makes a RST_STREAM request (a StreamError value) identifiable.
type vwsCause int

func (c vwsCause) Error() string { return fmt.Sprintf("verif frame #%d", int(c)) }

const (
	vwsData     = iota // DATA on a stream
	vwsHeaders         // HEADERS on a stream
	vwsStreamWU        // WINDOW_UPDATE bound to a stream (stream != nil)
	vwsCtl             // connection frame, stream == nil, StreamID()==0
	vwsRST             // RST_STREAM, stream == nil, StreamID()!=0
)

var vwsKindName = [...]string{"DATA", "HEADERS", "SWU", "CTL", "RST"}

type vwsFrame struct {
	id        int
	kind      int
	sid       uint32
	rem       []byte // DATA: bytes not yet popped
	total     int
	pieces    int
	endStream bool
}

func (f *vwsFrame) String() string {
	s := fmt.Sprintf("%s#%d", vwsKindName[f.kind], f.id)
	if f.kind == vwsData {
		s += fmt.Sprintf("(len=%d", f.total)
		if f.endStream {
			s += ",ES"
		}
		s += ")"
	}
	return s
}

type vwsStream struct {
	id       uint32
	st       *stream
	q        []*vwsFrame
	open     bool
	closed   bool
	ended    bool  // a frame with END_STREAM has been pushed
	win      int64 // model stream window
	pri      PriorityParam
	idleAdj  bool // AdjustStream was called on the id before it was opened
	idleMark int  // value of hist.idleCreations at the first such call

	// C13 bookkeeping
	wait, kmax int
}

type vwsLog struct {
	Config vwsConfig `json:"config"`
	Conn   string    `json:"conn"`
	Ops    []string  `json:"ops"`
}

type vwsParams struct {
	minOps, maxOps int
	maxStreams     int // upper bound for simultaneously open streams (2..maxStreams drawn per history)
	urgencies      int // rfc9218: number of distinct urgency values used by a history (1..urgencies)
	bigWindows     bool
	// op weights
	wOpen, wClose, wAdjust, wData, wHeaders, wCtl, wWindow, wPop, wMaxFrame int
	prio                                                                    bool // run the RFC 9218 order / fairness oracles (C13)
	// ctlRhythm: after the random part, keep every stream topped up with DATA and alternate
	// "push c control frames, pop c+1 frames" for a fixed c per history, so that a stream frame
	// is popped after every c control frames for a sustained stretch (fairness must not depend
	// on how many control frames go out in between).
	ctlRhythm bool
}

type vwsHist struct {
	c   *verifrt.Case
	r   *verifrt.R
	rng *rand.Rand
	cfg vwsConfig
	p   vwsParams
	ws  WriteScheduler
	sc  *serverConn
	log *vwsLog

	connWin       int64
	streams       map[uint32]*vwsStream
	open          []uint32
	closedIDs     []uint32
	idleIDs       []uint32 // ids adjusted while idle and not (yet) opened
	control       []*vwsFrame
	nextClient    uint32
	nextPush      uint32
	nextFrame     int
	maxStreams    int
	urg           []uint8
	aborted       bool
	idleCreations int      // ids that got their first AdjustStream while idle
	curSids       []uint32 // streams the scheduler call in progress is about
	curCall       string
	opSeq         atomic.Int64 // bumped right before every scheduler call (hang guard)

	// rfc9218 buffered pre-open update (model side)
	pendID   uint32
	pendPri  PriorityParam
	pendLive bool

	// exposure to the two RFC 7540 conditions (see vwsHist.violation)
	closeQueuedRetained bool

	// statistics
	nPops, nPopOK, nPopsAfterCloseQueued, nCloseQueued int
	zeroReq                                            int

	// C13
	lastServed  [8]uint32 // per urgency: last served non-incremental stream (0 = none)
	lastWait    [8]int
	sawPreempt  bool
	sawMultiInc bool
	sawMixed    bool
	maxWait     int
}

func vwsNewHist(c *verifrt.Case, r *verifrt.R, cfg vwsConfig, p vwsParams) *vwsHist {
	h := &vwsHist{c: c, r: r, rng: c.Rng, cfg: cfg, p: p, streams: map[uint32]*vwsStream{}, nextClient: 1, nextPush: 2}
	h.ws = cfg.build()
	mfs := []int32{16, 100, 16384, 16384, 16384, 16385, 65536, 1<<24 - 1}
	h.sc = &serverConn{maxFrameSize: mfs[h.rng.IntN(len(mfs))]}
	cw := []int64{0, 1, 100, 65535, 65535, 1 << 20, 1 << 24}
	h.connWin = cw[h.rng.IntN(len(cw))]
	if p.bigWindows && h.rng.IntN(4) != 0 {
		h.connWin = 1 << 26
	}
	h.sc.flow.add(int32(h.connWin))
	h.maxStreams = 2 + h.rng.IntN(p.maxStreams-1)
	nu := 1 + h.rng.IntN(p.urgencies)
	for len(h.urg) < nu {
		h.urg = append(h.urg, uint8(h.rng.IntN(8)))
	}
	h.log = &vwsLog{Config: cfg, Conn: fmt.Sprintf("maxFrameSize=%d connWindow=%d", h.sc.maxFrameSize, h.connWin)}
	c.Describe(h.log)
	return h
}

func (h *vwsHist) logf(f string, a ...any) { h.log.Ops = append(h.log.Ops, fmt.Sprintf(f, a...)) }

func (h *vwsHist) tail(n int) string {
	ops := h.log.Ops
	pre := ""
	if len(ops) > n {
		pre = fmt.Sprintf("… (%d earlier ops in the replay file)\n", len(ops)-n)
		ops = ops[len(ops)-n:]
	}
	return pre + strings.Join(ops, "\n")
}

// violation reports a broken oracle; sids are the streams the observation is about.
//
// Two situations are known to leave the RFC 7540 scheduler with corrupt state, and each has
// many symptoms (which one shows first depends on the history). So that each defect has one
// narrow, stable key while everything else keeps its plain key:
//   - the history closed a stream with queued frames while closed nodes are retained
//     (MaxClosedNodesInTree > 0): "pop-zero-request" becomes
//     "pop-zero-request-after-close-rfc7540", any other symptom
//     "corrupt-queue-after-close-rfc7540";
//   - every stream concerned was opened after being prioritised while idle and at least
//     MaxIdleNodesInTree newer idle ids were prioritised since: "open-stream-evicted-rfc7540".
//
// The plain key stays in the detail text.
func (h *vwsHist) violation(key string, sids []uint32, f string, a ...any) {
	plain := key
	if h.cfg.Name == "rfc7540" {
		allIdle := len(sids) > 0
		for _, id := range sids {
			if !h.idleExposed(h.streams[id]) {
				allIdle = false
			}
		}
		switch {
		case allIdle:
			key = "open-stream-evicted-rfc7540"
		case h.closeQueuedRetained && key == "pop-zero-request":
			key = "pop-zero-request-after-close-rfc7540"
		case h.closeQueuedRetained:
			key = "corrupt-queue-after-close-rfc7540"
		}
	}
	if h.p.prio && !strings.HasPrefix(key, "prio-") {
		key = "base-" + key
	}
	h.c.Violation(key, "[%s] %s, %s: %s\nhistory tail:\n%s", plain, h.cfg, h.log.Conn, fmt.Sprintf(f, a...), h.tail(30))
}

// idleExposed: s was given a priority while idle, then opened, and at least
// MaxIdleNodesInTree further idle ids were prioritised after its first PRIORITY.
func (h *vwsHist) idleExposed(s *vwsStream) bool {
	return s != nil && s.idleAdj && h.cfg.maxIdle() > 0 && h.idleCreations-s.idleMark >= h.cfg.maxIdle()
}

// call runs one scheduler method; a panic is a violation and ends the history.
func (h *vwsHist) call(what string, sids []uint32, fn func()) (ok bool) {
	h.curSids, h.curCall = sids, what
	h.opSeq.Add(1)
	defer func() {
		if e := recover(); e != nil {
			msg := fmt.Sprint(e)
			if i := strings.IndexAny(msg, ":\n"); i > 0 {
				msg = msg[:i]
			}
			if len(msg) > 40 {
				msg = msg[:40]
			}
			h.logf("  PANIC in %s: %v", what, e)
			h.violation("panic-in-"+what+":"+strings.Join(strings.Fields(msg), "_"), h.curSids, "%s panicked on a contract-respecting call: %v", what, e)
			h.aborted = true
			ok = false
		}
	}()
	fn()
	return true
}

func vwsFill(p []byte, id int) {
	x := uint64(id)*0x9e3779b97f4a7c15 + 0x1234567
	for i := range p {
		x ^= x << 13
		x ^= x >> 7
		x ^= x << 17
		p[i] = byte(x >> 24)
	}
}

func (h *vwsHist) pick(ids []uint32) uint32 { return ids[h.rng.IntN(len(ids))] }

func (h *vwsHist) randPriority9218() PriorityParam {
	return PriorityParam{urgency: h.urg[h.rng.IntN(len(h.urg))], incremental: uint8(h.rng.IntN(2))}
}

func (h *vwsHist) streamWindowChoice() int64 {
	if h.p.bigWindows && h.rng.IntN(5) != 0 {
		return 1 << 24
	}
	w := []int64{0, 1, 100, 16384, 65535, 65535, 1 << 20}
	return w[h.rng.IntN(len(w))]
}

func (h *vwsHist) opOpen() {
	if len(h.open) >= h.maxStreams {
		return
	}
	var id, pusher uint32
	var clients []uint32
	for _, o := range h.open {
		if o%2 == 1 {
			clients = append(clients, o)
		}
	}
	if len(clients) > 0 && h.rng.IntN(6) == 0 {
		id, pusher = h.nextPush, h.pick(clients)
		h.nextPush += 2
	} else {
		id = h.nextClient
		// prefer an id that was prioritised while idle; sometimes skip an id
		var cand []uint32
		for _, x := range h.idleIDs {
			if x%2 == 1 && x >= h.nextClient {
				cand = append(cand, x)
			}
		}
		if len(cand) > 0 && h.rng.IntN(2) == 0 {
			id = cand[0]
			for _, x := range cand {
				if x < id {
					id = x
				}
			}
		} else if h.rng.IntN(8) == 0 {
			id += 2
		}
		h.nextClient = id + 2
	}
	s := h.streams[id]
	if s == nil {
		s = &vwsStream{id: id}
		h.streams[id] = s
	}
	for i, x := range h.idleIDs {
		if x == id {
			h.idleIDs = append(h.idleIDs[:i], h.idleIDs[i+1:]...)
			break
		}
	}
	opt := OpenStreamOptions{PusherID: pusher}
	if h.cfg.Name == "rfc9218" || h.rng.IntN(2) == 0 {
		opt.priority = h.randPriority9218() // serverConn passes an RFC 9218 priority to every scheduler
	}
	s.pri = opt.priority
	if h.pendLive && h.pendID == id {
		s.pri = h.pendPri
		h.pendLive = false
		h.r.Event("prio_preopen_updates_applied", 1)
	}
	// a buffered update for an id that can no longer be opened is dead
	if h.pendLive && ((h.pendID%2 == 1 && h.pendID < h.nextClient) || (h.pendID%2 == 0 && h.pendID < h.nextPush)) {
		h.pendLive = false
	}
	s.st = &stream{id: id, sc: h.sc, state: stateOpen}
	s.st.flow.conn = &h.sc.flow
	s.win = h.streamWindowChoice()
	s.st.flow.add(int32(s.win))
	s.open = true
	s.wait, s.kmax = 0, 0
	h.open = append(h.open, id)
	h.logf("OpenStream(%d, pusher=%d, u=%d i=%d) streamWindow=%d -> model u=%d i=%d", id, pusher, opt.priority.urgency, opt.priority.incremental, s.win, s.pri.urgency, s.pri.incremental)
	if !h.call("OpenStream", []uint32{id}, func() { h.ws.OpenStream(id, opt) }) {
		return
	}
	h.r.Event("opens", 1)
	if len(h.closedIDs) > 0 {
		h.r.Event("opens_after_a_close(pooled_queue_reuse)", 1)
	}
	if s.idleAdj {
		h.r.Event("opens_of_id_prioritised_while_idle", 1)
	}
}

func (h *vwsHist) opClose() {
	if len(h.open) == 0 {
		return
	}
	i := h.rng.IntN(len(h.open))
	id := h.open[i]
	s := h.streams[id]
	h.logf("CloseStream(%d) with %d queued %v", id, len(s.q), s.q)
	h.open = append(h.open[:i], h.open[i+1:]...)
	h.closedIDs = append(h.closedIDs, id)
	s.open, s.closed = false, true
	s.st.state = stateClosed
	if len(s.q) > 0 {
		h.nCloseQueued++
		h.r.Event("closes_with_queued_frames", 1)
		h.r.Event("frames_dropped_by_close", int64(len(s.q)))
		if h.cfg.Name == "rfc7540" && h.cfg.maxClosed() > 0 {
			h.closeQueuedRetained = true
		}
	}
	s.q = nil
	for u := range h.lastServed {
		if h.lastServed[u] == id {
			h.lastServed[u] = 0
		}
	}
	if !h.call("CloseStream", []uint32{id}, func() { h.ws.CloseStream(id) }) {
		return
	}
	h.r.Event("closes", 1)
}

func (h *vwsHist) opAdjust() {
	// target
	var id uint32
	kind := ""
	x := h.rng.IntN(10)
	switch {
	case x < 5 && len(h.open) > 0:
		id, kind = h.pick(h.open), "open"
	case x < 7 && len(h.closedIDs) > 0:
		id, kind = h.pick(h.closedIDs), "closed"
	default:
		kind = "idle"
		switch h.rng.IntN(4) {
		case 0:
			id = h.nextClient + 2
		case 1:
			id = h.nextPush
		default:
			id = h.nextClient
		}
		if len(h.idleIDs) > 0 && h.rng.IntN(3) == 0 {
			id = h.pick(h.idleIDs) // may be an id that was skipped and will never open
		}
		if h.cfg.Name == "rfc7540" && h.rng.IntN(3) == 0 {
			// grouping nodes: many distinct idle ids
			id = h.nextClient + 2*uint32(h.rng.IntN(16))
		}
	}
	var pp PriorityParam
	if h.cfg.Name == "rfc9218" {
		// Keep at most one buffered pre-open update outstanding, so that an implementation
		// buffering one update and one buffering several behave the same (RFC 9218 §7.1
		// lets the server choose).
		if kind != "open" && h.pendLive && h.pendID != id {
			if len(h.open) == 0 {
				return
			}
			id, kind = h.pick(h.open), "open"
		}
		pp = h.randPriority9218()
	} else {
		// RFC 7540 PRIORITY
		var deps []uint32
		deps = append(deps, 0, 0)
		deps = append(deps, h.open...)
		deps = append(deps, h.open...)
		deps = append(deps, h.closedIDs...)
		deps = append(deps, h.idleIDs...)
		deps = append(deps, h.nextClient+4, 99999)
		dep := h.pick(deps)
		if dep == id {
			dep = 0 // serverConn.checkPriority rejects a self-dependency before the scheduler sees it
		}
		ws := []uint8{0, 15, 15, 15, 15, 255, uint8(h.rng.IntN(256)), uint8(h.rng.IntN(4))}
		pp = PriorityParam{StreamDep: dep, Exclusive: h.rng.IntN(4) == 0, Weight: ws[h.rng.IntN(len(ws))]}
		if h.rng.IntN(2) == 0 {
			// a PriorityParam may carry both schemes
			pp.urgency, pp.incremental = uint8(h.rng.IntN(8)), uint8(h.rng.IntN(2))
		}
	}
	s := h.streams[id]
	if s == nil {
		s = &vwsStream{id: id}
		h.streams[id] = s
	}
	switch {
	case s.open:
		s.pri = pp
		s.wait, s.kmax = 0, 0
		for u := range h.lastServed {
			if h.lastServed[u] == id {
				h.lastServed[u] = 0
			}
		}
	case s.closed:
		if h.cfg.Name == "rfc9218" {
			h.pendID, h.pendPri, h.pendLive = id, pp, false // occupies the slot, can never be applied
		}
	default:
		if !s.idleAdj {
			h.idleCreations++
			s.idleAdj, s.idleMark = true, h.idleCreations
			h.idleIDs = append(h.idleIDs, id)
		}
		if h.cfg.Name == "rfc9218" {
			h.pendID, h.pendPri, h.pendLive = id, pp, true
			if (id%2 == 1 && id < h.nextClient) || (id%2 == 0 && id < h.nextPush) {
				h.pendLive = false
			}
		}
	}
	h.logf("AdjustStream(%d [%s], dep=%d excl=%v weight=%d u=%d i=%d)", id, kind, pp.StreamDep, pp.Exclusive, pp.Weight, pp.urgency, pp.incremental)
	if !h.call("AdjustStream", nil, func() { h.ws.AdjustStream(id, pp) }) {
		return
	}
	h.r.Event("adjusts_"+kind, 1)
}

func (h *vwsHist) pushable() []uint32 {
	var ids []uint32
	for _, id := range h.open {
		if !h.streams[id].ended {
			ids = append(ids, id)
		}
	}
	return ids
}

func (h *vwsHist) opPushData() {
	ids := h.pushable()
	if len(ids) == 0 {
		return
	}
	s := h.streams[h.pick(ids)]
	m := int(h.sc.maxFrameSize)
	lim := 70 << 10
	if m < 1024 {
		lim = 64 * m
	}
	var n int
	switch x := h.rng.IntN(10); {
	case x == 0:
		n = 0
	case x < 4:
		n = 1 + h.rng.IntN(min(m, 64))
	case x < 7 && m <= lim/2:
		n = []int{m - 1, m, m + 1, 2 * m, 2*m + 1, 3 * m}[h.rng.IntN(6)]
	case x < 9:
		n = 1 + h.rng.IntN(min(8*m, 4096))
	default:
		n = 1 + h.rng.IntN(lim)
	}
	if n > lim {
		n = lim
	}
	h.nextFrame++
	f := &vwsFrame{id: h.nextFrame, kind: vwsData, sid: s.id, total: n, endStream: h.rng.IntN(7) == 0}
	p := make([]byte, n)
	vwsFill(p, f.id)
	f.rem = p
	var done chan error
	if h.rng.IntN(2) == 0 {
		done = make(chan error, 1)
	}
	wr := FrameWriteRequest{write: &writeData{streamID: s.id, p: append([]byte(nil), p...), endStream: f.endStream}, stream: s.st, done: done}
	s.q = append(s.q, f)
	s.ended = f.endStream
	h.logf("Push(stream %d, %v)", s.id, f)
	if !h.call("Push", []uint32{s.id}, func() { h.ws.Push(wr) }) {
		return
	}
	h.r.Event("pushes_data", 1)
	if n == 0 {
		h.r.Event("pushes_zero_length_data", 1)
	}
}

func (h *vwsHist) opPushStreamOther() {
	ids := h.pushable()
	if len(ids) == 0 {
		return
	}
	s := h.streams[h.pick(ids)]
	h.nextFrame++
	f := &vwsFrame{id: h.nextFrame, sid: s.id}
	var wr FrameWriteRequest
	if h.rng.IntN(4) == 0 {
		f.kind = vwsStreamWU
		wr = FrameWriteRequest{write: writeWindowUpdate{streamID: s.id, n: uint32(f.id)}, stream: s.st}
	} else {
		f.kind = vwsHeaders
		f.endStream = h.rng.IntN(10) == 0
		wr = FrameWriteRequest{write: &writeResHeaders{streamID: s.id, httpResCode: f.id, endStream: f.endStream}, stream: s.st}
	}
	s.q = append(s.q, f)
	if f.endStream {
		s.ended = true
	}
	h.logf("Push(stream %d, %v)", s.id, f)
	if !h.call("Push", []uint32{s.id}, func() { h.ws.Push(wr) }) {
		return
	}
	h.r.Event("pushes_stream_nondata", 1)
}

func (h *vwsHist) opPushControl() {
	h.nextFrame++
	f := &vwsFrame{id: h.nextFrame}
	var wr FrameWriteRequest
	switch h.rng.IntN(4) {
	case 0:
		f.kind = vwsCtl
		pf := &PingFrame{}
		pf.Data[0], pf.Data[1], pf.Data[2], pf.Data[3] = byte(f.id>>24), byte(f.id>>16), byte(f.id>>8), byte(f.id)
		wr = FrameWriteRequest{write: writePingAck{pf}}
	case 1:
		f.kind = vwsCtl
		wr = FrameWriteRequest{write: writeWindowUpdate{streamID: 0, n: uint32(f.id)}}
	default:
		f.kind = vwsRST
		var ids []uint32
		ids = append(ids, h.open...)
		ids = append(ids, h.closedIDs...)
		ids = append(ids, h.nextClient, h.nextClient+6)
		f.sid = h.pick(ids)
		wr = FrameWriteRequest{write: StreamError{StreamID: f.sid, Code: ErrCodeCancel, Cause: vwsCause(f.id)}}
	}
	h.control = append(h.control, f)
	h.logf("Push(control %v sid=%d)", f, f.sid)
	if !h.call("Push", nil, func() { h.ws.Push(wr) }) {
		return
	}
	h.r.Event("pushes_control", 1)
}

const vwsWinCap = 1 << 29

func (h *vwsHist) opWindow() {
	deltas := []int64{1, 1 + int64(h.rng.IntN(100)), int64(h.sc.maxFrameSize), 65535, 1 << 20}
	d := deltas[h.rng.IntN(len(deltas))]
	if d > 1<<22 {
		d = 1 << 22
	}
	switch x := h.rng.IntN(10); {
	case x < 4 && len(h.open) > 0: // WINDOW_UPDATE on a stream
		s := h.streams[h.pick(h.open)]
		if s.win+d > vwsWinCap {
			return
		}
		s.win += d
		if !s.st.flow.add(int32(d)) {
			panic("vws: harness window overflow")
		}
		h.logf("stream %d window += %d -> %d", s.id, d, s.win)
		h.r.Event("window_updates_stream", 1)
	case x < 7: // WINDOW_UPDATE on the connection
		if h.connWin+d > vwsWinCap {
			return
		}
		h.connWin += d
		if !h.sc.flow.add(int32(d)) {
			panic("vws: harness window overflow")
		}
		h.logf("conn window += %d -> %d", d, h.connWin)
		h.r.Event("window_updates_conn", 1)
	default: // SETTINGS_INITIAL_WINDOW_SIZE change: every open stream moves by the same amount
		g := int64(h.rng.IntN(140001)) - 70000
		if h.rng.IntN(3) == 0 {
			g = int64(h.rng.IntN(201)) - 100
		}
		for _, id := range h.open {
			if w := h.streams[id].win + g; w > vwsWinCap || w < -vwsWinCap {
				return
			}
		}
		for _, id := range h.open {
			s := h.streams[id]
			s.win += g
			if !s.st.flow.add(int32(g)) {
				panic("vws: harness window overflow")
			}
			if s.win < 0 {
				h.r.Event("stream_window_negative", 1)
			}
		}
		h.logf("SETTINGS initial window delta %d on %d open streams", g, len(h.open))
		h.r.Event("settings_window_changes", 1)
	}
}

func (h *vwsHist) opMaxFrame() {
	mfs := []int32{16, 100, 16384, 16385, 65536, 1<<24 - 1}
	h.sc.maxFrameSize = mfs[h.rng.IntN(len(mfs))]
	h.logf("maxFrameSize = %d", h.sc.maxFrameSize)
}

// sendable: the head frame of s could be written now (frames of a stream go out in order, so
// only the head counts).
func (h *vwsHist) sendable(s *vwsStream) bool {
	if !s.open || len(s.q) == 0 {
		return false
	}
	f := s.q[0]
	if f.kind != vwsData || f.total == 0 {
		return true
	}
	return min(s.win, h.connWin, int64(h.sc.maxFrameSize)) > 0
}

func (h *vwsHist) anySendable() (bool, string) {
	if len(h.control) > 0 {
		return true, "control " + h.control[0].String()
	}
	for _, id := range h.open {
		if s := h.streams[id]; h.sendable(s) {
			return true, fmt.Sprintf("stream %d head %v (streamWindow=%d connWindow=%d maxFrameSize=%d)", id, s.q[0], s.win, h.connWin, h.sc.maxFrameSize)
		}
	}
	return false, ""
}

func (h *vwsHist) sendableIDs() []uint32 {
	var ids []uint32
	for _, id := range h.open {
		if h.sendable(h.streams[id]) {
			ids = append(ids, id)
		}
	}
	return ids
}

func (h *vwsHist) queuedFrames() int {
	n := len(h.control)
	for _, id := range h.open {
		n += len(h.streams[id].q)
	}
	return n
}

func vwsIdent(wr FrameWriteRequest) (kind, id int) {
	switch w := wr.write.(type) {
	case *writeData:
		return vwsData, -1
	case *writeResHeaders:
		return vwsHeaders, w.httpResCode
	case writeWindowUpdate:
		if wr.stream != nil {
			return vwsStreamWU, int(w.n)
		}
		return vwsCtl, int(w.n)
	case writePingAck:
		d := w.pf.Data
		return vwsCtl, int(d[0])<<24 | int(d[1])<<16 | int(d[2])<<8 | int(d[3])
	case StreamError:
		if c, ok := w.Cause.(vwsCause); ok {
			return vwsRST, int(c)
		}
	}
	return -1, -1
}

// pop performs one Pop and checks it against the model. It returns false when nothing was
// returned (or the history had to be abandoned).
func (h *vwsHist) pop() bool {
	want, why := h.anySendable()
	var pre *vwsPrioPre
	if h.p.prio {
		pre = h.prioRefresh()
	}
	var wr FrameWriteRequest
	var ok bool
	if !h.call("Pop", nil, func() { wr, ok = h.ws.Pop() }) {
		return false
	}
	h.nPops++
	h.r.Event("pops", 1)
	if !ok {
		h.logf("Pop -> none")
		if want {
			h.violation("pop-false-while-sendable", h.sendableIDs(), "Pop returned ok=false although the model has a sendable frame: %s", why)
			h.aborted = true
			return false
		}
		if h.queuedFrames() > 0 {
			h.r.Event("pops_none_all_blocked_by_flow_control", 1)
		} else {
			h.r.Event("pops_none_nothing_queued", 1)
		}
		return false
	}
	h.nPopOK++
	if h.nCloseQueued > 0 {
		h.nPopsAfterCloseQueued++
	}
	if wr.write == nil {
		h.logf("Pop -> ok=true with ZERO FrameWriteRequest")
		h.zeroReq++
		h.violation("pop-zero-request", nil, "Pop returned ok=true with a zero FrameWriteRequest (write == nil, stream=%v); model: sendable=%v, %d frames queued", wr.stream != nil, want, h.queuedFrames())
		if h.zeroReq >= 20 {
			h.aborted = true // enough of them; the rest of this history would only repeat it
		}
		// nothing was delivered: the model does not move, the history goes on
		return true
	}
	kind, id := vwsIdent(wr)
	if kind < 0 {
		h.logf("Pop -> unknown %v", wr)
		h.violation("pop-unknown-request", nil, "Pop returned a request that was never pushed: %v", wr)
		h.aborted = true
		return false
	}
	if wr.stream == nil {
		// control or RST_STREAM
		idx := -1
		for i, f := range h.control {
			if f.id == id && f.kind == kind {
				idx = i
				break
			}
		}
		if idx < 0 {
			h.logf("Pop -> %s#%d (not queued)", vwsKindName[kind], id)
			h.violation("control-frame-duplicated-or-unknown", nil, "Pop returned %s#%d which is not queued (popped twice?)", vwsKindName[kind], id)
			h.aborted = true
			return false
		}
		f := h.control[idx]
		if got := wr.StreamID(); got != f.sid {
			h.violation("control-frame-wrong-stream-id", nil, "%v pushed for stream id %d came back with StreamID()=%d", f, f.sid, got)
		}
		if kind == vwsCtl {
			// frames with StreamID()==0 come out in push order (RST_STREAM is exempt from ordering)
			for _, g := range h.control[:idx] {
				if g.kind == vwsCtl {
					h.logf("Pop -> %v", f)
					h.violation("control-out-of-order", nil, "Pop returned %v while %v was pushed earlier and is still queued", f, g)
					h.aborted = true
					return false
				}
			}
			h.r.Event("popped_control", 1)
		} else {
			h.r.Event("popped_rst_stream", 1)
		}
		h.control = append(h.control[:idx], h.control[idx+1:]...)
		h.logf("Pop -> %v", f)
		h.r.Event("frames_delivered", 1)
		return true
	}
	// stream frame
	sid := wr.stream.id
	s := h.streams[sid]
	if len(h.control) > 0 {
		h.logf("Pop -> stream %d frame", sid)
		h.violation("stream-frame-before-control", []uint32{sid}, "Pop returned a frame of stream %d while control frame %v is queued", sid, h.control[0])
		h.aborted = true
		return false
	}
	if s == nil || s.st != wr.stream {
		h.logf("Pop -> stream %d frame (unknown stream)", sid)
		h.violation("pop-unknown-stream", []uint32{sid}, "Pop returned a frame for a *stream the harness never used (id %d)", sid)
		h.aborted = true
		return false
	}
	if !s.open {
		h.logf("Pop -> stream %d %s#%d (stream is closed)", sid, vwsKindName[kind], id)
		h.violation("frame-of-closed-stream-popped", []uint32{sid}, "Pop returned %s#%d of stream %d after CloseStream(%d) (queued frames must be discarded)", vwsKindName[kind], id, sid, sid)
		h.aborted = true
		return false
	}
	if len(s.q) == 0 {
		h.logf("Pop -> stream %d %s#%d (nothing queued)", sid, vwsKindName[kind], id)
		h.violation("frame-popped-twice-or-unknown", []uint32{sid}, "Pop returned %s#%d of stream %d but the model has nothing queued there", vwsKindName[kind], id, sid)
		h.aborted = true
		return false
	}
	head := s.q[0]
	if kind != vwsData {
		if head.kind != kind || head.id != id {
			h.logf("Pop -> stream %d %s#%d", sid, vwsKindName[kind], id)
			h.violation("stream-out-of-order", []uint32{sid}, "Pop returned %s#%d of stream %d, expected the head of the stream's queue %v", vwsKindName[kind], id, sid, head)
			h.aborted = true
			return false
		}
		s.q = s.q[1:]
		h.logf("Pop -> stream %d %v", sid, head)
		h.r.Event("popped_stream_nondata", 1)
		h.r.Event("frames_delivered", 1)
	} else {
		wd := wr.write.(*writeData)
		if head.kind != vwsData {
			h.logf("Pop -> stream %d DATA len=%d", sid, len(wd.p))
			h.violation("stream-out-of-order", []uint32{sid}, "Pop returned DATA (len %d) of stream %d, expected the head of the stream's queue %v", len(wd.p), sid, head)
			h.aborted = true
			return false
		}
		off := head.total - len(head.rem)
		h.logf("Pop -> stream %d %v piece [%d:%d] endStream=%v", sid, head, off, off+len(wd.p), wd.endStream)
		if wd.streamID != sid {
			h.violation("data-wrong-stream-id", []uint32{sid}, "DATA piece of stream %d carries streamID %d", sid, wd.streamID)
		}
		n := len(wd.p)
		if n > len(head.rem) || !bytes.Equal(wd.p, head.rem[:n]) {
			h.violation("data-bytes-mismatch", []uint32{sid}, "stream %d: popped DATA piece (len %d) is not the next %d bytes of %v at offset %d", sid, n, n, head, off)
			h.aborted = true
			return false
		}
		if head.total > 0 {
			if n == 0 {
				h.violation("data-piece-empty", []uint32{sid}, "stream %d: Pop returned an empty piece of %v at offset %d", sid, head, off)
				h.aborted = true
				return false
			}
			if int64(n) > s.win {
				h.violation("data-exceeds-stream-window", []uint32{sid}, "stream %d: piece of %d bytes, stream window %d", sid, n, s.win)
			}
			if int64(n) > h.connWin {
				h.violation("data-exceeds-conn-window", []uint32{sid}, "stream %d: piece of %d bytes, connection window %d", sid, n, h.connWin)
			}
			if int64(n) > int64(h.sc.maxFrameSize) {
				h.violation("data-exceeds-max-frame-size", []uint32{sid}, "stream %d: piece of %d bytes, max frame size %d", sid, n, h.sc.maxFrameSize)
			}
			s.win -= int64(n)
			h.connWin -= int64(n)
		}
		head.rem = head.rem[n:]
		head.pieces++
		last := len(head.rem) == 0
		if wd.endStream != (head.endStream && last) {
			h.violation("end-stream-misplaced", []uint32{sid}, "stream %d: piece [%d:%d] of %v has endStream=%v (last piece: %v)", sid, off, off+n, head, wd.endStream, last)
		}
		h.r.Event("popped_data_pieces", 1)
		if last {
			s.q = s.q[1:]
			h.r.Event("frames_delivered", 1)
			if head.pieces > 1 {
				h.r.Event("data_frames_delivered_split", 1)
			}
		}
		if int64(s.st.flow.n) != s.win || int64(h.sc.flow.n) != h.connWin {
			h.violation("window-accounting-mismatch", []uint32{sid}, "after the pop: stream %d window %d (model %d), connection window %d (model %d)", sid, s.st.flow.n, s.win, h.sc.flow.n, h.connWin)
			h.aborted = true
			return false
		}
	}
	if pre != nil {
		h.prioAfter(pre, s)
	}
	return true
}

func (h *vwsHist) opPop() {
	n := 1
	switch x := h.rng.IntN(20); {
	case x < 9:
	case x < 17:
		n = 2 + h.rng.IntN(7)
	default:
		n = 64
	}
	for i := 0; i < n && !h.aborted; i++ {
		if !h.pop() {
			return
		}
	}
}

// drain opens every window and pops until the scheduler reports nothing to send.
func (h *vwsHist) drain() {
	for _, id := range h.open {
		s := h.streams[id]
		if d := vwsWinCap - s.win; d > 0 {
			s.win += d
			s.st.flow.add(int32(d))
		}
	}
	if d := vwsWinCap - h.connWin; d > 0 {
		h.connWin += d
		h.sc.flow.add(int32(d))
	}
	h.logf("drain: all windows opened to %d", vwsWinCap)
	budget := 1000
	for _, id := range h.open {
		for _, f := range h.streams[id].q {
			budget += 2 + len(f.rem)
		}
	}
	budget += len(h.control)
	for i := 0; !h.aborted; i++ {
		if i > budget {
			h.violation("pop-without-progress", nil, "more than %d pops while draining", budget)
			return
		}
		if !h.pop() {
			break
		}
	}
	h.r.Event("drains", 1)
}

func (h *vwsHist) step() {
	p := h.p
	tot := p.wOpen + p.wClose + p.wAdjust + p.wData + p.wHeaders + p.wCtl + p.wWindow + p.wPop + p.wMaxFrame
	x := h.rng.IntN(tot)
	switch {
	case x < p.wOpen:
		h.opOpen()
	case x < p.wOpen+p.wClose:
		h.opClose()
	case x < p.wOpen+p.wClose+p.wAdjust:
		h.opAdjust()
	case x < p.wOpen+p.wClose+p.wAdjust+p.wData:
		h.opPushData()
	case x < p.wOpen+p.wClose+p.wAdjust+p.wData+p.wHeaders:
		h.opPushStreamOther()
	case x < p.wOpen+p.wClose+p.wAdjust+p.wData+p.wHeaders+p.wCtl:
		h.opPushControl()
	case x < p.wOpen+p.wClose+p.wAdjust+p.wData+p.wHeaders+p.wCtl+p.wWindow:
		h.opWindow()
	case x < p.wOpen+p.wClose+p.wAdjust+p.wData+p.wHeaders+p.wCtl+p.wWindow+p.wPop:
		h.opPop()
	default:
		h.opMaxFrame()
	}
	if h.p.prio && !h.aborted {
		h.prioRefresh()
	}
}

// run executes one history and returns its signature hash input.
func (h *vwsHist) run() {
	nops := h.p.minOps + h.rng.IntN(h.p.maxOps-h.p.minOps+1)
	for i := 0; i < 2 && !h.aborted; i++ {
		h.opOpen()
	}
	for i := 0; i < nops && !h.aborted; i++ {
		h.step()
	}
	if h.p.ctlRhythm && !h.aborted {
		c := []int{0, 1, 1, 1, 2, 3, 5}[h.rng.IntN(7)]
		h.logf("rhythm: %d control frames between stream frames", c)
		for round := 0; round < 60 && !h.aborted; round++ {
			for i := 0; i < 3 && !h.aborted; i++ {
				h.opPushData()
			}
			for i := 0; i < c && !h.aborted; i++ {
				h.opPushControl()
			}
			for i := 0; i <= c && !h.aborted; i++ {
				if !h.pop() {
					break
				}
			}
			if h.p.prio && !h.aborted {
				h.prioRefresh()
			}
		}
		h.r.Event("histories_with_control_rhythm", 1)
	}
	if !h.aborted && h.rng.IntN(10) < 7 {
		h.drain()
	}
	h.r.Event("histories_"+h.cfg.Name, 1)
	h.r.Event("ops", int64(len(h.log.Ops)))
}

func (h *vwsHist) signature() string {
	return h.cfg.String() + "|" + h.log.Conn + "|" + strings.Join(h.log.Ops, ";")
}

// ---- RFC 9218 order / fairness oracles (C13) ----

type vwsPrioPre struct {
	minU     int // minimum urgency among sendable streams, 8 if none
	sendable map[uint32]bool
	nSend    int
}

func (h *vwsHist) prioBefore() *vwsPrioPre {
	pre := &vwsPrioPre{minU: 8, sendable: map[uint32]bool{}}
	for _, id := range h.open {
		s := h.streams[id]
		if h.sendable(s) {
			pre.sendable[id] = true
			pre.nSend++
			if int(s.pri.urgency) < pre.minU {
				pre.minU = int(s.pri.urgency)
			}
		}
	}
	return pre
}

// prioRefresh re-evaluates, after every operation, who is still continuously eligible.
func (h *vwsHist) prioRefresh() *vwsPrioPre {
	pre := h.prioBefore()
	for _, id := range h.open {
		s := h.streams[id]
		if !(pre.sendable[id] && int(s.pri.urgency) == pre.minU && s.pri.incremental == 1) {
			s.wait, s.kmax = 0, 0
		}
	}
	for u := range h.lastServed {
		if q := h.lastServed[u]; q != 0 {
			s := h.streams[q]
			if !pre.sendable[q] || int(s.pri.urgency) != u || s.pri.incremental != 0 {
				h.lastServed[u] = 0
			}
			if u != pre.minU {
				h.lastWait[u] = 0
			}
		}
	}
	return pre
}

func (h *vwsHist) prioAfter(pre *vwsPrioPre, served *vwsStream) {
	h.r.Event("prio_stream_pops_checked", 1)
	u, inc := int(served.pri.urgency), served.pri.incremental
	// (1) urgency
	if u > pre.minU {
		var who []string
		for id := range pre.sendable {
			if t := h.streams[id]; int(t.pri.urgency) < u {
				who = append(who, fmt.Sprintf("stream %d (u=%d i=%d)", id, t.pri.urgency, t.pri.incremental))
			}
		}
		h.violation("prio-urgency-inversion", nil, "Pop served stream %d of urgency %d while more urgent streams were sendable: %v", served.id, u, who)
		h.aborted = true
		return
	}
	// coverage facts
	nInc, nNon, lower := 0, 0, false
	for id := range pre.sendable {
		t := h.streams[id]
		if int(t.pri.urgency) == pre.minU {
			if t.pri.incremental == 1 {
				nInc++
			} else {
				nNon++
			}
		} else {
			lower = true
		}
	}
	if lower {
		h.sawPreempt = true
		h.r.Event("prio_pops_with_less_urgent_stream_waiting", 1)
	}
	if nInc >= 2 {
		h.sawMultiInc = true
		h.r.Event("prio_pops_with_2+_incremental_sendable_in_class", 1)
	}
	if nInc >= 1 && nNon >= 1 {
		h.sawMixed = true
		h.r.Event("prio_pops_with_incremental_and_nonincremental_sendable_in_class", 1)
	}
	// (2) incremental streams are not starved
	k := 0
	for _, id := range h.open {
		t := h.streams[id]
		if int(t.pri.urgency) == pre.minU && t.pri.incremental == 1 {
			k++
		}
	}
	for _, id := range h.open {
		t := h.streams[id]
		if t == served {
			t.wait, t.kmax = 0, 0
			continue
		}
		if pre.sendable[id] && int(t.pri.urgency) == pre.minU && t.pri.incremental == 1 {
			t.wait++
			if k > t.kmax {
				t.kmax = k
			}
			if t.wait > 2*(t.kmax+1) {
				h.violation("prio-incremental-starved", nil, "incremental stream %d (u=%d) was continuously sendable at the most urgent sendable level for %d stream-frame Pops without being served (at most %d incremental streams in its class; bound %d)", id, t.pri.urgency, t.wait, t.kmax, 2*(t.kmax+1))
				h.aborted = true
				return
			}
			if t.wait > h.maxWait {
				h.maxWait = t.wait
			}
		} else {
			t.wait, t.kmax = 0, 0
		}
	}
	// (3) a non-incremental stream is served to completion
	if q := h.lastServed[u]; inc == 0 && q != 0 && q != served.id {
		h.violation("prio-nonincremental-not-served-to-completion", nil, "class (u=%d, non-incremental): stream %d was served last and is still sendable, but Pop served stream %d", u, q, served.id)
		h.aborted = true
		return
	}
	if inc == 0 && h.lastServed[u] == served.id {
		h.r.Event("prio_nonincremental_continuations_checked", 1)
	}
	// (4) the non-incremental stream being served is not starved by the incremental ring
	if q := h.lastServed[pre.minU]; q != 0 {
		if q == served.id {
			h.lastWait[pre.minU] = 0
		} else {
			h.lastWait[pre.minU]++
			if h.lastWait[pre.minU] > 4 {
				h.violation("prio-nonincremental-starved", nil, "non-incremental stream %d (u=%d), in the middle of being served and continuously sendable at the most urgent sendable level, was passed over by %d consecutive stream-frame Pops", q, pre.minU, h.lastWait[pre.minU])
				h.aborted = true
				return
			}
		}
	}
	if inc == 0 {
		h.lastServed[u] = served.id
		h.lastWait[u] = 0
	}
}

// ---- hang guard ----
//
// A scheduler method that never returns (a corrupted ring makes Pop spin) cannot be reported
// by the goroutine that is stuck in it. Histories therefore run on their own goroutine while
// the case goroutine watches the history's call counter. This is not an oracle on timing: a
// single scheduler call does a few hundred instructions, and it is only declared hung when
// the counter has not moved for vwsHangSeconds one-second ticks in a row (so a stalled
// process, which stalls the ticker too, cannot trip it). After a hang that scheduler is not
// exercised any further in this run (every later history would leak another spinning goroutine).

const vwsHangSeconds = 45

var (
	vwsHungMu sync.Mutex
	vwsHung   = map[string]bool{}
)

// vwsRunGuarded runs one history; it returns nil if the history was skipped or hung.
func vwsRunGuarded(c *verifrt.Case, r *verifrt.R, cfg vwsConfig, p vwsParams) *vwsHist {
	vwsHungMu.Lock()
	skip := vwsHung[cfg.Name]
	vwsHungMu.Unlock()
	if skip {
		r.Event("histories_skipped_after_hang_"+cfg.Name, 1)
		return nil
	}
	h := vwsNewHist(c, r, cfg, p)
	done := make(chan any, 1)
	go func() {
		defer func() { done <- recover() }()
		h.run()
	}()
	tick := time.NewTicker(time.Second)
	defer tick.Stop()
	last, same := int64(-1), 0
	for {
		select {
		case e := <-done:
			if e != nil {
				panic(e) // harness bug or a panic outside a scheduler call: let the runtime record it
			}
			return h
		case <-tick.C:
			if v := h.opSeq.Load(); v == last {
				same++
			} else {
				last, same = v, 0
			}
			if same >= vwsHangSeconds && last > 0 {
				// the history goroutine is inside call(); nothing else touches h
				h.logf("  %s DOES NOT RETURN", h.curCall)
				h.violation("scheduler-call-hangs", h.curSids, "%s did not return (call counter unchanged for %d s); no further %s histories in this run", h.curCall, vwsHangSeconds, cfg.Name)
				vwsHungMu.Lock()
				vwsHung[cfg.Name] = true
				vwsHungMu.Unlock()
				r.Note("scheduler %s: a call hung; remaining histories for it were skipped", cfg.Name)
				return nil
			}
		}
	}
}
