//go:build verif

package http2

// C14: a request sent by the real http2 Transport to the real http2 Server over an in-memory
// pipe is observed by the handler exactly as sent, and the client receives exactly the
// handler's response — under a PRNG-chosen point of the SETTINGS space (both peers'
// windows, frame sizes, header table sizes, header list limits, concurrency limit, write
// scheduler) and PRNG request/response shapes, in a testing/synctest bubble and in real time
// (with -race). REF monitor; the pipe's tee additionally feeds an independent wire shadow.
//
// This file: session, server/client set-up, handler and client. Generator and expected views:
// zz_verif_C14_gen_test.go. Pipe and wire shadow: zz_verif_C14_wire_test.go. Oracle and test
// function: zz_verif_C14_eval_test.go.

import (
	"context"
	"fmt"
	"io"
	"log"
	"net/http"
	"net/http/httptrace"
	"net/textproto"
	"runtime"
	"strconv"
	"strings"
	"sync"
	"sync/atomic"
	"testing/synctest"
	"time"

	"golang.org/x/net/internal/verifrt"
	"golang.org/x/net/internal/verifrt/hpackref"
)

type v14Info struct {
	Code   int
	Header http.Header
}

// v14Seen is what the handler observed and did.
type v14Seen struct {
	Method, Host, RequestURI, Path, RawQuery, URLHost, Proto string
	Header                                                   http.Header
	ContentLength                                            int64
	TrailerBefore                                            http.Header
	Trailer                                                  http.Header
	BodyRes                                                  string
	BodyLen                                                  int64
	ReadErr                                                  string
	WriteErr                                                 string
	SniffK                                                   int64
	Wrote                                                    int64
	Panic                                                    string
	Returned                                                 bool
}

// v14Got is what the client received.
type v14Got struct {
	Err           error
	Status        int
	StatusText    string
	Proto         string
	Header        http.Header
	ContentLength int64
	Uncompressed  bool
	TrailerBefore http.Header
	Trailer       http.Header
	BodyRes       string
	BodyLen       int64
	ReadErr       string
	Infos         []v14Info
	Done          bool
}

type v14Viol struct {
	Key, Detail string
	Count       int
}

type v14Session struct {
	r  *verifrt.R
	c  *verifrt.Case
	cf *v14Conf
	ex []*v14Exch

	mu     sync.Mutex
	seen   []*v14Seen
	calls  []int
	got    []*v14Got
	viols  []*v14Viol
	panics []string

	pipe        *v14Pipe
	wire        *v14Wire
	progress    atomic.Int64
	sleepers    atomic.Int64
	pending     atomic.Int64
	waveDone    chan struct{}
	cc          *ClientConn
	srvDone     chan struct{}
	realtime    bool
	started     int
	stuck       string
	stuckStacks string
	leftover    string
	setupErr    string
}

func (s *v14Session) viol(key, format string, a ...any) {
	s.mu.Lock()
	defer s.mu.Unlock()
	for _, v := range s.viols {
		if v.Key == key {
			v.Count++
			return
		}
	}
	s.viols = append(s.viols, &v14Viol{Key: key, Detail: fmt.Sprintf(format, a...), Count: 1})
}

func (s *v14Session) step() { s.progress.Add(1) }

// jitter perturbs the schedule at PRNG points: a virtual sleep inside a bubble, a yield or a
// short real sleep outside.
func (s *v14Session) jitter(rr *v14Rand) {
	if s.cf.JitterPM == 0 || rr.intn(1000) >= s.cf.JitterPM {
		return
	}
	if s.realtime {
		if rr.intn(2) == 0 {
			runtime.Gosched()
		} else {
			time.Sleep(time.Duration(1+rr.intn(200)) * time.Microsecond)
		}
		return
	}
	s.sleepers.Add(1)
	time.Sleep(time.Duration(1+rr.intn(5)) * time.Millisecond)
	s.sleepers.Add(-1)
}

// onBlock runs under the pipe's mutex for every decoded field block.
func (s *v14Session) onBlock(d int, st *v14WStream, fields []hpackref.Field) {
	if d != 0 || st.exch >= 0 {
		return
	}
	for _, f := range fields {
		if f.Name == "x-v14-id" {
			if n, err := strconv.Atoi(f.Value); err == nil {
				st.exch = n
			}
			return
		}
	}
}

// ---------------------------------------------------------------------------------------
// set-up

func (s *v14Session) setup() bool {
	cf := s.cf
	s.wire = v14NewWire()
	s.wire.onBlock = s.onBlock
	s.pipe = v14NewPipe(cf.CapC2S, cf.CapS2C, cf.RMaxSrv, cf.RMaxCli, s.wire, &s.progress)
	s.pipe.hold = cf.HoldS2C
	v14PanicReg.set(s.pipe, s)
	cli, srv := &v14End{s.pipe, 0}, &v14End{s.pipe, 1}

	h1 := &http.Server{ErrorLog: log.New(io.Discard, "", 0), MaxHeaderBytes: cf.SrvMaxHeaderBytes}
	h2 := &Server{}
	if cf.ViaHTTP2Config {
		h1.HTTP2 = &http.HTTP2Config{
			MaxConcurrentStreams:          int(cf.SrvMaxStreams),
			MaxDecoderHeaderTableSize:     int(cf.SrvDecTable),
			MaxEncoderHeaderTableSize:     int(cf.SrvEncTable),
			MaxReadFrameSize:              int(cf.SrvMaxFrame),
			MaxReceiveBufferPerConnection: int(cf.SrvConnWin),
			MaxReceiveBufferPerStream:     int(cf.SrvStreamWin),
		}
	} else {
		h2.MaxConcurrentStreams = cf.SrvMaxStreams
		h2.MaxDecoderHeaderTableSize = cf.SrvDecTable
		h2.MaxEncoderHeaderTableSize = cf.SrvEncTable
		h2.MaxReadFrameSize = cf.SrvMaxFrame
		h2.MaxUploadBufferPerConnection = cf.SrvConnWin
		h2.MaxUploadBufferPerStream = cf.SrvStreamWin
	}
	switch cf.Sched {
	case "rr":
		h2.NewWriteScheduler = func() WriteScheduler { return newRoundRobinWriteScheduler() }
	case "random":
		h2.NewWriteScheduler = func() WriteScheduler { return NewRandomWriteScheduler() }
	case "rfc9218":
		h2.NewWriteScheduler = func() WriteScheduler { return newPriorityWriteSchedulerRFC9218() }
	case "rfc7540":
		h2.NewWriteScheduler = func() WriteScheduler { return NewPriorityWriteScheduler(nil) }
	}
	if err := ConfigureServer(h1, h2); err != nil {
		s.setupErr = "ConfigureServer: " + err.Error()
		return false
	}
	s.srvDone = make(chan struct{})
	go func() {
		defer close(s.srvDone)
		h2.ServeConn(srv, &ServeConnOpts{Handler: http.HandlerFunc(s.serveHTTP), BaseConfig: h1})
	}()

	t1 := &http.Transport{DisableCompression: cf.DisableCompr, ExpectContinueTimeout: time.Second}
	if s.realtime {
		t1.ExpectContinueTimeout = 20 * time.Millisecond
	}
	t1.HTTP2 = &http.HTTP2Config{MaxReceiveBufferPerConnection: cf.CliConnWin, MaxReceiveBufferPerStream: cf.CliStreamWin}
	t2, err := ConfigureTransports(t1)
	if err != nil {
		s.setupErr = "ConfigureTransports: " + err.Error()
		return false
	}
	t2.MaxHeaderListSize = cf.CliMaxHeaderList
	t2.StrictMaxConcurrentStreams = cf.StrictMax
	if cf.ViaHTTP2Config {
		t1.HTTP2.MaxDecoderHeaderTableSize = int(cf.CliDecTable)
		t1.HTTP2.MaxEncoderHeaderTableSize = int(cf.CliEncTable)
		t1.HTTP2.MaxReadFrameSize = int(cf.CliMaxFrame)
	} else {
		t2.MaxDecoderHeaderTableSize = cf.CliDecTable
		t2.MaxEncoderHeaderTableSize = cf.CliEncTable
		t2.MaxReadFrameSize = cf.CliMaxFrame
	}
	cc, err := t2.NewClientConn(cli)
	if err != nil {
		s.setupErr = "NewClientConn: " + err.Error()
		return false
	}
	s.cc = cc
	return true
}

// quiesce: inside a bubble, wait until every goroutine is durably blocked; in real time, a
// short pause (only used to shape the schedule, never by an oracle).
func (s *v14Session) quiesce() {
	if s.realtime {
		time.Sleep(2 * time.Millisecond)
		return
	}
	synctest.Wait()
}

// await waits for the running wave. It returns false when nothing at all has moved for a long
// stretch (bubble: 3 virtual seconds of complete quiescence with no harness sleep pending;
// real time: 90 s without a single byte, handler step or client step).
func (s *v14Session) await() bool {
	if s.realtime {
		tick := time.NewTicker(100 * time.Millisecond)
		defer tick.Stop()
		last, idle := s.progress.Load(), 0
		for {
			select {
			case <-s.waveDone:
				return true
			case <-tick.C:
				if p := s.progress.Load(); p != last {
					last, idle = p, 0
				} else if idle++; idle > 900 {
					return false
				}
			}
		}
	}
	last, idle := int64(-1), 0
	for {
		synctest.Wait()
		if s.pending.Load() == 0 {
			return true
		}
		if p := s.progress.Load(); p != last || s.sleepers.Load() > 0 {
			last, idle = p, 0
		} else if idle++; idle > 300 {
			return false
		}
		time.Sleep(10 * time.Millisecond)
	}
}

func (s *v14Session) run() {
	if !s.setup() {
		return
	}
	cf := s.cf
	if cf.WaitSettings && !cf.HoldS2C {
		if s.realtime {
			select {
			case <-s.cc.seenSettingsChan:
			case <-time.After(60 * time.Second):
			}
		} else {
			synctest.Wait()
		}
	}
	next := 0
	for wi, n := range cf.Waves {
		s.waveDone = make(chan struct{})
		s.pending.Store(int64(n))
		for i := 0; i < n; i++ {
			e := s.ex[next]
			next++
			s.started = next
			go s.client(e)
		}
		if wi == 0 && cf.HoldS2C {
			// everything the client can send without having heard from the server is on the wire
			s.quiesce()
			s.pipe.release()
		}
		if !s.await() {
			s.stuck = fmt.Sprintf("wave %d", wi)
			var dump string
			if s.realtime {
				buf := make([]byte, 1<<20)
				dump = string(buf[:runtime.Stack(buf, true)])
			} else {
				dump = v14BubbleGoroutines()
			}
			var keep []string
			for _, g := range strings.Split(dump, "\n\n") {
				var ls []string
				for _, l := range strings.Split(g, "\n") {
					if !strings.HasPrefix(l, "\t") { // function lines only
						ls = append(ls, l)
					}
				}
				if len(ls) > 7 {
					ls = ls[:7]
				}
				keep = append(keep, strings.Join(ls, " < "))
			}
			dump = strings.Join(keep, "\n")
			if len(dump) > 2500 {
				dump = dump[:2500]
			}
			s.stuckStacks = dump
			break
		}
	}
	// teardown
	s.pipe.release()
	s.cc.Close()
	if s.realtime {
		select {
		case <-s.srvDone:
		case <-time.After(30 * time.Second):
			s.pipe.closeAll()
			select {
			case <-s.srvDone:
			case <-time.After(30 * time.Second):
			}
		}
		// ServeConn does not wait for its handlers: a handler whose response the client has
		// read to the end may still be on its way out (in the bubble synctest.Wait settles it).
		for i := 0; i < 3000; i++ {
			s.mu.Lock()
			running := 0
			for _, sn := range s.seen {
				if sn != nil && !sn.Returned {
					running++
				}
			}
			s.mu.Unlock()
			if running == 0 {
				break
			}
			time.Sleep(10 * time.Millisecond)
		}
		return
	}
	synctest.Wait()
	select {
	case <-s.srvDone:
	default:
		s.pipe.closeAll()
		synctest.Wait()
	}
	// let pending timers and harness sleeps run out (virtual time) before the bubble is left
	for i := 0; i < 100; i++ {
		if s.leftover = v14BubbleGoroutines(); s.leftover == "" {
			break
		}
		time.Sleep(100 * time.Millisecond)
		synctest.Wait()
	}
}

// v14BubbleGoroutines returns the stacks of the goroutines of the caller's bubble other than
// the caller and the synctest/testing plumbing ("" when there are none).
func v14BubbleGoroutines() string {
	buf := make([]byte, 4<<20)
	buf = buf[:runtime.Stack(buf, true)]
	gs := strings.Split(string(buf), "\n\n")
	if len(gs) == 0 {
		return ""
	}
	i := strings.Index(gs[0], "synctest bubble ")
	if i < 0 {
		return ""
	}
	tag := gs[0][i:]
	if j := strings.IndexAny(tag, "]\n"); j > 0 {
		tag = tag[:j+1]
	}
	var out []string
	for _, g := range gs[1:] {
		if !strings.Contains(g, tag) || strings.Contains(g, "testing/synctest.") || strings.Contains(g, "internal/synctest.Run") {
			continue
		}
		if len(g) > 2500 {
			g = g[:2500]
		}
		out = append(out, g)
		if len(out) >= 6 {
			break
		}
	}
	return strings.Join(out, "\n\n")
}

// ---------------------------------------------------------------------------------------
// handler

type v14HState struct {
	s    *v14Session
	e    *v14Exch
	w    http.ResponseWriter
	r    *http.Request
	seen *v14Seen
	rr   v14Rand

	rchk   *v14Checker
	rbuf   []byte
	rchunk v14Chunker
	reof   bool

	hdrDone  bool
	wroteHdr bool
	woff     int64
	wtried   int64 // bytes handed to Write, accepted or not
	wtotal   int64
	wchunk   v14Chunker
	wbuf     []byte
	flushed  bool
	werr     bool
}

func (h *v14HState) readSome() {
	if h.reof {
		return
	}
	n := h.rchunk.next()
	if n > len(h.rbuf) {
		n = len(h.rbuf)
	}
	k, err := h.r.Body.Read(h.rbuf[:n])
	h.rchk.feed(h.rbuf[:k])
	h.s.step()
	if err != nil {
		h.reof = true
		if err != io.EOF {
			h.seen.ReadErr = err.Error()
		}
	}
	h.s.jitter(&h.rr)
}

func (h *v14HState) flush() {
	if !h.flushed {
		h.flushed = true
		h.seen.SniffK = h.wtried
	}
	if err := h.w.(interface{ FlushError() error }).FlushError(); err != nil && h.seen.WriteErr == "" {
		h.seen.WriteErr = "Flush: " + err.Error()
		h.werr = true
	}
	h.s.step()
}

func (h *v14HState) writeHdr() {
	if h.hdrDone {
		return
	}
	h.hdrDone = true
	e := h.e
	hd := h.w.Header()
	for i := 0; i < e.EarlyHints; i++ {
		hd.Add("Link", v14Link(i))
		h.w.WriteHeader(103)
	}
	for _, x := range e.RespHdr {
		if x.V == nil {
			hd[x.K] = []string{}
			continue
		}
		hd[x.K] = append(hd[x.K], x.V...)
	}
	bodyStatus := e.Status != 204 && e.Status != 304
	if e.RespDecl && bodyStatus {
		hd.Set("Content-Length", strconv.FormatInt(h.wtotal, 10))
	}
	if e.ExplicitWH || len(e.RespTrDecl)+len(e.RespTrPfx) > 0 {
		h.w.WriteHeader(e.Status)
		h.wroteHdr = true
	}
	if e.FlushHdr {
		h.flush()
	}
}

func v14Link(i int) string { return fmt.Sprintf("</style%d.css>; rel=preload; as=style", i) }

func (h *v14HState) writeDone() bool { return h.woff >= h.wtotal || h.werr }

func (h *v14HState) writeSome() {
	h.writeHdr()
	if h.writeDone() {
		return
	}
	n := int64(h.wchunk.next())
	if n > int64(len(h.wbuf)) {
		n = int64(len(h.wbuf))
	}
	if n > h.wtotal-h.woff {
		n = h.wtotal - h.woff
	}
	p := h.wbuf[:n]
	if h.e.RespRaw != nil {
		copy(p, h.e.RespRaw[h.woff:h.woff+n])
	} else {
		h.e.RespBody.fill(h.woff, p)
	}
	var k int
	var err error
	if h.rr.intn(1000) < h.e.RespStrPM {
		k, err = io.WriteString(h.w, string(p))
	} else {
		k, err = h.w.Write(p)
	}
	h.woff += int64(k)
	h.wtried += n
	h.s.step()
	if err != nil || int64(k) != n {
		h.werr = true
		if h.seen.WriteErr == "" {
			h.seen.WriteErr = fmt.Sprintf("Write of %d bytes at offset %d returned (%d, %v)", n, h.woff-int64(k), k, err)
		}
		return
	}
	if h.rr.intn(1000) < h.e.RespFlushPM {
		h.flush()
	}
	h.s.jitter(&h.rr)
}

func (s *v14Session) serveHTTP(w http.ResponseWriter, r *http.Request) {
	idx := -1
	if v := r.Header.Get("X-V14-Id"); v != "" {
		if n, err := strconv.Atoi(v); err == nil {
			idx = n
		}
	}
	if idx < 0 || idx >= len(s.ex) {
		s.viol("handler-request-unidentified", "the handler was invoked with a request that carries no usable X-V14-Id (method %q, uri %q, %d header keys)", r.Method, r.RequestURI, len(r.Header))
		return
	}
	e := s.ex[idx]
	seen := &v14Seen{}
	s.mu.Lock()
	s.calls[idx]++
	first := s.seen[idx] == nil
	if first {
		s.seen[idx] = seen
	}
	s.mu.Unlock()
	if !first {
		return
	}
	defer func() {
		if x := recover(); x != nil {
			seen.Panic = fmt.Sprint(x)
		}
		s.mu.Lock()
		seen.Returned = true
		s.mu.Unlock()
	}()
	s.step()
	seen.Method, seen.Host, seen.RequestURI, seen.Proto = r.Method, r.Host, r.RequestURI, r.Proto
	if r.URL != nil {
		seen.Path, seen.RawQuery, seen.URLHost = r.URL.Path, r.URL.RawQuery, r.URL.Host
	}
	seen.Header = r.Header.Clone()
	seen.ContentLength = r.ContentLength
	seen.TrailerBefore = r.Trailer.Clone()

	h := &v14HState{s: s, e: e, w: w, r: r, seen: seen, rr: v14Rand{e.Seed ^ 0x1111}}
	h.rchk = v14NewChecker(&e.ReqBody)
	h.rbuf = make([]byte, 64<<10)
	h.rchunk = v14Chunker{Mode: e.HReadChunk, r: v14Rand{e.Seed ^ 0x2222}, Cap: 4 * e.OpCap}
	h.wchunk = v14Chunker{Mode: e.RespChunk, r: v14Rand{e.Seed ^ 0x3333}, Cap: e.OpCap}
	if e.Status != 204 && e.Status != 304 {
		h.wtotal = e.RespBody.Len
		if e.RespRaw != nil {
			h.wtotal = int64(len(e.RespRaw))
		}
	}
	wb := h.wtotal
	if wb > 256<<10 {
		wb = 256 << 10
	}
	h.wbuf = make([]byte, wb)

	switch e.Order {
	case 0:
		for !h.reof {
			h.readSome()
		}
		h.writeHdr()
		for !h.writeDone() {
			h.writeSome()
		}
	case 1:
		h.writeHdr()
		for !h.writeDone() {
			h.writeSome()
		}
		if h.rr.intn(2) == 0 {
			h.flush()
		}
		for !h.reof {
			h.readSome()
		}
	default:
		h.writeHdr()
		for !h.reof || !h.writeDone() {
			h.readSome()
			if !h.writeDone() {
				h.writeSome()
			}
		}
	}
	if !h.flushed {
		seen.SniffK = h.wtried
	}
	seen.Wrote = h.woff
	seen.BodyRes, seen.BodyLen = h.rchk.result(), h.rchk.off
	seen.Trailer = r.Trailer.Clone()
	hd := w.Header()
	for _, t := range e.RespTrDecl {
		for _, v := range t.V {
			hd.Add(t.K, v)
		}
	}
	for _, t := range e.RespTrPfx {
		hd[http.TrailerPrefix+t.K] = t.V
	}
}

// ---------------------------------------------------------------------------------------
// client

type v14ReqBody struct {
	s      *v14Session
	e      *v14Exch
	req    *http.Request
	off    int64
	ch     v14Chunker
	rr     v14Rand
	fin    bool
	closed atomic.Bool
}

func (b *v14ReqBody) finish() {
	if b.fin {
		return
	}
	b.fin = true
	if b.e.ReqTrLate {
		for _, t := range b.e.ReqTrailer {
			b.req.Trailer[t.K] = t.V
		}
	}
}

func (b *v14ReqBody) Read(p []byte) (int, error) {
	b.s.step()
	b.s.jitter(&b.rr)
	L := b.e.ReqBody.Len
	if b.off >= L {
		b.finish()
		return 0, io.EOF
	}
	n := int64(b.ch.next())
	if n > int64(len(p)) {
		n = int64(len(p))
	}
	if n > L-b.off {
		n = L - b.off
	}
	b.e.ReqBody.fill(b.off, p[:n])
	b.off += n
	if b.off == L && b.e.ReqEOFLast {
		b.finish()
		return int(n), io.EOF
	}
	return int(n), nil
}

func (b *v14ReqBody) Close() error { b.closed.Store(true); return nil }

func (s *v14Session) client(e *v14Exch) {
	got := &v14Got{}
	defer func() {
		if x := recover(); x != nil {
			got.Err = fmt.Errorf("harness panic in client: %v", x)
		}
		s.mu.Lock()
		got.Done = true
		s.got[e.Idx] = got
		s.mu.Unlock()
		s.step()
		if s.pending.Add(-1) == 0 {
			close(s.waveDone)
		}
	}()
	rr := v14Rand{e.Seed ^ 0x4444}
	s.jitter(&rr)
	u := e.url()
	if e.Method == "CONNECT" {
		u.Path, u.RawQuery = "", ""
	}
	req := &http.Request{Method: e.Method, URL: u, Host: e.HostOver, Header: http.Header{}, Proto: "HTTP/1.1", ProtoMajor: 1, ProtoMinor: 1}
	for _, h := range e.ReqHdr {
		if h.V == nil {
			req.Header[h.K] = []string{}
			continue
		}
		req.Header[h.K] = append(req.Header[h.K], h.V...)
	}
	if e.ReqBodyKind >= 2 {
		rb := &v14ReqBody{s: s, e: e, req: req, ch: v14Chunker{Mode: e.ReqChunk, r: v14Rand{e.Seed ^ 0x5555}, Cap: e.OpCap}, rr: v14Rand{e.Seed ^ 0x6666}}
		req.Body = rb
		switch e.ReqBodyKind {
		case 2:
			req.ContentLength = e.ReqBody.Len
		case 3:
			req.ContentLength = -1
		}
		if len(e.ReqTrailer) > 0 {
			req.Trailer = http.Header{}
			for _, t := range e.ReqTrailer {
				if e.ReqTrLate {
					req.Trailer[t.K] = nil
				} else {
					req.Trailer[t.K] = t.V
				}
			}
		}
	} else if e.ReqBodyKind == 1 {
		req.Body = http.NoBody
	}
	ctx := context.Background()
	if e.EarlyHints > 0 || e.Expect100 {
		ctx = httptrace.WithClientTrace(ctx, &httptrace.ClientTrace{
			Got1xxResponse: func(code int, header textproto.MIMEHeader) error {
				s.mu.Lock()
				got.Infos = append(got.Infos, v14Info{code, http.Header(header).Clone()})
				s.mu.Unlock()
				return nil
			},
		})
	}
	req = req.WithContext(ctx)
	if rb, ok := req.Body.(*v14ReqBody); ok {
		rb.req = req
	}
	resp, err := s.cc.RoundTrip(req)
	s.step()
	if err != nil {
		got.Err = err
		return
	}
	got.Status, got.StatusText, got.Proto = resp.StatusCode, resp.Status, resp.Proto
	got.Header = resp.Header.Clone()
	got.ContentLength, got.Uncompressed = resp.ContentLength, resp.Uncompressed
	got.TrailerBefore = resp.Trailer.Clone()

	var chk *v14Checker
	switch {
	case !e.handlerBody:
		chk = v14NewChecker(&v14Body{})
	case e.RespRaw != nil && !e.requestedGzip(s.cf):
		chk = v14NewChecker(&e.RespBody)
		chk.raw = e.RespRaw
	default:
		chk = v14NewChecker(&e.RespBody)
	}
	ch := v14Chunker{Mode: e.CReadChunk, r: v14Rand{e.Seed ^ 0x7777}, Cap: 4 * e.OpCap}
	buf := make([]byte, 64<<10)
	for {
		n := ch.next()
		if n > len(buf) {
			n = len(buf)
		}
		k, err := resp.Body.Read(buf[:n])
		chk.feed(buf[:k])
		s.step()
		if err != nil {
			if err != io.EOF {
				got.ReadErr = err.Error()
			}
			break
		}
		s.jitter(&rr)
	}
	got.BodyRes, got.BodyLen = chk.result(), chk.off
	got.Trailer = resp.Trailer.Clone()
	resp.Body.Close()
}

func v14ErrClass(err error) string {
	switch x := err.(type) {
	case StreamError:
		return "stream-error-" + x.Code.String()
	case ConnectionError:
		return "connection-error-" + ErrCode(x).String()
	case GoAwayError:
		return "goaway-" + x.ErrCode.String()
	}
	m := err.Error()
	if len(m) > 60 {
		m = m[:60]
	}
	b := []byte(m)
	for i, c := range b {
		switch {
		case c >= '0' && c <= '9':
			b[i] = '#'
		case c == ' ' || c == ':' || c == '"':
			b[i] = '_'
		}
	}
	return strings.Trim(string(b), "_")
}
