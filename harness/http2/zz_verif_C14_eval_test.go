//go:build verif

package http2

// C14 (part 3 of 3): the comparison oracle, evidence, and the test function.

import (
	"fmt"
	"hash/fnv"
	"net/http"
	"os"
	"runtime"
	"runtime/debug"
	"sort"
	"strconv"
	"strings"
	"sync"
	"testing"
	"time"

	"golang.org/x/net/internal/verifrt"
)

type v14ExDesc struct {
	Idx        int    `json:"i"`
	Wave       int    `json:"wave"`
	Method     string `json:"method"`
	Target     string `json:"target"`
	ReqFields  int    `json:"req_fields"`
	ReqList    int64  `json:"req_list_size"`
	ReqBody    int64  `json:"req_body"`
	ReqKind    int    `json:"req_body_kind"`
	ReqTrailer int    `json:"req_trailer_keys"`
	Status     int    `json:"status"`
	RespFields int    `json:"resp_fields"`
	RespList   int64  `json:"resp_list_size"`
	RespBody   int64  `json:"resp_body"`
	RespDecl   bool   `json:"resp_declared"`
	RespTr     int    `json:"resp_trailer_keys"`
	Order      int    `json:"order"`
	Flags      string `json:"flags,omitempty"`
}

type v14Desc struct {
	Flavor string      `json:"flavor"`
	Conf   *v14Conf    `json:"conf"`
	Ex     []v14ExDesc `json:"exchanges"`
}

func v14NFields(hs []v14Hdr) int {
	n := 0
	for _, h := range hs {
		n += len(h.V)
	}
	return n
}

func (e *v14Exch) desc() v14ExDesc {
	t := e.Path
	if e.RawQuery != "" {
		t += "?" + e.RawQuery
	}
	if len(t) > 60 {
		t = fmt.Sprintf("%s…(%d)", t[:50], len(t))
	}
	var fl []string
	if e.NearLimit != "" {
		fl = append(fl, "near-limit-"+e.NearLimit)
	}
	if e.Expect100 {
		fl = append(fl, "expect-100")
	}
	if e.EarlyHints > 0 {
		fl = append(fl, "early-hints")
	}
	if e.RespGzip {
		fl = append(fl, "gzip")
	}
	if e.FlushHdr {
		fl = append(fl, "flush-header")
	}
	return v14ExDesc{Idx: e.Idx, Wave: e.Wave, Method: e.Method, Target: t, ReqFields: v14NFields(e.ReqHdr), ReqList: e.ReqWireSize, ReqBody: e.ReqBody.Len,
		ReqKind: e.ReqBodyKind, ReqTrailer: len(e.ReqTrailer), Status: e.Status, RespFields: v14NFields(e.RespHdr), RespList: v14ListSize(e.RespHdr), RespBody: e.RespBody.Len,
		RespDecl: e.RespDecl, RespTr: len(e.RespTrDecl) + len(e.RespTrPfx), Order: e.Order, Flags: strings.Join(fl, ",")}
}

// v14Build generates one session.
func v14Build(r *verifrt.R, c *verifrt.Case, mode, flavor string) *v14Session {
	rng := c.Rng
	cf := v14GenConf(rng, mode, flavor)
	s := &v14Session{r: r, c: c, cf: cf, realtime: mode == "realtime"}
	maxBody := int64(256 << 10)
	switch x := rng.IntN(20); {
	case x == 0:
		maxBody = 1 << 20
		if r.Thorough() && rng.IntN(2) == 0 {
			maxBody = 4 << 20
		}
	case x < 8:
		maxBody = 20000
	}
	var common [2][]v14Hdr
	for d := 0; d < 2; d++ {
		for i := 0; i < 4; i++ {
			common[d] = append(common[d], v14Hdr{K: fmt.Sprintf("x-common-%d", i), V: []string{v14Value(rng, 5+rng.IntN(60))}})
		}
	}
	nEx := 0
	for _, n := range cf.Waves {
		nEx += n
	}
	perEx := r.N(1500, 800) / nEx // the thorough tier runs under the race detector
	if perEx < 12 {
		perEx = 12
	}
	idx := 0
	var total int64
	for wi, n := range cf.Waves {
		for i := 0; i < n; i++ {
			mb := maxBody
			if budget := int64(8<<20) - total; mb > budget {
				mb = budget
				if mb < 1000 {
					mb = 1000
				}
			}
			e := v14GenExch(rng, cf, idx, wi, flavor, mb, perEx, &common)
			if flavor == "frame-boundary" {
				v14Boundary(e, cf, int(c.Index%4))
			}
			if flavor == "over-limit-trailers" && wi == 0 && i == 0 {
				v14OverLimitTrailers(rng, e, cf)
			}
			total += e.ReqBody.Len + e.RespBody.Len
			s.ex = append(s.ex, e)
			idx++
		}
	}
	if total > 200<<10 { // byte-at-a-time transport is only affordable for small sessions
		if cf.CapC2S > 0 && cf.CapC2S < 16384 {
			cf.CapC2S = 16384
		}
		if cf.CapS2C > 0 && cf.CapS2C < 16384 {
			cf.CapS2C = 16384
		}
		if cf.RMaxSrv > 0 && cf.RMaxSrv < 4096 {
			cf.RMaxSrv = 4096
		}
		if cf.RMaxCli > 0 && cf.RMaxCli < 4096 {
			cf.RMaxCli = 4096
		}
	}
	s.seen = make([]*v14Seen, len(s.ex))
	s.calls = make([]int, len(s.ex))
	s.got = make([]*v14Got, len(s.ex))
	d := &v14Desc{Flavor: flavor, Conf: cf}
	for _, e := range s.ex {
		d.Ex = append(d.Ex, e.desc())
	}
	c.Describe(d)
	return s
}

// evaluate compares, after the session has ended, what was sent with what was observed.
func (s *v14Session) evaluate() {
	r := s.r
	s.mu.Lock()
	seen, got, calls := s.seen, s.got, s.calls
	s.mu.Unlock()
	w := s.wire
	if w == nil {
		return
	}
	cf := s.cf
	byExch := map[int]*v14WStream{}
	for _, st := range w.streams {
		if st.exch >= 0 {
			byExch[st.exch] = st
		}
	}
	srvAdv := w.side[1].snaps[len(w.side[1].snaps)-1]
	cliAdv := w.side[0].snaps[len(w.side[0].snaps)-1]
	ctxOf := func(e *v14Exch) string {
		return fmt.Sprintf("exchange %d of the session: %+v\nsession: %+v", e.Idx, e.desc(), *cf)
	}
	// Root causes that take a whole connection (or several exchanges) down are reported once,
	// under one key; the exchanges they cost are counted, the others are still compared.
	hasW := func(prefix string) bool {
		for _, wv := range w.viols {
			if strings.HasPrefix(wv.Key, prefix) {
				return true
			}
		}
		return false
	}
	root := ""
	for _, st := range w.streams {
		if st.rstBy == 2 && st.rstCode == 3 && st.beforeAck && srvAdv.initWin < 65535 && !hasW("wire-data-exceeds") {
			root = "server-enforces-unacknowledged-initial-window"
			s.viol(root, "the server reset stream %d with FLOW_CONTROL_ERROR although the client had sent only %d body bytes on it (credit %d), i.e. stayed within the default window of 65535 that applies until it has received and acknowledged the server's SETTINGS_INITIAL_WINDOW_SIZE=%d (RFC 9113 6.9.3: the receiver must be prepared for this); the request was written before the client's SETTINGS ACK\nsession: %+v\nlast frames:%s",
				st.id, st.sent[0], st.wu[0], srvAdv.initWin, *cf, w.history())
			break
		}
	}
	if w.goAway[1] > 0 && w.goCode[1] == 9 && srvAdv.tableSize < 4096 && w.blocksBeforeAck > 0 && !hasW("wire-field-block-undecodable") && !hasW("wire-hpack") {
		key := "server-decoder-applies-unacknowledged-table-size"
		s.viol(key, "the server closed the connection with GOAWAY(COMPRESSION_ERROR) although every field block of the client decodes with the RFC 7541 reference; the server advertised SETTINGS_HEADER_TABLE_SIZE=%d and the client wrote %d field blocks before it acknowledged that SETTINGS frame, i.e. while the table size of 4096 was still in force (RFC 7541 4.2 / RFC 9113 6.5.3)\nsession: %+v\nlast frames:%s",
			srvAdv.tableSize, w.blocksBeforeAck, *cf, w.history())
		if root == "" {
			root = key
		}
	}
	if cf.SrvMaxStreams > 0 && root == "" {
		for _, st := range w.streams {
			if st.rstBy == 2 && st.rstCode == 1 && st.blocks[0] == 1 && st.openAtRst < int(cf.SrvMaxStreams) && !hasW("wire-") {
				root = "server-refuses-stream-within-its-own-stream-limit"
				s.viol(root, "the server reset stream %d with PROTOCOL_ERROR right after its request HEADERS although only %d other request streams were open on the wire at that moment and it advertises SETTINGS_MAX_CONCURRENT_STREAMS=%d: it had just sent END_STREAM on another stream (the client had ended that one before) and still counted it (the count goes down when the serve loop handles the completion of the write, the client's next HEADERS can be read first); the Transport then also marks the connection as not to be reused, so later requests on it fail with \"client conn not usable\"\nsession: %+v\nlast frames:%s",
					st.id, st.openAtRst, cf.SrvMaxStreams, *cf, w.history())
				break
			}
		}
	}
	for i := 0; i < s.started; i++ {
		e := s.ex[i]
		g := got[i]
		st := byExch[i]
		if g == nil || !g.Done {
			continue // reported as stuck
		}
		r.Event("exchanges_run", 1)
		if st != nil {
			if st.listSize[0] > srvAdv.maxHdrList {
				r.Event("skipped_request_over_advertised_header_list_size", 1)
				continue
			}
			if st.listSize[1] > cliAdv.maxHdrList {
				r.Event("skipped_response_over_advertised_header_list_size", 1)
				continue
			}
		}
		if root != "" {
			sn := seen[i]
			if g.Err != nil || g.ReadErr != "" || sn == nil || !sn.Returned || sn.ReadErr != "" || sn.WriteErr != "" {
				r.Event("exchanges_lost_to_"+root, 1)
				continue
			}
		}
		if s.realtime && g.Err != nil && w.side[1].acks == 0 && w.goAway[1] == 0 {
			// In real time the server's 2 s first-SETTINGS timer (a constant) can fire on a
			// loaded machine before its reader got through the client's preface; nothing
			// about the exchange can be concluded then. (In the bubble that timer only fires
			// when the connection is genuinely stalled.)
			r.Event("realtime_exchanges_lost_before_server_settings_ack", 1)
			continue
		}
		if e.Refused != "" {
			if g.Err != nil {
				r.Event("requests_with_over_limit_trailers_refused", 1)
			} else {
				r.Event("requests_with_over_limit_trailers_sent_all_the_same", 1)
			}
			continue
		}
		if g.Err != nil {
			key := "exchange-failed:" + v14ErrClass(g.Err)
			if st != nil && st.beforeAck {
				key += ":request-sent-before-settings-ack"
			}
			s.viol(key, "RoundTrip returned %T %v (wire stream %v)\n%s\nlast frames:%s", g.Err, g.Err, v14StreamStr(st), ctxOf(e), w.history())
			continue
		}
		bad := 0
		v := func(key, format string, a ...any) {
			bad++
			s.viol(key, "%s\n%s", fmt.Sprintf(format, a...), ctxOf(e))
		}
		// ---- request as seen by the handler
		sn := seen[i]
		switch {
		case sn == nil:
			v("handler-not-invoked", "the client got a response (status %d) but the handler never ran", g.Status)
		case !sn.Returned:
			v("handler-not-returned", "the client read the whole response but the handler has not returned")
		default:
			if calls[i] != 1 {
				v("handler-invoked-twice", "the handler ran %d times for one request", calls[i])
			}
			if sn.Panic != "" {
				v("harness-panic-in-handler", "%s", sn.Panic)
			}
			wr := e.wantRequest(cf)
			if sn.Method != e.Method {
				v("request-method", "handler saw method %q, sent %q", sn.Method, e.Method)
			}
			if sn.Proto != "HTTP/2.0" {
				v("request-proto", "handler saw proto %q", sn.Proto)
			}
			if sn.Host != e.host() {
				v("request-host", "handler saw Host %q, sent %q", sn.Host, e.host())
			}
			if e.Method == "CONNECT" {
				if sn.RequestURI != e.host() || sn.URLHost != e.host() || sn.Path != "" {
					v("request-uri", "CONNECT: handler saw RequestURI %q URL.Host %q Path %q, sent authority %q", sn.RequestURI, sn.URLHost, sn.Path, e.host())
				}
			} else {
				if want := e.url().RequestURI(); sn.RequestURI != want {
					v("request-uri", "handler saw RequestURI %s, sent %s", v14Short(sn.RequestURI), v14Short(want))
				}
				if sn.Path != e.Path {
					v("request-path", "handler saw URL.Path %s, sent %s", v14Short(sn.Path), v14Short(e.Path))
				}
				if sn.RawQuery != e.RawQuery {
					v("request-query", "handler saw URL.RawQuery %s, sent %s", v14Short(sn.RawQuery), v14Short(e.RawQuery))
				}
			}
			v14CmpHeader(sn.Header, wr, func(class, detail string) { v("request-header:"+class, "%s", detail) })
			if sn.ContentLength != wr.ContLen[0] {
				v("request-content-length", "handler saw ContentLength %d, expected %d (body kind %d, %d bytes)", sn.ContentLength, wr.ContLen[0], e.ReqBodyKind, e.ReqBody.Len)
			}
			if sn.ReadErr != "" {
				v("request-body-read-error", "reading the request body failed after %d of %d bytes: %s", sn.BodyLen, e.ReqBody.Len, sn.ReadErr)
			} else if sn.BodyRes != "" {
				v("request-body", "request body differs: %s", sn.BodyRes)
			}
			// trailers: announced keys before the body, values after EOF
			for k := range wr.Trailer {
				if _, ok := sn.TrailerBefore[k]; !ok {
					v("request-trailer:not-announced", "trailer key %q was declared by the client but Request.Trailer did not list it before the body was read (%v)", k, v14Keys(sn.TrailerBefore))
				}
			}
			if sn.ReadErr == "" {
				v14CmpTrailer(sn.Trailer, wr.Trailer, func(class, detail string) { v("request-trailer:"+class, "%s", detail) })
			}
			if sn.WriteErr != "" {
				if e.handlerBody {
					v("handler-write-error", "%s", sn.WriteErr)
				} else {
					r.Event("handler_write_errors_on_bodyless_responses", 1)
				}
			}
		}
		// ---- response as seen by the client
		if sn != nil && sn.Returned {
			ws := e.wantResponse(cf, sn.SniffK)
			if e.EarlyHints > 0 {
				var links []string
				for j := 0; j < e.EarlyHints; j++ {
					links = append(links, v14Link(j))
				}
				ws.Header["Link"] = links
			}
			if g.Status != e.Status {
				v("response-status", "client got status %d, handler sent %d", g.Status, e.Status)
			}
			if want := fmt.Sprintf("%d %s", e.Status, http.StatusText(e.Status)); g.StatusText != want {
				v("response-status-text", "client got Status %q, expected %q", g.StatusText, want)
			}
			if g.Proto != "HTTP/2.0" {
				v("response-proto", "client got proto %q", g.Proto)
			}
			v14CmpHeader(g.Header, ws, func(class, detail string) { v("response-header:"+class, "%s", detail) })
			okCL := false
			for _, x := range ws.ContLen {
				if g.ContentLength == x {
					okCL = true
				}
			}
			// the Content-Length field and Response.ContentLength must agree
			if cl, has := g.Header["Content-Length"]; has && (len(cl) != 1 || cl[0] != strconv.FormatInt(g.ContentLength, 10)) {
				okCL = false
			} else if !has && g.ContentLength > 0 {
				okCL = false
			}
			if !okCL {
				v("response-content-length", "client got ContentLength %d (header %v), admissible %v", g.ContentLength, g.Header["Content-Length"], ws.ContLen)
			}
			gunzip := e.RespGzip && e.requestedGzip(cf) && e.handlerBody
			if g.Uncompressed != gunzip {
				v("response-uncompressed-flag", "Response.Uncompressed = %v, expected %v", g.Uncompressed, gunzip)
			}
			if g.ReadErr != "" {
				v("response-body-read-error", "reading the response body failed after %d bytes: %s", g.BodyLen, g.ReadErr)
			} else if g.BodyRes != "" {
				v("response-body", "response body differs: %s (handler wrote %d bytes)", g.BodyRes, sn.Wrote)
			}
			if e.handlerBody {
				for _, t := range e.RespTrDecl {
					k := http.CanonicalHeaderKey(t.K)
					if _, ok := g.TrailerBefore[k]; !ok {
						v("response-trailer:not-announced", "trailer key %q was declared in the Trailer header but Response.Trailer did not list it before the body was read (%v)", k, v14Keys(g.TrailerBefore))
					}
				}
				if g.ReadErr == "" {
					v14CmpTrailer(g.Trailer, ws.Trailer, func(class, detail string) { v("response-trailer:"+class, "%s", detail) })
				}
			}
			// informational responses
			var infos []v14Info
			for _, in := range g.Infos {
				if in.Code != 100 {
					infos = append(infos, in)
				}
			}
			if len(infos) != e.EarlyHints {
				v("response-1xx-count", "client got %d informational responses (other than 100), handler sent %d", len(infos), e.EarlyHints)
			} else {
				for j, in := range infos {
					var links []string
					for k := 0; k <= j; k++ {
						links = append(links, v14Link(k))
					}
					if in.Code != 103 || len(in.Header) != 1 || !v14EqList(in.Header["Link"], links) {
						v("response-1xx-content", "informational response %d: got %d %v, handler sent 103 with Link %v", j, in.Code, in.Header, links)
					}
				}
			}
		}
		if bad == 0 {
			r.Event("exchanges_compared_equal", 1)
		}
		s.account(e, st, g, sn)
	}
	if s.stuck != "" {
		var sts []string
		for _, st := range w.streams {
			sts = append(sts, v14StreamStr(st))
		}
		sort.Strings(sts)
		h := w.history()
		if len(h) > 1500 {
			h = "…" + h[len(h)-1500:]
		}
		s.viol(map[bool]string{true: "exchange-stuck-realtime", false: "exchange-stuck"}[s.realtime],
			"no byte moved and no handler or client made a step although exchanges were still running (%s)\nsession: %+v\nwire streams: %s\nlast frames:%s\ngoroutines: %s", s.stuck, *cf, strings.Join(sts, " | "), h, s.stuckStacks)
	}
	for _, p := range s.panics {
		s.viol("serve-loop-panic:"+vcliPanicSig(p), "the server's serve loop panicked: %s\nsession: %+v", p, *cf)
	}
	for _, wv := range w.viols {
		s.viol(wv.Key, "%s (×%d)\nsession: %+v", wv.Detail, wv.Count, *cf)
	}
	if w.goAway[1] > 0 && w.goCode[1] != 0 && root == "" {
		s.viol(fmt.Sprintf("server-goaway-code-%d", w.goCode[1]), "the server sent GOAWAY with error code %d during a session of valid exchanges\nsession: %+v\nlast frames:%s", w.goCode[1], *cf, w.history())
	}
	if w.goAway[0] > 0 && w.goCode[0] != 0 {
		s.viol(fmt.Sprintf("client-goaway-code-%d", w.goCode[0]), "the client sent GOAWAY with error code %d during a session of valid exchanges\nsession: %+v\nlast frames:%s", w.goCode[0], *cf, w.history())
	}
	for k, n := range w.ev {
		r.Event(k, n)
	}
}

func v14Keys(h http.Header) []string {
	var k []string
	for x := range h {
		k = append(k, x)
	}
	return k
}

func v14StreamStr(st *v14WStream) string {
	if st == nil {
		return "<request never reached the wire>"
	}
	return fmt.Sprintf("id=%d sent=%v credit=%v ended=%v blocks=%v rstBy=%d rstCode=%d beforeAck=%v", st.id, st.sent, st.wu, st.ended, st.blocks, st.rstBy, st.rstCode, st.beforeAck)
}

// account records evidence about one finished exchange and evaluates the non-triviality rule.
func (s *v14Session) account(e *v14Exch, st *v14WStream, g *v14Got, sn *v14Seen) {
	r := s.r
	nt := false
	if st != nil {
		if st.contFrames[0] > 0 {
			r.Event("exchanges_with_continuation_c2s", 1)
			nt = true
		}
		if st.contFrames[1] > 0 {
			r.Event("exchanges_with_continuation_s2c", 1)
			nt = true
		}
		if st.resumed[0] > 0 {
			r.Event("exchanges_request_blocked_on_flow_control", 1)
			nt = true
		}
		if st.resumed[1] > 0 {
			r.Event("exchanges_response_blocked_on_flow_control", 1)
			nt = true
		}
		if st.beforeAck {
			r.Event("requests_sent_before_settings_ack", 1)
		}
		if st.rstBy != 0 {
			r.Event("exchanges_with_rst_stream", 1)
		}
	}
	r.Event("request_body_bytes", e.ReqBody.Len)
	if sn != nil {
		r.Event("response_body_bytes_written", sn.Wrote)
	}
	switch e.ReqBodyKind {
	case 0, 1:
		r.Event("requests_without_body", 1)
	case 2:
		r.Event("requests_declared_length", 1)
	default:
		r.Event("requests_undeclared_length", 1)
	}
	if e.RespDecl {
		r.Event("responses_declared_length", 1)
	} else {
		r.Event("responses_undeclared_length", 1)
		if _, ok := g.Header["Content-Length"]; ok {
			r.Event("responses_content_length_added_by_server", 1)
		}
	}
	nrt := 0
	for _, t := range e.ReqTrailer {
		nrt += len(t.V)
	}
	if nrt > 0 {
		r.Event("exchanges_with_request_trailers", 1)
		r.Event("request_trailer_fields", int64(nrt))
	}
	nst := v14NFields(e.RespTrDecl) + v14NFields(e.RespTrPfx)
	if nst > 0 && e.handlerBody {
		r.Event("exchanges_with_response_trailers", 1)
		r.Event("response_trailer_fields", int64(nst))
	}
	if len(e.RespTrPfx) > 0 {
		r.Event("exchanges_with_undeclared_response_trailers", 1)
	}
	if e.NearLimit != "" {
		r.Event("near_limit_header_sets_"+e.NearLimit, 1)
	}
	if e.Expect100 {
		r.Event("exchanges_expect_100_continue", 1)
	}
	if e.EarlyHints > 0 {
		r.Event("exchanges_with_103", 1)
	}
	if e.RespGzip && e.requestedGzip(s.cf) {
		r.Event("exchanges_transparent_gzip", 1)
	}
	if sn != nil && sn.Header != nil {
		if _, ok := e.wantResponse(s.cf, sn.SniffK).Header["Content-Type"]; ok {
			hasCT := false
			for _, h := range e.RespHdr {
				if http.CanonicalHeaderKey(h.K) == "Content-Type" {
					hasCT = true
				}
			}
			if !hasCT {
				r.Event("responses_content_type_sniffed", 1)
			}
		}
	}
	r.Event("order_"+[3]string{"read_then_respond", "respond_then_read", "interleaved"}[e.Order], 1)
	h := fnv.New64a()
	fmt.Fprint(h, e.desc(), s.cf.SrvStreamWin, s.cf.CliStreamWin, s.cf.SrvMaxFrame, s.cf.CliMaxFrame, s.cf.SrvDecTable, s.cf.CliDecTable, s.cf.SrvEncTable, s.cf.CliEncTable)
	r.EvalHash(nt, h.Sum64())
}

// v14PanicReg maps live pipes to their sessions for the serve-loop panic hook.
type v14Reg struct {
	mu sync.Mutex
	m  map[*v14Pipe]*v14Session
}

var v14PanicReg = v14Reg{m: map[*v14Pipe]*v14Session{}}

func (g *v14Reg) find(p *v14Pipe) *v14Session {
	g.mu.Lock()
	defer g.mu.Unlock()
	return g.m[p]
}

func (g *v14Reg) set(p *v14Pipe, s *v14Session) {
	g.mu.Lock()
	if s == nil {
		delete(g.m, p)
	} else {
		g.m[p] = s
	}
	g.mu.Unlock()
}

// v14RunCase runs one session and reports.
func v14RunCase(r *verifrt.R, c *verifrt.Case, mode, flavor string) {
	s := v14Build(r, c, mode, flavor)
	if strings.Contains(os.Getenv("VERIF_DEBUG"), "timing") {
		t0 := time.Now()
		defer func() {
			if d := time.Since(t0); d > 2*time.Second {
				w := s.wire
				fmt.Printf("V14-SLOW %s/%d %.1fs frames=%d/%d conf=%+v\n", c.Stream, c.Index, d.Seconds(), w.ev["frames_c2s"], w.ev["frames_s2c"], *s.cf)
			}
		}()
	}
	var inner, outer string
	if s.realtime {
		func() {
			defer func() {
				if e := recover(); e != nil {
					inner = fmt.Sprintf("%v\n%s", e, debug.Stack())
				}
			}()
			s.run()
		}()
	} else {
		inner, outer = vsrvBubble(r.T, s.run)
	}
	if s.pipe != nil {
		v14PanicReg.set(s.pipe, nil)
	}
	if s.setupErr != "" {
		c.Violation("harness-setup", "%s", s.setupErr)
		return
	}
	if inner != "" {
		c.Violation("harness-panic", "panic while driving the session: %s", inner)
	}
	if outer != "" && s.stuck == "" && s.leftover != "" {
		outer += "\ngoroutines of the bubble after teardown:\n" + s.leftover
	}
	if outer != "" && s.stuck == "" {
		sig := outer
		if len(sig) > 50 {
			sig = sig[:50]
		}
		c.Violation("goroutines-left-after-close:"+strings.ReplaceAll(sig, " ", "_"), "after every exchange had finished and the client had closed the connection the bubble could not exit: %s\nsession: %+v", outer, *s.cf)
	}
	s.evaluate()
	s.mu.Lock()
	for _, v := range s.viols {
		c.Violation(v.Key, "%s (×%d in this session)", v.Detail, v.Count)
	}
	nv := len(s.viols)
	s.mu.Unlock()
	r.Event("sessions_"+mode, 1)
	r.Event("sessions_flavor_"+flavor, 1)
	cf := s.cf
	r.Event(fmt.Sprintf("conf_srv_stream_window_%s", v14Bucket(int64(cf.SrvStreamWin))), 1)
	r.Event(fmt.Sprintf("conf_cli_stream_window_%s", v14Bucket(int64(cf.CliStreamWin))), 1)
	r.Event(fmt.Sprintf("conf_srv_decoder_table_%s", v14Bucket(int64(cf.SrvDecTable))), 1)
	r.Event(fmt.Sprintf("conf_cli_decoder_table_%s", v14Bucket(int64(cf.CliDecTable))), 1)
	r.Event(fmt.Sprintf("conf_srv_max_frame_%s", v14Bucket(int64(cf.SrvMaxFrame))), 1)
	r.Event(fmt.Sprintf("conf_cli_max_frame_%s", v14Bucket(int64(cf.CliMaxFrame))), 1)
	maxw := 0
	for _, n := range cf.Waves {
		if n > maxw {
			maxw = n
		}
	}
	r.Event(fmt.Sprintf("conf_concurrency_%d", maxw), 1)
	if nv == 0 && len(s.ex) > 0 {
		r.Sample(map[string]any{"mode": mode, "flavor": flavor, "conf": cf, "exchanges": len(s.ex), "first": s.ex[0].desc()})
	}
}

func v14Bucket(v int64) string {
	switch {
	case v == 0:
		return "default"
	case v < 32:
		return "lt32"
	case v <= 1000:
		return "le1000"
	case v < 4096:
		return "lt4096"
	case v == 4096:
		return "4096"
	case v < 65535:
		return "lt65535"
	case v <= 65536:
		return "64k"
	case v <= 1<<20:
		return "le1M"
	}
	return "gt1M"
}

func TestVerif_C14(t *testing.T) {
	r := verifrt.Start(t, "C14")
	defer r.Finish()
	if !strings.Contains(os.Getenv("VERIF_DEBUG"), "noexit") {
		r.ExitIfAbnormal()
	}
	r.SetRule("one case = one connection between the real Transport (ClientConn.RoundTrip) and the real Server (ServeConn) over an in-memory pipe, configured at a PRNG point of the SETTINGS space (both peers: stream window {1,100,65535,1MiB,default,random}, connection window, max frame {16384..2^24-1}, HPACK decoder/encoder table {1,31,100,4096,65536,random}, header list limit {4KiB..1MiB,default}; server MAX_CONCURRENT_STREAMS {1,2,3,100,default}, five write schedulers; pipe capacities 64 B..1 MiB, reads fragmented to 1/7/100/4096 bytes), carrying 1-3 waves of 1-8 concurrent exchanges. Each exchange: method, target (escaped path/query, OPTIONS *, CONNECT), 0-500 header fields in arbitrary letter case incl. cookies, connection-specific fields, near-limit sets that force CONTINUATION, a body of 0-4 MiB with declared/undeclared length read in PRNG chunkings, 0-40 request trailers; the handler answers with a PRNG status, header set, 103 hints, body with PRNG write/Flush pattern, declared and TrailerPrefix trailers, reading the request before/after/interleaved with writing. non-trivial = the exchange needed CONTINUATION in either direction or a DATA sender ran out of flow-control window and resumed after a WINDOW_UPDATE; distinct = hash of the exchange shape and the session's settings")
	r.Assume("frames are split by the independent reader h2ref and field blocks decoded by the independent HPACK reference hpackref; SETTINGS bind a sender from its own ACK, before that old and new values are admissible; net/url, net/http.CanonicalHeaderKey, net/http.DetectContentType and compress/gzip are trusted")
	r.Assume("request canonicalisations accepted: (R1) field names are case-insensitive, delivered under CanonicalHeaderKey, value order kept per name, order across names unobservable, values of client map keys that differ only in case merge in unspecified order; (R2) a Host entry in Request.Header is ignored, Host = Request.Host or URL.Host; (R3) Connection, Proxy-Connection, Keep-Alive, Transfer-Encoding, Upgrade are not transmitted (RFC 9113 8.2.2); (R4) Cookie values are split into crumbs and re-joined with '; ' into one value (RFC 9113 8.2.3); (R5) a Content-Length entry in Request.Header is ignored, the field is derived from Request.ContentLength/Body: sent iff length > 0, or = 0 and method POST/PUT/PATCH, handler ContentLength = declared length, -1 if unknown (incl. ContentLength 0 with a non-nil body), 0 without a body; (R6) User-Agent: default Go-http-client/2.0 when absent, only the first value, an empty value suppresses it; (R7) Accept-Encoding: gzip is added when compression is enabled and the request has no Accept-Encoding/Range and is not HEAD; (R8) declared trailer keys are announced, appear in Request.Trailer (not in Header) before the body and carry their values after EOF, undeclared-value keys stay empty; (R9) a key with no values is not transmitted; (R10) Expect: 100-continue may or may not be visible to the handler; (R11) Proto HTTP/2.0, RequestURI = URL.RequestURI(), for CONNECT the authority")
	r.Assume("response canonicalisations accepted: (S1) names as R1; (S2) Date is added when the handler set none (any valid HTTP date); (S3) Content-Type is DetectContentType of the first <=512 body bytes written before the header went out, when the handler set neither Content-Type nor Content-Encoding and the status allows a body; (S4) without a declared Content-Length the response may carry none (ContentLength -1) or exactly the number of bytes written; (S5) the Trailer field is removed from Header and its keys are listed in Response.Trailer, which holds the declared and TrailerPrefix trailers after EOF; (S6) Status text is net/http.StatusText; (S7) HEAD/204/304 responses have no body; (S8) a gzip body the Transport asked for itself is decoded, Content-Encoding/Content-Length dropped, Uncompressed set; (S9) a key with no values is not transmitted; (S10) 103 responses reach ClientTrace.Got1xxResponse with the header set at that moment")
	r.Assume("handlers always read the whole request; a handler answering with status > 299 or a bodyless status reads the request first (the Transport stops uploading after such a status by design); requests with trailers always have a body; header sets stay within the advertised MAX_HEADER_LIST_SIZE (checked on the wire: an exchange whose decoded list is larger is skipped and counted)")
	r.Assume("a hang is decided without a deadline inside the bubble (3 virtual seconds of total quiescence) and by 90 s without any byte or step in real time")

	r.Note("deviations from DESIGN §3 C14: (1) the tee feeds a self-contained wire shadow in the C14 files (frame size, stream/connection windows with SETTINGS binding at the ACK, HPACK decodability and table size, lower-case names, pseudo-header order, connection-specific fields) instead of the C08-C10 session objects, which are tied to scripted peers; (2) inside a bubble the pipe is unbounded, because the Transport holds its write mutex inside conn.Write and a mutex waiter is not durably blocked, so one stalled reader would freeze synctest.Wait and the virtual clock; bounded capacities (64 B..1 MiB) are used in real time; (3) header table size 0 and stream windows 0 cannot be configured (0 selects the default): 1/31 and 1 are used; (4) every body is bounded by window x frame budget, and the thorough tier is not 50x the quick tier: under the race detector a frame costs about 0.5 ms (the server starts a goroutine per frame written), so the thorough tier runs ~500 connections with larger bodies under -race and the quick tier ~700 connections without it; (5) bodies are compared byte for byte against a position-addressable generator (stronger than a rolling hash)")
	r.Note("observed but outside the property: for HEAD requests the handler's Write/Flush can return io.ErrShortWrite / a stream-closed error once the header has gone out (counted as handler_write_errors_on_bodyless_responses); the client's view is unaffected")
	testHookOnPanicMu.Lock()
	oldHook := testHookOnPanic
	sessMu := &v14PanicReg
	testHookOnPanic = func(sc *serverConn, v interface{}) bool {
		if end, ok := sc.conn.(*v14End); ok {
			if s := sessMu.find(end.p); s != nil {
				s.mu.Lock()
				s.panics = append(s.panics, fmt.Sprintf("%v\n%s", v, debug.Stack()))
				s.mu.Unlock()
				return false
			}
		}
		if oldHook != nil {
			return oldHook(sc, v)
		}
		return true
	}
	testHookOnPanicMu.Unlock()
	defer func() {
		testHookOnPanicMu.Lock()
		testHookOnPanic = oldHook
		testHookOnPanicMu.Unlock()
	}()

	only := ""
	for _, kv := range strings.Split(os.Getenv("VERIF_DEBUG"), ",") {
		if strings.HasPrefix(kv, "only=") {
			only = strings.TrimPrefix(kv, "only=")
		}
	}
	run := func(mode, flavor string) func(c *verifrt.Case) {
		return func(c *verifrt.Case) {
			if only != "" && only != c.Stream {
				return
			}
			v14RunCase(r, c, mode, flavor)
		}
	}
	// a small slice with the package's serve-goroutine assertion enabled
	vsrvGoroutineTracking(true)
	r.CasesParallel("bubble-gotrack", r.N(10, 10), 0, run("bubble", "general"))
	vsrvGoroutineTracking(false)
	r.CasesParallel("bubble", r.N(300, 160), 0, run("bubble", "general"))
	r.CasesParallel("bubble-tiny-window", r.N(60, 40), 0, run("bubble", "tiny-window"))
	r.CasesParallel("bubble-near-limit", r.N(60, 40), 0, run("bubble", "near-limit"))
	r.CasesParallel("bubble-early", r.N(60, 40), 0, run("bubble", "early"))
	r.CasesParallel("bubble-frame-boundary", r.N(8, 16), 0, run("bubble", "frame-boundary"))
	r.CasesParallel("bubble-over-limit-trailers", r.N(40, 120), 0, run("bubble", "over-limit-trailers"))
	r.CasesParallel("realtime", r.N(160, 120), runtime.GOMAXPROCS(0), run("realtime", "general"))
	r.CasesParallel("realtime-tiny-window", r.N(40, 30), runtime.GOMAXPROCS(0), run("realtime", "tiny-window"))

	r.Require("exchanges_compared_equal", 500)
	r.Require("exchanges_with_continuation_c2s", 10)
	r.Require("exchanges_with_continuation_s2c", 10)
	r.Require("exchanges_request_blocked_on_flow_control", 30)
	r.Require("exchanges_response_blocked_on_flow_control", 30)
	r.Require("exchanges_with_request_trailers", 30)
	r.Require("exchanges_with_response_trailers", 30)
	r.Require("sessions_bubble", 100)
	r.Require("sessions_realtime", 50)
	r.Require("near_limit_header_sets_req", 5)
	r.Require("requests_with_over_limit_trailers_refused", 10)
	r.Require("header_blocks_of_exactly_a_multiple_of_16384_octets_c2s", 1)
	r.Require("header_blocks_of_exactly_a_multiple_of_16384_octets_s2c", 1)
	r.Require("near_limit_header_sets_resp", 5)
}
