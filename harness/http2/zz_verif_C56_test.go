//go:build verif

package http2

// C56: structured-field parsing follows RFC 9651.
//
// The monitor lives in package http2 (white-box) because the consumer named by the property,
// parseRFC9218Priority, is unexported; the parsers themselves are the exported functions of
// golang.org/x/net/internal/httpsfv. The oracle is golang.org/x/net/internal/verifrt/sfvref, a
// parser written from the numbered algorithms of RFC 9651 section 4.2.

import (
	"encoding/base64"
	"fmt"
	"math/rand/v2"
	"sort"
	"strings"
	"testing"
	"unicode/utf8"

	"golang.org/x/net/internal/httpsfv"
	"golang.org/x/net/internal/verifrt"
	"golang.org/x/net/internal/verifrt/sfvref"
)

// ---------------------------------------------------------------------------------------
// generation (grammar of RFC 9651 section 3, plus deliberate near-valid forms)

type c56gen struct {
	rng *rand.Rand
	// bad is the per-mille probability with which a leaf production emits a near-valid but
	// illegal form (16-digit integer, bad escape, upper-case hex, …).
	bad int
}

const (
	c56lc     = "abcdefghijklmnopqrstuvwxyz"
	c56uc     = "ABCDEFGHIJKLMNOPQRSTUVWXYZ"
	c56digits = "0123456789"
	c56keyCh  = c56lc + c56digits + "_-.*"
	c56tokCh  = c56lc + c56uc + c56digits + "!#$%&'*+-.^_`|~:/"
)

func (g *c56gen) pick(s string) byte { return s[g.rng.IntN(len(s))] }
func (g *c56gen) p(permille int) bool { return g.rng.IntN(1000) < permille }

func (g *c56gen) digits(n int) string {
	b := make([]byte, n)
	for i := range b {
		b[i] = g.pick(c56digits)
	}
	return string(b)
}

func (g *c56gen) key() string {
	if g.p(150) {
		return []string{"u", "i", "a", "*"}[g.rng.IntN(4)]
	}
	n := g.rng.IntN(6)
	b := []byte{g.pick(c56lc + "*")}
	for i := 0; i < n; i++ {
		b = append(b, g.pick(c56keyCh))
	}
	if g.p(g.bad) {
		b[0] = g.pick(c56uc + c56digits + "_-.")
	}
	return string(b)
}

func (g *c56gen) integer() string {
	n := 1 + g.rng.IntN(15)
	switch g.rng.IntN(6) {
	case 0:
		n = 15
	case 1:
		n = 1
	}
	if g.p(g.bad) {
		n = 16 + g.rng.IntN(3)
	}
	s := g.digits(n)
	if g.p(300) {
		s = "-" + s
	}
	return s
}

func (g *c56gen) decimal() string {
	ni := 1 + g.rng.IntN(12)
	nf := 1 + g.rng.IntN(3)
	switch g.rng.IntN(6) {
	case 0:
		ni, nf = 12, 3
	case 1:
		ni = 12
	}
	if g.p(g.bad) {
		switch g.rng.IntN(4) {
		case 0:
			ni = 13
		case 1:
			nf = 4
		case 2:
			nf = 0
		case 3:
			ni, nf = 13, 3
		}
	}
	s := g.digits(ni) + "." + g.digits(nf)
	if g.p(300) {
		s = "-" + s
	}
	return s
}

func (g *c56gen) str() string {
	n := g.rng.IntN(10)
	var b strings.Builder
	b.WriteByte('"')
	for i := 0; i < n; i++ {
		switch {
		case g.p(120):
			b.WriteString(`\"`)
		case g.p(120):
			b.WriteString(`\\`)
		case g.p(g.bad):
			b.WriteString([]string{`\a`, "\t", "\x7f", "\x80", "\x00", `\`}[g.rng.IntN(6)])
		default:
			ch := byte(0x20 + g.rng.IntN(0x5f))
			if ch == '"' || ch == '\\' {
				ch = ','
			}
			b.WriteByte(ch)
		}
	}
	if !g.p(g.bad) {
		b.WriteByte('"')
	}
	return b.String()
}

func (g *c56gen) token() string {
	n := g.rng.IntN(8)
	b := []byte{g.pick(c56lc + c56uc + "*")}
	for i := 0; i < n; i++ {
		b = append(b, g.pick(c56tokCh))
	}
	return string(b)
}

func (g *c56gen) byteSeq() string {
	raw := make([]byte, g.rng.IntN(10))
	for i := range raw {
		raw[i] = byte(g.rng.Uint32())
	}
	var e string
	if g.p(500) {
		e = base64.StdEncoding.EncodeToString(raw)
	} else {
		e = base64.RawStdEncoding.EncodeToString(raw)
	}
	if g.p(g.bad) {
		// arbitrary characters of the base64 alphabet, padding anywhere
		n := g.rng.IntN(7)
		b := make([]byte, n)
		for i := range b {
			b[i] = g.pick(c56lc + c56uc + c56digits + "+/==")
		}
		e = string(b)
	}
	return ":" + e + ":"
}

func (g *c56gen) boolean() string {
	if g.p(g.bad) {
		return []string{"?2", "?", "?t", "?01"}[g.rng.IntN(4)]
	}
	return []string{"?0", "?1"}[g.rng.IntN(2)]
}

func (g *c56gen) date() string {
	if g.p(g.bad) {
		return "@" + g.decimal()
	}
	return "@" + g.integer()
}

var c56runes = []rune{0x80, 0xe9, 0x7ff, 0x800, 0x20ac, 0xd7ff, 0xe000, 0xfffc, 0xfffd, 0xfffe, 0xffff, 0x10000, 0x1f600, 0x10ffff}

func (g *c56gen) displayString() string {
	n := g.rng.IntN(6)
	var b strings.Builder
	b.WriteString(`%"`)
	pct := func(bs []byte, upper bool) {
		for _, x := range bs {
			if upper {
				fmt.Fprintf(&b, "%%%02X", x)
			} else {
				fmt.Fprintf(&b, "%%%02x", x)
			}
		}
	}
	for i := 0; i < n; i++ {
		switch {
		case g.p(450):
			ch := byte(0x20 + g.rng.IntN(0x5f))
			if ch == '"' || ch == '%' {
				ch = '\\'
			}
			b.WriteByte(ch)
		case g.p(g.bad * 2):
			switch g.rng.IntN(6) {
			case 0: // surrogate
				pct([]byte{0xed, 0xa0 + byte(g.rng.IntN(0x20)), 0x80}, false)
			case 1: // truncated sequence
				pct([]byte{0xe2, 0x82}, false)
			case 2: // overlong
				pct([]byte{0xc0, 0xaf}, false)
			case 3: // upper-case hex
				pct([]byte{0xc3, 0xa9}, true)
			case 4: // above U+10FFFF
				pct([]byte{0xf4, 0x90, 0x80, 0x80}, false)
			case 5: // raw byte outside VCHAR/SP
				b.WriteByte([]byte{0x7f, 0x80, '\t', 0}[g.rng.IntN(4)])
			}
		default:
			var r rune
			if g.p(500) {
				r = c56runes[g.rng.IntN(len(c56runes))]
			} else {
				r = rune(g.rng.IntN(0x110000))
				if r >= 0xd800 && r <= 0xdfff {
					r = 0x41
				}
			}
			var buf [4]byte
			k := utf8.EncodeRune(buf[:], r)
			pct(buf[:k], false)
		}
	}
	if !g.p(g.bad) {
		b.WriteByte('"')
	}
	return b.String()
}

func (g *c56gen) bareKind(k sfvref.Kind) string {
	switch k {
	case sfvref.KInteger:
		return g.integer()
	case sfvref.KDecimal:
		return g.decimal()
	case sfvref.KString:
		return g.str()
	case sfvref.KToken:
		return g.token()
	case sfvref.KByteSeq:
		return g.byteSeq()
	case sfvref.KBoolean:
		return g.boolean()
	case sfvref.KDate:
		return g.date()
	}
	return g.displayString()
}

func (g *c56gen) bare() string { return g.bareKind(sfvref.Kind(1 + g.rng.IntN(8))) }

func (g *c56gen) sp(max int) string { return strings.Repeat(" ", g.rng.IntN(max+1)) }

func (g *c56gen) ows() string {
	n := g.rng.IntN(3)
	b := make([]byte, n)
	for i := range b {
		b[i] = " \t"[g.rng.IntN(2)]
	}
	return string(b)
}

func (g *c56gen) params() string {
	n := 0
	if g.p(450) {
		n = 1 + g.rng.IntN(3)
	}
	var b strings.Builder
	for i := 0; i < n; i++ {
		b.WriteByte(';')
		if g.p(300) {
			b.WriteString(g.sp(2))
		}
		b.WriteString(g.key())
		if g.p(600) {
			b.WriteByte('=')
			b.WriteString(g.bare())
		}
	}
	return b.String()
}

func (g *c56gen) item() string { return g.bare() + g.params() }

func (g *c56gen) bareInner() string {
	n := g.rng.IntN(4)
	var b strings.Builder
	b.WriteByte('(')
	b.WriteString(g.sp(1))
	for i := 0; i < n; i++ {
		if i > 0 {
			b.WriteString(" " + g.sp(1))
		}
		b.WriteString(g.item())
	}
	if n > 0 {
		b.WriteString(g.sp(1))
	}
	b.WriteByte(')')
	return b.String()
}

func (g *c56gen) member() string {
	if g.p(250) {
		return g.bareInner() + g.params()
	}
	return g.item()
}

func (g *c56gen) list() string {
	n := g.rng.IntN(5)
	var b strings.Builder
	for i := 0; i < n; i++ {
		if i > 0 {
			b.WriteString(g.ows() + "," + g.ows())
		}
		b.WriteString(g.member())
	}
	if n > 0 && g.p(100) {
		b.WriteString(g.ows())
	}
	return b.String()
}

func (g *c56gen) dict() string {
	n := g.rng.IntN(5)
	var b strings.Builder
	for i := 0; i < n; i++ {
		if i > 0 {
			b.WriteString(g.ows() + "," + g.ows())
		}
		b.WriteString(g.key())
		if g.p(700) {
			b.WriteByte('=')
			b.WriteString(g.member())
		} else {
			b.WriteString(g.params())
		}
	}
	if n > 0 && g.p(100) {
		b.WriteString(g.ows())
	}
	return b.String()
}

// priority builds the kind of dictionary RFC 9218 carries, with hostile variations.
func (g *c56gen) priority() string {
	n := 1 + g.rng.IntN(4)
	var parts []string
	for i := 0; i < n; i++ {
		switch g.rng.IntN(8) {
		case 0, 1:
			parts = append(parts, "u="+[]string{"0", "1", "2", "3", "4", "5", "6", "7", "8", "-1", "07", "10", "1.0", "7.5", "?1", "a", `"3"`, "(3)", "999999999999999", "9999999999999999", ""}[g.rng.IntN(21)]+g.params())
		case 2:
			parts = append(parts, "i"+g.params())
		case 3, 4:
			parts = append(parts, "i="+[]string{"?1", "?0", "?1", "?0", "1", "0", "?2", "true", "(?1)", ""}[g.rng.IntN(10)]+g.params())
		case 5:
			parts = append(parts, "u")
		default:
			parts = append(parts, g.key()+"="+g.member())
		}
	}
	var b strings.Builder
	for i, p := range parts {
		if i > 0 {
			b.WriteString(g.ows() + "," + g.ows())
		}
		b.WriteString(p)
	}
	return b.String()
}

const c56mutAlphabet = " \t,;=()\"\\:?@%*-._/+aZ019\x7f\x80\x00"

// mutate applies one single-character edit.
func (g *c56gen) mutate(s string) string {
	b := []byte(s)
	if len(b) == 0 {
		return string(g.pick(c56mutAlphabet))
	}
	i := g.rng.IntN(len(b))
	switch g.rng.IntN(8) {
	case 0: // delete
		return string(append(b[:i:i], b[i+1:]...))
	case 1: // insert
		ch := g.pick(c56mutAlphabet)
		j := g.rng.IntN(len(b) + 1)
		return string(b[:j]) + string(ch) + string(b[j:])
	case 2: // replace
		b[i] = g.pick(c56mutAlphabet)
		return string(b)
	case 3: // SP <-> HTAB on a whitespace position if there is one
		var ws []int
		for k, ch := range b {
			if ch == ' ' || ch == '\t' {
				ws = append(ws, k)
			}
		}
		if len(ws) == 0 {
			j := g.rng.IntN(len(b) + 1)
			return string(b[:j]) + " \t"[g.rng.IntN(2):][:1] + string(b[j:])
		}
		k := ws[g.rng.IntN(len(ws))]
		b[k] ^= ' ' ^ '\t'
		return string(b)
	case 4: // truncate
		return string(b[:i])
	case 5: // duplicate a character
		return string(b[:i+1]) + string(b[i:])
	case 6: // drop a separator/delimiter if there is one
		var seps []int
		for k, ch := range b {
			if strings.IndexByte(",;=()\":", ch) >= 0 {
				seps = append(seps, k)
			}
		}
		if len(seps) == 0 {
			return string(b[:i])
		}
		k := seps[g.rng.IntN(len(seps))]
		return string(append(b[:k:k], b[k+1:]...))
	default: // leading / trailing whitespace
		w := " \t"[g.rng.IntN(2):][:1]
		if g.p(500) {
			return w + s
		}
		return s + w
	}
}

// ---------------------------------------------------------------------------------------
// comparison

type c56cb [3]string

func c56refCallbacks(fn string, r sfvref.Result) []c56cb {
	var out []c56cb
	switch fn {
	case "ParseList":
		for _, m := range r.Members {
			out = append(out, c56cb{m.Val, m.Param})
		}
	case "ParseDictionary":
		for _, m := range r.Members {
			out = append(out, c56cb{m.Key, m.Val, m.Param})
		}
	case "ParseItem", "ParseBareInnerList":
		for _, it := range r.Items {
			out = append(out, c56cb{it.Bare.Raw, it.Param})
		}
	case "ParseParameter":
		for _, kv := range r.Params {
			out = append(out, c56cb{kv.Key, kv.Val})
		}
	}
	return out
}

func c56ref(fn, s string, l sfvref.Lenient) sfvref.Result {
	switch fn {
	case "ParseList":
		return sfvref.List(s, l)
	case "ParseDictionary":
		return sfvref.Dictionary(s, l)
	case "ParseItem":
		return sfvref.ItemOf(s, l)
	case "ParseBareInnerList":
		return sfvref.BareInnerList(s, l)
	}
	return sfvref.Parameters(s, l)
}

func c56impl(fn, s string) (bool, []c56cb) {
	var out []c56cb
	var ok bool
	switch fn {
	case "ParseList":
		ok = httpsfv.ParseList(s, func(m, p string) { out = append(out, c56cb{m, p}) })
	case "ParseDictionary":
		ok = httpsfv.ParseDictionary(s, func(k, v, p string) { out = append(out, c56cb{k, v, p}) })
	case "ParseItem":
		ok = httpsfv.ParseItem(s, func(b, p string) { out = append(out, c56cb{b, p}) })
	case "ParseBareInnerList":
		ok = httpsfv.ParseBareInnerList(s, func(b, p string) { out = append(out, c56cb{b, p}) })
	case "ParseParameter":
		ok = httpsfv.ParseParameter(s, func(k, v string) { out = append(out, c56cb{k, v}) })
	}
	return ok, out
}

func c56eqCbs(a, b []c56cb) bool {
	if len(a) != len(b) {
		return false
	}
	for i := range a {
		if a[i] != b[i] {
			return false
		}
	}
	return true
}

var c56fieldType = map[string]string{"ParseList": "list", "ParseDictionary": "dictionary", "ParseItem": "item"}

// Names of the single RFC steps whose omission is tried as an explanation of a disagreement.
// They only label violations (one stable key per root cause).
var c56lenientNames = []string{
	"dict-missing-comma-accepted",
	"innerlist-unterminated-accepted",
	"param-htab-after-semicolon-accepted",
	"innerlist-htab-accepted",
	"byteseq-undecodable-base64-accepted",
	"displaystring-U+FFFD-rejected",
}

func c56lenient(mask int) sfvref.Lenient {
	return sfvref.Lenient{
		DictNoComma:       mask&1 != 0,
		InnerUnterminated: mask&2 != 0,
		ParamHTAB:         mask&4 != 0,
		InnerHTAB:         mask&8 != 0,
		NoBase64Check:     mask&16 != 0,
		RejectFFFD:        mask&32 != 0,
	}
}

var c56masksBySize = func() []int {
	var ms []int
	for m := 1; m < 64; m++ {
		ms = append(ms, m)
	}
	pop := func(x int) int {
		n := 0
		for ; x != 0; x &= x - 1 {
			n++
		}
		return n
	}
	sort.SliceStable(ms, func(i, j int) bool { return pop(ms[i]) < pop(ms[j]) })
	return ms
}()

// c56explain looks for the smallest set of omitted RFC steps under which the reference does
// what the implementation did. nil = unexplained.
func c56explain(fn, s string, implOK bool, implCbs []c56cb) []string {
	for _, m := range c56masksBySize {
		r := c56ref(fn, s, c56lenient(m))
		if r.OK != implOK {
			continue
		}
		if implOK && !c56eqCbs(implCbs, c56refCallbacks(fn, r)) {
			continue
		}
		var names []string
		for b := 0; b < len(c56lenientNames); b++ {
			if m&(1<<b) != 0 {
				names = append(names, c56lenientNames[b])
			}
		}
		return names
	}
	return nil
}

type c56mon struct {
	r      *verifrt.R
	events map[string]int64 // per-case counters, flushed once (keeps the shared lock cold)
}

func c56newMon(r *verifrt.R) *c56mon { return &c56mon{r: r, events: map[string]int64{}} }

func (m *c56mon) ev(kind string, n int64) { m.events[kind] += n }

func (m *c56mon) flush() {
	for k, v := range m.events {
		m.r.Event(k, v)
	}
	m.events = map[string]int64{}
}

var c56structFns = []string{"ParseList", "ParseDictionary", "ParseItem", "ParseBareInnerList", "ParseParameter"}

// checkStructures runs the five structure parsers on s. It returns whether any strict
// reference accepted s and whether ParseDictionary's verdict was one the RFC allows.
func (m *c56mon) checkStructures(c *verifrt.Case, s string) (anyAccept bool, dictVerdictOK bool, dictAmbiguous bool) {
	dictVerdictOK = true
	for _, fn := range c56structFns {
		ref := c56ref(fn, s, sfvref.Lenient{})
		implOK, implCbs := c56impl(fn, s)
		if ref.OK {
			anyAccept = true
		}
		// Which verdicts does the RFC allow? The sub-algorithm (what the function's doc comment
		// cites) and, for the three field types, the complete algorithm of 4.2, which also strips
		// leading and trailing SP. Where the two differ either is accepted.
		allowAccept, allowReject := ref.OK, !ref.OK
		if ref.OK && ref.Grey {
			allowReject = true
		}
		ambiguous := ref.OK && ref.Grey
		if ft, has := c56fieldType[fn]; has {
			top, tgrey := sfvref.TopLevel(ft, s, sfvref.Lenient{})
			if top != ref.OK {
				allowAccept, allowReject = true, true
				ambiguous = true
				m.ev("ambiguous_toplevel_whitespace", 1)
			}
			if top && tgrey {
				allowReject = true
				ambiguous = true
			}
		}
		if ref.OK && ref.Grey {
			m.ev("ambiguous_base64_padding", 1)
		}
		if fn == "ParseDictionary" {
			dictAmbiguous = ambiguous
		}
		verdictOK := (implOK && allowAccept) || (!implOK && allowReject)
		if !verdictOK {
			if fn == "ParseDictionary" {
				dictVerdictOK = false
			}
			names := c56explain(fn, s, implOK, implCbs)
			if names == nil {
				if implOK {
					c.Violation(fn+":accepts-rfc-rejects", "%s(%q) = true with callbacks %q; RFC 9651 rejects: %s", fn, s, implCbs, ref.Why)
				} else {
					c.Violation(fn+":rejects-rfc-accepts", "%s(%q) = false; RFC 9651 accepts with %q", fn, s, c56refCallbacks(fn, ref))
				}
			}
			for _, n := range names {
				if implOK {
					c.Violation(n, "%s(%q) = true with callbacks %q; RFC 9651 rejects (%s)", fn, s, implCbs, ref.Why)
				} else {
					c.Violation(n, "%s(%q) = false; RFC 9651 accepts with %q", fn, s, c56refCallbacks(fn, ref))
				}
			}
			m.ev("verdict_mismatch_"+fn, 1)
			continue
		}
		if implOK {
			m.ev("accepted_"+fn, 1)
			// members, values, parameters as the RFC yields them
			want := ref
			if !ref.OK {
				// accepted under the complete algorithm only: compare on the SP-trimmed input
				want = c56ref(fn, strings.Trim(s, " "), sfvref.Lenient{})
			}
			if want.OK {
				wcbs := c56refCallbacks(fn, want)
				if !c56eqCbs(implCbs, wcbs) {
					c.Violation(fn+":callbacks-differ", "%s(%q) reported %q; RFC 9651 yields %q", fn, s, implCbs, wcbs)
				}
				m.ev("callback_sequences_compared", 1)
				m.ev("callbacks_compared", int64(len(wcbs)))
			}
		} else {
			m.ev("rejected_"+fn, 1)
		}
	}
	return
}

// checkTyped runs the typed parsers on s (the whole string must be one bare item of the type).
func (m *c56mon) checkTyped(c *verifrt.Case, s string) {
	b, ok, _ := sfvref.BareItem(s, sfvref.Lenient{})
	is := func(k sfvref.Kind) bool { return ok && b.Kind == k }
	verdict := func(fn string, implOK bool, k sfvref.Kind) bool {
		want := is(k)
		if implOK != want {
			key := fn + ":rejects-rfc-accepts"
			if implOK {
				key = fn + ":accepts-rfc-rejects"
			}
			if fn == "ParseDisplayString" && !implOK {
				if _, ok2, _ := sfvref.BareItem(s, sfvref.Lenient{RejectFFFD: true}); !ok2 {
					key = "displaystring-U+FFFD-rejected"
				}
			}
			c.Violation(key, "%s(%q) ok=%v; RFC 9651: %v", fn, s, implOK, want)
			return false
		}
		if want {
			m.ev("typed_value_"+k.String(), 1)
		} else {
			m.ev("typed_rejected", 1)
		}
		return want
	}
	if v, iok := httpsfv.ParseInteger(s); verdict("ParseInteger", iok, sfvref.KInteger) && v != b.Int {
		c.Violation("ParseInteger:value", "ParseInteger(%q) = %d; RFC value %d", s, v, b.Int)
	}
	if v, dok := httpsfv.ParseDecimal(s); verdict("ParseDecimal", dok, sfvref.KDecimal) && v != float64(b.Int)/1000 {
		c.Violation("ParseDecimal:value", "ParseDecimal(%q) = %v; RFC value %d/1000", s, v, b.Int)
	}
	if v, bok := httpsfv.ParseBoolean(s); verdict("ParseBoolean", bok, sfvref.KBoolean) && v != b.Bool {
		c.Violation("ParseBoolean:value", "ParseBoolean(%q) = %v; RFC value %v", s, v, b.Bool)
	}
	if v, tok := httpsfv.ParseToken(s); verdict("ParseToken", tok, sfvref.KToken) && v != b.Str {
		c.Violation("ParseToken:value", "ParseToken(%q) = %q; RFC value %q", s, v, b.Str)
	}
	if v, dok := httpsfv.ParseDate(s); verdict("ParseDate", dok, sfvref.KDate) && (v.Unix() != b.Int || v.Nanosecond() != 0) {
		c.Violation("ParseDate:value", "ParseDate(%q) = %v (unix %d); RFC value %d", s, v, v.Unix(), b.Int)
	}
	if v, dok := httpsfv.ParseDisplayString(s); verdict("ParseDisplayString", dok, sfvref.KDisplayString) && v != b.Str {
		c.Violation("ParseDisplayString:value", "ParseDisplayString(%q) = %q; RFC value %q", s, v, b.Str)
	}
}

// checkPriority checks the consumer against the reference dictionary (RFC 9218 section 4:
// u = Integer 0..7 default 3, i = Boolean default false; anything else is ignored).
func (m *c56mon) checkPriority(c *verifrt.Case, s string, dictVerdictOK, dictAmbiguous bool) {
	if !dictVerdictOK {
		// the dictionary verdict itself is already reported under its own key
		m.ev("priority_skipped_dict_verdict_wrong", 1)
		return
	}
	if dictAmbiguous {
		m.ev("priority_skipped_ambiguous_dict", 1)
		return
	}
	ref := sfvref.Dictionary(s, sfvref.Lenient{})
	for _, canDefault := range []bool{true, false} {
		def := PriorityParam{urgency: 3, incremental: 1}
		if canDefault {
			def.incremental = 0
		}
		got, ok := parseRFC9218Priority(s, canDefault)
		if ok != ref.OK {
			c.Violation("priority:ok-differs", "parseRFC9218Priority(%q,%v) ok=%v; RFC 9651 dictionary accept=%v", s, canDefault, ok, ref.OK)
			continue
		}
		if !ref.OK {
			if got != def {
				c.Violation("priority:no-default-on-error", "parseRFC9218Priority(%q,%v) = %+v on a parse error; want the default %+v", s, canDefault, got, def)
			}
			m.ev("priority_error_default_checked", 1)
			continue
		}
		// Acceptable values. RFC 9651 makes the last occurrence of a key the value; RFC 9218 ignores
		// a value of the wrong type/range. When the last occurrence is unusable but an earlier one is
		// usable, a streaming consumer that keeps the earlier one is tolerated (counted below).
		validU := func(mb sfvref.Member) (uint8, bool) {
			if !mb.IsInner && mb.Bare.Kind == sfvref.KInteger && mb.Bare.Int >= 0 && mb.Bare.Int <= 7 {
				return uint8(mb.Bare.Int), true
			}
			return 0, false
		}
		validI := func(mb sfvref.Member) (uint8, bool) {
			if !mb.IsInner && mb.Bare.Kind == sfvref.KBoolean {
				if mb.Bare.Bool {
					return 1, true
				}
				return 0, true
			}
			return 0, false
		}
		allowed := func(key string, valid func(sfvref.Member) (uint8, bool), dflt uint8) (strict uint8, alt uint8) {
			strict, alt = dflt, dflt
			if last, found := sfvref.Last(ref.Members, key); found {
				if v, good := valid(last); good {
					strict = v
				}
			}
			for _, mb := range ref.Members {
				if mb.Key == key {
					if v, good := valid(mb); good {
						alt = v
					}
				}
			}
			return
		}
		su, au := allowed("u", validU, def.urgency)
		si, ai := allowed("i", validI, def.incremental)
		if su != au || si != ai {
			m.ev("priority_duplicate_key_last_unusable", 1)
		}
		if (got.urgency != su && got.urgency != au) || (got.incremental != si && got.incremental != ai) ||
			got.StreamDep != 0 || got.Exclusive || got.Weight != 0 {
			c.Violation("priority:value", "parseRFC9218Priority(%q,%v) = %+v; reference dictionary gives urgency %d incremental %d", s, canDefault, got, su, si)
		}
		if _, f := sfvref.Last(ref.Members, "u"); f {
			m.ev("priority_u_present", 1)
		}
		if _, f := sfvref.Last(ref.Members, "i"); f {
			m.ev("priority_i_present", 1)
		}
		m.ev("priority_values_checked", 1)
	}
}

func (m *c56mon) checkString(c *verifrt.Case, s string, nearMiss bool) {
	any, dictOK, dictAmb := m.checkStructures(c, s)
	m.checkTyped(c, s)
	m.checkPriority(c, s, dictOK, dictAmb)
	m.r.EvalBytes((any && len(s) >= 2) || (nearMiss && len(s) >= 2), []byte(s))
	if any {
		m.ev("strings_rfc_valid_in_some_structure", 1)
	} else {
		m.ev("strings_rfc_invalid_everywhere", 1)
	}
}

// Boundary cases of the individual steps of the RFC 9651 section 4.2 algorithms, and the
// examples of sections 3.1-3.3 of the RFC.
var c56corpus = []string{
	"", " ", "\t", ",", ";", "=", "(", ")", "()", "( )", "(  )", "(\t)", "(a", "(a ", "(a)", "( a )", "(a  b)", "(a\tb)", "(a \tb)", "(\ta)", "(a\t)", "(a)b", "(a);b", "((a))",
	"a", " a", "a ", "  a  ", "\ta", "a\t", "a,b", "a, b", "a ,b", "a\t,\tb", "a,", "a, ", ",a", "a,,b", "a b", "a  b", "a\tb", "a;b", "a; b", "a;  b", "a;\tb", "a ;b", "a;b=1;c", "a;B", "a;", "a;=1", "a;b=", "a;b;b",
	"a=1", "a=1, b=2", "a=1,b=2", "a=1 b=2", "a=1b=2", "a=1\tb=2", "a b", "a b c", "a=(1 2) b", "a=1;x b", "a=", "a=,b", "a==1", "a=1,", "a=1, ", "=1", "A=1", "a=1, a=2", "a, a", "a=(", "a=()", "a=(1 2);q=1.0, b",
	"u=1", "u=7, i", "u=8", "u=-1", "i", "i=?0", "i=?1", "u=1, u=9", "u=9, u=1", "i, i=1", "i=?0, i", "u=1 i", "u=1,i", "u=3.0", "u=(1)", "u=1;x=2, i;y", " u=1", "u=1 ",
	"0", "-0", "-", "--1", "1", "-1", "007", "999999999999999", "-999999999999999", "1000000000000000", "0.0", "1.", ".1", "1.5", "-1.5", "1.500", "1.5000", "123456789012.123", "1234567890123.1", "123456789012.1234", "1.2.3", "1-2", "1e3", "0x10",
	`""`, `"a"`, `"a`, `"\""`, `"\\"`, `"\a"`, `"\`, `"a"b`, "\"\t\"", "\"\x7f\"", "\"\x80\"", `" "`,
	"a", "*", "*a", "A", "a:b/c", "a!#$%&'*+-.^_`|~", "a\"", "1a", "_a", "a(", "a=b",
	"::", ":a:", ":aa:", ":aaa:", ":aaaa:", ":aa==:", ":aaa=:", ":a===:", ":=:", ":a=a:", ":aGVsbG8=:", ":aGVsbG8:", ":aGVsbG9:", ":-:", ":a", ":", ":a b:", ":a::",
	"?0", "?1", "?", "?2", "?01", "?1 ", "?true",
	"@0", "@1659578233", "@-1", "@1.5", "@", "@a", "@-", "@999999999999999", "@1000000000000000",
	`%""`, `%"a"`, `%"%c3%a9"`, `%"%C3%A9"`, `%"%c3"`, `%"%e2%82%ac"`, `%"%e2%82"`, `%"%ef%bf%bd"`, `%"%ef%bf%be"`, `%"%ed%a0%80"`, `%"%f4%8f%bf%bf"`, `%"%f4%90%80%80"`, `%"%c0%af"`, `%"%00"`, `%"%"`, `%"%4"`, `%"%4g"`, `%"a`, `%"`, `%`, `%a`, "%\"\t\"", "%\"\x80\"", `%"This is intended for display to %c3%bcsers."`,
	// RFC 9651 section 3 examples
	"sugar, tea, rum", "(\"foo\" \"bar\"), (\"baz\"), (\"bat\" \"one\"), ()", "(\"foo\"; a=1;b=2);lvl=5, (\"bar\" \"baz\");lvl=1", "abc;a=1;b=2; cde_456, (ghi;jk=4 l);q=\"9\";r=w",
	"en=\"Applepie\", da=:w4ZibGV0w6ZydGU=:", "a=?0, b, c; foo=bar", "rating=1.5, feelings=(joy sadness)", "a=(1 2), b=3, c=4;aa=bb, d=(5 6);valid", "5; foo=bar", "1; a; b=?0",
}

func TestVerif_C56(t *testing.T) {
	r := verifrt.Start(t, "C56")
	defer r.Finish()
	r.SetRule("inputs: corpus of step-boundary cases + RFC examples; every string of length <=3 (quick) / <=4 (thorough) over 27 significant characters; grammar-generated lists, dictionaries, items, inner lists, parameter lists, bare items of all 8 types and RFC 9218 priority dictionaries, each followed by single-character mutations. Every input goes through all five structure parsers, the six typed parsers and parseRFC9218Priority. non-trivial = (RFC-valid in at least one structure, or a mutation of a generated string) and length >= 2; distinct by input bytes")
	r.Assume("reference parser golang.org/x/net/internal/verifrt/sfvref written from RFC 9651 section 4.2; RFC 9218 section 4 for the consumer (u Integer 0..7 default 3, i Boolean)")
	r.Assume("inputs on which the per-structure sub-algorithm (4.2.1/4.2.2/4.2.3) and the complete algorithm of 4.2 (strips leading/trailing SP) differ, and byte sequences whose base64 validity is decoder-dependent, are accepted either way (counted as ambiguous_*)")
	r.Note("ParseString and ParseByteSequence are not in the property statement (they return the raw text, not the RFC value) and are only exercised through the structure parsers")

	r.Cases("corpus", len(c56corpus), func(c *verifrt.Case) {
		s := c56corpus[c.Index]
		c.Describe(map[string]any{"input": s})
		m := c56newMon(r)
		defer m.flush()
		m.checkString(c, s, false)
		m.ev("corpus_strings", 1)
	})

	// exhaustive short strings
	alpha := []byte("aB*10-.\"\\:?@%;=, \t()_/e2\x7f\x80")
	maxLen := r.N(3, 4)
	r.SetExtra("exhaustive_alphabet", fmt.Sprintf("%q", alpha))
	r.SetExtra("exhaustive_max_len", maxLen)
	nFirst := len(alpha)
	r.CasesParallel("short-exhaustive", nFirst, 0, func(c *verifrt.Case) {
		// case i: all strings starting with alpha[i]
		c.Describe(map[string]any{"first_char": string(alpha[c.Index])})
		m := c56newMon(r)
		defer m.flush()
		buf := make([]byte, 0, maxLen)
		var rec func()
		rec = func() {
			m.checkString(c, string(buf), false)
			m.ev("short_strings", 1)
			if len(buf) == maxLen {
				return
			}
			for _, ch := range alpha {
				buf = append(buf, ch)
				rec()
				buf = buf[:len(buf)-1]
			}
		}
		buf = append(buf, alpha[c.Index])
		rec()
	})

	nMut := 6
	kinds := []string{"list", "dictionary", "item", "innerlist", "parameters", "priority"}
	n := r.N(24000, 1500000)
	r.CasesParallel("grammar", n, 0, func(c *verifrt.Case) {
		g := &c56gen{rng: c.Rng, bad: 15}
		m := c56newMon(r)
		defer m.flush()
		kind := kinds[c.Index%len(kinds)]
		var s string
		switch kind {
		case "list":
			s = g.list()
		case "dictionary":
			s = g.dict()
		case "item":
			s = g.item()
		case "innerlist":
			s = g.bareInner()
		case "parameters":
			s = g.params()
		case "priority":
			s = g.priority()
		}
		muts := make([]string, nMut)
		for i := range muts {
			muts[i] = g.mutate(s)
			if g.p(200) {
				muts[i] = g.mutate(muts[i])
			}
		}
		c.Describe(map[string]any{"kind": kind, "input": s, "mutations": muts})
		m.checkString(c, s, false)
		m.ev("generated_"+kind, 1)
		for _, ms := range muts {
			m.checkString(c, ms, true)
			m.ev("mutations", 1)
		}
		if c.Index < 60 && len(s) > 12 {
			r.Sample(map[string]any{"kind": kind, "input": s, "first_mutation": muts[0]})
		}
	})

	nb := r.N(16000, 800000)
	r.CasesParallel("bare-items", nb, 0, func(c *verifrt.Case) {
		g := &c56gen{rng: c.Rng, bad: 60}
		m := c56newMon(r)
		defer m.flush()
		k := sfvref.Kind(1 + c.Index%8)
		s := g.bareKind(k)
		muts := []string{g.mutate(s), g.mutate(s), g.mutate(s)}
		c.Describe(map[string]any{"kind": k.String(), "input": s, "mutations": muts})
		m.checkString(c, s, false)
		m.ev("generated_bare_"+k.String(), 1)
		for _, ms := range muts {
			m.checkString(c, ms, true)
			m.ev("mutations", 1)
		}
	})

	for _, k := range []string{"integer", "decimal", "boolean", "token", "date", "displaystring"} {
		r.Require("typed_value_"+k, 500)
	}
	for _, fn := range c56structFns {
		r.Require("accepted_"+fn, 1000)
		r.Require("rejected_"+fn, 1000)
	}
	r.Require("callbacks_compared", 20000)
	r.Require("priority_values_checked", 2000)
	r.Require("priority_u_present", 500)
	r.Require("priority_i_present", 500)
	r.Require("priority_error_default_checked", 2000)
}
