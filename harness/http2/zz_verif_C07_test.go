//go:build verif

package http2

// C07: Framer.ReadFrame on arbitrary bytes.
//
// The byte stream is walked in parallel by the independent h2ref reader (frame boundaries,
// RFC 9113 §6 per-frame rules, §6.2/§6.10 ordering) and, for ReadMetaHeaders, by the
// independent hpackref decoder. Each ReadFrame result is compared with what those predict:
// never a panic, never a frame above the read limit, every RFC-mandated rejection is an
// error (of connection class where the RFC insists), every acceptable frame is returned with
// the fields that are on the wire, and a returned MetaHeadersFrame obeys the documented
// guarantees (order of pseudo fields, no duplicate/unknown/mixed pseudo fields, valid names
// and values, list-size limit / Truncated).

import (
	"bytes"
	"fmt"
	"hash/fnv"
	"math/rand/v2"
	"strings"
	"sync"
	"testing"

	"golang.org/x/net/http2/hpack"
	"golang.org/x/net/internal/verifrt"
	"golang.org/x/net/internal/verifrt/h2ref"
	"golang.org/x/net/internal/verifrt/hpackref"
)

type c07Cfg struct {
	MaxRead  uint32
	ListSize uint32
	Meta     bool
	Reuse    bool
}

func (c c07Cfg) limit() int64 {
	if c.ListSize == 0 {
		return 16 << 20 // documented default of Framer.MaxHeaderListSize
	}
	return int64(c.ListSize)
}

// ---- reference walk --------------------------------------------------------------------

type c07Exp struct {
	kind        string // eof, short-header, too-large, short-payload, order, frame-error, ok
	f           h2ref.Frame
	perr        *h2ref.ProtoError
	settingsBad bool // SETTINGS whose values §6.5.2 forbids: rejecting here or later are both fine
}

type c07Ref struct {
	b     []byte
	pos   int
	max   uint32
	order *h2ref.OrderChecker
}

func (x *c07Ref) next() c07Exp {
	rem := x.b[x.pos:]
	if len(rem) == 0 {
		return c07Exp{kind: "eof"}
	}
	if len(rem) < h2ref.HeaderLen {
		x.pos = len(x.b)
		return c07Exp{kind: "short-header"}
	}
	f := h2ref.ParseHeader(rem)
	if f.Length > x.max {
		return c07Exp{kind: "too-large", f: f}
	}
	if uint32(len(rem)-h2ref.HeaderLen) < f.Length {
		x.pos = len(x.b)
		return c07Exp{kind: "short-payload", f: f}
	}
	f.Payload = rem[h2ref.HeaderLen : h2ref.HeaderLen+int(f.Length)]
	x.pos += h2ref.HeaderLen + int(f.Length)
	if e := x.order.Next(f.Type, f.Flags, f.StreamID); e != nil {
		return c07Exp{kind: "order", f: f, perr: e}
	}
	if e := h2ref.Validate(f); e != nil {
		return c07Exp{kind: "frame-error", f: f, perr: e}
	}
	exp := c07Exp{kind: "ok", f: f}
	if f.Type == h2ref.TypeSettings {
		if ss, err := f.Settings(); err == nil && h2ref.ValidateSettingValues(ss) != nil {
			exp.settingsBad = true
		}
	}
	return exp
}

// ---- header field validity, written from RFC 9110 §5.1/§5.5 and RFC 9113 §8.2/§8.3 ------

func c07TChar(b byte) bool {
	switch {
	case b >= '0' && b <= '9', b >= 'a' && b <= 'z', b >= 'A' && b <= 'Z':
		return true
	}
	return strings.IndexByte("!#$%&'*+-.^_`|~", b) >= 0
}

// regular field name: a non-empty token without upper-case letters (§8.2.1)
func c07ValidName(n string) bool {
	if n == "" {
		return false
	}
	for i := 0; i < len(n); i++ {
		if !c07TChar(n[i]) || (n[i] >= 'A' && n[i] <= 'Z') {
			return false
		}
	}
	return true
}

// value validity: 0 invalid (contains a control character other than HTAB: NUL, CR, LF …),
// 1 unspecified for this monitor (DEL, or leading/trailing SP/HTAB: RFC 9113 forbids them, RFC
// 7540 did not), 2 valid.
func c07ValueClass(v string) int {
	cls := 2
	for i := 0; i < len(v); i++ {
		switch b := v[i]; {
		case b < 0x20 && b != '\t':
			return 0
		case b == 0x7f:
			cls = 1
		}
	}
	if v != "" && (v[0] == ' ' || v[0] == '\t' || v[len(v)-1] == ' ' || v[len(v)-1] == '\t') {
		cls = 1
	}
	return cls
}

var c07ReqPseudo = map[string]bool{":method": true, ":path": true, ":scheme": true, ":authority": true, ":protocol": true}

// c07ListProblem inspects a field list against the guarantees documented on
// MetaHeadersFrame.Fields. It returns a violation key suffix ("" = fine) and whether some
// field was in the "unspecified" class.
func c07ListProblem(fs []hpackref.Field) (problem, detail string, unspecified bool) {
	sawRegular, isReq, isResp := false, false, false
	seen := map[string]bool{}
	for i, f := range fs {
		if strings.HasPrefix(f.Name, ":") {
			if sawRegular {
				return "pseudo-after-regular", fmt.Sprintf("field %d %q follows a regular field", i, f.Name), unspecified
			}
			switch {
			case c07ReqPseudo[f.Name]:
				isReq = true
			case f.Name == ":status":
				isResp = true
			default:
				return "unknown-pseudo", fmt.Sprintf("field %d %q", i, f.Name), unspecified
			}
			if seen[f.Name] {
				return "duplicate-pseudo", fmt.Sprintf("field %d %q", i, f.Name), unspecified
			}
			seen[f.Name] = true
		} else {
			sawRegular = true
			if !c07ValidName(f.Name) {
				return "invalid-name", fmt.Sprintf("field %d name %q", i, f.Name), unspecified
			}
		}
		switch c07ValueClass(f.Value) {
		case 0:
			return "invalid-value", fmt.Sprintf("field %d (%q) value %q", i, f.Name, f.Value), unspecified
		case 1:
			unspecified = true
		}
	}
	if isReq && isResp {
		return "mixed-pseudo", "request and response pseudo fields in one list", unspecified
	}
	return "", "", unspecified
}

// ---- the monitor proper ---------------------------------------------------------------

type c07Mon struct {
	r *verifrt.R

	// Free list of 16 MiB read buffers. Framer.ReadFrame allocates the announced frame
	// length before it reads the payload; with the 2^24-1 read limit, garbage headers cost
	// megabytes each, and on the shared test machine fresh memory is ~1000x slower than
	// resident memory. Pre-seeding Framer.readBuf (the Framer's own cache for exactly this
	// buffer) changes nothing observable.
	mu   sync.Mutex
	bufs [][]byte
}

func (m *c07Mon) getBuf() []byte {
	m.mu.Lock()
	defer m.mu.Unlock()
	if n := len(m.bufs); n > 0 {
		b := m.bufs[n-1]
		m.bufs = m.bufs[:n-1]
		return b
	}
	return make([]byte, h2ref.MaxFrameLen)
}

func (m *c07Mon) putBuf(b []byte) {
	m.mu.Lock()
	m.bufs = append(m.bufs, b)
	m.mu.Unlock()
}

type c07Stats struct {
	ok, errs, metaOK int
}

func c07IsStreamErr(err error) (StreamError, bool) {
	se, ok := err.(StreamError)
	return se, ok
}

// walk feeds wire to a Framer configured by cfg and checks every ReadFrame result.
// stopAfterOpenPP ends the walk after an accepted PUSH_PROMISE without END_HEADERS (what has
// to follow it is the business of the "push-promise-block" stream).
func (m *c07Mon) walk(c *verifrt.Case, cfg c07Cfg, wire []byte) (st c07Stats) {
	r := m.r
	fr := NewFramer(nil, bytes.NewReader(wire))
	fr.SetMaxReadFrameSize(cfg.MaxRead)
	fr.MaxHeaderListSize = cfg.ListSize
	if cfg.Reuse {
		fr.SetReuseFrames()
	}
	if cfg.MaxRead > 1<<16 {
		b := m.getBuf()
		fr.readBuf = b
		defer m.putBuf(b)
	}
	var hdec *hpackref.Decoder
	if cfg.Meta {
		fr.ReadMetaHeaders = hpack.NewDecoder(4096, nil)
		hdec = hpackref.NewDecoder(4096)
	}
	maxRead := cfg.MaxRead
	if maxRead > h2ref.MaxFrameLen {
		maxRead = h2ref.MaxFrameLen
	}
	ref := &c07Ref{b: wire, max: maxRead, order: h2ref.NewOrderChecker()}

	for step := 0; step < 200; step++ {
		at := ref.pos
		exp := ref.next()
		isMetaGroup := exp.kind == "ok" && cfg.Meta && exp.f.Type == h2ref.TypeHeaders
		var group []h2ref.Frame
		gfail := ""
		if isMetaGroup {
			group = append(group, exp.f)
			for cur := exp.f; !cur.Has(h2ref.FlagEndHeaders); {
				e2 := ref.next()
				if e2.kind != "ok" {
					gfail = e2.kind
					break
				}
				group = append(group, e2.f)
				cur = e2.f
			}
		}

		f, err := fr.ReadFrame()
		where := fmt.Sprintf("offset %d, %s, cfg %+v", at, exp.f, cfg)
		if err == nil && f == nil {
			c.Violation("nil-frame-nil-error", "%s", where)
			return
		}
		if f != nil {
			if l := f.Header().Length; l > maxRead {
				c.Violation("frame-longer-than-max-read-size", "%s: returned frame has Length %d > %d (err=%v)", where, l, maxRead, err)
			}
		}
		se, isSE := c07IsStreamErr(err)

		switch {
		case exp.kind == "eof" || exp.kind == "short-header" || exp.kind == "short-payload":
			if err == nil {
				c.Violation("truncated-input-accepted", "%s: input ends (%s) but ReadFrame returned %s", where, exp.kind, vfrmFromImpl(f).Kind)
			} else if isSE {
				c.Violation("truncated-input-stream-error", "%s: input ends (%s) but ReadFrame returned the non-terminal %v", where, exp.kind, err)
			}
			r.Event("end_"+exp.kind, 1)
			st.errs++
			return
		case exp.kind == "too-large":
			if err == nil {
				c.Violation("oversize-frame-accepted", "%s: length %d > max read size %d but ReadFrame returned a frame", where, exp.f.Length, maxRead)
			} else if isSE {
				c.Violation("oversize-frame-stream-error", "%s: %v", where, err)
			}
			r.Event("rejected_too_large", 1)
			st.errs++
			return
		case exp.kind == "order":
			if err == nil {
				c.Violation("order-violation-accepted", "%s: %s; ReadFrame returned %s", where, exp.perr.Reason, vfrmFromImpl(f).Kind)
			} else if isSE {
				c.Violation("order-violation-stream-error", "%s: %s; ReadFrame returned only %v", where, exp.perr.Reason, err)
			}
			r.Event("rejected_order", 1)
			st.errs++
			return
		case exp.kind == "frame-error":
			name := h2ref.TypeName(exp.f.Type)
			if err == nil {
				c.Violation("invalid-frame-accepted:"+name, "%s: %s; ReadFrame returned %s", where, exp.perr.Reason, vfrmFromImpl(f).Kind)
				return
			}
			if exp.perr.Conn && !exp.perr.Loose && isSE {
				c.Violation("connection-error-reported-as-stream-error:"+name, "%s: %s; ReadFrame returned %v", where, exp.perr.Reason, err)
			}
			if isSE && se.StreamID != exp.f.StreamID {
				c.Violation("stream-error-wrong-stream:"+name, "%s: %v", where, err)
			}
			r.Event("rejected_invalid_"+name, 1)
			st.errs++
			if !isSE {
				return
			}
			r.Event("continued_after_stream_error", 1)
			continue
		}

		// the reference accepts the frame
		name := h2ref.TypeName(exp.f.Type)
		if exp.f.Type > h2ref.TypeContinuation && exp.f.Type != h2ref.TypePriorityUpdate {
			name = "EXT"
		}
		if !isMetaGroup {
			if err != nil {
				if exp.settingsBad {
					r.Event("settings_bad_value_rejected", 1)
				} else {
					c.Violation("valid-frame-rejected:"+name, "%s: payload %s: ReadFrame error %v (%s; detail %v)", where, vfrmHex(exp.f.Payload), err, vfrmErrClass(err), fr.ErrorDetail())
				}
				st.errs++
				if !isSE {
					return
				}
				continue
			}
			want, perr := vfrmFromRef(exp.f)
			if perr != nil {
				panic("verif harness: Validate accepted a frame the reference cannot parse: " + perr.Error())
			}
			if fld, d := vfrmDiff(vfrmFromImpl(f), want); fld != "" {
				c.Violation("frame-misparsed:"+name+":"+fld, "%s: payload %s: %s", where, vfrmHex(exp.f.Payload), d)
			}
			r.Event("frames_ok", 1)
			r.Event("ok_"+name, 1)
			st.ok++
			if exp.f.Type == h2ref.TypePushPromise && !exp.f.Has(h2ref.FlagEndHeaders) {
				r.Event("stopped_after_open_push_promise", 1)
				return
			}
			continue
		}

		// ---- ReadMetaHeaders: HEADERS + CONTINUATION* ----
		r.Event("meta_groups", 1)
		r.Event("meta_group_frames", int64(len(group)))
		if gfail != "" {
			if err == nil {
				c.Violation("meta-broken-group-accepted:"+gfail, "%s: the field block of stream %d is cut short by %s, ReadFrame returned %s", where, exp.f.StreamID, gfail, vfrmFromImpl(f).Kind)
			} else if isSE {
				c.Violation("meta-broken-group-stream-error:"+gfail, "%s: %v", where, err)
			}
			r.Event("meta_group_broken_"+gfail, 1)
			st.errs++
			return
		}
		var block []byte
		for _, g := range group {
			frag, ferr := g.Fragment()
			if ferr != nil {
				panic("verif harness: fragment of a validated frame: " + ferr.Error())
			}
			block = append(block, frag...)
		}
		res := hdec.Decode(block)
		if res.Err != "" {
			skippable := false
			if res.Err == hpackref.ErrBadHuffman && res.ErrRep < len(res.Reps) && res.Reps[res.ErrRep].Kind != 'L' {
				// A decoder that has stopped collecting fields (list size exceeded) need not
				// Huffman-decode a literal it neither emits nor indexes.
				skippable = true
			}
			if err == nil && !skippable {
				c.Violation("meta-undecodable-block-accepted:"+res.Err, "%s: block %s: reference HPACK decoder: %s %s (representation %d); ReadFrame returned a frame", where, vfrmHex(block), res.Err, res.ErrDetail, res.ErrRep)
			} else if err == nil {
				mh, _ := f.(*MetaHeadersFrame)
				if mh == nil || !mh.Truncated {
					c.Violation("meta-undecodable-block-accepted:"+res.Err, "%s: block %s: Huffman error in representation %d accepted although the list was not truncated", where, vfrmHex(block), res.ErrRep)
				}
				r.Event("meta_huffman_error_skipped_after_truncation", 1)
			} else if isSE && !skippable {
				c.Violation("meta-compression-error-as-stream-error", "%s: block %s (%s): %v", where, vfrmHex(block), res.Err, err)
			}
			r.Event("meta_hpack_error_"+res.Err, 1)
			st.errs++
			return // the two decoders' dynamic tables may differ from here on
		}
		mayReject := len(res.May) > 0
		// The x/net HPACK decoder refuses a second dynamic table size update at the start of
		// a block unless the table is empty (RFC 7541 §4.2 allows two). That is HPACK decoder
		// behaviour (properties C01/C02), not framing: counted, not judged here.
		nUpd := 0
		for _, rp := range res.Reps {
			if rp.Kind == 'S' {
				nUpd++
			}
		}
		if nUpd > 1 {
			mayReject = true
			if err != nil {
				r.Event("meta_rejected_block_with_repeated_size_update", 1)
			}
		}
		limit := cfg.limit()
		var total int64
		for _, hf := range res.Fields {
			total += hf.Size()
		}
		if err != nil {
			problem, _, unspec := c07ListProblem(res.Fields)
			if problem == "" && !unspec && !mayReject && len(group) <= 8 && total+int64(len(block)) <= limit {
				c.Violation("meta-valid-block-rejected", "%s: %d well-formed fields (%d list bytes, %d block bytes, limit %d) in %d frames: ReadFrame error %v (%s; detail %v)", where, len(res.Fields), total, len(block), limit, len(group), err, vfrmErrClass(err), fr.ErrorDetail())
			}
			if isSE && se.StreamID != exp.f.StreamID {
				c.Violation("stream-error-wrong-stream:HEADERS", "%s: %v", where, err)
			}
			st.errs++
			if problem != "" {
				r.Event("meta_rejected_"+problem, 1)
			} else {
				r.Event("meta_rejected_other", 1)
			}
			if !isSE {
				return
			}
			r.Event("continued_after_stream_error", 1)
			continue
		}
		mh, isMeta := f.(*MetaHeadersFrame)
		if !isMeta {
			c.Violation("meta-not-returned", "%s: ReadMetaHeaders set but ReadFrame returned %T", where, f)
			return
		}
		wantHdr, _ := vfrmFromRef(group[0])
		wantHdr.Kind, wantHdr.Body = "MetaHeadersFrame", nil
		if fld, d := vfrmDiff(vfrmFromImpl(mh), wantHdr); fld != "" {
			c.Violation("meta-header-mismatch:"+fld, "%s: %s", where, d)
		}
		got := make([]hpackref.Field, len(mh.Fields))
		var gotSize int64
		for i, hf := range mh.Fields {
			got[i] = hpackref.Field{Name: hf.Name, Value: hf.Value, Sensitive: hf.Sensitive}
			gotSize += int64(len(hf.Name)) + int64(len(hf.Value)) + 32
		}
		// the documented guarantees, checked on what was returned
		if problem, detail, _ := c07ListProblem(got); problem != "" {
			c.Violation("meta-"+problem, "%s: returned Fields: %s (Truncated=%v, %d fields)", where, detail, mh.Truncated, len(got))
		}
		if !mh.Truncated && gotSize > limit {
			c.Violation("meta-over-list-size", "%s: %d fields of %d bytes > limit %d and not Truncated", where, len(got), gotSize, limit)
		}
		// … and against the independent decoding of the same block
		if len(got) > len(res.Fields) || !hpackref.EqualFields(got, res.Fields[:len(got)]) {
			c.Violation("meta-fields-differ", "%s: block %s: returned %d fields %s; reference decoded %d fields %s", where, vfrmHex(block), len(got), c07Fields(got), len(res.Fields), c07Fields(res.Fields))
		} else {
			if mh.Truncated != (len(got) < len(res.Fields)) {
				c.Violation("meta-truncated-flag", "%s: Truncated=%v but %d of %d decoded fields returned", where, mh.Truncated, len(got), len(res.Fields))
			}
			if len(got) < len(res.Fields) && gotSize+res.Fields[len(got)].Size() <= limit {
				c.Violation("meta-truncated-early", "%s: %d of %d fields returned (%d bytes) although the next one (%d bytes) fits the limit %d", where, len(got), len(res.Fields), gotSize, res.Fields[len(got)].Size(), limit)
			}
		}
		if mh.Truncated {
			r.Event("meta_truncated", 1)
		}
		if len(group) > 1 {
			r.Event("meta_ok_with_continuation", 1)
		}
		r.Event("meta_ok", 1)
		r.Event("meta_fields_checked", int64(len(got)))
		st.ok++
		st.metaOK++
	}
	return
}

func c07Fields(fs []hpackref.Field) string {
	var sb strings.Builder
	for i, f := range fs {
		if i == 12 {
			fmt.Fprintf(&sb, " …(%d more)", len(fs)-i)
			break
		}
		v := f.Value
		if len(v) > 24 {
			v = fmt.Sprintf("%s…(%d)", v[:16], len(v))
		}
		fmt.Fprintf(&sb, " %q=%q", f.Name, v)
	}
	return "[" + strings.TrimSpace(sb.String()) + "]"
}

// ---- generators ------------------------------------------------------------------------

var (
	c07GoodNames = []string{"a", "x-h1", "content-type", "cookie", "accept", "user-agent", "x-verif-long-header-name", "te", "priority", "z9_!#$%&'*+-.^`|~"}
	c07BadNames  = []string{"", "Upper", "sp ace", "nul\x00", "caf\xc3\xa9", "a:b", "x\x7f", "(paren)", "tab\t", "UPPER-CASE", "\xff",
		// valid UTF-8 above U+00FF whose code point has the low octet of a token character
		// (U+0161 ..61 'a', U+4E61 ..61, U+1F431 ..31 '1', U+0141 ..41, U+2D2D ..2d '-', U+017E ..7e '~')
		"x-\u0161", "\u4e61bc", "x-\U0001f431", "\u0141", "a\u2d2db", "t\u017e"}
	c07GoodValues = []string{"", "v", "text/html", "a=b; c=d", "with\ttab", "obs\xfftext", "0", "u=3, i", "gzip, deflate"}
	c07BadValues  = []string{"nul\x00", "lf\nx", "cr\rx", "\x01", "esc\x1b[0m", "x\x00"}
	c07OddValues  = []string{"del\x7f", " lead", "trail ", "\ttab"}
)

func c07Pick(rng *rand.Rand, s []string) string { return s[rng.IntN(len(s))] }

// c07GenFields draws a field list; defect names what is wrong with it ("" = well-formed).
func c07GenFields(rng *rand.Rand) (fs []hpackref.Field, defect string) {
	add := func(n, v string) { fs = append(fs, hpackref.Field{Name: n, Value: v}) }
	switch rng.IntN(4) {
	case 0, 1: // request
		add(":method", c07Pick(rng, []string{"GET", "POST", "CONNECT", "PUT"}))
		add(":scheme", c07Pick(rng, []string{"https", "http"}))
		add(":path", c07Pick(rng, []string{"/", "/index.html", "/a/b?c=d", "*"}))
		if rng.IntN(2) == 0 {
			add(":authority", "example.com")
		}
		if rng.IntN(6) == 0 {
			add(":protocol", "websocket")
		}
		rng.Shuffle(len(fs), func(i, j int) { fs[i], fs[j] = fs[j], fs[i] })
	case 2: // response
		add(":status", c07Pick(rng, []string{"200", "204", "404", "100", "999"}))
	case 3: // trailers: no pseudo fields
	}
	nreg := rng.IntN(7)
	switch rng.IntN(12) {
	case 0:
		nreg = 20 + rng.IntN(60)
	case 1:
		nreg = 0
	}
	long := rng.IntN(8) == 0
	for i := 0; i < nreg; i++ {
		v := c07Pick(rng, c07GoodValues)
		if long && rng.IntN(3) == 0 {
			v = strings.Repeat("v", 50+rng.IntN(3000))
		}
		add(c07Pick(rng, c07GoodNames), v)
	}
	if rng.IntN(5) != 0 {
		return fs, ""
	}
	// one defect
	pos := rng.IntN(len(fs) + 1)
	ins := func(f hpackref.Field) {
		fs = append(fs, hpackref.Field{})
		copy(fs[pos+1:], fs[pos:])
		fs[pos] = f
	}
	switch rng.IntN(8) {
	case 0:
		defect = "pseudo-after-regular"
		fs = append(fs, hpackref.Field{Name: "x-first", Value: "1"}, hpackref.Field{Name: c07Pick(rng, []string{":path", ":status", ":method"}), Value: "/late"})
	case 1:
		defect = "duplicate-pseudo"
		n := 0
		for n < len(fs) && strings.HasPrefix(fs[n].Name, ":") {
			n++
		}
		if n == 0 {
			fs = append([]hpackref.Field{{Name: ":status", Value: "200"}, {Name: ":status", Value: "200"}}, fs...)
		} else {
			d := fs[rng.IntN(n)]
			fs = append([]hpackref.Field{d}, fs...)
		}
	case 2:
		defect = "unknown-pseudo"
		fs = append([]hpackref.Field{{Name: c07Pick(rng, []string{":foo", ":", ":Method", ":status ", ":paths"}), Value: "x"}}, fs...)
	case 3:
		defect = "mixed-pseudo"
		fs = append([]hpackref.Field{{Name: ":status", Value: "200"}, {Name: ":method", Value: "GET"}}, fs...)
		// may also be a duplicate now; any rejection reason is fine
	case 4, 5:
		defect = "invalid-name"
		ins(hpackref.Field{Name: c07Pick(rng, c07BadNames), Value: "v"})
		if strings.HasPrefix(fs[pos].Name, ":") {
			defect = "unknown-pseudo"
		}
	case 6:
		defect = "invalid-value"
		ins(hpackref.Field{Name: c07Pick(rng, append([]string{":path"}, c07GoodNames...)), Value: c07Pick(rng, c07BadValues)})
	case 7:
		defect = "odd-value"
		ins(hpackref.Field{Name: c07Pick(rng, c07GoodNames), Value: c07Pick(rng, c07OddValues)})
	}
	return fs, defect
}

// c07Encode writes fs as an HPACK block, choosing representations at random. sh is the
// generator's idea of the peer's dynamic table (only used to pick plausible indices; it may
// be out of step with the real decoders, which simply yields invalid-index inputs).
func c07Encode(rng *rand.Rand, sh *hpackref.Decoder, fs []hpackref.Field) []byte {
	var b []byte
	if rng.IntN(12) == 0 {
		v := uint64(rng.IntN(4097))
		if rng.IntN(6) == 0 {
			v = 4097 + uint64(rng.IntN(100000)) // above the allowed maximum: mandatory error
		}
		b = hpackref.AppendSizeUpdate(b, v, 0)
		if v <= 4096 {
			sh.SetMaxSize(int64(v))
			if rng.IntN(2) == 0 {
				b = hpackref.AppendSizeUpdate(b, 4096, 0)
				sh.SetMaxSize(4096)
			}
		}
	}
	find := func(f hpackref.Field) (full, name uint64) {
		for i, e := range hpackref.StaticTable {
			if e.Name == f.Name {
				if name == 0 {
					name = uint64(i + 1)
				}
				if e.Value == f.Value && full == 0 {
					full = uint64(i + 1)
				}
			}
		}
		for i, e := range sh.Dyn {
			if e.Name == f.Name {
				if name == 0 {
					name = uint64(62 + i)
				}
				if e.Value == f.Value && full == 0 {
					full = uint64(62 + i)
				}
			}
		}
		return
	}
	for _, f := range fs {
		full, name := find(f)
		if full != 0 && rng.IntN(4) != 0 {
			b = hpackref.AppendIndexed(b, full, 0)
			continue
		}
		kind := []byte{'L', 'L', 'N', 'N', 'V'}[rng.IntN(5)]
		if name != 0 && rng.IntN(4) == 0 {
			name = 0
		}
		pad := 0
		if rng.IntN(40) == 0 {
			pad = 1 + rng.IntN(3)
		}
		b = hpackref.AppendLiteral(b, kind, name, f.Name, f.Value, rng.IntN(2) == 0, rng.IntN(2) == 0, 0, pad, pad)
		if kind == 'L' {
			sh.Add(f)
		}
	}
	switch rng.IntN(30) {
	case 0:
		if len(b) > 0 {
			b[rng.IntN(len(b))] ^= 1 << rng.IntN(8)
		}
	case 1:
		if len(b) > 0 {
			b = b[:rng.IntN(len(b))]
		}
	case 2:
		b = hpackref.AppendIndexed(b, []uint64{0, 61, 62, 63, 100, 1 << 20}[rng.IntN(6)], 0)
	case 3:
		b = append(b, vfrmFill(rng, 1+rng.IntN(6))...)
	}
	return b
}

type c07Gen struct {
	rng  *rand.Rand
	cfg  c07Cfg
	sh   *hpackref.Decoder
	out  []byte
	desc []string
}

func (g *c07Gen) note(format string, a ...any) {
	if len(g.desc) < 40 {
		g.desc = append(g.desc, fmt.Sprintf(format, a...))
	}
}

func (g *c07Gen) sid() uint32 {
	if g.rng.IntN(4) == 0 {
		return vfrmStreamID(g.rng)
	}
	return 1 + 2*g.rng.Uint32N(4)
}

// plain appends one well-formed frame of a random type.
func (g *c07Gen) plain() {
	rng := g.rng
	sid := g.sid()
	small := func() []byte { return vfrmFill(rng, rng.IntN(40)) }
	padLen := -1
	if rng.IntN(3) == 0 {
		padLen = rng.IntN(30)
	}
	start := len(g.out)
	switch rng.IntN(13) {
	case 0:
		g.out = h2ref.AppendData(g.out, sid, rng.IntN(2) == 0, small(), padLen)
	case 1:
		g.out = h2ref.AppendPriority(g.out, sid, vfrmPrio(rng))
	case 2:
		g.out = h2ref.AppendRSTStream(g.out, sid, rng.Uint32N(20))
	case 3:
		var ss []h2ref.Setting
		for i := rng.IntN(5); i > 0; i-- {
			ss = append(ss, h2ref.Setting{ID: uint16(1 + rng.IntN(9)), Val: []uint32{0, 1, 100, 16384, 65535, 1<<31 - 1, 1 << 31, 1<<32 - 1}[rng.IntN(8)]})
		}
		g.out = h2ref.AppendSettings(g.out, ss...)
	case 4:
		g.out = h2ref.AppendSettingsAck(g.out)
	case 5:
		g.out = h2ref.AppendPushPromise(g.out, sid, vfrmStreamID(rng), true, small(), padLen)
	case 6:
		var d [8]byte
		copy(d[:], vfrmFill(rng, 8))
		g.out = h2ref.AppendPing(g.out, rng.IntN(2) == 0, d)
	case 7:
		g.out = h2ref.AppendGoAway(g.out, rng.Uint32N(1<<31), rng.Uint32N(16), small())
	case 8:
		wsid := sid
		if rng.IntN(2) == 0 {
			wsid = 0
		}
		g.out = h2ref.AppendWindowUpdate(g.out, wsid, []uint32{0, 1, 65535, 1<<31 - 1, 1 << 31, 1<<31 | 7}[rng.IntN(6)])
	case 9:
		g.out = h2ref.AppendPriorityUpdate(g.out, vfrmStreamID(rng)*uint32(rng.IntN(8)&1|rng.IntN(2)), c07Pick(rng, []string{"", "u=1", "u=3, i", "i=?0"}))
	case 10:
		g.out = h2ref.AppendFrame(g.out, h2ref.Frame{Type: uint8(0xa + rng.IntN(246)), Flags: uint8(rng.Uint32()), StreamID: sid * uint32(rng.IntN(2)), Payload: small()})
	case 11: // HEADERS with an opaque fragment (interesting without ReadMetaHeaders)
		var p *h2ref.Priority
		if rng.IntN(2) == 0 {
			q := vfrmPrio(rng)
			p = &q
		}
		g.out = h2ref.AppendHeaders(g.out, sid, rng.IntN(2) == 0, true, nil, p, padLen)
	case 12: // stray CONTINUATION
		g.out = h2ref.AppendContinuation(g.out, sid, rng.IntN(2) == 0, small())
	}
	fs, _ := h2ref.ParseAll(g.out[start:])
	g.note("%s", fs[0])
}

// mutateLast damages the header or the padding octet of the frame that starts at start.
func (g *c07Gen) mutateLast(start int) {
	rng := g.rng
	h := g.out[start:]
	if len(h) < h2ref.HeaderLen {
		return
	}
	length := int(h[0])<<16 | int(h[1])<<8 | int(h[2])
	setLen := func(n int) {
		if n < 0 {
			n = 0
		}
		h[0], h[1], h[2] = byte(n>>16), byte(n>>8), byte(n)
	}
	switch k := rng.IntN(12); k {
	case 0:
		setLen(length + 1 + rng.IntN(3)) // swallows the start of the next frame, or truncated at end
		g.note("  length+")
	case 1:
		setLen(length - 1 - rng.IntN(3))
		g.note("  length-")
	case 2:
		setLen([]int{0, 1, 4, 5, 6, 8, 9}[rng.IntN(7)])
		g.note("  length=small")
	case 3:
		// at / just above the read limit (payload missing: truncated or too large). The Framer
		// allocates the announced length before reading, so 16 MiB announcements are rationed.
		if g.cfg.MaxRead > 20000 && rng.IntN(10) != 0 {
			setLen(20000 + rng.IntN(1000))
		} else {
			setLen(int(g.cfg.MaxRead) + rng.IntN(2))
		}
		g.note("  length=max(+1)")
	case 4:
		h[3] = uint8(rng.IntN(12))
		g.note("  type=%d", h[3])
	case 5:
		h[3] = uint8(rng.Uint32())
		g.note("  type=%d", h[3])
	case 6, 7:
		h[4] = uint8(rng.Uint32())
		if k == 7 {
			h[4] ^= 1 << rng.IntN(8)
		}
		g.note("  flags=0x%x", h[4])
	case 8:
		h[5], h[6], h[7], h[8] = 0, 0, 0, 0
		g.note("  stream=0")
	case 9:
		h[5] |= 0x80 // reserved bit: must be ignored
		g.note("  R bit")
	case 10:
		h[8] ^= byte(1 + rng.IntN(6))
		g.note("  stream changed")
	case 11:
		if length > 0 {
			h[9] = uint8(rng.Uint32()) // pad length octet / first payload octet
			h[4] |= h2ref.FlagPadded
			g.note("  PADDED + pad octet %d", h[9])
		}
	}
}

// headerGroup appends HEADERS + CONTINUATION* carrying an HPACK block, with PRNG-chosen
// contiguity faults.
func (g *c07Gen) headerGroup() {
	rng := g.rng
	sid := g.sid()
	fs, defect := c07GenFields(rng)
	block := c07Encode(rng, g.sh, fs)
	k := 0
	switch rng.IntN(6) {
	case 0, 1:
		k = 1 + rng.IntN(3)
	case 2:
		k = 4 + rng.IntN(12)
	}
	cuts := make([]int, k)
	for i := range cuts {
		cuts[i] = rng.IntN(len(block) + 1)
	}
	for i := 1; i < len(cuts); i++ { // insertion sort
		for j := i; j > 0 && cuts[j] < cuts[j-1]; j-- {
			cuts[j], cuts[j-1] = cuts[j-1], cuts[j]
		}
	}
	cuts = append(cuts, len(block))
	var prio *h2ref.Priority
	if rng.IntN(3) == 0 {
		q := vfrmPrio(rng)
		prio = &q
	}
	padLen := -1
	if rng.IntN(3) == 0 {
		padLen = rng.IntN(40)
	}
	fault := ""
	switch rng.IntN(14) {
	case 0:
		fault = "interleaved-frame"
	case 1:
		fault = "continuation-other-stream"
	case 2:
		fault = "no-end-headers"
	case 3:
		fault = "eof-in-group"
	}
	g.note("HEADERS group stream=%d fields=%d defect=%q block=%dB continuations=%d pad=%d prio=%v fault=%q", sid, len(fs), defect, len(block), k, padLen, prio != nil, fault)
	faultAt := rng.IntN(k + 1) // after which frame of the group the fault strikes
	prev := 0
	for i, cut := range cuts {
		last := i == len(cuts)-1
		end := last && fault != "no-end-headers"
		frag := block[prev:cut]
		prev = cut
		if i == 0 {
			start := len(g.out)
			g.out = h2ref.AppendHeaders(g.out, sid, rng.IntN(2) == 0, end, frag, prio, padLen)
			if rng.IntN(25) == 0 {
				g.mutateLast(start)
			}
		} else {
			csid := sid
			if fault == "continuation-other-stream" && i-1 == faultAt%k {
				csid = sid + 2
			}
			g.out = h2ref.AppendContinuation(g.out, csid, end, frag)
		}
		if fault == "interleaved-frame" && i == faultAt && !last {
			g.plain()
		}
		if fault == "eof-in-group" && i == faultAt && !last {
			return
		}
	}
}

func (g *c07Gen) stream() []byte {
	rng := g.rng
	n := 1 + rng.IntN(8)
	for i := 0; i < n; i++ {
		start := len(g.out)
		switch k := rng.IntN(20); {
		case k < 8:
			g.headerGroup()
		case k < 16:
			g.plain()
			if rng.IntN(3) == 0 {
				g.mutateLast(start)
			}
		case k == 16: // frame exactly at / one above the read limit, payload present
			if g.cfg.MaxRead <= 20000 {
				n := int(g.cfg.MaxRead) + rng.IntN(2)
				if rng.IntN(2) == 0 {
					g.out = h2ref.AppendData(g.out, g.sid(), false, make([]byte, n), -1)
				} else {
					g.out = h2ref.AppendContinuation(g.out, g.sid(), true, make([]byte, n)) // stray or closing a block
				}
				g.note("frame of %d bytes at read limit %d", n, g.cfg.MaxRead)
			}
		case k == 17: // raw header with random fields and a short random payload
			l := rng.IntN(24)
			g.out = h2ref.AppendHeader(g.out, uint32(l), uint8(rng.IntN(18)), uint8(rng.Uint32()), rng.Uint32N(6)|rng.Uint32()&(1<<31))
			g.out = append(g.out, vfrmFill(rng, l)...)
			g.note("random frame len=%d", l)
		case k == 18:
			g.out = append(g.out, vfrmFill(rng, rng.IntN(30))...)
			g.note("random bytes")
		default:
			g.plain()
		}
	}
	if rng.IntN(6) == 0 && len(g.out) > 0 {
		cut := rng.IntN(len(g.out))
		g.out = g.out[:cut]
		g.note("stream cut at %d", cut)
	}
	return g.out
}

func c07DrawCfg(rng *rand.Rand) c07Cfg {
	cfg := c07Cfg{
		MaxRead:  []uint32{16384, 20000, 1<<24 - 1, 16384, 20000, 16384}[rng.IntN(6)],
		ListSize: []uint32{0, 64, 4096, 0, 300, 33, 100000}[rng.IntN(7)],
		Meta:     rng.IntN(3) != 0,
		Reuse:    rng.IntN(2) == 0,
	}
	if rng.IntN(20) == 0 {
		cfg.MaxRead = []uint32{0, 5, 9, 100, 1 << 24, 1<<32 - 1}[rng.IntN(6)] // values above 2^24-1 are documented to be clamped
	}
	return cfg
}

func TestVerif_C07(t *testing.T) {
	r := verifrt.Start(t, "C07")
	defer r.Finish()
	r.SetRule("case = one byte stream (1-8 items: HEADERS+CONTINUATION groups carrying generated HPACK blocks with/without field defects and contiguity faults, well-formed frames of every type with PRNG header/padding mutations, frames at the read limit, random frames/bytes, random cut) read to the end by one Framer with PRNG max read size / MaxHeaderListSize / ReadMetaHeaders / SetReuseFrames. non-trivial = at least one frame accepted and at least one rejection, or a MetaHeadersFrame returned; distinct by configuration + stream bytes")
	r.Assume("frame boundaries, per-frame rules and ordering come from the harness's RFC 9113 reader (h2ref); field lists from the harness's RFC 7541 decoder (hpackref); field-name/value validity from RFC 9110 token / RFC 9113 §8.2.1 control-character rules written in the monitor")
	if err := hpackref.SelfCheck(); err != nil {
		t.Fatalf("verif harness: hpackref self check: %v", err)
	}
	m := &c07Mon{r: r}

	one := func(c *verifrt.Case, cfg c07Cfg, wire []byte, desc []string) {
		c.Describe(map[string]any{"cfg": cfg, "items": desc, "wire_len": len(wire), "wire_hex_prefix": fmt.Sprintf("%x", wire[:min(len(wire), 600)])})
		st := m.walk(c, cfg, wire)
		h := fnv.New64a()
		fmt.Fprintf(h, "%+v|", cfg)
		h.Write(wire)
		r.EvalHash((st.ok > 0 && st.errs > 0) || st.metaOK > 0, h.Sum64())
		if c.Index < 2 {
			r.Sample(map[string]any{"stream": c.Stream, "index": c.Index, "cfg": cfg, "items": desc, "accepted": st.ok, "rejections": st.errs})
		}
	}

	r.CasesParallel("streams", r.N(40000, 2000000), 0, func(c *verifrt.Case) {
		cfg := c07DrawCfg(c.Rng)
		g := &c07Gen{rng: c.Rng, cfg: cfg, sh: hpackref.NewDecoder(4096)}
		wire := g.stream()
		one(c, cfg, wire, g.desc)
	})

	// header groups only, valid or with exactly the generated defect, small list limits: this
	// is where Truncated / list-size accounting is reached most often
	r.CasesParallel("header-lists", r.N(20000, 1000000), 0, func(c *verifrt.Case) {
		cfg := c07Cfg{MaxRead: 1<<24 - 1, ListSize: []uint32{0, 64, 100, 200, 300, 1000, 4096}[c.Rng.IntN(7)], Meta: true, Reuse: c.Rng.IntN(2) == 0}
		g := &c07Gen{rng: c.Rng, cfg: cfg, sh: hpackref.NewDecoder(4096)}
		for i := 1 + c.Rng.IntN(4); i > 0; i-- {
			g.headerGroup()
		}
		one(c, cfg, g.out, g.desc)
	})

	// uniformly random bytes
	r.CasesParallel("random-bytes", r.N(20000, 1000000), 0, func(c *verifrt.Case) {
		cfg := c07DrawCfg(c.Rng)
		wire := vfrmFill(c.Rng, c.Rng.IntN(64))
		// (the Framer allocates the announced length before reading the payload: with the
		// 2^24-1 limit most uniformly random headers would cost an 8 MiB allocation each)
		if (c.Rng.IntN(2) == 0 || (cfg.MaxRead > 20000 && c.Rng.IntN(20) != 0)) && len(wire) >= 3 {
			wire[0], wire[1] = 0, 0 // plausible length so that the payload parsers are reached
			wire[2] &= 0x1f
			if len(wire) > 3 {
				wire[3] %= 12
			}
		}
		one(c, cfg, wire, []string{"random bytes"})
	})

	// RFC 9113 §6.6/§6.10: a PUSH_PROMISE without END_HEADERS opens a field block exactly like
	// HEADERS does; anything but a CONTINUATION of the same stream after it is a connection
	// error. Own stream, own key (the "streams" workload stops after such a PUSH_PROMISE).
	r.Cases("push-promise-block", r.N(60, 600), func(c *verifrt.Case) {
		cfg := c07Cfg{MaxRead: 16384, Meta: c.Rng.IntN(2) == 0}
		sid := 1 + 2*c.Rng.Uint32N(50)
		wire := h2ref.AppendPushPromise(nil, sid, 2+2*c.Rng.Uint32N(50), false, vfrmFill(c.Rng, c.Rng.IntN(20)), -1)
		var what string
		switch c.Rng.IntN(4) {
		case 0:
			what = "DATA on the same stream"
			wire = h2ref.AppendData(wire, sid, false, []byte("x"), -1)
		case 1:
			what = "PING"
			wire = h2ref.AppendPing(wire, false, [8]byte{1})
		case 2:
			what = "CONTINUATION of another stream"
			wire = h2ref.AppendContinuation(wire, sid+2, true, nil)
		case 3:
			what = "HEADERS on another stream"
			wire = h2ref.AppendHeaders(wire, sid+2, false, true, nil, nil, -1)
		}
		c.Describe(map[string]any{"cfg": cfg, "after_push_promise": what, "wire_hex": fmt.Sprintf("%x", wire)})
		fr := NewFramer(nil, bytes.NewReader(wire))
		fr.SetMaxReadFrameSize(cfg.MaxRead)
		if cfg.Meta {
			fr.ReadMetaHeaders = hpack.NewDecoder(4096, nil)
		}
		f, err := fr.ReadFrame()
		if err != nil {
			c.Violation("valid-frame-rejected:PUSH_PROMISE", "PUSH_PROMISE without END_HEADERS: %v", err)
			return
		}
		if _, ok := f.(*PushPromiseFrame); !ok {
			c.Violation("frame-misparsed:PUSH_PROMISE:kind", "got %T", f)
			return
		}
		f, err = fr.ReadFrame()
		if err == nil {
			c.Violation("push-promise-block-interrupted-accepted", "PUSH_PROMISE(stream %d, no END_HEADERS) followed by %s: ReadFrame returned %s instead of a connection error (wire %x)", sid, what, vfrmFromImpl(f).Kind, wire)
		} else if _, isSE := c07IsStreamErr(err); isSE && what != "CONTINUATION of another stream" {
			c.Violation("order-violation-stream-error", "after open PUSH_PROMISE, %s: %v", what, err)
		}
		r.Eval(true, "pp", sid, what, cfg.Meta)
		r.Event("push_promise_blocks", 1)
	})

	for _, k := range []string{"frames_ok", "meta_ok", "meta_truncated", "meta_ok_with_continuation", "rejected_order", "rejected_too_large",
		"rejected_invalid_DATA", "rejected_invalid_HEADERS", "rejected_invalid_SETTINGS", "rejected_invalid_PING", "rejected_invalid_WINDOW_UPDATE",
		"rejected_invalid_PRIORITY", "rejected_invalid_RST_STREAM", "rejected_invalid_GOAWAY", "rejected_invalid_PUSH_PROMISE",
		"meta_rejected_pseudo-after-regular", "meta_rejected_duplicate-pseudo", "meta_rejected_unknown-pseudo", "meta_rejected_mixed-pseudo",
		"meta_rejected_invalid-name", "meta_rejected_invalid-value", "meta_group_broken_order", "continued_after_stream_error", "end_short-payload"} {
		r.Require(k, 20)
	}
	r.Require("frames_ok", 20000)
	r.Require("meta_ok", 3000)
}
