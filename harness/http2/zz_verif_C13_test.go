//go:build verif && !(go1.27 && !http2legacy)

package http2

import (
	"sync/atomic"
	"testing"

	"golang.org/x/net/internal/verifrt"
)

func TestVerif_C13(t *testing.T) {
	r := verifrt.Start(t, "C13")
	defer r.Finish()
	r.SetRule("PRNG histories (same generator and FIFO/flow-control model as C12) on the RFC 9218 scheduler only, 2-10 open streams drawn from 1-3 urgency values x {incremental, non-incremental}, priorities set at OpenStream, by AdjustStream on open streams and by one buffered pre-open AdjustStream; profiles: 'busy' (large windows, long DATA so streams stay sendable), 'blocked' (small windows, frequent flow-control stalls), 'short' (6-40 ops), 'control-rhythm' (one urgency, then 60 rounds of: top up DATA, push c control frames, pop c+1 frames, c fixed per history in {0,1,2,3,5}). non-trivial = history with a stream-frame Pop that passed over a less urgent sendable stream AND a Pop with >=2 sendable incremental streams in the served class AND a Pop with incremental and non-incremental streams sendable in the same class; distinct by complete op log")
	r.Assume("the model knows every stream's (urgency, incremental): OpenStreamOptions.priority, the latest AdjustStream, or the one buffered pre-open update; the workload never has two pre-open updates outstanding, so one-slot and multi-slot buffers are indistinguishable")
	r.Assume("bounds: an incremental stream continuously sendable at the most urgent sendable level is served within 2*(k+1) stream-frame Pops (k = incremental streams of its class); a non-incremental stream that was served and stays sendable is the next one served in its class, and is not passed over more than 4 consecutive stream-frame Pops while its class is the most urgent sendable one")

	var maxWait atomic.Int64
	cfg := vwsConfig{Name: "rfc9218"}
	run := func(stream string, n int, p vwsParams) {
		p.prio = true
		r.CasesParallel(stream, n, 0, func(c *verifrt.Case) {
			h := vwsRunGuarded(c, r, cfg, p)
			if h == nil {
				return
			}
			nt := h.sawPreempt && h.sawMultiInc && h.sawMixed
			r.Eval(nt, h.signature())
			if nt {
				r.Event("histories_nontrivial", 1)
			}
			for {
				m := maxWait.Load()
				if int64(h.maxWait) <= m || maxWait.CompareAndSwap(m, int64(h.maxWait)) {
					break
				}
			}
			if c.Index < 3 && stream == "short" {
				ops := h.log.Ops
				if len(ops) > 30 {
					ops = ops[:30]
				}
				r.Sample(map[string]any{"conn": h.log.Conn, "first_ops": ops})
			}
		})
	}
	short := vwsParams{minOps: 6, maxOps: 40, maxStreams: 5, urgencies: 2, bigWindows: true,
		wOpen: 10, wClose: 4, wAdjust: 10, wData: 26, wHeaders: 6, wCtl: 3, wWindow: 5, wPop: 36, wMaxFrame: 0}
	busy := vwsParams{minOps: 60, maxOps: 400, maxStreams: 10, urgencies: 3, bigWindows: true,
		wOpen: 8, wClose: 4, wAdjust: 9, wData: 26, wHeaders: 6, wCtl: 3, wWindow: 4, wPop: 40, wMaxFrame: 0}
	blocked := vwsParams{minOps: 60, maxOps: 400, maxStreams: 8, urgencies: 3, bigWindows: false,
		wOpen: 7, wClose: 5, wAdjust: 9, wData: 24, wHeaders: 7, wCtl: 5, wWindow: 12, wPop: 30, wMaxFrame: 1}
	rhythm := vwsParams{minOps: 10, maxOps: 40, maxStreams: 5, urgencies: 1, bigWindows: true, ctlRhythm: true,
		wOpen: 14, wClose: 1, wAdjust: 4, wData: 40, wHeaders: 2, wCtl: 2, wWindow: 1, wPop: 10, wMaxFrame: 0}
	run("control-rhythm", r.N(1500, 40000), rhythm)
	run("short", r.N(6000, 200000), short)
	run("busy", r.N(2500, 80000), busy)
	run("blocked", r.N(1500, 40000), blocked)
	r.SetExtra("max_wait_of_an_eligible_incremental_stream_in_stream_pops", maxWait.Load())

	r.Require("prio_stream_pops_checked", 50000)
	r.Require("prio_pops_with_less_urgent_stream_waiting", 5000)
	r.Require("prio_pops_with_2+_incremental_sendable_in_class", 5000)
	r.Require("prio_pops_with_incremental_and_nonincremental_sendable_in_class", 5000)
	r.Require("prio_nonincremental_continuations_checked", 5000)
	r.Require("prio_preopen_updates_applied", 200)
	r.Require("histories_nontrivial", 300)
	r.Require("histories_with_control_rhythm", 1000)
}
