//go:build verif

package http2

// C09: the HTTP/2 client never sends request DATA beyond the server's windows.
//
// A real ClientConn (Transport.NewClientConn) uploads 1..8 concurrent request bodies to the
// scripted server of zz_verif_util_cliwire_test.go. The server plays with everything the
// statement quantifies over: initial window, WINDOW_UPDATE sequences on streams and on the
// connection (1 byte, exactly-fill, huge), SETTINGS that shrink INITIAL_WINDOW_SIZE below what
// is already in flight (negative windows) or change MAX_FRAME_SIZE, early responses, resets.
// Oracles (shadow state of the server, fed by an independent frame reader):
//   - every DATA frame: length <= SETTINGS_MAX_FRAME_SIZE, <= stream window, <= connection
//     window; a SETTINGS change binds at the client's SETTINGS ACK, before that the more
//     permissive of old/new applies;
//   - at quiescence (synctest.Wait, nobody inside an injected delay, no SETTINGS
//     unacknowledged): a stream that still has body bytes to send while its stream window and
//     the connection window are both positive is a violation (blocked body did not resume).
//
// Failpoint transport.afterAwaitFlow (anchored insertion after the awaitFlowControl call in
// writeRequestBody) sleeps in virtual time between taking the tokens and writing the frame.

import (
	"fmt"
	"hash/fnv"
	"os"
	"runtime/debug"
	"strings"
	"testing"
	"testing/synctest"

	"golang.org/x/net/internal/verifrt"
	"golang.org/x/net/internal/verifrt/h2ref"
)

type vcliC09Params struct {
	InitWin     int64   `json:"server_initial_window"`
	MaxFrame    uint32  `json:"server_max_frame_size"`         // 0: not sent
	MaxStreams  uint32  `json:"server_max_concurrent_streams"` // 0: not sent
	SettingsLag bool    `json:"requests_start_before_server_settings"`
	DelayPct    int     `json:"failpoint_delay_pct"`
	Bodies      []int64 `json:"body_sizes"`
	Declared    []bool  `json:"content_length_declared"`
	Chunks      []int   `json:"body_read_chunk"`
	DrainAfter  int     `json:"scripted_steps"`
	CliReadMax  uint32  `json:"client_max_read_frame_size"` // the client's own receive limit; says nothing about what it may send
}

func vcliC09Pick[T any](rng interface{ IntN(int) int }, xs ...T) T { return xs[rng.IntN(len(xs))] }

func TestVerif_C09(t *testing.T) {
	r := verifrt.Start(t, "C09")
	defer r.Finish()
	r.SetRule("one case = one ClientConn session: 1-8 concurrent uploads (0 B - 1 MiB, PRNG read chunking, declared/unknown length) against a scripted server with PRNG initial window {0,1,100,16383,16384,65535,65536,1MiB,random}, max frame {unset,16384,16385,65536,1MiB,2^24-1} (independently the client's own MaxReadFrameSize {default,16384,65536,1MiB,2^24-1}), PRNG WINDOW_UPDATEs (1 byte, exactly-fill, frame-sized, huge; stream and connection), SETTINGS shrinking/growing INITIAL_WINDOW_SIZE and MAX_FRAME_SIZE mid-flight, early 200/403 responses, server resets. non-trivial = session in which a body was found blocked at quiescence on a non-positive window and later sent more DATA after the server extended it; distinct by hash of parameters + the sequence of (stream,len) of all DATA frames")
	r.Assume("independent frame reader h2ref; shadow windows follow RFC 9113 6.9/6.9.2; SETTINGS bind at the client's ACK (6.5.3), before the ACK the more permissive of old/new is allowed")
	r.Assume("request-to-stream mapping uses the repository's hpack decoder on the request header blocks (bookkeeping only)")
	fpMissing := strings.Contains(os.Getenv("VERIF_FAILPOINT_MISSING"), "transport.afterAwaitFlow")
	if fpMissing {
		r.Note("failpoint_missing: transport.afterAwaitFlow anchor not found; running without the injected delay")
		r.SetExtra("failpoint_missing", true)
	}

	n := r.N(300, 800)
	r.Cases("flow", n, func(c *verifrt.Case) {
		synctest.Test(t, func(t *testing.T) {
			defer func() {
				if e := recover(); e != nil {
					c.Violation("panic:"+vcliPanicKey(e), "panic in session: %v\n%s", e, debug.Stack())
				}
			}()
			vcliC09Session(r, c, fpMissing)
		})
	})

	r.Require("data_frames_checked", 2000)
	r.Require("blocked_at_quiescence", 50)
	r.Require("resumed_after_window_extension", 50)
	r.Require("settings_acked", 100)
	r.Require("stream_window_shrunk_to_nonpositive", 5)
	r.Require("sessions_completed", int64(n*9/10))
	if !fpMissing {
		r.Require("failpoint_sleeps", 100)
		r.Require("settings_sent_while_writer_delayed", 10)
	}
}

func vcliPanicKey(e any) string {
	s := fmt.Sprint(e)
	if i := strings.IndexAny(s, ":\n"); i > 0 && i < 60 {
		s = s[:i]
	} else if len(s) > 60 {
		s = s[:60]
	}
	return s
}

func vcliC09Session(r *verifrt.R, c *verifrt.Case, fpMissing bool) {
	rng := c.Rng
	thorough := r.Thorough()
	p := vcliC09Params{}
	p.InitWin = vcliC09Pick[int64](rng, 0, 1, 100, 16383, 16384, 65535, 65536, 1<<20, int64(1+rng.IntN(200000)))
	p.MaxFrame = vcliC09Pick[uint32](rng, 0, 0, 16384, 16385, 65536, 1<<20, 1<<24-1)
	p.SettingsLag = rng.IntN(3) == 0
	// a stream limit below the number of uploads: requests wait for a slot while SETTINGS change
	// the initial window they will start with
	p.MaxStreams = vcliC09Pick[uint32](rng, 0, 0, 0, 1, 2, 3)
	p.DelayPct = vcliC09Pick(rng, 0, 30, 100, 100)
	nreq := 1 + rng.IntN(8)
	budget := int64(600 << 10) // keep a quick session cheap: total bytes across bodies
	if thorough {
		budget = 3 << 19
	}
	for i := 0; i < nreq; i++ {
		sz := vcliC09Pick[int64](rng, 0, 1, 100, 16384, 16385, 65535, 65536, 100000, 300000, 1<<20, int64(rng.IntN(200000)))
		if sz > budget {
			sz = budget
		}
		budget -= sz
		p.Bodies = append(p.Bodies, sz)
		p.Declared = append(p.Declared, rng.IntN(2) == 0)
		ch := vcliC09Pick(rng, 0, 0, 1000, 4096, 16384, 100000)
		if ch > 0 && sz/int64(ch) > 300 {
			ch = int(sz/300) + 1
		}
		p.Chunks = append(p.Chunks, ch)
	}
	p.DrainAfter = 20 + rng.IntN(150)
	p.CliReadMax = vcliC09Pick[uint32](rng, 0, 0, 16384, 65536, 1<<20, 1<<24-1)
	c.Describe(p)

	// StrictMaxConcurrentStreams: a request beyond the limit waits for a slot on this connection
	// (without it RoundTrip on a ClientConn at its limit fails at once with "not usable")
	tr := &Transport{StrictMaxConcurrentStreams: p.MaxStreams != 0, MaxReadFrameSize: p.CliReadMax}
	s := vcliNewSession(r, c, tr)
	s.CheckFlow = true
	hook := s.Delay.Delay
	verifDelayHook.Store(&hook)
	defer verifDelayHook.Store(nil)
	s.Delay.pct.Store(int64(p.DelayPct))
	defer s.Teardown()

	sc, cc, err := s.NewDirect()
	if err != nil {
		r.Note("NewClientConn failed: %v", err)
		return
	}
	sc.NC.setReadMax(vcliC09Pick(rng, 0, 0, 1, 5, 64)) // fragment what the client reads
	sig := fnv.New64a()
	fmt.Fprintf(sig, "%+v", p)
	resumed, dataFrames := 0, 0
	blockedMark := map[uint32]bool{}
	sc.OnData = func(st *vcliStream, f h2ref.Frame) {
		fmt.Fprintf(sig, "|%d:%d", st.id, f.Length)
		dataFrames++
		if blockedMark[st.id] && f.Length > 0 {
			delete(blockedMark, st.id)
			resumed++
			r.Event("resumed_after_window_extension", 1)
		}
	}

	reqByTag := map[string]*vcliReq{}
	for i := range p.Bodies {
		rq := s.NewReq("POST", p.Bodies[i], p.Declared[i], p.Chunks[i], rng.IntN(2) == 0, false)
		reqByTag[rq.Tag] = rq
	}
	next := 0
	startOne := func() {
		if next < len(s.Reqs) {
			s.Start(s.Reqs[next], cc.RoundTrip)
			next++
		}
	}
	firstSettings := func() {
		ss := []h2ref.Setting{{ID: h2ref.SettingInitialWindowSize, Val: uint32(p.InitWin)}}
		if p.MaxFrame != 0 {
			ss = append(ss, h2ref.Setting{ID: h2ref.SettingMaxFrameSize, Val: p.MaxFrame})
		}
		if p.MaxStreams != 0 {
			ss = append(ss, h2ref.Setting{ID: h2ref.SettingMaxConcurrentStreams, Val: p.MaxStreams})
		}
		sc.SendSettings(ss...)
	}
	if p.SettingsLag {
		k := 1 + rng.IntN(len(s.Reqs))
		for i := 0; i < k; i++ {
			startOne()
			if rng.IntN(2) == 0 {
				s.Pump()
			}
		}
		s.Pump()
		firstSettings()
	} else {
		firstSettings()
		if rng.IntN(2) == 0 {
			s.Pump()
		}
	}

	const maxWin = 1 << 29
	sh := &sc.Sh
	remaining := func(st *vcliStream) int64 {
		rq := reqByTag[st.tag]
		if rq == nil {
			return 0
		}
		return rq.BodyLen - st.dataBytes
	}
	// streams the client is still expected to be uploading on
	active := func() []*vcliStream {
		var out []*vcliStream
		for _, st := range sh.order {
			if st.hdrDone && st.cliCanSend() && !st.srvReset && !st.errResp && remaining(st) > 0 {
				out = append(out, st)
			}
		}
		return out
	}
	stuckCheck := func() {
		if sc.Dead || sc.closedBySrv || len(sh.pending) > 0 || sc.NC.s2cPending() > 0 {
			r.Event("quiescence_check_skipped", 1)
			return
		}
		r.Event("quiescence_checks", 1)
		cc.mu.Lock()
		waiting := cc.pendingRequests
		cc.mu.Unlock()
		if waiting > 0 {
			r.Event("quiescent_with_requests_waiting_for_a_stream_slot", 1)
		}
		for _, st := range active() {
			rq := reqByTag[st.tag]
			if rq.Finished() {
				continue
			}
			if st.win > 0 && sh.connWin > 0 {
				sc.viol("blocked-body-not-resumed", "at quiescence stream %d (request %s) has %d body bytes left, stream window %d and connection window %d are positive, yet nothing is being sent",
					st.id, st.tag, remaining(st), st.win, sh.connWin)
			} else {
				if !blockedMark[st.id] {
					blockedMark[st.id] = true
				}
				r.Event("blocked_at_quiescence", 1)
			}
		}
	}
	grantStream := func(st *vcliStream, inc int64) {
		if inc <= 0 {
			return
		}
		if st.win+sh.permWinExtra()+inc > maxWin {
			inc = maxWin - st.win - sh.permWinExtra()
		}
		if inc > 0 {
			sc.SendWindowUpdate(st.id, uint32(inc))
			r.Event("window_updates_stream", 1)
		}
	}
	grantConn := func(inc int64) {
		if sh.connWin+inc > maxWin {
			inc = maxWin - sh.connWin
		}
		if inc > 0 {
			sc.SendWindowUpdate(0, uint32(inc))
			r.Event("window_updates_conn", 1)
		}
	}
	pickInc := func(win, rem int64) int64 {
		mf := sh.maxFrame
		switch rng.IntN(7) {
		case 0:
			return 1
		case 1:
			return 1 + int64(rng.IntN(100))
		case 2:
			if win < 0 {
				return -win + 1 // makes the window exactly 1
			}
			return 1 + int64(rng.IntN(int(mf)))
		case 3:
			return mf
		case 4:
			if win < 0 {
				return -win // brings it to exactly 0: still blocked
			}
			return mf + 1
		case 5:
			if rem > 0 {
				return rem // exactly the rest of the body
			}
			return mf
		default:
			return 1 + int64(rng.IntN(300000))
		}
	}
	respondFinished := func(all bool) {
		for _, st := range sh.order {
			if st.hdrDone && st.cliEnded && !st.respSent && !st.srvReset && (all || rng.IntN(2) == 0) {
				sc.SendResponse(st.id, 200, vcliC09Pick(rng, 0, 0, 10), true)
			}
		}
	}

	completed := false
	for step := 0; step < 6000; step++ {
		drain := step >= p.DrainAfter
		if drain || rng.IntN(3) == 0 {
			s.Settle()
			stuckCheck()
		} else {
			s.Pump()
		}
		if sc.Dead {
			r.Event("client_closed_connection", 1)
			break
		}
		if next == len(s.Reqs) && s.AllFinished() {
			completed = true
			break
		}
		if drain {
			// let everything finish: start the rest, answer, open the windows generously
			startOne()
			respondFinished(true)
			act := active()
			var need int64
			for _, st := range act {
				rem := remaining(st)
				need += rem
				if st.win < rem {
					grantStream(st, vcliC09Pick[int64](rng, rem-st.win, rem-st.win, 1+int64(rng.IntN(70000))))
				}
			}
			if need > 0 && sh.connWin < need {
				grantConn(vcliC09Pick[int64](rng, need-sh.connWin, 1+int64(rng.IntN(70000)), 16384))
			}
			continue
		}
		switch a := rng.IntN(20); {
		case a < 3:
			startOne()
		case a < 8: // stream WINDOW_UPDATE, preferring blocked streams
			act := active()
			if len(act) == 0 {
				break
			}
			st := act[rng.IntN(len(act))]
			for tries := 0; tries < 3 && st.win > 0; tries++ {
				st = act[rng.IntN(len(act))]
			}
			grantStream(st, pickInc(st.win, remaining(st)))
		case a < 11: // connection WINDOW_UPDATE
			grantConn(pickInc(sh.connWin, 0))
		case a < 14: // SETTINGS
			var ss []h2ref.Setting
			if rng.IntN(4) != 0 {
				cur := sh.initWin
				if len(sh.pending) > 0 {
					cur += 0
				}
				var nv int64
				switch rng.IntN(6) {
				case 0:
					nv = 0
				case 1:
					nv = cur / 2
				case 2:
					nv = int64(rng.IntN(1000))
				case 3:
					nv = cur + int64(rng.IntN(100000))
				case 4:
					nv = 65535
				default:
					nv = int64(rng.IntN(1 << 20))
				}
				if nv > 1<<24 {
					nv = 1 << 24
				}
				if rng.IntN(4) == 0 {
					// the same setting twice in one frame: legal, processed in order, the last
					// value is the one that counts (RFC 9113 6.5.3)
					first := vcliC09Pick[int64](rng, 0, nv+30000, nv/2, 1<<20, int64(rng.IntN(200000)))
					ss = append(ss, h2ref.Setting{ID: h2ref.SettingInitialWindowSize, Val: uint32(first)})
					r.Event("settings_frames_with_initial_window_size_twice", 1)
				}
				ss = append(ss, h2ref.Setting{ID: h2ref.SettingInitialWindowSize, Val: uint32(nv)})
			}
			if len(ss) == 0 || rng.IntN(3) == 0 {
				ss = append(ss, h2ref.Setting{ID: h2ref.SettingMaxFrameSize, Val: vcliC09Pick[uint32](rng, 16384, 16385, 20000, 65536, 1<<20, 1<<24-1)})
			}
			if s.Delay.sleepers.Load() > 0 {
				r.Event("settings_sent_while_writer_delayed", 1)
			}
			cc.mu.Lock()
			if cc.pendingRequests > 0 {
				r.Event("settings_sent_while_requests_wait_for_a_stream_slot", 1)
			}
			cc.mu.Unlock()
			sc.SendSettings(ss...)
			r.Event("settings_sent", 1)
		case a < 16:
			respondFinished(false)
		case a == 16: // early response while the upload is still running
			act := active()
			if len(act) == 0 {
				break
			}
			st := act[rng.IntN(len(act))]
			if st.respSent {
				break
			}
			if rng.IntN(2) == 0 {
				sc.SendResponse(st.id, 200, 0, true) // upload continues (half-closed remote)
				r.Event("early_200", 1)
			} else {
				sc.SendResponse(st.id, 403, 0, true) // client stops the upload
				st.errResp = true
				r.Event("early_403", 1)
			}
		case a == 17: // server reset
			act := active()
			if len(act) == 0 || rng.IntN(2) == 0 {
				break
			}
			st := act[rng.IntN(len(act))]
			sc.SendRST(st.id, vcliC09Pick[uint32](rng, h2ref.ErrCancel, h2ref.ErrNo, h2ref.ErrInternal))
			r.Event("server_rst_stream", 1)
		case a == 18:
			sc.SendPing(false, [8]byte{1, 2, 3, 4, 5, 6, 7, byte(step)})
		default:
			// A late WINDOW_UPDATE for a stream that is over (the server has answered it and
			// the client has nothing left to send on it): legal (RFC 9113 5.1, "closed"), and it
			// extends that stream's window only, never the connection's.
			var over []*vcliStream
			for _, st := range sh.order {
				if st.hdrDone && st.respSent && !st.srvReset && (remaining(st) <= 0 || st.errResp || !st.cliCanSend()) {
					over = append(over, st)
				}
			}
			if len(over) > 0 {
				st := over[rng.IntN(len(over))]
				inc := vcliC09Pick[int64](rng, 1, 1000, 70000, 1<<20)
				if st.win+sh.permWinExtra()+inc <= maxWin {
					sc.SendWindowUpdate(st.id, uint32(inc))
					r.Event("late_window_update_on_finished_stream", 1)
				}
			}
		}
	}

	r.Event("sessions", 1)
	r.Event("failpoint_hits", s.Delay.hits.Load())
	r.Event("failpoint_sleeps", s.Delay.slept.Load())
	if completed {
		r.Event("sessions_completed", 1)
	} else if !sc.Dead {
		r.Event("sessions_incomplete", 1)
		r.Note("session %s/%d did not complete within the step bound; last frames:\n%s", c.Stream, c.Index, sc.Trace())
	}
	for _, rq := range s.Reqs {
		if rq.Started && rq.Finished() {
			if rq.Err == nil {
				r.Event("requests_ok", 1)
			} else {
				r.Event("requests_failed", 1)
			}
		}
	}
	r.EvalHash(resumed > 0, sig.Sum64())
	if resumed > 0 {
		r.Sample(map[string]any{"params": p, "data_frames_on_wire": dataFrames, "streams_resumed_after_block": resumed,
			"final_conn_window": sh.connWin, "settings_acked_on_conn": sh.acks})
	}
}
